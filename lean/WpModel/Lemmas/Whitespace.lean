/-
Lemmas on the white-space scanners of Model/Whitespace.lean used by Props/C08.lean.  Core Lean only.
-/
import WpModel.Model.Whitespace

namespace Wp.Bx

/-- The characters CSS 2.1 §16.6.1 processes: space, tab, line feed, carriage return. -/
def isWhite (c : Nat) : Bool := c == 32 || c == 9 || c == 10 || c == 13

/-- The text without its white space. -/
def nonWhite (t : Text) : Text := t.filter (fun c => !isWhite c)

theorem nonWhite_cons (c : Nat) (t : Text) :
    nonWhite (c :: t) = if isWhite c then nonWhite t else c :: nonWhite t := by
  unfold nonWhite; by_cases h : isWhite c <;> simp [h]

theorem nonWhite_append (a b : Text) : nonWhite (a ++ b) = nonWhite a ++ nonWhite b := by
  simp [nonWhite]

theorem isSpTab_white (c : Nat) (h : isSpTab c = true) : isWhite c = true := by
  simp only [isSpTab, Ch.sp, Ch.tab, Bool.or_eq_true, beq_iff_eq] at h
  rcases h with h | h <;> subst h <;> decide

/-! ### `lineFeed` -/

theorem nonWhite_lineFeedGo (t : Text) (a : Bool) : nonWhite (lineFeedGo t a) = nonWhite t := by
  induction t generalizing a with
  | nil => rfl
  | cons c cs ih =>
    simp only [lineFeedGo, Ch.cr, Ch.lf]
    by_cases h13 : c = 13
    · subst h13; simp [nonWhite_cons, isWhite, ih]
    · by_cases h10 : c = 10
      · subst h10
        cases a <;> simp [nonWhite_cons, isWhite, ih]
      · simp [h13, h10, nonWhite_cons, ih]

theorem mem_lineFeedGo (t : Text) (a : Bool) : ∀ c ∈ lineFeedGo t a, c ≠ 13 ∧ (c ∈ t ∨ c = 10) := by
  induction t generalizing a with
  | nil => intro c hc; simp [lineFeedGo] at hc
  | cons d ds ih =>
    intro c hc
    simp only [lineFeedGo, Ch.cr, Ch.lf] at hc
    by_cases h13 : d = 13
    · subst h13
      simp only [beq_self_eq_true, if_true, List.mem_cons] at hc
      rcases hc with rfl | hc
      · exact ⟨by decide, Or.inr rfl⟩
      · have := ih true c hc
        exact ⟨this.1, this.2.imp (List.mem_cons_of_mem _) id⟩
    · have hb : (d == 13) = false := by simpa using h13
      simp only [hb, Bool.false_eq_true, if_false] at hc
      by_cases h10 : (d == 10 && a) = true
      · simp only [h10, if_true] at hc
        have := ih false c hc
        exact ⟨this.1, this.2.imp (List.mem_cons_of_mem _) id⟩
      · simp only [h10, Bool.false_eq_true, if_false, List.mem_cons] at hc
        rcases hc with rfl | hc
        · exact ⟨h13, Or.inl List.mem_cons_self⟩
        · have := ih false c hc
          exact ⟨this.1, this.2.imp (List.mem_cons_of_mem _) id⟩

/-- A text without carriage return is left alone. -/
theorem lineFeedGo_id (t : Text) (h : ∀ c ∈ t, c ≠ 13) : lineFeedGo t false = t := by
  induction t with
  | nil => rfl
  | cons c cs ih =>
    have h13 : (c == 13) = false := by simpa using h c List.mem_cons_self
    simp only [lineFeedGo, Ch.cr, h13, Bool.false_eq_true, if_false, Bool.and_false]
    rw [ih (fun d hd => h d (List.mem_cons_of_mem _ hd))]

/-! ### `tabSub` -/

theorem nonWhite_spTab (p : List Nat) (h : ∀ c ∈ p, isSpTab c = true) : nonWhite p = [] := by
  induction p with
  | nil => rfl
  | cons c cs ih =>
    rw [nonWhite_cons, isSpTab_white c (h c List.mem_cons_self)]
    simpa using ih (fun d hd => h d (List.mem_cons_of_mem _ hd))

theorem nonWhite_tabSubGo (t : Text) (pend : List Nat) (skip : Bool) (hp : ∀ c ∈ pend, isSpTab c = true) :
    nonWhite (tabSubGo t pend skip) = nonWhite t := by
  induction t generalizing pend skip with
  | nil =>
    simp only [tabSubGo]
    exact nonWhite_spTab _ (by intro c hc; exact hp c (List.mem_reverse.mp hc))
  | cons c cs ih =>
    simp only [tabSubGo]
    by_cases hs : isSpTab c = true
    · simp only [hs, if_true, nonWhite_cons, isSpTab_white c hs]
      cases skip
      · simp only [Bool.false_eq_true, if_false]
        exact ih (c :: pend) false (by intro d hd; cases hd with | head => exact hs | tail _ h => exact hp d h)
      · simp only [if_true]; exact ih [] true (by simp)
    · simp only [hs, Bool.false_eq_true, if_false]
      by_cases h10 : c = Ch.lf
      · subst h10
        simp only [beq_self_eq_true, if_true, nonWhite_cons]
        have : isWhite Ch.lf = true := by decide
        simp only [this, if_true]
        exact ih [] true (by simp)
      · have hb : (c == Ch.lf) = false := by simpa using h10
        simp only [hb, Bool.false_eq_true, if_false, nonWhite_append, nonWhite_cons]
        rw [nonWhite_spTab _ (by intro d hd; exact hp d (List.mem_reverse.mp hd)), ih [] false (by simp)]
        simp

theorem mem_tabSubGo (t : Text) (pend : List Nat) (skip : Bool) :
    ∀ c ∈ tabSubGo t pend skip, c ∈ t ∨ c ∈ pend := by
  induction t generalizing pend skip with
  | nil => intro c hc; simp only [tabSubGo, List.mem_reverse] at hc; exact Or.inr hc
  | cons d ds ih =>
    intro c hc
    simp only [tabSubGo] at hc
    by_cases hs : isSpTab d = true
    · simp only [hs, if_true] at hc
      cases skip
      · simp only [Bool.false_eq_true, if_false] at hc
        rcases ih _ _ c hc with h | h
        · exact Or.inl (List.mem_cons_of_mem _ h)
        · cases h with
          | head => exact Or.inl List.mem_cons_self
          | tail _ h => exact Or.inr h
      · simp only [if_true] at hc
        rcases ih _ _ c hc with h | h
        · exact Or.inl (List.mem_cons_of_mem _ h)
        · cases h
    · simp only [hs, Bool.false_eq_true, if_false] at hc
      by_cases h10 : (d == Ch.lf) = true
      · simp only [h10, if_true, List.mem_cons] at hc
        rcases hc with rfl | hc
        · have : d = Ch.lf := by simpa using h10
          subst this; exact Or.inl List.mem_cons_self
        · rcases ih _ _ c hc with h | h
          · exact Or.inl (List.mem_cons_of_mem _ h)
          · cases h
      · simp only [h10, Bool.false_eq_true, if_false, List.mem_append, List.mem_reverse, List.mem_cons] at hc
        rcases hc with h | rfl | h
        · exact Or.inr h
        · exact Or.inl List.mem_cons_self
        · rcases ih _ _ c h with h | h
          · exact Or.inl (List.mem_cons_of_mem _ h)
          · cases h

/-! ### `nlToSpace`, `spaceSub` -/

theorem nonWhite_nlToSpace (t : Text) : nonWhite (nlToSpace t) = nonWhite t := by
  induction t with
  | nil => rfl
  | cons c cs ih =>
    simp only [nlToSpace, List.map_cons] at ih ⊢
    by_cases h10 : c = Ch.lf
    · subst h10
      simp only [beq_self_eq_true, if_true, nonWhite_cons]
      have h1 : isWhite Ch.sp = true := by decide
      have h2 : isWhite Ch.lf = true := by decide
      simp only [h1, h2, if_true]; exact ih
    · have hb : (c == Ch.lf) = false := by simpa using h10
      simp only [hb, Bool.false_eq_true, if_false, nonWhite_cons, ih]

theorem mem_nlToSpace (t : Text) : ∀ c ∈ nlToSpace t, c ≠ 10 ∧ (c ∈ t ∨ c = 32) := by
  intro c hc
  simp only [nlToSpace, List.mem_map] at hc
  obtain ⟨d, hd, rfl⟩ := hc
  by_cases h10 : d = Ch.lf
  · subst h10; simp [Ch.lf, Ch.sp]
  · have hb : (d == Ch.lf) = false := by simpa using h10
    simp only [hb, Bool.false_eq_true, if_false]
    exact ⟨by simpa [Ch.lf] using h10, Or.inl hd⟩

theorem nonWhite_spaceSubGo (t : Text) (b : Bool) : nonWhite (spaceSubGo t b) = nonWhite t := by
  induction t generalizing b with
  | nil => rfl
  | cons c cs ih =>
    simp only [spaceSubGo]
    by_cases hs : isSpTab c = true
    · simp only [hs, if_true, nonWhite_cons, isSpTab_white c hs]
      cases b
      · have : isWhite Ch.sp = true := by decide
        simp only [Bool.false_eq_true, if_false, nonWhite_cons, this, if_true]; exact ih true
      · simp only [if_true]; exact ih true
    · simp only [hs, Bool.false_eq_true, if_false, nonWhite_cons, ih]

theorem mem_spaceSubGo (t : Text) (b : Bool) : ∀ c ∈ spaceSubGo t b, c ≠ 9 ∧ (c ∈ t ∨ c = 32) := by
  induction t generalizing b with
  | nil => intro c hc; simp [spaceSubGo] at hc
  | cons d ds ih =>
    intro c hc
    simp only [spaceSubGo] at hc
    by_cases hs : isSpTab d = true
    · simp only [hs, if_true] at hc
      cases b
      · simp only [Bool.false_eq_true, if_false, List.mem_cons] at hc
        rcases hc with rfl | hc
        · exact ⟨by decide, Or.inr rfl⟩
        · have := ih true c hc
          exact ⟨this.1, this.2.imp (List.mem_cons_of_mem _) id⟩
      · simp only [if_true] at hc
        have := ih true c hc
        exact ⟨this.1, this.2.imp (List.mem_cons_of_mem _) id⟩
    · simp only [hs, Bool.false_eq_true, if_false, List.mem_cons] at hc
      rcases hc with rfl | hc
      · refine ⟨?_, Or.inl List.mem_cons_self⟩
        intro h9; subst h9; exact hs (by decide)
      · have := ih false c hc
        exact ⟨this.1, this.2.imp (List.mem_cons_of_mem _) id⟩

/-- No two consecutive spaces. -/
def noDoubleSp : Text → Bool
  | a :: b :: rest => !(a == 32 && b == 32) && noDoubleSp (b :: rest)
  | _ => true

theorem noDoubleSp_tail (c : Nat) (t : Text) (h : noDoubleSp (c :: t) = true) : noDoubleSp t = true := by
  cases t with
  | nil => rfl
  | cons d ds => simp only [noDoubleSp, Bool.and_eq_true] at h; exact h.2

theorem noDoubleSp_drop1 (t : Text) (h : noDoubleSp t = true) : noDoubleSp (t.drop 1) = true := by
  cases t with
  | nil => rfl
  | cons c cs => exact noDoubleSp_tail c cs h

theorem noDoubleSp_cons (c : Nat) (t : Text) (h : noDoubleSp t = true) (hc : c ≠ 32 ∨ startsWithSp t = false) :
    noDoubleSp (c :: t) = true := by
  cases t with
  | nil => rfl
  | cons d ds =>
    simp only [noDoubleSp, Bool.and_eq_true, h, and_true]
    rcases hc with hc | hc
    · simp [hc]
    · simp only [startsWithSp, Ch.sp] at hc; simp [hc]

theorem spaceSubGo_spec (t : Text) (b : Bool) :
    noDoubleSp (spaceSubGo t b) = true ∧ (b = true → startsWithSp (spaceSubGo t b) = false) := by
  induction t generalizing b with
  | nil => simp [spaceSubGo, noDoubleSp, startsWithSp]
  | cons c cs ih =>
    simp only [spaceSubGo]
    by_cases hs : isSpTab c = true
    · simp only [hs, if_true]
      cases b
      · simp only [Bool.false_eq_true, if_false, false_implies, and_true]
        exact noDoubleSp_cons _ _ (ih true).1 (Or.inr ((ih true).2 rfl))
      · simp only [if_true]; exact ⟨(ih true).1, fun _ => (ih true).2 rfl⟩
    · simp only [hs, Bool.false_eq_true, if_false]
      have hne : c ≠ 32 := by intro h; subst h; exact hs (by decide)
      refine ⟨noDoubleSp_cons _ _ (ih false).1 (Or.inl hne), fun _ => ?_⟩
      simp only [startsWithSp, Ch.sp]; simpa using hne


/-! ### newline count (pre-line) -/

theorem count_lf_spTab (p : List Nat) (h : ∀ c ∈ p, isSpTab c = true) : p.count 10 = 0 := by
  rw [List.count_eq_zero]
  intro hm
  have := h 10 hm
  simp [isSpTab, Ch.sp, Ch.tab] at this

theorem count10_cons_ne (c : Nat) (t : Text) (h : c ≠ 10) : (c :: t).count 10 = t.count 10 := by
  simp [List.count_cons, h]

theorem count_lf_tabSubGo (t : Text) (pend : List Nat) (skip : Bool) (hp : ∀ c ∈ pend, isSpTab c = true) :
    (tabSubGo t pend skip).count 10 = t.count 10 := by
  induction t generalizing pend skip with
  | nil =>
    simp only [tabSubGo, List.count_nil]
    exact count_lf_spTab _ (by intro c hc; exact hp c (List.mem_reverse.mp hc))
  | cons c cs ih =>
    simp only [tabSubGo]
    by_cases hs : isSpTab c = true
    · have hne : c ≠ 10 := by intro h; subst h; simp [isSpTab, Ch.sp, Ch.tab] at hs
      simp only [hs, if_true, count10_cons_ne c cs hne]
      cases skip
      · simp only [Bool.false_eq_true, if_false]
        exact ih (c :: pend) false (by intro d hd; cases hd with | head => exact hs | tail _ h => exact hp d h)
      · simp only [if_true]; exact ih [] true (by simp)
    · simp only [hs, Bool.false_eq_true, if_false]
      by_cases h10 : c = Ch.lf
      · subst h10
        simp only [beq_self_eq_true, if_true, Ch.lf, List.count_cons_self]
        rw [ih [] true (by simp)]
      · have hb : (c == Ch.lf) = false := by simpa using h10
        have hne : c ≠ 10 := by simpa [Ch.lf] using h10
        simp only [hb, Bool.false_eq_true, if_false, List.count_append, count10_cons_ne _ _ hne]
        rw [count_lf_spTab _ (by intro d hd; exact hp d (List.mem_reverse.mp hd)), ih [] false (by simp)]
        simp

theorem count_lf_spaceSubGo (t : Text) (b : Bool) : (spaceSubGo t b).count 10 = t.count 10 := by
  induction t generalizing b with
  | nil => rfl
  | cons c cs ih =>
    simp only [spaceSubGo]
    by_cases hs : isSpTab c = true
    · have hne : c ≠ 10 := by intro h; subst h; simp [isSpTab, Ch.sp, Ch.tab] at hs
      simp only [hs, if_true, count10_cons_ne c cs hne]
      cases b
      · simp only [Bool.false_eq_true, if_false, Ch.sp]
        rw [count10_cons_ne _ _ (by decide), ih true]
      · simp only [if_true]; exact ih true
    · simp only [hs, Bool.false_eq_true, if_false, List.count_cons, ih]

/-! ### words -/

def flushWord (cur : Text) : List Text := if cur.isEmpty then [] else [cur.reverse]

/-- Maximal runs of non-white characters (`cur`: the run being read, reversed). -/
def wordsGo : Text → Text → List Text
  | [], cur => flushWord cur
  | c :: cs, cur => if isWhite c then flushWord cur ++ wordsGo cs [] else wordsGo cs (c :: cur)

def words (t : Text) : List Text := wordsGo t []

theorem wordsGo_white_prefix (p t cur : Text) (hp : ∀ c ∈ p, isWhite c = true) (hne : p ≠ []) :
    wordsGo (p ++ t) cur = flushWord cur ++ wordsGo t [] := by
  induction p generalizing cur with
  | nil => exact absurd rfl hne
  | cons c cs ih =>
    simp only [List.cons_append, wordsGo, hp c List.mem_cons_self, if_true]
    cases cs with
    | nil => rfl
    | cons d ds =>
      rw [ih [] (fun e he => hp e (List.mem_cons_of_mem _ he)) (by simp)]
      simp [flushWord]

theorem words_lineFeedGo (t : Text) (a : Bool) (cur : Text) (h : a = true → cur = []) :
    wordsGo (lineFeedGo t a) cur = wordsGo t cur := by
  induction t generalizing a cur with
  | nil => rfl
  | cons c cs ih =>
    simp only [lineFeedGo, Ch.cr, Ch.lf]
    by_cases h13 : c = 13
    · subst h13
      have h1 : isWhite 13 = true := by decide
      have h2 : isWhite 10 = true := by decide
      simp only [beq_self_eq_true, if_true, wordsGo, h1, h2]
      rw [ih true [] (fun _ => rfl)]
    · have hb : (c == 13) = false := by simpa using h13
      simp only [hb, Bool.false_eq_true, if_false]
      by_cases h10 : (c == 10 && a) = true
      · simp only [h10, if_true]
        simp only [Bool.and_eq_true, beq_iff_eq] at h10
        obtain ⟨rfl, rfl⟩ := h10
        have h2 : isWhite 10 = true := by decide
        rw [h rfl]
        simp only [wordsGo, h2, if_true, flushWord, List.isEmpty_nil, List.nil_append]
        exact ih false [] (by simp)
      · simp only [h10, Bool.false_eq_true, if_false, wordsGo]
        by_cases hw : isWhite c = true
        · simp only [hw, if_true]; rw [ih false [] (by simp)]
        · simp only [hw, Bool.false_eq_true, if_false]; exact ih false _ (by simp)

theorem words_tabSubGo (t : Text) (pend : List Nat) (skip : Bool) (cur : Text)
    (hp : ∀ c ∈ pend, isSpTab c = true) (hs : skip = true → cur = [] ∧ pend = []) :
    wordsGo (tabSubGo t pend skip) cur = wordsGo (pend.reverse ++ t) cur := by
  induction t generalizing pend skip cur with
  | nil => simp [tabSubGo]
  | cons c cs ih =>
    have hpw : ∀ d ∈ pend.reverse, isWhite d = true :=
      fun d hd => isSpTab_white d (hp d (List.mem_reverse.mp hd))
    simp only [tabSubGo]
    by_cases hsp : isSpTab c = true
    · simp only [hsp, if_true]
      cases skip
      · simp only [Bool.false_eq_true, if_false]
        rw [ih (c :: pend) false cur
          (by intro d hd; cases hd with | head => exact hsp | tail _ h => exact hp d h) (by simp)]
        simp
      · obtain ⟨rfl, rfl⟩ := hs rfl
        simp only [if_true, List.reverse_nil, List.nil_append, wordsGo, isSpTab_white c hsp, flushWord,
          List.isEmpty_nil]
        rw [ih [] true [] (by simp) (by simp)]
        simp
    · simp only [hsp, Bool.false_eq_true, if_false]
      by_cases h10 : c = Ch.lf
      · subst h10
        have h2 : isWhite Ch.lf = true := by decide
        simp only [beq_self_eq_true, if_true, wordsGo, h2]
        rw [ih [] true [] (by simp) (by simp)]
        simp only [List.reverse_nil, List.nil_append]
        by_cases hpe : pend.reverse = []
        · simp [hpe, wordsGo, h2]
        · rw [wordsGo_white_prefix _ _ _ hpw hpe]
          simp [wordsGo, h2, flushWord]
      · have hb : (c == Ch.lf) = false := by simpa using h10
        simp only [hb, Bool.false_eq_true, if_false]
        by_cases hpe : pend.reverse = []
        · simp only [hpe, List.nil_append, wordsGo]
          by_cases hw : isWhite c = true
          · simp only [hw, if_true]; rw [ih [] false [] (by simp) (by simp)]; simp
          · simp only [hw, Bool.false_eq_true, if_false]; rw [ih [] false _ (by simp) (by simp)]; simp
        · rw [wordsGo_white_prefix _ _ _ hpw hpe, wordsGo_white_prefix _ _ _ hpw hpe]
          congr 1
          simp only [wordsGo]
          by_cases hw : isWhite c = true
          · simp only [hw, if_true]; rw [ih [] false [] (by simp) (by simp)]; simp
          · simp only [hw, Bool.false_eq_true, if_false]; rw [ih [] false _ (by simp) (by simp)]; simp

theorem words_nlToSpace (t cur : Text) : wordsGo (nlToSpace t) cur = wordsGo t cur := by
  induction t generalizing cur with
  | nil => rfl
  | cons c cs ih =>
    simp only [nlToSpace, List.map_cons] at ih ⊢
    by_cases h10 : c = Ch.lf
    · subst h10
      have h1 : isWhite Ch.sp = true := by decide
      have h2 : isWhite Ch.lf = true := by decide
      simp only [beq_self_eq_true, if_true, wordsGo, h1, h2, ih]
    · have hb : (c == Ch.lf) = false := by simpa using h10
      simp only [hb, Bool.false_eq_true, if_false, wordsGo, ih]

theorem words_spaceSubGo (t : Text) (b : Bool) (cur : Text) (h : b = true → cur = []) :
    wordsGo (spaceSubGo t b) cur = wordsGo t cur := by
  induction t generalizing b cur with
  | nil => rfl
  | cons c cs ih =>
    simp only [spaceSubGo]
    by_cases hs : isSpTab c = true
    · simp only [hs, if_true, wordsGo, isSpTab_white c hs]
      cases b
      · have h1 : isWhite Ch.sp = true := by decide
        simp only [Bool.false_eq_true, if_false, wordsGo, h1, if_true]
        rw [ih true [] (fun _ => rfl)]
      · rw [h rfl]
        simp only [if_true, flushWord, List.isEmpty_nil, List.nil_append]
        exact ih true [] (fun _ => rfl)
    · simp only [hs, Bool.false_eq_true, if_false, wordsGo]
      by_cases hw : isWhite c = true
      · simp only [hw, if_true]; rw [ih false [] (by simp)]
      · simp only [hw, Bool.false_eq_true, if_false]; exact ih false _ (by simp)

theorem words_drop_sp (t : Text) (h : startsWithSp t = true) : words (t.drop 1) = words t := by
  cases t with
  | nil => rfl
  | cons c cs =>
    simp only [startsWithSp, Ch.sp, beq_iff_eq] at h
    subst h
    have h1 : isWhite 32 = true := by decide
    simp [words, wordsGo, h1, flushWord]

theorem nonWhite_drop_sp (t : Text) (h : startsWithSp t = true) : nonWhite (t.drop 1) = nonWhite t := by
  cases t with
  | nil => rfl
  | cons c cs =>
    simp only [startsWithSp, Ch.sp, beq_iff_eq] at h
    subst h
    have h1 : isWhite 32 = true := by decide
    simp [nonWhite_cons, h1]

end Wp.Bx
