/-
"The next thing at this resume position is a line" (`FirstLine`), and the fact that any strictly later
position designates strictly fewer lines — so the page that starts at such a position shows that line.
-/
import WpModel.Lemmas.Pm2Pages

namespace Wp.PM
open Wp

mutual
/-- Following the resume position and then first children, one reaches a paragraph with a line left. -/
def FirstLine : PBox → Option Resume → Prop
  | .para _ n _ _, σ => paraStart σ < n
  | .block _ _ kids, σ => FirstLineKids kids (skipIdxOf σ) (subSkipOf σ)
def FirstLineKids : List PBox → Nat → Option Resume → Prop
  | [], _, _ => False
  | b :: _, 0, sub => FirstLine b sub
  | _ :: bs, k + 1, sub => FirstLineKids bs k sub
end

theorem paraLines_length (id k n : Nat) : (paraLines id k n).length = n - k := by
  simp [paraLines]

mutual
theorem firstLine_ne : (b : PBox) → ∀ σ, FirstLine b σ → linesFrom b σ ≠ []
  | .para id n lh st => by
    intro σ h he
    simp only [FirstLine] at h
    have := congrArg List.length he
    simp only [linesFrom, paraLines_length, List.length_nil] at this
    omega
  | .block id st kids => by
    intro σ h
    simp only [FirstLine] at h
    simp only [linesFrom]
    exact firstLineKids_ne kids _ _ h
theorem firstLineKids_ne : (bs : List PBox) → ∀ k sub, FirstLineKids bs k sub → linesFromKids bs k sub ≠ []
  | [] => by intro k sub h; simp [FirstLineKids] at h
  | b :: bs => by
    intro k sub h
    cases k with
    | zero =>
      simp only [FirstLineKids] at h
      simp only [linesFromKids]
      intro he
      exact firstLine_ne b sub h (List.append_eq_nil_iff.mp he).1
    | succ k =>
      simp only [FirstLineKids] at h
      simp only [linesFromKids]
      exact firstLineKids_ne bs k sub h
end

mutual
theorem lines_le : (b : PBox) → ∀ σ, (linesFrom b σ).length ≤ (linesFrom b none).length
  | .para id n lh st => by
    intro σ
    simp only [linesFrom, paraLines_length]
    have : paraStart none = 0 := rfl
    omega
  | .block id st kids => by
    intro σ
    simp only [linesFrom, skipIdxOf_none, subSkipOf_none]
    exact linesKids_le kids _ _
theorem linesKids_le : (bs : List PBox) → ∀ k sub,
    (linesFromKids bs k sub).length ≤ (linesFromKids bs 0 none).length
  | [] => by intro k sub; simp [linesFromKids]
  | b :: bs => by
    intro k sub
    cases k with
    | zero =>
      simp only [linesFromKids, List.length_append]
      have := lines_le b sub
      omega
    | succ k =>
      simp only [linesFromKids, List.length_append]
      have := linesKids_le bs k sub
      omega
end

mutual
/-- A strictly later position designates strictly fewer lines when the earlier one sits on a line. -/
theorem lines_lt : (b : PBox) → ∀ σ ρ, FirstLine b σ → pos b σ < pos b ρ →
    (linesFrom b ρ).length < (linesFrom b σ).length
  | .para id n lh st => by
    intro σ ρ h hp
    simp only [FirstLine] at h
    simp only [pos] at hp
    simp only [linesFrom, paraLines_length]
    omega
  | .block id st kids => by
    intro σ ρ h hp
    simp only [FirstLine] at h
    simp only [pos] at hp
    simp only [linesFrom]
    exact linesKids_lt kids _ _ _ _ h hp
theorem linesKids_lt : (bs : List PBox) → ∀ k sub k' sub', FirstLineKids bs k sub →
    posKids bs k sub < posKids bs k' sub' →
    (linesFromKids bs k' sub').length < (linesFromKids bs k sub).length
  | [] => by intro k sub k' sub' h; simp [FirstLineKids] at h
  | b :: bs => by
    intro k sub k' sub' h hp
    cases k with
    | zero =>
      simp only [FirstLineKids] at h
      cases k' with
      | zero =>
        simp only [posKids] at hp
        simp only [linesFromKids, List.length_append]
        have := lines_lt b sub sub' h hp
        omega
      | succ k' =>
        simp only [linesFromKids, List.length_append]
        have h1 := linesKids_le bs k' sub'
        have h2 : (linesFrom b sub).length ≠ 0 := by
          intro he
          exact firstLine_ne b sub h (List.length_eq_zero_iff.mp he)
        omega
    | succ k =>
      simp only [FirstLineKids] at h
      cases k' with
      | zero =>
        simp only [posKids] at hp
        have := pos_lt_size b sub'
        omega
      | succ k' =>
        simp only [posKids] at hp
        simp only [linesFromKids]
        exact linesKids_lt bs k sub k' sub' h (by omega)
end

theorem firstLineKids_of_get (bs : List PBox) (k : Nat) (sub : Option Resume) (b : PBox)
    (hb : bs[k]? = some b) (h : FirstLine b sub) : FirstLineKids bs k sub := by
  induction bs generalizing k with
  | nil => simp at hb
  | cons x bs ih =>
    cases k with
    | zero => simp at hb; subst hb; simpa [FirstLineKids] using h
    | succ k => simp only [FirstLineKids]; exact ih k (by simpa using hb)

/-- If `b` starts with a line, the resume position "start of `b`" sits on that line. -/
theorem firstLine_resAt : ∀ (π : List Nat) (box : PBox) (j : Nat) (a b : PBox), SibAt box π j a b →
    FirstLine b none → FirstLine box (some (resAt π j))
  | [], box, j, a, b => by
    intro hs hb
    cases box with
    | para _ _ _ _ => simp [SibAt] at hs
    | block id st kids =>
      simp only [SibAt] at hs
      simp only [FirstLine, resAt, skipIdxOf_node, subSkipOf_node]
      exact firstLineKids_of_get kids (j + 1) none b hs.2 hb
  | i :: π, box, j, a, b => by
    intro hs hb
    cases box with
    | para _ _ _ _ => simp [SibAt] at hs
    | block id st kids =>
      simp only [SibAt] at hs
      obtain ⟨k, hk, hsk⟩ := hs
      simp only [FirstLine, resAt, skipIdxOf_node, subSkipOf_node]
      exact firstLineKids_of_get kids i _ k hk (firstLine_resAt π k j a b hsk hb)

/-- **The page that starts on a line shows it.** -/
theorem page_first_line (d : Doc) (hg : Good d.root) (index : Nat) (resume : Option Resume) (np : NextPage)
    (right : Bool) (p : Page) (hp : remakePage d index resume np right = some p) (hb : p.type.blank = false)
    (hfl : FirstLine d.root resume) :
    fragLines p.root ≠ [] ∧ (fragLines p.root).head? = (linesFrom d.root resume).head? := by
  obtain ⟨hl, hprog⟩ := (remakePage_lines d hg index resume np right p hp).2 hb
  have hne : fragLines p.root ≠ [] := by
    cases hr : p.resume with
    | none =>
      rw [hr] at hl
      simp only [restOut, List.append_nil] at hl
      rw [hl]; exact firstLine_ne _ _ hfl
    | some r =>
      have hlt := lines_lt d.root resume (some r) hfl (hprog r hr)
      rw [hr] at hl
      simp only [restOut] at hl
      intro he
      rw [he, List.nil_append] at hl
      rw [hl] at hlt
      omega
  refine ⟨hne, ?_⟩
  rw [← hl]
  cases hq : fragLines p.root with
  | nil => exact absurd hq hne
  | cons x xs => rfl

end Wp.PM
