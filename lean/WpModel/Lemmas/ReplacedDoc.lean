/-
C13 — lemmas for the document-level composition `Model/ReplacedDoc.lean` (computed style of an `<img>` →
`resolve_percentages` → `inline_replaced_box_layout`).
-/
import WpModel.Lemmas.Replaced
import WpModel.Model.ReplacedDoc

set_option linter.unusedVariables false
set_option linter.unusedSimpArgs false

namespace Wp.C13
open Wp Wp.Replaced

/-- Every sizing property at its initial value: `resolve_percentages` leaves both sizes `auto`, the minima 0
and the maxima infinite, whatever the containing block. -/
theorem resolve_auto (c : CssBox) (cbw : Rat) (cbh : Len) (px : Rat)
    (hw : c.width = none) (hh : c.height = none) (hminw : c.minWidth = none) (hminh : c.minHeight = none)
    (hmaxw : c.maxWidth = none) (hmaxh : c.maxHeight = none) :
    (resolvePercentages c cbw cbh px).width = none ∧ (resolvePercentages c cbw cbh px).height = none ∧
    (resolvePercentages c cbw cbh px).minWidth = 0 ∧ (resolvePercentages c cbw cbh px).minHeight = 0 ∧
    (resolvePercentages c cbw cbh px).maxWidth = none ∧ (resolvePercentages c cbw cbh px).maxHeight = none := by
  cases cbh <;> simp [resolvePercentages, hw, hh, hminw, hminh, hmaxw, hmaxh]

/-- `replaced_box_height` (decorated) never touches the width. -/
theorem replacedBoxHeight_keeps_width (i : Intr) (b b' : RBox) (h : replacedBoxHeight i b = .ok b') :
    b'.width = b.width := by
  unfold replacedBoxHeight withMinMaxHeight at h
  simp only [bind, Except.bind] at h
  rcases h1 : rbhCore i b with e | b1
  · simp [h1] at h
  · simp only [h1] at h
    obtain ⟨x1, rfl, _⟩ := rbhCore_ok i b b1 h1
    rcases h2 : mmhMax (rbhCore i) b.marginTop b.marginBottom { b with height := some x1 } with e | b2
    · simp [h2] at h
    · simp only [h2] at h
      have w2 : b2.width = b.width := by
        unfold mmhMax at h2
        simp only [num, bind, Except.bind] at h2
        rcases hm : b.maxHeight with _ | m
        · simp [hm, pure, Except.pure] at h2; subst h2; rfl
        · simp only [hm] at h2
          split_ifs at h2
          · obtain ⟨x2, rfl, _⟩ := rbhCore_ok i _ b2 h2; rfl
          · simp [pure, Except.pure] at h2; subst h2; rfl
      unfold mmhMin at h
      rcases hh2 : b2.height with _ | hh
      · simp [hh2, num, bind, Except.bind] at h
      · simp only [hh2, num, bind, Except.bind] at h
        split_ifs at h
        · obtain ⟨x3, rfl, _⟩ := rbhCore_ok i _ b' h; exact w2
        · simp [pure, Except.pure] at h; subst h; exact w2

/-- `inline_replaced_box_width_height` with a specified size: the used width is clamped. -/
theorem irwh_bounds (i : Intr) (cb : Cb) (b0 b' : RBox) (h : inlineReplacedWH false i cb b0 = .ok b') :
    ∃ w, b'.width = some w ∧ b0.minWidth ≤ w ∧ (w = b0.minWidth ∨ ∀ m, b0.maxWidth = some m → w ≤ m) := by
  simp only [inlineReplacedWH, Bool.false_eq_true, if_false, bind, Except.bind] at h
  rcases h1 : replacedBoxWidth i cb b0 with e | b1
  · simp [h1] at h
  · simp only [h1] at h
    obtain ⟨w, hw, hge, hor⟩ := (withMinMaxWidth_bounds _ (rbw_widthFn i cb) b0 b1 h1).2.2
    exact ⟨w, by rw [replacedBoxHeight_keeps_width i b1 b' h, hw], hge, hor⟩

theorem irl_bounds (i : Intr) (cb : Cb) (b b' : RBox) (h : inlineReplacedBoxLayout false i cb b = .ok b') :
    ∃ w, b'.width = some w ∧ b.minWidth ≤ w ∧ (w = b.minWidth ∨ ∀ m, b.maxWidth = some m → w ≤ m) :=
  irwh_bounds i cb { b with
    marginTop := some (b.marginTop.getD 0), marginRight := some (b.marginRight.getD 0),
    marginBottom := some (b.marginBottom.getD 0), marginLeft := some (b.marginLeft.getD 0) } b' h


end Wp.C13
