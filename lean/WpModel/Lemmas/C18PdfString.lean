/-
Helper lemmas for C18: `pydyf.String.data` read back by a PDF reader.  Core Lean only.
-/
import WpModel.Model.C18PdfString

namespace Wp.C18
open Wp Wp.PdfStr

/-! ### literal strings -/

theorem readLit_escape (rest : List Nat) :
    ∀ (s acc : List Nat), (∀ b ∈ s, b ≠ 13) →
      readLit .normal 1 acc (escapeLit s ++ 41 :: rest) = some (acc.reverse ++ s, rest) := by
  intro s
  induction s with
  | nil => intro acc _; simp [escapeLit, readLit, stepByte, normalByte]
  | cons b s ih =>
    intro acc h
    have hb : b ≠ 13 := h b (by simp)
    have hs : ∀ x ∈ s, x ≠ 13 := fun x hx => h x (by simp [hx])
    by_cases h92 : b = 92
    · subst h92
      simp only [escapeLit, beq_self_eq_true, Bool.true_or, if_true, List.cons_append, readLit, stepByte, normalByte,
        escByte]
      simp only [show (92 == 110) = false from rfl, show (92 == 114) = false from rfl, show (92 == 116) = false from rfl,
        show (92 == 98) = false from rfl, show (92 == 102) = false from rfl, show (92 == 13) = false from rfl,
        show (92 == 10) = false from rfl, show isOct 92 = false from rfl, Bool.false_eq_true, if_false]
      rw [ih (92 :: acc) hs]; simp
    · by_cases h40 : b = 40
      · subst h40
        simp only [escapeLit, show (40 == 92) = false from rfl, beq_self_eq_true, Bool.false_or, Bool.true_or, if_true,
          List.cons_append, readLit, stepByte, normalByte, escByte]
        simp only [show (40 == 110) = false from rfl, show (40 == 114) = false from rfl, show (40 == 116) = false from rfl,
          show (40 == 98) = false from rfl, show (40 == 102) = false from rfl, show (40 == 13) = false from rfl,
          show (40 == 10) = false from rfl, show isOct 40 = false from rfl, Bool.false_eq_true, if_false]
        rw [ih (40 :: acc) hs]; simp
      · by_cases h41 : b = 41
        · subst h41
          simp only [escapeLit, show (41 == 92) = false from rfl, show (41 == 40) = false from rfl, beq_self_eq_true,
            Bool.false_or, Bool.or_true, if_true, List.cons_append, readLit, stepByte, normalByte, escByte]
          simp only [show (41 == 110) = false from rfl, show (41 == 114) = false from rfl,
            show (41 == 116) = false from rfl, show (41 == 98) = false from rfl, show (41 == 102) = false from rfl,
            show (41 == 13) = false from rfl, show (41 == 10) = false from rfl, show isOct 41 = false from rfl,
            Bool.false_eq_true, if_false]
          rw [ih (41 :: acc) hs]; simp
        · have e1 : (b == 92) = false := by simpa using h92
          have e2 : (b == 40) = false := by simpa using h40
          have e3 : (b == 41) = false := by simpa using h41
          have e4 : (b == 13) = false := by simpa using hb
          simp only [escapeLit, e1, e2, e3, Bool.or_self, Bool.false_eq_true, if_false, List.cons_append, readLit,
            stepByte, normalByte, e4]
          rw [ih (b :: acc) hs]; simp

/-! ### hexadecimal strings -/

theorem hexDigit_spec : ∀ n, n < 16 → hexVal (hexDigit n) = some n ∧ isPdfWs (hexDigit n) = false ∧
    hexDigit n ≠ 62 := by decide

theorem readHex_hexBytes (rest : List Nat) :
    ∀ (bs acc : List Nat), (∀ b ∈ bs, b < 256) →
      readHex none acc (hexBytes bs ++ 62 :: rest) = some (acc.reverse ++ bs, rest) := by
  intro bs
  induction bs with
  | nil => intro acc _; simp [hexBytes, readHex]
  | cons b bs ih =>
    intro acc h
    have hb : b < 256 := h b (by simp)
    obtain ⟨h1, h2, h3⟩ := hexDigit_spec (b / 16) (by omega)
    obtain ⟨h4, h5, h6⟩ := hexDigit_spec (b % 16) (by omega)
    have step : ∀ (p : Option Nat) (a : List Nat) (n : Nat) (t : List Nat), n < 16 →
        readHex p a (hexDigit n :: t) = match p with
          | none => readHex (some n) a t
          | some hh => readHex none ((hh * 16 + n) :: a) t := by
      intro p a n t hn
      obtain ⟨g1, g2, g3⟩ := hexDigit_spec n hn
      have g4 : (hexDigit n == 62) = false := by simpa using g3
      simp only [readHex, g4, g2, g1, Bool.false_eq_true, if_false]
      cases p <;> rfl
    simp only [hexBytes, List.cons_append]
    rw [step none acc (b / 16) _ (by omega)]
    simp only []
    rw [step (some (b / 16)) acc (b % 16) _ (by omega)]
    simp only []
    have : b / 16 * 16 + b % 16 = b := by omega
    rw [this, ih (b :: acc) (fun x hx => h x (by simp [hx]))]
    simp

/-! ### UTF-16 -/

/-- Unicode scalar values: what a Python `str` can hold and `'utf-16-be'` can encode. -/
def Scalar (c : Nat) : Prop := c < 1114112 ∧ ¬ (55296 ≤ c ∧ c < 57344)

theorem utf16be_bytes (c : Nat) (h : Scalar c) : ∀ b ∈ utf16be c, b < 256 := by
  unfold utf16be
  obtain ⟨h1, h2⟩ := h
  split
  · intro b hb; simp at hb; omega
  · intro b hb; simp at hb; omega

/-- Code units of a scalar value. -/
def unitsOf (c : Nat) : List Nat :=
  if c < 65536 then [c] else [55296 + (c - 65536) / 1024, 56320 + (c - 65536) % 1024]

theorem units_utf16be (c : Nat) (t : List Nat) :
    units (utf16be c ++ t) = (units t).map (fun r => unitsOf c ++ r) := by
  unfold utf16be unitsOf
  by_cases hb : c < 65536
  · simp only [if_pos hb, List.cons_append, List.nil_append, units]
    have e : c / 256 * 256 + c % 256 = c := Nat.div_add_mod' c 256
    rw [e]
  · simp only [if_neg hb, List.cons_append, List.nil_append, units, Option.map_map]
    generalize c - 65536 = v
    rw [Nat.div_add_mod' (55296 + v / 1024) 256, Nat.div_add_mod' (56320 + v % 1024) 256]
    rfl

theorem units_flatMap (s : List Nat) : units (s.flatMap utf16be) = some (s.flatMap unitsOf) := by
  induction s with
  | nil => rfl
  | cons c s ih => rw [List.flatMap_cons, units_utf16be, ih]; rfl

theorem combine_unitsOf (c : Nat) (h : Scalar c) (t : List Nat) :
    combine (unitsOf c ++ t) = (combine t).map (fun r => c :: r) := by
  obtain ⟨h1, h2⟩ := h
  unfold unitsOf
  by_cases hb : c < 65536
  · have n1 : isHigh c = false := by
      simp only [isHigh, Bool.and_eq_false_iff, decide_eq_false_iff_not]; omega
    have n2 : isLow c = false := by
      simp only [isLow, Bool.and_eq_false_iff, decide_eq_false_iff_not]; omega
    rw [if_pos hb]
    simp only [List.cons_append, List.nil_append]
    rw [combine.eq_def]
    simp only [n1, n2, Bool.false_eq_true, if_false]
  · have hv : ∃ v, c - 65536 = v ∧ v < 1048576 ∧ c = 65536 + v := ⟨c - 65536, rfl, by omega, by omega⟩
    obtain ⟨v, hv1, hv2, hv3⟩ := hv
    have p1 : isHigh (55296 + v / 1024) = true := by
      simp only [isHigh, Bool.and_eq_true, decide_eq_true_eq]; omega
    have p2 : isLow (56320 + v % 1024) = true := by
      simp only [isLow, Bool.and_eq_true, decide_eq_true_eq]; omega
    rw [if_neg hb]
    simp only [hv1, List.cons_append, List.nil_append]
    rw [combine.eq_def]
    simp only [p1, p2, if_true]
    have e3 : 65536 + (55296 + v / 1024 - 55296) * 1024 + (56320 + v % 1024 - 56320) = c := by omega
    rw [e3]

theorem combine_flatMap (s : List Nat) (h : ∀ c ∈ s, Scalar c) : combine (s.flatMap unitsOf) = some s := by
  induction s with
  | nil => rfl
  | cons c s ih =>
    simp only [List.flatMap_cons]
    rw [combine_unitsOf c (h c (by simp)), ih (fun x hx => h x (by simp [hx]))]
    rfl

theorem utf16_roundtrip (s : List Nat) (h : ∀ c ∈ s, Scalar c) : utf16Decode (s.flatMap utf16be) = some s := by
  unfold utf16Decode
  rw [units_flatMap]
  exact combine_flatMap s h

theorem docDecode_plain (s : List Nat) (h : ∀ c ∈ s, c < 127 ∧ ¬ (24 ≤ c ∧ c < 32)) : docDecode s = some s := by
  induction s with
  | nil => rfl
  | cons c s ih =>
    obtain ⟨h1, h2⟩ := h c (by simp)
    have hc : pdfDocChar c = some c := by
      unfold pdfDocChar
      have : ∀ k, 24 ≤ k → k < 32 → (c == k) = false := by
        intro k hk1 hk2; simp only [beq_eq_false_iff_ne, ne_eq]; omega
      simp only [this 24 (by omega) (by omega), this 25 (by omega) (by omega), this 26 (by omega) (by omega),
        this 27 (by omega) (by omega), this 28 (by omega) (by omega), this 29 (by omega) (by omega),
        this 30 (by omega) (by omega), this 31 (by omega) (by omega), Bool.false_eq_true, if_false, h1, if_true]
    simp only [docDecode, hc, ih (fun x hx => h x (by simp [hx]))]

end Wp.C18
