/-
Lemmas for C09 (Props/C09.lean states the property theorems and points here for the proofs).
Everything is about `Model/Pango.lean` (the assumed fixed-pitch Pango) and `Model/LineBreak.lean`.
Core Lean only (no Mathlib).
-/
import WpModel.Model.LineBreak

namespace Wp.C09L
open Wp Wp.Py Wp.Pango Wp.LB

theorem text_wrap_values (w : WS) : w.textWrap = true ↔ (w = .normal ∨ w = .preWrap ∨ w = .preLine) := by
  cases w <;> decide
theorem space_collapse_values (w : WS) : w.spaceCollapse = true ↔ (w = .normal ∨ w = .nowrap ∨ w = .preLine) := by
  cases w <;> decide
theorem layout_wrap_eq_text_wrap (w : WS) : w.layoutWrap = w.textWrap := by cases w <;> decide
theorem collapse_tables_agree (w : WS) :
    w.skipFirst = w.spaceCollapse ∧ w.removeLast = w.spaceCollapse ∧ w.alignCollapse = w.spaceCollapse := by
  cases w <;> decide
theorem word_breaking_values (o : OW) : o.wordBreaking = true ↔ (o = .anywhere ∨ o = .breakWord) := by
  cases o <;> decide
theorem can_break_keywords : Gen.LineBreak.canBreakKeywords = [WB.breakAll.css, OW.anywhere.css, OW.breakWord.css] := by decide
theorem physical_align_values (a : Align) :
    Gen.LineBreak.physicalAlignValues.contains a.css = true ↔ (a = .left ∨ a = .right) := by
  cases a <;> decide
theorem keywords_complete :
    Gen.LineBreak.whiteSpaceKeywords.all (fun k => (WS.ofCss? k).isSome) = true ∧
    WS.all.all (fun w => Gen.LineBreak.whiteSpaceKeywords.contains w.css) = true ∧
    Gen.LineBreak.overflowWrapKeywords.all (fun k => (OW.ofCss? k).isSome) = true ∧
    OW.all.all (fun w => Gen.LineBreak.overflowWrapKeywords.contains w.css) = true ∧
    Gen.LineBreak.wordBreakKeywords.all (fun k => (WB.ofCss? k).isSome) = true ∧
    WB.all.all (fun w => Gen.LineBreak.wordBreakKeywords.contains w.css) = true ∧
    Gen.LineBreak.textAlignAllKeywords.all (fun k => (Align.ofCss? k).isSome) = true ∧
    Align.all.all (fun w => Gen.LineBreak.textAlignAllKeywords.contains w.css) = true ∧
    Gen.LineBreak.textAlignLastKeywords.all (fun k => k == "auto" || (Align.ofCss? k).isSome) = true := by decide
theorem width_limit_covers_domain : ((60 * 40 : Nat) : Rat) < (2 : Rat) ^ Gen.LineBreak.maxWidthLog2 := by decide +kernel
theorem fudge_bounds : (1 : Rat) < Gen.LineBreak.fudge ∧ Gen.LineBreak.fudge ≤ 1 + 1 / 1000000000 := by decide +kernel
theorem newline_is_preserved_break : Gen.LineBreak.lineBreakChars.contains ('\n').toNat = true := by decide
theorem ratio_pos : 0 < Gen.LineBreak.ratio := by decide
theorem newline_keep_ge_one : 1 ≤ Gen.LineBreak.newlineKeep := by decide


/-- the break opportunities Pango considers inside the paragraph -/
def opportunities (wc : Bool) (P : Text) : List Nat := (List.range P.length).filter (canBreakAt wc P)

/-- the paragraph end fits (with the end discount) -/
def endFits (fs : Rat) (P : Text) (endDiscount : Bool) (W : Rat) : Prop :=
  (P.length : Rat) * fs + (if P[P.length - 1]? == some ' ' && endDiscount then -fs else 0) ≤ W

theorem mem_opportunities {wc : Bool} {P : Text} {q : Nat} :
    q ∈ opportunities wc P ↔ q < P.length ∧ canBreakAt wc P q = true := by
  simp [opportunities, List.mem_filter, List.mem_range]

theorem opportunity_pos {wc : Bool} {P : Text} {q : Nat} (h : canBreakAt wc P q = true) : 0 < q := by
  simp [canBreakAt] at h; exact h.1

theorem firstBreak_eq (fs : Rat) (hy wc : Bool) (P : Text) (ed : Bool) (W : Rat) :
    firstBreak fs hy wc P ed (some W) =
      if P.length = 0 then 0 else
      if (P.length : Rat) * fs + (if P[P.length - 1]? == some ' ' && ed then -fs else 0) ≤ W then P.length else
      match ((opportunities wc P).filter (fitsAt fs hy wc P W)).getLast? with
      | some q => q
      | none => match (opportunities wc P).head? with
        | some q => q
        | none => P.length := rfl

/-- The outcomes of Pango's first-line search. -/
theorem firstBreak_cases (fs : Rat) (hy wc : Bool) (P : Text) (ed : Bool) (W : Rat) (p : Nat)
    (hp0 : firstBreak fs hy wc P ed (some W) = p) :
    (p = P.length ∧ (P = [] ∨ endFits fs P ed W)) ∨
    (¬ endFits fs P ed W ∧ p ∈ opportunities wc P ∧ fitsAt fs hy wc P W p = true ∧
        ∀ q ∈ opportunities wc P, p < q → fitsAt fs hy wc P W q = false) ∨
    (¬ endFits fs P ed W ∧ (∀ q ∈ opportunities wc P, fitsAt fs hy wc P W q = false) ∧
        (opportunities wc P).head? = some p) ∨
    (¬ endFits fs P ed W ∧ opportunities wc P = [] ∧ p = P.length) := by
  rw [firstBreak_eq] at hp0
  by_cases h0 : P.length = 0
  · left; simp [h0] at hp0; exact ⟨by omega, Or.inl (List.length_eq_zero_iff.mp h0)⟩
  · by_cases hfit : endFits fs P ed W
    · left
      refine ⟨?_, Or.inr hfit⟩
      unfold endFits at hfit
      simp only [h0, if_false, hfit, if_true] at hp0
      exact hp0.symm
    · right
      have hp : p = (match ((opportunities wc P).filter (fitsAt fs hy wc P W)).getLast? with
          | some q => q
          | none => match (opportunities wc P).head? with
            | some q => q
            | none => P.length) := by
        unfold endFits at hfit
        simp only [h0, if_false, hfit] at hp0
        exact hp0.symm
      cases hl : ((opportunities wc P).filter (fitsAt fs hy wc P W)).getLast? with
      | some q =>
        left
        rw [hl] at hp; simp only at hp
        refine ⟨hfit, ?_⟩
        rw [hp]
        have hmem := List.mem_of_getLast? hl
        rw [List.mem_filter] at hmem
        refine ⟨hmem.1, hmem.2, ?_⟩
        intro r hr hlt
        obtain ⟨ys, hys⟩ := List.getLast?_eq_some_iff.mp hl
        cases hfr : fitsAt fs hy wc P W r with
        | false => rfl
        | true =>
          exfalso
          have hrmem : r ∈ (opportunities wc P).filter (fitsAt fs hy wc P W) := List.mem_filter.mpr ⟨hr, hfr⟩
          have hpw : List.Pairwise (· < ·) ((opportunities wc P).filter (fitsAt fs hy wc P W)) :=
            (List.pairwise_lt_range.filter _).filter _
          rw [hys] at hrmem hpw
          rw [List.pairwise_append] at hpw
          rcases List.mem_append.mp hrmem with h1 | h1
          · have := hpw.2.2 r h1 q (by simp)
            omega
          · simp at h1; omega
      | none =>
        right
        rw [hl] at hp; simp only at hp
        have hnone : ∀ q ∈ opportunities wc P, fitsAt fs hy wc P W q = false := by
          intro q hq
          have := List.getLast?_eq_none_iff.mp hl
          cases hfq : fitsAt fs hy wc P W q with
          | false => rfl
          | true =>
            have : q ∈ (opportunities wc P).filter (fitsAt fs hy wc P W) := List.mem_filter.mpr ⟨hq, hfq⟩
            simp_all
        cases hh : (opportunities wc P).head? with
        | some q =>
          left
          rw [hh] at hp; simp only at hp
          exact ⟨hfit, hnone, by rw [hp]⟩
        | none =>
          right
          rw [hh] at hp; simp only at hp
          exact ⟨hfit, List.head?_eq_none_iff.mp hh, hp⟩




theorem opportunities_sorted (wc : Bool) (P : Text) : List.Pairwise (· < ·) (opportunities wc P) :=
  List.pairwise_lt_range.filter _

theorem head_le_of_mem {l : List Nat} (hs : List.Pairwise (· < ·) l) {p q : Nat}
    (hh : l.head? = some p) (hq : q ∈ l) : p ≤ q := by
  obtain ⟨ys, rfl⟩ := List.head?_eq_some_iff.mp hh
  rcases List.mem_cons.mp hq with h | h
  · omega
  · have := (List.pairwise_cons.mp hs).1 q h; omega

theorem firstBreak_none (fs : Rat) (hy wc : Bool) (P : Text) (ed : Bool) :
    firstBreak fs hy wc P ed none = P.length := rfl

/-- Pango never puts more than the paragraph on the line. -/
theorem firstBreak_le (fs : Rat) (hy wc : Bool) (P : Text) (ed : Bool) (W : Option Rat) :
    firstBreak fs hy wc P ed W ≤ P.length := by
  cases W with
  | none => simp [firstBreak_none]
  | some W =>
    rcases firstBreak_cases fs hy wc P ed W _ rfl with h | h | h | h
    · omega
    · have := (mem_opportunities.mp h.2.1).1; omega
    · have := (mem_opportunities.mp (List.mem_of_head? h.2.2)).1; omega
    · omega

/-- … and at least one character of a non-empty paragraph (progress). -/
theorem firstBreak_pos (fs : Rat) (hy wc : Bool) (P : Text) (ed : Bool) (W : Option Rat) (hP : P ≠ []) :
    0 < firstBreak fs hy wc P ed W := by
  have hn : 0 < P.length := List.length_pos_iff.mpr hP
  cases W with
  | none => simpa [firstBreak_none] using hn
  | some W =>
    rcases firstBreak_cases fs hy wc P ed W _ rfl with h | h | h | h
    · omega
    · exact opportunity_pos (mem_opportunities.mp h.2.1).2
    · exact opportunity_pos (mem_opportunities.mp (List.mem_of_head? h.2.2)).2
    · omega

/-- **Breaks only at opportunities**: the line ends at the paragraph end or at a break opportunity
(after a run of spaces under WRAP_WORD). -/
theorem firstBreak_at_opportunity (fs : Rat) (hy wc : Bool) (P : Text) (ed : Bool) (W : Option Rat) :
    firstBreak fs hy wc P ed W = P.length ∨
      canBreakAt wc P (firstBreak fs hy wc P ed W) = true := by
  cases W with
  | none => left; rfl
  | some W =>
    rcases firstBreak_cases fs hy wc P ed W _ rfl with h | h | h | h
    · left; exact h.1
    · right; exact (mem_opportunities.mp h.2.1).2
    · right; exact (mem_opportunities.mp (List.mem_of_head? h.2.2)).2
    · left; exact h.2.2

/-- **Greedy, first half**: the line fits in the width, or it is a single unbreakable unit (it ends at
the first opportunity of the paragraph, or the paragraph has none). -/
theorem firstBreak_fits_or_unit (fs : Rat) (hy wc : Bool) (P : Text) (ed : Bool) (W : Rat) :
    let p := firstBreak fs hy wc P ed (some W)
    (p = P.length ∧ (P = [] ∨ endFits fs P ed W)) ∨ fitsAt fs hy wc P W p = true ∨
      (∀ q ∈ opportunities wc P, p ≤ q) := by
  intro p
  rcases firstBreak_cases fs hy wc P ed W p rfl with h | h | h | h
  · left; exact h
  · right; left; exact h.2.2.1
  · right; right; intro q hq; exact head_le_of_mem (opportunities_sorted wc P) h.2.2 hq
  · right; right; intro q hq; rw [h.2.1] at hq; cases hq

/-- **Greedy, second half (first-fit maximality)**: no later opportunity fits, and if the line stops
before the paragraph end then the whole paragraph does not fit. -/
theorem firstBreak_maximal (fs : Rat) (hy wc : Bool) (P : Text) (ed : Bool) (W : Rat) :
    let p := firstBreak fs hy wc P ed (some W)
    (∀ q ∈ opportunities wc P, p < q → fitsAt fs hy wc P W q = false) ∧
      (p < P.length → ¬ endFits fs P ed W) := by
  intro p
  rcases firstBreak_cases fs hy wc P ed W p rfl with h | h | h | h
  · refine ⟨?_, by omega⟩
    intro q hq hlt; have := (mem_opportunities.mp hq).1; omega
  · exact ⟨h.2.2.2, fun _ => h.1⟩
  · exact ⟨fun q hq _ => h.2.1 q hq, fun _ => h.1⟩
  · refine ⟨?_, fun _ => h.1⟩
    intro q hq; rw [h.2.1] at hq; cases hq

/-- `firstLine`: the second line never starts at offset 0 (the code's `assert resume_index != 0`). -/
theorem paraOf_length_le (T : Text) : (paraOf T).length ≤ T.length := by
  unfold paraOf; split <;> simp [List.length_take]; omega

theorem firstLine_resume_pos (fs : Rat) (lay : Layout) (i : Nat)
    (h : (firstLine fs lay).resume = some i) : 0 < i := by
  unfold firstLine at h
  simp only at h
  split at h
  · rename_i hlt
    simp only [Option.some.injEq] at h
    rw [← h]
    apply firstBreak_pos
    intro hP
    rw [hP] at hlt
    simp at hlt
  · cases hnl : find lay.text '\n' with
    | none => rw [hnl] at h; simp at h
    | some j => rw [hnl] at h; simp at h; omega

theorem firstLine_length_le (fs : Rat) (lay : Layout) : (firstLine fs lay).length ≤ lay.text.length := by
  unfold firstLine
  simp only
  split
  · rename_i hlt
    exact Nat.le_trans (Nat.le_of_lt hlt) (paraOf_length_le _)
  · exact paraOf_length_le _


theorem find_some_lt {t : Text} {c : Char} {i : Nat} (h : find t c = some i) : i < t.length := by
  unfold find at h
  exact (List.findIdx?_eq_some_iff_findIdx_eq.mp h).1

theorem truncNl_eq_nil {t : Text} (h : truncNl t = []) : t = [] := by
  unfold truncNl at h
  split at h
  · exact h
  · rename_i i hi
    have := find_some_lt hi
    cases t with
    | nil => rfl
    | cons a as => simp [Gen.LineBreak.newlineKeep] at h

theorem paraOf_of_find_none {T : Text} (h : find T '\n' = none) : paraOf T = T := by
  unfold paraOf; rw [h]

/-- an empty first line without a second line means an empty layout text -/
theorem firstLine_empty (fs : Rat) (lay : Layout)
    (hr : (firstLine fs lay).resume = none) (hl : (firstLine fs lay).length = 0) : lay.text = [] := by
  unfold firstLine at hr hl
  simp only at hr hl
  split at hr
  · simp at hr
  · simp only [Option.map_eq_none_iff] at hr
    rw [if_neg (by assumption)] at hl
    simp only at hl
    rw [paraOf_of_find_none hr] at hl
    exact List.length_eq_zero_iff.mp hl

theorem flm_resume (fs : Rat) (line : Line) (text : Text) (lay : Layout) (ra : Option Nat) (c : Bool) :
    (firstLineMetrics fs line text lay ra c).resume = ra := by
  unfold firstLineMetrics
  split
  · split <;> rfl
  · rfl

theorem step5Resume_ne_zero (fs : Rat) (lay : Layout) (text : Text) (ht : lay.text = truncNl text) :
    step5Resume (firstLine fs lay) text ≠ some 0 := by
  unfold step5Resume
  cases hres : (firstLine fs lay).resume with
  | some i =>
    have hpos := firstLine_resume_pos _ _ _ hres
    simp only
    have : i ≠ 0 := by omega
    simp only [this, ne_eq, not_false_eq_true, if_true]
    split
    · simp
    · simp; omega
  | none =>
    simp only
    split
    · simp
    · rename_i hge
      simp only [ne_eq, Option.some.injEq]
      intro h0
      have h1 := firstLine_empty _ _ hres h0
      rw [ht] at h1
      have := truncNl_eq_nil h1
      rw [this] at hge
      simp at hge

theorem step5_resume_ne_zero (st : Style) (text : Text) (maxW : MaxW) (a b : Bool) (lay : Layout) (line : Line)
    (ri : Option Nat) (h : ri ≠ some 0) : (step5 st text maxW a b lay line ri).resume ≠ some 0 := by
  unfold step5
  simp only
  split
  · split
    · rw [flm_resume]
      exact step5Resume_ne_zero _ _ _ rfl
    · rw [flm_resume]; exact h
  · rw [flm_resume]; exact h

theorem step1_line (heur : Bool) (st : Style) (text : Text) (W : Rat) (d : Draft)
    (h : step1 heur st text W = .ok d) : d.line = firstLine st.fs d.lay := by
  unfold step1 at h
  simp only at h
  split at h
  · cases h; rfl
  · split at h
    · cases hb : nextBreakPoint (createLayout st (shortText heur st.fs text W) (MaxW.fin W)).text
        ((sliceToNat (shortText heur st.fs text W)
          (firstLine st.fs (createLayout st (shortText heur st.fs text W) (MaxW.fin W))).resume).length + 1)
        (shortText heur st.fs text W).length with
      | error e => rw [hb] at h; cases h
      | ok bp => rw [hb] at h; cases h; rfl
    · cases h; rfl

theorem draftFull_line (st : Style) (text : Text) (m : MaxW) :
    (draftFull st text m).line = firstLine st.fs (draftFull st text m).lay := rfl

theorem step3Try_resume (st : Style) (d : Draft) (maxW : MaxW) (a b : Bool) (flt nw : Text) (c : Char)
    (hd : d.line = firstLine st.fs d.lay) :
    (step3Try st d maxW a b flt nw c).resume ≠ some 0 := by
  unfold step3Try
  simp only
  split
  · cases hres : (firstLine st.fs (d.lay.setText (flt ++ nw))).resume with
    | none =>
      simp only
      split
      · rw [flm_resume]; simp
      · apply step5_resume_ne_zero
        split <;> simp
    | some r =>
      simp only
      apply step5_resume_ne_zero
      have := firstLine_resume_pos _ _ _ hres
      simp; omega
  · apply step5_resume_ne_zero
    rw [hd]
    intro h0
    have := firstLine_resume_pos _ _ _ h0
    omega

theorem finish_resume (st : Style) (d : Draft) (maxW : MaxW) (a b : Bool) (r : Res)
    (hd : d.line = firstLine st.fs d.lay) (h : finish st d maxW a b = .ok r) : r.resume ≠ some 0 := by
  have hline : d.line.resume ≠ some 0 := by
    rw [hd]; intro h0; have := firstLine_resume_pos _ _ _ h0; omega
  unfold finish at h
  simp only at h
  split at h
  · cases h; rw [flm_resume]; exact hline
  · split at h
    · cases h; rw [flm_resume]; exact hline
    · unfold step3 at h
      simp only at h
      cases hbp : step3BreakPoint d (step3Texts d maxW).1 with
      | error e => rw [hbp] at h; cases h
      | ok bp =>
        rw [hbp] at h
        simp only [Except.bind] at h
        split at h
        · split at h
          · cases hg : get (step3Texts d maxW).2 (orInt bp (-1)) "second_line_text" with
            | error e => rw [hg] at h; cases h
            | ok c =>
              rw [hg] at h
              cases h
              exact step3Try_resume st d maxW a b _ _ c hd
          · cases h; exact step5_resume_ne_zero _ _ _ _ _ _ _ _ hline
        · split at h
          · cases h; rw [flm_resume]; exact hline
          · cases h; exact step5_resume_ne_zero _ _ _ _ _ _ _ _ hline

/-- **`assert resume_index != 0` never fails**: whatever the text, style, width and flags, the next
line never starts at offset 0 — every line consumes at least one character. -/
theorem split_resume_ne_zero (heur : Bool) (st : Style) (text : Text) (maxWidth : MaxW) (a b : Bool) (r : Res)
    (h : splitFirstLineH heur st text maxWidth a b = .ok r) : r.resume ≠ some 0 := by
  unfold splitFirstLineH at h
  simp only at h
  split at h
  · split at h
    · rename_i W _ hfs
      cases h1 : step1 heur st text W with
      | error e => rw [h1] at h; cases h
      | ok d => rw [h1] at h; exact finish_resume st d _ a b r (step1_line _ _ _ _ _ h1) h
    · exact finish_resume st _ _ a b r (draftFull_line _ _ _) h
  · exact finish_resume st _ _ a b r (draftFull_line _ _ _) h


/-- after resolution `left` / `right` are gone -/
theorem resolveAlign_logical (s : AlignStyle) (last : Bool) :
    resolveAlign s last ≠ .left ∧ resolveAlign s last ≠ .right := by
  unfold resolveAlign
  cases last <;> cases s.alignAll <;> cases s.alignLast <;> cases s.rtl <;>
    (try rename_i al; cases al) <;> decide

/-- `text_align` is total: its final `assert align == 'end'` cannot fail. -/
theorem align_total (s : AlignStyle) (line : IBox) (lw avail : Rat) (last : Bool) :
    ∃ off line', textAlign s line lw avail last = .ok (off, line') := by
  unfold textAlign
  split
  · exact ⟨_, _, rfl⟩
  · have := resolveAlign_logical s last
    simp only
    split <;> first | exact ⟨_, _, rfl⟩ | (exfalso; cases hr : resolveAlign s last <;> simp_all)

/-- **align**: the offset lies in `[0, avail − width]`, and it is `0` when the line is not narrower
than the available width. -/
theorem align_offset_range (s : AlignStyle) (line line' : IBox) (lw avail off : Rat) (last : Bool)
    (h : textAlign s line lw avail last = .ok (off, line')) :
    (lw ≥ avail → off = 0) ∧ (lw < avail → 0 ≤ off ∧ off ≤ avail - lw) := by
  unfold textAlign at h
  split at h
  · rename_i hge
    cases h
    exact ⟨fun _ => rfl, fun hlt => by grind⟩
  · rename_i hlt
    simp only at h
    refine ⟨fun hge => by grind, fun _ => ?_⟩
    split at h <;> first | (cases h; grind) | cases h

/-- start / end / center put the line flush left, flush right, centred -/
theorem align_offset_value (s : AlignStyle) (line line' : IBox) (lw avail off : Rat) (last : Bool)
    (hlt : lw < avail) (h : textAlign s line lw avail last = .ok (off, line')) :
    (resolveAlign s last = .start → off = 0) ∧
    (resolveAlign s last = .«end» → off = avail - lw) ∧
    (resolveAlign s last = .center → off + off = avail - lw) ∧
    (resolveAlign s last = .justify → off = 0) := by
  unfold textAlign at h
  rw [if_neg (by grind)] at h
  simp only at h
  split at h <;> rename_i heq <;> (try cases h) <;> simp [heq] <;> grind


theorem countSpaces_of_not_inFlow (b : IBox) (h : b.inFlow = false) : countSpaces b = 0 := by
  cases b <;> simp_all [IBox.inFlow, countSpaces]

mutual
theorem aws_adv (js : Rat) : ∀ (b : IBox) (adv : Rat),
    (addWordSpacing js b adv).2 = adv + js * (countSpaces b : Rat)
  | .text x w s, adv => by
    unfold addWordSpacing countSpaces
    split
    · rfl
    · have : s = 0 := by omega
      subst this; grind
  | .inl x w rtl kids, adv => by
    unfold addWordSpacing countSpaces
    cases rtl
    · simp only [Bool.false_eq_true, if_false]
      exact awsL_adv js kids adv
    · simp only [if_true]
      exact awsR_adv js kids adv
  | .atom x f kids, adv => by
    unfold addWordSpacing countSpaces; grind
theorem awsL_adv (js : Rat) : ∀ (l : List IBox) (adv : Rat),
    (addWordSpacingL js l adv).2 = adv + js * (countSpacesL l : Rat)
  | [], adv => by unfold addWordSpacingL countSpacesL; grind
  | b :: bs, adv => by
    unfold addWordSpacingL countSpacesL
    split
    · simp only
      rw [awsL_adv js bs, aws_adv js b]
      grind
    · rename_i hf
      simp only
      rw [awsL_adv js bs, countSpaces_of_not_inFlow b (by simpa using hf)]
      grind
theorem awsR_adv (js : Rat) : ∀ (l : List IBox) (adv : Rat),
    (addWordSpacingR js l adv).2 = adv + js * (countSpacesL l : Rat)
  | [], adv => by unfold addWordSpacingR countSpacesL; grind
  | b :: bs, adv => by
    unfold addWordSpacingR countSpacesL
    simp only
    split
    · simp only
      rw [aws_adv js b, awsR_adv js bs]
      grind
    · rename_i hf
      simp only
      rw [awsR_adv js bs, countSpaces_of_not_inFlow b (by simpa using hf)]
      grind
end

def IBox.width : IBox → Rat
  | .text _ w _ => w
  | .inl _ w _ _ => w
  | .atom _ _ _ => 0

/-- **justify**: a line with at least one expandable space becomes exactly `extra` wider:
`nb_spaces · (extra / nb_spaces) = extra`. -/
theorem justifyLine_width (x w : Rat) (rtl : Bool) (kids : List IBox) (extra : Rat)
    (hs : countSpaces (.inl x w rtl kids) ≠ 0) :
    IBox.width (justifyLine (.inl x w rtl kids) extra) = w + extra := by
  unfold justifyLine
  simp only [hs, ne_eq, not_false_eq_true, if_true]
  have h := aws_adv (extra / (countSpaces (.inl x w rtl kids) : Rat)) (.inl x w rtl kids) 0
  generalize hn : countSpaces (.inl x w rtl kids) = n at h hs
  unfold addWordSpacing at h ⊢
  simp only at h ⊢
  simp only [IBox.width]
  have hn0 : (n : Rat) ≠ 0 := by exact_mod_cast hs
  have := Rat.div_mul_cancel (a := extra) hn0
  grind

/-- a line without expandable space is left alone -/
theorem justifyLine_no_space (line : IBox) (extra : Rat) (hs : countSpaces line = 0) :
    justifyLine line extra = line := by
  unfold justifyLine; simp [hs]

/-- **justified width = available width**: `text-align: justify` on a line narrower than the available
width, under collapsing `white-space`, with at least one space. -/
theorem justified_line_fills (s : AlignStyle) (x lw : Rat) (rtl : Bool) (kids : List IBox) (avail off : Rat)
    (last : Bool) (line' : IBox)
    (hlt : lw < avail) (hj : resolveAlign s last = .justify) (hc : s.ws.alignCollapse = true)
    (hs : countSpaces (.inl x lw rtl kids) ≠ 0)
    (h : textAlign s (.inl x lw rtl kids) lw avail last = .ok (off, line')) :
    off = 0 ∧ IBox.width line' = avail := by
  unfold textAlign at h
  rw [if_neg (by grind)] at h
  simp only [hj, hc, if_true] at h
  cases h
  refine ⟨rfl, ?_⟩
  rw [justifyLine_width x lw rtl kids _ hs]
  grind


/-- lines stacked from `y`: each line starts where the previous one ends -/
def Stacked : Rat → List OutLine → Prop
  | _, [] => True
  | y, l :: ls => l.y = y ∧ Stacked (l.y + l.h) ls

theorem emptyLine_y (p : Para) (lineX y : Rat) (s : TextSplit) (l : OutLine)
    (h : emptyLine p lineX y s = .ok l) : l.y = y ∧ l.resume = s.resume ∧ (l.h = 0 ∨ l.h = p.lineHeight) := by
  unfold emptyLine at h
  split at h
  · cases h; simp
  · cases ha : textAlign p.align (.inl lineX 0 p.align.rtl []) 0 p.width true with
    | error e => rw [ha] at h; cases h
    | ok r => rw [ha] at h; cases h; simp

theorem textLine_y (p : Para) (lineX posX y : Rat) (s : TextSplit) (c : Child) (l : OutLine)
    (h : textLine p lineX posX y s c = .ok l) : l.y = y ∧ l.resume = s.resume ∧ l.h = p.lineHeight := by
  unfold textLine at h
  simp only at h
  cases hr : removeLastWhitespace p.st c with
  | error e => rw [hr] at h; cases h
  | ok cr =>
    rw [hr] at h
    simp only [Except.bind] at h
    split at h
    · cases h
    · rename_i r ha
      split at h
      · cases h; simp
      · cases h

/-- `split_text_box` always advances: `resume_at` is strictly beyond `skip`. -/
theorem splitTextBox_resume_gt (st : Style) (text : Text) (avail : MaxW) (skip : Nat) (ils : Bool)
    (s : TextSplit) (r : Nat) (h : splitTextBox st text avail skip ils = .ok s) (hr : s.resume = some r) :
    skip < r := by
  unfold splitTextBox at h
  simp only at h
  split at h
  · cases h; simp at hr
  · cases hs : splitFirstLine st (List.drop skip text) avail ils false with
    | error e => rw [hs] at h; cases h
    | ok res =>
      rw [hs] at h
      simp only [Except.bind] at h
      split at h
      · cases h
      · rename_i hne
        split at h
        · cases h; simp at hr
        · rename_i ri hri
          split at h
          · cases h
          · cases h
            simp only [Option.some.injEq] at hr
            have : ri ≠ 0 := by intro h0; rw [h0] at hri; exact hne hri
            omega

theorem skipFirstWhitespace_ge (ws : WS) (text : Text) (i j : Nat)
    (h : skipFirstWhitespace ws text i = some j) : i ≤ j := by
  unfold skipFirstWhitespace at h
  split at h
  · cases h
  · split at h <;> (cases h; omega)

/-- what `get_next_linebox` guarantees about its line -/
theorem nextLine_spec (p : Para) (skip : Option Nat) (y : Rat) (first : Bool) (l : OutLine)
    (h : nextLine p skip y first = .ok (some l)) :
    l.y = y ∧ (l.h = 0 ∨ l.h = p.lineHeight) ∧ ∀ r, l.resume = some r → skip.getD 0 < r := by
  unfold nextLine at h
  split at h
  · cases h
  · rename_i index hidx
    have hge := skipFirstWhitespace_ge _ _ _ _ hidx
    simp only at h
    cases hs : splitTextBox p.st p.text
        (MaxW.fin (((if p.align.rtl = true then p.cbx + p.width else p.cbx) + p.width) * Gen.LineBreak.fudge -
          ((if p.align.rtl = true then p.cbx + p.width else p.cbx) + if first = true then p.indent else 0)))
        index true with
    | error e => rw [hs] at h; cases h
    | ok s =>
      rw [hs] at h
      simp only [Except.bind] at h
      have hgt := fun r => splitTextBox_resume_gt _ _ _ _ _ s r hs
      split at h
      · rename_i hc
        cases he : emptyLine p (if p.align.rtl = true then p.cbx + p.width else p.cbx) y s with
        | error e => rw [he] at h; cases h
        | ok l' =>
          rw [he] at h
          cases h
          have := emptyLine_y _ _ _ _ _ he
          refine ⟨this.1, this.2.2, ?_⟩
          intro r hr
          rw [this.2.1] at hr
          have := hgt r hr
          omega
      · rename_i c hc
        cases he : textLine p (if p.align.rtl = true then p.cbx + p.width else p.cbx)
            ((if p.align.rtl = true then p.cbx + p.width else p.cbx) + if first = true then p.indent else 0) y s c with
        | error e => rw [he] at h; cases h
        | ok l' =>
          rw [he] at h
          cases h
          have := textLine_y _ _ _ _ _ _ _ he
          refine ⟨this.1, Or.inr this.2.2, ?_⟩
          intro r hr
          rw [this.2.1] at hr
          have := hgt r hr
          omega

theorem splitTextBox_beyond (st : Style) (text : Text) (avail : MaxW) (skip : Nat) (ils : Bool)
    (s : TextSplit) (hs : text.length ≤ skip) (h : splitTextBox st text avail skip ils = .ok s) :
    s.resume = none := by
  unfold splitTextBox at h
  simp only at h
  have : List.drop skip text = [] := List.drop_eq_nil_iff.mpr hs
  rw [if_pos (Or.inr this)] at h
  cases h; rfl

/-- beyond the end of the text `get_next_linebox` gives a last (empty) line -/
theorem nextLine_beyond (p : Para) (skip : Option Nat) (y : Rat) (first : Bool) (l : OutLine)
    (hs : p.text.length < skip.getD 0) (h : nextLine p skip y first = .ok (some l)) : l.resume = none := by
  unfold nextLine at h
  split at h
  · cases h
  · rename_i index hidx
    have hge := skipFirstWhitespace_ge _ _ _ _ hidx
    simp only at h
    cases hs' : splitTextBox p.st p.text
        (MaxW.fin (((if p.align.rtl = true then p.cbx + p.width else p.cbx) + p.width) * Gen.LineBreak.fudge -
          ((if p.align.rtl = true then p.cbx + p.width else p.cbx) + if first = true then p.indent else 0)))
        index true with
    | error e => rw [hs'] at h; cases h
    | ok s =>
      rw [hs'] at h
      simp only [Except.bind] at h
      have hnone := splitTextBox_beyond _ _ _ _ _ s (by omega) hs'
      split at h
      · cases he : emptyLine p (if p.align.rtl = true then p.cbx + p.width else p.cbx) y s with
        | error e => rw [he] at h; cases h
        | ok l' =>
          rw [he] at h; cases h
          rw [(emptyLine_y _ _ _ _ _ he).2.1]; exact hnone
      · rename_i c hc
        cases he : textLine p (if p.align.rtl = true then p.cbx + p.width else p.cbx)
            ((if p.align.rtl = true then p.cbx + p.width else p.cbx) + if first = true then p.indent else 0) y s c with
        | error e => rw [he] at h; cases h
        | ok l' =>
          rw [he] at h; cases h
          rw [(textLine_y _ _ _ _ _ _ _ he).2.1]; exact hnone

/-- **stack**: the line boxes of a paragraph are stacked without gap or overlap,
`yₖ₊₁ = yₖ + hₖ`, and the first one starts at the given `y`. -/
theorem iterLines_stacked (p : Para) : ∀ (fuel : Nat) (skip : Option Nat) (y : Rat) (first : Bool)
    (ls : List OutLine), iterLines p fuel skip y first = some (.ok ls) → Stacked y ls
  | 0, _, _, _, _, h => by simp [iterLines] at h
  | fuel + 1, skip, y, first, ls, h => by
    unfold iterLines at h
    split at h
    · cases h
    · cases h; trivial
    · rename_i l hn
      have hy := (nextLine_spec p skip y first l hn).1
      split at h
      · cases h; exact ⟨hy, trivial⟩
      · rename_i r hr
        cases hrest : iterLines p fuel (some r) (l.y + l.h) false with
        | none => rw [hrest] at h; cases h
        | some res =>
          rw [hrest] at h
          cases res with
          | error e => cases h
          | ok rest =>
            cases h
            exact ⟨hy, iterLines_stacked p fuel (some r) (l.y + l.h) false rest hrest⟩

/-- every line is one line-height high, or a phantom line box of height 0 -/
theorem iterLines_heights (p : Para) : ∀ (fuel : Nat) (skip : Option Nat) (y : Rat) (first : Bool)
    (ls : List OutLine), iterLines p fuel skip y first = some (.ok ls) →
      ∀ l ∈ ls, l.h = 0 ∨ l.h = p.lineHeight
  | 0, _, _, _, _, h => by simp [iterLines] at h
  | fuel + 1, skip, y, first, ls, h => by
    unfold iterLines at h
    split at h
    · cases h
    · cases h; simp
    · rename_i l hn
      have hh := (nextLine_spec p skip y first l hn).2.1
      split at h
      · cases h; simpa using hh
      · rename_i r hr
        cases hrest : iterLines p fuel (some r) (l.y + l.h) false with
        | none => rw [hrest] at h; cases h
        | some res =>
          rw [hrest] at h
          cases res with
          | error e => cases h
          | ok rest =>
            cases h
            intro l' hl'
            rcases List.mem_cons.mp hl' with e | e
            · rw [e]; exact hh
            · exact iterLines_heights p fuel (some r) (l.y + l.h) false rest hrest l' e

/-- **termination**: offsets strictly increase (`resume_at` of a line is beyond its start), so
`text.length + 2` rounds are enough — `iter_line_boxes` is never cut by the fuel. -/
theorem iterLines_fuel (p : Para) : ∀ (fuel : Nat) (skip : Option Nat) (y : Rat) (first : Bool),
    1 ≤ fuel → p.text.length + 2 ≤ fuel + skip.getD 0 → iterLines p fuel skip y first ≠ none
  | 0, _, _, _, h, _ => by omega
  | fuel + 1, skip, y, first, _, hb => by
    unfold iterLines
    split
    · simp
    · simp
    · rename_i l hn
      split
      · simp
      · rename_i r hr
        have hgt := (nextLine_spec p skip y first l hn).2.2 r hr
        by_cases hf : fuel = 0
        · exfalso
          have := nextLine_beyond p skip y first l (by omega) hn
          rw [this] at hr; cases hr
        · have := iterLines_fuel p fuel (some r) (l.y + l.h) false (by omega) (by simp; omega)
          cases hrest : iterLines p fuel (some r) (l.y + l.h) false with
          | none => exact absurd hrest this
          | some res => simp

/-- `paragraph` never reports the fuel error. -/
theorem paragraph_terminates (p : Para) (s : String) : paragraph p ≠ .error (.recursion s) ∨
    ∃ e, iterLines p (p.text.length + 2) none p.y true = some (.error e) := by
  unfold paragraph
  have := iterLines_fuel p (p.text.length + 2) none p.y true (by omega) (by simp)
  cases h : iterLines p (p.text.length + 2) none p.y true with
  | none => exact absurd h this
  | some r =>
    cases r with
    | error e => right; exact ⟨e, rfl⟩
    | ok ls => left; simp

theorem truncNl_prefix (t : Text) : truncNl t <+: t := by
  unfold truncNl; split
  · exact List.prefix_refl _
  · exact List.take_prefix _ _

theorem paraOf_prefix (T : Text) : paraOf T <+: T := by
  unfold paraOf; split
  · exact List.prefix_refl _
  · exact List.take_prefix _ _

theorem rstripSp_prefix (t : Text) : rstripSp t <+: t := by
  unfold rstripSp
  have := List.dropWhile_suffix (l := t.reverse) (· == ' ')
  have := List.IsSuffix.reverse this
  simpa using this

theorem sliceTo_prefix {α} (t : List α) (b : Option Int) : sliceTo t b <+: t := by
  unfold sliceTo
  split
  · exact List.prefix_refl _
  · split <;> exact List.take_prefix _ _

theorem sliceToNat_prefix {α} (t : List α) (b : Option Nat) : sliceToNat t b <+: t := by
  unfold sliceToNat
  split
  · exact List.prefix_refl _
  · exact List.take_prefix _ _

theorem take_prefix_of_prefix {α} {a b : List α} (n : Nat) (h : a <+: b) : a.take n <+: b :=
  (List.take_prefix n a).trans h

theorem flm_prefix (fs : Rat) (line : Line) (text : Text) (lay : Layout) (ra : Option Nat) (c : Bool)
    (hl : lay.text <+: text) :
    ((firstLineMetrics fs line text lay ra c).text.take (firstLineMetrics fs line text lay ra c).length) <+: text := by
  unfold firstLineMetrics
  split
  · split
    · simp only
      apply take_prefix_of_prefix
      simp only [Layout.setText]
      refine (truncNl_prefix _).trans ?_
      split
      · exact (rstripSp_prefix _).trans (List.take_prefix _ _)
      · exact List.take_prefix _ _
    · exact take_prefix_of_prefix _ hl
  · exact take_prefix_of_prefix _ hl

theorem step5_prefix (st : Style) (text : Text) (maxW : MaxW) (a b : Bool) (lay : Layout) (line : Line)
    (ri : Option Nat) (hl : lay.text <+: text) :
    ((step5 st text maxW a b lay line ri).text.take (step5 st text maxW a b lay line ri).length) <+: text := by
  unfold step5
  simp only
  split
  · split
    · apply flm_prefix
      simp only [step5Layout, Layout.setText]
      exact truncNl_prefix _
    · exact flm_prefix _ _ _ _ _ _ hl
  · exact flm_prefix _ _ _ _ _ _ hl

theorem step3Texts_append (d : Draft) (maxW : MaxW)
    (hn : ¬ (d.line.resume = none ∧ maxW.ge d.line.width = true)) :
    (step3Texts d maxW).1 ++ (step3Texts d maxW).2 = d.text := by
  unfold step3Texts
  split
  · rename_i hge
    cases hres : d.line.resume with
    | none => exact absurd ⟨hres, hge⟩ hn
    | some r => simp [sliceToNat, sliceFromNat]
  · simp

theorem step3Try_prefix (st : Style) (d : Draft) (maxW : MaxW) (a b : Bool) (flt nw : Text) (c : Char)
    (hl : d.lay.text <+: d.text) (hnew : flt ++ nw <+: d.text) :
    ((step3Try st d maxW a b flt nw c).text.take (step3Try st d maxW a b flt nw c).length) <+: d.text := by
  have hset : (d.lay.setText (flt ++ nw)).text <+: d.text := by
    simp only [Layout.setText]; exact (truncNl_prefix _).trans hnew
  unfold step3Try
  simp only
  split
  · split
    · split
      · exact flm_prefix _ _ _ _ _ _ hset
      · exact step5_prefix _ _ _ _ _ _ _ _ hset
    · exact step5_prefix _ _ _ _ _ _ _ _ hset
  · exact step5_prefix _ _ _ _ _ _ _ _ hl

theorem finish_prefix (st : Style) (d : Draft) (maxW : MaxW) (a b : Bool) (r : Res)
    (hl : d.lay.text <+: d.text) (h : finish st d maxW a b = .ok r) :
    (r.text.take r.length) <+: d.text := by
  unfold finish at h
  simp only at h
  split at h
  · cases h; exact flm_prefix _ _ _ _ _ _ hl
  · split at h
    · cases h; exact flm_prefix _ _ _ _ _ _ hl
    · rename_i hn
      have happ := step3Texts_append d maxW hn
      unfold step3 at h
      simp only at h
      cases hbp : step3BreakPoint d (step3Texts d maxW).1 with
      | error e => rw [hbp] at h; cases h
      | ok bp =>
        rw [hbp] at h
        simp only [Except.bind] at h
        split at h
        · split at h
          · cases hg : get (step3Texts d maxW).2 (orInt bp (-1)) "second_line_text" with
            | error e => rw [hg] at h; cases h
            | ok c =>
              rw [hg] at h
              cases h
              apply step3Try_prefix _ _ _ _ _ _ _ _ hl
              have h1 : rstripSp (sliceTo (step3Texts d maxW).2 bp) <+: (step3Texts d maxW).2 :=
                (rstripSp_prefix _).trans (sliceTo_prefix _ _)
              have := (List.prefix_append_right_inj (step3Texts d maxW).1).mpr h1
              rw [happ] at this
              exact this
          · cases h; exact step5_prefix _ _ _ _ _ _ _ _ hl
        · split at h
          · cases h; exact flm_prefix _ _ _ _ _ _ hl
          · cases h; exact step5_prefix _ _ _ _ _ _ _ _ hl

theorem shortText_prefix (heur : Bool) (fs : Rat) (text : Text) (W : Rat) : shortText heur fs text W <+: text := by
  unfold shortText
  split
  · exact List.prefix_refl _
  · split
    · split
      · exact List.take_prefix _ _
      · exact List.prefix_refl _
    · exact sliceTo_prefix _ _

theorem step1_prefix (heur : Bool) (st : Style) (text : Text) (W : Rat) (d : Draft)
    (h : step1 heur st text W = .ok d) : d.lay.text <+: d.text ∧ d.text <+: text := by
  unfold step1 at h
  simp only at h
  split at h
  · cases h
    exact ⟨by simp only [Layout.setText]; exact truncNl_prefix _, List.prefix_refl _⟩
  · have hcl : (createLayout st (shortText heur st.fs text W) (MaxW.fin W)).text <+: shortText heur st.fs text W := by
      simp only [createLayout]; exact truncNl_prefix _
    split at h
    · cases hb : nextBreakPoint (createLayout st (shortText heur st.fs text W) (MaxW.fin W)).text
        ((sliceToNat (shortText heur st.fs text W)
          (firstLine st.fs (createLayout st (shortText heur st.fs text W) (MaxW.fin W))).resume).length + 1)
        (shortText heur st.fs text W).length with
      | error e => rw [hb] at h; cases h
      | ok bp =>
        rw [hb] at h; cases h
        simp only
        split
        · exact ⟨hcl, shortText_prefix _ _ _ _⟩
        · exact ⟨hcl.trans (shortText_prefix _ _ _ _), List.prefix_refl _⟩
    · cases h
      exact ⟨hcl.trans (shortText_prefix _ _ _ _), List.prefix_refl _⟩

theorem draftFull_prefix (st : Style) (text : Text) (m : MaxW) :
    (draftFull st text m).lay.text <+: (draftFull st text m).text := by
  simp only [draftFull, createLayout]; exact truncNl_prefix _

/-- **lines_conserve, part 1**: the line returned by `split_first_line` is a prefix of the text — no
character is invented, reordered or taken from elsewhere (whatever the heuristic prefix, the step-3
juggling and the step-5 re-wrap did). -/
theorem split_line_is_prefix (heur : Bool) (st : Style) (text : Text) (maxWidth : MaxW) (a b : Bool) (r : Res)
    (h : splitFirstLineH heur st text maxWidth a b = .ok r) : r.text.take r.length <+: text := by
  unfold splitFirstLineH at h
  simp only at h
  split at h
  · split at h
    · rename_i W _ hfs
      cases h1 : step1 heur st text W with
      | error e => rw [h1] at h; cases h
      | ok d =>
        rw [h1] at h
        have hp := step1_prefix _ _ _ _ _ h1
        exact (finish_prefix st d _ a b r hp.1 h).trans hp.2
    · exact finish_prefix st _ _ a b r (draftFull_prefix _ _ _) h
  · exact finish_prefix st _ _ a b r (draftFull_prefix _ _ _) h

/-- **lines_conserve, part 2**: when `split_text_box` returns normally with a next offset, the
characters between the end of the line and the next line are only spaces, or exactly one preserved
line-break character (the `assert` of the code, seen from outside); and the next offset is beyond
`skip` (progress). -/
theorem splitTextBox_drops_only_breaks (st : Style) (text : Text) (avail : MaxW) (skip : Nat) (ils : Bool)
    (s : TextSplit) (r : Nat) (h : splitTextBox st text avail skip ils = .ok s) (hr : s.resume = some r) :
    ∃ len ri, r = ri + skip ∧ 0 < ri ∧
      ((((text.drop skip).take ri).drop len).all (· == ' ') = true ∨
       (s.preserved = true ∧ isLineBreakText (((text.drop skip).take ri).drop len) = true)) := by
  unfold splitTextBox at h
  simp only at h
  split at h
  · cases h; simp at hr
  · cases hs : splitFirstLine st (List.drop skip text) avail ils false with
    | error e => rw [hs] at h; cases h
    | ok res =>
      rw [hs] at h
      simp only [Except.bind] at h
      split at h
      · cases h
      · rename_i hne
        split at h
        · cases h; simp at hr
        · rename_i ri hri
          have hri0 : ri ≠ 0 := by intro h0; rw [h0] at hri; exact hne hri
          split at h
          · cases h
          · rename_i hchk
            cases h
            simp only [Option.some.injEq] at hr
            refine ⟨res.length, ri, hr.symm, by omega, ?_⟩
            simp only
            by_cases hany : (List.drop res.length (List.take ri (List.drop skip text))).any (· != ' ') = true
            · by_cases hlen : res.length ≠ ri
              · right
                simp only [hany, hlen, ne_eq, not_false_eq_true, decide_true, Bool.and_self, Bool.true_and,
                  Bool.not_eq_eq_eq_not, Bool.not_true, Bool.not_eq_false] at hchk ⊢
                exact ⟨trivial, hchk⟩
              · left
                have : res.length = ri := by omega
                simp [this]
            · left
              simp only [List.any_eq_true, bne_iff_ne, ne_eq, not_exists, not_and, Decidable.not_not] at hany
              simp only [List.all_eq_true, beq_iff_eq]
              exact hany

theorem getElem?_take_of_lt {α} (l : List α) {i k : Nat} (h : i < k) : (l.take k)[i]? = l[i]? := by
  simp [h]

theorem canBreakAt_take (wc : Bool) (P : Text) {q k : Nat} (h : q < k) :
    canBreakAt wc (P.take k) q = canBreakAt wc P q := by
  unfold canBreakAt
  rw [getElem?_take_of_lt P h, getElem?_take_of_lt P (by omega : q - 1 < k)]

theorem breakExtra_take (fs : Rat) (hy wc : Bool) (P : Text) {q k : Nat} (h : q < k) :
    breakExtra fs hy wc (P.take k) q = breakExtra fs hy wc P q := by
  unfold breakExtra
  rw [getElem?_take_of_lt P h, getElem?_take_of_lt P (by omega : q - 1 < k)]

theorem fitsAt_take (fs : Rat) (hy wc : Bool) (P : Text) (W : Rat) {q k : Nat} (h : q < k) :
    fitsAt fs hy wc (P.take k) W q = fitsAt fs hy wc P W q := by
  unfold fitsAt; rw [breakExtra_take fs hy wc P h]

theorem mem_opportunities_take (wc : Bool) (P : Text) {q k : Nat} (hk : k ≤ P.length) (h : q < k) :
    q ∈ opportunities wc (P.take k) ↔ q ∈ opportunities wc P := by
  rw [mem_opportunities, mem_opportunities, canBreakAt_take wc P h, List.length_take]
  constructor
  · intro ⟨_, h2⟩; exact ⟨by omega, h2⟩
  · intro ⟨_, h2⟩; exact ⟨by omega, h2⟩

theorem breakExtra_ge (fs : Rat) (hfs : 0 ≤ fs) (hy wc : Bool) (P : Text) (q : Nat) :
    -fs ≤ breakExtra fs hy wc P q ∧ (P[q - 1]? ≠ some ' ' → 0 ≤ breakExtra fs hy wc P q) := by
  unfold breakExtra
  split
  · rename_i h
    refine ⟨by grind, fun hne => ?_⟩
    simp at h; exact absurd h hne
  · split <;> constructor <;> (try intro _) <;> grind

theorem cast_mul_le {a b : Nat} {fs : Rat} (hfs : 0 ≤ fs) (h : a ≤ b) : (a : Rat) * fs ≤ (b : Rat) * fs := by
  have : (a : Rat) ≤ (b : Rat) := by exact_mod_cast h
  exact Rat.mul_le_mul_of_nonneg_right this hfs

/-- Nothing fits at or beyond the end of a prefix that Pango had to wrap. -/
theorem not_fits_beyond (fs : Rat) (hfs : 0 ≤ fs) (hy wc : Bool) (P : Text) (W : Rat) (k : Nat)
    (hk : k ≤ P.length) (hk0 : 0 < k)
    (hnf : ¬ endFits fs (P.take k) true W) (q : Nat) (_hq : q ∈ opportunities wc P) (hkq : k ≤ q) :
    fitsAt fs hy wc P W q = false := by
  have hlen : (P.take k).length = k := by simp [List.length_take]; omega
  unfold endFits at hnf
  rw [hlen, getElem?_take_of_lt P (by omega : k - 1 < k)] at hnf
  simp only [Bool.and_true] at hnf
  have hex := breakExtra_ge fs hfs hy wc P q
  cases hf : fitsAt fs hy wc P W q with
  | false => rfl
  | true =>
    exfalso
    unfold fitsAt at hf
    simp only [decide_eq_true_eq] at hf
    by_cases hqk : q = k
    · subst hqk
      by_cases hsp : P[q - 1]? = some ' '
      · simp only [hsp, beq_self_eq_true, if_true] at hnf
        have : breakExtra fs hy wc P q = -fs := by unfold breakExtra; simp [hsp]
        grind
      · have h0 := hex.2 hsp
        have : (if (P[q - 1]? == some ' ') = true then -fs else 0) ≤ 0 := by split <;> grind
        grind
    · have h1 : (k : Rat) * fs ≤ ((q - 1 : Nat) : Rat) * fs := cast_mul_le hfs (by omega)
      have h2 : ((q - 1 : Nat) : Rat) = (q : Rat) - 1 := by
        have : q - 1 + 1 = q := by omega
        have h3 : ((q - 1 + 1 : Nat) : Rat) = (q : Rat) := by rw [this]
        rw [Rat.natCast_add] at h3
        grind
      have : (if (P[k - 1]? == some ' ') = true then -fs else 0) ≤ 0 := by split <;> grind
      rw [h2] at h1
      grind

/-- **Why the prefix heuristic is sound** (for any prefix, whatever the `ratio`): if Pango wraps a
prefix of the paragraph (its first line stops before the end of the prefix), it wraps the whole
paragraph at the same place. -/
theorem firstBreak_prefix_stable (fs : Rat) (hfs : 0 ≤ fs) (hy wc : Bool) (P : Text) (ed : Bool) (W : Rat)
    (k : Nat) (hk : k ≤ P.length)
    (hwrap : firstBreak fs hy wc (P.take k) true (some W) < k) :
    firstBreak fs hy wc P ed (some W) = firstBreak fs hy wc (P.take k) true (some W) := by
  have hlen : (P.take k).length = k := by simp [List.length_take]; omega
  have hk0 : 0 < k := by omega
  generalize hpS : firstBreak fs hy wc (P.take k) true (some W) = pS at hwrap ⊢
  generalize hpP : firstBreak fs hy wc P ed (some W) = pP
  have hS := firstBreak_cases fs hy wc (P.take k) true W pS hpS
  have hP := firstBreak_cases fs hy wc P ed W pP hpP
  -- the prefix is wrapped: its end does not fit
  have hnfS : ¬ endFits fs (P.take k) true W := by
    rcases hS with h | h | h | h
    · omega
    · exact h.1
    · exact h.1
    · exact h.1
  have F3 := not_fits_beyond fs hfs hy wc P W k hk hk0 hnfS
  -- the whole paragraph does not fit either
  have hnfP : ¬ endFits fs P ed W := by
    intro hfit
    apply hnfS
    unfold endFits at hfit ⊢
    rw [hlen, getElem?_take_of_lt P (by omega : k - 1 < k)]
    simp only [Bool.and_true]
    by_cases hn : P.length = k
    · rw [hn] at hfit
      cases ed <;> simp at hfit <;> split <;> grind
    · have h1 : (k : Rat) * fs ≤ ((P.length - 1 : Nat) : Rat) * fs := cast_mul_le hfs (by omega)
      have h2 : ((P.length - 1 : Nat) : Rat) = (P.length : Rat) - 1 := by
        have : P.length - 1 + 1 = P.length := by omega
        have h3 : ((P.length - 1 + 1 : Nat) : Rat) = (P.length : Rat) := by rw [this]
        rw [Rat.natCast_add] at h3
        grind
      rw [h2] at h1
      have : -fs ≤ (if (P[P.length - 1]? == some ' ' && ed) = true then -fs else 0) := by split <;> grind
      have : (if (P[k - 1]? == some ' ') = true then -fs else 0) ≤ 0 := by split <;> grind
      grind
  have hP1 : ¬ (P = [] ∨ endFits fs P ed W) := by
    intro hh
    rcases hh with hh | hh
    · subst hh; simp at hk; omega
    · exact hnfP hh
  have F1 : ∀ q, q < k → (q ∈ opportunities wc (P.take k) ↔ q ∈ opportunities wc P) :=
    fun q hq => mem_opportunities_take wc P hk hq
  have F2 : ∀ q, q < k → fitsAt fs hy wc (P.take k) W q = fitsAt fs hy wc P W q :=
    fun q hq => fitsAt_take fs hy wc P W hq
  rcases hS with h | h | h | h
  · omega
  · -- the prefix line ends at a fitting opportunity, maximal among the prefix's
    have hpSmem : pS ∈ opportunities wc P := (F1 pS hwrap).mp h.2.1
    have hpSfit : fitsAt fs hy wc P W pS = true := by rw [← F2 pS hwrap]; exact h.2.2.1
    have hmax : ∀ q ∈ opportunities wc P, pS < q → fitsAt fs hy wc P W q = false := by
      intro q hq hlt
      by_cases hqk : q < k
      · rw [← F2 q hqk]; exact h.2.2.2 q ((F1 q hqk).mpr hq) hlt
      · exact F3 q hq (by omega)
    rcases hP with g | g | g | g
    · exact absurd g.2 hP1
    · rcases Nat.lt_trichotomy pP pS with lt | eq | gt
      · have := g.2.2.2 pS hpSmem lt; rw [hpSfit] at this; cases this
      · exact eq
      · have := hmax pP g.2.1 gt; rw [g.2.2.1] at this; cases this
    · have := g.2.1 pS hpSmem; rw [hpSfit] at this; cases this
    · rw [g.2.1] at hpSmem; cases hpSmem
  · -- nothing fits in the prefix: its line is the first unit
    have hpSmemS : pS ∈ opportunities wc (P.take k) := List.mem_of_head? h.2.2
    have hpSlt : pS < k := by have := (mem_opportunities.mp hpSmemS).1; omega
    have hpSmem : pS ∈ opportunities wc P := (F1 pS hpSlt).mp hpSmemS
    have hnone : ∀ q ∈ opportunities wc P, fitsAt fs hy wc P W q = false := by
      intro q hq
      by_cases hqk : q < k
      · rw [← F2 q hqk]; exact h.2.1 q ((F1 q hqk).mpr hq)
      · exact F3 q hq (by omega)
    rcases hP with g | g | g | g
    · exact absurd g.2 hP1
    · have := hnone pP g.2.1; rw [g.2.2.1] at this; cases this
    · have h1 : pP ≤ pS := head_le_of_mem (opportunities_sorted wc P) g.2.2 hpSmem
      have hpPmem : pP ∈ opportunities wc (P.take k) := (F1 pP (by omega)).mpr (List.mem_of_head? g.2.2)
      have h2 : pS ≤ pP := head_le_of_mem (opportunities_sorted wc _) h.2.2 hpPmem
      omega
    · rw [g.2.1] at hpSmem; cases hpSmem
  · omega

theorem find_take (t : Text) (k : Nat) (c : Char) :
    find (t.take k) c = (find t c).bind (Option.guard fun j => decide (j < k)) := by
  unfold find; exact List.findIdx?_take

theorem find_truncNl (t : Text) : find (truncNl t) '\n' = find t '\n' := by
  unfold truncNl
  cases h : find t '\n' with
  | none => simp [h]
  | some i =>
    simp only
    rw [find_take, h]
    simp [Option.guard, Gen.LineBreak.newlineKeep]

theorem paraOf_truncNl (t : Text) : paraOf (truncNl t) = paraOf t := by
  unfold paraOf
  rw [find_truncNl]
  cases h : find t '\n' with
  | none => simp [truncNl, h]
  | some i =>
    simp only [truncNl, h, List.take_take, Gen.LineBreak.newlineKeep]
    congr 1; omega

/-- `firstLine` reads the layout text only through its first paragraph and the place of the newline -/
def firstLineCore (fs : Rat) (nl : Option Nat) (P : Text) (width : Option Rat) (wc hy : Bool) : Line :=
  let p := firstBreak fs hy wc P (nl.isNone || wc) width
  if p < P.length then
    { length := p, resume := some p, width := (p : Rat) * fs + breakExtra fs hy wc P p }
  else
    { length := P.length, resume := nl.map (· + 1), width := (P.length : Rat) * fs }

theorem firstLine_eq_core (fs : Rat) (lay : Layout) :
    firstLine fs lay = firstLineCore fs (find lay.text '\n') (paraOf lay.text) lay.width lay.wrapChar lay.hyph := rfl

theorem createLayout_setText (st : Style) (a b : Text) (m : MaxW) :
    (createLayout st a m).setText b = createLayout st b m := rfl

theorem paraOf_take_of_find_none {t : Text} {k : Nat} (h : find (t.take k) '\n' = none) (hk : k ≤ t.length) :
    ∃ j, k ≤ j ∧ j ≤ t.length ∧ paraOf t = t.take j := by
  rw [find_take] at h
  unfold paraOf
  cases hf : find t '\n' with
  | none => exact ⟨t.length, hk, Nat.le_refl _, by simp⟩
  | some i =>
    rw [hf] at h
    simp [Option.guard] at h
    exact ⟨i, h, Nat.le_of_lt (find_some_lt hf), rfl⟩

/-- **heuristic_transparent (the Pango call)**: whatever prefix of the text step 1 hands to Pango —
`ratio ×` the characters that fit, or one word plus a letter —, the first line it ends up with
(`first_line.length`, second line start, width) is the first line of the *whole* text. -/
theorem step1_line_transparent (st : Style) (text : Text) (W : Rat) (hfs : 0 ≤ st.fs) (d : Draft)
    (h : step1 true st text W = .ok d) :
    d.line = firstLine st.fs (createLayout st text (.fin W)) := by
  have hline := step1_line true st text W d h
  unfold step1 at h
  simp only at h
  split at h
  · cases h; rfl
  · rename_i hcond
    -- the draft keeps the layout of the short text
    have hlay : d.lay = createLayout st (shortText true st.fs text W) (.fin W) := by
      split at h
      · cases hb : nextBreakPoint (createLayout st (shortText true st.fs text W) (MaxW.fin W)).text
          ((sliceToNat (shortText true st.fs text W)
            (firstLine st.fs (createLayout st (shortText true st.fs text W) (MaxW.fin W))).resume).length + 1)
          (shortText true st.fs text W).length with
        | error e => rw [hb] at h; cases h
        | ok bp => rw [hb] at h; cases h; rfl
      · cases h; rfl
    rw [hline, hlay]
    generalize hS : shortText true st.fs text W = short at hcond
    have hpre : short <+: text := by rw [← hS]; exact shortText_prefix _ _ _ _
    by_cases hst : short = text
    · rw [hst]
    · have hres : (firstLine st.fs (createLayout st short (.fin W))).resume ≠ none := by
        intro hn; exact hcond ⟨hn, hst⟩
      have hk : short = text.take short.length := List.prefix_iff_eq_take.mp hpre
      have hklen : short.length ≤ text.length := hpre.length_le
      rw [firstLine_eq_core, firstLine_eq_core]
      have hw : (createLayout st short (.fin W)).width = (createLayout st text (.fin W)).width := rfl
      have hwc : (createLayout st short (.fin W)).wrapChar = (createLayout st text (.fin W)).wrapChar := rfl
      have hhy : (createLayout st short (.fin W)).hyph = (createLayout st text (.fin W)).hyph := rfl
      have htS : (createLayout st short (.fin W)).text = truncNl short := rfl
      have htF : (createLayout st text (.fin W)).text = truncNl text := rfl
      rw [htS, htF, find_truncNl, find_truncNl, paraOf_truncNl, paraOf_truncNl, ← hw, ← hwc, ← hhy]
      cases hfS : find short '\n' with
      | some i =>
        -- the newline is inside the prefix: same first paragraph
        have hfT : find text '\n' = some i := by
          rw [hk, find_take] at hfS
          cases hft : find text '\n' with
          | none => rw [hft] at hfS; simp at hfS
          | some j => rw [hft] at hfS; simp [Option.guard] at hfS; rw [hfS.2]
        have hi : i < short.length := find_some_lt hfS
        have hp : paraOf short = paraOf text := by
          unfold paraOf; rw [hfS, hfT]; simp only
          rw [hk, List.take_take]; congr 1; omega
        rw [hfT, hp]
      | none =>
        -- no newline in the prefix: Pango wrapped it, so it wraps the whole paragraph there
        have hpS : paraOf short = short := paraOf_of_find_none hfS
        obtain ⟨j, hkj, hjt, hpT⟩ := paraOf_take_of_find_none (t := text) (k := short.length) (by rw [← hk]; exact hfS) hklen
        have hshort : short = (paraOf text).take short.length := by
          rw [hpT, List.take_take, Nat.min_eq_left hkj]; exact hk
        have hjlen : (paraOf text).length = j := by rw [hpT]; simp [List.length_take]; omega
        -- the first line of the prefix stops before its end
        have hwrapS : firstBreak st.fs (createLayout st short (.fin W)).hyph (createLayout st short (.fin W)).wrapChar
            short true (createLayout st short (.fin W)).width < short.length := by
          rw [firstLine_eq_core, htS, find_truncNl, paraOf_truncNl, hfS, hpS] at hres
          unfold firstLineCore at hres
          simp only [Option.isNone_none, Bool.true_or] at hres
          split at hres
          · assumption
          · simp at hres
        rw [hpS]
        cases hwid : (createLayout st short (.fin W)).width with
        | none =>
          rw [hwid] at hwrapS; simp [firstBreak_none] at hwrapS
        | some w =>
          rw [hwid] at hwrapS
          have hstab := firstBreak_prefix_stable st.fs hfs (createLayout st short (.fin W)).hyph
            (createLayout st short (.fin W)).wrapChar (paraOf text)
            ((find text '\n').isNone || (createLayout st short (.fin W)).wrapChar) w short.length
            (by omega) (by rw [← hshort]; exact hwrapS)
          rw [← hshort] at hstab
          unfold firstLineCore
          simp only [Option.isNone_none, Bool.true_or]
          rw [hstab, if_pos hwrapS, if_pos (by omega)]
          congr 1
          have hbe := breakExtra_take st.fs (createLayout st short (.fin W)).hyph
            (createLayout st short (.fin W)).wrapChar (paraOf text) (k := short.length) hwrapS
          rw [← hshort] at hbe
          rw [hbe]

/-- **`nowrap` / `pre` never break at spaces**: under a non-wrapping `white-space` the only line end
is a preserved newline — `resume_index` is the offset after the first newline, or `None`. -/
theorem no_wrap_breaks_only_at_newline (heur : Bool) (st : Style) (text : Text) (maxWidth : MaxW) (a b : Bool)
    (r : Res) (hw : st.ws.textWrap = false)
    (h : splitFirstLineH heur st text maxWidth a b = .ok r) :
    r.resume = (find text '\n').map (· + 1) := by
  unfold splitFirstLineH at h
  simp only [hw, Bool.false_eq_true, if_false] at h
  unfold finish at h
  simp only [if_true] at h
  cases h
  rw [flm_resume]
  have hlw : st.ws.layoutWrap = false := by rw [layout_wrap_eq_text_wrap]; exact hw
  have hwidth : (draftFull st text maxWidth).lay.width = none := by
    simp only [draftFull, createLayout, hlw, Bool.false_and, Bool.false_eq_true, if_false]
    cases maxWidth <;> rfl
  simp only [draftFull] at hwidth ⊢
  rw [firstLine_eq_core, hwidth]
  unfold firstLineCore
  simp only [firstBreak_none, Nat.lt_irrefl, if_false]
  simp only [createLayout, find_truncNl]

/-- … and without a newline the whole text is one line, as wide as its characters. -/
theorem no_wrap_single_line (heur : Bool) (st : Style) (text : Text) (maxWidth : MaxW) (a b : Bool)
    (r : Res) (hw : st.ws.textWrap = false) (hnl : find text '\n' = none)
    (h : splitFirstLineH heur st text maxWidth a b = .ok r) :
    r = { length := text.length, resume := none, width := (text.length : Rat) * st.fs, text := text } := by
  unfold splitFirstLineH at h
  simp only [hw, Bool.false_eq_true, if_false] at h
  unfold finish at h
  simp only [if_true] at h
  cases h
  have hlw : st.ws.layoutWrap = false := by rw [layout_wrap_eq_text_wrap]; exact hw
  have hwidth : (draftFull st text maxWidth).lay.width = none := by
    simp only [draftFull, createLayout, hlw, Bool.false_and, Bool.false_eq_true, if_false]
    cases maxWidth <;> rfl
  have htext : (draftFull st text maxWidth).lay.text = text := by
    simp only [draftFull, createLayout, truncNl, hnl]
  have hline : (draftFull st text maxWidth).line =
      { length := text.length, resume := none, width := (text.length : Rat) * st.fs } := by
    show firstLine st.fs (draftFull st text maxWidth).lay = _
    rw [firstLine_eq_core, hwidth, htext, hnl, paraOf_of_find_none hnl]
    unfold firstLineCore
    simp [firstBreak_none]
  simp only [draftFull] at hline htext ⊢
  rw [hline]
  simp only [firstLineMetrics, htext]

/-! ### `split_first_line` on canonical texts -/

/-- words separated by single spaces: no newline, no leading / trailing / double space -/
def Canonical (t : Text) : Prop :=
  (∀ c ∈ t, c ≠ '\n') ∧
  ∀ i, t[i]? = some ' ' → 0 < i ∧ t[i - 1]? ≠ some ' ' ∧ i + 1 < t.length ∧ t[i + 1]? ≠ some ' '

theorem find_none_of_not_mem {t : Text} {c : Char} (h : ∀ x ∈ t, x ≠ c) : find t c = none := by
  unfold find
  rw [List.findIdx?_eq_none_iff]
  intro x hx
  simp [h x hx]

theorem Canonical.find_nl {t : Text} (h : Canonical t) : find t '\n' = none :=
  find_none_of_not_mem h.1

theorem Canonical.take_find_nl {t : Text} (h : Canonical t) (k : Nat) : find (t.take k) '\n' = none :=
  find_none_of_not_mem (fun x hx => h.1 x (List.mem_of_mem_take hx))

theorem truncNl_of_find_none {t : Text} (h : find t '\n' = none) : truncNl t = t := by
  unfold truncNl; rw [h]

/-- with no width Pango puts the whole first paragraph on the line, whatever the wrap mode -/
theorem firstLine_unlimited (fs : Rat) (T : Text) (wc hy : Bool) :
    firstLine fs { text := T, width := none, wrapChar := wc, hyph := hy } =
      { length := (paraOf T).length, resume := (find T '\n').map (· + 1), width := ((paraOf T).length : Rat) * fs } := by
  rw [firstLine_eq_core]
  unfold firstLineCore
  simp [firstBreak_none]

/-- `first_line_metrics` with a next line reads only the first `line.length` characters of the text -/
theorem flm_some_congr (fs : Rat) (line : Line) (t1 t2 : Text) (lay1 lay2 : Layout) (r : Nat) (c : Bool)
    (hr : r ≠ 0) (ht : t1.take line.length = t2.take line.length) :
    firstLineMetrics fs line t1 lay1 (some r) c = firstLineMetrics fs line t2 lay2 (some r) c := by
  unfold firstLineMetrics
  simp only [hr, ne_eq, not_false_eq_true, if_true, Layout.setText]
  rw [ht, firstLine_unlimited, firstLine_unlimited]

/-- without a newline, a second line exists only when Pango wrapped: its start is inside the text -/
theorem firstLine_resume_lt (fs : Rat) (lay : Layout) (p : Nat) (hnl : find lay.text '\n' = none)
    (h : (firstLine fs lay).resume = some p) : p < lay.text.length ∧ (firstLine fs lay).length = p := by
  rw [firstLine_eq_core, hnl, paraOf_of_find_none hnl] at h ⊢
  unfold firstLineCore at h ⊢
  simp only at h ⊢
  split at h
  · rename_i hlt
    simp only [Option.some.injEq] at h
    rw [if_pos hlt]
    exact ⟨by omega, h⟩
  · simp at h

theorem nextBreakPoint_ok (T : Text) (s e : Nat) (h : s ≤ T.length) :
    nextBreakPoint T s e = .ok ((List.range (e - s)).find? (fun k => isLineBreakAttr T (s + k))) := by
  unfold nextBreakPoint
  rw [if_neg (by omega)]

/-- What step 1 leaves behind on a text without newline. -/
theorem step1_facts (heur : Bool) (st : Style) (text : Text) (W : Rat) (d : Draft)
    (hnl : ∀ c ∈ text, c ≠ '\n') (hfs : 0 ≤ st.fs) (h : step1 heur st text W = .ok d) :
    d.line = firstLine st.fs (createLayout st text (.fin W)) ∧
    d.short <+: text ∧ d.lay = createLayout st d.short (.fin W) ∧
    (d.text = text ∨ (d.text = d.short ∧ ∃ p, d.line.resume = some p ∧ p < d.short.length ∧
        ∃ k, p + 1 + k < d.short.length ∧ isLineBreakAttr d.short (p + 1 + k) = true)) ∧
    (d.short = text ∨ ∃ p, d.line.resume = some p ∧ p < d.short.length) := by
  have hline : d.line = firstLine st.fs (createLayout st text (.fin W)) := by
    cases heur with
    | true => exact step1_line_transparent st text W hfs d h
    | false =>
      have hl := step1_line false st text W d h
      unfold step1 at h
      have hs : shortText false st.fs text W = text := by simp [shortText]
      simp only [hs, ne_eq, not_true_eq_false, and_false, if_false] at h
      split at h
      · cases hb : nextBreakPoint (createLayout st text (MaxW.fin W)).text
            ((sliceToNat text (firstLine st.fs (createLayout st text (MaxW.fin W))).resume).length + 1) text.length with
        | error e => rw [hb] at h; cases h
        | ok bp => rw [hb] at h; cases h; rfl
      · cases h; rfl
  refine ⟨hline, ?_⟩
  unfold step1 at h
  simp only at h
  generalize hS : shortText heur st.fs text W = short at h
  have hpre : short <+: text := by rw [← hS]; exact shortText_prefix _ _ _ _
  have hnlS : find short '\n' = none :=
    find_none_of_not_mem (fun x hx => hnl x (hpre.subset hx))
  have hT : (createLayout st short (.fin W)).text = short := by
    show truncNl short = short; exact truncNl_of_find_none hnlS
  split at h
  · -- fallback to the whole text
    cases h
    exact ⟨List.prefix_refl _, rfl, Or.inl rfl, Or.inl rfl⟩
  · rename_i hcond
    split at h
    · rename_i hflt
      -- the first line is a strict prefix of the short text
      cases hres : (firstLine st.fs (createLayout st short (.fin W))).resume with
      | none => rw [hres] at hflt; simp [sliceToNat] at hflt
      | some p =>
        have hp := firstLine_resume_lt st.fs (createLayout st short (.fin W)) p (by rw [hT]; exact hnlS) hres
        rw [hT] at hp
        rw [hres] at h
        simp only [sliceToNat, List.length_take, hT] at h
        rw [Nat.min_eq_left (Nat.le_of_lt hp.1), nextBreakPoint_ok _ _ _ (by omega)] at h
        simp only [Except.map] at h
        cases h
        simp only
        refine ⟨hpre, trivial, ?_, Or.inr ⟨p, hres, hp.1⟩⟩
        cases hf : (List.range (short.length - (p + 1))).find? (fun k => isLineBreakAttr short (p + 1 + k)) with
        | none => left; simp
        | some k =>
          right
          simp only [Option.isSome_some, if_true, true_and]
          refine ⟨p, hres, hp.1, k, ?_, ?_⟩
          · have := List.mem_of_find?_eq_some hf
            rw [List.mem_range] at this; omega
          · exact List.find?_some (p := fun k => isLineBreakAttr short (p + 1 + k)) hf
    · rename_i hflt
      cases h
      simp only
      refine ⟨hpre, trivial, Or.inl trivial, ?_⟩
      cases hres : (firstLine st.fs (createLayout st short (.fin W))).resume with
      | none =>
        left
        by_cases hst : short = text
        · exact hst
        · exact absurd ⟨hres, hst⟩ hcond
      | some p =>
        have hp := firstLine_resume_lt st.fs (createLayout st short (.fin W)) p (by rw [hT]; exact hnlS) hres
        rw [hT] at hp
        right; exact ⟨p, rfl, hp.1⟩

theorem canBreakWord_normal (st : Style) (a b : Bool) (hwb : st.wb = .normal) (how : st.ow = .normal) :
    canBreakWord st a b = false := by
  unfold canBreakWord; rw [hwb, how]; cases a <;> cases b <;> decide

theorem step5_normal (st : Style) (text : Text) (maxW : MaxW) (a b : Bool) (lay : Layout) (line : Line)
    (ri : Option Nat) (hwb : st.wb = .normal) (how : st.ow = .normal) :
    step5 st text maxW a b lay line ri = firstLineMetrics st.fs line text lay ri st.ws.spaceCollapse := by
  unfold step5
  simp only [canBreakWord_normal st a b hwb how, Bool.false_eq_true, and_false, if_false]
  split <;> rfl

/-- the shape of `second_line_text[:break_point]` / `second_line_text[break_point or -1]` when the
next word is not empty: both are about the same offset `m` of the second line -/
theorem next_word_index (slt : Text) (b : Int) (site : String) (hbl : b < slt.length)
    (hnw : rstripSp (sliceTo slt (some b)) ≠ []) :
    ∃ m, 0 < m ∧ m < slt.length ∧ sliceTo slt (some b) = slt.take m ∧
      get slt (orInt (some b) (-1)) site = (match slt[m]? with
        | some c => .ok c
        | none => .error (.indexError site)) := by
  by_cases hpos : 0 ≤ b
  · have hb0 : b ≠ 0 := by
      intro h0; subst h0; simp [sliceTo, rstripSp] at hnw
    refine ⟨b.toNat, by omega, by omega, by simp [sliceTo, hpos], ?_⟩
    unfold Py.get orInt
    simp only [hb0, if_false, hpos, if_true]
    have : ¬ b < 0 := by omega
    simp only [this, if_false]
    cases slt[b.toNat]? <;> rfl
  · have hneg : b < 0 := by omega
    have hlen : (-b).toNat < slt.length := by
      by_cases h : (-b).toNat < slt.length
      · exact h
      · exfalso
        have : slt.length - (-b).toNat = 0 := by omega
        simp [sliceTo, hpos, this, rstripSp] at hnw
    refine ⟨slt.length - (-b).toNat, by omega, by omega, by simp [sliceTo, hpos], ?_⟩
    unfold Py.get orInt
    have hb0 : b ≠ 0 := by omega
    simp only [hb0, if_false, hpos]
    have h1 : ¬ ((slt.length : Int) + b < 0) := by omega
    simp only [h1, if_false]
    have h2 : ((slt.length : Int) + b).toNat = slt.length - (-b).toNat := by omega
    rw [h2]
    cases slt[slt.length - (-b).toNat]? <;> rfl

theorem Canonical.not_nl {t : Text} (h : Canonical t) {i : Nat} : t[i]? ≠ some '\n' := by
  intro hi
  have := List.mem_of_getElem? hi
  exact h.1 _ this rfl

theorem getElem?_of_prefix {α} {s t : List α} (h : s <+: t) {i : Nat} (hi : i < s.length) : s[i]? = t[i]? := by
  rw [List.prefix_iff_eq_take] at h
  rw [h, List.getElem?_take, if_pos hi]

/-- log attrs of a prefix of a canonical text: a line may break exactly after a space -/
theorem Canonical.isLineBreakAttr_prefix {t S : Text} (h : Canonical t) (hS : S <+: t) {i : Nat}
    (h0 : 0 < i) (hi : i < S.length) : isLineBreakAttr S i = (t[i - 1]? == some ' ') := by
  unfold isLineBreakAttr
  have h1 : S[i - 1]? = t[i - 1]? := getElem?_of_prefix hS (by omega)
  have h2 : S[i]? = t[i]? := getElem?_of_prefix hS hi
  rw [if_neg (by omega), if_neg (by omega), h1, h2]
  have hnl : (t[i - 1]? == some '\n') = false := by
    simp only [beq_eq_false_iff_ne, ne_eq]; exact h.not_nl
  rw [hnl, Bool.false_or]
  cases hsp : (t[i - 1]? == some ' ') with
  | false => simp
  | true =>
    simp only [beq_iff_eq] at hsp
    have := h.2 (i - 1) hsp
    have e : i - 1 + 1 = i := by omega
    rw [e] at this
    have h3 : (t[i]? != some ' ') = true := by simp [this.2.2.2]
    have h4 : (t[i]? != some '\n') = true := by simp only [bne_iff_ne, ne_eq]; exact h.not_nl
    simp [h3, h4]

/-- WRAP_WORD opportunities of a canonical text: after each space -/
theorem Canonical.canBreakAt {t : Text} (h : Canonical t) {q : Nat} (h0 : 0 < q) :
    canBreakAt false t q = (t[q - 1]? == some ' ') := by
  unfold Pango.canBreakAt
  simp only [h0, decide_true, Bool.false_or, Bool.true_and]
  cases hsp : (t[q - 1]? == some ' ') with
  | false => simp
  | true =>
    simp only [beq_iff_eq] at hsp
    have := h.2 (q - 1) hsp
    have e : q - 1 + 1 = q := by omega
    rw [e] at this
    simp [this.2.2.2]

theorem rstripSp_of_last_ne {t : Text} (h : t.getLast? ≠ some ' ') : rstripSp t = t := by
  unfold rstripSp
  cases hr : t.reverse with
  | nil => simp_all
  | cons a as =>
    have : t.getLast? = some a := by
      rw [List.getLast?_eq_head?_reverse, hr]; rfl
    rw [this] at h
    have ha : a ≠ ' ' := by intro e; exact h (by rw [e])
    rw [List.dropWhile_cons_of_neg (by simpa using ha), ← hr, List.reverse_reverse]

theorem step1_ok (heur : Bool) (st : Style) (text : Text) (W : Rat) (hnl : ∀ c ∈ text, c ≠ '\n') :
    ∃ d, step1 heur st text W = .ok d := by
  unfold step1
  simp only
  generalize hS : shortText heur st.fs text W = short
  have hpre : short <+: text := by rw [← hS]; exact shortText_prefix _ _ _ _
  have hnlS : find short '\n' = none := find_none_of_not_mem (fun x hx => hnl x (hpre.subset hx))
  have hT : (createLayout st short (.fin W)).text = short := by
    show truncNl short = short; exact truncNl_of_find_none hnlS
  split
  · exact ⟨_, rfl⟩
  · split
    · rename_i hflt
      cases hres : (firstLine st.fs (createLayout st short (.fin W))).resume with
      | none => rw [hres] at hflt; simp [sliceToNat] at hflt
      | some p =>
        have hp := firstLine_resume_lt st.fs (createLayout st short (.fin W)) p (by rw [hT]; exact hnlS) hres
        rw [hT] at hp
        simp only [sliceToNat, List.length_take, hT]
        rw [Nat.min_eq_left (Nat.le_of_lt hp.1), nextBreakPoint_ok _ _ _ (by omega)]
        exact ⟨_, rfl⟩
    · exact ⟨_, rfl⟩

/-- the opportunity Pango chose on a canonical text follows a space -/
theorem resume_after_space {t : Text} (hcan : Canonical t) (fs : Rat) (hy : Bool) (W : Option Rat) (p : Nat)
    (hp : firstBreak fs hy false t true W = p) (hlt : p < t.length) :
    0 < p ∧ t[p - 1]? = some ' ' := by
  rcases firstBreak_at_opportunity fs hy false t true W with h | h
  · rw [hp] at h; omega
  · rw [hp] at h
    have h0 := opportunity_pos h
    rw [hcan.canBreakAt h0] at h
    exact ⟨h0, by simpa using h⟩

/-- `first_line_metrics` with a next line reads only `line.length` and that many characters -/
theorem flm_some_congr' (fs : Rat) (l1 l2 : Line) (t1 t2 : Text) (lay1 lay2 : Layout) (r : Nat) (c : Bool)
    (hr : r ≠ 0) (hl : l1.length = l2.length) (ht : t1.take l1.length = t2.take l1.length) :
    firstLineMetrics fs l1 t1 lay1 (some r) c = firstLineMetrics fs l2 t2 lay2 (some r) c := by
  unfold firstLineMetrics
  simp only [hr, ne_eq, not_false_eq_true, if_true, Layout.setText]
  rw [← hl, ht, firstLine_unlimited, firstLine_unlimited]

/-- the data the later steps work on, for a text without newline (what `step1_facts` gives) -/
structure DraftOk (st : Style) (text : Text) (w : Rat) (d : Draft) : Prop where
  line : d.line = firstLine st.fs (createLayout st text (.fin w))
  pre : d.short <+: text
  lay : d.lay = createLayout st d.short (.fin w)
  txt : d.text = text ∨ (d.text = d.short ∧ ∃ p, d.line.resume = some p ∧ p < d.short.length ∧
        ∃ k, p + 1 + k < d.short.length ∧ isLineBreakAttr d.short (p + 1 + k) = true)
  sh : d.short = text ∨ ∃ p, d.line.resume = some p ∧ p < d.short.length

theorem DraftOk.text_pre {st : Style} {text : Text} {w : Rat} {d : Draft} (h : DraftOk st text w d) :
    d.text <+: text := by
  rcases h.txt with e | e
  · rw [e]; exact List.prefix_refl _
  · rw [e.1]; exact h.pre

theorem DraftOk.short_le_text {st : Style} {text : Text} {w : Rat} {d : Draft} (h : DraftOk st text w d) :
    d.short.length ≤ d.text.length := by
  rcases h.txt with e | e
  · rw [e]; exact h.pre.length_le
  · rw [e.1]; exact Nat.le_refl _

/-- the result every path is shown to reach -/
def target (st : Style) (text : Text) (w : Rat) : Res :=
  firstLineMetrics st.fs (firstLine st.fs (createLayout st text (.fin w))) text
    (createLayout st text (.fin w)) (firstLine st.fs (createLayout st text (.fin w))).resume st.ws.spaceCollapse

theorem flm_draft_eq_target {st : Style} {text : Text} {w : Rat} {d : Draft} (h : DraftOk st text w d)
    (hnl : ∀ c ∈ text, c ≠ '\n') :
    firstLineMetrics st.fs d.line d.text d.lay d.line.resume st.ws.spaceCollapse = target st text w := by
  unfold target
  rw [← h.line]
  cases hres : d.line.resume with
  | none =>
    have hsh : d.short = text := by
      rcases h.sh with e | ⟨p, hp, _⟩
      · exact e
      · rw [hres] at hp; cases hp
    have htx : d.text = text := by
      rcases h.txt with e | ⟨_, p, hp, _⟩
      · exact e
      · rw [hres] at hp; cases hp
    rw [htx, h.lay, hsh]
  | some p =>
    have hp0 : p ≠ 0 := by
      have := firstLine_resume_pos st.fs (createLayout st text (.fin w)) p (by rw [← h.line]; exact hres)
      omega
    apply flm_some_congr' _ _ _ _ _ _ _ _ _ hp0 rfl
    -- the line lies inside the short text
    have hT : (createLayout st text (.fin w)).text = text := by
      show truncNl text = text; exact truncNl_of_find_none (find_none_of_not_mem hnl)
    have hlen := firstLine_resume_lt st.fs (createLayout st text (.fin w)) p
      (by rw [hT]; exact find_none_of_not_mem hnl) (by rw [← h.line]; exact hres)
    rw [← h.line] at hlen
    rw [hlen.2]
    have hps : p ≤ d.short.length := by
      rcases h.sh with e | ⟨q, hq, hlt⟩
      · rw [e]; rw [hT] at hlen; omega
      · rw [hres] at hq; cases hq; omega
    rcases h.txt with e | e
    · rw [e]
    · rw [e.1]
      have := List.prefix_iff_eq_take.mp h.pre
      rw [this, List.take_take, Nat.min_eq_left hps]

theorem step3Try_not_space (st : Style) (d : Draft) (maxW : MaxW) (a b : Bool) (flt nw : Text) (c : Char)
    (hwb : st.wb = .normal) (how : st.ow = .normal) (hc : c ≠ ' ') :
    step3Try st d maxW a b flt nw c =
      firstLineMetrics st.fs d.line d.text d.lay d.line.resume st.ws.spaceCollapse := by
  unfold step3Try
  simp only [hc, if_false]
  exact step5_normal st d.text maxW a b d.lay d.line d.line.resume hwb how

/-- Step 3 comes down to `first_line_metrics` of the draft's line as soon as the character
`second_line_text[break_point or -1]` is harmless (or makes step 3 re-derive the same line). -/
theorem step3_reduce (st : Style) (d : Draft) (maxW : MaxW) (a b : Bool) (R : Res)
    (hwb : st.wb = .normal) (how : st.ow = .normal) (bp : Option Int)
    (hbp : step3BreakPoint d (step3Texts d maxW).1 = .ok bp)
    (hc : rstripSp (sliceTo (step3Texts d maxW).2 bp) ≠ [] → st.ws.spaceCollapse = true →
      ∃ c, Py.get (step3Texts d maxW).2 (orInt bp (-1)) "second_line_text" = .ok c ∧
        step3Try st d maxW a b (step3Texts d maxW).1 (rstripSp (sliceTo (step3Texts d maxW).2 bp)) c = R)
    (hR : firstLineMetrics st.fs d.line d.text d.lay d.line.resume st.ws.spaceCollapse = R) :
    step3 st d maxW a b = .ok R := by
  unfold step3
  simp only [hbp, Except.bind]
  split
  · rename_i hnw
    split
    · rename_i hcol
      obtain ⟨c, hg, ht⟩ := hc hnw hcol
      rw [hg]; simp [Except.map, ht]
    · rw [step5_normal _ _ _ _ _ _ _ _ hwb how, hR]
  · split
    · rw [hR]
    · rw [step5_normal _ _ _ _ _ _ _ _ hwb how, hR]

theorem getLast?_drop_of_lt {α} (t : List α) {p : Nat} (h : p < t.length) : (t.drop p).getLast? = t.getLast? := by
  rw [List.getLast?_drop]
  simp [Nat.not_le.mpr h]

theorem Canonical.last_ne_space {t : Text} (h : Canonical t) : t.getLast? ≠ some ' ' := by
  intro hl
  rw [List.getLast?_eq_getElem?] at hl
  have := h.2 (t.length - 1) hl
  omega

theorem get_last {α} (t : List α) (site : String) (c : α) (h : t.getLast? = some c) :
    Py.get t (-1) site = .ok c := by
  unfold Py.get
  have hne : t ≠ [] := by intro e; rw [e] at h; cases h
  have hlen : 0 < t.length := List.length_pos_iff.mpr hne
  simp only [show ¬ (0 : Int) ≤ -1 by omega, if_false]
  have : ¬ ((t.length : Int) + -1 < 0) := by omega
  simp only [this, if_false]
  have e : ((t.length : Int) + -1).toNat = t.length - 1 := by omega
  rw [e, ← List.getLast?_eq_getElem?, h]

theorem find?_range_some {f : Nat → Bool} {n k : Nat} (h : (List.range n).find? f = some k) :
    k < n ∧ f k = true ∧ ∀ j, j < k → f j = false := by
  have hm := List.mem_of_find?_eq_some h
  rw [List.mem_range] at hm
  refine ⟨hm, List.find?_some h, ?_⟩
  intro j hj
  rw [List.find?_eq_some_iff_append] at h
  obtain ⟨_, as, bs, hab, hall⟩ := h
  -- as = range k
  have hlen : as.length = k := by
    have h1 : (List.range n)[as.length]? = some k := by rw [hab]; simp
    rw [List.getElem?_range (by
      have : as.length < (List.range n).length := by rw [hab]; simp
      simpa using this)] at h1
    simpa using h1
  have hj' : j < as.length := by omega
  have hmem : as[j]? = some j := by
    have h2 : (List.range n)[j]? = as[j]? := by rw [hab, List.getElem?_append_left hj']
    rw [← h2, List.getElem?_range (by omega)]
  have := hall j (List.mem_of_getElem? hmem)
  simpa using this

theorem find?_range_none {f : Nat → Bool} {n : Nat} (h : (List.range n).find? f = none) :
    ∀ j, j < n → f j = false := by
  intro j hj
  rw [List.find?_eq_none] at h
  have := h j (List.mem_range.mpr hj)
  simpa using this

/-- Step 3 when the first line overflows (`first_line_text = ''`): on a canonical text the next
"word" it looks at is the first word minus its last letter, nothing is retried. -/
theorem step3_overflow {st : Style} {text : Text} {w : Rat} {d : Draft} (a b : Bool)
    (hd : DraftOk st text w d) (hcan : Canonical text) (hwb : st.wb = .normal) (how : st.ow = .normal)
    (hge : (MaxW.fin w).ge d.line.width = false) :
    step3 st d (.fin w) a b = .ok (target st text w) := by
  have hnl := hcan.1
  have hR := flm_draft_eq_target hd hnl
  have htexts : step3Texts d (.fin w) = (([] : Text), d.text) := by
    unfold step3Texts; simp [hge]
  have hnlS : find d.short '\n' = none := find_none_of_not_mem (fun x hx => hnl x (hd.pre.subset hx))
  have hT : d.lay.text = d.short := by
    rw [hd.lay]; show truncNl d.short = d.short; exact truncNl_of_find_none hnlS
  have htpre := hd.text_pre
  by_cases hsh : d.short = []
  · -- empty short text: empty text
    have hbp : step3BreakPoint d (step3Texts d (.fin w)).1 = .ok none := by
      unfold step3BreakPoint; rw [htexts]; simp [hsh]
    apply step3_reduce st d _ a b _ hwb how none hbp _ hR
    intro hnw _
    exfalso
    have : d.text = [] := by
      rcases hd.txt with e | e
      · rcases hd.sh with e2 | ⟨p, _, hp⟩
        · rw [e, ← e2, hsh]
        · rw [hsh] at hp; simp at hp
      · rw [e.1, hsh]
    rw [htexts] at hnw
    simp [this, sliceTo, rstripSp] at hnw
  · have hlenS : 0 < d.short.length := List.length_pos_iff.mpr hsh
    have hbpv : step3BreakPoint d (step3Texts d (.fin w)).1 =
        .ok (((List.range (d.short.length - 1)).find? (fun k => isLineBreakAttr d.short (1 + k))).map
          (fun k => (k : Int) - 1)) := by
      unfold step3BreakPoint
      rw [htexts]
      simp only [List.length_nil, Nat.zero_add, hT]
      rw [if_neg (by intro e; exact hsh e.symm), nextBreakPoint_ok _ _ _ (by omega)]
      simp [Except.map]
    cases hf : (List.range (d.short.length - 1)).find? (fun k => isLineBreakAttr d.short (1 + k)) with
    | none =>
      rw [hf] at hbpv
      apply step3_reduce st d _ a b _ hwb how none hbpv _ hR
      intro hnw _
      rw [htexts] at hnw ⊢
      simp only [sliceTo] at hnw
      -- the text is not truncated: a truncation needs a break point in the short text
      have htx : d.text = text := by
        rcases hd.txt with e | ⟨_, p, hp, hlt, k, hk, hbr⟩
        · exact e
        · exfalso
          have := find?_range_none hf (p + k) (by omega)
          have e : 1 + (p + k) = p + 1 + k := by omega
          rw [e] at this; rw [this] at hbr; cases hbr
      have hne : d.text ≠ [] := by intro e; rw [e] at hnw; simp [rstripSp] at hnw
      cases hl : d.text.getLast? with
      | none => rw [List.getLast?_eq_none_iff] at hl; exact absurd hl hne
      | some c =>
        refine ⟨c, get_last _ _ _ hl, ?_⟩
        have hc : c ≠ ' ' := by
          intro e; rw [e, htx] at hl; exact hcan.last_ne_space hl
        rw [step3Try_not_space _ _ _ _ _ _ _ _ hwb how hc, hR]
    | some k0 =>
      rw [hf] at hbpv
      have hbpv : step3BreakPoint d (step3Texts d (.fin w)).1 = .ok (some ((k0 : Int) - 1)) := hbpv
      obtain ⟨hk0, hbr, hmin⟩ := find?_range_some hf
      -- the break is after a space of the text
      have hsp : text[1 + k0 - 1]? = some ' ' := by
        have := hcan.isLineBreakAttr_prefix hd.pre (i := 1 + k0) (by omega) (by omega)
        rw [this] at hbr; simpa using hbr
      have hk1 : 1 ≤ k0 := by
        -- the text does not start with a space
        have := (hcan.2 (1 + k0 - 1) hsp).1
        omega
      apply step3_reduce st d _ a b _ hwb how _ hbpv _ hR
      intro hnw _
      rw [htexts] at hnw ⊢
      have hlt : ((k0 : Int) - 1) < (d.text.length : Int) := by
        have := hd.short_le_text; omega
      obtain ⟨m, hm0, hml, hsl, hget⟩ := next_word_index d.text ((k0 : Int) - 1) "second_line_text" hlt hnw
      -- m = k0 - 1
      have hm : m = k0 - 1 := by
        have h1 : sliceTo d.text (some ((k0 : Int) - 1)) = d.text.take (k0 - 1) := by
          have : (0 : Int) ≤ (k0 : Int) - 1 := by omega
          simp only [sliceTo, this, if_true]
          congr 1; omega
        rw [h1] at hsl
        have := congrArg List.length hsl
        simp only [List.length_take] at this
        have hs := hd.short_le_text
        omega
      have hcm : d.text[m]? = text[m]? := getElem?_of_prefix htpre hml
      -- text[k0 - 1] is the last letter of the first word
      have hprev := (hcan.2 (1 + k0 - 1) hsp).2.1
      have e1 : 1 + k0 - 1 - 1 = m := by omega
      rw [e1] at hprev
      cases hcc : d.text[m]? with
      | none => rw [List.getElem?_eq_none_iff] at hcc; omega
      | some c =>
        rw [hcc] at hget
        refine ⟨c, hget, ?_⟩
        have hc : c ≠ ' ' := by
          intro e; rw [e] at hcc; rw [hcm] at hcc; exact hprev hcc
        rw [step3Try_not_space _ _ _ _ _ _ _ _ hwb how hc, hR]

/-- the Pango line of a layout without newline, when a second line exists -/
theorem firstLine_wrap_spec (fs : Rat) (lay : Layout) (p : Nat) (hnl : find lay.text '\n' = none)
    (h : (firstLine fs lay).resume = some p) :
    ∃ W, lay.width = some W ∧ firstBreak fs lay.hyph lay.wrapChar lay.text true (some W) = p ∧
      p < lay.text.length := by
  rw [firstLine_eq_core, hnl, paraOf_of_find_none hnl] at h
  unfold firstLineCore at h
  simp only [Option.isNone_none, Bool.true_or] at h
  split at h
  · rename_i hlt
    simp only [Option.some.injEq] at h
    cases hw : lay.width with
    | none => rw [hw] at hlt; simp [firstBreak_none] at hlt
    | some W => rw [hw] at h hlt; exact ⟨W, rfl, h, by omega⟩
  · simp at h

/-- Step 3 retrying with the next word (the character at `break_point or -1` is a space) derives the
same line again on a canonical text: the longer first line cannot fit, because the opportunity after
that space would have been taken by Pango. -/
theorem step3Try_space_same {st : Style} {text : Text} {w : Rat} {d : Draft} (a b : Bool)
    (hd : DraftOk st text w d) (hcan : Canonical text) (hwb : st.wb = .normal) (how : st.ow = .normal)
    (hfs : 0 ≤ st.fs) (p m : Nat) (hres : d.line.resume = some p) (hm0 : 0 < m)
    (hpm : p + m < d.text.length) (hsp : d.text[p + m]? = some ' ') :
    step3Try st d (.fin w) a b (d.text.take p) (rstripSp ((d.text.drop p).take m)) ' ' =
      target st text w := by
  have hnl := hcan.1
  have htpre := hd.text_pre
  have hspT : text[p + m]? = some ' ' := by rw [← getElem?_of_prefix htpre hpm]; exact hsp
  have hcs := hcan.2 (p + m) hspT
  -- the next word ends with a letter: nothing to strip
  have hnw : rstripSp ((d.text.drop p).take m) = (d.text.drop p).take m := by
    apply rstripSp_of_last_ne
    rw [List.getLast?_eq_getElem?]
    have hl : ((d.text.drop p).take m).length = m := by simp [List.length_take, List.length_drop]; omega
    rw [hl, List.getElem?_take, if_pos (by omega), List.getElem?_drop]
    have e : p + (m - 1) = p + m - 1 := by omega
    rw [e, getElem?_of_prefix htpre (by omega)]
    exact hcs.2.1
  have hnew : d.text.take p ++ (d.text.drop p).take m = text.take (p + m) := by
    rw [← List.take_add]
    have := List.prefix_iff_eq_take.mp htpre
    rw [this, List.take_take, Nat.min_eq_left (by omega)]
  rw [hnw]
  unfold step3Try
  simp only [if_true, hnew]
  -- the full layout and its line
  have hTfull : (createLayout st text (.fin w)).text = text := by
    show truncNl text = text; exact truncNl_of_find_none (find_none_of_not_mem hnl)
  have hresF : (firstLine st.fs (createLayout st text (.fin w))).resume = some p := by rw [← hd.line]; exact hres
  obtain ⟨W, hW, hpF, hpn⟩ := firstLine_wrap_spec st.fs (createLayout st text (.fin w)) p
    (by rw [hTfull]; exact find_none_of_not_mem hnl) hresF
  rw [hTfull] at hpF hpn
  have hwc : (createLayout st text (.fin w)).wrapChar = false := rfl
  rw [hwc] at hpF
  generalize hhy : (createLayout st text (.fin w)).hyph = hy at hpF
  have hp0 := (resume_after_space hcan st.fs hy (some W) p hpF hpn)
  -- the retried layout
  have hnlN : find (text.take (p + m)) '\n' = none :=
    find_none_of_not_mem (fun x hx => hnl x (List.mem_of_mem_take hx))
  have hlayN : d.lay.setText (text.take (p + m)) =
      { text := text.take (p + m), width := some W, wrapChar := false, hyph := hy } := by
    rw [hd.lay]
    simp only [Layout.setText, truncNl_of_find_none hnlN]
    have : (createLayout st d.short (.fin w)).width = (createLayout st text (.fin w)).width := rfl
    have h2 : (createLayout st d.short (.fin w)).hyph = (createLayout st text (.fin w)).hyph := rfl
    have h3 : (createLayout st d.short (.fin w)).wrapChar = false := rfl
    cases hc : createLayout st d.short (.fin w) with
    | mk t wd wc hyp =>
      rw [hc] at this h2 h3
      simp only at this h2 h3
      rw [this, hW, h2, hhy, h3]
  rw [hlayN]
  have hklen : (text.take (p + m)).length = p + m := by simp [List.length_take]; omega
  -- the longer line does not fit
  have hnf : ¬ endFits st.fs (text.take (p + m)) true W := by
    intro hfit
    unfold endFits at hfit
    rw [hklen, getElem?_take_of_lt text (by omega : p + m - 1 < p + m)] at hfit
    have hne : (text[p + m - 1]? == some ' ') = false := by
      simp only [beq_eq_false_iff_ne, ne_eq]; exact hcs.2.1
    simp only [hne, Bool.false_and, Bool.false_eq_true, if_false] at hfit
    -- the opportunity after the space fits as well, and is later than p
    have hopp : (p + m + 1) ∈ opportunities false text := by
      rw [mem_opportunities]
      refine ⟨hcs.2.2.1, ?_⟩
      rw [hcan.canBreakAt (by omega)]
      simpa using hspT
    have hfits : fitsAt st.fs hy false text W (p + m + 1) = true := by
      unfold fitsAt breakExtra
      have e : p + m + 1 - 1 = p + m := by omega
      simp only [e, hspT, beq_self_eq_true, if_true, decide_eq_true_eq]
      rw [Rat.natCast_add]
      have : ((1 : Nat) : Rat) = 1 := rfl
      rw [this]
      have hx : ((p + m : Nat) : Rat) * st.fs + 0 ≤ W := hfit
      grind
    have hmax := (firstBreak_maximal st.fs hy false text true W).1 (p + m + 1) hopp (by rw [hpF]; omega)
    rw [hfits] at hmax; cases hmax
  -- so Pango wraps the retried text, at the same place
  have hpmem : p ∈ opportunities false (text.take (p + m)) := by
    rw [mem_opportunities_take false text (by omega) (by omega), mem_opportunities]
    refine ⟨hpn, ?_⟩
    rw [hcan.canBreakAt hp0.1]; simpa using hp0.2
  have hwrapN : firstBreak st.fs hy false (text.take (p + m)) true (some W) < p + m := by
    rcases firstBreak_cases st.fs hy false (text.take (p + m)) true W _ rfl with h | h | h | h
    · exfalso
      rcases h.2 with e | e
      · have := congrArg List.length e; rw [hklen] at this; simp at this; omega
      · exact hnf e
    · have := (mem_opportunities.mp h.2.1).1; omega
    · have := (mem_opportunities.mp (List.mem_of_head? h.2.2)).1; omega
    · rw [h.2.1] at hpmem; cases hpmem
  have hstab := firstBreak_prefix_stable st.fs hfs hy false text true W (p + m) (by omega) hwrapN
  rw [hpF] at hstab
  have hlineN : firstLine st.fs { text := text.take (p + m), width := some W, wrapChar := false, hyph := hy } =
      { length := p, resume := some p,
        width := (p : Rat) * st.fs + breakExtra st.fs hy false (text.take (p + m)) p } := by
    rw [firstLine_eq_core]
    simp only [hnlN, paraOf_of_find_none hnlN]
    unfold firstLineCore
    simp only [Option.isNone_none, Bool.true_or, ← hstab, hklen]
    rw [if_pos (by omega)]
  rw [hlineN]
  simp only
  rw [step5_normal _ _ _ _ _ _ _ _ hwb how]
  rw [← flm_draft_eq_target hd hnl, hres]
  have hp0' : p ≠ 0 := by omega
  have hlenL : d.line.length = p := by
    have := firstLine_resume_lt st.fs (createLayout st text (.fin w)) p
      (by rw [hTfull]; exact find_none_of_not_mem hnl) hresF
    rw [hd.line]; exact this.2
  exact flm_some_congr' _ _ _ _ _ _ _ _ _ hp0' (by simp [hlenL]) rfl

/-- Step 3 when the first line fits and a second line exists, on a canonical text. -/
theorem step3_fits {st : Style} {text : Text} {w : Rat} {d : Draft} (a b : Bool)
    (hd : DraftOk st text w d) (hcan : Canonical text) (hwb : st.wb = .normal) (how : st.ow = .normal)
    (hfs : 0 ≤ st.fs) (p : Nat) (hres : d.line.resume = some p)
    (hge : (MaxW.fin w).ge d.line.width = true) :
    step3 st d (.fin w) a b = .ok (target st text w) := by
  have hnl := hcan.1
  have hR := flm_draft_eq_target hd hnl
  have htexts : step3Texts d (.fin w) = (d.text.take p, d.text.drop p) := by
    unfold step3Texts; simp [hge, hres, sliceToNat, sliceFromNat]
  have hnlS : find d.short '\n' = none := find_none_of_not_mem (fun x hx => hnl x (hd.pre.subset hx))
  have hT : d.lay.text = d.short := by
    rw [hd.lay]; show truncNl d.short = d.short; exact truncNl_of_find_none hnlS
  have htpre := hd.text_pre
  have hsl := hd.short_le_text
  -- p lies inside the short text
  have hTfull : (createLayout st text (.fin w)).text = text := by
    show truncNl text = text; exact truncNl_of_find_none (find_none_of_not_mem hnl)
  have hpn := (firstLine_resume_lt st.fs (createLayout st text (.fin w)) p
      (by rw [hTfull]; exact find_none_of_not_mem hnl) (by rw [← hd.line]; exact hres)).1
  rw [hTfull] at hpn
  have hps : p < d.short.length := by
    rcases hd.sh with e | ⟨q, hq, hlt⟩
    · rw [e]; exact hpn
    · rw [hres] at hq; cases hq; exact hlt
  have hfl : (d.text.take p).length = p := by simp [List.length_take]; omega
  have hbpv : step3BreakPoint d (step3Texts d (.fin w)).1 =
      .ok (((List.range (d.short.length - (p + 1))).find? (fun k => isLineBreakAttr d.short (p + 1 + k))).map
        (fun k => (k : Int) - ((p : Int) + 1))) := by
    unfold step3BreakPoint
    rw [htexts]
    simp only [hfl, hT]
    rw [if_neg (by intro e; have := congrArg List.length e; rw [hfl] at this; omega),
      nextBreakPoint_ok _ _ _ (by omega)]
    simp [Except.map]
  have hdl : (d.text.drop p).length = d.text.length - p := by simp [List.length_drop]
  cases hf : (List.range (d.short.length - (p + 1))).find? (fun k => isLineBreakAttr d.short (p + 1 + k)) with
  | none =>
    rw [hf] at hbpv
    apply step3_reduce st d _ a b _ hwb how none hbpv _ hR
    intro hnw _
    rw [htexts] at hnw ⊢
    have htx : d.text = text := by
      rcases hd.txt with e | ⟨_, q, hq, hlt, k, hk, hbr⟩
      · exact e
      · exfalso
        rw [hres] at hq; cases hq
        have := find?_range_none hf k (by omega)
        rw [this] at hbr; cases hbr
    have hlast : (d.text.drop p).getLast? = d.text.getLast? := getLast?_drop_of_lt _ (by omega)
    cases hl : d.text.getLast? with
    | none =>
      rw [List.getLast?_eq_none_iff] at hl
      have h0 : d.text.length = 0 := by rw [hl]; rfl
      omega
    | some c =>
      refine ⟨c, get_last _ _ _ (by rw [hlast]; exact hl), ?_⟩
      have hc : c ≠ ' ' := by
        intro e; rw [e, htx] at hl; exact hcan.last_ne_space hl
      rw [step3Try_not_space _ _ _ _ _ _ _ _ hwb how hc, hR]
  | some k0 =>
    rw [hf] at hbpv
    have hbpv : step3BreakPoint d (step3Texts d (.fin w)).1 = .ok (some ((k0 : Int) - ((p : Int) + 1))) := hbpv
    obtain ⟨hk0, hbr, hmin⟩ := find?_range_some hf
    apply step3_reduce st d _ a b _ hwb how _ hbpv _ hR
    intro hnw _
    rw [htexts] at hnw ⊢
    have hlt : ((k0 : Int) - ((p : Int) + 1)) < ((d.text.drop p).length : Int) := by rw [hdl]; omega
    obtain ⟨m, hm0, hml, hsli, hget⟩ :=
      next_word_index (d.text.drop p) ((k0 : Int) - ((p : Int) + 1)) "second_line_text" hlt hnw
    rw [hdl] at hml
    have hidx : (d.text.drop p)[m]? = d.text[p + m]? := by rw [List.getElem?_drop]
    cases hcc : d.text[p + m]? with
    | none => rw [List.getElem?_eq_none_iff] at hcc; omega
    | some c =>
      rw [hidx, hcc] at hget
      refine ⟨c, hget, ?_⟩
      by_cases hc : c = ' '
      · subst hc
        simp only [hsli]
        exact step3Try_space_same a b hd hcan hwb how hfs p m hres hm0 (by omega) hcc
      · rw [step3Try_not_space _ _ _ _ _ _ _ _ hwb how hc, hR]

/-- **`split_first_line` on a canonical text is `first_line_metrics` of Pango's line for the whole
text** (normal `word-break` / `overflow-wrap`, wrapping `white-space`): the prefix heuristic of step 1,
the "put the next word back" of step 3 and step 5 change nothing. -/
theorem split_canonical (heur : Bool) (st : Style) (text : Text) (w : Rat) (a b : Bool)
    (hwrap : st.ws.textWrap = true) (hwb : st.wb = .normal) (how : st.ow = .normal)
    (hfs : 0 < st.fs) (hcan : Canonical text) :
    splitFirstLineH heur st text (.fin w) a b = .ok (target st text w) := by
  have hnl := hcan.1
  have hfs0 : 0 ≤ st.fs := by grind
  have hne : st.fs ≠ 0 := by grind
  unfold splitFirstLineH
  simp only [hwrap, if_true, hne, ne_eq, not_false_eq_true]
  obtain ⟨d, hd1⟩ := step1_ok heur st text w hnl
  rw [hd1]
  simp only [Except.bind]
  obtain ⟨h1, h2, h3, h4, h5⟩ := step1_facts heur st text w d hnl hfs0 hd1
  have hd : DraftOk st text w d := ⟨h1, h2, h3, h4, h5⟩
  unfold finish
  simp only
  rw [if_neg (by intro e; cases e)]
  split
  · rename_i hc
    rw [flm_draft_eq_target hd hnl]
  · rename_i hc
    cases hres : d.line.resume with
    | none =>
      have hge : (MaxW.fin w).ge d.line.width = false := by
        cases hg : (MaxW.fin w).ge d.line.width with
        | false => rfl
        | true => exact absurd ⟨hres, hg⟩ hc
      exact step3_overflow a b hd hcan hwb how hge
    | some p =>
      cases hg : (MaxW.fin w).ge d.line.width with
      | false => exact step3_overflow a b hd hcan hwb how hg
      | true => exact step3_fits a b hd hcan hwb how hfs0 p hres hg

/-- the first-fit line in closed form -/
def firstFit (st : Style) (text : Text) (w : Rat) : Res :=
  let p := firstBreak st.fs (createLayout st text (.fin w)).hyph false text true (createLayout st text (.fin w)).width
  if p < text.length then
    let flt := if st.ws.spaceCollapse then rstripSp (text.take p) else text.take p
    { length := flt.length, resume := some p, width := (flt.length : Rat) * st.fs, text := flt }
  else { length := text.length, resume := none, width := (text.length : Rat) * st.fs, text := text }

theorem target_eq_firstFit (st : Style) (text : Text) (w : Rat) (hnl : ∀ c ∈ text, c ≠ '\n') :
    target st text w = firstFit st text w := by
  have hfn : find text '\n' = none := find_none_of_not_mem hnl
  have hT : (createLayout st text (.fin w)).text = text := by
    show truncNl text = text; exact truncNl_of_find_none hfn
  unfold target firstFit
  rw [firstLine_eq_core, hT, hfn, paraOf_of_find_none hfn]
  have hwc : (createLayout st text (.fin w)).wrapChar = false := rfl
  rw [hwc]
  unfold firstLineCore
  simp only [Option.isNone_none, Bool.true_or]
  split
  · rename_i hlt
    have hp0 : firstBreak st.fs (createLayout st text (.fin w)).hyph false text true
        (createLayout st text (.fin w)).width ≠ 0 := by
      have : text ≠ [] := by intro e; rw [e] at hlt; simp at hlt
      have := firstBreak_pos st.fs (createLayout st text (.fin w)).hyph false text true
        (createLayout st text (.fin w)).width this
      omega
    unfold firstLineMetrics
    simp only [hp0, ne_eq, not_false_eq_true, if_true, Layout.setText]
    have hflt : ∀ (flt : Text), flt <+: text → truncNl flt = flt ∧ paraOf flt = flt ∧ find flt '\n' = none := by
      intro flt hpre
      have h1 : find flt '\n' = none := find_none_of_not_mem (fun x hx => hnl x (hpre.subset hx))
      exact ⟨truncNl_of_find_none h1, paraOf_of_find_none h1, h1⟩
    split
    · have := hflt (rstripSp (text.take (firstBreak st.fs (createLayout st text (.fin w)).hyph false text true
        (createLayout st text (.fin w)).width))) ((rstripSp_prefix _).trans (List.take_prefix _ _))
      rw [firstLine_unlimited, this.1, this.2.1, this.2.2]
    · have := hflt (text.take (firstBreak st.fs (createLayout st text (.fin w)).hyph false text true
        (createLayout st text (.fin w)).width)) (List.take_prefix _ _)
      rw [firstLine_unlimited, this.1, this.2.1, this.2.2]
  · simp only [Option.map_none]
    unfold firstLineMetrics
    simp only [hT]

/-- executable form of `Canonical` -/
def canonicalB (t : Text) : Bool :=
  t.all (· != '\n') &&
  (List.range t.length).all (fun i =>
    t[i]? != some ' ' ||
      (decide (0 < i) && t[i - 1]? != some ' ' && decide (i + 1 < t.length) && t[i + 1]? != some ' '))

theorem canonical_of_canonicalB {t : Text} (h : canonicalB t = true) : Canonical t := by
  unfold canonicalB at h
  simp only [Bool.and_eq_true, List.all_eq_true, bne_iff_ne, ne_eq, List.mem_range, Bool.or_eq_true,
    decide_eq_true_eq] at h
  refine ⟨fun c hc => h.1 c hc, ?_⟩
  intro i hi
  have hlt : i < t.length := by
    by_cases hl : i < t.length
    · exact hl
    · rw [List.getElem?_eq_none (by omega)] at hi; cases hi
  rcases h.2 i hlt with h1 | h1
  · exact absurd hi h1
  · exact ⟨h1.1.1.1, h1.1.1.2, h1.1.2, h1.2⟩



/-- the one-text-box line tree after `text_align`: same tree, or the justified one -/
theorem textAlign_tree (s : AlignStyle) (x w cx cw : Rat) (n : Nat) (avail : Rat) (last : Bool) (off : Rat) (t : IBox)
    (h : textAlign s (.inl x w false [.text cx cw n]) w avail last = .ok (off, t)) :
    (t = .inl x w false [.text cx cw n] ∧ (w ≥ avail → off = 0) ∧ (w < avail → 0 ≤ off ∧ off ≤ avail - w)) ∨
    (w < avail ∧ off = 0 ∧ n ≠ 0 ∧ t = .inl (x + 0) avail false [.text (cx + 0) (cw + (avail - w)) n]) := by
  have hr := align_offset_range s _ _ w avail off last h
  unfold textAlign at h
  split at h
  · cases h; left; exact ⟨rfl, hr.1, hr.2⟩
  · rename_i hlt
    simp only at h
    split at h <;> first | (cases h; left; exact ⟨rfl, hr.1, hr.2⟩) | skip
    · -- justify
      split at h
      · cases h
        by_cases hn : n = 0
        · left
          refine ⟨?_, hr.1, hr.2⟩
          subst hn
          simp [justifyLine, countSpaces, countSpacesL]
        · right
          have hw : w < avail := by grind
          refine ⟨hw, rfl, hn, ?_⟩
          have hn' : (n : Rat) ≠ 0 := by exact_mod_cast hn
          have hc := Rat.div_mul_cancel (a := avail - w) hn'
          simp only [justifyLine, countSpaces, countSpacesL, Nat.add_zero, hn, ne_eq, not_false_eq_true, if_true,
            addWordSpacing, Bool.false_eq_true, if_false, addWordSpacingL, IBox.inFlow,
            show n > 0 from Nat.pos_of_ne_zero hn]
          congr 1 <;> grind
      · cases h; left; exact ⟨rfl, hr.1, hr.2⟩
    · cases h
/-- **content lies inside the block** (ltr): the line box `get_next_linebox` returns for a text line
starts at the block's content edge or to its right, and — when it is not wider than the block — ends
inside the block, for every `text-align-all` / `text-align-last`, with or without justification; a
wider line starts at the content edge (it overflows at the end side only); the text box sits
`text-indent` inside the line and is exactly as wide as the line minus the indent. -/
theorem text_line_inside_block (p : Para) (lineX posX y : Rat) (s : TextSplit) (c : Child) (l : OutLine)
    (hrtl : p.align.rtl = false) (h : textLine p lineX posX y s c = .ok l) :
    l.y = y ∧ l.h = p.lineHeight ∧ l.resume = s.resume ∧
    (l.w ≤ p.width → lineX ≤ l.x ∧ l.x + l.w ≤ lineX + p.width) ∧
    (p.width < l.w → l.x = lineX) ∧
    ∃ t cx cw, l.child = some (t, cx, cw) ∧ cx = l.x + (posX - lineX) ∧ cx + cw = l.x + l.w := by
  unfold textLine at h
  simp only [hrtl, Bool.false_eq_true, if_false] at h
  cases hr : removeLastWhitespace p.st c with
  | error e => rw [hr] at h; cases h
  | ok cr =>
    rw [hr] at h
    simp only [Except.bind] at h
    obtain ⟨c', removed⟩ := cr
    simp only at h
    -- the removed width is what the text lost
    have hrem : c'.width = c.width - removed := by
      unfold removeLastWhitespace at hr
      split at hr
      · cases hr; grind
      · simp only at hr
        split at hr
        · split at hr
          · cases hr; grind
          · cases hs : splitTextBox p.st (rstripSp c.text) MaxW.none 0 true with
            | error e => rw [hs] at hr; cases hr
            | ok ts =>
              rw [hs] at hr
              simp only [Except.bind] at hr
              split at hr <;> first | (cases hr; done) | (cases hr; simp only; grind)
        · cases hr; simp only; grind
    cases ha : textAlign p.align (IBox.inl lineX (posX + c.width - lineX - removed) false
        [IBox.text posX c'.width (count c'.text ' ')]) (posX + c.width - lineX - removed) p.width
        (s.resume.isNone || s.preserved) with
    | error e => rw [ha] at h; cases h
    | ok r =>
      rw [ha] at h
      obtain ⟨off, t⟩ := r
      simp only at h
      rcases textAlign_tree p.align _ _ _ _ _ _ _ _ _ ha with ⟨ht, h1, h2⟩ | ⟨hlt, hoff, hn, ht⟩
      · subst ht
        simp only at h
        cases h
        refine ⟨rfl, rfl, rfl, ?_, ?_, ⟨_, _, _, rfl, ?_, ?_⟩⟩
        · intro hw
          simp only at hw ⊢
          by_cases hge : posX + c.width - lineX - removed ≥ p.width
          · have := h1 hge; grind
          · have := h2 (by grind); grind
        · intro hw
          simp only at hw ⊢
          have := h1 (by grind); grind
        · simp only; grind
        · simp only; grind
      · subst ht hoff
        simp only at h
        cases h
        refine ⟨rfl, rfl, rfl, ?_, ?_, ⟨_, _, _, rfl, ?_, ?_⟩⟩
        · intro _; simp only; constructor <;> grind
        · intro hw; simp only at hw ⊢; grind
        · simp only; grind
        · simp only; grind

end Wp.C09L
