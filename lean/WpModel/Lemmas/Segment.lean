/-
Lemmas for the block-level conservation / progress theorems of PM.
-/
import WpModel.Lemmas.SegmentDefs
import WpModel.Lemmas.ParaLines

namespace Wp.PM
open Wp

@[simp] theorem skipIdxOf_node (i : Nat) (s : Option Resume) : skipIdxOf (some (.node i s)) = i := rfl
@[simp] theorem subSkipOf_node (i : Nat) (s : Option Resume) : subSkipOf (some (.node i s)) = s := rfl
@[simp] theorem skipIdxOf_none : skipIdxOf none = 0 := rfl
@[simp] theorem subSkipOf_none : subSkipOf none = none := rfl

/-! ### `withIdx` -/

@[simp] theorem fragLines_withIdx (f : Frag) (i : Nat) : fragLines (f.withIdx i) = fragLines f := by
  cases f <;> simp [Frag.withIdx, fragLines]

@[simp] theorem idx_withIdx (f : Frag) (i : Nat) : (f.withIdx i).idx = i := by
  cases f <;> rfl

theorem full_withIdx (f : Frag) (i : Nat) (b : PBox) (σ : Option Resume) (h : Full f b σ) :
    Full (f.withIdx i) b σ := by
  cases f <;> cases b <;> simp only [Frag.withIdx, Full] at h ⊢ <;> exact h

/-! ### list arithmetic of `linesFromKids`, `posKids` -/

theorem linesFromKids_nil (k : Nat) (s : Option Resume) : linesFromKids [] k s = [] := by
  simp [linesFromKids]

theorem linesFromKids_append_lt (B R : List PBox) (m : Nat) (s : Option Resume) (h : m < B.length) :
    linesFromKids (B ++ R) m s = linesFromKids B m s ++ linesFromKids R 0 none := by
  induction B generalizing m s with
  | nil => simp at h
  | cons b B ih =>
    cases m with
    | zero =>
      simp only [List.cons_append, linesFromKids, List.append_assoc]
      cases B with
      | nil => simp [linesFromKids]
      | cons b' B' => rw [ih 0 none (by simp)]
    | succ m =>
      simp only [List.cons_append, linesFromKids]
      exact ih m s (by simpa using h)

theorem linesFromKids_append_len (B R : List PBox) (k : Nat) (s : Option Resume) :
    linesFromKids (B ++ R) (B.length + k) s = linesFromKids R k s := by
  induction B with
  | nil => simp
  | cons b B ih =>
    have : (b :: B).length + k = (B.length + k) + 1 := by simp; omega
    rw [this]
    simp only [List.cons_append, linesFromKids]
    exact ih

theorem linesFromKids_drop (kids : List PBox) (k0 m : Nat) (s : Option Resume) :
    linesFromKids kids (k0 + m) s = linesFromKids (kids.drop k0) m s := by
  induction kids generalizing k0 with
  | nil => simp [linesFromKids]
  | cons b bs ih =>
    cases k0 with
    | zero => simp
    | succ k0 =>
      have : k0 + 1 + m = (k0 + m) + 1 := by omega
      rw [this]
      simp only [linesFromKids, List.drop_succ_cons]
      exact ih k0

mutual
theorem pos_lt_size : (b : PBox) → (σ : Option Resume) → pos b σ < size b
  | .para _ n _ _, σ => by
    simp only [pos, size]; omega
  | .block _ _ kids, σ => by
    simp only [pos, size]
    have := posKids_le kids (skipIdxOf σ) (subSkipOf σ)
    omega
theorem posKids_le : (bs : List PBox) → (k : Nat) → (s : Option Resume) → posKids bs k s ≤ sizeList bs
  | [], k, s => by simp [posKids, sizeList]
  | b :: bs, 0, s => by
    simp only [posKids, sizeList]
    have := pos_lt_size b s
    omega
  | b :: bs, k + 1, s => by
    simp only [posKids, sizeList]
    have := posKids_le bs k s
    omega
end

theorem posKids_lt (B : List PBox) (m : Nat) (s : Option Resume) (h : m < B.length) :
    posKids B m s < sizeList B := by
  induction B generalizing m with
  | nil => simp at h
  | cons b B ih =>
    cases m with
    | zero =>
      simp only [posKids, sizeList]
      have := pos_lt_size b s
      omega
    | succ m =>
      simp only [posKids, sizeList]
      have := ih m (by simpa using h)
      omega

theorem posKids_append_lt (B R : List PBox) (m : Nat) (s : Option Resume) (h : m < B.length) :
    posKids (B ++ R) m s = posKids B m s := by
  induction B generalizing m with
  | nil => simp at h
  | cons b B ih =>
    cases m with
    | zero => simp [posKids]
    | succ m =>
      simp only [List.cons_append, posKids]
      rw [ih m (by simpa using h)]

theorem posKids_append_len (B R : List PBox) (k : Nat) (s : Option Resume) :
    posKids (B ++ R) (B.length + k) s = sizeList B + posKids R k s := by
  induction B with
  | nil => simp [sizeList]
  | cons b B ih =>
    have : (b :: B).length + k = (B.length + k) + 1 := by simp; omega
    rw [this]
    simp only [List.cons_append, posKids, sizeList]
    rw [ih]; omega

theorem posKids_drop (kids : List PBox) (k0 m : Nat) (s : Option Resume) :
    posKids kids (k0 + m) s = sizeList (kids.take k0) + posKids (kids.drop k0) m s := by
  induction kids generalizing k0 with
  | nil => simp [posKids, sizeList]
  | cons b bs ih =>
    cases k0 with
    | zero => simp [sizeList]
    | succ k0 =>
      have : k0 + 1 + m = (k0 + m) + 1 := by omega
      rw [this]
      simp only [posKids, List.drop_succ_cons, List.take_succ_cons, sizeList]
      rw [ih k0]; omega

/-! ### `Full` -/

theorem fullFrom_length (fs : List Frag) (bs : List PBox) (i : Nat) (sub : Option Resume)
    (h : FullFrom fs bs i sub) : fs.length = bs.length := by
  induction fs generalizing bs i sub with
  | nil => simp [FullFrom] at h; simp [h]
  | cons f fs ih =>
    cases bs with
    | nil => simp [FullFrom] at h
    | cons b bs =>
      simp only [FullFrom] at h
      simp [ih bs _ _ h.2.2]

theorem paraLines_eq (id k n : Nat) (lines : List (Nat × Rat))
    (h : lines.map Prod.fst = List.range' k (n - k)) :
    lines.map (fun l => (id, l.1)) = paraLines id k n := by
  unfold paraLines
  rw [← h, List.map_map]
  rfl

mutual
theorem full_lines : (f : Frag) → (b : PBox) → (σ : Option Resume) → Full f b σ → fragLines f = linesFrom b σ
  | .para id _ st n _ lines, b, σ => by
    intro h
    cases b with
    | block _ _ _ => simp [Full] at h
    | para id' n' lh st' =>
      simp only [Full] at h
      obtain ⟨rfl, rfl, rfl, hl⟩ := h
      simp only [fragLines, linesFrom]
      exact paraLines_eq _ _ _ _ hl
  | .block _ _ _ _ fs, b, σ => by
    intro h
    cases b with
    | para _ _ _ _ => simp [Full] at h
    | block id' st' kids =>
      simp only [Full] at h
      simp only [fragLines, linesFrom]
      rw [fullFrom_lines fs _ _ _ h]
      have := linesFromKids_drop kids (skipIdxOf σ) 0 (subSkipOf σ)
      simpa using this.symm
theorem fullFrom_lines : (fs : List Frag) → (bs : List PBox) → (i : Nat) → (sub : Option Resume) →
    FullFrom fs bs i sub → fragLinesList fs = linesFromKids bs 0 sub
  | [], bs, i, sub => by
    intro h
    simp only [FullFrom] at h
    subst h
    simp [fragLinesList, linesFromKids]
  | f :: fs, bs, i, sub => by
    intro h
    cases bs with
    | nil => simp [FullFrom] at h
    | cons b bs =>
      simp only [FullFrom] at h
      simp only [fragLinesList, linesFromKids]
      rw [full_lines f b sub h.1, fullFrom_lines fs bs (i + 1) none h.2.2]
end

theorem fullFrom_snoc (fs : List Frag) (B : List PBox) (i : Nat) (sub : Option Resume) (f : Frag) (b : PBox)
    (h : FullFrom fs B i sub) (hf : Full f b (if B = [] then sub else none)) (hi : f.idx = i + B.length) :
    FullFrom (fs ++ [f]) (B ++ [b]) i sub := by
  induction fs generalizing B i sub with
  | nil =>
    simp only [FullFrom] at h
    subst h
    simp only [List.nil_append, FullFrom]
    simp at hf hi
    exact ⟨hf, hi, trivial⟩
  | cons x xs ih =>
    cases B with
    | nil => simp [FullFrom] at h
    | cons b0 B =>
      simp only [FullFrom] at h
      simp only [List.cons_append, FullFrom]
      refine ⟨h.1, h.2.1, ?_⟩
      apply ih B (i + 1) none h.2.2
      · simp at hf
        split <;> exact hf
      · simp at hi; omega

end Wp.PM

namespace Wp.PM
open Wp

/-! ### `find_earlier_page_break` -/

theorem last_of_range' (l : List (Nat × Rat)) (k m i : Nat) (y : Rat)
    (h : l.map Prod.fst = List.range' k m) (hl : l.getLast? = some (i, y)) : i + 1 = k + m := by
  have h1 : (l.map Prod.fst).getLast? = some i := by rw [List.getLast?_map, hl]; rfl
  rw [h, List.getLast?_range'] at h1
  split at h1
  · cases h1
  · simp only [Option.some.injEq] at h1; omega

theorem paraLines_split (id k m n : Nat) (h : k + m ≤ n) :
    (List.range' k m).map (fun i => (id, i)) ++ paraLines id (k + m) n = paraLines id k n := by
  unfold paraLines
  rw [← List.map_append]
  congr 1
  have := @List.range'_append k m (n - (k + m)) 1
  simp only [Nat.one_mul] at this
  rw [this]
  congr 1
  omega

theorem findEarlierPara_spec (id idx : Nat) (st : PStyle) (n : Nat) (g : Geo) (lines : List (Nat × Rat))
    (k : Nat) (x' : Frag) (r : Resume) (ho : 1 ≤ st.orphans) (hw : 1 ≤ st.widows)
    (hl : lines.map Prod.fst = List.range' k (n - k))
    (h : findEarlierPara id idx st n g lines = some (x', r)) :
    ∃ m kept, 1 ≤ m ∧ k + m < n ∧ r = .node 0 (some (.line (k + m))) ∧
      x' = .para id idx st n g kept ∧ kept.map Prod.fst = List.range' k m := by
  unfold findEarlierPara at h
  have hlen : lines.length = n - k := by
    have := congrArg List.length hl
    simpa using this
  split at h
  · cases h
  · dsimp only at h
    split at h
    · cases h
    · rename_i hidx
      split at h
      · rename_i i y hlast
        simp only [Option.some.injEq, Prod.mk.injEq] at h
        obtain ⟨rfl, rfl⟩ := h
        have hm : ((lines.length : Int) - (st.widows : Int)).toNat = lines.length - st.widows := by omega
        have hkept : (lines.take (lines.length - st.widows)).map Prod.fst =
            List.range' k (lines.length - st.widows) := by
          rw [List.map_take, hl]
          exact range'_take _ _ _ (by omega)
        rw [hm] at hlast
        have hi := last_of_range' _ _ _ _ _ hkept hlast
        refine ⟨lines.length - st.widows, lines.take (lines.length - st.widows), by omega, by omega, ?_, ?_, hkept⟩
        · have : k + (lines.length - st.widows) < n := by omega
          simp [lineResume, this, hi]
        · rw [hm]
      · cases h

end Wp.PM

namespace Wp.PM

theorem goodList_drop (bs : List PBox) (k : Nat) (h : GoodList bs) : GoodList (bs.drop k) := by
  induction bs generalizing k with
  | nil => simpa using h
  | cons b bs ih =>
    cases k with
    | zero => simpa using h
    | succ k =>
      simp only [GoodList] at h
      simpa using ih k h.2

theorem goodList_append (B R : List PBox) (hB : GoodList B) (hR : GoodList R) : GoodList (B ++ R) := by
  induction B with
  | nil => simpa using hR
  | cons b B ih =>
    simp only [GoodList] at hB
    simp only [List.cons_append, GoodList]
    exact ⟨hB.1, ih hB.2⟩

end Wp.PM
