/-
Embedding of the stage-1 pagination model into the footnote model: a stage-1 document, read as a
footnote document without any call, is paginated identically.
-/
import WpModel.Model.PaginateFoot

namespace Wp.PMF
open Wp Wp.PM

mutual
/-- A stage-1 box as a footnote box: paragraphs carry no call. -/
def embed : PBox → FootBox
  | .para id n lineH st => .para id n lineH st []
  | .block id st kids => .block id st (embedList kids)
def embedList : List PBox → List FootBox
  | [] => []
  | b :: bs => embed b :: embedList bs
end

mutual
theorem erase_embed : (b : PBox) → (embed b).erase = b
  | .para _ _ _ _ => by simp [embed, FootBox.erase]
  | .block _ _ kids => by simp [embed, FootBox.erase, eraseList_embedList kids]
theorem eraseList_embedList : (bs : List PBox) → eraseList (embedList bs) = bs
  | [] => by simp [embedList, eraseList]
  | b :: bs => by simp [embedList, eraseList, erase_embed b, eraseList_embedList bs]
end

mutual
theorem boxFns_embed : (b : PBox) → boxFns (embed b) = []
  | .para _ _ _ _ => by simp [embed, boxFns]
  | .block _ _ kids => by simp [embed, boxFns, boxFnsList_embedList kids]
theorem boxFnsList_embedList : (bs : List PBox) → boxFnsList (embedList bs) = []
  | [] => by simp [embedList, boxFnsList]
  | b :: bs => by simp [embedList, boxFnsList, boxFns_embed b, boxFnsList_embedList bs]
end

mutual
theorem callTable_embed : (b : PBox) → callTable (embed b) = []
  | .para _ _ _ _ => by simp [embed, callTable]
  | .block _ _ kids => by simp [embed, callTable, callTableList_embedList kids]
theorem callTableList_embedList : (bs : List PBox) → callTableList (embedList bs) = []
  | [] => by simp [embedList, callTableList]
  | b :: bs => by simp [embedList, callTableList, callTable_embed b, callTableList_embedList bs]
end

theorem boxFnsList_dropKids_embed (bs : List PBox) (k : Nat) : boxFnsList (dropKids (embedList bs) k) = [] := by
  induction bs generalizing k with
  | nil => cases k <;> simp [embedList, dropKids, boxFnsList]
  | cons b bs ih =>
    cases k with
    | zero => simp only [dropKids]; exact boxFnsList_embedList (b :: bs)
    | succ k => simp only [embedList, dropKids]; exact ih k

theorem tblFns_nil (ls : List (Nat × Nat)) : tblFns [] ls = [] := by
  induction ls with
  | nil => rfl
  | cons l ls ih => simp [tblFns, ih]

theorem lineFnsList_nil (st : PStyle) (ls : List (Nat × Rat)) : lineFnsList st [] ls = [] := by
  induction ls with
  | nil => rfl
  | cons l ls ih => simp [lineFnsList, lineFns, ih]

@[simp] theorem unlayAll_nil (c : FCtx) (fs : FState) : unlayAll c fs [] = fs := rfl

/-! ### lines -/

theorem pair_ite {α β : Type} (c : Prop) [Decidable c] (a b : α) (x : β) :
    (if c then (a, x) else (b, x)) = (if c then a else b, x) := by
  split <;> rfl

theorem lineLoopF_embed (c : FCtx) (st : PStyle) (b : BoxSt) (n : Nat) (lineH : Rat) (pie : Bool) (bs : Rat)
    (fuel i : Nat) (y : Rat) (s : LineLoop) (fs : FState) :
    lineLoopF c st [] b n lineH pie bs fuel i y s fs = (lineLoop (ctxOf c fs) st b n lineH pie bs fuel i y s, fs) := by
  induction fuel generalizing i y s with
  | zero => simp [lineLoopF, lineLoop]
  | succ fuel ih =>
    unfold lineLoopF lineLoop
    simp only [lineFns, List.filter_nil, List.map_nil, footLoop, breakLineUnlay, lineFnsList_nil,
      List.append_nil, unlayAll_nil, ih, pair_ite]

theorem lineboxLayoutF_embed (c : FCtx) (st : PStyle) (b : BoxSt) (n : Nat) (lineH : Rat) (pie : Bool)
    (adj : List Rat) (bs posY : Rat) (skip : Option Resume) (dbd : Bool) (fs : FState) :
    lineboxLayoutF c st [] b n lineH pie adj bs posY skip dbd fs =
      (lineboxLayout (ctxOf c fs) st b n lineH pie adj bs posY skip dbd, fs) := by
  unfold lineboxLayoutF lineboxLoopF lineboxLayout lineboxLoop
  rw [lineLoopF_embed]
  simp only [Prod.mk.injEq, and_true]
  split <;> simp_all [lineResultOf]

theorem finishParaF_embed (c : FCtx) (st : PStyle) (p : Prep) (pie : Bool) (id idx n : Nat) (r : LineResult)
    (fs : FState) :
    finishParaF c st [] p pie id idx n r fs = ⟨finishPara (ctxOf c fs) st p pie id idx n r, fs⟩ := by
  unfold finishParaF
  simp only [List.map_nil, unlayAll_nil, lineFnsList_nil, List.append_nil]
  split
  · rfl
  · simp only [ite_self]

theorem finishBlockF_embed (c : FCtx) (st : PStyle) (kids : List PBox) (k : Nat) (p : Prep) (pie : Bool)
    (id idx : Nat) (out : KidsOutcome) (fs : FState) (ht : c.tbl = []) :
    finishBlockF c st (dropKids (embedList kids) k) p pie id idx out fs =
      ⟨finishBlock (ctxOf c fs) st p pie id idx out, fs⟩ := by
  unfold finishBlockF
  cases out with
  | aborted page s => simp [boxFnsList_dropKids_embed, ht, tblFns_nil]
  | stopped resume s =>
    simp only [boxFnsList_dropKids_embed, ht, tblFns_nil, List.append_nil, unlayAll_nil, ite_self]
  | finished s => rfl

theorem unlayFrag_nil (c : FCtx) (fs : FState) (f : Option Frag) (ht : c.tbl = []) : unlayFrag c fs f = fs := by
  cases f <;> simp [unlayFrag, ht, tblFns_nil]

theorem firstPassUnlay_nil (c : FCtx) (r : LayoutResult) (fp : FirstPass) (fs : FState) (ht : c.tbl = []) :
    firstPassUnlay c r fp fs = fs := by
  unfold firstPassUnlay
  split <;> simp [unlayFrag_nil, ht]

theorem earlierUnlay_nil (c : FCtx) (pb : Brk) (s : KidsLoop) (frag : Option Frag) (fs : FState)
    (ht : c.tbl = []) : earlierUnlay c pb s frag fs = fs := by
  unfold earlierUnlay
  split
  · rfl
  · split
    · split <;> simp [ht, tblFns_nil]
    · rfl

/-! ### boxes -/

mutual
theorem layoutBoxF_embed : (b : PBox) → ∀ (c : FCtx) (idx : Nat) (y bs : Rat) (skip : Option Resume)
    (cb pie : Bool) (adjL : List Rat) (fs : FState), c.tbl = [] →
    layoutBoxF c (embed b) idx y bs skip cb pie adjL fs =
      ⟨layoutBox (ctxOf c fs) b idx y bs skip cb pie adjL, fs⟩
  | .para id n lineH st => by
    intro c idx y bs skip cb pie adjL fs _
    simp only [embed, layoutBoxF, layoutBox, lineboxLayoutF_embed, finishParaF_embed]
  | .block id st kids => by
    intro c idx y bs skip cb pie adjL fs ht
    simp only [embed, layoutBoxF, layoutBox]
    rw [layoutKidsF_embed kids c st _ _ _ _ _ fs ht]
    exact finishBlockF_embed c st kids _ _ _ _ _ _ fs ht
theorem layoutKidsF_embed : (kids : List PBox) → ∀ (c : FCtx) (st : PStyle) (index skipIdx : Nat) (bs : Rat)
    (pie : Bool) (s : KidsLoop) (fs : FState), c.tbl = [] →
    layoutKidsF c st (embedList kids) index skipIdx bs pie s fs =
      (layoutKids (ctxOf c fs) st kids index skipIdx bs pie s, fs)
  | [] => by
    intro c st index skipIdx bs pie s fs _
    simp [embedList, layoutKidsF, layoutKids]
  | child :: rest => by
    intro c st index skipIdx bs pie s fs ht
    simp only [embedList]
    unfold layoutKidsF layoutKids
    simp only [erase_embed]
    split
    · exact layoutKidsF_embed rest c st _ _ _ _ _ fs ht
    · split
      · rfl
      · simp only [layoutBoxF_embed child c _ _ _ _ _ _ _ fs ht, firstPassUnlay_nil _ _ _ _ ht,
          earlierUnlay_nil _ _ _ _ _ ht]
        split
        next frag posY hfp =>
          rw [hfp]
          dsimp only
          split
          next out s3 hck => rw [hck]
          next s3 hck => rw [hck]; exact layoutKidsF_embed rest c st _ _ _ _ _ fs ht
        next bs' hfp =>
          rw [hfp]
          dsimp only
          generalize layoutBox (ctxOf c fs) child index s.posY bs' _ _ _ _ = r2
          cases hf2 : r2.frag <;> simp only []
          · split
            next out s3 hck => rw [hck]
            next s3 hck => rw [hck]; exact layoutKidsF_embed rest c st _ _ _ _ _ fs ht
          · split
            next out s3 hck => rw [hck]
            next s3 hck => rw [hck]; exact layoutKidsF_embed rest c st _ _ _ _ _ fs ht
end

/-! ### pages -/

/-- A stage-1 document as a footnote document (any `@footnote` area style: it is never used). -/
def embedDoc (a : AreaStyle) (d : Doc) : FDoc :=
  { pageH := d.pageH, rootLtr := d.rootLtr, root := embed d.root, area := a }

/-- A stage-1 page as a page of the footnote model: no footnote area, nothing pending or postponed. -/
def embedPage (p : Page) : FPage := { page := p, area := none, cur := [], pending := [], reported := [] }

theorem emptyRootF_embed (b : PBox) : emptyRootF (embed b) = embed (emptyRoot b) := by
  cases b <;> simp [embed, emptyRootF, emptyRoot, embedList]

theorem remakePageF_embed (a : AreaStyle) (d : Doc) (index : Nat) (resume : Option Resume) (np : NextPage)
    (right : Bool) :
    remakePageF (embedDoc a d) index resume np right [] [] = (remakePage d index resume np right).map embedPage := by
  unfold remakePageF remakePage
  have ht : (pageCtxOf (embedDoc a d) index resume np right []).tbl = [] := by
    simp [pageCtxOf, pageCtx, embedDoc, callTable_embed]
  have hroot : (if isBlankF (embedDoc a d) resume np right [] = true then emptyRootF (embedDoc a d).root
      else (embedDoc a d).root) =
      embed (if isBlank (requestedSide d.rootLtr np.brk) right = true then emptyRoot d.root else d.root) := by
    simp only [isBlankF, embedDoc, List.isEmpty_nil, Bool.not_true, Bool.false_and, Bool.or_false]
    split <;> simp [emptyRootF_embed]
  simp only [hroot, pageStart, placeReported, layoutBoxF_embed _ _ _ _ _ _ _ _ _ _ ht]
  simp only [isBlankF, embedDoc, List.isEmpty_nil, Bool.not_true, Bool.false_and, Bool.or_false, ctxOf, pageCtx,
    pageCtxOf, pageNameF]
  split <;> simp_all [embedPage, areaOut]
  split
  · rfl
  · cases np.page <;> rfl

theorem makeAllPagesF_embed (a : AreaStyle) (d : Doc) (fuel index : Nat) (resume : Option Resume) (np : NextPage)
    (right : Bool) :
    makeAllPagesF (embedDoc a d) fuel index resume np right [] [] =
      (makeAllPages d fuel index resume np right).map (List.map embedPage) := by
  induction fuel generalizing index resume np right with
  | zero => simp [makeAllPagesF, makeAllPages]
  | succ fuel ih =>
    unfold makeAllPagesF makeAllPages
    rw [remakePageF_embed]
    cases remakePage d index resume np right with
    | none => simp
    | some p =>
      simp only [Option.map_some, embedPage, List.isEmpty_nil, Bool.and_true]
      cases hr : p.resume with
      | none => simp [embedPage]
      | some r =>
        simp only [Option.isNone_some, Bool.false_eq_true, ↓reduceIte]
        rw [← hr, ih]
        cases makeAllPages d fuel (index + 1) p.resume p.nextPage (!right) <;> simp [embedPage]

/-- **Embedding**: a stage-1 document paginates identically in the footnote model. -/
theorem paginateFoot_embed (a : AreaStyle) (d : Doc) (fuel : Nat) :
    paginateFoot (embedDoc a d) fuel = (paginate d fuel).map (List.map embedPage) := by
  unfold paginateFoot paginate
  have h1 : boxFns (embedDoc a d).root = [] := by simp [embedDoc, boxFns_embed]
  have h2 : (embedDoc a d).erase = d := by simp [FDoc.erase, embedDoc, erase_embed]
  rw [h1, h2]
  simp only [embedDoc, erase_embed]
  exact makeAllPagesF_embed a d fuel 0 none _ _

end Wp.PMF
