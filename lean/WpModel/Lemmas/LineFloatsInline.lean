/-
Lemmas for `Model/LineFloatsInline` (nested inline boxes next to floats): with no float it is, line for
line, the plain nested-inline paragraph of `Model/InlineRun`; every line starts at or below the bottom
of the one before; `_break_waiting_children` never re-breaks anything under `pre` / `nowrap`.
Core Lean only.
-/
import WpModel.Model.LineFloatsInline
import WpModel.Lemmas.LineFloats

namespace Wp.LFIL
open Wp Wp.Py Wp.LB Wp.Floats Wp.IR

/-- **refinement, one line**: with no excluded shape `get_next_linebox` next to floats is the plain
`get_next_linebox` of `Model/InlineRun`. -/
theorem nextLine_no_float (p : IR.Para) (skip : Option Skip) (y : Rat) (first : Bool) :
    LFI.nextLine [] p skip y first = IR.nextLine p skip y first := by
  unfold LFI.nextLine IR.nextLine
  cases skipFirst p.st.ws depthBound (.box 0 0 false p.kids) skip with
  | error e => rfl
  | ok sr =>
    cases sr with
    | cont => rfl
    | skip skip' =>
      simp only [LFI.tentative, List.isEmpty_nil, if_true, Except.bind]
      rw [LFL.avoid_no_shapes y 0 0 { cx := p.cbx, w := p.width, rtl := false } rfl]
      simp only
      cases splitLine p.st depthBound p.kids (p.cbx + if first then p.indent else 0) p.cbx (p.cbx + p.width) skip' with
      | error e => rfl
      | ok lo =>
        simp only
        cases hph : (phantomL lo.kids && !lo.preserved) with
        | true => simp only [if_true]
        | false =>
          simp only [Bool.false_eq_true, if_false]
          cases removeLast p.st depthBound lo.kids with
          | error e => rfl
          | ok rl =>
            simp only
            rw [LFL.avoid_no_shapes _ _ _ { cx := p.cbx, w := p.width, rtl := false } rfl]

theorem iterLines_no_float (p : IR.Para) : ∀ (fuel : Nat) (skip : Option Skip) (y : Rat) (first : Bool),
    LFI.iterLines [] p fuel skip y first = IR.iterLines p fuel skip y first
  | 0, _, _, _ => rfl
  | fuel + 1, skip, y, first => by
    unfold LFI.iterLines IR.iterLines
    rw [nextLine_no_float p]
    cases IR.nextLine p skip y first with
    | error e => rfl
    | ok o =>
      cases o with
      | none => rfl
      | some line =>
        simp only
        cases line.resume with
        | none => rfl
        | some r => simp only; rw [iterLines_no_float p fuel]

/-- each line is placed where `avoid_collisions` put the tentative line box: at or below `y` -/
theorem nextLine_below (shapes : List Shape) (p : IR.Para) (skip : Option Skip) (y : Rat) (first : Bool)
    (l : IR.OutLine) (h : LFI.nextLine shapes p skip y first = .ok (some l)) :
    y ≤ l.y ∧ (l.h = 0 ∨ l.h = p.lineHeight) := by
  unfold LFI.nextLine at h
  cases hsf : skipFirst p.st.ws depthBound (.box 0 0 false p.kids) skip with
  | error e => rw [hsf] at h; cases h
  | ok sr =>
    rw [hsf] at h
    cases sr with
    | cont => cases h
    | skip skip' =>
      simp only [Except.bind] at h
      cases ht : LFI.tentative shapes p skip' with
      | error e => rw [ht] at h; cases h
      | ok wh =>
        rw [ht] at h
        simp only at h
        cases ha : avoidCollisions shapes (LF.lineABox y wh.1 wh.2) { cx := p.cbx, w := p.width, rtl := false } false with
        | error e => rw [ha] at h; cases h
        | ok place =>
          rw [ha] at h
          simp only at h
          have hy : y ≤ place.y := (LFL.avoid_line shapes y wh.1 wh.2 _ rfl place ha).1
          cases hsl : splitLine p.st depthBound p.kids (place.x + if first then p.indent else 0) place.x
              (place.x + place.avail) skip' with
          | error e => rw [hsl] at h; cases h
          | ok lo =>
            rw [hsl] at h
            simp only at h
            cases hph : (phantomL lo.kids && !lo.preserved) with
            | true =>
              rw [hph] at h
              simp only [if_true] at h
              cases h
              exact ⟨hy, Or.inl rfl⟩
            | false =>
              rw [hph] at h
              simp only [Bool.false_eq_true, if_false] at h
              cases hrl : removeLast p.st depthBound lo.kids with
              | error e => rw [hrl] at h; cases h
              | ok rl =>
                rw [hrl] at h
                simp only at h
                cases ha2 : avoidCollisions shapes (LF.lineABox place.y lo.w p.st.fs)
                    { cx := p.cbx, w := p.width, rtl := false } false with
                | error e => rw [ha2] at h; cases h
                | ok place2 =>
                  rw [ha2] at h
                  simp only at h
                  cases hta : textAlign p.align (.inl place.x (lo.w - rl.2) false []) (lo.w - rl.2) place2.avail
                      (lo.resume.isNone || lo.preserved) with
                  | error e => rw [hta] at h; cases h
                  | ok r =>
                    rw [hta] at h
                    simp only [Except.map] at h
                    cases h
                    exact ⟨hy, Or.inr rfl⟩

/-- lines stacked downwards from `y`: each starts at or below the end of the previous one -/
def StackedBelow : Rat → List IR.OutLine → Prop
  | _, [] => True
  | y, l :: ls => y ≤ l.y ∧ StackedBelow (l.y + l.h) ls

theorem iterLines_stacked (shapes : List Shape) (p : IR.Para) : ∀ (fuel : Nat) (skip : Option Skip) (y : Rat)
    (first : Bool) (ls : List IR.OutLine), LFI.iterLines shapes p fuel skip y first = some (.ok ls) → StackedBelow y ls
  | 0, _, _, _, _, h => by cases h
  | fuel + 1, skip, y, first, ls, h => by
    unfold LFI.iterLines at h
    cases hn : LFI.nextLine shapes p skip y first with
    | error e => rw [hn] at h; cases h
    | ok o =>
      rw [hn] at h
      cases o with
      | none => simp only at h; cases h; trivial
      | some line =>
        simp only at h
        have hb := (nextLine_below shapes p skip y first line hn).1
        cases hr : line.resume with
        | none => rw [hr] at h; simp only at h; cases h; exact ⟨hb, trivial⟩
        | some r =>
          rw [hr] at h
          simp only at h
          cases hi : LFI.iterLines shapes p fuel (some r) (line.y + line.h) false with
          | none => rw [hi] at h; cases h
          | some res =>
            rw [hi] at h
            cases res with
            | error e => cases h
            | ok rest =>
              simp only [Option.map, Except.map] at h
              cases h
              exact ⟨hb, iterLines_stacked shapes p fuel (some r) _ false rest hi⟩

/-- **under `pre` / `nowrap` (and any non-wrapping value) `_break_waiting_children` never re-breaks a
waiting child**: `can_break_inside` is false for every box, the loop over the waiting children ends
without a break. -/
theorem canBreakInside_no_wrap (ws : WS) (hw : ws.breakInside = false) (f : Frag) : canBreakInside ws f = false := by
  cases f <;> simp [canBreakInside, hw]

theorem tryWaiting_no_wrap (ws : WS) (hw : ws.breakInside = false) (split : Split) (skip : Option Skip)
    (kept : List Entry) : ∀ (waiting : List Entry), tryWaiting ws split skip kept waiting = .ok none
  | [] => rfl
  | e :: earlier => by
    unfold tryWaiting
    rw [canBreakInside_no_wrap ws hw]
    simp only [Bool.false_eq_true, if_false]
    exact tryWaiting_no_wrap ws hw split skip kept earlier

end Wp.LFIL
