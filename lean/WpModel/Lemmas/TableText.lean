/-
Text through the anonymous-table rules (`table_boxes_children`, `wrap_improper`, `wrap_table`): the
visible characters of the result are a permutation of those of the input (tables move captions,
headers and footers), white-space text between table parts and the content of columns aside.
Core Lean only.
-/
import WpModel.Lemmas.Pipeline

namespace Wp.Bx
open KBox

/-- The characters `is_whitespace` does not call white space. -/
def vis (t : Text) : Text := t.filter (fun c => !Gen.reSpaceCp c)

theorem vis_append (a b : Text) : vis (a ++ b) = vis a ++ vis b := by simp [vis]

@[simp] theorem vis_nil : vis [] = [] := rfl

/-- Same visible characters, up to order. -/
def PT (a b : Text) : Prop := (vis a).Perm (vis b)

theorem PT.refl (a : Text) : PT a a := List.Perm.refl _
theorem PT.trans {a b c : Text} (h1 : PT a b) (h2 : PT b c) : PT a c := List.Perm.trans h1 h2
theorem PT.symm {a b : Text} (h : PT a b) : PT b a := List.Perm.symm h
theorem PT.of_eq {a b : Text} (h : vis a = vis b) : PT a b := by unfold PT; rw [h]
theorem PT.append {a b c d : Text} (h1 : PT a b) (h2 : PT c d) : PT (a ++ c) (b ++ d) := by
  unfold PT; rw [vis_append, vis_append]; exact List.Perm.append h1 h2
theorem PT.comm (a b : Text) : PT (a ++ b) (b ++ a) := by
  unfold PT; rw [vis_append, vis_append]; exact List.perm_append_comm

theorem vis_of_noSp_eq {a b : Text} (h : noSp a = noSp b) : vis a = vis b := by
  have key : ∀ t : Text, vis t = vis (noSp t) := by
    intro t
    unfold vis noSp
    rw [List.filter_filter]
    apply List.filter_congr
    intro c _
    by_cases hc : c = 32
    · subst hc; decide
    · simp [hc]
  rw [key a, key b, h]

theorem vis_whitespace (c : KBox) (hl : TextLeaf c) (h : isWhitespace c = true) : vis (leafText c) = [] := by
  unfold isWhitespace at h
  simp only [Bool.and_eq_true] at h
  rw [leafText_of_text c hl h.1]
  unfold vis allReSpace at *
  rw [List.filter_eq_nil_iff]
  intro x hx
  simp [List.all_eq_true.mp h.2 x hx]

/-! ### rules 1.3 and 1.4 -/

theorem tidy_of_mem {l : List KBox} (h : TidyL l) {c : KBox} (hc : c ∈ l) : Tidy c := (tidyL_iff l).1 h c hc

theorem tidyL_sub {l l' : List KBox} (h : TidyL l) (hs : ∀ c ∈ l', c ∈ l) : TidyL l' :=
  (tidyL_iff l').2 (fun c hc => tidy_of_mem h (hs c hc))

theorem leafTextL_dropLast (l : List KBox) (x : KBox) : leafTextL (l ++ [x]) = leafTextL l ++ leafText x := by
  simp [leafTextL_append, leafTextL]

theorem rule13Last_text (l : List KBox) (h : TidyL l) :
    vis (leafTextL (rule13Last l)) = vis (leafTextL l) ∧ TidyL (rule13Last l) := by
  unfold rule13Last
  split
  · rename_i text internal rest hrev
    split
    · rename_i hc
      simp only [Bool.and_eq_true] at hc
      have hl : l = l.dropLast ++ [text] := by
        have : l = (text :: internal :: rest).reverse := by rw [← hrev, List.reverse_reverse]
        rw [this]; simp
      have hmem : text ∈ l := by rw [hl]; simp
      refine ⟨?_, tidyL_sub h (fun c hc' => (List.dropLast_subset l) hc')⟩
      conv => rhs; rw [hl, leafTextL_dropLast, vis_append,
        vis_whitespace text (tidy_textLeaf (tidy_of_mem h hmem)) hc.2]
      simp
    · exact ⟨rfl, h⟩
  · exact ⟨rfl, h⟩

theorem rule13First_text (l : List KBox) (h : TidyL l) :
    vis (leafTextL (rule13First l)) = vis (leafTextL l) ∧ TidyL (rule13First l) := by
  unfold rule13First
  split
  · rename_i text internal rest
    split
    · rename_i hc
      simp only [Bool.and_eq_true] at hc
      unfold TidyL at h
      exact ⟨by simp only [leafTextL, vis_append, vis_whitespace text (tidy_textLeaf h.1) hc.2, List.nil_append],
        h.2⟩
    · exact ⟨rfl, h⟩
  · exact ⟨rfl, h⟩

theorem rule13_text (l : List KBox) (h : TidyL l) :
    vis (leafTextL (rule13 l)) = vis (leafTextL l) ∧ TidyL (rule13 l) := by
  unfold rule13
  split
  · obtain ⟨e1, t1⟩ := rule13Last_text l h
    obtain ⟨e2, t2⟩ := rule13First_text _ t1
    exact ⟨by rw [e2, e1], t2⟩
  · exact ⟨rfl, h⟩

theorem rule14_text (l : List KBox) : ∀ (prev : Option KBox), TidyL l →
    vis (leafTextL (rule14 prev l)) = vis (leafTextL l) ∧ TidyL (rule14 prev l) := by
  induction l with
  | nil => intro prev _; simp [rule14, TidyL]
  | cons c cs ih =>
    intro prev h
    unfold TidyL at h
    obtain ⟨e, t⟩ := ih (some c) h.2
    unfold rule14
    split
    · rename_i hd
      unfold rule14Drop at hd
      simp only [Bool.and_eq_true] at hd
      exact ⟨by simp only [leafTextL, vis_append, vis_whitespace c (tidy_textLeaf h.1) hd.2, List.nil_append, e], t⟩
    · exact ⟨by simp only [leafTextL, vis_append, e], h.1, t⟩

/-! ### writing grid positions back does not touch the text -/

theorem setRow_text (cs : List KBox) : ∀ (os : List TableGrid.CellOut),
    leafTextL (setRow cs os) = leafTextL cs ∧ (TidyL cs → TidyL (setRow cs os)) := by
  induction cs with
  | nil => intro os; cases os <;> simp [setRow]
  | cons c cs ih =>
    intro os
    cases os with
    | nil => simp [setRow]
    | cons o os =>
      simp only [setRow, leafTextL, leafText_withInst, (ih os).1, TidyL, tidy_withInst]
      exact ⟨trivial, fun h => ⟨h.1, (ih os).2 h.2⟩⟩

theorem leafText_withKids_same (b : KBox) (ks : List KBox) (h : leafTextL ks = leafTextL b.kids) :
    leafText (b.withKids ks) = leafText b := by
  rw [leafText_withKids, leafText_eq b, h]

theorem tidy_withKids' (b : KBox) (ks : List KBox) (hb : Tidy b) (h : TidyL b.kids → TidyL ks)
    (hk : ks = [] ∨ b.isA .TextBox = false) : Tidy (b.withKids ks) := by
  have hp := tidy_parts hb
  obtain ⟨k, st, el, inst, text, kids, cols⟩ := b
  simp only [KBox.isA, KBox.kind, KBox.kids, KBox.text] at hp hk h
  unfold KBox.withKids Tidy
  refine ⟨?_, hp.2.1, h hp.2.2⟩
  intro ht
  rcases hk with hk | hk
  · exact hk
  · rw [hk] at ht; cases ht

theorem setRow_nil_of_nil (os : List TableGrid.CellOut) : setRow [] os = [] := by cases os <;> rfl

theorem setGroup_text (rs : List KBox) : ∀ (os : List (List TableGrid.CellOut)),
    leafTextL (setGroup rs os) = leafTextL rs ∧ (TidyL rs → TidyL (setGroup rs os)) := by
  induction rs with
  | nil => intro os; cases os <;> simp [setGroup]
  | cons r rs ih =>
    intro os
    cases os with
    | nil => simp [setGroup]
    | cons o os =>
      simp only [setGroup, leafTextL, TidyL]
      refine ⟨by rw [leafText_withKids_same r _ (setRow_text r.kids o).1, (ih os).1], ?_⟩
      intro h
      refine ⟨tidy_withKids' r _ h.1 (setRow_text r.kids o).2 ?_, (ih os).2 h.2⟩
      by_cases ht : r.isA .TextBox = true
      · left; rw [(tidy_parts h.1).1 ht]; exact setRow_nil_of_nil o
      · right; simpa using ht

theorem setGroup_nil_of_nil (os : List (List TableGrid.CellOut)) : setGroup [] os = [] := by cases os <;> rfl

theorem setGroups_text (gs : List KBox) : ∀ (os : List (List (List TableGrid.CellOut))),
    leafTextL (setGroups gs os) = leafTextL gs ∧ (TidyL gs → TidyL (setGroups gs os)) := by
  induction gs with
  | nil => intro os; cases os <;> simp [setGroups]
  | cons g gs ih =>
    intro os
    cases os with
    | nil => simp [setGroups]
    | cons o os =>
      simp only [setGroups, leafTextL, TidyL]
      refine ⟨by rw [leafText_withKids_same g _ (setGroup_text g.kids o).1, (ih os).1], ?_⟩
      intro h
      refine ⟨tidy_withKids' g _ h.1 (setGroup_text g.kids o).2 ?_, (ih os).2 h.2⟩
      by_cases ht : g.isA .TextBox = true
      · left; rw [(tidy_parts h.1).1 ht]; exact setGroup_nil_of_nil o
      · right; simpa using ht

theorem setCols_tidy (cs : List KBox) : ∀ (xs : List Nat), TidyL cs → TidyL (setCols cs xs) := by
  induction cs with
  | nil => intro xs _; cases xs <;> simp [setCols, TidyL]
  | cons c cs ih =>
    intro xs h
    cases xs with
    | nil => simpa [setCols] using h
    | cons x xs =>
      unfold TidyL at h
      simp only [setCols, TidyL, tidy_withInst]
      exact ⟨h.1, ih xs h.2⟩


/-! ### sorting and splitting the children of a table -/

/-- Columns and column groups render nothing: their visible text is empty. -/
def ColEmpty (l : List KBox) : Prop :=
  ∀ c ∈ l, (c.kind = .TableColumnBox ∨ c.kind = .TableColumnGroupBox) → vis (leafText c) = []

def AllEmpty (l : List KBox) : Prop := ∀ c ∈ l, vis (leafText c) = []

theorem vis_allEmpty (l : List KBox) (h : AllEmpty l) : vis (leafTextL l) = [] := by
  induction l with
  | nil => rfl
  | cons c cs ih =>
    simp only [leafTextL, vis_append, h c List.mem_cons_self, List.nil_append]
    exact ih (fun d hd => h d (List.mem_cons_of_mem _ hd))

theorem PT.nil_right {a : Text} (h : PT a []) : vis a = [] := by
  unfold PT at h; simpa using h.eq_nil

theorem tidy_of (b : KBox) (h1 : b.isA .TextBox = false) (h2 : b.text = []) (h3 : TidyL b.kids) : Tidy b :=
  tidy_mk (fun h => by rw [h1] at h; cases h) (fun _ => h2) h3

theorem sort_text (l : List KBox) : ∀ (cols rows caps : List KBox),
    sortTableKids l = .ok (cols, rows, caps) → TidyL l →
    PT (leafTextL l) (leafTextL cols ++ (leafTextL rows ++ leafTextL caps)) ∧
    TidyL cols ∧ TidyL rows ∧ TidyL caps := by
  induction l with
  | nil => intro cols rows caps h _; unfold sortTableKids at h; cases h; exact ⟨PT.refl _, trivial, trivial, trivial⟩
  | cons c cs ih =>
    intro cols rows caps h ht
    unfold TidyL at ht
    unfold sortTableKids at h
    split at h
    · cases h
    · rename_i cols0 rows0 caps0 hrec
      obtain ⟨i1, i2, i3, i4⟩ := ih cols0 rows0 caps0 hrec ht.2
      have base : PT (leafTextL (c :: cs)) (leafText c ++ (leafTextL cols0 ++ (leafTextL rows0 ++ leafTextL caps0))) :=
        PT.append (PT.refl _) i1
      split at h
      · cases h
        exact ⟨by simpa [leafTextL, List.append_assoc] using base, ⟨ht.1, i2⟩, i3, i4⟩
      · split at h
        · cases h
          refine ⟨?_, i2, ⟨ht.1, i3⟩, i4⟩
          refine base.trans ?_
          unfold PT
          simp only [leafTextL, vis_append, List.append_assoc]
          exact List.perm_append_comm_assoc _ _ _
        · split at h
          · cases h
            refine ⟨?_, i2, i3, ⟨ht.1, i4⟩⟩
            refine base.trans ?_
            unfold PT
            simp only [leafTextL, vis_append, List.append_assoc]
            refine (List.perm_append_comm_assoc _ _ _).trans (List.Perm.append_left _ ?_)
            exact List.perm_append_comm_assoc _ _ _
          · cases h

theorem filter_text (p : KBox → Bool) (l : List KBox) :
    PT (leafTextL (l.filter p) ++ leafTextL (l.filter (fun c => !p c))) (leafTextL l) := by
  induction l with
  | nil => exact PT.refl _
  | cons c cs ih =>
    by_cases hp : p c = true
    · simp only [List.filter_cons, hp, if_true, Bool.not_true, Bool.false_eq_true, if_false, leafTextL,
        List.append_assoc]
      exact PT.append (PT.refl _) ih
    · have hp' : p c = false := by simpa using hp
      simp only [List.filter_cons, hp', Bool.false_eq_true, if_false, Bool.not_false, if_true, leafTextL]
      refine PT.trans ?_ (PT.append (PT.refl (leafText c)) ih)
      unfold PT
      simp only [vis_append, List.append_assoc]
      exact List.perm_append_comm_assoc _ _ _

theorem tidyL_filter (p : KBox → Bool) (l : List KBox) (h : TidyL l) : TidyL (l.filter p) :=
  tidyL_sub h (fun c hc => (List.mem_filter.mp hc).1)

theorem optText (o : Option KBox) : leafTextL o.toList = (match o with | some x => leafText x | none => []) := by
  cases o <;> simp [leafTextL]

theorem splitGroups_text (l : List KBox) : ∀ (h f : Option KBox) (acc : List KBox),
    TidyL l → TidyL h.toList → TidyL f.toList → TidyL acc →
    PT (leafTextL ((splitGroups l h f acc).1.toList ++ (splitGroups l h f acc).2.2.reverse ++
          (splitGroups l h f acc).2.1.toList))
       (leafTextL (h.toList ++ acc.reverse ++ f.toList) ++ leafTextL l) ∧
    TidyL ((splitGroups l h f acc).1.toList ++ (splitGroups l h f acc).2.2.reverse ++
          (splitGroups l h f acc).2.1.toList) := by
  induction l with
  | nil =>
    intro h f acc _ th tf ta
    simp only [splitGroups, leafTextL, List.append_nil]
    refine ⟨PT.refl _, ?_⟩
    rw [tidyL_append, tidyL_append]
    exact ⟨⟨th, tidyL_sub ta (fun c hc => List.mem_reverse.mp hc)⟩, tf⟩
  | cons g gs ih =>
    intro h f acc tl th tf ta
    unfold TidyL at tl
    unfold splitGroups
    split
    · rename_i hc
      simp only [Bool.and_eq_true, Option.isNone_iff_eq_none] at hc
      obtain ⟨_, rfl⟩ := hc
      obtain ⟨p, t⟩ := ih (some (g.withInst { g.inst with isHeader := true })) f acc tl.2
        (by simp only [Option.toList, TidyL, tidy_withInst]; exact ⟨tl.1, trivial⟩) tf ta
      refine ⟨p.trans ?_, t⟩
      simp only [Option.toList, List.nil_append, leafTextL_append, leafTextL, leafText_withInst, List.append_nil,
        List.append_assoc, List.cons_append]
      unfold PT
      simp only [vis_append]
      refine (List.perm_append_comm_assoc _ _ _).trans (List.Perm.append_left _ ?_)
      exact (List.perm_append_comm_assoc _ _ _)
    · split
      · rename_i _ hc
        simp only [Bool.and_eq_true, Option.isNone_iff_eq_none] at hc
        obtain ⟨_, rfl⟩ := hc
        obtain ⟨p, t⟩ := ih h (some (g.withInst { g.inst with isFooter := true })) acc tl.2 th
          (by simp only [Option.toList, TidyL, tidy_withInst]; exact ⟨tl.1, trivial⟩) ta
        refine ⟨p.trans ?_, t⟩
        simp only [Option.toList, List.append_nil, leafTextL_append, leafTextL, leafText_withInst,
          List.append_assoc]
        exact PT.refl _
      · obtain ⟨p, t⟩ := ih h f (g :: acc) tl.2 th tf ⟨tl.1, ta⟩
        refine ⟨p.trans ?_, t⟩
        simp only [List.reverse_cons, leafTextL_append, leafTextL, List.append_nil, List.append_assoc]
        unfold PT
        simp only [vis_append]
        refine List.Perm.append_left _ (List.Perm.append_left _ ?_)
        exact List.perm_append_comm_assoc _ _ _


/-! ### the three mutually recursive functions -/

theorem colEmpty_sub {l l' : List KBox} (h : ColEmpty l) (hs : ∀ c ∈ l', c ∈ l) : ColEmpty l' :=
  fun c hc => h c (hs c hc)

theorem allEmpty_sub {l l' : List KBox} (h : AllEmpty l) (hs : ∀ c ∈ l', c ∈ l) : AllEmpty l' :=
  fun c hc => h c (hs c hc)

theorem anon_text (cls : BoxKind) (p : KBox) (ks : List KBox) : (anonFrom cls p ks).text = [] := rfl

theorem anon_isA_text (cls : BoxKind) (p : KBox) (ks : List KBox) (h : Gen.isSub cls .TextBox = false) :
    (anonFrom cls p ks).isA .TextBox = false := h

structure TbcText (n : Nat) : Prop where
  tbc : ∀ (box : KBox) (children : List KBox) (r : KBox),
    box.text = [] → box.isA .TextBox = false → TidyL children → ColEmpty children →
    ((Gen.isSub box.kind .TableColumnBox = true ∨ Gen.isSub box.kind .TableColumnGroupBox = true) → AllEmpty children) →
    tbc n box children = .ok r → PT (leafText r) (leafTextL children) ∧ Tidy r
  wi : ∀ (box : KBox) (children : List KBox) (wt : BoxKind) (test : KBox → Bool) (improper out : List KBox),
    TidyL children → TidyL improper → ColEmpty children → ColEmpty improper →
    Gen.isSub wt .TableColumnBox = false → Gen.isSub wt .TextBox = false →
    (Gen.isSub wt .TableColumnGroupBox = true → AllEmpty children ∧ AllEmpty improper) →
    wrapImproper n box children wt test improper = .ok out →
    PT (leafTextL out) (leafTextL improper.reverse ++ leafTextL children) ∧ TidyL out ∧ ColEmpty out
  wt : ∀ (box : KBox) (children : List KBox) (w : KBox),
    box.text = [] → box.isA .TextBox = false → TidyL children → ColEmpty children →
    wrapTable n box children = .ok w → PT (leafText w) (leafTextL children) ∧ Tidy w

theorem wrapper_colEmpty (n : Nat) (wt : BoxKind) (box : KBox) (l : List KBox) (w : KBox)
    (hw : Wp.Bx.tbc n (anonFrom wt box []) l = .ok w) (hcol : Gen.isSub wt .TableColumnBox = false)
    (hpt : PT (leafText w) (leafTextL l))
    (hempty : Gen.isSub wt .TableColumnGroupBox = true → AllEmpty l) : ColEmpty [w] := by
  intro c hc hk
  simp only [List.mem_singleton] at hc
  subst hc
  have hr := tbc_result n _ _ _ hw
  rw [anonFrom_kind, anonFrom_wrapper] at hr
  split at hr
  · rcases hr.2 with h | h <;> rcases hk with hk | hk <;> rw [h] at hk <;> cases hk
  · have hwt : wt = .TableColumnBox ∨ wt = .TableColumnGroupBox := by rw [← hr.1]; exact hk
    rcases hwt with rfl | rfl
    · exact absurd hcol (by decide)
    · have := vis_allEmpty l (hempty rfl)
      exact PT.nil_right (by unfold PT at hpt ⊢; rw [this] at hpt; exact hpt)

theorem tbcText : ∀ n, TbcText n
  | 0 => by
    refine ⟨?_, ?_, ?_⟩
    · intro box children r _ _ _ _ _ h; unfold Wp.Bx.tbc at h; cases h
    · intro box children wt test improper out _ _ _ _ _ _ _ h; unfold wrapImproper at h; cases h
    · intro box children w _ _ _ _ h; unfold wrapTable at h; cases h
  | n + 1 => by
    have IH := tbcText n
    refine ⟨?_, ?_, ?_⟩
    · -- table_boxes_children
      intro box children r htext hnt htidy hcole hcol h
      unfold Wp.Bx.tbc at h
      simp only at h
      -- rules 1.1 / 1.2
      generalize hc00 : (if Gen.isSub box.kind .TableColumnBox = true then ([] : List KBox)
        else if Gen.isSub box.kind .TableColumnGroupBox = true then
          (if (children.filter (fun c => c.isA .TableColumnBox)).isEmpty = true then
            List.replicate (groupSpan box) (anonFrom .TableColumnBox box [])
          else children.filter (fun c => c.isA .TableColumnBox))
        else children) = c00 at h
      have p00 : vis (leafTextL c00) = vis (leafTextL children) ∧ TidyL c00 ∧ ColEmpty c00 ∧
          ((Gen.isSub box.kind .TableColumnBox = true ∨ Gen.isSub box.kind .TableColumnGroupBox = true) →
            AllEmpty c00) := by
        rw [← hc00]
        split
        · rename_i hk
          have := vis_allEmpty children (hcol (Or.inl hk))
          exact ⟨by rw [this]; rfl, trivial, (fun c hc => by cases hc), (fun _ c hc => by cases hc)⟩
        · split
          · rename_i hk
            have hall := hcol (Or.inr hk)
            have hv := vis_allEmpty children hall
            split
            · have hrep : AllEmpty (List.replicate (groupSpan box) (anonFrom .TableColumnBox box [])) := by
                intro c hc
                rw [(List.mem_replicate.mp hc).2]; rfl
              refine ⟨by rw [hv, vis_allEmpty _ hrep], ?_, fun c hc _ => hrep c hc, fun _ => hrep⟩
              rw [tidyL_iff]
              intro c hc
              rw [(List.mem_replicate.mp hc).2]
              exact tidy_anon _ _ _ rfl trivial
            · have hsub : ∀ c ∈ children.filter (fun c => c.isA .TableColumnBox), c ∈ children :=
                fun c hc => (List.mem_filter.mp hc).1
              have hf := allEmpty_sub hall hsub
              exact ⟨by rw [hv, vis_allEmpty _ hf], tidyL_sub htidy hsub, colEmpty_sub hcole hsub, fun _ => hf⟩
          · rename_i hk1 hk2
            exact ⟨rfl, htidy, hcole, fun hk => by rcases hk with hk | hk <;> contradiction⟩
      obtain ⟨e00, t00, ce00, ae00⟩ := p00
      -- rule 1.3
      generalize hc01 : (if Gen.tabularContainer box.kind = true then rule13 c00 else c00) = c01 at h
      have p01 : vis (leafTextL c01) = vis (leafTextL c00) ∧ TidyL c01 ∧ (∀ c ∈ c01, c ∈ c00) := by
        rw [← hc01]
        split
        · exact ⟨(rule13_text c00 t00).1, (rule13_text c00 t00).2, mem_rule13 c00⟩
        · exact ⟨rfl, t00, fun c hc => hc⟩
      obtain ⟨e01, t01, s01⟩ := p01
      -- rule 1.4
      have p02 := rule14_text c01 none t01
      have s02 := mem_rule14 c01 none
      generalize rule14 none c01 = c0 at h p02 s02
      obtain ⟨e02, t0⟩ := p02
      have s0 : ∀ c ∈ c0, c ∈ c00 := fun c hc => s01 c (s02 c hc)
      have ce0 : ColEmpty c0 := colEmpty_sub ce00 s0
      have e0 : vis (leafTextL c0) = vis (leafTextL children) := by rw [e02, e01, e00]
      -- the three wrapping steps: none of them makes a column group
      have stepWI : ∀ (cs : List KBox) (wt : BoxKind) (test : KBox → Bool) (out : List KBox),
          TidyL cs → ColEmpty cs → Gen.isSub wt .TableColumnBox = false → Gen.isSub wt .TextBox = false →
          Gen.isSub wt .TableColumnGroupBox = false →
          wrapImproper n box cs wt test [] = .ok out →
          PT (leafTextL out) (leafTextL cs) ∧ TidyL out ∧ ColEmpty out := by
        intro cs wt test out tc cc h1 h2 h3 hw
        have := IH.wi box cs wt test [] out tc trivial cc (fun c hc => by cases hc) h1 h2
          (fun h' => by rw [h3] at h'; cases h') hw
        simpa [leafTextL] using this
      split at h
      · cases h
      · rename_i c1 h1
        have q1 : PT (leafTextL c1) (leafTextL c0) ∧ TidyL c1 ∧ ColEmpty c1 := by
          split at h1
          · exact stepWI c0 _ _ c1 t0 ce0 rfl rfl rfl h1
          · split at h1
            · exact stepWI c0 _ _ c1 t0 ce0 rfl rfl rfl h1
            · cases h1; exact ⟨PT.refl _, t0, ce0⟩
        split at h
        · cases h
        · rename_i c2 h2
          have q2 : PT (leafTextL c2) (leafTextL c1) ∧ TidyL c2 ∧ ColEmpty c2 := by
            split at h2
            · exact stepWI c1 _ _ c2 q1.2.1 q1.2.2 rfl rfl rfl h2
            · exact stepWI c1 _ _ c2 q1.2.1 q1.2.2 rfl rfl rfl h2
          split at h
          · cases h
          · rename_i c3 h3
            have q3 : PT (leafTextL c3) (leafTextL c2) ∧ TidyL c3 ∧ ColEmpty c3 := by
              split at h3
              · exact stepWI c2 _ _ c3 q2.2.1 q2.2.2 rfl rfl rfl h3
              · exact stepWI c2 _ _ c3 q2.2.1 q2.2.2 rfl rfl rfl h3
            have chain : PT (leafTextL c3) (leafTextL children) :=
              q3.1.trans (q2.1.trans (q1.1.trans (PT.of_eq e0)))
            split at h
            · obtain ⟨w1, w2⟩ := IH.wt box c3 r htext hnt q3.2.1 q3.2.2 h
              exact ⟨w1.trans chain, w2⟩
            · cases h
              refine ⟨?_, ?_⟩
              · rw [leafText_withKids, htext, List.nil_append]; exact chain
              · have hp := withKids_proj box c3
                apply tidy_of
                · simp only [KBox.isA, hp.1]; exact hnt
                · obtain ⟨k, st, el, inst, text, kids, cols⟩ := box; exact htext
                · rw [hp.2.2.2]; exact q3.2.1
    · -- wrap_improper
      intro box children wt test improper out tc ti cc ci hwc hwt hwg h
      have hrev : TidyL improper.reverse := tidyL_sub ti (fun c hc => List.mem_reverse.mp hc)
      have crev : ColEmpty improper.reverse := colEmpty_sub ci (fun c hc => List.mem_reverse.mp hc)
      have wrap : ∀ w, Wp.Bx.tbc n (anonFrom wt box []) improper.reverse = .ok w →
          PT (leafText w) (leafTextL improper.reverse) ∧ Tidy w ∧ ColEmpty [w] := by
        intro w hw
        have hall : (Gen.isSub wt .TableColumnBox = true ∨ Gen.isSub wt .TableColumnGroupBox = true) →
            AllEmpty improper.reverse := by
          intro hk
          rcases hk with hk | hk
          · rw [hwc] at hk; cases hk
          · exact allEmpty_sub (hwg hk).2 (fun c hc => List.mem_reverse.mp hc)
        obtain ⟨a, b⟩ := IH.tbc (anonFrom wt box []) improper.reverse w rfl hwt hrev crev
          (by rw [anonFrom_kind]; exact hall) hw
        exact ⟨a, b, wrapper_colEmpty n wt box _ w hw hwc a
          (fun hk => allEmpty_sub (hwg hk).2 (fun c hc => List.mem_reverse.mp hc))⟩
      cases children with
      | nil =>
        unfold wrapImproper at h
        split at h
        · split at h
          · cases h
          · rename_i w hw
            cases h
            obtain ⟨a, b, c⟩ := wrap w hw
            exact ⟨by simpa [leafTextL] using a, ⟨b, trivial⟩, c⟩
        · rename_i hne
          cases h
          have : improper = [] := by simpa using hne
          subst this
          exact ⟨PT.refl _, trivial, fun c hc => by cases hc⟩
      | cons c cs =>
        unfold TidyL at tc
        have ccs : ColEmpty cs := colEmpty_sub cc (fun d hd => List.mem_cons_of_mem _ hd)
        have hwg' : Gen.isSub wt .TableColumnGroupBox = true → AllEmpty cs ∧ AllEmpty ([] : List KBox) :=
          fun hk => ⟨allEmpty_sub (hwg hk).1 (fun d hd => List.mem_cons_of_mem _ hd), fun d hd => by cases hd⟩
        unfold wrapImproper at h
        split at h
        · split at h
          · split at h
            · cases h
            · rename_i w hw
              split at h
              · cases h
              · rename_i rest hrest
                cases h
                obtain ⟨a, b, cw⟩ := wrap w hw
                obtain ⟨r1, r2, r3⟩ := IH.wi box cs wt test [] rest tc.2 trivial ccs (fun d hd => by cases hd)
                  hwc hwt hwg' hrest
                refine ⟨?_, ⟨b, tc.1, r2⟩, ?_⟩
                · simp only [leafTextL]
                  exact PT.append a (PT.append (PT.refl _) (by simpa [leafTextL] using r1))
                · intro d hd
                  rcases List.mem_cons.mp hd with rfl | h'
                  · exact cw _ List.mem_cons_self
                  · rcases List.mem_cons.mp h' with rfl | h''
                    · exact cc _ List.mem_cons_self
                    · exact r3 d h''
          · rename_i hne
            have : improper = [] := by simpa using hne
            subst this
            split at h
            · cases h
            · rename_i rest hrest
              cases h
              obtain ⟨r1, r2, r3⟩ := IH.wi box cs wt test [] rest tc.2 trivial ccs (fun d hd => by cases hd)
                hwc hwt hwg' hrest
              refine ⟨?_, ⟨tc.1, r2⟩, ?_⟩
              · simp only [leafTextL, List.reverse_nil, List.nil_append]
                exact PT.append (PT.refl _) (by simpa [leafTextL] using r1)
              · intro d hd
                rcases List.mem_cons.mp hd with rfl | h'
                · exact cc _ List.mem_cons_self
                · exact r3 d h'
        · obtain ⟨r1, r2, r3⟩ := IH.wi box cs wt test (c :: improper) out tc.2 ⟨tc.1, ti⟩ ccs
            (by
              intro d hd
              rcases List.mem_cons.mp hd with rfl | h'
              · exact cc _ List.mem_cons_self
              · exact ci d h')
            hwc hwt
            (fun hk => ⟨allEmpty_sub (hwg hk).1 (fun d hd => List.mem_cons_of_mem _ hd), by
              intro d hd
              rcases List.mem_cons.mp hd with rfl | h'
              · exact (hwg hk).1 _ List.mem_cons_self
              · exact (hwg hk).2 d h'⟩) h
          refine ⟨?_, r2, r3⟩
          simpa [leafTextL, leafTextL_append, List.append_assoc] using r1
    · -- wrap_table
      intro box children w htext hnt htidy hcole h
      unfold wrapTable at h
      split at h
      · cases h
      · rename_i columns rows allCaptions hsort
        obtain ⟨sp, tcols, trows, tcaps⟩ := sort_text children columns rows allCaptions hsort htidy
        obtain ⟨scols, _, _⟩ := sortTableKids_spec children columns rows allCaptions hsort
        have hcolsEmpty : AllEmpty columns := fun c hc => hcole c (scols c hc).1 (scols c hc).2
        split at h
        · cases h
        · rename_i columnGroups hcg
          split at h
          · cases h
          · rename_i rowGroups0 hrg
            obtain ⟨rp, rt, _⟩ := IH.wi box rows .TableRowGroupBox _ [] rowGroups0 trows trivial
              (fun c hc _ => by
                have hr : c ∈ children := (sortTableKids_spec children columns rows allCaptions hsort).2.1 c hc |>.1
                exact hcole c hr ‹_›) (fun c hc => by cases hc) rfl rfl (fun hk => by cases hk) hrg
            simp only at h
            split at h
            · cases h
            · split at h
              · cases h
              · rename_i out _
                cases h
                obtain ⟨gp, gt⟩ := splitGroups_text rowGroups0 none none [] rt trivial trivial trivial
                generalize hgs : ((splitGroups rowGroups0 none none []).1.toList ++
                  (splitGroups rowGroups0 none none []).2.2.reverse ++
                  (splitGroups rowGroups0 none none []).2.1.toList) = groups at gp gt ⊢
                obtain ⟨st1, st2⟩ := setGroups_text groups out.groups
                have hgroups : PT (leafTextL (setGroups groups out.groups)) (leafTextL rows) := by
                  rw [st1]
                  exact (by simpa [leafTextL] using gp : PT (leafTextL groups) (leafTextL rowGroups0)).trans
                    (by simpa [leafTextL] using rp)
                have hcap := filter_text isTopCaption allCaptions
                have hbox := withKids_proj box (setGroups groups out.groups)
                refine ⟨?_, ?_⟩
                · -- text
                  simp only [leafText_withInst, leafText_withStyle, leafText_anon, leafTextL_append, leafTextL,
                    leafText_withCols, leafText_withKids, htext, List.nil_append, List.append_nil,
                    List.append_assoc]
                  refine PT.trans ?_ sp.symm
                  have hce : vis (leafTextL columns) = [] := vis_allEmpty columns hcolsEmpty
                  unfold PT at hgroups hcap ⊢
                  simp only [vis_append, hce, List.nil_append] at hcap ⊢
                  refine (List.perm_append_comm_assoc _ _ _).trans ?_
                  exact List.Perm.append hgroups hcap
                · -- tidiness
                  rw [tidy_withInst, tidy_withStyle]
                  apply tidy_anon
                  · split <;> rfl
                  · rw [tidyL_append, tidyL_append]
                    refine ⟨⟨tidyL_filter _ _ tcaps, ?_, trivial⟩, tidyL_filter _ _ tcaps⟩
                    rw [tidy_withStyle, tidy_withCols]
                    apply tidy_of
                    · simp only [KBox.isA, hbox.1]; exact hnt
                    · obtain ⟨k, st, el, inst, text, kids, cols⟩ := box; exact htext
                    · rw [hbox.2.2.2]; exact st2 gt


/-! ### anonymous_table_boxes and the whole pipeline -/

mutual
/-- Columns and column groups hold no visible text (CSS 2.1 §17.2: they are not rendered). -/
def ColQuiet : KBox → Prop
  | .mk k _ _ _ text kids _ =>
    ((k = .TableColumnBox ∨ k = .TableColumnGroupBox) → vis (text ++ leafTextL kids) = []) ∧ ColQuietL kids
def ColQuietL : List KBox → Prop
  | [] => True
  | c :: cs => ColQuiet c ∧ ColQuietL cs
end

theorem colQuiet_parts {b : KBox} (h : ColQuiet b) :
    ((b.kind = .TableColumnBox ∨ b.kind = .TableColumnGroupBox) → vis (leafText b) = []) ∧ ColQuietL b.kids := by
  obtain ⟨k, st, el, inst, text, kids, cols⟩ := b
  unfold ColQuiet at h
  simpa [leafText, KBox.kind, KBox.kids] using h

theorem vis_append_nil {a b : Text} (h : vis (a ++ b) = []) : vis a = [] ∧ vis b = [] := by
  rw [vis_append] at h
  exact List.append_eq_nil_iff.mp h

theorem allEmpty_of_vis_nil (l : List KBox) (h : vis (leafTextL l) = []) : AllEmpty l := by
  induction l with
  | nil => intro c hc; cases hc
  | cons c cs ih =>
    simp only [leafTextL] at h
    obtain ⟨h1, h2⟩ := vis_append_nil h
    intro d hd
    rcases List.mem_cons.mp hd with rfl | h'
    · exact h1
    · exact ih h2 d h'

theorem isSub_col_iff (k : BoxKind) : (Gen.isSub k .TableColumnBox = true ↔ k = .TableColumnBox) ∧
    (Gen.isSub k .TableColumnGroupBox = true ↔ k = .TableColumnGroupBox) := by
  cases k <;> decide

theorem atb_kind (b r : KBox) (h : atb b = .ok r) :
    (r.kind = .TableColumnBox ∨ r.kind = .TableColumnGroupBox) → r.kind = b.kind := by
  obtain ⟨k, st, el, inst, text, kids, cols⟩ := b
  unfold atb at h
  split at h
  · cases h; intro _; rfl
  · split at h
    · cases h
    · have := tbc_result _ _ _ _ h
      intro hk
      split at this
      · rcases this.2 with h1 | h1 <;> rcases hk with hk | hk <;> rw [h1] at hk <;> cases hk
      · exact this.1

mutual
/-- `anonymous_table_boxes` keeps the visible characters of a tidy tree up to order (white-space text
between table parts and the content of columns, which holds none, aside). -/
theorem atb_text : ∀ (b r : KBox), Tidy b → ColQuiet b → atb b = .ok r →
    PT (leafText r) (leafText b) ∧ Tidy r
  | .mk k st el inst text kids cols, r, ht, hq, h => by
    have hp := tidy_parts ht
    have hqp := colQuiet_parts hq
    simp only [KBox.isA, KBox.kind, KBox.kids, KBox.text] at hp hqp
    unfold atb at h
    split at h
    · cases h; exact ⟨PT.refl _, ht⟩
    · rename_i hcond
      simp only [Bool.or_eq_true, not_or, Bool.not_eq_true', Bool.not_eq_false] at hcond
      have hnt : Gen.isSub k .TextBox = false := parent_not_text k hcond.1
      have htext : text = [] := hp.2.1 hnt
      split at h
      · cases h
      · rename_i children hkids
        obtain ⟨kp, kt, kc, ka⟩ := atbKids_text kids children hp.2.2 hqp.2 hkids
        have hall : (Gen.isSub k .TableColumnBox = true ∨ Gen.isSub k .TableColumnGroupBox = true) →
            AllEmpty children := by
          intro hk
          have hk' : k = .TableColumnBox ∨ k = .TableColumnGroupBox := by
            rcases hk with hk | hk
            · exact Or.inl ((isSub_col_iff k).1.1 hk)
            · exact Or.inr ((isSub_col_iff k).2.1 hk)
          have := hqp.1 hk'
          simp only [leafText, htext, List.nil_append] at this
          exact ka (allEmpty_of_vis_nil kids this)
        obtain ⟨tp, tt⟩ := (tbcText _).tbc (.mk k st el inst text kids cols) children r htext hnt kt kc hall h
        refine ⟨tp.trans ?_, tt⟩
        simp only [leafText, htext, List.nil_append]
        exact kp
theorem atbKids_text : ∀ (kids out : List KBox), TidyL kids → ColQuietL kids → atbKids kids = .ok out →
    PT (leafTextL out) (leafTextL kids) ∧ TidyL out ∧ ColEmpty out ∧ (AllEmpty kids → AllEmpty out)
  | [], out, _, _, h => by
    unfold atbKids at h; cases h
    exact ⟨PT.refl _, trivial, (fun c hc => by cases hc), (fun _ c hc => by cases hc)⟩
  | c :: cs, out, ht, hq, h => by
    unfold TidyL at ht
    unfold ColQuietL at hq
    unfold atbKids at h
    split at h
    · rename_i a b ha hb
      cases h
      obtain ⟨p1, t1⟩ := atb_text c a ht.1 hq.1 ha
      obtain ⟨p2, t2, c2, a2⟩ := atbKids_text cs b ht.2 hq.2 hb
      refine ⟨by simp only [leafTextL]; exact PT.append p1 p2, ⟨t1, t2⟩, ?_, ?_⟩
      · intro d hd hk
        rcases List.mem_cons.mp hd with rfl | h'
        · have hkind := atb_kind c d ha hk
          have := (colQuiet_parts hq.1).1 (by rw [← hkind]; exact hk)
          exact PT.nil_right (by unfold PT at p1 ⊢; rw [this] at p1; exact p1)
        · exact c2 d h' hk
      · intro hall d hd
        rcases List.mem_cons.mp hd with rfl | h'
        · have := hall c List.mem_cons_self
          exact PT.nil_right (by unfold PT at p1 ⊢; rw [this] at p1; exact p1)
        · exact a2 (fun e he => hall e (List.mem_cons_of_mem _ he)) d h'
    · cases h
    · cases h
end

/-- The whole of `create_anonymous_boxes`: the visible characters of the result are those of the input,
up to the order in which tables arrange their parts. -/
theorem pipeline_text (b r : KBox) (ht : Tidy b) (hq : ColQuiet b) (h : createAnonymousBoxes b = .ok r) :
    PT (leafText r) (leafText b) := by
  unfold createAnonymousBoxes at h
  split at h
  · cases h
  · rename_i b1 h1
    obtain ⟨p1, t1⟩ := atb_text b b1 ht hq h1
    obtain ⟨e2, t2⟩ := fgb_text false b1 t1
    obtain ⟨e3, t3⟩ := fgb_text true _ t2
    simp only at h
    split at h
    · cases h
    · rename_i b4 h4
      obtain ⟨e4, t4⟩ := iib_tidy _ false b4 t3 h4
      have e5 := (biiText _).bii b4 r (tidy_leafy b4 t4) h
      rw [e5]
      exact (PT.of_eq (vis_of_noSp_eq (e4.trans (e3.trans e2)))).trans p1

end Wp.Bx
