/-
Definitions for the conservation / progress theorems of the extended pagination model (stage 2a):
in-flow lines of fragments and boxes, position measure, well-formed skip stacks, "complete rest".
Out-of-flow children (placeholders, floats) are units of the children sequence but hold no in-flow line.
-/
import WpModel.Model.PaginateOof
import WpModel.Lemmas.SegmentDefs

namespace Wp.PMO
open Wp Wp.PM

/-! ### in-flow lines of fragments and boxes -/

mutual
/-- (paragraph id, line number) of every line of the fragment's own flow, in tree order: the lines of
out-of-flow descendants (floats, laid-out absolute boxes) are *not* included. -/
def fragLines : OFrag → List (Nat × Nat)
  | .para _ id _ _ _ _ lines => lines.map (fun l => (id, l.1))
  | .block _ _ _ _ _ kids => fragLinesList kids
  | .ph _ _ _ _ => []
def fragLinesList : List OFrag → List (Nat × Nat)
  | [] => []
  | f :: fs => (if f.inFlow then fragLines f else []) ++ fragLinesList fs
end

mutual
/-- Lines of the box's own flow at / after a resume position. -/
def linesFrom : OBox → Option Resume → List (Nat × Nat)
  | .para id n _ _, σ => paraLines id (paraStart σ) n
  | .block _ _ kids, σ => linesFromKids kids (skipIdxOf σ) (subSkipOf σ)
def linesFromKids : List OBox → Nat → Option Resume → List (Nat × Nat)
  | [], _, _ => []
  | b :: bs, 0, sub => (if b.inFlow then linesFrom b sub else []) ++ linesFromKids bs 0 none
  | _ :: bs, k + 1, sub => linesFromKids bs k sub
end

def restOut (box : OBox) : Option Resume → List (Nat × Nat)
  | none => []
  | some r => linesFrom box (some r)

/-! ### position measure: one unit per line, per box, per out-of-flow child -/

mutual
def size : OBox → Nat
  | .para _ n _ _ => n + 1
  | .block _ _ kids => sizeList kids + 1
def sizeList : List OBox → Nat
  | [] => 0
  | b :: bs => (if b.inFlow then size b else 1) + sizeList bs
end

mutual
def pos : OBox → Option Resume → Nat
  | .para _ n _ _, σ => min (paraStart σ) n
  | .block _ _ kids, σ => posKids kids (skipIdxOf σ) (subSkipOf σ)
def posKids : List OBox → Nat → Option Resume → Nat
  | [], _, _ => 0
  | b :: _, 0, sub => if b.inFlow then pos b sub else 0
  | b :: bs, k + 1, sub => (if b.inFlow then size b else 1) + posKids bs k sub
end

/-! ### well-formed skip stacks: a sub-stack only below an in-flow child -/

mutual
def WfSkip : OBox → Option Resume → Prop
  | .para _ _ _ _, _ => True
  | .block _ _ kids, σ => WfSkipKids kids (skipIdxOf σ) (subSkipOf σ)
def WfSkipKids : List OBox → Nat → Option Resume → Prop
  | [], _, _ => True
  | b :: _, 0, sub => if b.inFlow then WfSkip b sub else sub = none
  | _ :: bs, k + 1, sub => WfSkipKids bs k sub
end

/-! ### hypotheses -/

mutual
/-- No fixed `height`, `orphans, widows ≥ 1`, for the box and its in-flow descendants (what happens
inside out-of-flow children does not matter to the flow). -/
def Good : OBox → Prop
  | .para _ _ _ st => st.height = none ∧ 1 ≤ st.orphans ∧ 1 ≤ st.widows
  | .block _ st kids => st.height = none ∧ GoodList kids
def GoodList : List OBox → Prop
  | [] => True
  | b :: bs => (b.inFlow = true → Good b) ∧ GoodList bs
end

mutual
/-- The same for every box of the tree, out-of-flow ones included. -/
def GoodDeep : OBox → Prop
  | .para _ _ _ st => st.height = none ∧ 1 ≤ st.orphans ∧ 1 ≤ st.widows
  | .block _ st kids => st.height = none ∧ GoodDeepList kids
def GoodDeepList : List OBox → Prop
  | [] => True
  | b :: bs => GoodDeep b ∧ GoodDeepList bs
end

mutual
theorem good_of_deep : (b : OBox) → GoodDeep b → Good b
  | .para _ _ _ _ => by intro h; simpa [GoodDeep, Good] using h
  | .block _ _ kids => by
    intro h
    simp only [GoodDeep] at h
    simp only [Good]
    exact ⟨h.1, goodList_of_deep kids h.2⟩
theorem goodList_of_deep : (bs : List OBox) → GoodDeepList bs → GoodList bs
  | [] => by intro _; simp [GoodList]
  | b :: bs => by
    intro h
    simp only [GoodDeepList] at h
    simp only [GoodList]
    exact ⟨fun _ => good_of_deep b h.1, goodList_of_deep bs h.2⟩
end

/-! ### "the fragment is the complete rest of the box" -/

mutual
def Full : OFrag → OBox → Option Resume → Prop
  | .para _ id _ st n _ lines, b, σ =>
    match b with
    | .para id' n' _ st' => id = id' ∧ n = n' ∧ st = st' ∧
        lines.map Prod.fst = List.range' (paraStart σ) (n' - paraStart σ)
    | .block _ _ _ => False
  | .block _ _ _ _ _ fs, b, σ =>
    match b with
    | .block _ _ kids => FullFrom fs (kids.drop (skipIdxOf σ)) (skipIdxOf σ) (subSkipOf σ)
    | .para _ _ _ _ => False
  | .ph _ _ _ _, _, _ => False
/-- `FullFrom fs bs i sub`: one fragment per box of `bs` (positions `i, i+1, …`): a complete fragment for
an in-flow box (the first one resumed at `sub`), an out-of-flow fragment (placeholder or float) for an
out-of-flow box. -/
def FullFrom : List OFrag → List OBox → Nat → Option Resume → Prop
  | [], bs, _, _ => bs = []
  | f :: fs, bs, i, sub =>
    match bs with
    | [] => False
    | b :: bs' => f.idx = i ∧ f.inFlow = b.inFlow ∧ (b.inFlow = true → Full f b sub) ∧ FullFrom fs bs' (i + 1) none
end

end Wp.PMO
