/-
From the function-level white-space theorems to elements: the boxes `element_to_box` builds for inline
elements in normal flow with a collapsing `white-space` are inline content (`IC`) of their parent, so the
threading theorem of Lemmas/Threading.lean applies to the box of the parent element.  Core Lean only.
-/
import WpModel.Lemmas.Threading
import WpModel.Lemmas.BoxGenTidy

namespace Wp.Bx
open KBox

/-- The style entries that make a box plain inline content: in normal flow, collapsing `white-space`, no
`text-transform`, `hyphens` not `none`. -/
def PlainStyle (st : Style) : Prop :=
  st.run = false ∧ st.abs = false ∧ st.foot = false ∧ st.flt = false ∧ st.tt = .none ∧ st.hyph = false ∧
  spaceCollapse st.ws = true

mutual
/-- Plain inline content: text boxes and inline boxes with `PlainStyle` all the way down. -/
def ICP : KBox → Prop
  | .mk k st _ _ text kids _ =>
    PlainStyle st ∧
    ((Gen.isSub k .TextBox = true ∧ kids = []) ∨
     (Gen.isSub k .TextBox = false ∧ Gen.isSub k .InlineBox = true ∧ text = [] ∧ ICPL kids))
def ICPL : List KBox → Prop
  | [] => True
  | c :: cs => ICP c ∧ ICPL cs
end

theorem icpl_iff (l : List KBox) : ICPL l ↔ ∀ c ∈ l, ICP c := by
  induction l with
  | nil => simp [ICPL]
  | cons c cs ih => simp [ICPL, ih]

mutual
theorem icp_ic : ∀ (b : KBox), ICP b → IC b
  | .mk k st el inst text kids cols, h => by
    unfold ICP at h
    obtain ⟨⟨h1, h2, h3, h4, _, _, h7⟩, hc⟩ := h
    unfold IC
    refine ⟨h1, h2, h3, by simp [h4], ?_⟩
    rcases hc with ⟨a, b⟩ | ⟨a, b, c, d⟩
    · exact Or.inl ⟨a, h7, b⟩
    · exact Or.inr ⟨a, b, c, icpl_icl kids d⟩
theorem icpl_icl : ∀ (l : List KBox), ICPL l → ICL l
  | [], _ => by unfold ICL; trivial
  | c :: cs, h => by
    unfold ICPL at h
    unfold ICL
    exact ⟨icp_ic c h.1, icpl_icl cs h.2⟩
end

theorem icp_inFlow {b : KBox} (h : ICP b) : b.inFlow = true ∧
    (Gen.isSub b.kind .TextBox || Gen.isSub b.kind .InlineBox) = true := by
  have := ic_inFlow (icp_ic b h)
  refine ⟨this.1, ?_⟩
  rcases this.2.2 with h1 | h1
  · simp only [KBox.isA] at h1; simp [h1]
  · simp only [KBox.isA] at h1; simp [h1]

mutual
/-- `process_whitespace` keeps plain inline content plain (it only changes texts and `lcs`). -/
theorem pw_icp : ∀ (b : KBox) (f : Bool), ICP b → ICP (pw b f).1
  | .mk k st el inst text kids cols, f, h => by
    unfold ICP at h
    obtain ⟨hs, hc⟩ := h
    unfold pw
    rcases hc with ⟨a, b⟩ | ⟨a, b, c, d⟩
    · simp only [a, if_true]
      split
      · unfold ICP; exact ⟨hs, Or.inl ⟨a, b⟩⟩
      · unfold ICP; exact ⟨hs, Or.inl ⟨a, b⟩⟩
    · simp only [a, Bool.false_eq_true, if_false]
      unfold ICP
      exact ⟨hs, Or.inr ⟨a, b, c, pwKids_icp kids f d⟩⟩
theorem pwKids_icp : ∀ (l : List KBox) (f : Bool), ICPL l → ICPL (pwKids l f).1
  | [], _, _ => by simp [pwKids, ICPL]
  | c :: cs, f, h => by
    unfold ICPL at h
    unfold pwKids
    simp only [(icp_inFlow h.1).2, if_true]
    unfold ICPL
    exact ⟨pw_icp c f h.1, pwKids_icp cs _ h.2⟩
end

mutual
/-- `process_text_transform` does nothing to plain inline content. -/
theorem ptt_icp : ∀ (b : KBox), ICP b → ptt b = b
  | .mk k st el inst text kids cols, h => by
    unfold ICP at h
    obtain ⟨⟨h1, _, _, _, h5, h6, _⟩, hc⟩ := h
    unfold ptt
    rcases hc with ⟨a, b⟩ | ⟨a, b, c, d⟩
    · simp only [a, if_true, h5, h6, applyTT, Bool.false_eq_true, if_false]
    · simp only [a, Bool.false_eq_true, if_false, h1, Bool.not_false, if_true, pttKids_icp kids d]
theorem pttKids_icp : ∀ (l : List KBox), ICPL l → pttKids l = l
  | [], _ => by simp [pttKids]
  | c :: cs, h => by
    unfold ICPL at h
    unfold pttKids
    simp only [(icp_inFlow h.1).2, if_true, ptt_icp c h.1, pttKids_icp cs h.2]
end

/-- What `addChild` needs of the parent: the text boxes it makes inherit a plain style. -/
def PlainParent (p : KBox) : Prop := p.st.tt = .none ∧ p.st.hyph = false ∧ spaceCollapse p.st.ws = true

theorem textBoxFrom_icp (p : KBox) (t : Text) (hp : PlainParent p) : ICP (textBoxFrom p t) := by
  unfold textBoxFrom ICP PlainStyle anonStyle
  exact ⟨⟨rfl, rfl, rfl, rfl, hp.1, hp.2.1, hp.2.2⟩, Or.inl ⟨rfl, rfl⟩⟩

theorem addChild_icp (parent : KBox) (hp : PlainParent parent) (acc boxes : List KBox) (tail : Text)
    (ha : ∀ c ∈ acc, ICP c) (hb : ∀ c ∈ boxes, ICP c) : ∀ c ∈ addChild parent acc boxes tail, ICP c := by
  have hacc : ∀ c ∈ boxes.reverse ++ acc, ICP c := by
    intro c hc
    rcases List.mem_append.mp hc with h | h
    · exact hb c (List.mem_reverse.mp h)
    · exact ha c h
  unfold addChild
  simp only
  split
  · exact hacc
  · generalize boxes.reverse ++ acc = l at hacc
    cases l with
    | nil =>
      intro c hc
      simp only [List.mem_singleton] at hc
      subst hc
      exact textBoxFrom_icp _ _ hp
    | cons last rest =>
      simp only
      split
      · rename_i ht
        intro c hc
        cases hc with
        | head =>
          have hl := hacc last List.mem_cons_self
          obtain ⟨k, st, el, inst, text, kids, cols⟩ := last
          simp only [KBox.isA, KBox.kind] at ht
          unfold ICP at hl ⊢
          simp only [KBox.kind, KBox.st, KBox.kids]
          refine ⟨hl.1, ?_⟩
          rcases hl.2 with ⟨a, b⟩ | ⟨a, _⟩
          · exact Or.inl ⟨a, b⟩
          · rw [ht] at a; cases a
        | tail _ h' => exact hacc c (List.mem_cons_of_mem _ h')
      · intro c hc
        cases hc with
        | head => exact textBoxFrom_icp _ _ hp
        | tail _ h' => exact hacc c h'


/-! ## elements -/

/-- The computed style of an inline element in normal flow with a collapsing `white-space`. -/
def InlineStyle (s : EStyle) : Prop :=
  s.display = ["inline", "flow"] ∧ s.float = "none" ∧ s.position = "static" ∧ spaceCollapse s.ws = true ∧
  s.tt = .none ∧ s.hyph = false

mutual
/-- A subtree of such inline elements, without `::before` / `::after`. -/
def InlineDom : Dom → Prop
  | .el st _ _ before after _ kids _ => InlineStyle st ∧ before = none ∧ after = none ∧ InlineDomL kids
def InlineDomL : List Dom → Prop
  | [] => True
  | d :: ds => InlineDom d ∧ InlineDomL ds
end

theorem beforeAfter_none (m : Option MarkerSpec) (attrs : El) (d : Nat) :
    beforeAfterToBox none m attrs d = .ok ([], d) := by
  unfold beforeAfterToBox; rfl

theorem inline_display_facts :
    blockify ["inline", "flow"] "none" "static" false = ["inline", "flow"] ∧
    boxTypeFromDisplay ["inline", "flow"] = some .InlineBox ∧
    (["inline", "flow"] == ["none"]) = false ∧ (["inline", "flow"] : List String).contains "list-item" = false := by
  decide

theorem mkStyle_inline (es : EStyle) (h : InlineStyle es) : PlainStyle (mkStyle es ["inline", "flow"]) := by
  obtain ⟨_, hf, hp, hw, ht, hh⟩ := h
  unfold PlainStyle mkStyle computeFloat
  simp only [hf, hp]
  exact ⟨by decide, by decide, by decide, by decide, ht, hh, hw⟩

mutual
/-- The box of an inline element (after its own `process_whitespace` / `process_text_transform`) is plain
inline content. -/
theorem elementToBox_inline : ∀ (d : Dom) (depth : Nat) (out : List KBox) (depth' : Nat), InlineDom d →
    elementToBox false d depth = .ok (out, depth') → ∀ c ∈ out, ICP c
  | .el es attrs marker before after text kids tail, depth, out, depth', hd, h => by
    unfold InlineDom at hd
    obtain ⟨hs, rfl, rfl, hk⟩ := hd
    have hps := mkStyle_inline es hs
    obtain ⟨h1, h2, h3, _⟩ := hs
    obtain ⟨f1, f2, f3, f4⟩ := inline_display_facts
    unfold elementToBox at h
    simp only [h1, h2, h3, f1, f2, f3, f4, beforeAfter_none, Bool.false_eq_true, if_false] at h
    split at h
    · cases h
    · rename_i accRev d3 hkids
      simp only [List.isEmpty_nil, Bool.not_true, Bool.false_and, Bool.false_eq_true, if_false,
        List.append_nil, Except.ok.injEq, Prod.mk.injEq] at h
      obtain ⟨rfl, _⟩ := h
      have hpar : PlainParent (KBox.mk .InlineBox (mkStyle es ["inline", "flow"]) attrs (initInst .InlineBox attrs) [] [] []) :=
        ⟨hps.2.2.2.2.1, hps.2.2.2.2.2.1, hps.2.2.2.2.2.2⟩
      have hacc := elementKids_inline _ kids _ depth accRev d3 hpar hk (by
        intro c hc
        split at hc
        · simp at hc
        · simp at hc
          subst hc
          exact textBoxFrom_icp _ _ hpar) hkids
      have hbox : ICP ((KBox.mk .InlineBox (mkStyle es ["inline", "flow"]) attrs (initInst .InlineBox attrs) [] [] []).withKids
          accRev.reverse) := by
        unfold KBox.withKids ICP
        refine ⟨hps, Or.inr ⟨rfl, rfl, rfl, (icpl_iff _).2 (fun c hc => hacc c (List.mem_reverse.mp hc))⟩⟩
      intro c hc
      simp only [List.mem_singleton] at hc
      subst hc
      rw [ptt_icp _ (pw_icp _ false hbox)]
      exact pw_icp _ false hbox
theorem elementKids_inline : ∀ (parent : KBox) (ds : List Dom) (acc : List KBox) (depth : Nat) (out : List KBox)
    (depth' : Nat), PlainParent parent → InlineDomL ds → (∀ c ∈ acc, ICP c) →
    elementKids parent ds acc depth = .ok (out, depth') → ∀ c ∈ out, ICP c
  | parent, [], acc, depth, out, depth', _, _, ha, h => by
    unfold elementKids at h; cases h; exact ha
  | parent, d :: ds, acc, depth, out, depth', hp, hd, ha, h => by
    unfold InlineDomL at hd
    unfold elementKids at h
    split at h
    · cases h
    · rename_i boxes d1 hb
      exact elementKids_inline parent ds _ d1 out depth' hp hd.2
        (addChild_icp parent hp acc boxes d.tail ha (elementToBox_inline d depth boxes d1 hd.1 hb)) h
end

end Wp.Bx
