/-
Lemmas for the vertical half of C09 (`Model/LineVertical.lean`).  Core Lean only.
-/
import WpModel.Model.LineVertical

namespace Wp.C09L
open Wp Wp.LV

def nodeStyle : VNode → VStyle
  | .text st => st
  | .box st _ => st

/-- **every box is one line-height high**: the margin box of a text box and of an inline box is the
used `line-height` of its style, whatever the font size, borders and paddings (the two half-leading
assignments of `split_text_box` / `split_inline_box`). -/
theorem build_marginHeight (n : VNode) : (build n).marginHeight = (strutLayout (nodeStyle n)).1 := by
  cases n with
  | text st => simp only [build, VBox.marginHeight, nodeStyle]; grind
  | box st kids => simp only [build, VBox.marginHeight, nodeStyle]; grind

/-- the interval `[top, bottom]` lies inside the running extent -/
def Ext.Contains (e : Ext) (top bottom : Rat) : Prop :=
  ∃ mx mn, e = some (mx, mn) ∧ mn ≤ top ∧ bottom ≤ mx
theorem Ext.add_self (e : Ext) (top bottom : Rat) : Ext.Contains (e.add top bottom) top bottom := by
  cases e with
  | none => exact ⟨bottom, top, rfl, by grind, by grind⟩
  | some p =>
    obtain ⟨mx, mn⟩ := p
    refine ⟨_, _, rfl, ?_, ?_⟩ <;> (split <;> grind)
theorem Ext.add_mono (e : Ext) (top bottom t b : Rat) (h : Ext.Contains e t b) :
    Ext.Contains (e.add top bottom) t b := by
  obtain ⟨mx, mn, rfl, h1, h2⟩ := h
  refine ⟨_, _, rfl, ?_, ?_⟩ <;> (split <;> grind)
theorem Ext.merge_left (e o : Ext) (t b : Rat) (h : Ext.Contains e t b) : Ext.Contains (e.merge o) t b := by
  cases o with
  | none => exact h
  | some p => obtain ⟨mx, mn⟩ := p; exact Ext.add_mono e mn mx t b h
theorem Ext.merge_right (e o : Ext) (t b : Rat) (h : Ext.Contains o t b) : Ext.Contains (e.merge o) t b := by
  obtain ⟨mx, mn, rfl, h1, h2⟩ := h
  have := Ext.add_self e mn mx
  obtain ⟨mx', mn', he, h3, h4⟩ := this
  exact ⟨mx', mn', he, by grind, by grind⟩

mutual
/-- a box and all its descendants -/
def allBoxes : VBox → List VBox
  | .text y h mt mb b va => [.text y h mt mb b va]
  | .box y h mt mb b st kids => .box y h mt mb b st kids :: allBoxesL kids
def allBoxesL : List VBox → List VBox
  | [] => []
  | k :: ks => allBoxes k ++ allBoxesL ks
end

mutual
/-- no `vertical-align: top | bottom` anywhere in the subtree -/
def noTB : VBox → Bool
  | .text _ _ _ _ _ va => !va.isTopBottom
  | .box _ _ _ _ _ st kids => !st.va.isTopBottom && noTBL kids
def noTBL : List VBox → Bool
  | [] => true
  | k :: ks => noTB k && noTBL ks
end

mutual
theorem placeOne_contains (pst : VStyle) (pbase pmt by_ : Rat) : ∀ (c : VBox), noTB c = true →
    (placeOne pst pbase pmt by_ c).2.2 = [] ∧ noTB (placeOne pst pbase pmt by_ c).1 = true ∧
    ∀ d ∈ allBoxes (placeOne pst pbase pmt by_ c).1,
      Ext.Contains (placeOne pst pbase pmt by_ c).2.1 d.y (d.y + d.marginHeight)
  | .text y h mt mb b va, hn => by
    simp only [noTB, Bool.not_eq_true'] at hn
    unfold placeOne
    simp only [hn, Bool.false_eq_true, if_false]
    refine ⟨trivial, by simp [noTB, hn], ?_⟩
    intro d hd
    simp only [allBoxes, List.mem_singleton] at hd
    subst hd
    simp only [VBox.y, VBox.marginHeight]
    have := Ext.add_self none (childBaseline pst pbase pmt by_ va (h + mt + mb) b - b)
      (childBaseline pst pbase pmt by_ va (h + mt + mb) b - b + (h + mt + mb))
    exact this
  | .box y h mt mb b st kids, hn => by
    simp only [noTB, Bool.and_eq_true, Bool.not_eq_true'] at hn
    have ih := placeKids_contains st b mt
      (childBaseline pst pbase pmt by_ st.va (h + mt + mb + st.bt + st.pt + st.pb + st.bb) b) kids hn.2
    unfold placeOne
    simp only [hn.1, Bool.false_eq_true, if_false]
    refine ⟨ih.1, by simp [noTB, hn.1, ih.2.1], ?_⟩
    intro d hd
    simp only [allBoxes, List.mem_cons] at hd
    rcases hd with hd | hd
    · subst hd
      apply Ext.merge_left
      simp only [VBox.y, VBox.marginHeight]
      exact Ext.add_self none _ _
    · apply Ext.merge_right
      exact ih.2.2 d hd
theorem placeKids_contains (pst : VStyle) (pbase pmt by_ : Rat) : ∀ (cs : List VBox), noTBL cs = true →
    (placeKids pst pbase pmt by_ cs).2.2 = [] ∧ noTBL (placeKids pst pbase pmt by_ cs).1 = true ∧
    ∀ d ∈ allBoxesL (placeKids pst pbase pmt by_ cs).1,
      Ext.Contains (placeKids pst pbase pmt by_ cs).2.1 d.y (d.y + d.marginHeight)
  | [], _ => by
    unfold placeKids
    exact ⟨rfl, rfl, by intro d hd; simp [allBoxesL] at hd⟩
  | c :: cs, hn => by
    simp only [noTBL, Bool.and_eq_true] at hn
    have h1 := placeOne_contains pst pbase pmt by_ c hn.1
    have h2 := placeKids_contains pst pbase pmt by_ cs hn.2
    unfold placeKids
    simp only
    refine ⟨by rw [h1.1, h2.1]; rfl, by simp [noTBL, h1.2.1, h2.2.1], ?_⟩
    intro d hd
    simp only [allBoxesL, List.mem_append] at hd
    rcases hd with hd | hd
    · exact Ext.merge_left _ _ _ _ (h1.2.2 d hd)
    · exact Ext.merge_right _ _ _ _ (h2.2.2 d hd)
end

mutual
/-- without `top` / `bottom` boxes `translate_subtree` is never called: nothing moves -/
theorem shift_noTB (a b : Rat) : ∀ (k : VBox), noTB k = true → shift a b 0 k = k
  | .text y h mt mb base va, hn => by
    simp only [noTB, Bool.not_eq_true'] at hn
    simp [shift, hn, Rat.add_zero]
  | .box y h mt mb base st kids, hn => by
    simp only [noTB, Bool.and_eq_true, Bool.not_eq_true'] at hn
    unfold shift
    simp only [hn.1, Bool.false_eq_true, if_false, Rat.add_zero, shiftL_noTB a b kids hn.2]
theorem shiftL_noTB (a b : Rat) : ∀ (ks : List VBox), noTBL ks = true → shiftL a b 0 ks = ks
  | [], _ => by simp [shiftL]
  | k :: ks, hn => by
    simp only [noTBL, Bool.and_eq_true] at hn
    simp only [shiftL, shift_noTB a b k hn.1, shiftL_noTB a b ks hn.2]
end

mutual
theorem allBoxes_translateY (dy : Rat) : ∀ (k : VBox) (d' : VBox), d' ∈ allBoxes (translateY dy k) →
    ∃ d ∈ allBoxes k, d'.y = d.y + dy ∧ d'.marginHeight = d.marginHeight
  | .text y h mt mb base va, d', hd => by
    simp only [translateY, allBoxes, List.mem_singleton] at hd
    subst hd
    exact ⟨.text y h mt mb base va, by simp [allBoxes], rfl, rfl⟩
  | .box y h mt mb base st kids, d', hd => by
    simp only [translateY, allBoxes, List.mem_cons] at hd
    rcases hd with hd | hd
    · subst hd
      exact ⟨.box y h mt mb base st kids, by simp [allBoxes], rfl, rfl⟩
    · obtain ⟨d, hm, h1, h2⟩ := allBoxesL_translateY dy kids d' hd
      exact ⟨d, by simp [allBoxes, hm], h1, h2⟩
theorem allBoxesL_translateY (dy : Rat) : ∀ (ks : List VBox) (d' : VBox), d' ∈ allBoxesL (translateYL dy ks) →
    ∃ d ∈ allBoxesL ks, d'.y = d.y + dy ∧ d'.marginHeight = d.marginHeight
  | [], d', hd => by simp [translateYL, allBoxesL] at hd
  | k :: ks, d', hd => by
    simp only [translateYL, allBoxesL, List.mem_append] at hd
    rcases hd with hd | hd
    · obtain ⟨d, hm, h1, h2⟩ := allBoxes_translateY dy k d' hd
      exact ⟨d, by simp [allBoxesL, hm], h1, h2⟩
    · obtain ⟨d, hm, h1, h2⟩ := allBoxesL_translateY dy ks d' hd
      exact ⟨d, by simp [allBoxesL, hm], h1, h2⟩
end

mutual
/-- no `vertical-align: top | bottom` in the tree before layout -/
def noTBNode : VNode → Bool
  | .text st => !st.va.isTopBottom
  | .box st kids => !st.va.isTopBottom && noTBNodeL kids
def noTBNodeL : List VNode → Bool
  | [] => true
  | k :: ks => noTBNode k && noTBNodeL ks
end

mutual
theorem build_noTB : ∀ (n : VNode), noTBNode n = true → noTB (build n) = true
  | .text st, h => by simpa [build, noTB, noTBNode] using h
  | .box st kids, h => by
    simp only [noTBNode, Bool.and_eq_true] at h
    simp only [build, noTB, Bool.and_eq_true]
    exact ⟨h.1, buildL_noTB kids h.2⟩
theorem buildL_noTB : ∀ (ns : List VNode), noTBNodeL ns = true → noTBL (buildL ns) = true
  | [], _ => rfl
  | n :: ns, h => by
    simp only [noTBNodeL, Bool.and_eq_true] at h
    simp only [buildL, noTBL, Bool.and_eq_true]
    exact ⟨build_noTB n h.1, buildL_noTB ns h.2⟩
end

theorem placeSub_box_contains (y h mt mb base : Rat) (st : VStyle) (kids : List VBox) (by_ : Rat)
    (hn : noTBL kids = true) :
    ∃ pk ext, placeSub (.box y h mt mb base st kids) by_ = (.box y h mt mb base st pk, ext, []) ∧
      noTBL pk = true ∧ ∀ d ∈ allBoxesL pk, Ext.Contains ext d.y (d.y + d.marginHeight) := by
  have hk := placeKids_contains st base mt by_ kids hn
  refine ⟨(placeKids st base mt by_ kids).1,
    (placeKids st base mt by_ kids).2.1.add (by_ - base)
      (by_ - base + (VBox.box y h mt mb base st kids).marginHeight), ?_, hk.2.1, ?_⟩
  · simp only [placeSub]
    rw [hk.1]
  · intro d hd
    exact Ext.add_mono _ _ _ _ _ (hk.2.2 d hd)

/-- **no overlap between lines (baseline-relative alignments)**: in a line without
`vertical-align: top | bottom`, every box — at any nesting depth, for any font sizes, line-heights,
`baseline` / `middle` / `text-top` / `text-bottom` / length alignments, borders and paddings — has its
margin box inside the line box `[y, y + height]`.  With `stack` (each line starts where the previous
one ends) no box of a line can overlap a neighbouring line. -/
theorem boxes_inside_line (lineSt : VStyle) (kids : List VNode) (posY : Rat) (l : VLine)
    (hn : noTBNodeL kids = true) (h : layoutLine lineSt kids posY = .ok l) :
    l.y = posY ∧ ∀ d ∈ allBoxesL l.kids, l.y ≤ d.y ∧ d.y + d.marginHeight ≤ l.y + l.height := by
  unfold layoutLine at h
  generalize ({ lineSt with bt := 0, pt := 0, pb := 0, bb := 0 } : VStyle) = st at h
  obtain ⟨y0, h0, mt0, mb0, b0, hb⟩ : ∃ y0 h0 mt0 mb0 b0,
      build (.box st kids) = .box y0 h0 mt0 mb0 b0 st (buildL kids) := ⟨_, _, _, _, _, by simp only [build]; rfl⟩
  simp only [hb] at h
  obtain ⟨pk, ext, hps, hnotb, hcont⟩ := placeSub_box_contains y0 h0 mt0 mb0 b0 st (buildL kids) 0 (buildL_noTB kids hn)
  simp only [hps] at h
  cases hext : ext with
  | none => rw [hext] at h; cases h
  | some p =>
    obtain ⟨mx, mn⟩ := p
    rw [hext] at h
    simp only [List.foldl_nil] at h
    cases h
    refine ⟨rfl, ?_⟩
    intro d' hd'
    simp only at hd'
    rw [shiftL_noTB mn mx pk hnotb] at hd'
    obtain ⟨d, hm, h1, h2⟩ := allBoxesL_translateY (posY - mn) pk d' hd'
    have hc := hcont d hm
    rw [hext] at hc
    obtain ⟨mx', mn', he, h3, h4⟩ := hc
    cases he
    simp only
    rw [h1, h2]
    constructor <;> grind

theorem foldl_max_ge (mn : Rat) (es : List Rat) (m : Rat) :
    m ≤ es.foldl (fun m e => if mn + e > m then mn + e else m) m := by
  induction es generalizing m with
  | nil => simp
  | cons e es ih =>
    simp only [List.foldl_cons]
    refine Rat.le_trans ?_ (ih _)
    split <;> grind

/-- **a line is at least one line-height high**: whatever it contains (also `top` / `bottom` boxes),
the line box is at least as high as the used `line-height` of its block (the strut). -/
theorem line_at_least_line_height (lineSt : VStyle) (kids : List VNode) (posY : Rat) (l : VLine)
    (h : layoutLine lineSt kids posY = .ok l) : (strutLayout lineSt).1 ≤ l.height := by
  unfold layoutLine at h
  have hsl : strutLayout ({ lineSt with bt := 0, pt := 0, pb := 0, bb := 0 } : VStyle) = strutLayout lineSt := rfl
  generalize hst : ({ lineSt with bt := 0, pt := 0, pb := 0, bb := 0 } : VStyle) = st at h hsl
  have hedges : st.bt = 0 ∧ st.pt = 0 ∧ st.pb = 0 ∧ st.bb = 0 := by rw [← hst]; exact ⟨rfl, rfl, rfl, rfl⟩
  have hb : build (.box st kids) = .box 0 st.fs (((strutLayout st).1 - st.fs) / 2 - st.bt - st.pt)
      (((strutLayout st).1 - st.fs) / 2 - st.bb - st.pb) (strutLayout st).2 st (buildL kids) := by
    simp only [build]
  simp only [hb, placeSub] at h
  have hself := Ext.add_self (placeKids st (strutLayout st).2 (((strutLayout st).1 - st.fs) / 2 - st.bt - st.pt) 0
      (buildL kids)).2.1 (0 - (strutLayout st).2)
      (0 - (strutLayout st).2 + (VBox.box 0 st.fs (((strutLayout st).1 - st.fs) / 2 - st.bt - st.pt)
        (((strutLayout st).1 - st.fs) / 2 - st.bb - st.pb) (strutLayout st).2 st (buildL kids)).marginHeight)
  obtain ⟨mx, mn, he, h1, h2⟩ := hself
  rw [he] at h
  simp only at h
  cases h
  simp only
  have hf := foldl_max_ge mn (placeKids st (strutLayout st).2 (((strutLayout st).1 - st.fs) / 2 - st.bt - st.pt) 0
      (buildL kids)).2.2 mx
  simp only [VBox.marginHeight] at h2
  rw [← hsl]
  obtain ⟨e1, e2, e3, e4⟩ := hedges
  rw [e1, e2, e3, e4] at h2
  grind
end Wp.C09L
