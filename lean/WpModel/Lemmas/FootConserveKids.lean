/-
Footnote conservation, block level: the children loop and the mutual induction over the source tree.
-/
import WpModel.Lemmas.FootTotal

namespace Wp.PMF
open Wp Wp.PM

/-! ### `find_earlier_page_break` keeps a prefix of the lines -/

theorem findEarlierPara_prefix (id idx : Nat) (st : PStyle) (n : Nat) (g : Geo) (lines : List (Nat × Rat))
    (x' : Frag) (r : Resume) (h : findEarlierPara id idx st n g lines = some (x', r)) :
    ∃ t, fragLines (.para id idx st n g lines) = fragLines x' ++ t := by
  unfold findEarlierPara at h
  split at h
  · cases h
  · dsimp only at h
    split at h
    · cases h
    · split at h
      · simp only [Option.some.injEq, Prod.mk.injEq] at h
        obtain ⟨rfl, _⟩ := h
        refine ⟨(lines.drop ((lines.length : Int) - (st.widows : Int)).toNat).map (fun l => (id, l.1)), ?_⟩
        simp only [fragLines]
        rw [← List.map_append, List.take_append_drop]
      · cases h

mutual
theorem findEarlierGo_prefix : (xs : List Frag) → ∀ (kept : List Frag) (r : Resume),
    (findEarlierGo xs).found = some (kept, r) → ∃ t, fragLinesList xs = fragLinesList kept ++ t
  | [] => by intro kept r h; simp [findEarlierGo] at h
  | x :: xs => by
    intro kept r h
    unfold findEarlierGo at h
    dsimp only at h
    split at h
    · rename_i kept' r' hfound
      simp only [Option.some.injEq, Prod.mk.injEq] at h
      obtain ⟨rfl, _⟩ := h
      obtain ⟨t, ht⟩ := findEarlierGo_prefix xs kept' r' hfound
      exact ⟨t, by simp [fragLinesList, ht]⟩
    · split at h
      · simp only [Option.some.injEq, Prod.mk.injEq] at h
        obtain ⟨rfl, _⟩ := h
        exact ⟨fragLinesList xs, by simp [fragLinesList]⟩
      · split at h
        · split at h
          · rename_i x' r' hx
            simp only [Option.some.injEq, Prod.mk.injEq] at h
            obtain ⟨rfl, _⟩ := h
            obtain ⟨t, ht⟩ := findEarlierFrag_prefix x x' r' hx
            exact ⟨t ++ fragLinesList xs, by simp [fragLinesList, ht]⟩
          · simp at h
        · simp at h
theorem findEarlierFrag_prefix : (x : Frag) → ∀ (x' : Frag) (r : Resume),
    findEarlierFrag x = some (x', r) → ∃ t, fragLines x = fragLines x' ++ t
  | .para id idx st n g lines => by
    intro x' r h
    simp only [findEarlierFrag] at h
    exact findEarlierPara_prefix id idx st n g lines x' r h
  | .block id idx st g kids => by
    intro x' r h
    simp only [findEarlierFrag] at h
    split at h
    · rename_i kids' r' hk
      simp only [Option.some.injEq, Prod.mk.injEq] at h
      obtain ⟨rfl, _⟩ := h
      obtain ⟨t, ht⟩ := findEarlierGo_prefix kids kids' r' hk
      exact ⟨t, by simp [fragLines, ht]⟩
    · cases h
end

theorem flinesList_eq (fs : List Frag) : flinesList fs = fragLinesList fs := by
  induction fs with
  | nil => rfl
  | cons f fs ih => simp [flinesList, fragLinesList, flines_eq, ih]

/-! ### the calls of a subtree and the table -/

theorem tblFns_mem (tbl : List (Nat × Nat × Fn)) (ls : List (Nat × Nat)) (g : Fn) :
    g ∈ tblFns tbl ls ↔ ∃ l ∈ ls, g ∈ tblFns tbl [l] := by
  induction ls with
  | nil => simp [tblFns]
  | cons l ls ih =>
    simp only [tblFns, List.mem_append, ih, List.append_nil, List.mem_cons, exists_eq_or_imp]

theorem tblFns_sub (tbl : List (Nat × Nat × Fn)) (a b : List (Nat × Nat)) (h : ∀ l ∈ a, l ∈ b) (g : Fn)
    (hg : g ∈ tblFns tbl a) : g ∈ tblFns tbl b := by
  rw [tblFns_mem] at hg ⊢
  obtain ⟨l, hl, hgl⟩ := hg
  exact ⟨l, h l hl, hgl⟩

theorem linesFrom_para_none (id n : Nat) (lineH : Rat) (st : PStyle) :
    linesFrom (.para id n lineH st) none = (List.range' 0 n).map (fun i => (id, i)) := by
  simp [linesFrom, paraLines, paraStart, skipLine]

mutual
/-- Every call of a subtree is a call on one of its lines, and conversely (as sets). -/
theorem boxFns_mem_iff (tbl : List (Nat × Nat × Fn)) : (b : FootBox) → FootOk tbl b → ∀ g,
    (g ∈ boxFns b ↔ g ∈ tblFns tbl (linesFrom b.erase none))
  | .para id n lineH st calls => by
    intro hok g
    simp only [FootOk] at hok
    obtain ⟨_, _, _, hcalls, htbl⟩ := hok
    simp only [boxFns, FootBox.erase]
    rw [linesFrom_para_none, tblFns_para tbl id st calls htbl]
    constructor
    · intro h
      simp only [List.mem_map] at h
      obtain ⟨cl, hcl, rfl⟩ := h
      rw [idxFns_mem]
      exact ⟨cl.line, by simp [List.mem_range']; exact hcalls cl hcl, callFn_mem_lineFns st calls cl hcl⟩
    · exact idxFns_sub_calls st calls _ g
  | .block id st kids => by
    intro hok g
    simp only [FootOk] at hok
    simp only [boxFns, FootBox.erase, linesFrom, skipIdxOf_none, subSkipOf_none]
    exact boxFnsList_mem_iff tbl kids hok.2 g
theorem boxFnsList_mem_iff (tbl : List (Nat × Nat × Fn)) : (bs : List FootBox) → FootOkList tbl bs → ∀ g,
    (g ∈ boxFnsList bs ↔ g ∈ tblFns tbl (linesFromKids (eraseList bs) 0 none))
  | [] => by intro _ g; simp [boxFnsList, eraseList, linesFromKids, tblFns]
  | b :: bs => by
    intro hok g
    simp only [FootOkList] at hok
    simp only [boxFnsList, eraseList, linesFromKids, List.mem_append, tblFns_append]
    rw [boxFns_mem_iff tbl b hok.1 g, boxFnsList_mem_iff tbl bs hok.2 g]
end

/-! ### state of the children loop -/

/-- `kids` are the children laid out so far (or finally kept): `act` holds, after `A0`, the footnotes called on
their lines; every footnote of `P0` is pending or one of those; their lines are lines of `Ltot`. -/
structure KState (c : FCtx) (A0 P0 : List Fn) (Ltot : List (Nat × Nat)) (kids : List Frag) (fs : FState) : Prop where
  ok : StOk fs
  hact : act fs = A0 ++ tblFns c.tbl (fragLinesList kids)
  pers : ∀ g ∈ P0, g ∈ fs.pending ∨ g ∈ tblFns c.tbl (fragLinesList kids)
  sub : ∀ l ∈ fragLinesList kids, l ∈ Ltot

def outKids : KidsOutcome → List Frag
  | .finished s => s.newChildren
  | .aborted _ s => s.newChildren
  | .stopped _ s => s.newChildren

theorem fragFns_some (c : FCtx) (f : Frag) : fragFns c (some f) = tblFns c.tbl (fragLines f) := by
  simp [fragFns, flines_eq]

/-- Un-laying-out the fragment just produced restores the state in which its layout started. -/
theorem unlay_restore (c : FCtx) (fs fs1 : FState) (f : Frag) (h : StatePost c fs (some f) fs1) :
    StatePost c fs none (unlayAll c fs1 (tblFns c.tbl (flines f))) ∧
    (∀ g ∈ fs.pending, g ∈ (unlayAll c fs1 (tblFns c.tbl (flines f))).pending) := by
  obtain ⟨h1, h2, h3⟩ := h
  obtain ⟨u1, u2, u3⟩ := unlayAll_spec c (tblFns c.tbl (flines f)) fs1 h1
  have hnd := h1.actnd
  rw [h2, List.nodup_append] at hnd
  have hpend : ∀ g ∈ fs.pending, g ∈ (unlayAll c fs1 (tblFns c.tbl (flines f))).pending := by
    intro g hg
    rw [u3 g]
    rcases h3 g hg with h | h
    · exact Or.inl h
    · exact Or.inr h
  refine ⟨⟨u1, ?_, fun g hg => Or.inl (hpend g hg)⟩, hpend⟩
  simp only [fragFns, List.append_nil]
  rw [u2, h2]
  apply filter_cut
  · intro g hg hG
    exact hnd.2.2 g hg g hG rfl
  · intro g hg; exact hg

theorem firstPassUnlay_keep (c : FCtx) (ctx : Ctx) (bs : Rat) (pienc : Bool) (posY : Rat) (r : LayoutResult)
    (fs fsR : FState) (frag : Option Frag) (y : Rat) (hR : StatePost c fs r.frag fsR)
    (hfp : firstPass ctx bs pienc posY r = .keep frag y) :
    StatePost c fs frag (firstPassUnlay c r (.keep frag y) fsR) := by
  have hk := firstPass_keep _ _ _ _ _ _ _ hfp
  cases hf : r.frag with
  | none =>
    rw [hf] at hR hk
    have : frag = none := by rcases hk with h | h <;> exact h
    subst this
    simp only [firstPassUnlay, unlayFrag, hf]
    exact hR
  | some f =>
    rw [hf] at hR hk
    rcases hk with h | h
    · subst h
      simp only [firstPassUnlay, unlayFrag, hf]
      exact (unlay_restore c fs fsR f hR).1
    · subst h
      simp only [firstPassUnlay]
      exact hR

theorem firstPassUnlay_redo (c : FCtx) (r : LayoutResult) (fs fsR : FState) (bs' : Rat)
    (hR : StatePost c fs r.frag fsR) :
    StatePost c fs none (firstPassUnlay c r (.redo bs') fsR) ∧
    (∀ g ∈ fs.pending, g ∈ (firstPassUnlay c r (.redo bs') fsR).pending) := by
  cases hf : r.frag with
  | none =>
    rw [hf] at hR
    simp only [firstPassUnlay, unlayFrag, hf]
    refine ⟨hR, ?_⟩
    intro g hg
    rcases hR.2.2 g hg with h | h
    · exact h
    · simp [fragFns] at h
  | some f =>
    rw [hf] at hR
    simp only [firstPassUnlay, unlayFrag, hf]
    exact unlay_restore c fs fsR f hR

/-- State after `concludeKid` (+ the footnote effect of `find_earlier_page_break`). `fsB` is the state before the
child was laid out, `fs1` the state after its (kept or discarded) layout. -/
theorem conclude_state (c : FCtx) (A0 P0 : List Fn) (Ltot : List (Nat × Nat)) (index : Nat) (pie : Bool)
    (pb : Brk) (child : PBox) (s2 : KidsLoop) (frag : Option Frag) (resume : Option Resume) (fsB fs1 : FState)
    (hK : KState c A0 P0 Ltot s2.newChildren fsB) (hchild : StatePost c fsB frag fs1)
    (hsubf : ∀ f, frag = some f → ∀ l ∈ fragLines f, l ∈ Ltot) :
    (∀ out s3, concludeKid index pie pb child s2 frag resume = (some out, s3) →
      KState c A0 P0 Ltot (outKids out) (earlierUnlay c pb s2 frag fs1)) ∧
    (∀ s3, concludeKid index pie pb child s2 frag resume = (none, s3) →
      KState c A0 P0 Ltot s3.newChildren fs1) := by
  obtain ⟨c1, c2, c3⟩ := hchild
  cases frag with
  | some f =>
    -- the child is appended
    have hnew : KState c A0 P0 Ltot (s2.newChildren ++ [f.withIdx index]) fs1 := by
      refine ⟨c1, ?_, ?_, ?_⟩
      · rw [c2, hK.hact, fragFns_some, fragLinesList_append]
        simp [fragLinesList, tblFns_append]
      · intro g hg
        rw [fragLinesList_append, tblFns_append]
        simp only [fragLinesList, fragLines_withIdx, List.append_nil, List.mem_append]
        rcases hK.pers g hg with h | h
        · rcases c3 g h with h' | h'
          · exact Or.inl h'
          · rw [fragFns_some] at h'; exact Or.inr (Or.inr h')
        · exact Or.inr (Or.inl h)
      · intro l hl
        rw [fragLinesList_append] at hl
        simp only [fragLinesList, fragLines_withIdx, List.append_nil, List.mem_append] at hl
        rcases hl with h | h
        · exact hK.sub l h
        · exact hsubf f rfl l h
    constructor
    · intro out s3 h
      cases resume with
      | some r' =>
        simp only [concludeKid, Prod.mk.injEq, Option.some.injEq] at h
        obtain ⟨rfl, _⟩ := h
        simpa [outKids, earlierUnlay] using hnew
      | none => simp [concludeKid] at h
    · intro s3 h
      cases resume with
      | some r' => simp [concludeKid] at h
      | none =>
        simp only [concludeKid, Prod.mk.injEq, true_and] at h
        subst h
        exact hnew
  | none =>
    -- nothing fits: the state is the one before the child
    have hsame : KState c A0 P0 Ltot s2.newChildren fs1 := by
      refine ⟨c1, ?_, ?_, hK.sub⟩
      · rw [c2, hK.hact]; simp [fragFns]
      · intro g hg
        rcases hK.pers g hg with h | h
        · rcases c3 g h with h' | h'
          · exact Or.inl h'
          · simp [fragFns] at h'
        · exact Or.inr h
    constructor
    · intro out s3 h
      unfold concludeKid at h
      unfold earlierUnlay
      dsimp only at h ⊢
      by_cases hav : avoidsPage pb = true
      · simp only [hav, ↓reduceIte] at h ⊢
        cases hfe : findEarlierList s2.newChildren with
        | some kr =>
          obtain ⟨kept, r'⟩ := kr
          rw [hfe] at h
          simp only [Prod.mk.injEq, Option.some.injEq] at h
          obtain ⟨rfl, _⟩ := h
          simp only [outKids]
          obtain ⟨t, ht⟩ := findEarlierGo_prefix s2.newChildren kept r' hfe
          have hdrop : (flinesList s2.newChildren).drop (flinesList kept).length = t := by
            rw [flinesList_eq, flinesList_eq, ht, List.drop_left' rfl]
          rw [hdrop]
          obtain ⟨u1, u2, u3⟩ := unlayAll_spec c (tblFns c.tbl t) fs1 hsame.ok
          have hnd := hsame.ok.actnd
          rw [hsame.hact, ht, tblFns_append, ← List.append_assoc, List.nodup_append] at hnd
          refine ⟨u1, ?_, ?_, ?_⟩
          · rw [u2, hsame.hact, ht, tblFns_append, ← List.append_assoc]
            apply filter_cut
            · intro g hg hG; exact hnd.2.2 g hg g hG rfl
            · intro g hg; exact hg
          · intro g hg
            rw [u3 g]
            rcases hsame.pers g hg with h | h
            · exact Or.inl (Or.inl h)
            · rw [ht, tblFns_append, List.mem_append] at h
              rcases h with h | h
              · exact Or.inr h
              · exact Or.inl (Or.inr h)
          · intro l hl
            apply hsame.sub
            rw [ht]; simp [hl]
        | none =>
          rw [hfe] at h
          simp only at h ⊢
          split at h
          · simp only [Prod.mk.injEq, Option.some.injEq] at h
            obtain ⟨rfl, _⟩ := h
            exact hsame
          · split at h
            · simp only [Prod.mk.injEq, Option.some.injEq] at h
              obtain ⟨rfl, _⟩ := h
              exact hsame
            · simp only [Prod.mk.injEq, Option.some.injEq] at h
              obtain ⟨rfl, _⟩ := h
              exact hsame
      · simp only [hav, Bool.false_eq_true, ↓reduceIte, Bool.false_and] at h ⊢
        split at h
        · simp only [Prod.mk.injEq, Option.some.injEq] at h
          obtain ⟨rfl, _⟩ := h
          exact hsame
        · simp only [Prod.mk.injEq, Option.some.injEq] at h
          obtain ⟨rfl, _⟩ := h
          exact hsame
    · intro s3 h
      unfold concludeKid at h
      dsimp only at h
      split at h
      · simp at h
      · split at h
        · simp at h
        · split at h <;> simp at h

/-! ### the block after its children loop -/

theorem finishBlock_cases (c : Ctx) (st : PStyle) (p : Prep) (pie : Bool) (id idx : Nat) (out : KidsOutcome) :
    (∀ page s, out = .aborted page s → (finishBlock c st p pie id idx out).frag = none) ∧
    (∀ resume s, out = .stopped resume s →
      (dropped st pie (forgetIfFixed st p.b s.posY resume) = true → (finishBlock c st p pie id idx out).frag = none) ∧
      (dropped st pie (forgetIfFixed st p.b s.posY resume) = false →
        ∃ g, (finishBlock c st p pie id idx out).frag = some (.block id idx st g s.newChildren))) ∧
    (∀ s, out = .finished s → ∃ g, (finishBlock c st p pie id idx out).frag = some (.block id idx st g s.newChildren)) := by
  refine ⟨?_, ?_, ?_⟩
  · intro page s h; subst h; simp [finishBlock, abortResult]
  · intro resume s h; subst h
    simp only [finishBlock]
    unfold finishContainer dropped
    constructor
    · intro hd; rw [if_pos hd]
    · intro hd; rw [if_neg (by simp [hd])]; exact ⟨_, rfl⟩
  · intro s h; subst h
    simp only [finishBlock]
    unfold finishContainer
    simp

/-- Un-laying-out a list `G` of footnotes that were all pending on entry and that covers what the kept children
took restores the entry state. -/
theorem unlay_all_state (c : FCtx) (fs fs' : FState) (Ltot : List (Nat × Nat)) (K : List Frag) (G : List Fn)
    (hst : StOk fs) (hK : KState c (act fs) fs.pending Ltot K fs')
    (hG1 : ∀ g ∈ G, g ∈ fs.pending) (hG2 : ∀ g ∈ tblFns c.tbl (fragLinesList K), g ∈ G) :
    StatePost c fs none (unlayAll c fs' G) := by
  obtain ⟨u1, u2, u3⟩ := unlayAll_spec c G fs' hK.ok
  refine ⟨u1, ?_, ?_⟩
  · simp only [fragFns, List.append_nil]
    rw [u2, hK.hact]
    apply filter_cut _ _ _ _ hG2
    intro g hg hG
    exact hst.disj g hg (hG1 g hG)
  · intro g hg
    left
    rw [u3 g]
    rcases hK.pers g hg with h | h
    · exact Or.inl h
    · exact Or.inr (hG2 g h)

theorem linesFrom_block (id : Nat) (st : PStyle) (kids : List PBox) (skip : Option Resume) :
    linesFrom (.block id st kids) skip = linesFromKids (kids.drop (skipIdxOf skip)) 0 (subSkipOf skip) := by
  simp only [linesFrom]
  have := linesFromKids_drop kids (skipIdxOf skip) 0 (subSkipOf skip)
  simpa using this

theorem finishBlockF_state (c : FCtx) (id : Nat) (st : PStyle) (kids : List FootBox)
    (hok : FootOkList c.tbl kids) (p : Prep) (pie : Bool) (idx : Nat) (skip : Option Resume) (out : KidsOutcome)
    (fs fs' : FState) (hskip : skip.isSome = true → pie = true) (hst : StOk fs)
    (hP : ∀ g ∈ tblFns c.tbl (linesFrom (FootBox.block id st kids).erase skip), g ∈ fs.pending)
    (hK : KState c (act fs) fs.pending (linesFrom (FootBox.block id st kids).erase skip) (outKids out) fs')
    (hab : ∀ page s, out = .aborted page s → pie = false) :
    StatePost c fs (finishBlockF c st (dropKids kids (skipIdxOf skip)) p pie id idx out fs').r.frag
      (finishBlockF c st (dropKids kids (skipIdxOf skip)) p pie id idx out fs').fs := by
  obtain ⟨hc1, hc2, hc3⟩ := finishBlock_cases (ctxOf c fs') st p pie id idx out
  -- every call of the block, when the block is new on this page
  have hall : pie = false → ∀ G : List Fn,
      (∀ g ∈ G, g ∈ tblFns c.tbl (fragLinesList (outKids out)) ∨ g ∈ boxFnsList (dropKids kids (skipIdxOf skip))) →
      (∀ g ∈ tblFns c.tbl (fragLinesList (outKids out)), g ∈ G) →
      StatePost c fs none (unlayAll c fs' G) := by
    intro hpie G hG1 hG2
    have hsk : skip = none := by
      cases skip with
      | none => rfl
      | some x => have := hskip rfl; rw [hpie] at this; cases this
    subst hsk
    apply unlay_all_state c fs fs' _ _ G hst hK _ hG2
    intro g hg
    apply hP
    rcases hG1 g hg with h | h
    · exact tblFns_sub c.tbl _ _ hK.sub g h
    · simp only [skipIdxOf_none, dropKids] at h
      rw [boxFnsList_mem_iff c.tbl kids hok g] at h
      simpa [FootBox.erase, linesFrom] using h
  simp only [finishBlockF_r]
  cases out with
  | aborted page s =>
    simp only [finishBlockF]
    rw [hc1 page s rfl]
    apply hall (hab page s rfl)
    · intro g hg
      simp only [List.mem_append] at hg
      rcases hg with h | h
      · left; simpa [outKids, flinesList_eq] using h
      · exact Or.inr h
    · intro g hg
      simp only [List.mem_append]
      left; simpa [outKids, flinesList_eq] using hg
  | stopped resume s =>
    obtain ⟨hd1, hd2⟩ := hc2 resume s rfl
    simp only [finishBlockF]
    rw [show outResume st p (KidsOutcome.stopped resume s) = forgetIfFixed st p.b s.posY resume from rfl]
    by_cases hdr : dropped st pie (forgetIfFixed st p.b s.posY resume) = true
    · rw [if_pos hdr, hd1 hdr]
      have hpie : pie = false := by
        unfold dropped at hdr
        simp only [Bool.and_eq_true, Bool.not_eq_true'] at hdr
        exact hdr.2
      apply hall hpie
      · intro g hg
        simp only [List.mem_append] at hg
        rcases hg with h | h
        · left; simpa [outKids, flinesList_eq] using h
        · exact Or.inr h
      · intro g hg
        simp only [List.mem_append]
        left; simpa [outKids, flinesList_eq] using hg
    · rw [if_neg hdr]
      obtain ⟨geo, hfr⟩ := hd2 (by simpa using hdr)
      rw [hfr]
      have hff : fragFns c (some (Frag.block id idx st geo s.newChildren)) =
          tblFns c.tbl (fragLinesList (outKids (KidsOutcome.stopped resume s))) := by
        simp [fragFns, flines, flinesList_eq, outKids]
      exact ⟨hK.ok, by rw [hff]; exact hK.hact, by rw [hff]; exact hK.pers⟩
  | finished s =>
    obtain ⟨geo, hfr⟩ := hc3 s rfl
    simp only [finishBlockF]
    rw [hfr]
    have hff : fragFns c (some (Frag.block id idx st geo s.newChildren)) =
        tblFns c.tbl (fragLinesList (outKids (KidsOutcome.finished s))) := by
      simp [fragFns, flines, flinesList_eq, outKids]
    exact ⟨hK.ok, by rw [hff]; exact hK.hact, by rw [hff]; exact hK.pers⟩

end Wp.PMF
