/-
`find_earlier_page_break` on fragments that may be incomplete under fixed heights: what is kept plus what
the returned resume position designates is sandwiched between the free lines and all lines that were there,
and the position is strictly later.
-/
import WpModel.Lemmas.LossyDefs
import WpModel.Lemmas.Pm2Break

namespace Wp.PM
open Wp

/-- Splitting a paragraph after `m` of its lines from the start position. -/
theorem para_sandT (id n : Nat) (lh : Rat) (st : PStyle) (σ ρ : Option Resume) (fl : Bool)
    (kept : List (Nat × Rat)) (m : Nat) (hk : kept.map Prod.fst = List.range' (paraStart σ) m)
    (hρ : paraStart ρ = paraStart σ + m) (hle : paraStart σ + m ≤ n) :
    SandT fl (kept.map (fun l => (id, l.1))) (linesFrom (.para id n lh st) ρ) (freeFrom (.para id n lh st) ρ)
      (linesFrom (.para id n lh st) σ) (freeFrom (.para id n lh st) σ) := by
  have hsplit : kept.map (fun l => (id, l.1)) ++ paraLines id (paraStart ρ) n = paraLines id (paraStart σ) n := by
    rw [hρ, ← paraLines_split id (paraStart σ) m n hle, ← hk, List.map_map]
    rfl
  constructor
  · intro _
    simp only [freeFrom]
    split
    · simp
    · rw [hsplit]; exact List.Sublist.refl _
  · simp only [linesFrom]
    rw [hsplit]; exact List.Sublist.refl _

theorem findEarlierPara_specT (id idx : Nat) (st : PStyle) (n : Nat) (g : Geo) (lines : List (Nat × Rat))
    (k m0 : Nat) (x' : Frag) (r : Resume) (hw : 1 ≤ st.widows)
    (hl : lines.map Prod.fst = List.range' k m0) (hn : k + m0 ≤ n)
    (h : findEarlierPara id idx st n g lines = some (x', r)) :
    ∃ m kept, 1 ≤ m ∧ m < m0 ∧ r = .node 0 (some (.line (k + m))) ∧
      x' = .para id idx st n g kept ∧ kept.map Prod.fst = List.range' k m := by
  unfold findEarlierPara at h
  have hlen : lines.length = m0 := by
    have := congrArg List.length hl
    simpa using this
  split at h
  · cases h
  · dsimp only at h
    split at h
    · cases h
    · rename_i hidx
      split at h
      · rename_i i y hlast
        simp only [Option.some.injEq, Prod.mk.injEq] at h
        obtain ⟨rfl, rfl⟩ := h
        have hm : ((lines.length : Int) - (st.widows : Int)).toNat = lines.length - st.widows := by omega
        have hkept : (lines.take (lines.length - st.widows)).map Prod.fst =
            List.range' k (lines.length - st.widows) := by
          rw [List.map_take, hl]
          exact range'_take _ _ _ (by omega)
        rw [hm] at hlast
        have hi := last_of_range' _ _ _ _ _ hkept hlast
        have hpos : 1 ≤ lines.length - st.widows := by
          rcases Nat.eq_zero_or_pos (lines.length - st.widows) with h0 | h0
          · rw [h0] at hlast; simp at hlast
          · exact h0
        refine ⟨lines.length - st.widows, lines.take (lines.length - st.widows), hpos, by omega, ?_, ?_, hkept⟩
        · have : k + (lines.length - st.widows) < n := by omega
          simp [lineResume, this, hi]
        · rw [hm]
      · cases h

/-- Post-condition of `findEarlierGo` on fragments `fs` of (a prefix of) the boxes `bs`. -/
def EarlierPostT (bs : List PBox) (i : Nat) (sub : Option Resume) (fl : Bool) (kept : List Frag) (r : Resume) : Prop :=
  ∃ m sub', r = .node (i + m) sub' ∧ m < bs.length ∧ PartFromT kept bs i sub true ∧
    SandT fl (fragLinesList kept) (linesFromKids bs m sub') (freeFromKids bs m sub')
      (linesFromKids bs 0 sub) (freeFromKids bs 0 sub) ∧
    posKids bs 0 sub < posKids bs m sub'

theorem partFromT_single (x : Frag) (b : PBox) (bs : List PBox) (i : Nat) (sub : Option Resume)
    (h : PartT x b sub true) (hi : x.idx = i) : PartFromT [x] (b :: bs) i sub true := by
  simp only [PartFromT]
  exact ⟨h, hi, by simp⟩

mutual
theorem findEarlierGo_specT : (fs : List Frag) → ∀ (bs : List PBox) (i : Nat) (sub : Option Resume) (fl : Bool),
    WellFormedList bs → PartFromT fs bs i sub fl →
    ∀ kept r, (findEarlierGo fs).found = some (kept, r) → EarlierPostT bs i sub fl kept r
  | [] => by
    intro bs i sub fl _ _ kept r h
    simp [findEarlierGo] at h
  | x :: xs => by
    intro bs i sub fl hg hf kept r h
    cases bs with
    | nil => simp [PartFromT] at hf
    | cons b bs' =>
      simp only [PartFromT] at hf
      obtain ⟨hx, hxi, hxs⟩ := hf
      simp only [WellFormedList] at hg
      obtain ⟨hgb, hgbs⟩ := hg
      have hxsub := partT_sub x b sub fl hx
      have hxfree : fl = false → (freeFrom b sub).Sublist (fragLines x) := by
        intro hfl; subst hfl; exact partT_free x b sub hx
      rw [findEarlierGo] at h
      dsimp only at h
      split at h
      · -- a break was found among the later siblings
        rename_i kept0 r0 hfound
        simp only [Option.some.injEq, Prod.mk.injEq] at h
        obtain ⟨rfl, rfl⟩ := h
        obtain ⟨m, sub', hr, hm, hshape, hsand, hpos⟩ :=
          findEarlierGo_specT xs bs' (i + 1) none fl hgbs hxs kept0 r0 hfound
        refine ⟨m + 1, sub', by rw [hr]; congr 1; omega, by simp; omega, ?_, ?_, ?_⟩
        · simp only [PartFromT]
          exact ⟨partT_mono x b sub fl hx, hxi, hshape⟩
        · simp only [fragLinesList, linesFromKids, freeFromKids]
          exact sandT_whole_append fl _ _ _ _ _ _ _ _ hxfree hxsub hsand
        · simp only [posKids]
          have := pos_lt_size b sub
          omega
      · rename_i hnone
        have hprev := findEarlierGo_prev xs hnone
        split at h
        · -- break after x
          rename_i p hba
          simp only [Option.some.injEq, Prod.mk.injEq] at h
          obtain ⟨rfl, rfl⟩ := h
          have hp : xs.head? = some p := by
            rw [← hprev]
            split at hba
            · rename_i p' hp'
              split at hba
              · simp only [Option.some.injEq] at hba; rw [hp', hba]
              · cases hba
            · cases hba
          cases xs with
          | nil => simp at hp
          | cons p' xs' =>
            simp only [List.head?_cons, Option.some.injEq] at hp
            subst hp
            cases bs' with
            | nil => simp [PartFromT] at hxs
            | cons b1 bs'' =>
              simp only [PartFromT] at hxs
              refine ⟨1, none, by rw [hxs.2.1], by simp, partFromT_single x b _ i sub (partT_mono x b sub fl hx) hxi, ?_, ?_⟩
              · simp only [fragLinesList, linesFromKids, freeFromKids, List.append_nil]
                have := sandT_whole_append fl (fragLines x) (linesFrom b sub) (freeFrom b sub) []
                  (linesFrom b1 none ++ linesFromKids bs'' 0 none) (freeFrom b1 none ++ freeFromKids bs'' 0 none)
                  _ _ hxfree hxsub (sandT_rest fl _ _)
                simpa using this
              · simp only [posKids]
                have := pos_lt_size b sub
                omega
        · split at h
          · split at h
            · -- break inside x
              rename_i x' r1 hfe
              simp only [Option.some.injEq, Prod.mk.injEq] at h
              obtain ⟨rfl, rfl⟩ := h
              obtain ⟨hshape, hidx', hsand, hp⟩ := findEarlierFrag_specT x b sub fl hgb hx x' r1 hfe
              refine ⟨0, some r1, by rw [hxi]; rfl, by simp,
                partFromT_single x'.cutEnd b _ i sub (partT_cutEnd _ _ _ _ hshape) (by rw [idx_cutEnd, hidx', hxi]),
                ?_, ?_⟩
              · simp only [fragLinesList, linesFromKids, freeFromKids, List.append_nil, fragLines_cutEnd]
                exact sandT_frame fl _ _ _ _ _ _ _ hsand
              · simpa only [posKids] using hp
            · simp at h
          · simp at h
theorem findEarlierFrag_specT : (x : Frag) → ∀ (b : PBox) (σ : Option Resume) (fl : Bool), WellFormed b →
    PartT x b σ fl → ∀ x' r, findEarlierFrag x = some (x', r) →
    PartT x' b σ true ∧ x'.idx = x.idx ∧
    SandT fl (fragLines x') (linesFrom b (some r)) (freeFrom b (some r)) (linesFrom b σ) (freeFrom b σ) ∧
    pos b σ < pos b (some r)
  | .para id idx st n g lines => by
    intro b σ fl hg hf x' r h
    cases b with
    | block _ _ _ => simp [PartT] at hf
    | para id' n' lh st' =>
      simp only [PartT] at hf
      obtain ⟨rfl, rfl, rfl, m0, hl, hle, _⟩ := hf
      simp only [WellFormed] at hg
      simp only [findEarlierFrag] at h
      have hne : m0 ≠ 0 := by
        intro h0
        subst h0
        have : lines = [] := by simpa using hl
        subst this
        simp [findEarlierPara] at h
      have hn : paraStart σ + m0 ≤ n := by omega
      obtain ⟨m, kept, hm1, hmn, rfl, rfl, hk⟩ :=
        findEarlierPara_specT id idx st n g lines (paraStart σ) m0 x' r hg.2 hl hn h
      have hρ : paraStart (some (Resume.node 0 (some (Resume.line (paraStart σ + m))))) = paraStart σ + m := rfl
      refine ⟨?_, rfl, ?_, ?_⟩
      · simp only [PartT, true_and]
        exact ⟨m, hk, by omega, by simp⟩
      · simp only [fragLines]
        exact para_sandT id n lh st σ _ fl kept m hk hρ (by omega)
      · simp only [pos]
        rw [hρ]
        omega
  | .block id idx st g kids => by
    intro b σ fl hg hf x' r h
    cases b with
    | para _ _ _ _ => simp [PartT] at hf
    | block id' st' bkids =>
      simp only [PartT] at hf
      simp only [WellFormed] at hg
      simp only [findEarlierFrag] at h
      split at h
      · rename_i kids' r0 hfound
        simp only [Option.some.injEq, Prod.mk.injEq] at h
        obtain ⟨rfl, rfl⟩ := h
        have hgd : WellFormedList (bkids.drop (skipIdxOf σ)) := wfList_drop bkids _ hg
        obtain ⟨m, sub', rfl, hm, hshape, hsand, hpos⟩ :=
          findEarlierGo_specT kids _ _ _ _ hgd hf kids' r0 hfound
        refine ⟨?_, rfl, ?_, ?_⟩
        · simp only [PartT]
          simpa using hshape
        · have hd1 := linesFromKids_drop bkids (skipIdxOf σ) m sub'
          have hd2 := linesFromKids_drop bkids (skipIdxOf σ) 0 (subSkipOf σ)
          have hd3 := freeFromKids_drop bkids (skipIdxOf σ) m sub'
          have hd4 := freeFromKids_drop bkids (skipIdxOf σ) 0 (subSkipOf σ)
          simp only [Nat.add_zero] at hd2 hd4
          constructor
          · intro hfl
            subst hfl
            simp only [fragLines, freeFrom, skipIdxOf_node, subSkipOf_node]
            cases hfx : fixedSt st' with
            | true => simp
            | false =>
              simp only [Bool.false_eq_true, ↓reduceIte]
              rw [hd3, hd4]
              rw [hfx] at hsand
              exact hsand.1 rfl
          · simp only [fragLines, linesFrom, skipIdxOf_node, subSkipOf_node]
            rw [hd1, hd2]
            exact hsand.2
        · simp only [pos, skipIdxOf_node, subSkipOf_node]
          rw [posKids_drop]
          have := posKids_drop bkids (skipIdxOf σ) 0 (subSkipOf σ)
          simp only [Nat.add_zero] at this
          rw [this]
          omega
      · cases h
end

end Wp.PM
