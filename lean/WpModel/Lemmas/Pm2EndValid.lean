/-
For documents without fixed heights: a layout that returns no resume position returns a fragment that ends
like its box (`EndOk`: same `break-after` chain, same last page name — so `meetBreak` on the fragment reads the
source values), and a layout that returns a resume position returns a valid one.
-/
import WpModel.Lemmas.Pm2Break
import WpModel.Lemmas.Geometry

namespace Wp.PM
open Wp

def outResume : KidsOutcome → Option Resume
  | .stopped ρ _ => ρ
  | _ => none

/-- Shape, resume position and pending break of what `finishBlock` returns (no fixed height). -/
theorem finishBlock_shape (c : Ctx) (st : PStyle) (p : Prep) (pie : Bool) (id idx : Nat) (out : KidsOutcome)
    (f : Frag) (hh : st.height = none) (h : (finishBlock c st p pie id idx out).frag = some f) :
    (∃ g, f = .block id idx st g out.state.newChildren) ∧
    (finishBlock c st p pie id idx out).resume = outResume out ∧
    (∀ pg, out.state.nextPage.page = some pg → (finishBlock c st p pie id idx out).nextPage = out.state.nextPage) := by
  refine ⟨finishBlock_frag _ _ _ _ _ _ _ _ h, ?_, ?_⟩
  · cases out with
    | aborted page s => simp [finishBlock, abortResult] at h
    | stopped resume s =>
      simp only [finishBlock] at h ⊢
      rw [(finishContainer_frag _ _ _ _ _ _ _ _ _ _ _ _ _ _ _ _ _ _ h).2, forgetIfFixed_none _ _ _ _ hh]
      rfl
    | finished s =>
      simp only [finishBlock] at h ⊢
      rw [(finishContainer_frag _ _ _ _ _ _ _ _ _ _ _ _ _ _ _ _ _ _ h).2]
      rfl
  · intro pg hpg
    cases out with
    | aborted page s => simp [finishBlock, abortResult] at h
    | stopped resume s =>
      simp only [KidsOutcome.state] at hpg
      simp only [finishBlock, finishContainer] at h ⊢
      split
      · rename_i hc; rw [if_pos hc] at h; cases h
      · simp [hpg, KidsOutcome.state]
    | finished s =>
      simp only [KidsOutcome.state] at hpg
      simp only [finishBlock, finishContainer] at h ⊢
      split
      · rename_i hc; rw [if_pos hc] at h; cases h
      · simp [hpg, KidsOutcome.state]

/-- What the children loop guarantees about the end of the children and about the resume position. -/
def KidsEV (all fin : List PBox) : KidsOutcome → Prop
  | .finished s' => EndOkLast s'.newChildren fin
  | .aborted _ _ => True
  | .stopped ρ _ => ValidKids all (skipIdxOf ρ) (subSkipOf ρ)

theorem validKids_at (pre B : List PBox) (child : PBox) (rest : List PBox) (index i0 : Nat) (sub : Option Resume)
    (hpre : pre.length = i0) (hidx : index = i0 + B.length) (hv : Valid child sub) :
    ValidKids (pre ++ (B ++ child :: rest)) index sub := by
  rw [hidx, ← hpre, validKids_append]
  have := (validKids_append B (child :: rest) 0 sub).mpr (by simpa [ValidKids] using hv)
  simpa using this

theorem conclude_ev (index : Nat) (pie : Bool) (pb : Brk) (child : PBox) (s : KidsLoop)
    (frag : Option Frag) (resume : Option Resume) (pre B rest fin : List PBox) (i0 : Nat) (sub0 : Option Resume)
    (hinv : FullFrom s.newChildren B i0 sub0) (hidx : index = i0 + B.length) (hpre : pre.length = i0)
    (hBv : ∀ b, B.head? = some b → Valid b sub0)
    (hres : ∀ f ρ, frag = some f → resume = some ρ → Valid child (some ρ)) :
    ∀ out s3, concludeKid index pie pb child s frag resume = (some out, s3) →
      KidsEV (pre ++ (B ++ child :: rest)) fin out := by
  intro out s3 h
  cases frag with
  | none =>
    unfold concludeKid at h
    dsimp only at h
    split at h
    · rename_i kept r' hearlier
      simp only [Prod.mk.injEq, Option.some.injEq] at h
      obtain ⟨rfl, _⟩ := h
      have hfound : (findEarlierGo s.newChildren).found = some (kept, r') := by
        split at hearlier
        · exact hearlier
        · cases hearlier
      obtain ⟨m, sub', rfl, hm⟩ := findEarlierGo_valid _ _ _ _ hinv hBv kept r' hfound
      simp only [KidsEV, skipIdxOf_node, subSkipOf_node]
      rw [← hpre, validKids_append]
      exact validKids_append_left _ _ _ _ hm
    · split at h
      · simp only [Prod.mk.injEq, Option.some.injEq] at h
        obtain ⟨rfl, _⟩ := h
        trivial
      · split at h
        · simp only [Prod.mk.injEq, Option.some.injEq] at h
          obtain ⟨rfl, _⟩ := h
          simp only [KidsEV, skipIdxOf_node, subSkipOf_node]
          exact validKids_at pre B child rest index i0 none hpre hidx (valid_none child)
        · simp only [Prod.mk.injEq, Option.some.injEq] at h
          obtain ⟨rfl, _⟩ := h
          trivial
  | some f =>
    cases resume with
    | some r' =>
      simp only [concludeKid, Prod.mk.injEq, Option.some.injEq] at h
      obtain ⟨rfl, _⟩ := h
      simp only [KidsEV, skipIdxOf_node, subSkipOf_node]
      exact validKids_at pre B child rest index i0 (some r') hpre hidx (hres f r' rfl rfl)
    | none => simp [concludeKid] at h

/-- The continuing case of `concludeKid`: the child was appended. -/
theorem conclude_continue (index : Nat) (pie : Bool) (pb : Brk) (child : PBox) (s : KidsLoop)
    (frag : Option Frag) (resume : Option Resume) (s3 : KidsLoop)
    (h : concludeKid index pie pb child s frag resume = (none, s3)) :
    ∃ f, frag = some f ∧ resume = none ∧ s3 = { s with newChildren := s.newChildren ++ [f.withIdx index] } := by
  cases frag with
  | none =>
    unfold concludeKid at h
    dsimp only at h
    split at h
    · simp at h
    · split at h
      · simp at h
      · split at h <;> simp at h
  | some f =>
    cases resume with
    | some r' => simp [concludeKid] at h
    | none =>
      simp only [concludeKid, Prod.mk.injEq, true_and] at h
      exact ⟨f, rfl, rfl, h.symm⟩

mutual
/-- **`EndOk` / valid resume positions of `block_level_layout`** (no fixed heights, `orphans, widows ≥ 1`,
valid skip position). -/
theorem box_ev : (box : PBox) → Good box → ∀ (c : Ctx) (idx : Nat) (y bs : Rat) (skip : Option Resume)
    (cb pie : Bool) (adjL : List Rat), Valid box skip →
    ∀ f, (layoutBox c box idx y bs skip cb pie adjL).frag = some f →
      ((layoutBox c box idx y bs skip cb pie adjL).resume = none → EndOk f box) ∧
      (∀ ρ, (layoutBox c box idx y bs skip cb pie adjL).resume = some ρ → Valid box (some ρ))
  | .para id n lineH st => by
    intro _ c idx y bs skip cb pie adjL _ f hf
    simp only [layoutBox] at hf
    obtain ⟨g, rfl⟩ := finishPara_frag' _ _ _ _ _ _ _ _ _ hf
    exact ⟨fun _ => ⟨rfl, rfl⟩, fun _ _ => by simp [Valid]⟩
  | .block id st kids => by
    intro hg c idx y bs skip cb pie adjL hv f hf
    simp only [Good] at hg
    simp only [layoutBox] at hf ⊢
    obtain ⟨⟨g, rfl⟩, hres, _⟩ := finishBlock_shape _ _ _ _ _ _ _ _ hg.1 hf
    rw [hres]
    cases kids with
    | nil =>
      simp only [layoutKids, outResume, KidsOutcome.state, true_implies]
      exact ⟨⟨rfl, rfl⟩, by intro ρ h; cases h⟩
    | cons k0 ks =>
    have hvk : ValidKids (k0 :: ks) (skipIdxOf skip) (subSkipOf skip) := by
      simp only [Valid] at hv
      rcases hv with hv | hv
      · cases hv
      · exact hv
    have hlt := validKids_lt _ _ _ hvk
    have hk := kids_ev (k0 :: ks) hg.2 c st ((k0 :: ks).take (skipIdxOf skip)) [] (skipIdxOf skip) (subSkipOf skip) 0
      (skipIdxOf skip) (prepare c st y bs skip cb pie adjL).bs pie
      { newChildren := [], posY := (prepare c st y bs skip cb pie adjL).posY,
        adjL := (prepare c st y bs skip cb pie adjL).adjL, cur := (prepare c st y bs skip cb pie adjL).cur,
        curIsL := (prepare c st y bs skip cb pie adjL).curIsL,
        nextPage := { brk := none, page := none }, skip := subSkipOf skip }
      (by simp [GoodList]) (by simp [FullFrom]) endOkLast_nil (by intro _; exact ⟨rfl, rfl⟩)
      (by intro h; simp; omega) (by simp)
      (by rw [List.length_take]; omega)
      (by intro b hb; simp at hb)
      (by
        intro _ child hc
        obtain ⟨b', hb', hvb⟩ := validKids_get _ _ _ hvk
        simp only [Nat.sub_zero, List.head?_drop, hb', Option.some.injEq] at hc
        subst hc; exact hvb)
    have hpost := kids_spec (k0 :: ks) hg.2 c st [] (skipIdxOf skip) (subSkipOf skip) 0 (skipIdxOf skip)
      (prepare c st y bs skip cb pie adjL).bs pie
      { newChildren := [], posY := (prepare c st y bs skip cb pie adjL).posY,
        adjL := (prepare c st y bs skip cb pie adjL).adjL, cur := (prepare c st y bs skip cb pie adjL).cur,
        curIsL := (prepare c st y bs skip cb pie adjL).curIsL,
        nextPage := { brk := none, page := none }, skip := subSkipOf skip }
      (by simp [GoodList]) (by simp [FullFrom]) (by intro _; exact ⟨rfl, rfl⟩) (by intro h; simp; omega)
      (by simp)
    simp only [List.nil_append, Nat.sub_zero, List.take_append_drop] at hk hpost
    generalize layoutKids c st (k0 :: ks) 0 (skipIdxOf skip) _ pie _ = out at hk hf hres hpost ⊢
    cases out with
    | aborted page s => simp [finishBlock, abortResult] at hf
    | finished s' =>
      simp only [KidsEV] at hk
      simp only [outResume, KidsOutcome.state, true_implies]
      refine ⟨?_, by intro ρ h; cases h⟩
      unfold EndOk
      simp only [fragAfterChain, boxAfterChain, fragPageEnd, boxPageEnd]
      have hne : (k0 :: ks).drop (skipIdxOf skip) ≠ [] := by
        intro he
        have := congrArg List.length he
        simp at this; simp at hlt; omega
      have h1 := boxAfterChainLast_append ((k0 :: ks).take (skipIdxOf skip)) _ hne
      have h2 := boxPageEndLast_append ((k0 :: ks).take (skipIdxOf skip)) _ hne
      rw [List.take_append_drop] at h1 h2
      rw [hk.1, hk.2, ← h1, ← h2]
      exact ⟨rfl, rfl⟩
    | stopped ρ s' =>
      simp only [KidsEV] at hk
      simp only [outResume]
      refine ⟨fun h => ?_, fun ρ' h => ?_⟩
      · subst h
        obtain ⟨m, hsome, _⟩ := hpost
        simp at hsome
      · subst h
        simp only [Valid]
        right; exact hk
theorem kids_ev : (rest : List PBox) → GoodList rest → ∀ (c : Ctx) (st : PStyle) (pre B : List PBox) (i0 : Nat)
    (sub0 : Option Resume) (index skipIdx : Nat) (bs : Rat) (pie : Bool) (s : KidsLoop),
    GoodList B → FullFrom s.newChildren B i0 sub0 → EndOkLast s.newChildren B →
    (index < skipIdx → B = [] ∧ i0 = skipIdx) → (skipIdx ≤ index → index = i0 + B.length) →
    s.skip = (if B = [] then sub0 else none) → pre.length = i0 →
    (∀ b, B.head? = some b → Valid b sub0) →
    (B = [] → ∀ child, (rest.drop (skipIdx - index)).head? = some child → Valid child sub0) →
    KidsEV (pre ++ (B ++ rest.drop (skipIdx - index))) (B ++ rest.drop (skipIdx - index))
      (layoutKids c st rest index skipIdx bs pie s)
  | [] => by
    intro _ c st pre B i0 sub0 index skipIdx bs pie s _ _ hend _ _ _ _ _ _
    simpa [layoutKids, KidsEV] using hend
  | child :: rest => by
    intro hg c st pre B i0 sub0 index skipIdx bs pie s hgB hinv hend hlt hge hskip hpre hBv hcv
    simp only [GoodList] at hg
    by_cases hc : index < skipIdx
    · rw [layoutKids_skip _ _ _ _ _ _ _ _ _ hc]
      obtain ⟨hB, hi0⟩ := hlt hc
      have hd : (child :: rest).drop (skipIdx - index) = rest.drop (skipIdx - (index + 1)) := by
        have : skipIdx - index = (skipIdx - (index + 1)) + 1 := by omega
        rw [this, List.drop_succ_cons]
      rw [hd] at hcv ⊢
      exact kids_ev rest hg.2 c st pre B i0 sub0 (index + 1) skipIdx bs pie s hgB hinv hend
        (fun _ => ⟨hB, hi0⟩) (by intro _; subst hB; simp; omega) hskip hpre hBv hcv
    · rw [layoutKids_cons _ _ _ _ _ _ _ _ _ hc]
      have hidx := hge (by omega)
      have hd : skipIdx - index = 0 := by omega
      rw [hd, List.drop_zero] at hcv ⊢
      split
      · simp only [KidsEV, skipIdxOf_node, subSkipOf_node]
        exact validKids_at pre B child rest index i0 none hpre hidx (valid_none child)
      · obtain ⟨bs', adj, hR, hfr, hnc, _, hsk⟩ := kidResult_spec c st child index bs pie s
        generalize kidResult c st child index bs pie s = kr at hR hfr hnc hsk ⊢
        obtain ⟨frag, R, s2⟩ := kr
        simp only at hR hfr hnc hsk ⊢
        have hvchild : Valid child s.skip := by
          rw [hskip]
          split
          · rename_i hB; exact hcv hB child rfl
          · exact valid_none child
        have hbev := box_ev child hg.1 c index s.posY bs' s.skip st.isRoot (pie && s.newChildren.isEmpty) adj hvchild
        rw [← hR] at hbev
        have hchild : BoxPost child (if B = [] then sub0 else none) frag R.resume := by
          rcases hfr with h | h
          · rw [h]; exact boxPost_none _ _ _
          · rw [h, hR, ← hskip]; exact box_spec child hg.1 _ _ _ _ _ _ _ _
        have hinv2 : FullFrom s2.newChildren B i0 sub0 := by rw [hnc]; exact hinv
        split
        · rename_i out s3 heq
          refine conclude_ev _ _ _ _ _ _ _ pre B rest _ i0 sub0 hinv2 hidx hpre hBv ?_ out s3 heq
          intro f ρ hf hρ
          rcases hfr with h | h
          · rw [h] at hf; cases hf
          · rw [h] at hf; exact (hbev f hf).2 ρ hρ
        · rename_i s3 heq
          have hcs := (conclude_spec _ _ _ _ _ _ _ B rest i0 sub0 hgB hinv2 hidx hchild).2 s3 heq
          obtain ⟨f, hf, hrn, hs3⟩ := conclude_continue _ _ _ _ _ _ _ _ heq
          have hfe : EndOk f child := by
            rcases hfr with h | h
            · rw [h] at hf; cases hf
            · rw [h] at hf; exact (hbev f hf).1 hrn
          have hend3 : EndOkLast s3.newChildren (B ++ [child]) := by
            rw [hs3, hnc]
            apply endOkLast_snoc
            unfold EndOk at hfe ⊢
            simpa using hfe
          have := kids_ev rest hg.2 c st pre (B ++ [child]) i0 sub0 (index + 1) skipIdx bs pie s3
            (goodList_append _ _ hgB (by simp [GoodList, hg.1])) hcs.1 hend3 (by intro _; omega)
            (by intro _; simp; omega) (by simp [hcs.2, hsk]) hpre
            (by
              intro b hb
              cases B with
              | nil => simp at hb; subst hb; exact hcv rfl child rfl
              | cons b0 B' => simp at hb; subst hb; exact hBv b0 rfl)
            (by intro h; simp at h)
          have hd' : skipIdx - (index + 1) = 0 := by omega
          simpa [hd'] using this
end

end Wp.PM
