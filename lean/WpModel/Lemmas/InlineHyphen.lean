/-
Lemmas for the C09 strengthening round: dictionary hyphenation (`Model/Hyphenate.lean`) and nested
inline boxes (`Model/InlineRun.lean`).  Core Lean only.
-/
import WpModel.Model.Hyphenate
import WpModel.Model.InlineRun

namespace Wp.C09L
open Wp Wp.Py Wp.Pango Wp.LB

/-- the loop over the dictionary's first parts only ever picks one of them -/
theorem tryParts_spec (st : Style) (cfg : Hy.Cfg) (maxW : MaxW) (pre word : Text) :
    ∀ (parts : List Nat),
      (∀ s t, Hy.tryParts st cfg maxW pre word parts = (some s, t) →
        s.hyphenated = true ∧ ∃ k ∈ parts, s.ri = some (pre ++ word.take k).length) ∧
      (∀ t, (Hy.tryParts st cfg maxW pre word parts).2 = some t → ∃ k ∈ parts, t = pre ++ word.take k)
  | [] => by
    constructor
    · intro s t h; simp [Hy.tryParts] at h
    · intro t h; simp [Hy.tryParts] at h
  | k :: rest => by
    have ih := tryParts_spec st cfg maxW pre word rest
    have hunf : Hy.tryParts st cfg maxW pre word (k :: rest) =
        if (firstLine st.fs (createLayout st (pre ++ word.take k ++ cfg.hchar) maxW)).resume.isNone &&
            (Hy.spaceLeft maxW (firstLine st.fs (createLayout st (pre ++ word.take k ++ cfg.hchar) maxW)).width ||
              rest.isEmpty) then
          (some { lay := createLayout st (pre ++ word.take k ++ cfg.hchar) maxW,
                  line := firstLine st.fs (createLayout st (pre ++ word.take k ++ cfg.hchar) maxW),
                  ri := some (pre ++ word.take k).length, hyphenated := true }, some (pre ++ word.take k))
        else
          match Hy.tryParts st cfg maxW pre word rest with
          | (some s, t) => (some s, t)
          | (none, none) => (none, some (pre ++ word.take k))
          | (none, some t) => (none, some t) := by
      conv => lhs; unfold Hy.tryParts
      rfl
    rw [hunf]
    by_cases hc : ((firstLine st.fs (createLayout st (pre ++ word.take k ++ cfg.hchar) maxW)).resume.isNone &&
            (Hy.spaceLeft maxW (firstLine st.fs (createLayout st (pre ++ word.take k ++ cfg.hchar) maxW)).width ||
              rest.isEmpty)) = true
    · rw [if_pos hc]
      constructor
      · intro s t h
        cases h
        exact ⟨rfl, k, by simp, rfl⟩
      · intro t h
        simp only [Option.some.injEq] at h
        exact ⟨k, by simp, h.symm⟩
    · rw [if_neg hc]
      cases hr : Hy.tryParts st cfg maxW pre word rest with
      | mk a b =>
        cases a with
        | some s' =>
          simp only
          constructor
          · intro s t h
            cases h
            obtain ⟨h1, k', hk', h2⟩ := ih.1 s' b hr
            exact ⟨h1, k', by simp [hk'], h2⟩
          · intro t h
            obtain ⟨k', hk', h2⟩ := ih.2 t (by rw [hr]; exact h)
            exact ⟨k', by simp [hk'], h2⟩
        | none =>
          cases b with
          | none =>
            simp only
            constructor
            · intro s t h; cases h
            · intro t h
              simp only [Option.some.injEq] at h
              exact ⟨k, by simp, h.symm⟩
          | some t' =>
            simp only
            constructor
            · intro s t h; cases h
            · intro t h
              simp only [Option.some.injEq] at h
              obtain ⟨k', hk', h2⟩ := ih.2 t' (by rw [hr])
              exact ⟨k', by simp [hk'], by rw [← h]; exact h2⟩

/-- **dictionary hyphenation breaks only at the points the element's own dictionary gives**: when
step 4 hyphenates, the next line starts after one of the first parts that `cfg.dict` lists for the
next word (the word Pango's word boundaries delimit in the second line text), and that word has at
least `hyphenate-limit-chars` (total) letters. -/
theorem step4_breaks_at_dictionary_points (st : Style) (cfg : Hy.Cfg) (maxW : MaxW) (flt slt : Text)
    (s : Hy.State) (hs : s.hyphenated = false) (h : (Hy.step4 st cfg maxW flt slt s).hyphenated = true) :
    ∃ sw ew parts k, Hy.nextWordBoundaries slt = some (sw, ew) ∧ cfg.total ≤ ew - sw ∧
      (cfg.dict.find? (fun e => e.1 == (slt.take ew).drop sw)).map (·.2) = some parts ∧ k ∈ parts ∧
      (Hy.step4 st cfg maxW flt slt s).ri = some (flt ++ slt.take sw ++ ((slt.take ew).drop sw).take k).length := by
  generalize hres : Hy.step4 st cfg maxW flt slt s = res at h ⊢
  unfold Hy.step4 at hres
  cases hb : Hy.nextWordBoundaries slt with
  | none => rw [hb] at hres; simp only at hres; rw [← hres, hs] at h; cases h
  | some p =>
    obtain ⟨sw, ew⟩ := p
    rw [hb] at hres
    simp only at hres
    by_cases hauto : Hy.autoHyphenation cfg maxW s.line.width (ew - sw) = true
    · rw [if_pos hauto] at hres
      have htot : cfg.total ≤ ew - sw := by
        unfold Hy.autoHyphenation at hauto
        simp only [Bool.and_eq_true, decide_eq_true_eq] at hauto
        exact hauto.1
      cases hd : (cfg.dict.find? (fun e => e.1 == (slt.take ew).drop sw)).map (·.2) with
      | none =>
        rw [hd] at hres
        simp only [Option.getD_none, Hy.tryParts] at hres
        rw [← hres, hs] at h; cases h
      | some parts =>
        rw [hd] at hres
        simp only [Option.getD_some] at hres
        have hspec := tryParts_spec st cfg maxW (flt ++ slt.take sw) ((slt.take ew).drop sw) parts
        cases ht : Hy.tryParts st cfg maxW (flt ++ slt.take sw) ((slt.take ew).drop sw) parts with
        | mk a b =>
          rw [ht] at hres
          cases a with
          | some s' =>
            simp only at hres
            obtain ⟨_, k, hk, hri⟩ := hspec.1 s' b ht
            exact ⟨sw, ew, parts, k, rfl, htot, hd, hk, by rw [← hres]; exact hri⟩
          | none =>
            cases b with
            | none => simp only at hres; rw [← hres, hs] at h; cases h
            | some lastNew =>
              simp only at hres
              by_cases hf : flt = []
              · rw [if_pos hf] at hres
                obtain ⟨k, hk, hl⟩ := hspec.2 lastNew (by rw [ht])
                refine ⟨sw, ew, parts, k, rfl, htot, hd, hk, ?_⟩
                rw [← hres]
                simp only [hl]
              · rw [if_neg hf] at hres; rw [← hres, hs] at h; cases h
    · rw [if_neg hauto] at hres; rw [← hres, hs] at h; cases h

/-- `Frag.translate` does not change a box's extent -/
theorem translate_marginWidth (dx : Rat) (f : IR.Frag) : (f.translate dx).marginWidth = f.marginWidth := by
  cases f <;> simp [IR.Frag.translate, IR.Frag.marginWidth]

/-- **spacing on the first / last fragment only**: the fragment `split_inline_box` returns is an
inline box at `position_x` that carries the start spacing iff it is the first fragment
(`skip_stack is None`) and the end spacing iff it is the last one (`resume_at is None`). -/
theorem box_spacing_first_last (ws : WS) (split : IR.Split) (ls rs : Rat) (deco : Bool) (kids : List IR.Node)
    (posX maxX : Rat) (skip : Option IR.Skip) (o : IR.LevelOut)
    (h : IR.boxLevel ws split ls rs deco kids posX maxX skip = .ok o) :
    ∃ w frags, o.frag = some (.box posX w (if skip.isNone then ls else 0) (if o.resume.isNone then rs else 0)
      deco frags) := by
  unfold IR.boxLevel at h
  simp only at h
  generalize IR.boxLoop ws split rs (maxX * Gen.LineBreak.fudge) skip _ _ posX [] [] none .none false _ = res at h
  cases res with
  | error e => cases h
  | ok lo =>
    simp only [Except.map] at h
    cases h
    exact ⟨_, _, rfl⟩
end Wp.C09L
