/-
Lemmas for the preferred widths of inline content (`Model/InlinePreferred.lean`).  Core Lean only.
-/
import WpModel.Lemmas.LineBreak
import WpModel.Model.InlinePreferred

namespace Wp.C09L
open Wp Wp.Py Wp.Pango Wp.LB Wp.IR

/-- with no width at all (`max_width = None`) a text without newline is one line, as wide as its
characters, in every mode -/
theorem unconstrained_single_line (heur : Bool) (st : Style) (text : Text) (a b : Bool)
    (hnl : find text '\n' = none) :
    splitFirstLineH heur st text .none a b =
      .ok { length := text.length, resume := none, width := (text.length : Rat) * st.fs, text := text } := by
  unfold splitFirstLineH
  have hm : (if st.ws.textWrap = true then MaxW.none else MaxW.none) = MaxW.none := by split <;> rfl
  simp only [hm, Except.bind]
  unfold finish
  simp only [if_true]
  have hwidth : (draftFull st text .none).lay.width = none := rfl
  have htext : (draftFull st text .none).lay.text = text := by
    simp only [draftFull, createLayout, truncNl, hnl]
  have hline : (draftFull st text .none).line =
      { length := text.length, resume := none, width := (text.length : Rat) * st.fs } := by
    show firstLine st.fs (draftFull st text .none).lay = _
    rw [firstLine_eq_core, hwidth, htext, hnl, paraOf_of_find_none hnl]
    unfold firstLineCore
    simp [firstBreak_none]
  simp only [draftFull] at hline htext ⊢
  rw [hline]
  simp only [firstLineMetrics, htext]
theorem Canonical.head_ne_space {t : Text} (h : Canonical t) : t.head? ≠ some ' ' := by
  intro hh
  have : t[0]? = some ' ' := by rw [← List.head?_eq_getElem?]; exact hh
  have := (h.2 0 this).1
  omega

theorem lstripSp_of_head_ne {t : Text} (h : t.head? ≠ some ' ') : lstripSp t = t := by
  unfold lstripSp
  cases t with
  | nil => rfl
  | cons a as =>
    have : a ≠ ' ' := by intro e; exact h (by simp [e])
    rw [List.dropWhile_cons_of_neg (by simpa using this)]

/-- **max-content width of a canonical text** = the advance of all its characters -/
theorem maxContent_text (st : Style) (t : Text) (outer ils : Bool) (hfs : 0 ≤ st.fs) (hcan : Canonical t) :
    IP.maxContentWidth st [.text t] 0 outer ils = .ok ((t.length : Rat) * st.fs) := by
  have hnl := hcan.find_nl
  have hsplit : ∀ a b, splitFirstLine st t .none a b =
      .ok { length := t.length, resume := none, width := (t.length : Rat) * st.fs, text := t } :=
    fun a b => unconstrained_single_line true st t a b hnl
  have hct : IP.childText st t ils none = t := by
    unfold IP.childText
    simp only [List.drop_zero]
    split
    · exact lstripSp_of_head_ne hcan.head_ne_space
    · rfl
  have hlw : IP.lineWidths st false outer false depthBound [.text t] ils none 0 =
      .ok [0 + (t.length : Rat) * st.fs + 0] := by
    unfold depthBound IP.lineWidths
    simp only [List.drop_zero, Option.bind_none]
    unfold IP.widthsLoop
    simp only [hct]
    have htl : IP.textLines st false ils false (t.length + 2) t = .ok ([(t.length : Rat) * st.fs], false) := by
      unfold IP.textLines
      simp only [Bool.false_eq_true, if_false, hsplit, Except.bind]
    simp only [htl, Except.bind, Bool.false_and, Bool.false_eq_true, if_false, IP.pushLines, List.getLast?_nil]
    unfold IP.widthsLoop
    simp
  have htw : IP.trailingWhitespaceSize st [.text t] = .ok 0 := by
    unfold IP.trailingWhitespaceSize
    simp only [IP.lastTextL, IP.lastText]
    split
    · rfl
    · have : rstripSp t = t := rstripSp_of_last_ne hcan.last_ne_space
      simp [this]
  unfold IP.maxContentWidth
  simp only [hlw, htw, Except.bind, List.getLast?_singleton, List.dropLast_singleton, List.nil_append, IP.maxOf,
    List.foldl_nil, IP.adjust]
  have hn : (0 : Rat) ≤ (t.length : Rat) * st.fs := by
    have : (0 : Rat) ≤ (t.length : Rat) := by exact_mod_cast Nat.zero_le _
    exact Rat.mul_nonneg this hfs
  have h1 : ¬ (0 + (t.length : Rat) * st.fs + 0 - 0 < 0) := by grind
  simp only [h1, if_false, Bool.false_eq_true]
  congr 1
  grind
/-- a width that is a whole number of Pango units (1/1024 px) is kept as it is by `create_layout` -/
theorem quantize_of_units (w : Rat) (hw : 0 ≤ w) (k : Int) (hk : w * 1024 = k) : quantize w = w := by
  unfold quantize
  have hmax : max 0 w = w := by
    rw [Rat.max_def]; split <;> grind
  rw [hmax, hk, Rat.floor_intCast, ← hk]
  grind

/-- **laying a text out in its own max-content width never breaks it** (the shrink-to-fit round trip:
`inline_max_content_width` then `split_first_line` with that width): for a canonical text whose
font size is a whole number of Pango units, the line holds the whole text. -/
theorem max_content_fits_one_line (heur : Bool) (st : Style) (t : Text) (a b : Bool)
    (hwrap : st.ws.textWrap = true) (hwb : st.wb = .normal) (how : st.ow = .normal)
    (hfs : 0 < st.fs) (k : Int) (hk : st.fs * 1024 = k) (hcan : Canonical t) :
    splitFirstLineH heur st t (.fin ((t.length : Rat) * st.fs)) a b =
      .ok { length := t.length, resume := none, width := (t.length : Rat) * st.fs, text := t } := by
  rw [split_canonical heur st t _ a b hwrap hwb how hfs hcan, target_eq_firstFit st t _ hcan.1]
  unfold firstFit
  have hw0 : (0 : Rat) ≤ (t.length : Rat) * st.fs := by
    have : (0 : Rat) ≤ (t.length : Rat) := by exact_mod_cast Nat.zero_le _
    exact Rat.mul_nonneg this (by grind)
  have hp : firstBreak st.fs (createLayout st t (.fin ((t.length : Rat) * st.fs))).hyph false t true
      (createLayout st t (.fin ((t.length : Rat) * st.fs))).width = t.length := by
    cases hwd : (createLayout st t (.fin ((t.length : Rat) * st.fs))).width with
    | none => rfl
    | some W =>
      have hW : W = (t.length : Rat) * st.fs := by
        simp only [createLayout] at hwd
        split at hwd
        · simp only [Option.some.injEq] at hwd
          rw [← hwd]
          apply quantize_of_units _ hw0 ((t.length : Int) * k)
          rw [Rat.intCast_mul, ← hk]
          have : ((t.length : Int) : Rat) = (t.length : Rat) := by norm_cast
          rw [this]; grind
        · cases hwd
      rw [firstBreak_eq]
      split
      · omega
      · rename_i hne
        have hend : (if (t[t.length - 1]? == some ' ' && true) = true then -st.fs else (0 : Rat)) ≤ 0 := by
          split <;> grind
        rw [if_pos (by rw [hW]; grind)]
  simp only [hp, Nat.lt_irrefl, if_false]

end Wp.C09L
