/-
`draw_background_image` (Model/BackgroundDraw) keeps the document invariant `WorldOK` (every name an operator uses is a
key of the dictionary of the stream that emits it) and only grows the dictionaries.  Core Lean only.
-/
import WpModel.Model.BackgroundDraw
import WpModel.Lemmas.PdfMono
namespace Wp.Pdf

/-- Stream `h` has key `k` in the XObject dictionary it writes to. -/
def HasXAt (w : World) (h : Nat) (k : XKey) : Prop :=
  ∃ s r, w.streams[h]? = some s ∧ w.res[s.res]? = some r ∧ r.hasX k = true

theorem HasXAt.mono {w w' : World} {h : Nat} {k : XKey} (hx : HasXAt w h k) (hm : Mono w w') : HasXAt w' h k := by
  obtain ⟨s, r, hs, hr, hk⟩ := hx
  obtain ⟨s', hs', e⟩ := hm.streams h s hs
  obtain ⟨r', hr', hle⟩ := hm.res s.res r hr
  exact ⟨s', r', hs', e ▸ hr', hle.x k hk⟩

theorem HasXAt.scoped {w : World} {h : Nat} {k : XKey} (hx : HasXAt w h k) : (WCall.on h (.drawX k)).scoped w := by
  intro s r hs hr
  obtain ⟨s0, r0, hs0, hr0, hk⟩ := hx
  rw [hs] at hs0; cases hs0
  rw [hr] at hr0; cases hr0
  exact hk

theorem addGroup_hasX (w w' : World) (h : Nat) (k : XKey) (hk : nextGroupKey w h = some k)
    (hstep : w.addGroup h = .ok w') : HasXAt w' h k := by
  unfold World.addGroup at hstep
  split at hstep
  · simp at hstep
  · rename_i s hs
    split at hstep
    · simp at hstep
    · rename_i r hr
      simp at hstep; subst hstep
      have hhlt : h < w.streams.length := (List.getElem?_eq_some_iff.mp hs).1
      have hjlt : s.res < w.res.length := (List.getElem?_eq_some_iff.mp hr).1
      have : k = XKey.x r.xobj.length := by simp [nextGroupKey, hs, hr] at hk; exact hk.symm
      subst this
      refine ⟨s, { r with xobj := r.xobj ++ [(XKey.x r.xobj.length, some w.streams.length)] }, ?_, ?_, ?_⟩
      · simp [List.getElem?_append_left hhlt, hs]
      · rw [List.getElem?_append_left (by simpa using hjlt)]; simp [hjlt]
      · rw [hasX_iff]; simp

theorem patternCount_spec {w : World} {h n : Nat} (hc : patternCount w h = some n) :
    ∃ s r, w.streams[h]? = some s ∧ w.res[s.res]? = some r ∧ r.pattern.length = n := by
  unfold patternCount at hc
  split at hc
  · cases hc
  · rename_i s hs
    split at hc
    · cases hc
    · rename_i r hr
      simp at hc
      exact ⟨s, r, hs, hr, hc⟩

theorem Mono.pattern {w w' : World} (hm : Mono w w') {h n : Nat} (hc : patternCount w h = some n) :
    ∀ (s : SState) (r : Res), w'.streams[h]? = some s → w'.res[s.res]? = some r → n ≤ r.pattern.length := by
  obtain ⟨s0, r0, hs0, hr0, rfl⟩ := patternCount_spec hc
  obtain ⟨s', hs', e⟩ := hm.streams h s0 hs0
  obtain ⟨r', hr', hle⟩ := hm.res s0.res r0 hr0
  intro s r hs hr
  rw [hs'] at hs; cases hs
  rw [e, hr'] at hr; cases hr
  exact hle.pat

theorem addPattern_count (w w' : World) (h n : Nat) (hstep : w.step (.addPattern h) = .ok w')
    (hc : patternCount w h = some n) : patternCount w' h = some (n + 1) := by
  obtain ⟨s0, r0, hs0, hr0, rfl⟩ := patternCount_spec hc
  simp only [World.step] at hstep
  rw [hs0] at hstep; simp only [hr0] at hstep
  simp at hstep; subst hstep
  have hhlt : h < w.streams.length := (List.getElem?_eq_some_iff.mp hs0).1
  have hjlt : s0.res < w.res.length := (List.getElem?_eq_some_iff.mp hr0).1
  simp [patternCount, List.getElem?_append_left hhlt, hs0, List.getElem?_append_left, hjlt]

/-- What the theorem asks of `layer.image.draw`: from any later state, whatever it does keeps the invariant and only
grows dictionaries. -/
def ImgOKFrom (w : World) (img : List GItem) : Prop :=
  ∀ w1 w2, WorldOK w1 → Mono w w1 → runItems w1 img = .ok w2 → WorldOK w2 ∧ Mono w1 w2

theorem trivial_scoped (w : World) (h : Nat) (c : Call) (hc : ∀ r, c.scoped r) : (WCall.on h c).scoped w := by
  intro s r _ _; exact hc r

theorem call_ok_mono (w w' : World) (h : Nat) (c : Call) (hw : WorldOK w) (hs : (WCall.on h c).scoped w)
    (hstep : w.onCall h c = .ok w') : WorldOK w' ∧ Mono w w' :=
  ⟨onCall_ok w w' h c hw hs hstep, onCall_mono w w' h c hs hstep⟩

theorem background_image_ok (w w' : World) (h : Nat) (p : BgProps) (img : List GItem) (hw : WorldOK w)
    (hImg : ImgOKFrom w img) (hstep : drawBackgroundImage w h p img = .ok w') : WorldOK w' ∧ Mono w w' := by
  unfold drawBackgroundImage at hstep
  split at hstep
  · simp at hstep; subst hstep; exact ⟨hw, Mono.refl w⟩
  · split at hstep
    · -- no-repeat: [clip], group, transform, image, Do
      obtain ⟨wa, ha, hstep⟩ := thenDo_eq_ok hstep
      have ⟨oka, ma⟩ : WorldOK wa ∧ Mono w wa := by
        unfold stageIf at ha
        split at ha
        · obtain ⟨x1, e1, ha⟩ := thenDo_eq_ok ha
          unfold clipEnd at ha
          obtain ⟨x2, e2, ha⟩ := thenDo_eq_ok ha
          obtain ⟨o1, m1⟩ := call_ok_mono w x1 h _ hw (by intro s r _ _; trivial) e1
          obtain ⟨o2, m2⟩ := call_ok_mono x1 x2 h _ o1 (by intro s r _ _; trivial) e2
          obtain ⟨o3, m3⟩ := call_ok_mono x2 wa h _ o2 (by intro s r _ _; trivial) ha
          exact ⟨o3, m1.trans (m2.trans m3)⟩
        · simp at ha; subst ha; exact ⟨hw, Mono.refl w⟩
      split at hstep
      · simp at hstep
      · rename_i key hkey
        obtain ⟨w1, h1, hstep⟩ := thenDo_eq_ok hstep
        obtain ⟨w2, h2, hstep⟩ := thenDo_eq_ok hstep
        obtain ⟨w3, h3, hstep⟩ := thenDo_eq_ok hstep
        have ok1 := addGroup_ok wa w1 h oka h1
        have m1 := addGroup_mono wa w1 h h1
        have hx1 := addGroup_hasX wa w1 h key hkey h1
        obtain ⟨ok2, m2⟩ := call_ok_mono w1 w2 _ _ ok1 (by intro s r _ _; trivial) h2
        obtain ⟨ok3, m3⟩ := hImg w2 w3 ok2 (ma.trans (m1.trans m2)) h3
        have hx3 := hx1.mono (m2.trans m3)
        obtain ⟨ok4, m4⟩ := call_ok_mono w3 w' h _ ok3 hx3.scoped hstep
        exact ⟨ok4, ma.trans (m1.trans (m2.trans (m3.trans m4)))⟩
    · -- repeated: pattern, group in the pattern, stacked(image, Do, cs, scn, re, f)
      split at hstep
      · simp at hstep
      · rename_i pid hpid
        obtain ⟨w1, h1, hstep⟩ := thenDo_eq_ok hstep
        have ok1 := World.step_ok w w1 (.addPattern h) hw trivial h1
        have m1 := addPattern_mono w w1 h h1
        have c1 := addPattern_count w w1 h pid h1 hpid
        split at hstep
        · simp at hstep
        · rename_i key hkey
          obtain ⟨w2, h2, hstep⟩ := thenDo_eq_ok hstep
          obtain ⟨w3, h3, hstep⟩ := thenDo_eq_ok hstep
          obtain ⟨w4, h4, hstep⟩ := thenDo_eq_ok hstep
          obtain ⟨w5, h5, hstep⟩ := thenDo_eq_ok hstep
          obtain ⟨w6, h6, hstep⟩ := thenDo_eq_ok hstep
          obtain ⟨w7, h7, hstep⟩ := thenDo_eq_ok hstep
          obtain ⟨w8, h8, hstep⟩ := thenDo_eq_ok hstep
          obtain ⟨w9, h9, hstep⟩ := thenDo_eq_ok hstep
          have ok2 := addGroup_ok w1 w2 _ ok1 h2
          have m2 := addGroup_mono w1 w2 _ h2
          have hx2 := addGroup_hasX w1 w2 _ key hkey h2
          obtain ⟨ok3, m3⟩ := call_ok_mono w2 w3 h _ ok2 (by intro s r _ _; trivial) h3
          obtain ⟨ok4, m4⟩ := hImg w3 w4 ok3 (m1.trans (m2.trans m3)) h4
          obtain ⟨ok5, m5⟩ := call_ok_mono w4 w5 _ _ ok4 (hx2.mono (m3.trans m4)).scoped h5
          obtain ⟨ok6, m6⟩ := call_ok_mono w5 w6 h _ ok5 (by intro s r _ _; trivial) h6
          have sc7 : (WCall.on h (.setColorSpecial (some pid) false [])).scoped w6 := by
            intro s r hs hr
            have := (m2.trans (m3.trans (m4.trans (m5.trans m6)))).pattern c1 s r hs hr
            show pid < r.pattern.length
            omega
          obtain ⟨ok7, m7⟩ := call_ok_mono w6 w7 h _ ok6 sc7 h7
          obtain ⟨ok8, m8⟩ := call_ok_mono w7 w8 h _ ok7 (by intro s r _ _; trivial) h8
          obtain ⟨ok9, m9⟩ := call_ok_mono w8 w9 h _ ok8 (by intro s r _ _; trivial) h9
          obtain ⟨ok10, m10⟩ := call_ok_mono w9 w' h _ ok9 (by intro s r _ _; trivial) hstep
          exact ⟨ok10, m1.trans (m2.trans (m3.trans (m4.trans (m5.trans (m6.trans (m7.trans (m8.trans
            (m9.trans m10))))))))⟩

end Wp.Pdf
