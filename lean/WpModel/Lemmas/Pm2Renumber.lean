/-
Layout does not depend on box ids: renumbering the boxes of a document with any function `f` commutes with
`layoutBox`, `layoutKids`, `find_earlier_page_break`, `remake_page` and `make_all_pages`.
-/
import WpModel.Lemmas.Pm2Step

namespace Wp.PM
open Wp

mutual
def PBox.mapIds (f : Nat → Nat) : PBox → PBox
  | .para id n lh st => .para (f id) n lh st
  | .block id st kids => .block (f id) st (mapIdsBoxes f kids)
def mapIdsBoxes (f : Nat → Nat) : List PBox → List PBox
  | [] => []
  | b :: bs => PBox.mapIds f b :: mapIdsBoxes f bs
end

mutual
def Frag.mapIds (f : Nat → Nat) : Frag → Frag
  | .para id idx st n g lines => .para (f id) idx st n g lines
  | .block id idx st g kids => .block (f id) idx st g (mapIdsFrags f kids)
def mapIdsFrags (f : Nat → Nat) : List Frag → List Frag
  | [] => []
  | x :: xs => Frag.mapIds f x :: mapIdsFrags f xs
end

def LayoutResult.mapIds (f : Nat → Nat) (r : LayoutResult) : LayoutResult :=
  { r with frag := r.frag.map (Frag.mapIds f) }

def KidsLoop.mapIds (f : Nat → Nat) (s : KidsLoop) : KidsLoop :=
  { s with newChildren := mapIdsFrags f s.newChildren }

def KidsOutcome.mapIds (f : Nat → Nat) : KidsOutcome → KidsOutcome
  | .finished s => .finished (s.mapIds f)
  | .aborted p s => .aborted p (s.mapIds f)
  | .stopped r s => .stopped r (s.mapIds f)

def Page.mapIds (f : Nat → Nat) (p : Page) : Page := { p with root := p.root.mapIds f }

def Doc.mapIds (f : Nat → Nat) (d : Doc) : Doc := { d with root := d.root.mapIds f }

variable (f : Nat → Nat)

/-! ### everything the layout reads is unchanged -/

@[simp] theorem PBox.st_mapIds (b : PBox) : (b.mapIds f).st = b.st := by cases b <;> rfl
@[simp] theorem Frag.st_mapIds (x : Frag) : (x.mapIds f).st = x.st := by cases x <;> rfl
@[simp] theorem Frag.geo_mapIds (x : Frag) : (x.mapIds f).geo = x.geo := by cases x <;> rfl
@[simp] theorem Frag.idx_mapIds (x : Frag) : (x.mapIds f).idx = x.idx := by cases x <;> rfl
@[simp] theorem Frag.withIdx_mapIds (x : Frag) (i : Nat) : (x.mapIds f).withIdx i = (x.withIdx i).mapIds f := by
  cases x <;> rfl

theorem mapIdsFrags_append (xs ys : List Frag) : mapIdsFrags f (xs ++ ys) = mapIdsFrags f xs ++ mapIdsFrags f ys := by
  induction xs with
  | nil => rfl
  | cons x xs ih => simp [mapIdsFrags, ih]

@[simp] theorem mapIdsFrags_isEmpty (xs : List Frag) : (mapIdsFrags f xs).isEmpty = xs.isEmpty := by
  cases xs <;> rfl

theorem mapIdsFrags_getLast? (xs : List Frag) : (mapIdsFrags f xs).getLast? = xs.getLast?.map (Frag.mapIds f) := by
  induction xs with
  | nil => rfl
  | cons x xs ih =>
    cases xs with
    | nil => rfl
    | cons y ys =>
      simp only [mapIdsFrags] at ih ⊢
      rw [List.getLast?_cons_cons, List.getLast?_cons_cons]
      exact ih

theorem mapIdsFrags_head? (xs : List Frag) : (mapIdsFrags f xs).head? = xs.head?.map (Frag.mapIds f) := by
  cases xs <;> rfl

mutual
theorem fragAfterChain_mapIds : (x : Frag) → fragAfterChain (x.mapIds f) = fragAfterChain x
  | .para _ _ _ _ _ _ => rfl
  | .block id idx st g kids => by
    simp only [Frag.mapIds, fragAfterChain]
    rw [fragAfterChainLast_mapIds kids]
theorem fragAfterChainLast_mapIds : (xs : List Frag) → fragAfterChainLast (mapIdsFrags f xs) = fragAfterChainLast xs
  | [] => rfl
  | x :: rest => by
    cases rest with
    | nil => simp only [mapIdsFrags, fragAfterChainLast]; exact fragAfterChain_mapIds x
    | cons y ys =>
      have := fragAfterChainLast_mapIds (y :: ys)
      simp only [mapIdsFrags, fragAfterChainLast] at this ⊢
      exact this
end

mutual
theorem fragBeforeChain_mapIds : (x : Frag) → fragBeforeChain (x.mapIds f) = fragBeforeChain x
  | .para _ _ _ _ _ _ => rfl
  | .block id idx st g kids => by
    simp only [Frag.mapIds, fragBeforeChain]
    rw [fragBeforeChainFirst_mapIds kids]
theorem fragBeforeChainFirst_mapIds : (xs : List Frag) →
    fragBeforeChainFirst (mapIdsFrags f xs) = fragBeforeChainFirst xs
  | [] => rfl
  | x :: _ => by simp only [mapIdsFrags, fragBeforeChainFirst]; exact fragBeforeChain_mapIds x
end

mutual
theorem boxBeforeChain_mapIds : (b : PBox) → boxBeforeChain (b.mapIds f) = boxBeforeChain b
  | .para _ _ _ _ => rfl
  | .block id st kids => by
    simp only [PBox.mapIds, boxBeforeChain]
    rw [boxBeforeChainFirst_mapIds kids]
theorem boxBeforeChainFirst_mapIds : (bs : List PBox) →
    boxBeforeChainFirst (mapIdsBoxes f bs) = boxBeforeChainFirst bs
  | [] => rfl
  | b :: _ => by simp only [mapIdsBoxes, boxBeforeChainFirst]; exact boxBeforeChain_mapIds b
end

mutual
theorem boxPageStart_mapIds : (b : PBox) → boxPageStart (b.mapIds f) = boxPageStart b
  | .para _ _ _ _ => rfl
  | .block id st kids => by
    simp only [PBox.mapIds, boxPageStart]
    rw [boxPageStartFirst_mapIds kids]
theorem boxPageStartFirst_mapIds : (bs : List PBox) →
    boxPageStartFirst (mapIdsBoxes f bs) = boxPageStartFirst bs
  | [] => rfl
  | b :: _ => by simp only [mapIdsBoxes, boxPageStartFirst]; exact boxPageStart_mapIds b
end

mutual
theorem fragPageEnd_mapIds : (x : Frag) → fragPageEnd (x.mapIds f) = fragPageEnd x
  | .para _ _ _ _ _ _ => rfl
  | .block id idx st g kids => by
    simp only [Frag.mapIds, fragPageEnd]
    rw [fragPageEndLast_mapIds kids]
theorem fragPageEndLast_mapIds : (xs : List Frag) → fragPageEndLast (mapIdsFrags f xs) = fragPageEndLast xs
  | [] => rfl
  | x :: rest => by
    cases rest with
    | nil => simp only [mapIdsFrags, fragPageEndLast]; exact fragPageEnd_mapIds x
    | cons y ys =>
      have := fragPageEndLast_mapIds (y :: ys)
      simp only [mapIdsFrags, fragPageEndLast] at this ⊢
      exact this
end

theorem breakBetween_mapIds (x : Frag) (b : PBox) : breakBetween (x.mapIds f) (b.mapIds f) = breakBetween x b := by
  unfold breakBetween
  rw [fragAfterChain_mapIds, boxBeforeChain_mapIds]

theorem breakBetweenFrags_mapIds (x : Frag) (y : Option Frag) :
    breakBetweenFrags (x.mapIds f) (y.map (Frag.mapIds f)) = breakBetweenFrags x y := by
  unfold breakBetweenFrags
  rw [fragAfterChain_mapIds]
  cases y with
  | none => rfl
  | some y => simp only [Option.map_some]; rw [fragBeforeChain_mapIds]

theorem bbf_some (x p : Frag) :
    breakBetweenFrags (x.mapIds f) (some (p.mapIds f)) = breakBetweenFrags x (some p) :=
  breakBetweenFrags_mapIds f x (some p)

theorem meetBreak_mapIds (s : KidsLoop) (child : PBox) :
    meetBreak (s.mapIds f) (child.mapIds f) = meetBreak s child := by
  unfold meetBreak KidsLoop.mapIds
  simp only [mapIdsFrags_getLast?]
  cases s.newChildren.getLast? with
  | none => rfl
  | some l =>
    simp only [Option.map_some]
    rw [breakBetween_mapIds, fragPageEnd_mapIds, boxPageStart_mapIds]

theorem pageEndOf_mapIds (st : PStyle) (xs : List Frag) : pageEndOf st (mapIdsFrags f xs) = pageEndOf st xs := by
  unfold pageEndOf
  rw [fragPageEndLast_mapIds]

/-! ### `find_earlier_page_break` -/

theorem cutEnd_mapIds (x : Frag) : (x.mapIds f).cutEnd = (x.cutEnd).mapIds f := by
  cases x <;> simp [Frag.mapIds, Frag.cutEnd]

def EarlierState.mapIds (f : Nat → Nat) (s : EarlierState) : EarlierState :=
  { found := s.found.map (fun kr => (mapIdsFrags f kr.1, kr.2)), prev := s.prev.map (Frag.mapIds f) }

theorem findEarlierPara_mapIds (id idx : Nat) (st : PStyle) (n : Nat) (g : Geo) (lines : List (Nat × Rat)) :
    findEarlierPara (f id) idx st n g lines =
      (findEarlierPara id idx st n g lines).map (fun xr => (xr.1.mapIds f, xr.2)) := by
  unfold findEarlierPara
  split
  · rfl
  · dsimp only
    split
    · rfl
    · split <;> rfl

mutual
theorem findEarlierGo_mapIds : (xs : List Frag) →
    findEarlierGo (mapIdsFrags f xs) = (findEarlierGo xs).mapIds f
  | [] => rfl
  | x :: xs => by
    have ih := findEarlierGo_mapIds xs
    have hfrag := findEarlierFrag_mapIds x
    simp only [mapIdsFrags]
    rw [findEarlierGo, findEarlierGo, ih]
    generalize findEarlierGo xs = s
    obtain ⟨found, prev⟩ := s
    cases found with
    | some kr =>
      obtain ⟨kept, r⟩ := kr
      simp [EarlierState.mapIds, mapIdsFrags]
    | none =>
      cases prev with
      | some p =>
        simp only [EarlierState.mapIds, Option.map_none, Option.map_some, bbf_some, Frag.st_mapIds,
          Frag.idx_mapIds]
        by_cases hav : avoidsPage (breakBetweenFrags x (some p)) = true
        · simp only [hav, Bool.not_true, Bool.false_eq_true, ↓reduceIte]
          by_cases hin : avoidsPage x.st.brkInside = true
          · simp [hin]
          · simp only [hin, Bool.not_false, ↓reduceIte]
            rw [hfrag]
            cases findEarlierFrag x with
            | none => simp
            | some xr => simp [mapIdsFrags, cutEnd_mapIds]
        · simp [hav, mapIdsFrags]
      | none =>
        simp only [EarlierState.mapIds, Option.map_none, Frag.st_mapIds, Frag.idx_mapIds]
        by_cases hin : avoidsPage x.st.brkInside = true
        · simp [hin]
        · simp only [hin, Bool.not_false, ↓reduceIte]
          rw [hfrag]
          cases findEarlierFrag x with
          | none => simp
          | some xr => simp [mapIdsFrags, cutEnd_mapIds]
theorem findEarlierFrag_mapIds : (x : Frag) →
    findEarlierFrag (x.mapIds f) = (findEarlierFrag x).map (fun xr => (xr.1.mapIds f, xr.2))
  | .para id idx st n g lines => by
    simp only [Frag.mapIds, findEarlierFrag]
    exact findEarlierPara_mapIds f id idx st n g lines
  | .block id idx st g kids => by
    simp only [Frag.mapIds, findEarlierFrag]
    rw [findEarlierGo_mapIds kids]
    simp only [EarlierState.mapIds]
    cases (findEarlierGo kids).found with
    | none => rfl
    | some kr => rfl
end

theorem findEarlierList_mapIds (xs : List Frag) :
    findEarlierList (mapIdsFrags f xs) = (findEarlierList xs).map (fun kr => (mapIdsFrags f kr.1, kr.2)) := by
  unfold findEarlierList
  rw [findEarlierGo_mapIds]
  rfl

/-! ### the loop state -/

@[simp] theorem KidsLoop.mapIds_newChildren (s : KidsLoop) : (s.mapIds f).newChildren = mapIdsFrags f s.newChildren := rfl
@[simp] theorem KidsLoop.mapIds_posY (s : KidsLoop) : (s.mapIds f).posY = s.posY := rfl
@[simp] theorem KidsLoop.mapIds_adjL (s : KidsLoop) : (s.mapIds f).adjL = s.adjL := rfl
@[simp] theorem KidsLoop.mapIds_cur (s : KidsLoop) : (s.mapIds f).cur = s.cur := rfl
@[simp] theorem KidsLoop.mapIds_curIsL (s : KidsLoop) : (s.mapIds f).curIsL = s.curIsL := rfl
@[simp] theorem KidsLoop.mapIds_nextPage (s : KidsLoop) : (s.mapIds f).nextPage = s.nextPage := rfl
@[simp] theorem KidsLoop.mapIds_skip (s : KidsLoop) : (s.mapIds f).skip = s.skip := rfl

theorem setCur_mapIds (s : KidsLoop) (l : List Rat) (b : Bool) : (s.mapIds f).setCur l b = (s.setCur l b).mapIds f := by
  unfold KidsLoop.setCur; split <;> rfl

theorem appendCur_mapIds (s : KidsLoop) (m : Rat) : (s.mapIds f).appendCur m = (s.appendCur m).mapIds f := by
  cases h : s.curIsL <;> simp [KidsLoop.appendCur, KidsLoop.mapIds, h]

theorem adoptAdj_mapIds (s : KidsLoop) (had : Bool) (adj : AdjOut) (frag : Option Frag) :
    (s.mapIds f).adoptAdj had adj (frag.map (Frag.mapIds f)) = (s.adoptAdj had adj frag).mapIds f := by
  unfold KidsLoop.adoptAdj
  split
  · rfl
  · cases adj <;> cases frag <;> simp [setCur_mapIds, appendCur_mapIds]

def FirstPass.mapIds (f : Nat → Nat) : FirstPass → FirstPass
  | .keep frag y => .keep (frag.map (Frag.mapIds f)) y
  | .redo b => .redo b

theorem firstPass_mapIds (c : Ctx) (bs : Rat) (pienc : Bool) (posY : Rat) (r : LayoutResult) :
    firstPass c bs pienc posY (r.mapIds f) = (firstPass c bs pienc posY r).mapIds f := by
  unfold firstPass LayoutResult.mapIds
  cases hf : r.frag with
  | none => simp [FirstPass.mapIds]
  | some x =>
    simp only [Option.map_some, Frag.geo_mapIds]
    split
    · rfl
    · split
      · rfl
      · split <;> rfl

theorem concludeKid_mapIds (index : Nat) (pie : Bool) (pb : Brk) (child : PBox) (s : KidsLoop)
    (frag : Option Frag) (resume : Option Resume) :
    concludeKid index pie pb (child.mapIds f) (s.mapIds f) (frag.map (Frag.mapIds f)) resume =
      ((concludeKid index pie pb child s frag resume).1.map (KidsOutcome.mapIds f),
       (concludeKid index pie pb child s frag resume).2.mapIds f) := by
  cases frag with
  | none =>
    simp only [Option.map_none, concludeKid, KidsLoop.mapIds_newChildren, findEarlierList_mapIds,
      mapIdsFrags_isEmpty, boxPageStart_mapIds]
    by_cases hav : avoidsPage pb = true
    · simp only [hav, ↓reduceIte, Bool.true_and]
      cases findEarlierList s.newChildren with
      | some kr => obtain ⟨kept, r'⟩ := kr; rfl
      | none =>
        simp only [Option.map_none]
        cases pie <;> cases s.newChildren.isEmpty <;> rfl
    · simp only [hav, Bool.false_eq_true, ↓reduceIte, Bool.false_and]
      cases s.newChildren.isEmpty <;> rfl
  | some x =>
    cases resume with
    | some r' =>
      simp only [Option.map_some, concludeKid, KidsOutcome.mapIds, KidsLoop.mapIds, Frag.withIdx_mapIds,
        mapIdsFrags_append, mapIdsFrags]
    | none =>
      simp only [Option.map_some, concludeKid, Option.map_none, KidsLoop.mapIds, Frag.withIdx_mapIds,
        mapIdsFrags_append, mapIdsFrags]

/-! ### containers -/

theorem finishContainer_mapIds (c : Ctx) (st : PStyle) (b : BoxSt) (isStart pie : Bool) (bs : Rat)
    (cwc dbd : Bool) (resume : Option Resume) (posY : Rat) (adjL cur : List Rat) (curIsL : Bool)
    (np : NextPage) (hasKids : Bool) (pageEnd : String) (mk : Geo → Frag) :
    finishContainer c st b isStart pie bs cwc dbd resume posY adjL cur curIsL np hasKids pageEnd
        (fun g => (mk g).mapIds f) =
      (finishContainer c st b isStart pie bs cwc dbd resume posY adjL cur curIsL np hasKids pageEnd mk).mapIds f := by
  unfold finishContainer
  split <;> rfl

theorem finishPara_mapIds (c : Ctx) (st : PStyle) (p : Prep) (pie : Bool) (id idx n : Nat) (r : LineResult) :
    finishPara c st p pie (f id) idx n r = (finishPara c st p pie id idx n r).mapIds f := by
  unfold finishPara
  dsimp only
  split
  · rfl
  · exact finishContainer_mapIds f _ _ _ _ _ _ _ _ _ _ _ _ _ _ _ _ (fun g => Frag.para id idx st n g r.lines)

theorem finishBlock_mapIds (c : Ctx) (st : PStyle) (p : Prep) (pie : Bool) (id idx : Nat) (out : KidsOutcome) :
    finishBlock c st p pie (f id) idx (out.mapIds f) = (finishBlock c st p pie id idx out).mapIds f := by
  cases out with
  | aborted page s => rfl
  | stopped resume s =>
    simp only [KidsOutcome.mapIds, finishBlock, KidsLoop.mapIds_posY, KidsLoop.mapIds_adjL,
      KidsLoop.mapIds_nextPage, KidsLoop.mapIds_newChildren, mapIdsFrags_isEmpty, pageEndOf_mapIds]
    exact finishContainer_mapIds f _ _ _ _ _ _ _ _ _ _ _ _ _ _ _ _
      (fun g => Frag.block id idx st g s.newChildren)
  | finished s =>
    simp only [KidsOutcome.mapIds, finishBlock, KidsLoop.mapIds_posY, KidsLoop.mapIds_adjL,
      KidsLoop.mapIds_nextPage, KidsLoop.mapIds_newChildren, mapIdsFrags_isEmpty, pageEndOf_mapIds,
      KidsLoop.mapIds_cur, KidsLoop.mapIds_curIsL]
    exact finishContainer_mapIds f _ _ _ _ _ _ _ _ _ _ _ _ _ _ _ _
      (fun g => Frag.block id idx st g s.newChildren)

@[simp] theorem LayoutResult.mapIds_resume (r : LayoutResult) : (r.mapIds f).resume = r.resume := rfl
@[simp] theorem LayoutResult.mapIds_nextPage (r : LayoutResult) : (r.mapIds f).nextPage = r.nextPage := rfl
@[simp] theorem LayoutResult.mapIds_adj (r : LayoutResult) : (r.mapIds f).adj = r.adj := rfl
@[simp] theorem LayoutResult.mapIds_adjL (r : LayoutResult) : (r.mapIds f).adjL = r.adjL := rfl
@[simp] theorem LayoutResult.mapIds_frag (r : LayoutResult) : (r.mapIds f).frag = r.frag.map (Frag.mapIds f) := rfl
@[simp] theorem LayoutResult.mapIds_through (r : LayoutResult) : (r.mapIds f).collapsingThrough = r.collapsingThrough := rfl

/-- `kidResult` commutes with renumbering, given that the child's layout does. -/
theorem kidResult_mapIds (c : Ctx) (st : PStyle) (child : PBox) (index : Nat) (bs : Rat) (pie : Bool) (s : KidsLoop)
    (ih : ∀ (y bs : Rat) (skip : Option Resume) (cb pie : Bool) (adjL : List Rat),
      layoutBox c (child.mapIds f) index y bs skip cb pie adjL = (layoutBox c child index y bs skip cb pie adjL).mapIds f) :
    kidResult c st (child.mapIds f) index bs pie (s.mapIds f) =
      ((kidResult c st child index bs pie s).1.map (Frag.mapIds f),
       (kidResult c st child index bs pie s).2.1.mapIds f,
       (kidResult c st child index bs pie s).2.2.mapIds f) := by
  unfold kidResult
  simp only [KidsLoop.mapIds_newChildren, mapIdsFrags_isEmpty, KidsLoop.mapIds_posY, KidsLoop.mapIds_skip,
    KidsLoop.mapIds_cur, KidsLoop.mapIds_curIsL, ih, firstPass_mapIds, LayoutResult.mapIds_adjL, setCur_mapIds]
  cases hfp : firstPass c bs (pie && s.newChildren.isEmpty) s.posY
      (layoutBox c child index s.posY bs s.skip st.isRoot (pie && s.newChildren.isEmpty) s.cur) with
  | keep frag posY =>
    simp only [FirstPass.mapIds, LayoutResult.mapIds_frag, LayoutResult.mapIds_adj, LayoutResult.mapIds_nextPage,
      Option.isSome_map, adoptAdj_mapIds]
    rfl
  | redo bs' =>
    simp only [FirstPass.mapIds, KidsLoop.mapIds_cur, KidsLoop.mapIds_curIsL,
      LayoutResult.mapIds_frag, LayoutResult.mapIds_adj, LayoutResult.mapIds_nextPage,
      adoptAdj_mapIds]
    cases (layoutBox c child index s.posY bs' s.skip st.isRoot (pie && s.newChildren.isEmpty)
        (s.setCur (layoutBox c child index s.posY bs s.skip st.isRoot (pie && s.newChildren.isEmpty) s.cur).adjL
          s.curIsL).cur).frag with
    | none => rfl
    | some x => simp only [Option.map_some, Frag.geo_mapIds]; rfl

mutual
/-- **`block_level_layout` commutes with renumbering.** -/
theorem layoutBox_mapIds : (box : PBox) → ∀ (c : Ctx) (idx : Nat) (y bs : Rat) (skip : Option Resume)
    (cb pie : Bool) (adjL : List Rat),
    layoutBox c (box.mapIds f) idx y bs skip cb pie adjL = (layoutBox c box idx y bs skip cb pie adjL).mapIds f
  | .para id n lineH st => by
    intro c idx y bs skip cb pie adjL
    simp only [PBox.mapIds, layoutBox]
    exact finishPara_mapIds f _ _ _ _ _ _ _ _
  | .block id st kids => by
    intro c idx y bs skip cb pie adjL
    simp only [PBox.mapIds, layoutBox]
    have := layoutKids_mapIds kids c st 0 (skipIdxOf skip) (prepare c st y bs skip cb pie adjL).bs pie
      { newChildren := [], posY := (prepare c st y bs skip cb pie adjL).posY,
        adjL := (prepare c st y bs skip cb pie adjL).adjL, cur := (prepare c st y bs skip cb pie adjL).cur,
        curIsL := (prepare c st y bs skip cb pie adjL).curIsL,
        nextPage := { brk := none, page := none }, skip := subSkipOf skip }
    simp only [KidsLoop.mapIds, mapIdsFrags] at this
    rw [this]
    exact finishBlock_mapIds f _ _ _ _ _ _ _
theorem layoutKids_mapIds : (rest : List PBox) → ∀ (c : Ctx) (st : PStyle) (index skipIdx : Nat) (bs : Rat)
    (pie : Bool) (s : KidsLoop),
    layoutKids c st (mapIdsBoxes f rest) index skipIdx bs pie (s.mapIds f) =
      (layoutKids c st rest index skipIdx bs pie s).mapIds f
  | [] => by
    intro c st index skipIdx bs pie s
    simp [mapIdsBoxes, layoutKids, KidsOutcome.mapIds]
  | child :: rest => by
    intro c st index skipIdx bs pie s
    simp only [mapIdsBoxes]
    by_cases hc : index < skipIdx
    · rw [layoutKids_skip _ _ _ _ _ _ _ _ _ hc, layoutKids_skip _ _ _ _ _ _ _ _ _ hc]
      exact layoutKids_mapIds rest c st (index + 1) skipIdx bs pie s
    · rw [layoutKids_cons _ _ _ _ _ _ _ _ _ hc, layoutKids_cons _ _ _ _ _ _ _ _ _ hc]
      rw [meetBreak_mapIds, boxPageStart_mapIds]
      split
      · rfl
      · rw [kidResult_mapIds f c st child index bs pie s
          (fun y bs skip cb pie adjL => layoutBox_mapIds child c index y bs skip cb pie adjL)]
        simp only [LayoutResult.mapIds_resume]
        rw [concludeKid_mapIds]
        cases hck : concludeKid index pie (meetBreak s child).1 child (kidResult c st child index bs pie s).2.2
            (kidResult c st child index bs pie s).1 (kidResult c st child index bs pie s).2.1.resume with
        | mk o s3 =>
          cases o with
          | some out => rfl
          | none =>
            simp only [Option.map_none]
            exact layoutKids_mapIds rest c st (index + 1) skipIdx bs pie s3
end

/-! ### pages -/

theorem emptyRoot_mapIds (b : PBox) : emptyRoot (b.mapIds f) = (emptyRoot b).mapIds f := by
  cases b <;> simp [emptyRoot, PBox.mapIds, mapIdsBoxes]

theorem remakePage_mapIds (d : Doc) (index : Nat) (resume : Option Resume) (np : NextPage) (right : Bool) :
    remakePage (d.mapIds f) index resume np right = (remakePage d index resume np right).map (Page.mapIds f) := by
  unfold remakePage
  simp only [Doc.mapIds, emptyRoot_mapIds]
  by_cases hb : isBlank (requestedSide d.rootLtr np.brk) right = true
  · simp only [hb, ↓reduceIte, layoutBox_mapIds, LayoutResult.mapIds_frag]
    cases (layoutBox { pageBottom := d.pageH, currentPage := index + 1, forcedBreak := forcedBreakOf np }
        (emptyRoot d.root) 0 0 0 resume false true []).frag with
    | none => rfl
    | some x => rfl
  · simp only [hb, Bool.false_eq_true, ↓reduceIte, layoutBox_mapIds, LayoutResult.mapIds_frag,
      LayoutResult.mapIds_resume, LayoutResult.mapIds_nextPage]
    cases (layoutBox { pageBottom := d.pageH, currentPage := index + 1, forcedBreak := forcedBreakOf np }
        d.root 0 0 0 resume false true []).frag with
    | none => rfl
    | some x => rfl

theorem makeAllPages_mapIds (d : Doc) : ∀ (fuel index : Nat) (resume : Option Resume) (np : NextPage) (right : Bool),
    makeAllPages (d.mapIds f) fuel index resume np right =
      (makeAllPages d fuel index resume np right).map (List.map (Page.mapIds f)) := by
  intro fuel
  induction fuel with
  | zero => intro index resume np right; rfl
  | succ fuel ih =>
    intro index resume np right
    unfold makeAllPages
    rw [remakePage_mapIds]
    cases remakePage d index resume np right with
    | none => rfl
    | some p =>
      simp only [Option.map_some]
      have hr : (Page.mapIds f p).resume = p.resume := rfl
      have hn : (Page.mapIds f p).nextPage = p.nextPage := rfl
      rw [hr, hn]
      cases p.resume with
      | none => rfl
      | some r =>
        simp only
        rw [ih]
        cases makeAllPages d fuel (index + 1) (some r) p.nextPage (!right) with
        | none => rfl
        | some ps => rfl

end Wp.PM
