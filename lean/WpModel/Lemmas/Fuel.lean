/-
Fuel sufficiency for `block_in_inline` (Model/AnonBoxes.lean): the `while True` loop of the source and
the mutual recursion around it end within a number of steps linear in the size of the tree, so the
fuel the model gives (`biiFuel b = 6·size b + 16`) is never exhausted.  Core Lean only.
-/
import WpModel.Lemmas.Boxes

namespace Wp.Bx
open KBox

/-- `isinstance(child, BlockLevelBox) and child.is_in_normal_flow()` -/
def isBlk (c : KBox) : Bool := c.isA .BlockLevelBox && c.inFlow

mutual
/-- Steps `block_in_inline(box)` may need. -/
def needA : KBox → Nat
  | .mk _ _ _ _ _ kids _ => 2 + sumH kids
/-- Steps `_inner_block_in_inline(box, …)` may need. -/
def needI : KBox → Nat
  | .mk _ _ _ _ _ kids _ => 2 + sumG kids
/-- Steps spent on the blocks found below `box` through inline boxes: one loop iteration and one
`block_in_inline` each. -/
def blkW : KBox → Nat
  | .mk _ _ _ _ _ kids _ => sumB kids
def sumH : List KBox → Nat
  | [] => 0
  | c :: cs => (1 + (if Gen.isSub c.kind .LineBox then 2 + needI c + blkW c else needA c)) + sumH cs
def sumG : List KBox → Nat
  | [] => 0
  | c :: cs =>
    (if isBlk c then 1 else 1 + (if Gen.isSub c.kind .InlineBox then needI c else needA c)) + sumG cs
def sumB : List KBox → Nat
  | [] => 0
  | c :: cs => (if isBlk c then 1 + needA c else if Gen.isSub c.kind .InlineBox then blkW c else 0) + sumB cs
end

mutual
/-- Number of boxes of a tree (children only). -/
def sz : KBox → Nat
  | .mk _ _ _ _ _ kids _ => 1 + szL kids
def szL : List KBox → Nat
  | [] => 0
  | c :: cs => sz c + szL cs
end

theorem sz_pos (b : KBox) : 1 ≤ sz b := by
  obtain ⟨k, st, el, inst, text, kids, cols⟩ := b
  simp [sz]

mutual
/-- The needs are linear in the number of boxes. -/
theorem need_linear : ∀ (b : KBox), needA b + 2 ≤ 5 * sz b ∧ needI b + blkW b + 3 ≤ 5 * sz b
  | .mk k st el inst text kids cols => by
    obtain ⟨h1, h2⟩ := sums_linear kids
    simp only [needA, needI, blkW, sz]
    omega
theorem sums_linear : ∀ (l : List KBox), sumH l ≤ 5 * szL l ∧ sumG l + sumB l ≤ 5 * szL l
  | [] => by simp [sumH, sumG, sumB, szL]
  | c :: cs => by
    obtain ⟨a1, a2⟩ := need_linear c
    obtain ⟨b1, b2⟩ := sums_linear cs
    have hp := sz_pos c
    simp only [sumH, sumG, sumB, szL]
    refine ⟨?_, ?_⟩
    · split <;> omega
    · by_cases hb : isBlk c = true
      · simp only [hb, if_true]; omega
      · simp only [hb, Bool.false_eq_true, if_false]
        split <;> omega
end


/-! ### the blocks still to be found after a resume position -/

/-- Weight of the blocks reachable (through inline boxes) after position `stack` in `box`. -/
def bwAt : KBox → List Nat → Nat
  | box, [] => sumB box.kids
  | box, i :: tl =>
    match tl, box.kids.drop i with
    | [], ks => sumB ks
    | _ :: _, c :: rest => bwAt c tl + sumB rest
    | _ :: _, [] => 0

def kidsBw (kids : List KBox) (stack : List Nat) : Nat :=
  match stack, kids with
  | [], ks => sumB ks
  | _ :: _, c :: rest => bwAt c stack + sumB rest
  | _ :: _, [] => 0

def resumeBw (kids : List KBox) (idx : Nat) (res : List Nat) : Nat :=
  match res with
  | [] => 0
  | j :: tl => kidsBw (kids.drop (j - idx)) tl

theorem bwAt_cons (box : KBox) (i : Nat) (tl : List Nat) : bwAt box (i :: tl) = kidsBw (box.kids.drop i) tl := by
  cases tl with
  | nil => simp [bwAt, kidsBw]
  | cons t ts =>
    cases h : box.kids.drop i with
    | nil => simp [bwAt, kidsBw, h]
    | cons c rest => simp [bwAt, kidsBw, h]

theorem bwAt_nil (box : KBox) : bwAt box [] = sumB box.kids := by simp [bwAt]

theorem kidsBw_nil (kids : List KBox) : kidsBw kids [] = sumB kids := by cases kids <;> simp [kidsBw]

theorem blkW_eq (c : KBox) : blkW c = sumB c.kids := by
  obtain ⟨k, st, el, inst, text, kids, cols⟩ := c; simp [blkW, KBox.kids]

theorem kidsBw_inline (c : KBox) (cs : List KBox) (stack : List Nat) (hb : isBlk c = false)
    (hi : c.isA .InlineBox = true) : kidsBw (c :: cs) stack = bwAt c stack + sumB cs := by
  cases stack with
  | nil =>
    have hi' : Gen.isSub c.kind .InlineBox = true := hi
    simp [kidsBw, sumB, hb, hi', bwAt_nil, blkW_eq]
  | cons i tl => simp [kidsBw]

theorem resumeBw_shift (c : KBox) (cs : List KBox) (idx j : Nat) (tl : List Nat) (h : idx + 1 ≤ j) :
    resumeBw (c :: cs) idx (j :: tl) = resumeBw cs (idx + 1) (j :: tl) := by
  simp only [resumeBw]
  have : j - idx = (j - (idx + 1)) + 1 := by omega
  rw [this, List.drop_succ_cons]

structure BiiDec (n : Nat) : Prop where
  inner : ∀ (box : KBox) (stack : List Nat) (box' : KBox) (blk : Option KBox) (resume : List Nat),
    inner n box stack = .ok (box', blk, resume) →
    match blk with
    | none => bwAt box stack = 0
    | some b => (1 + needA b) + bwAt box resume = bwAt box stack ∧ resume ≠ []
  innerKids : ∀ (kids : List KBox) (idx : Nat) (stack : List Nat) (acc : List KBox) (r : InnerLoop),
    innerKids n kids idx stack acc = .ok r →
    match r with
    | .found _ b res => (1 + needA b) + resumeBw kids idx res = kidsBw kids stack ∧ ∃ j tl, res = j :: tl ∧ idx ≤ j
    | .done _ => kidsBw kids stack = 0

theorem biiDec : ∀ n, BiiDec n
  | 0 => by
    refine ⟨?_, ?_⟩
    · intro box stack box' blk resume h; unfold Wp.Bx.inner at h; cases h
    · intro kids idx stack acc r h; unfold Wp.Bx.innerKids at h; cases h
  | n + 1 => by
    have IH := biiDec n
    refine ⟨?_, ?_⟩
    · intro box stack box' blk resume h
      unfold Wp.Bx.inner at h
      simp only at h
      cases stack with
      | nil =>
        simp only [List.drop_zero] at h
        split at h
        · cases h
        · rename_i ks b res hik
          have := IH.innerKids _ _ _ [] (.found ks b res) hik
          simp only [kidsBw_nil] at this
          obtain ⟨t1, j, tl, rfl, _⟩ := this
          cases h
          refine ⟨?_, by simp⟩
          rw [bwAt_cons, bwAt_nil]
          simpa [resumeBw] using t1
        · rename_i ks hik
          have := IH.innerKids _ _ _ [] (.done ks) hik
          simp only [kidsBw_nil] at this
          cases h
          simpa [bwAt_nil] using this
      | cons i tl =>
        simp only at h
        split at h
        · cases h
        · rename_i ks b res hik
          have := IH.innerKids _ _ _ [] (.found ks b res) hik
          simp only at this
          obtain ⟨t1, j, tl', rfl, hj⟩ := this
          cases h
          refine ⟨?_, by simp⟩
          rw [bwAt_cons, bwAt_cons]
          simp only [resumeBw, List.drop_drop] at t1
          have : i + (j - i) = j := by omega
          rw [this] at t1
          exact t1
        · rename_i ks hik
          have := IH.innerKids _ _ _ [] (.done ks) hik
          simp only at this
          cases h
          simp only
          rw [bwAt_cons]; exact this
    · intro kids idx stack acc r h
      cases kids with
      | nil =>
        unfold Wp.Bx.innerKids at h
        cases h
        cases stack <;> simp [kidsBw, sumB]
      | cons c cs =>
        unfold Wp.Bx.innerKids at h
        split at h
        · rename_i hblk
          split at h
          · cases h
          · rename_i hst
            cases h
            have : stack = [] := by simpa using hst
            subst this
            have hb : isBlk c = true := hblk
            refine ⟨?_, idx + 1, [], rfl, by omega⟩
            simp [resumeBw, kidsBw, sumB, hb]
        · rename_i hblk
          have hb : isBlk c = false := by
            unfold isBlk; simpa using hblk
          split at h
          · rename_i hinl
            split at h
            · cases h
            · rename_i c' blk resume hin
              have := IH.inner c stack c' (some blk) resume hin
              simp only at this
              obtain ⟨h1, hne⟩ := this
              cases h
              refine ⟨?_, idx, resume, rfl, Nat.le_refl _⟩
              rw [kidsBw_inline c cs stack hb hinl, ← h1]
              simp only [resumeBw, Nat.sub_self, List.drop_zero]
              cases resume with
              | nil => exact absurd rfl hne
              | cons r rs => simp [kidsBw]; omega
            · rename_i c' _ hin
              have h0 := IH.inner c stack c' none _ hin
              simp only at h0
              have := IH.innerKids cs (idx + 1) [] (c' :: acc) r h
              rw [kidsBw_inline c cs stack hb hinl, h0]
              cases r with
              | found ks' b res =>
                simp only at this ⊢
                obtain ⟨t1, j, tl, rfl, hj⟩ := this
                refine ⟨?_, j, tl, rfl, by omega⟩
                rw [resumeBw_shift c cs idx j tl hj, t1, kidsBw_nil]; omega
              | done ks' =>
                simp only at this ⊢
                rw [kidsBw_nil] at this; omega
          · rename_i hinl
            split at h
            · cases h
            · rename_i hst
              have hs : stack = [] := by simpa using hst
              subst hs
              split at h
              · cases h
              · rename_i c' hc'
                have := IH.innerKids cs (idx + 1) [] (c' :: acc) r h
                have hi' : Gen.isSub c.kind .InlineBox = false := by
                  have : c.isA .InlineBox = false := by simpa using hinl
                  exact this
                have hk : kidsBw (c :: cs) [] = sumB cs := by
                  simp [kidsBw, sumB, hb, hi']
                rw [hk]
                cases r with
                | found ks' b res =>
                  simp only at this ⊢
                  obtain ⟨t1, j, tl, rfl, hj⟩ := this
                  refine ⟨?_, j, tl, rfl, by omega⟩
                  rw [resumeBw_shift c cs idx j tl hj, t1, kidsBw_nil]
                | done ks' =>
                  simp only at this ⊢
                  rw [kidsBw_nil] at this; exact this


/-! ### sufficiency -/

/-- The run did not stop for lack of fuel. -/
def NoFuel {α : Type} (r : Except BErr α) : Prop := r ≠ .error .fuel

theorem sumG_drop (l : List KBox) (k : Nat) : sumG (l.drop k) ≤ sumG l := by
  induction l generalizing k with
  | nil => simp
  | cons c cs ih =>
    cases k with
    | zero => simp
    | succ k =>
      simp only [List.drop_succ_cons, sumG]
      have := ih k
      omega

theorem needI_eq (b : KBox) : needI b = 2 + sumG b.kids := by
  obtain ⟨k, st, el, inst, text, kids, cols⟩ := b; simp [needI, KBox.kids]

theorem needA_eq (b : KBox) : needA b = 2 + sumH b.kids := by
  obtain ⟨k, st, el, inst, text, kids, cols⟩ := b; simp [needA, KBox.kids]

structure BiiFuel (n : Nat) : Prop where
  bii : ∀ (b : KBox), needA b ≤ n → NoFuel (bii n b)
  kids : ∀ (parent : KBox) (kids : List KBox), 1 + sumH kids ≤ n → NoFuel (biiKids n parent kids)
  line : ∀ (parent line : KBox) (stack : List Nat) (emitted : Bool),
    1 + needI line + bwAt line stack ≤ n → NoFuel (biiLine n parent line stack emitted)
  inner : ∀ (box : KBox) (stack : List Nat), needI box ≤ n → NoFuel (inner n box stack)
  innerKids : ∀ (kids : List KBox) (idx : Nat) (stack : List Nat) (acc : List KBox),
    1 + sumG kids ≤ n → NoFuel (innerKids n kids idx stack acc)

theorem biiFuelOk : ∀ n, BiiFuel n
  | 0 => by
    refine ⟨?_, ?_, ?_, ?_, ?_⟩
    · intro b h; rw [needA_eq] at h; omega
    · intro p k h; omega
    · intro p l s e h; omega
    · intro b s h; rw [needI_eq] at h; omega
    · intro k i s a h; omega
  | n + 1 => by
    have IH := biiFuelOk n
    refine ⟨?_, ?_, ?_, ?_, ?_⟩
    · intro b hn hf
      rw [needA_eq] at hn
      unfold Wp.Bx.bii at hf
      split at hf
      · cases hf
      · split at hf
        · rename_i e he
          cases hf
          exact IH.kids b b.kids (by omega) he
        · cases hf
    · intro parent kids hn hf
      cases kids with
      | nil => unfold biiKids at hf; cases hf
      | cons c cs =>
        simp only [sumH] at hn
        unfold biiKids at hf
        split at hf
        · rename_i hline
          have hl : Gen.isSub c.kind .LineBox = true := hline
          simp only [hl, if_true] at hn
          split at hf
          · cases hf
          · split at hf
            · rename_i e he
              cases hf
              exact IH.line parent c [] false (by rw [bwAt_nil, ← blkW_eq]; omega) he
            · split at hf
              · rename_i e he
                cases hf
                exact IH.kids parent cs (by omega) he
              · cases hf
        · rename_i hline
          have hl : Gen.isSub c.kind .LineBox = false := by
            have : c.isA .LineBox = false := by simpa using hline
            exact this
          simp only [hl, Bool.false_eq_true, if_false] at hn
          split at hf
          · rename_i e he
            cases hf
            exact IH.bii c (by omega) he
          · split at hf
            · rename_i e he
              cases hf
              exact IH.kids parent cs (by omega) he
            · cases hf
    · intro parent line stack emitted hn hf
      unfold biiLine at hf
      split at hf
      · rename_i e he
        cases hf
        exact IH.inner line stack (by omega) he
      · split at hf <;> cases hf
      · rename_i newLine block stack' hin
        have hd := (biiDec n).inner line stack newLine (some block) stack' hin
        simp only at hd
        split at hf
        · rename_i e he
          cases hf
          exact IH.bii block (by omega) he
        · split at hf
          · rename_i e he
            cases hf
            exact IH.line parent line stack' true (by omega) he
          · cases hf
    · intro box stack hn hf
      rw [needI_eq] at hn
      unfold Wp.Bx.inner at hf
      have key : ∀ k s', NoFuel (innerKids n (box.kids.drop k) k s' []) := by
        intro k s'
        refine IH.innerKids _ _ _ [] ?_
        have := sumG_drop box.kids k
        omega
      cases stack with
      | nil =>
        simp only at hf
        split at hf
        · rename_i e he; cases hf; exact key 0 [] he
        · cases hf
        · cases hf
      | cons i tl =>
        simp only at hf
        split at hf
        · rename_i e he; cases hf; exact key i tl he
        · cases hf
        · cases hf
    · intro kids idx stack acc hn hf
      cases kids with
      | nil => unfold Wp.Bx.innerKids at hf; cases hf
      | cons c cs =>
        simp only [sumG] at hn
        unfold Wp.Bx.innerKids at hf
        split at hf
        · split at hf <;> cases hf
        · rename_i hblk
          have hb : isBlk c = false := by unfold isBlk; simpa using hblk
          simp only [hb, Bool.false_eq_true, if_false] at hn
          split at hf
          · rename_i hinl
            have hi : Gen.isSub c.kind .InlineBox = true := hinl
            simp only [hi, if_true] at hn
            split at hf
            · rename_i e he
              cases hf
              exact IH.inner c stack (by omega) he
            · cases hf
            · exact IH.innerKids cs (idx + 1) [] _ (by omega) hf
          · rename_i hinl
            have hi : Gen.isSub c.kind .InlineBox = false := by
              have : c.isA .InlineBox = false := by simpa using hinl
              exact this
            simp only [hi, Bool.false_eq_true, if_false] at hn
            split at hf
            · cases hf
            · split at hf
              · rename_i e he
                cases hf
                exact IH.bii c (by omega) he
              · exact IH.innerKids cs (idx + 1) [] _ (by omega) hf

mutual
theorem sz_le_size : ∀ (b : KBox), sz b ≤ b.size
  | .mk k st el inst text kids cols => by
    have := szL_le_size kids
    simp only [sz, KBox.size]; omega
theorem szL_le_size : ∀ (l : List KBox), szL l ≤ KBox.sizeList l
  | [] => by simp [szL, KBox.sizeList]
  | c :: cs => by
    have := sz_le_size c
    have := szL_le_size cs
    simp only [szL, KBox.sizeList]; omega
end

/-- The fuel `create_anonymous_boxes` gives `block_in_inline` is never exhausted: the `while True`
loop over `_inner_block_in_inline` ends (each iteration finds a block strictly further on). -/
theorem bii_terminates (b : KBox) : bii (biiFuel b) b ≠ .error .fuel := by
  apply (biiFuelOk _).bii
  have := (need_linear b).1
  have := sz_le_size b
  unfold biiFuel
  omega

end Wp.Bx
