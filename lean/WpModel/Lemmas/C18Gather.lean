/-
Helper lemmas for C18: `gather_anchors` over a whole box tree is a left fold of the per-box body over
the pre-order list of boxes (each with the matrix in force).  Core Lean only.
-/
import WpModel.Model.Anchors

namespace Wp.C18
open Wp Wp.Anchors

/-- What the body of `gather_anchors` reads from one box, with the matrix in force for it. -/
structure Visit where
  kind : Kind
  hx : Rat
  hy : Rat
  hw : Rat
  hh : Rat
  label : String
  level : Option Int
  state : String
  link : Option (String × String)
  att : Bool
  anchor : Option String
  m : Option Matrix

def Visit.run (v : Visit) (acc : Acc) : Acc :=
  visit v.kind v.hx v.hy v.hw v.hh v.label v.level v.state v.link v.att v.anchor v.m acc

mutual
/-- The boxes of a tree in document (pre-)order, each with the accumulated transformation matrix. -/
def preorder : GBox → Option Matrix → List Visit
  | .mk kind transform ox oy bx bY bw bh hx hy hw hh label level state link att anchor kids, parent =>
    let m := matrixFor kind transform ox oy bx bY bw bh parent
    ⟨kind, hx, hy, hw, hh, label, level, state, link, att, anchor, m⟩ :: preorderList kids m
def preorderList : List GBox → Option Matrix → List Visit
  | [], _ => []
  | b :: rest, m => preorder b m ++ preorderList rest m
end

mutual
theorem gather_fold : ∀ (b : GBox) (m : Option Matrix) (acc : Acc),
    gather b m acc = (preorder b m).foldl (fun a v => v.run a) acc
  | .mk kind transform ox oy bx bY bw bh hx hy hw hh label level state link att anchor kids, m, acc => by
    simp only [gather, preorder, List.foldl_cons, Visit.run]
    exact gatherList_fold kids _ _
theorem gatherList_fold : ∀ (bs : List GBox) (m : Option Matrix) (acc : Acc),
    gatherList bs m acc = (preorderList bs m).foldl (fun a v => v.run a) acc
  | [], _, _ => rfl
  | b :: rest, m, acc => by
    simp only [gatherList, preorderList, List.foldl_append]
    rw [gather_fold b m acc]
    exact gatherList_fold rest m _
end

/-- The link entry a box contributes, if any. -/
def Visit.linkEntry (v : Visit) : Option Link :=
  if hasLink v.kind v.link then
    match v.link with
    | some (ty, target) =>
      some ⟨if ty == "external" && v.att then "attachment" else ty, target, rectangleAabb v.m v.hx v.hy v.hw v.hh⟩
    | none => none
  else none

/-- The bookmark a box contributes, if any. -/
def Visit.bookmarkEntry (v : Visit) : Option Bookmark :=
  if hasBookmark v.label v.level then
    match v.level with
    | some l => some ⟨l, v.label, (bookmarkPos v.m v.hx v.hy).1, (bookmarkPos v.m v.hx v.hy).2, v.state⟩
    | none => none
  else none

/-- The anchor a box carries (its name and where it points), whether or not it is the first. -/
def Visit.anchorEntry (v : Visit) : Option AnchorEntry :=
  match v.anchor with
  | none => none
  | some n =>
    if n != "" then
      let p1 := bookmarkPos v.m v.hx v.hy
      let p2 := bookmarkPos v.m (v.hx + v.hw) (v.hy + v.hh)
      some ⟨n, ⟨p1.1, p1.2, p2.1, p2.2⟩⟩
    else none

/-- Keep the first entry of each name. -/
def addFirst : List AnchorEntry → List AnchorEntry → List AnchorEntry
  | [], acc => acc
  | a :: rest, acc => if hasName a.name acc then addFirst rest acc else addFirst rest (acc ++ [a])

theorem run_links (v : Visit) (acc : Acc) : (v.run acc).links = acc.links ++ v.linkEntry.toList := by
  have h1 : ∀ (a : Acc) pos, (anchorStep v.anchor v.m pos v.hw v.hh a).links = a.links := by
    intro a pos; unfold anchorStep; split
    · split <;> rfl
    · rfl
  have h2 : ∀ (a : Acc) pos, (bookmarkStep v.label v.level v.state pos a).links = a.links := by
    intro a pos; unfold bookmarkStep; split
    · split <;> rfl
    · rfl
  unfold Visit.run visit
  rw [h1, h2]
  unfold linkStep Visit.linkEntry
  split
  · split <;> simp [*]
  · simp

theorem run_bookmarks (v : Visit) (acc : Acc) :
    (v.run acc).bookmarks = acc.bookmarks ++ v.bookmarkEntry.toList := by
  have h1 : ∀ (a : Acc) pos, (anchorStep v.anchor v.m pos v.hw v.hh a).bookmarks = a.bookmarks := by
    intro a pos; unfold anchorStep; split
    · split <;> rfl
    · rfl
  have h2 : (linkStep v.kind v.hx v.hy v.hw v.hh v.link v.att v.m acc).bookmarks = acc.bookmarks := by
    unfold linkStep; split
    · split <;> rfl
    · rfl
  unfold Visit.run visit
  rw [h1]
  unfold bookmarkStep Visit.bookmarkEntry
  split
  · split <;> simp [*]
  · simp [h2]

theorem run_anchors (v : Visit) (acc : Acc) :
    (v.run acc).anchors = addFirst v.anchorEntry.toList acc.anchors := by
  have h1 : ∀ (a : Acc) pos, (bookmarkStep v.label v.level v.state pos a).anchors = a.anchors := by
    intro a pos; unfold bookmarkStep; split
    · split <;> rfl
    · rfl
  have h2 : (linkStep v.kind v.hx v.hy v.hw v.hh v.link v.att v.m acc).anchors = acc.anchors := by
    unfold linkStep; split
    · split <;> rfl
    · rfl
  unfold Visit.run visit anchorStep Visit.anchorEntry
  simp only [h1, h2, hasAnchor]
  cases hv : v.anchor with
  | none => simp [addFirst, h1, h2]
  | some n =>
    simp only []
    by_cases hn : (n != "") = true
    · simp only [hn, Bool.true_and, if_true, Option.toList_some, addFirst]
      by_cases hh : hasName n acc.anchors = true
      · simp [hh, h1, h2]
      · have hh' : hasName n acc.anchors = false := by simpa using hh
        simp only [hh', Bool.not_false, if_true, Bool.false_eq_true, if_false]
        cases v.m <;> rfl
    · have hn' : (n != "") = false := by simpa using hn
      simp [hn', addFirst, h1, h2]

theorem addFirst_append (xs ys acc : List AnchorEntry) :
    addFirst (xs ++ ys) acc = addFirst ys (addFirst xs acc) := by
  induction xs generalizing acc with
  | nil => rfl
  | cons a xs ih => simp only [List.cons_append, addFirst]; split <;> exact ih _

theorem fold_links (vs : List Visit) (acc : Acc) :
    (vs.foldl (fun a v => v.run a) acc).links = acc.links ++ vs.filterMap Visit.linkEntry := by
  induction vs generalizing acc with
  | nil => simp
  | cons v vs ih =>
    simp only [List.foldl_cons, ih, run_links, List.filterMap_cons, List.append_assoc]
    cases v.linkEntry <;> simp

theorem fold_bookmarks (vs : List Visit) (acc : Acc) :
    (vs.foldl (fun a v => v.run a) acc).bookmarks = acc.bookmarks ++ vs.filterMap Visit.bookmarkEntry := by
  induction vs generalizing acc with
  | nil => simp
  | cons v vs ih =>
    simp only [List.foldl_cons, ih, run_bookmarks, List.filterMap_cons, List.append_assoc]
    cases v.bookmarkEntry <;> simp

theorem fold_anchors (vs : List Visit) (acc : Acc) :
    (vs.foldl (fun a v => v.run a) acc).anchors = addFirst (vs.filterMap Visit.anchorEntry) acc.anchors := by
  induction vs generalizing acc with
  | nil => simp [addFirst]
  | cons v vs ih =>
    simp only [List.foldl_cons, ih, run_anchors, List.filterMap_cons]
    cases v.anchorEntry with
    | none => simp [addFirst]
    | some a => simp only [Option.toList_some, addFirst]; split <;> rfl



theorem hasName_mem (n : String) (l : List AnchorEntry) : hasName n l = true ↔ n ∈ l.map (·.name) := by
  induction l with
  | nil => simp [hasName]
  | cons a l ih =>
    simp only [hasName, Bool.or_eq_true, beq_iff_eq, List.map_cons, List.mem_cons, ih]
    constructor
    · rintro (h | h)
      · left; exact h.symm
      · right; exact h
    · rintro (h | h)
      · left; exact h.symm
      · right; exact h

/-- `addFirst` only appends: what was recorded stays, in place. -/
theorem addFirst_prefix (xs : List AnchorEntry) : ∀ (acc : List AnchorEntry), ∃ t, addFirst xs acc = acc ++ t := by
  induction xs with
  | nil => intro acc; exact ⟨[], by simp [addFirst]⟩
  | cons a xs ih =>
    intro acc
    simp only [addFirst]
    split
    · exact ih acc
    · obtain ⟨t, ht⟩ := ih (acc ++ [a])
      exact ⟨a :: t, by rw [ht]; simp⟩

/-- The entry recorded for a name that was not recorded before is the first candidate with that name. -/
theorem addFirst_first (xs : List AnchorEntry) :
    ∀ (acc : List AnchorEntry) (n : String), hasName n acc = false →
      (addFirst xs acc).find? (fun a => a.name == n) = xs.find? (fun a => a.name == n) := by
  induction xs with
  | nil =>
    intro acc n hn
    simp only [addFirst, List.find?_nil]
    rw [List.find?_eq_none]
    intro a ha hname
    have : hasName n acc = true := (hasName_mem n acc).mpr (by
      have e : a.name = n := by simpa using hname
      rw [← e]; exact List.mem_map_of_mem ha)
    rw [this] at hn; cases hn
  | cons a xs ih =>
    intro acc n hn
    simp only [addFirst, List.find?_cons]
    by_cases he : (a.name == n) = true
    · have e : a.name = n := by simpa using he
      rw [he, e, hn]
      simp only [Bool.false_eq_true, if_false]
      -- `a` is appended right after `acc`, and nothing in `acc` has the name
      obtain ⟨t, ht⟩ := addFirst_prefix xs (acc ++ [a])
      rw [ht, List.append_assoc, List.find?_append]
      have : acc.find? (fun x => x.name == n) = none := by
        rw [List.find?_eq_none]
        intro x hx hname
        have : hasName n acc = true := (hasName_mem n acc).mpr (by
          have e2 : x.name = n := by simpa using hname
          rw [← e2]; exact List.mem_map_of_mem hx)
        rw [this] at hn; cases hn
      rw [this]
      simp [he]
    · have he' : (a.name == n) = false := by simpa using he
      rw [he']
      split
      · exact ih acc n hn
      · apply ih
        have : hasName n (acc ++ [a]) = false := by
          rw [Bool.eq_false_iff]
          intro h
          have := (hasName_mem n (acc ++ [a])).mp h
          simp only [List.map_append, List.map_cons, List.map_nil, List.mem_append, List.mem_cons, List.not_mem_nil,
            or_false] at this
          rcases this with h1 | h1
          · have := (hasName_mem n acc).mpr h1
            rw [this] at hn; cases hn
          · rw [h1] at he'; simp at he'
        exact this

end Wp.C18
