/-
`Mono` (streams keep their resource dictionary, dictionaries only grow) for every step of the document machine and
along whole runs.  Core Lean only.
-/
import WpModel.Lemmas.GradientDraw
namespace Wp.Pdf

theorem addPattern_mono (w w' : World) (h : Nat) (hstep : w.step (.addPattern h) = .ok w') : Mono w w' := by
  simp only [World.step] at hstep
  split at hstep
  · simp at hstep
  · rename_i s hs
    split at hstep
    · simp at hstep
    · rename_i r hr
      simp at hstep; subst hstep
      have hjlt : s.res < w.res.length := (List.getElem?_eq_some_iff.mp hr).1
      refine ⟨?_, ?_⟩
      · intro i t ht
        have hlt : i < w.streams.length := (List.getElem?_eq_some_iff.mp ht).1
        exact ⟨t, by simp [List.getElem?_append_left hlt, ht], rfl⟩
      · intro j q hq
        have hlt : j < w.res.length := (List.getElem?_eq_some_iff.mp hq).1
        by_cases e : s.res = j
        · subst e
          rw [hr] at hq; cases hq
          refine ⟨{ r with pattern := r.pattern ++ [w.streams.length] }, ?_,
            ⟨fun _ h => h, fun _ h => h, Nat.le_refl _, by simp⟩⟩
          rw [List.getElem?_append_left (by simpa using hjlt)]
          simp [hjlt]
        · refine ⟨q, ?_, Res.le.refl q⟩
          rw [List.getElem?_append_left (by simpa using hlt), List.getElem?_set]
          simp [e, hq]

theorem addImage_mono (w w' : World) (h : Nat) (id : String) (interp : Bool) (ratio : Num)
    (hstep : w.step (.addImage h id interp ratio) = .ok w') : Mono w w' := by
  simp only [World.step] at hstep
  split at hstep
  · simp at hstep
  · rename_i s hs
    split at hstep
    · simp at hstep
    · rename_i r hr
      simp at hstep; subst hstep
      have hjlt : s.res < w.res.length := (List.getElem?_eq_some_iff.mp hr).1
      refine ⟨fun i t ht => ⟨t, ht, rfl⟩, ?_⟩
      intro j q hq
      by_cases e : s.res = j
      · subst e
        rw [hr] at hq; cases hq
        refine ⟨if r.hasX (XKey.img id interp) = true then r
          else { r with xobj := r.xobj ++ [(XKey.img id interp, none)] }, by simp [hjlt], ?_⟩
        split
        · exact Res.le.refl r
        · exact xobj_add_le _ _ _
      · exact ⟨q, by simp [List.getElem?_set, e, hq], Res.le.refl q⟩

theorem append_stream_mono (w : World) (g : SState) :
    Mono w { w with streams := w.streams ++ [g] } := by
  refine ⟨?_, fun j q hq => ⟨q, hq, Res.le.refl q⟩⟩
  intro i t ht
  have hlt : i < w.streams.length := (List.getElem?_eq_some_iff.mp ht).1
  exact ⟨t, by simp [List.getElem?_append_left hlt, ht], rfl⟩

/-- **Every scoped step of the document machine keeps every stream on its resource dictionary and only grows the
dictionaries.** -/
theorem World.step_mono (w w' : World) (c : WCall) (hs : c.scoped w) (hstep : w.step c = .ok w') : Mono w w' := by
  cases c with
  | on h c => exact onCall_mono w w' h c hs hstep
  | addGroup h => exact addGroup_mono w w' h hstep
  | addPattern h => exact addPattern_mono w w' h hstep
  | addShading h => exact (addShading_mono w w' h hstep).1
  | addImage h id interp ratio => exact addImage_mono w w' h id interp ratio hstep
  | setAlphaState h =>
    simp only [World.step] at hstep
    split at hstep
    · simp at hstep
    · rename_i w1 hg
      exact (addGroup_mono w w1 h hg).trans (onCall_mono w1 w' h .softMaskState (by intro s r _ _; trivial) hstep)
  | clone h =>
    simp only [World.step] at hstep
    split at hstep
    · simp at hstep
    · simp at hstep; subst hstep; exact append_stream_mono w _
  | newPage =>
    simp only [World.step] at hstep
    simp at hstep; subst hstep; exact append_stream_mono w _
  | assignSh h n => exact assignSh_mono w w' h n hstep

theorem World.run_mono (cs : List WCall) (w w' : World) (hs : ScopedRun w cs) (hrun : w.run cs = .ok w') :
    Mono w w' := by
  induction cs generalizing w with
  | nil => simp [World.run] at hrun; subst hrun; exact Mono.refl w
  | cons c cs ih =>
    simp only [World.run] at hrun
    split at hrun
    · rename_i w1 h1
      exact (World.step_mono w w1 c hs.1 h1).trans (ih w1 (hs.2 w1 h1) hrun)
    · simp at hrun

end Wp.Pdf
