/-
Geometry of the paragraph part of the extended model: a placed line (at the position `avoid_collisions`
gave it, below the floats) fits on the page unless it is the first line placed on an empty page.
-/
import WpModel.Lemmas.OofLines
import WpModel.Lemmas.ParaGeo

namespace Wp.PMO
open Wp Wp.PM

theorem lineLoop_fits (c : Ctx) (st : PStyle) (b : BoxSt) (n : Nat) (lineH : Rat) (pie : Bool) (bs : Rat)
    (shapes : List Shape) (k : Nat) (fuel i : Nat) (y : Rat) (s : LineLoop) (hdeco : 0 ≤ b.bb + b.pb)
    (hfirst : s.lines = [] → i = k) (hs : ∀ p ∈ s.lines, LineFits c bs lineH pie k p) :
    ∀ p ∈ outLines (lineLoop c st b n lineH pie bs shapes fuel i y s), LineFits c bs lineH pie k p := by
  fun_induction lineLoop c st b n lineH pie bs shapes fuel i y s with
  | case1 i y s => simpa [outLines] using hs
  | case2 fuel i y0 s y resume newPosY dbd offset overflow hov abort stop r lines' hb =>
    intro p hp
    simp only [outLines] at hp
    have hsub := breakLine_lines_sub st n i s.lines pie s.skip resume
    rw [hb] at hsub
    exact hs p (hsub p hp)
  | case3 fuel i y0 s y resume newPosY dbd offset overflow hov shift newPosY' lineY mt' ih =>
    apply ih
    · intro h; simp at h
    · intro p hp
      rcases List.mem_append.mp hp with hp | hp
      · exact hs p hp
      · simp only [List.mem_singleton] at hp
        subst hp
        have hoff : 0 ≤ offset := by
          show 0 ≤ (if dbd = true then b.bb + b.pb else 0)
          split
          · exact hdeco
          · exact Rat.le_refl
        by_cases hfirstLine : s.lines = [] ∧ pie = true
        · left
          exact ⟨hfirstLine.2, hfirst hfirstLine.1⟩
        · right
          have hcond : (!s.lines.isEmpty || !pie) = true := by
            cases hl : s.lines with
            | nil =>
              have : pie = false := by
                cases hp : pie with
                | false => rfl
                | true => exact absurd ⟨hl, hp⟩ hfirstLine
              simp [this]
            | cons a l => simp
          have hno : c.overflowsPage bs (newPosY + offset) = false := by
            have : overflow = false := by simpa using hov
            have h2 : ((!s.lines.isEmpty || !pie) && c.overflowsPage bs (newPosY + offset)) = false := this
            rw [hcond] at h2
            simpa using h2
          have hno' : c.overflowsPage bs newPosY = false :=
            not_overflowsPage_of_le c bs _ _ (by grind) hno
          have hshift : shift = false := by
            show (pie && c.overflowsPage bs newPosY) = false
            rw [hno']; simp
          show c.overflowsPage bs (lineY + lineH) = false
          have : lineY = y := by
            show (if shift = true then y - s.mt else y) = y
            rw [hshift]; simp
          rw [this]
          exact hno'

theorem lineboxLayout_lines (c : Ctx) (st : PStyle) (b : BoxSt) (n : Nat) (lineH : Rat) (pie : Bool)
    (adj : List Rat) (bs posY : Rat) (skip : Option Resume) (dbd : Bool) (shapes : List Shape) :
    (lineboxLayout c st b n lineH pie adj bs posY skip dbd shapes).lines =
      outLines (lineboxLoop c st b n lineH pie adj bs posY skip dbd shapes) := by
  unfold lineboxLayout
  split <;> simp_all [outLines]

/-! ### `avoid_collisions` only pushes down -/

theorem minRat_mem (l : List Rat) (m : Rat) (h : minRat l = some m) : m ∈ l := by
  induction l generalizing m with
  | nil => simp [minRat] at h
  | cons x xs ih =>
    simp only [minRat] at h
    cases hx : minRat xs with
    | none => rw [hx] at h; simp at h; simp [h]
    | some m' =>
      rw [hx] at h
      simp only [Option.some.injEq] at h
      split at h
      · simp [← h]
      · rw [← h]; simp [ih m' hx]

theorem avoidY_ge (shapes : List Shape) (h : Rat) (fuel : Nat) (y : Rat) : y ≤ avoidY shapes h fuel y := by
  induction fuel generalizing y with
  | zero => simp [avoidY]
  | succ k ih =>
    unfold avoidY
    dsimp only
    split
    · exact Rat.le_refl
    · rename_i y' hm
      have hmem := minRat_mem _ _ hm
      simp only [List.mem_filter, decide_eq_true_eq] at hmem
      exact Rat.le_trans (Rat.le_of_lt hmem.2) (ih y')

end Wp.PMO
