/-
Helper lemmas for Props/C13: concrete object size (contain / cover), object-fit, Python `round`,
`round` repeat, inversion of `layoutBackgroundLayer`.
-/
import WpModel.Lemmas.Replaced
import WpModel.Model.ReplacedBg

set_option linter.unusedSimpArgs false
set_option linter.unusedVariables false

namespace Wp.C13
open Wp Wp.Replaced


theorem contain_fits (cw ch r w h : Rat) (hr : 0 < r)
    (hres : containSizing cw ch (some r) = .ok (w, h)) :
    w ≤ cw ∧ h ≤ ch ∧ (w = cw ∨ h = ch) ∧ w = h * r := by
  unfold containSizing constraintSizing pyDiv at hres
  have hr0 : r ≠ 0 := ne_of_gt hr
  by_cases hc : cw > ch * r
  · simp [hc] at hres
    obtain ⟨rfl, rfl⟩ := hres
    exact ⟨le_of_lt hc, le_refl _, Or.inr rfl, rfl⟩
  · simp [hc, hr0] at hres
    obtain ⟨rfl, rfl⟩ := hres
    have h1 : cw ≤ ch * r := not_lt.mp hc
    refine ⟨le_refl _, ?_, Or.inl rfl, ?_⟩
    · rw [div_le_iff₀ hr]; exact h1
    · field_simp

theorem cover_covers (cw ch r w h : Rat) (hr : 0 < r)
    (hres : coverSizing cw ch (some r) = .ok (w, h)) :
    cw ≤ w ∧ ch ≤ h ∧ (w = cw ∨ h = ch) ∧ w = h * r := by
  unfold coverSizing constraintSizing pyDiv at hres
  have hr0 : r ≠ 0 := ne_of_gt hr
  by_cases hc : cw > ch * r
  · simp [hc, hr0] at hres
    obtain ⟨rfl, rfl⟩ := hres
    refine ⟨le_refl _, ?_, Or.inl rfl, ?_⟩
    · rw [le_div_iff₀ hr]; exact le_of_lt hc
    · field_simp
  · simp [hc] at hres
    obtain ⟨rfl, rfl⟩ := hres
    exact ⟨not_lt.mp hc, le_refl _, Or.inr rfl, rfl⟩

theorem constraint_no_ratio (cw ch : Rat) (cover : Bool) :
    constraintSizing cw ch none cover = .ok (cw, ch) := rfl

/-- With a positive ratio the constraint algorithms never fail. -/
theorem constraint_total (cw ch r : Rat) (hr : r ≠ 0) (cover : Bool) :
    ∃ p, constraintSizing cw ch (some r) cover = .ok p := by
  simp only [constraintSizing, pyDiv, if_neg hr, bind, Except.bind, pure, Except.pure]
  split_ifs <;> exact ⟨_, rfl⟩

theorem placeAxis_pct_range (far : Bool) (p ref : Rat) (hp0 : 0 ≤ p) (hp1 : p ≤ 100) (href : 0 ≤ ref) :
    0 ≤ placeAxis far (.pct p) ref ∧ placeAxis far (.pct p) ref ≤ ref := by
  have h1 : 0 ≤ ref * p / 100 := div_nonneg (mul_nonneg href hp0) (by norm_num)
  have h2 : ref * p / 100 ≤ ref := by
    rw [div_le_iff₀ (by norm_num : (0:Rat) < 100)]; nlinarith
  unfold placeAxis percentage
  cases far <;> simp <;> constructor <;> linarith

/-- Draw sizes no larger than the content box, for the three `object-fit` values that promise it. -/
theorem drawSize_inside (g : Geom) (fit : ObjectFit) (ratio : Option Rat) (iw ih dw dh : Rat)
    (hfit : fit = .fill ∨ fit = .contain ∨ fit = .scaleDown)
    (hratio : ∀ r, ratio = some r → 0 < r)
    (hres : drawSize g fit ratio iw ih = .ok (dw, dh)) : dw ≤ g.width ∧ dh ≤ g.height := by
  have hcontain : ∀ cw ch, containSizing g.width g.height ratio = .ok (cw, ch) → cw ≤ g.width ∧ ch ≤ g.height := by
    intro cw ch hc
    rcases Option.eq_none_or_eq_some ratio with h | ⟨r, h⟩
    · subst h
      have := constraint_no_ratio g.width g.height false
      unfold containSizing at hc; rw [this] at hc
      obtain ⟨rfl, rfl⟩ := Prod.mk.inj (Except.ok.inj hc)
      exact ⟨le_refl _, le_refl _⟩
    · subst h
      obtain ⟨h1, h2, _, _⟩ := contain_fits _ _ r cw ch (hratio r rfl) hc
      exact ⟨h1, h2⟩
  rcases hfit with rfl | rfl | rfl
  · simp [drawSize] at hres; obtain ⟨rfl, rfl⟩ := hres; exact ⟨le_refl _, le_refl _⟩
  · exact hcontain dw dh hres
  · simp only [drawSize, bind, Except.bind, pure, Except.pure] at hres
    rcases hc : containSizing g.width g.height ratio with e | ⟨cw, ch⟩
    · simp [hc] at hres
    · simp [hc] at hres
      obtain ⟨rfl, rfl⟩ := hres
      obtain ⟨h1, h2⟩ := hcontain cw ch hc
      exact ⟨le_trans (min_le_left _ _) h1, le_trans (min_le_left _ _) h2⟩



/-- Python's `round`: an integer within one half of the argument. -/
theorem roundHalfEven_near (q : Rat) :
    (roundHalfEven q : Rat) - q ≤ 1 / 2 ∧ q - (roundHalfEven q : Rat) ≤ 1 / 2 := by
  have h1 := Rat.floor_le q
  have h2 := Rat.lt_floor_add_one q
  push_cast at h2
  unfold roundHalfEven
  simp only []
  split_ifs with ha hb hc
  · constructor <;> linarith
  · push_cast; constructor <;> linarith
  · have : q - (q.floor : Rat) = 1 / 2 := le_antisymm (not_lt.mp hb) (not_lt.mp ha)
    constructor <;> linarith
  · have : q - (q.floor : Rat) = 1 / 2 := le_antisymm (not_lt.mp hb) (not_lt.mp ha)
    push_cast; constructor <;> linarith

/-- `round` repeat: an integer number of tiles, at least one, exactly filling the positioning area. -/
theorem roundTiles_spec (positioning image : Rat) (n : Int) (s : Rat)
    (hres : roundTiles positioning image = .ok (n, s)) :
    1 ≤ n ∧ s * (n : Rat) = positioning ∧ image ≠ 0 ∧
    (1 / 2 ≤ positioning / image → (n : Rat) - positioning / image ≤ 1 / 2 ∧ positioning / image - (n : Rat) ≤ 1 / 2) := by
  unfold roundTiles pyDiv at hres
  by_cases hi : image = 0
  · simp [hi, bind, Except.bind] at hres
  · simp [hi, bind, Except.bind, pure, Except.pure] at hres
    obtain ⟨rfl, rfl⟩ := hres
    obtain ⟨a, b⟩ := roundHalfEven_near (positioning / image)
    generalize hR : roundHalfEven (positioning / image) = R at *
    generalize hN : max 1 R = N
    have hn : (1 : Int) ≤ N := by rw [← hN]; exact le_max_left _ _
    have hn' : (N : Rat) ≠ 0 := by
      have : (0 : Int) < N := by omega
      exact_mod_cast ne_of_gt this
    have hcast : max (1 : Rat) (R : Rat) = (N : Rat) := by rw [← hN]; push_cast; rfl
    refine ⟨hn, by rw [hcast]; field_simp, hi, fun hq => ?_⟩
    by_cases hR1 : 1 ≤ R
    · have : N = R := by rw [← hN]; exact max_eq_right hR1
      rw [this]; exact ⟨a, b⟩
    · have hR0 : R ≤ 0 := by omega
      have hN1 : N = 1 := by rw [← hN]; exact max_eq_left (by omega)
      have hRq : (R : Rat) ≤ 0 := by exact_mod_cast hR0
      rw [hN1]; push_cast
      constructor <;> linarith

/-- Inversion of `layoutBackgroundLayer` when it yields an image layer. -/
theorem layer_inv (g : Geom) (kind : BoxKind) (pg : Geom) (i : Intr) (size : BgSize) (clip : BoxArea)
    (rx ry : Repeat) (origin : BoxArea) (pos : Position) (fixed : Bool) (pa : Rect) (l : Layer)
    (hres : layoutBackgroundLayer g kind pg (some i) size clip rx ry origin pos fixed = .ok ⟨pa, some l⟩) :
    ∃ positioning s p1 p2,
      positioningAreaOf g kind pg origin fixed = .ok positioning ∧
      concreteSize i size positioning.w positioning.h = .ok s ∧
      roundX rx ry size positioning.w
        ⟨s.1, s.2, placeAxis pos.fromRight pos.x (positioning.w - s.1),
          placeAxis pos.fromBottom pos.y (positioning.h - s.2)⟩ = .ok p1 ∧
      roundY rx ry size positioning.h p1 = .ok p2 ∧
      l = ⟨(p2.iw, p2.ih), (p2.px, p2.py), rx, ry, positioning⟩ := by
  unfold layoutBackgroundLayer at hres
  simp only [bind, Except.bind, pure, Except.pure] at hres
  rcases h0 : paintingArea g kind clip with e | painting
  · simp [h0] at hres
  · simp only [h0] at hres
    split_ifs at hres with hz
    · simp at hres
    · rcases h1 : positioningAreaOf g kind pg origin fixed with e | positioning
      · simp [h1] at hres
      · simp only [h1] at hres
        rcases h2 : concreteSize i size positioning.w positioning.h with e | s
        · simp [h2] at hres
        · simp only [h2] at hres
          rcases h3 : roundX rx ry size positioning.w
              ⟨s.1, s.2, placeAxis pos.fromRight pos.x (positioning.w - s.1),
                placeAxis pos.fromBottom pos.y (positioning.h - s.2)⟩ with e | p1
          · simp [h3] at hres
          · simp only [h3] at hres
            rcases h4 : roundY rx ry size positioning.h p1 with e | p2
            · simp [h4] at hres
            · simp only [h4] at hres
              simp at hres
              exact ⟨positioning, s, p1, p2, rfl, h2, h3, h4, hres.2.symm⟩

theorem roundX_spec (ry : Repeat) (size : BgSize) (pw : Rat) (p p' : Placed)
    (hres : roundX .round ry size pw p = .ok p') :
    (p.iw ≠ 0 → ∃ n : Int, 1 ≤ n ∧ p'.iw * (n : Rat) = pw ∧ p'.px = 0) ∧ (p.iw = 0 → p' = p) ∧ p'.py = p.py := by
  by_cases h0 : p.iw = 0
  · simp [roundX, h0, pure, Except.pure] at hres
    subst hres
    exact ⟨fun h => absurd h0 h, fun _ => rfl, rfl⟩
  · simp only [roundX, bind, Except.bind, pure, Except.pure] at hres
    have hc : (Repeat.round == Repeat.round && p.iw != 0) = true := by simp [h0]
    rw [if_pos hc] at hres
    rcases ht : roundTiles pw p.iw with e | ⟨n, s⟩
    · simp [ht] at hres
    · simp [ht] at hres
      obtain ⟨h1, h2, _, _⟩ := roundTiles_spec pw p.iw n s ht
      subst hres
      exact ⟨fun _ => ⟨n, h1, h2, rfl⟩, fun h => absurd h h0, rfl⟩

theorem roundY_spec (rx : Repeat) (size : BgSize) (ph : Rat) (p p' : Placed)
    (hres : roundY rx .round size ph p = .ok p') :
    (p.ih ≠ 0 → ∃ n : Int, 1 ≤ n ∧ p'.ih * (n : Rat) = ph ∧ p'.py = 0) ∧ (p.ih = 0 → p' = p) ∧
    p'.px = p.px ∧ (rx = .round → p'.iw = p.iw) := by
  by_cases h0 : p.ih = 0
  · simp [roundY, h0, pure, Except.pure] at hres
    subst hres
    exact ⟨fun h => absurd h0 h, fun _ => rfl, rfl, fun _ => rfl⟩
  · simp only [roundY, bind, Except.bind, pure, Except.pure] at hres
    have hc : (Repeat.round == Repeat.round && p.ih != 0) = true := by simp [h0]
    rw [if_pos hc] at hres
    rcases ht : roundTiles ph p.ih with e | ⟨n, s⟩
    · simp [ht] at hres
    · simp [ht] at hres
      obtain ⟨h1, h2, _, _⟩ := roundTiles_spec ph p.ih n s ht
      subst hres
      refine ⟨fun _ => ⟨n, h1, h2, rfl⟩, fun h => absurd h h0, rfl, fun h => ?_⟩
      subst h; simp

/-- Since the repair, the `round` steps never raise: the division happens only for a non-zero image size. -/
theorem roundTiles_total (positioning image : Rat) (h : image ≠ 0) : ∃ t, roundTiles positioning image = .ok t := by
  simp [roundTiles, pyDiv, h, bind, Except.bind, pure, Except.pure]

theorem roundX_total (rx ry : Repeat) (size : BgSize) (pw : Rat) (p : Placed) :
    ∃ p', roundX rx ry size pw p = .ok p' := by
  unfold roundX
  by_cases hc : (rx == Repeat.round && p.iw != 0) = true
  · have h0 : p.iw ≠ 0 := by simp at hc; exact hc.2
    obtain ⟨t, ht⟩ := roundTiles_total pw p.iw h0
    rw [if_pos hc]
    simp [ht, bind, Except.bind, pure, Except.pure]
  · rw [if_neg hc]; exact ⟨p, rfl⟩

theorem roundY_total (rx ry : Repeat) (size : BgSize) (ph : Rat) (p : Placed) :
    ∃ p', roundY rx ry size ph p = .ok p' := by
  unfold roundY
  by_cases hc : (ry == Repeat.round && p.ih != 0) = true
  · have h0 : p.ih ≠ 0 := by simp at hc; exact hc.2
    obtain ⟨t, ht⟩ := roundTiles_total ph p.ih h0
    rw [if_pos hc]
    simp [ht, bind, Except.bind, pure, Except.pure]
  · rw [if_neg hc]; exact ⟨p, rfl⟩

theorem roundY_not_round (rx ry : Repeat) (size : BgSize) (ph : Rat) (p p' : Placed) (hry : ry ≠ .round)
    (hres : roundY rx ry size ph p = .ok p') : p' = p := by
  have : (ry == Repeat.round) = false := by simpa using hry
  simp [roundY, this, pure, Except.pure] at hres
  exact hres.symm

theorem roundX_not_round (rx ry : Repeat) (size : BgSize) (pw : Rat) (p p' : Placed) (hrx : rx ≠ .round)
    (hres : roundX rx ry size pw p = .ok p') : p' = p := by
  have : (rx == Repeat.round) = false := by simpa using hrx
  simp [roundX, this, pure, Except.pure] at hres
  exact hres.symm


end Wp.C13
