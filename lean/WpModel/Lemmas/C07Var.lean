/-
C07 — helper lemmas about `parse_function` / `check_var_function` / `resolve_var` models: used by Props/C07*.lean.
-/
import WpModel.Model.VarSubst

namespace Wp.C07
open Wp Wp.Decl Wp.Var

theorem checkVar_leaf (t : Tk) (h : ∀ n l a, t ≠ .fn n l a) : checkVar t = false := by
  cases t with
  | fn n l a => exact absurd rfl (h n l a)
  | _ => simp [checkVar]

theorem checkVarArgs_false : ∀ (xs : List Tk), (∀ x ∈ xs, checkVar x = false) → checkVarArgs xs = false
  | [], _ => by simp [checkVarArgs]
  | x :: rest, h => by
    simp only [checkVarArgs, h x (by simp), Bool.false_or]
    exact checkVarArgs_false rest (fun y hy => h y (by simp [hy]))

/-- An argument list that parses to nothing is whitespace only. -/
theorem checkVarArgs_of_parse_nil : ∀ (a : List Tk) (b : Bool), parseArgs a b = some [] →
    checkVarArgs a = false
  | [], _, _ => by simp [checkVarArgs]
  | .ws :: rest, b, h => by
    simp only [parseArgs] at h
    simp only [checkVarArgs, checkVar, Bool.false_or]
    exact checkVarArgs_of_parse_nil rest b h
  | .comma :: rest, b, h => by
    simp only [parseArgs] at h
    cases b with
    | true => simp at h
    | false =>
      simp only [Bool.false_eq_true, if_false] at h
      simp only [checkVarArgs, checkVar, Bool.false_or]
      exact checkVarArgs_of_parse_nil rest true h
  | .ident v :: rest, b, h => by
    simp only [parseArgs, parses, if_true] at h
    cases hr : parseArgs rest false <;> simp [hr] at h
  | .leaf v :: rest, b, h => by
    simp only [parseArgs, parses, if_true] at h
    cases hr : parseArgs rest false <;> simp [hr] at h
  | .fn n l a :: rest, b, h => by
    simp only [parseArgs] at h
    split at h
    · cases hr : parseArgs rest false <;> simp [hr] at h
    · cases h

theorem varHead_not_var (l : String) (args : List Tk) (hl : (l != "var") = true) :
    varHead l args = none := by
  have hl' : (l == "var") = false := by simpa [bne] using hl
  simp [varHead, hl']

/-- (CV) a non-`var` function none of whose arguments contains a detectable `var()` contains none. -/
theorem checkVar_fn_false (n l : String) (xs : List Tk) (hl : (l != "var") = true)
    (h : ∀ x ∈ xs, checkVar x = false) : checkVar (.fn n l xs) = false := by
  simp only [checkVar]
  cases parseArgs xs false with
  | none => rfl
  | some args => simp only [varHead_not_var l args hl, checkVarArgs_false xs h]

/-- (VP) a detectable `var()` has a parsed argument list starting with its `--name`. -/
theorem checkVar_var_args (n l : String) (args : List Tk) (hl : (l != "var") = false)
    (h : checkVar (.fn n l args) = true) :
    ∃ v dflt, parseArgs args false = some (.ident v :: dflt) := by
  have hl' : (l == "var") = true := by simpa [bne] using hl
  simp only [checkVar] at h
  cases hp : parseArgs args false with
  | none => simp [hp] at h
  | some parsed =>
    simp only [hp] at h
    cases parsed with
    | nil =>
      -- `var()`: the test `name == 'var' and args` fails, and the loop finds nothing in whitespace
      simp only [varHead, hl', List.isEmpty_nil, Bool.not_true, Bool.and_false, Bool.false_eq_true,
        if_false] at h
      rw [checkVarArgs_of_parse_nil args false hp] at h
      cases h
    | cons first dflt =>
      cases first with
      | ident v => exact ⟨v, dflt, rfl⟩
      | _ => simp [varHead, hl'] at h

theorem resolveVar_zero (env : Env) (seen : List String) (t : Tk) : resolveVar env seen 0 t = .error .recursion := rfl

/-- (RN) `None` is only returned for a token without detectable `var()`. -/
theorem resolveVar_none (env : Env) (seen : List String) (fuel : Nat) (t : Tk)
    (h : resolveVar env seen fuel t = .ok none) :
    checkVar t = false := by
  cases fuel with
  | zero => cases h
  | succ fuel =>
    cases hc : checkVar t with
    | false => rfl
    | true =>
      exfalso
      cases t with
      | fn name lname args =>
        simp only [resolveVar, hc, Bool.not_true, Bool.false_eq_true, if_false] at h
        by_cases hl : (lname != "var") = true
        · simp only [hl, if_true] at h
          cases hm : args.mapM (argStep (resolveVar env seen fuel)) with
          | error e => rw [hm] at h; cases h
          | ok parts =>
            rw [hm] at h
            simp only [bind, Except.bind] at h
            split at h
            · cases h
            · rename_i x hx
              cases x with
              | none => cases h
              | some r => simp only at h; split at h <;> cases h
        · have hl' : (lname != "var") = false := by simpa using hl
          obtain ⟨v, dflt, hp⟩ := checkVar_var_args name lname args hl' hc
          simp only [hl', Bool.false_eq_true, if_false, hp] at h
          generalize List.mapM (valueStep (resolveVar env _ fuel)) _ = m at h
          cases m <;> cases h
      | _ => simp [checkVar] at hc

theorem mapM_ok_cons' {α β : Type} (f : α → R β) (a : α) (l : List α) (out : List β)
    (h : (a :: l).mapM f = .ok out) : ∃ b bs, f a = .ok b ∧ l.mapM f = .ok bs ∧ out = b :: bs := by
  rw [List.mapM_cons] at h
  cases hf : f a with
  | error e => simp [hf, bind, Except.bind] at h
  | ok b =>
    cases hl : l.mapM f with
    | error e => simp [hf, hl, bind, Except.bind] at h
    | ok bs =>
      simp [hf, hl, bind, Except.bind, pure, Except.pure] at h
      exact ⟨b, bs, rfl, rfl, h.symm⟩

theorem mapM_ok_mem {α β : Type} (f : α → R β) :
    ∀ (l : List α) (out : List β), l.mapM f = .ok out → ∀ p ∈ out, ∃ a ∈ l, f a = .ok p
  | [], out, h => by simp [List.mapM_nil, pure, Except.pure] at h; subst h; simp
  | a :: l, out, h => by
    obtain ⟨b, bs, hb, hbs, rfl⟩ := mapM_ok_cons' f a l out h
    intro p hp
    simp only [List.mem_cons] at hp
    rcases hp with rfl | hp
    · exact ⟨a, by simp, hb⟩
    · obtain ⟨x, hx, hfx⟩ := mapM_ok_mem f l bs hbs p hp
      exact ⟨x, by simp [hx], hfx⟩

/-- An `Except` loop that succeeds transfers to an `Option` loop that agrees with it pointwise. -/
theorem mapM_transfer {α β : Type} (f : α → R β) (g : α → Option β) :
    ∀ (l : List α) (out : List β), l.mapM f = .ok out → (∀ a ∈ l, ∀ p, f a = .ok p → g a = some p) →
      l.mapM g = some out
  | [], out, h, _ => by simp [List.mapM_nil, pure, Except.pure] at h; subst h; rfl
  | a :: l, out, h, hg => by
    obtain ⟨b, bs, hb, hbs, rfl⟩ := mapM_ok_cons' f a l out h
    rw [List.mapM_cons, hg a (by simp) b hb,
      mapM_transfer f g l bs hbs (fun x hx p hp => hg x (by simp [hx]) p hp)]
    rfl

theorem argStep_ok (rv : Tk → R (Option (List Tk))) (a : Tk) (p : List Tk) (h : argStep rv a = .ok p) :
    rv a = .ok (some p) ∨ (rv a = .ok none ∧ p = [a]) ∨ ((∀ n l xs, a ≠ .fn n l xs) ∧ p = [a]) := by
  cases a with
  | fn n l xs =>
    simp only [argStep, bind, Except.bind] at h
    cases hr : rv (.fn n l xs) with
    | error e => rw [hr] at h; cases h
    | ok o =>
      rw [hr] at h
      cases o with
      | none => cases h; exact Or.inr (Or.inl ⟨rfl, rfl⟩)
      | some r => cases h; exact Or.inl rfl
  | ws => right; right; cases h; exact ⟨(by intro n l xs e; cases e), rfl⟩
  | comma => right; right; cases h; exact ⟨(by intro n l xs e; cases e), rfl⟩
  | ident v => right; right; cases h; exact ⟨(by intro n l xs e; cases e), rfl⟩
  | leaf v => right; right; cases h; exact ⟨(by intro n l xs e; cases e), rfl⟩

theorem valueStep_ok (rv : Tk → R (Option (List Tk))) (a : Tk) (p : List Tk) (h : valueStep rv a = .ok p) :
    rv a = .ok (some p) ∨ (rv a = .ok none ∧ p = [a]) := by
  simp only [valueStep, bind, Except.bind] at h
  cases hr : rv a with
  | error e => rw [hr] at h; cases h
  | ok o =>
    rw [hr] at h
    cases o with
    | none => cases h; exact Or.inr ⟨rfl, rfl⟩
    | some r => cases h; exact Or.inl rfl

/-- The three shapes of a successful call with fuel left. -/
theorem resolveVar_succ_cases (env : Env) (seen : List String) (fuel : Nat) (t : Tk) (r : Option (List Tk))
    (h : resolveVar env seen (fuel + 1) t = .ok r) :
    (checkVar t = false ∧ r = none) ∨
    (∃ name lname args parts o, t = .fn name lname args ∧ checkVar t = true ∧ (lname != "var") = true ∧
      args.mapM (argStep (resolveVar env seen fuel)) = .ok parts ∧
      resolveVar env seen fuel (.fn name lname parts.flatten) = .ok o ∧
      r = some (match o with
        | some r2 => if r2.isEmpty then [Tk.fn name lname parts.flatten] else r2
        | none => [Tk.fn name lname parts.flatten])) ∨
    (∃ name lname args v dflt parts, t = .fn name lname args ∧ checkVar t = true ∧ (lname != "var") = false ∧
      parseArgs args false = some (.ident v :: dflt) ∧
      (varValues env seen (dashToUnderscore v) dflt).mapM
        (valueStep (resolveVar env (seen ++ [dashToUnderscore v]) fuel)) = .ok parts ∧
      r = some parts.flatten) := by
  cases hc : checkVar t with
  | false =>
    left
    simp only [resolveVar, hc, Bool.not_false, if_true] at h
    cases h; exact ⟨rfl, rfl⟩
  | true =>
    right
    cases t with
    | fn name lname args =>
      simp only [resolveVar, hc, Bool.not_true, Bool.false_eq_true, if_false] at h
      by_cases hl : (lname != "var") = true
      · left
        simp only [hl, if_true] at h
        cases hm : args.mapM (argStep (resolveVar env seen fuel)) with
        | error e => rw [hm] at h; cases h
        | ok parts =>
          rw [hm] at h
          simp only [bind, Except.bind] at h
          cases h2 : resolveVar env seen fuel (.fn name lname parts.flatten) with
          | error e => rw [h2] at h; cases h
          | ok o =>
            rw [h2] at h
            refine ⟨name, lname, args, parts, o, rfl, rfl, hl, hm, h2, ?_⟩
            cases o with
            | none => cases h; rfl
            | some r2 =>
              simp only at h
              split at h <;> (cases h; simp [*])
      · right
        have hl' : (lname != "var") = false := by simpa using hl
        obtain ⟨v, dflt, hp⟩ := checkVar_var_args name lname args hl' hc
        simp only [hl', Bool.false_eq_true, if_false, hp] at h
        cases hm : (varValues env seen (dashToUnderscore v) dflt).mapM
            (valueStep (resolveVar env (seen ++ [dashToUnderscore v]) fuel)) with
        | error e => rw [hm] at h; cases h
        | ok parts =>
          rw [hm] at h
          cases h
          exact ⟨name, lname, args, v, dflt, parts, rfl, rfl, hl', hp, hm, rfl⟩
    | _ => simp [checkVar] at hc

/-- (NV) what `resolve_var` returns contains no detectable `var()` any more. -/
theorem resolveVar_no_var (env : Env) :
    ∀ (fuel : Nat) (seen : List String) (t : Tk) (r : List Tk), resolveVar env seen fuel t = .ok (some r) →
      ∀ x ∈ r, checkVar x = false
  | 0, _, _, _, h => by cases h
  | fuel + 1, seen, t, r, h => by
    rcases resolveVar_succ_cases env seen fuel t _ h with ⟨_, hr⟩ |
        ⟨name, lname, args, parts, o, rfl, hc, hl, hm, h2, hr⟩ |
        ⟨name, lname, args, v, dflt, parts, rfl, hc, hl, hp, hm, hr⟩
    · cases hr
    · have hparts : ∀ x ∈ parts.flatten, checkVar x = false := by
        intro x hx
        simp only [List.mem_flatten] at hx
        obtain ⟨p, hp, hxp⟩ := hx
        obtain ⟨a, _, hfa⟩ := mapM_ok_mem _ args parts hm p hp
        rcases argStep_ok _ a p hfa with hra | ⟨hra, rfl⟩ | ⟨hleaf, rfl⟩
        · exact resolveVar_no_var env fuel seen _ p hra x hxp
        · simp only [List.mem_singleton] at hxp
          subst hxp
          exact resolveVar_none env seen fuel x hra
        · simp only [List.mem_singleton] at hxp
          subst hxp
          exact checkVar_leaf x hleaf
      have hc' := checkVar_fn_false name lname parts.flatten hl hparts
      have ho : o = none := by
        cases o with
        | none => rfl
        | some r2 =>
          cases fuel with
          | zero => cases h2
          | succ f => simp [resolveVar, hc', pure, Except.pure] at h2
      subst ho
      simp only [Option.some.injEq] at hr
      subst hr
      intro x hx
      simp only [List.mem_singleton] at hx
      subst hx
      exact hc'
    · simp only [Option.some.injEq] at hr
      subst hr
      intro x hx
      simp only [List.mem_flatten] at hx
      obtain ⟨p, hp', hxp⟩ := hx
      obtain ⟨a, _, hfa⟩ := mapM_ok_mem _ _ parts hm p hp'
      rcases valueStep_ok _ a p hfa with hra | ⟨hra, rfl⟩
      · exact resolveVar_no_var env fuel _ a p hra x hxp
      · simp only [List.mem_singleton] at hxp
        subst hxp
        exact resolveVar_none env _ fuel x hra

/-- The rebuilt function of the non-`var` branch carries no detectable `var()`: the second `resolve_var` on it
returns `None` (so `… or (token,)` always takes `(token,)`). -/
theorem rebuilt_no_var (env : Env) (seen : List String) (fuel : Nat) (name lname : String) (args : List Tk)
    (parts : List (List Tk)) (hl : (lname != "var") = true)
    (hm : args.mapM (argStep (resolveVar env seen fuel)) = .ok parts) :
    checkVar (.fn name lname parts.flatten) = false := by
  apply checkVar_fn_false name lname parts.flatten hl
  intro x hx
  simp only [List.mem_flatten] at hx
  obtain ⟨p, hp, hxp⟩ := hx
  obtain ⟨a, _, hfa⟩ := mapM_ok_mem _ args parts hm p hp
  rcases argStep_ok _ a p hfa with hra | ⟨hra, rfl⟩ | ⟨hleaf, rfl⟩
  · exact resolveVar_no_var env fuel seen _ p hra x hxp
  · simp only [List.mem_singleton] at hxp
    subst hxp
    exact resolveVar_none env seen fuel x hra
  · simp only [List.mem_singleton] at hxp
    subst hxp
    exact checkVar_leaf x hleaf

/-! ### References between custom properties -/

/-- Custom-property names (underscore form, as `computed[...]` is indexed) of the identifiers that are direct
arguments of a function. -/
def identNames : List Tk → List String
  | [] => []
  | .ident v :: rest => dashToUnderscore v :: identNames rest
  | _ :: rest => identNames rest

mutual
/-- Every custom property a token may refer to: the identifier arguments of every function called `var`, at
any depth (an over-approximation of what `resolve_var` looks up). -/
def refs : Tk → List String
  | .fn _ l args => (if l == "var" then identNames args else []) ++ refsList args
  | _ => []
def refsList : List Tk → List String
  | [] => []
  | t :: rest => refs t ++ refsList rest
end

/-- The reference graph of the custom properties is acyclic: a rank decreases along every reference. -/
def Acyclic (env : Env) (rk : String → Nat) : Prop :=
  ∀ n, ∀ m ∈ refsList (env n), rk m < rk n

theorem refsList_mem : ∀ (l : List Tk) (a : Tk), a ∈ l → ∀ m ∈ refs a, m ∈ refsList l
  | [], a, h, _, _ => by cases h
  | t :: rest, a, h, m, hm => by
    simp only [List.mem_cons] at h
    simp only [refsList, List.mem_append]
    rcases h with rfl | h
    · exact Or.inl hm
    · exact Or.inr (refsList_mem rest a h m hm)

theorem refsList_of_mem (l : List Tk) (m : String) (h : m ∈ refsList l) : ∃ a ∈ l, m ∈ refs a := by
  induction l with
  | nil => simp [refsList] at h
  | cons t rest ih =>
    simp only [refsList, List.mem_append] at h
    rcases h with h | h
    · exact ⟨t, by simp, h⟩
    · obtain ⟨a, ha, hm⟩ := ih h
      exact ⟨a, by simp [ha], hm⟩

theorem identNames_mem : ∀ (l : List Tk) (v : String), Tk.ident v ∈ l → dashToUnderscore v ∈ identNames l
  | [], v, h => by cases h
  | t :: rest, v, h => by
    simp only [List.mem_cons] at h
    rcases h with rfl | h
    · simp [identNames]
    · have := identNames_mem rest v h
      cases t <;> simp [identNames, this]

/-- What `parse_function` keeps are arguments of the function. -/
theorem parseArgs_mem : ∀ (a : List Tk) (b : Bool) (out : List Tk), parseArgs a b = some out →
    ∀ x ∈ out, x ∈ a
  | [], b, out, h, x, hx => by
    cases b <;> simp [parseArgs] at h
    subst h; cases hx
  | .ws :: rest, b, out, h, x, hx => by
    simp only [parseArgs] at h
    simp [parseArgs_mem rest b out h x hx]
  | .comma :: rest, b, out, h, x, hx => by
    simp only [parseArgs] at h
    cases b with
    | true => simp at h
    | false =>
      simp only [Bool.false_eq_true, if_false] at h
      simp [parseArgs_mem rest true out h x hx]
  | .ident v :: rest, b, out, h, x, hx => by
    simp only [parseArgs, parses, if_true] at h
    cases hr : parseArgs rest false with
    | none => simp [hr] at h
    | some d =>
      simp only [hr, Option.map_some, Option.some.injEq] at h
      subst h
      simp only [List.mem_cons] at hx ⊢
      rcases hx with rfl | hx
      · exact Or.inl rfl
      · exact Or.inr (parseArgs_mem rest false d hr x hx)
  | .leaf v :: rest, b, out, h, x, hx => by
    simp only [parseArgs, parses, if_true] at h
    cases hr : parseArgs rest false with
    | none => simp [hr] at h
    | some d =>
      simp only [hr, Option.map_some, Option.some.injEq] at h
      subst h
      simp only [List.mem_cons] at hx ⊢
      rcases hx with rfl | hx
      · exact Or.inl rfl
      · exact Or.inr (parseArgs_mem rest false d hr x hx)
  | .fn n l args :: rest, b, out, h, x, hx => by
    simp only [parseArgs] at h
    split at h
    · cases hr : parseArgs rest false with
      | none => simp [hr] at h
      | some d =>
        simp only [hr, Option.map_some, Option.some.injEq] at h
        subst h
        simp only [List.mem_cons] at hx ⊢
        rcases hx with rfl | hx
        · exact Or.inl rfl
        · exact Or.inr (parseArgs_mem rest false d hr x hx)
    · cases h

end Wp.C07
