/-
C09, vertical half: containment of every box in its line box *with* `vertical-align: top | bottom`
inline boxes, as long as such a box holds only text (the boundary of finding
vertical-align-top-bottom-subtree: `translate_subtree` leaves grand-children behind).  Core Lean only.
-/
import WpModel.Lemmas.LineVertical

namespace Wp.C09L
open Wp Wp.LV

/-- a list of text boxes, none of them `top` / `bottom` -/
def textOnlyL : List VBox → Bool
  | [] => true
  | .text _ _ _ _ _ va :: ks => !va.isTopBottom && textOnlyL ks
  | .box _ _ _ _ _ _ _ :: _ => false

mutual
/-- every `vertical-align: top | bottom` inline box holds only text (and text boxes themselves are
never `top` / `bottom`: they are anonymous) -/
def safeTB : VBox → Bool
  | .text _ _ _ _ _ va => !va.isTopBottom
  | .box _ _ _ _ _ st kids => if st.va.isTopBottom then textOnlyL kids else safeTBL kids
def safeTBL : List VBox → Bool
  | [] => true
  | k :: ks => safeTB k && safeTBL ks
end

/-- the running extent lies inside `[lo, hi]` -/
def Ext.Within (e : Ext) (lo hi : Rat) : Prop := ∀ mx mn, e = some (mx, mn) → lo ≤ mn ∧ mx ≤ hi

theorem Ext.within_add (e : Ext) (t b lo hi : Rat) (h : Ext.Within (e.add t b) lo hi) :
    Ext.Within e lo hi ∧ lo ≤ t ∧ b ≤ hi := by
  cases e with
  | none =>
    have := h b t rfl
    exact ⟨(fun _ _ h0 => nomatch h0), this.1, this.2⟩
  | some p =>
    obtain ⟨mx, mn⟩ := p
    have := h _ _ rfl
    refine ⟨?_, ?_, ?_⟩
    · intro mx' mn' he; cases he
      constructor
      · have := this.1; split at this <;> grind
      · have := this.2; split at this <;> grind
    · have := this.1; split at this <;> grind
    · have := this.2; split at this <;> grind

theorem Ext.within_merge (e o : Ext) (lo hi : Rat) (h : Ext.Within (e.merge o) lo hi) :
    Ext.Within e lo hi ∧ Ext.Within o lo hi := by
  cases o with
  | none => exact ⟨h, (fun _ _ h0 => nomatch h0)⟩
  | some p =>
    obtain ⟨mx, mn⟩ := p
    have := Ext.within_add e mn mx lo hi h
    exact ⟨this.1, by intro _ _ he; cases he; exact ⟨this.2.1, this.2.2⟩⟩

theorem Ext.within_mono (e : Ext) (lo hi hi' : Rat) (h : Ext.Within e lo hi) (hh : hi ≤ hi') : Ext.Within e lo hi' := by
  intro mx mn he
  have := h mx mn he
  exact ⟨this.1, Rat.le_trans this.2 hh⟩

theorem Ext.contains_within (e : Ext) (t b lo hi : Rat) (hc : Ext.Contains e t b) (hw : Ext.Within e lo hi) :
    lo ≤ t ∧ b ≤ hi := by
  obtain ⟨mx, mn, he, h1, h2⟩ := hc
  have := hw mx mn he
  exact ⟨Rat.le_trans this.1 h1, Rat.le_trans h2 this.2⟩

theorem Ext.add_assoc_none (t h mt mb : Rat) :
    Ext.add none t (t + h + mt + mb) = Ext.add none t (t + (h + mt + mb)) := by
  simp only [Ext.add]
  congr 2
  grind

/-- text-only children: nothing is pending, the extent read back from the placed boxes
(`extentKids`, used by `translate_subtree`'s caller) is the extent computed while placing them, and
it contains every one of them -/
theorem placeKids_textOnly (pst : VStyle) (pbase pmt by_ : Rat) : ∀ (cs : List VBox), textOnlyL cs = true →
    (placeKids pst pbase pmt by_ cs).2.2 = [] ∧ textOnlyL (placeKids pst pbase pmt by_ cs).1 = true ∧
    extentKids (placeKids pst pbase pmt by_ cs).1 = (placeKids pst pbase pmt by_ cs).2.1 ∧
    ∀ d ∈ allBoxesL (placeKids pst pbase pmt by_ cs).1,
      Ext.Contains (placeKids pst pbase pmt by_ cs).2.1 d.y (d.y + d.marginHeight)
  | [], _ => by
    unfold placeKids
    exact ⟨rfl, rfl, by simp [extentKids], by intro d hd; simp [allBoxesL] at hd⟩
  | .box _ _ _ _ _ _ _ :: _, h => by simp [textOnlyL] at h
  | .text y h mt mb b va :: cs, hn => by
    simp only [textOnlyL, Bool.and_eq_true, Bool.not_eq_true'] at hn
    have ih := placeKids_textOnly pst pbase pmt by_ cs hn.2
    unfold placeKids
    simp only
    have hone : placeOne pst pbase pmt by_ (.text y h mt mb b va) =
        (.text (childBaseline pst pbase pmt by_ va (h + mt + mb) b - b) h mt mb b va,
         Ext.add none (childBaseline pst pbase pmt by_ va (h + mt + mb) b - b)
           (childBaseline pst pbase pmt by_ va (h + mt + mb) b - b + (h + mt + mb)), []) := by
      unfold placeOne
      simp only [hn.1, Bool.false_eq_true, if_false]
    rw [hone]
    simp only
    refine ⟨by rw [ih.1]; rfl, by simp [textOnlyL, hn.1, ih.2.1], ?_, ?_⟩
    · simp only [extentKids, VBox.va, hn.1, Bool.false_eq_true, if_false, extentChild]
      rw [ih.2.2.1, Ext.add_assoc_none]
    · intro d hd
      simp only [allBoxesL, allBoxes, List.mem_append, List.mem_singleton] at hd
      rcases hd with hd | hd
      · subst hd
        apply Ext.merge_left
        simp only [VBox.y, VBox.marginHeight]
        exact Ext.add_self none _ _
      · exact Ext.merge_right _ _ _ _ (ih.2.2.2 d hd)

/-- `translate_subtree` on text children: each is moved by what is carried down -/
theorem shiftL_textOnly (a b c : Rat) : ∀ (ks : List VBox), textOnlyL ks = true →
    ∀ d' ∈ allBoxesL (shiftL a b c ks), ∃ d ∈ allBoxesL ks, d'.y = d.y + c ∧ d'.marginHeight = d.marginHeight
  | [], _, d', hd => by simp [shiftL, allBoxesL] at hd
  | .box _ _ _ _ _ _ _ :: _, h, _, _ => by simp [textOnlyL] at h
  | .text y h mt mb base va :: ks, hn, d', hd => by
    simp only [textOnlyL, Bool.and_eq_true] at hn
    simp only [shiftL, shift, allBoxesL, allBoxes, List.mem_append, List.mem_singleton] at hd
    rcases hd with hd | hd
    · subst hd
      exact ⟨.text y h mt mb base va, by simp [allBoxesL, allBoxes], rfl, rfl⟩
    · obtain ⟨d, hm, h1, h2⟩ := shiftL_textOnly a b c ks hn.2 d' hd
      exact ⟨d, by simp [allBoxesL, hm], h1, h2⟩

theorem childBaseline_tb (pst : VStyle) (pbase pmt by_ : Rat) (va : VAlign) (mh b : Rat)
    (h : va.isTopBottom = true) : childBaseline pst pbase pmt by_ va mh b = 0 := by
  cases va <;> simp [VAlign.isTopBottom] at h <;> rfl

mutual
/-- **placement then `translate_subtree`**: if the extent and the pending `top` / `bottom` extents of
a placed child fit in `[lo, hi]`, every box of the child lies in `[lo, hi]` after the translations. -/
theorem placeOne_shift_inside (pst : VStyle) (pbase pmt by_ lo hi : Rat) : ∀ (c : VBox), safeTB c = true →
    Ext.Within (placeOne pst pbase pmt by_ c).2.1 lo hi →
    (∀ e ∈ (placeOne pst pbase pmt by_ c).2.2, lo + e ≤ hi) →
    ∀ d ∈ allBoxes (shift lo hi 0 (placeOne pst pbase pmt by_ c).1), lo ≤ d.y ∧ d.y + d.marginHeight ≤ hi
  | .text y h mt mb b va, hs, hw, _ => by
    simp only [safeTB, Bool.not_eq_true'] at hs
    have hone : placeOne pst pbase pmt by_ (.text y h mt mb b va) =
        (.text (childBaseline pst pbase pmt by_ va (h + mt + mb) b - b) h mt mb b va,
         Ext.add none (childBaseline pst pbase pmt by_ va (h + mt + mb) b - b)
           (childBaseline pst pbase pmt by_ va (h + mt + mb) b - b + (h + mt + mb)), []) := by
      unfold placeOne
      simp only [hs, Bool.false_eq_true, if_false]
    rw [hone] at hw ⊢
    intro d hd
    simp only [shift, allBoxes, List.mem_singleton, Rat.add_zero] at hd
    subst hd
    have := Ext.within_add none _ _ lo hi hw
    simp only [VBox.y, VBox.marginHeight]
    exact ⟨this.2.1, this.2.2⟩
  | .box y h mt mb b st kids, hs, hw, hp => by
    cases htb : st.va.isTopBottom with
    | false =>
      simp only [safeTB, htb, Bool.false_eq_true, if_false] at hs
      have hone : placeOne pst pbase pmt by_ (.box y h mt mb b st kids) =
          (.box (childBaseline pst pbase pmt by_ st.va (h + mt + mb + st.bt + st.pt + st.pb + st.bb) b - b) h mt mb b st
            (placeKids st b mt (childBaseline pst pbase pmt by_ st.va (h + mt + mb + st.bt + st.pt + st.pb + st.bb) b) kids).1,
           (Ext.add none (childBaseline pst pbase pmt by_ st.va (h + mt + mb + st.bt + st.pt + st.pb + st.bb) b - b)
             (childBaseline pst pbase pmt by_ st.va (h + mt + mb + st.bt + st.pt + st.pb + st.bb) b - b +
               (h + mt + mb + st.bt + st.pt + st.pb + st.bb))).merge
             (placeKids st b mt (childBaseline pst pbase pmt by_ st.va (h + mt + mb + st.bt + st.pt + st.pb + st.bb) b) kids).2.1,
           (placeKids st b mt (childBaseline pst pbase pmt by_ st.va (h + mt + mb + st.bt + st.pt + st.pb + st.bb) b) kids).2.2) := by
        unfold placeOne
        simp only [htb, Bool.false_eq_true, if_false]
      rw [hone] at hw hp ⊢
      simp only at hw hp
      have hm := Ext.within_merge _ _ lo hi hw
      have ih := placeKids_shift_inside st b mt
        (childBaseline pst pbase pmt by_ st.va (h + mt + mb + st.bt + st.pt + st.pb + st.bb) b) lo hi kids hs hm.2 hp
      intro d hd
      simp only [shift, htb, Bool.false_eq_true, if_false, allBoxes, List.mem_cons, Rat.add_zero] at hd
      rcases hd with hd | hd
      · subst hd
        have := Ext.within_add none _ _ lo hi hm.1
        simp only [VBox.y, VBox.marginHeight]
        exact ⟨this.2.1, this.2.2⟩
      · exact ih d hd
    | true =>
      simp only [safeTB, htb, if_true] at hs
      have hk := placeKids_textOnly st b mt 0 kids hs
      have hcb := childBaseline_tb pst pbase pmt by_ st.va (h + mt + mb + st.bt + st.pt + st.pb + st.bb) b htb
      obtain ⟨smx, smn, hsub, hs1, hs2⟩ := Ext.add_self (placeKids st b mt 0 kids).2.1 (0 - b)
        (0 - b + (h + mt + mb + st.bt + st.pt + st.pb + st.bb))
      have hone : placeOne pst pbase pmt by_ (.box y h mt mb b st kids) =
          (.box (0 - b) h mt mb b st (placeKids st b mt 0 kids).1, none, [smx - smn]) := by
        unfold placeOne
        simp only [htb, if_true, hcb, hsub, hk.1, List.append_nil]
      rw [hone] at hp ⊢
      have he : lo + (smx - smn) ≤ hi := hp _ (by simp)
      intro d hd
      have hext : extentOf (.box (0 - b) h mt mb b st (placeKids st b mt 0 kids).1) = some (smx, smn) := by
        simp only [extentOf, VBox.marginHeight, hk.2.2.1]
        exact hsub
      simp only [shift, htb, if_true, hext, Rat.add_zero, allBoxes, List.mem_cons] at hd
      rcases hd with hd | hd
      · subst hd
        simp only [VBox.y, VBox.marginHeight]
        split <;> constructor <;> grind
      · obtain ⟨d0, hm0, h1, h2⟩ := shiftL_textOnly lo hi _ _ hk.2.1 d hd
        have hc := hk.2.2.2 d0 hm0
        have hc' := Ext.add_mono _ (0 - b) (0 - b + (h + mt + mb + st.bt + st.pt + st.pb + st.bb)) _ _ hc
        obtain ⟨mx', mn', he', h3, h4⟩ := hc'
        rw [hsub] at he'
        cases he'
        rw [h1, h2]
        split <;> constructor <;> grind
theorem placeKids_shift_inside (pst : VStyle) (pbase pmt by_ lo hi : Rat) : ∀ (cs : List VBox), safeTBL cs = true →
    Ext.Within (placeKids pst pbase pmt by_ cs).2.1 lo hi →
    (∀ e ∈ (placeKids pst pbase pmt by_ cs).2.2, lo + e ≤ hi) →
    ∀ d ∈ allBoxesL (shiftL lo hi 0 (placeKids pst pbase pmt by_ cs).1), lo ≤ d.y ∧ d.y + d.marginHeight ≤ hi
  | [], _, _, _ => by
    unfold placeKids
    intro d hd
    simp [shiftL, allBoxesL] at hd
  | c :: cs, hs, hw, hp => by
    simp only [safeTBL, Bool.and_eq_true] at hs
    unfold placeKids at hw hp ⊢
    simp only at hw hp ⊢
    have hm := Ext.within_merge _ _ lo hi hw
    have h1 := placeOne_shift_inside pst pbase pmt by_ lo hi c hs.1 hm.1
      (fun e he => hp e (List.mem_append.mpr (Or.inl he)))
    have h2 := placeKids_shift_inside pst pbase pmt by_ lo hi cs hs.2 hm.2
      (fun e he => hp e (List.mem_append.mpr (Or.inr he)))
    intro d hd
    simp only [shiftL, allBoxesL, List.mem_append] at hd
    rcases hd with hd | hd
    · exact h1 d hd
    · exact h2 d hd
end

/-- the same predicates on the tree before layout -/
def textOnlyNodeL : List VNode → Bool
  | [] => true
  | .text st :: ks => !st.va.isTopBottom && textOnlyNodeL ks
  | .box _ _ :: _ => false

mutual
def safeTBNode : VNode → Bool
  | .text st => !st.va.isTopBottom
  | .box st kids => if st.va.isTopBottom then textOnlyNodeL kids else safeTBNodeL kids
def safeTBNodeL : List VNode → Bool
  | [] => true
  | k :: ks => safeTBNode k && safeTBNodeL ks
end

theorem buildL_textOnly : ∀ (ns : List VNode), textOnlyNodeL ns = true → textOnlyL (buildL ns) = true
  | [], _ => rfl
  | .box _ _ :: _, h => by simp [textOnlyNodeL] at h
  | .text st :: ns, h => by
    simp only [textOnlyNodeL, Bool.and_eq_true] at h
    simp only [buildL, build, textOnlyL, Bool.and_eq_true]
    exact ⟨h.1, buildL_textOnly ns h.2⟩

mutual
theorem build_safeTB : ∀ (n : VNode), safeTBNode n = true → safeTB (build n) = true
  | .text st, h => by simpa [build, safeTB, safeTBNode] using h
  | .box st kids, h => by
    simp only [safeTBNode] at h
    simp only [build, safeTB]
    cases htb : st.va.isTopBottom with
    | true => rw [htb] at h; simp only [if_true] at h ⊢; exact buildL_textOnly kids h
    | false => rw [htb] at h; simp only [Bool.false_eq_true, if_false] at h ⊢; exact buildL_safeTB kids h
theorem buildL_safeTB : ∀ (ns : List VNode), safeTBNodeL ns = true → safeTBL (buildL ns) = true
  | [], _ => rfl
  | n :: ns, h => by
    simp only [safeTBNodeL, Bool.and_eq_true] at h
    simp only [buildL, safeTBL, Bool.and_eq_true]
    exact ⟨build_safeTB n h.1, buildL_safeTB ns h.2⟩
end

mutual
/-- lines without any `top` / `bottom` box are a special case -/
theorem safeTBNode_of_noTB : ∀ (n : VNode), noTBNode n = true → safeTBNode n = true
  | .text st, h => by simpa [noTBNode, safeTBNode] using h
  | .box st kids, h => by
    simp only [noTBNode, Bool.and_eq_true, Bool.not_eq_true'] at h
    simp only [safeTBNode, h.1, Bool.false_eq_true, if_false]
    exact safeTBNodeL_of_noTB kids h.2
theorem safeTBNodeL_of_noTB : ∀ (ns : List VNode), noTBNodeL ns = true → safeTBNodeL ns = true
  | [], _ => rfl
  | n :: ns, h => by
    simp only [noTBNodeL, Bool.and_eq_true] at h
    simp only [safeTBNodeL, Bool.and_eq_true]
    exact ⟨safeTBNode_of_noTB n h.1, safeTBNodeL_of_noTB ns h.2⟩
end

theorem foldl_max_ge_mem (mn : Rat) (es : List Rat) (m : Rat) :
    ∀ e ∈ es, mn + e ≤ es.foldl (fun m e => if mn + e > m then mn + e else m) m := by
  induction es generalizing m with
  | nil => intro e he; cases he
  | cons e0 es ih =>
    intro e he
    simp only [List.foldl_cons]
    rcases List.mem_cons.mp he with rfl | hm
    · refine Rat.le_trans ?_ (foldl_max_ge mn es _)
      split <;> grind
    · exact ih _ e hm

/-- **no overlap between lines, `top` / `bottom` included**: in a line where every
`vertical-align: top | bottom` inline box holds only text, every box — at any nesting depth below
baseline-relative boxes, for any font sizes, line-heights, alignments, borders and paddings — has its
margin box inside the line box `[y, y + height]` after `translate_subtree`.  The hypothesis is exactly
the boundary of finding vertical-align-top-bottom-subtree
(`Witness.C09.top_aligned_grandchild_left_behind`: one inline box inside a `top` box breaks it). -/
theorem boxes_inside_line_tb (lineSt : VStyle) (kids : List VNode) (posY : Rat) (l : VLine)
    (hn : safeTBNodeL kids = true) (h : layoutLine lineSt kids posY = .ok l) :
    l.y = posY ∧ ∀ d ∈ allBoxesL l.kids, l.y ≤ d.y ∧ d.y + d.marginHeight ≤ l.y + l.height := by
  unfold layoutLine at h
  generalize ({ lineSt with bt := 0, pt := 0, pb := 0, bb := 0 } : VStyle) = st at h
  obtain ⟨y0, h0, mt0, mb0, b0, hb⟩ : ∃ y0 h0 mt0 mb0 b0,
      build (.box st kids) = .box y0 h0 mt0 mb0 b0 st (buildL kids) := ⟨_, _, _, _, _, by simp only [build]; rfl⟩
  simp only [hb, placeSub] at h
  have hsafe := buildL_safeTB kids hn
  cases hext : (placeKids st b0 mt0 0 (buildL kids)).2.1.add (0 - b0)
      (0 - b0 + (VBox.box y0 h0 mt0 mb0 b0 st (buildL kids)).marginHeight) with
  | none => rw [hext] at h; cases h
  | some p =>
    obtain ⟨mx0, mn⟩ := p
    rw [hext] at h
    simp only at h
    cases h
    refine ⟨rfl, ?_⟩
    intro d' hd'
    simp only at hd'
    have hmx := foldl_max_ge mn (placeKids st b0 mt0 0 (buildL kids)).2.2 mx0
    have hpend := foldl_max_ge_mem mn (placeKids st b0 mt0 0 (buildL kids)).2.2 mx0
    have hw0 : Ext.Within ((placeKids st b0 mt0 0 (buildL kids)).2.1.add (0 - b0)
        (0 - b0 + (VBox.box y0 h0 mt0 mb0 b0 st (buildL kids)).marginHeight)) mn mx0 := by
      intro mx' mn' he; rw [hext] at he; cases he; exact ⟨Rat.le_refl, Rat.le_refl⟩
    have hw := Ext.within_mono _ _ _ _ (Ext.within_add _ _ _ _ _ hw0).1 hmx
    have hin := placeKids_shift_inside st b0 mt0 0 mn _ (buildL kids) hsafe hw hpend
    obtain ⟨d, hm, h1, h2⟩ := allBoxesL_translateY (posY - mn) _ d' hd'
    have := hin d hm
    simp only
    rw [h1, h2]
    constructor <;> grind

end Wp.C09L
