/-
C09, vertical half: containment of every box in its line box *with* `vertical-align: top | bottom`
inline boxes at any depth and in any nesting (full strength since fix 5152049: `translate_subtree`
moves the whole subtree, nested `top` / `bottom` subtrees are aligned on their own).  Core Lean only.
-/
import WpModel.Lemmas.LineVertical

namespace Wp.C09L
open Wp Wp.LV

/-- the running extent lies inside `[lo, hi]` -/
def Ext.Within (e : Ext) (lo hi : Rat) : Prop := ∀ mx mn, e = some (mx, mn) → lo ≤ mn ∧ mx ≤ hi

theorem Ext.within_add (e : Ext) (t b lo hi : Rat) (h : Ext.Within (e.add t b) lo hi) :
    Ext.Within e lo hi ∧ lo ≤ t ∧ b ≤ hi := by
  cases e with
  | none =>
    have := h b t rfl
    exact ⟨(fun _ _ h0 => nomatch h0), this.1, this.2⟩
  | some p =>
    obtain ⟨mx, mn⟩ := p
    have := h _ _ rfl
    refine ⟨?_, ?_, ?_⟩
    · intro mx' mn' he; cases he
      constructor
      · have := this.1; split at this <;> grind
      · have := this.2; split at this <;> grind
    · have := this.1; split at this <;> grind
    · have := this.2; split at this <;> grind

theorem Ext.within_merge (e o : Ext) (lo hi : Rat) (h : Ext.Within (e.merge o) lo hi) :
    Ext.Within e lo hi ∧ Ext.Within o lo hi := by
  cases o with
  | none => exact ⟨h, (fun _ _ h0 => nomatch h0)⟩
  | some p =>
    obtain ⟨mx, mn⟩ := p
    have := Ext.within_add e mn mx lo hi h
    exact ⟨this.1, by intro _ _ he; cases he; exact ⟨this.2.1, this.2.2⟩⟩

theorem Ext.within_mono (e : Ext) (lo hi hi' : Rat) (h : Ext.Within e lo hi) (hh : hi ≤ hi') : Ext.Within e lo hi' := by
  intro mx mn he
  have := h mx mn he
  exact ⟨this.1, Rat.le_trans this.2 hh⟩

theorem Ext.contains_within (e : Ext) (t b lo hi : Rat) (hc : Ext.Contains e t b) (hw : Ext.Within e lo hi) :
    lo ≤ t ∧ b ≤ hi := by
  obtain ⟨mx, mn, he, h1, h2⟩ := hc
  have := hw mx mn he
  exact ⟨Rat.le_trans this.1 h1, Rat.le_trans h2 this.2⟩

theorem Ext.add_assoc_none (t h mt mb : Rat) :
    Ext.add none t (t + h + mt + mb) = Ext.add none t (t + (h + mt + mb)) := by
  simp only [Ext.add]
  congr 2
  grind

theorem Ext.none_merge (o : Ext) : Ext.merge none o = o := by
  cases o with
  | none => rfl
  | some p => obtain ⟨mx, mn⟩ := p; rfl

theorem Ext.add_assoc_box (t h mt mb bt pt pb bb : Rat) :
    Ext.add none t (t + h + mt + mb + bt + pt + pb + bb) = Ext.add none t (t + (h + mt + mb + bt + pt + pb + bb)) := by
  simp only [Ext.add]
  congr 2
  grind

theorem childBaseline_tb (pst : VStyle) (pbase pmt by_ : Rat) (va : VAlign) (mh b : Rat)
    (h : va.isTopBottom = true) : childBaseline pst pbase pmt by_ va mh b = 0 := by
  cases va <;> simp [VAlign.isTopBottom] at h <;> rfl

/-- what `placeOne` returns for a text box -/
theorem placeOne_text_plain (pst : VStyle) (pbase pmt by_ y h mt mb b : Rat) (va : VAlign) (hs : va.isTopBottom = false) :
    placeOne pst pbase pmt by_ (.text y h mt mb b va) =
      (.text (childBaseline pst pbase pmt by_ va (h + mt + mb) b - b) h mt mb b va,
       Ext.add none (childBaseline pst pbase pmt by_ va (h + mt + mb) b - b)
         (childBaseline pst pbase pmt by_ va (h + mt + mb) b - b + (h + mt + mb)), []) := by
  unfold placeOne
  simp only [hs, Bool.false_eq_true, if_false]

theorem placeOne_text_tb (pst : VStyle) (pbase pmt by_ y h mt mb b : Rat) (va : VAlign) (hs : va.isTopBottom = true) :
    placeOne pst pbase pmt by_ (.text y h mt mb b va) = (.text (0 - b) h mt mb b va, none, [h + mt + mb]) := by
  unfold placeOne
  simp only [hs, if_true, childBaseline_tb pst pbase pmt by_ va _ b hs]

/-- … for an inline box that is not `top` / `bottom` -/
theorem placeOne_box_plain (pst : VStyle) (pbase pmt by_ y h mt mb b : Rat) (st : VStyle) (kids : List VBox)
    (htb : st.va.isTopBottom = false) :
    placeOne pst pbase pmt by_ (.box y h mt mb b st kids) =
      (.box (childBaseline pst pbase pmt by_ st.va (h + mt + mb + st.bt + st.pt + st.pb + st.bb) b - b) h mt mb b st
        (placeKids st b mt (childBaseline pst pbase pmt by_ st.va (h + mt + mb + st.bt + st.pt + st.pb + st.bb) b) kids).1,
       (Ext.add none (childBaseline pst pbase pmt by_ st.va (h + mt + mb + st.bt + st.pt + st.pb + st.bb) b - b)
         (childBaseline pst pbase pmt by_ st.va (h + mt + mb + st.bt + st.pt + st.pb + st.bb) b - b +
           (h + mt + mb + st.bt + st.pt + st.pb + st.bb))).merge
         (placeKids st b mt (childBaseline pst pbase pmt by_ st.va (h + mt + mb + st.bt + st.pt + st.pb + st.bb) b) kids).2.1,
       (placeKids st b mt (childBaseline pst pbase pmt by_ st.va (h + mt + mb + st.bt + st.pt + st.pb + st.bb) b) kids).2.2) := by
  unfold placeOne
  simp only [htb, Bool.false_eq_true, if_false]

/-- … for a `top` / `bottom` inline box: laid out around its own baseline 0, its extent is pending -/
theorem placeOne_box_tb (pst : VStyle) (pbase pmt by_ y h mt mb b : Rat) (st : VStyle) (kids : List VBox)
    (htb : st.va.isTopBottom = true) (smx smn : Rat)
    (hsub : (placeKids st b mt 0 kids).2.1.add (0 - b) (0 - b + (h + mt + mb + st.bt + st.pt + st.pb + st.bb)) = some (smx, smn)) :
    placeOne pst pbase pmt by_ (.box y h mt mb b st kids) =
      (.box (0 - b) h mt mb b st (placeKids st b mt 0 kids).1, none, [smx - smn] ++ (placeKids st b mt 0 kids).2.2) := by
  unfold placeOne
  simp only [htb, if_true, childBaseline_tb pst pbase pmt by_ st.va _ b htb, hsub]

theorem placeOne_va (pst : VStyle) (pbase pmt by_ : Rat) (c : VBox) : (placeOne pst pbase pmt by_ c).1.va = c.va := by
  cases c with
  | text y h mt mb b va => unfold placeOne; split <;> rfl
  | box y h mt mb b st kids => unfold placeOne; split <;> rfl

theorem placeOne_tb_ext (pst : VStyle) (pbase pmt by_ : Rat) (c : VBox) (h : c.va.isTopBottom = true) :
    (placeOne pst pbase pmt by_ c).2.1 = none := by
  cases c with
  | text y h' mt mb b va => simp only [VBox.va] at h; unfold placeOne; simp only [h, if_true]
  | box y h' mt mb b st kids => simp only [VBox.va] at h; unfold placeOne; simp only [h, if_true]

mutual
/-- the extent `line_box_verticality` reads back from a placed subtree (`extentKids`: what
`aligned_subtree_verticality` returned for it) is the extent computed while placing it -/
theorem placeOne_extent (pst : VStyle) (pbase pmt by_ : Rat) : ∀ (c : VBox), c.va.isTopBottom = false →
    extentChild (placeOne pst pbase pmt by_ c).1 = (placeOne pst pbase pmt by_ c).2.1
  | .text y h mt mb b va, hs => by
    simp only [VBox.va] at hs
    rw [placeOne_text_plain pst pbase pmt by_ y h mt mb b va hs]
    simp only [extentChild]
    exact Ext.add_assoc_none _ _ _ _
  | .box y h mt mb b st kids, hs => by
    simp only [VBox.va] at hs
    rw [placeOne_box_plain pst pbase pmt by_ y h mt mb b st kids hs]
    simp only [extentChild]
    rw [placeKids_extent st b mt _ kids, Ext.add_assoc_box]
theorem placeKids_extent (pst : VStyle) (pbase pmt by_ : Rat) : ∀ (cs : List VBox),
    extentKids (placeKids pst pbase pmt by_ cs).1 = (placeKids pst pbase pmt by_ cs).2.1
  | [] => by unfold placeKids; simp [extentKids]
  | c :: cs => by
    unfold placeKids
    simp only [extentKids, placeOne_va]
    cases htb : c.va.isTopBottom with
    | true =>
      simp only [if_true]
      rw [placeOne_tb_ext pst pbase pmt by_ c htb, Ext.none_merge]
      exact placeKids_extent pst pbase pmt by_ cs
    | false =>
      simp only [Bool.false_eq_true, if_false]
      rw [placeOne_extent pst pbase pmt by_ c htb, placeKids_extent pst pbase pmt by_ cs]
end

mutual
/-- **placement then `translate_subtree`**: if the extent of a placed child, moved by what the
enclosing `top` / `bottom` subtree carries down, and the pending `top` / `bottom` extents fit in
`[lo, hi]`, every box of the child lies in `[lo, hi]` after the translations — for any nesting of
`top` / `bottom` boxes inside each other and inside baseline-relative boxes. -/
theorem placeOne_shift_inside (pst : VStyle) (pbase pmt by_ lo hi : Rat) : ∀ (c : VBox) (carried : Rat),
    Ext.Within (placeOne pst pbase pmt by_ c).2.1 (lo - carried) (hi - carried) →
    (∀ e ∈ (placeOne pst pbase pmt by_ c).2.2, lo + e ≤ hi) →
    ∀ d ∈ allBoxes (shift lo hi carried (placeOne pst pbase pmt by_ c).1), lo ≤ d.y ∧ d.y + d.marginHeight ≤ hi
  | .text y h mt mb b va, carried, hw, hp => by
    cases hs : va.isTopBottom with
    | false =>
      rw [placeOne_text_plain pst pbase pmt by_ y h mt mb b va hs] at hw ⊢
      intro d hd
      simp only [shift, hs, Bool.false_eq_true, if_false, allBoxes, List.mem_singleton] at hd
      subst hd
      have := Ext.within_add none _ _ _ _ hw
      simp only [VBox.y, VBox.marginHeight]
      constructor <;> grind
    | true =>
      rw [placeOne_text_tb pst pbase pmt by_ y h mt mb b va hs] at hp ⊢
      have he : lo + (h + mt + mb) ≤ hi := hp _ (by simp)
      intro d hd
      simp only [shift, hs, if_true, ownDy, extentOf, Ext.add, VBox.va, allBoxes, List.mem_singleton] at hd
      subst hd
      simp only [VBox.y, VBox.marginHeight]
      by_cases htop : va = .top
      · simp only [htop, if_true]; constructor <;> grind
      · simp only [htop, if_false]; constructor <;> grind
  | .box y h mt mb b st kids, carried, hw, hp => by
    cases htb : st.va.isTopBottom with
    | false =>
      rw [placeOne_box_plain pst pbase pmt by_ y h mt mb b st kids htb] at hw hp ⊢
      simp only at hw hp
      have hm := Ext.within_merge _ _ _ _ hw
      have ih := placeKids_shift_inside st b mt
        (childBaseline pst pbase pmt by_ st.va (h + mt + mb + st.bt + st.pt + st.pb + st.bb) b) lo hi kids carried hm.2 hp
      intro d hd
      simp only [shift, htb, Bool.false_eq_true, if_false, allBoxes, List.mem_cons] at hd
      rcases hd with hd | hd
      · subst hd
        have := Ext.within_add none _ _ _ _ hm.1
        simp only [VBox.y, VBox.marginHeight]
        constructor <;> grind
      · exact ih d hd
    | true =>
      obtain ⟨smx, smn, hsub, hs1, hs2⟩ := Ext.add_self (placeKids st b mt 0 kids).2.1 (0 - b)
        (0 - b + (h + mt + mb + st.bt + st.pt + st.pb + st.bb))
      rw [placeOne_box_tb pst pbase pmt by_ y h mt mb b st kids htb smx smn hsub] at hp ⊢
      have he : lo + (smx - smn) ≤ hi := hp _ (by simp)
      have hext : extentOf (.box (0 - b) h mt mb b st (placeKids st b mt 0 kids).1) = some (smx, smn) := by
        simp only [extentOf, VBox.marginHeight, placeKids_extent]
        exact hsub
      -- the children's own extent lies inside the subtree's extent
      have hin : Ext.Within (placeKids st b mt 0 kids).2.1 smn smx := by
        have hw0 : Ext.Within ((placeKids st b mt 0 kids).2.1.add (0 - b)
            (0 - b + (h + mt + mb + st.bt + st.pt + st.pb + st.bb))) smn smx := by
          intro mx' mn' he'; rw [hsub] at he'; cases he'; exact ⟨Rat.le_refl, Rat.le_refl⟩
        exact (Ext.within_add _ _ _ _ _ hw0).1
      intro d hd
      simp only [shift, htb, if_true, ownDy, hext, VBox.va, allBoxes, List.mem_cons] at hd
      by_cases htop : st.va = .top
      · simp only [htop, if_true] at hd
        have hkids := placeKids_shift_inside st b mt 0 lo hi kids (lo - smn)
          (by intro mx' mn' he'; have := hin mx' mn' he'; constructor <;> grind)
          (fun e he' => hp e (List.mem_append.mpr (Or.inr he')))
        rcases hd with hd | hd
        · subst hd
          simp only [VBox.y, VBox.marginHeight]
          constructor <;> grind
        · exact hkids d hd
      · simp only [htop, if_false] at hd
        have hkids := placeKids_shift_inside st b mt 0 lo hi kids (hi - smx)
          (by intro mx' mn' he'; have := hin mx' mn' he'; constructor <;> grind)
          (fun e he' => hp e (List.mem_append.mpr (Or.inr he')))
        rcases hd with hd | hd
        · subst hd
          simp only [VBox.y, VBox.marginHeight]
          constructor <;> grind
        · exact hkids d hd
theorem placeKids_shift_inside (pst : VStyle) (pbase pmt by_ lo hi : Rat) : ∀ (cs : List VBox) (carried : Rat),
    Ext.Within (placeKids pst pbase pmt by_ cs).2.1 (lo - carried) (hi - carried) →
    (∀ e ∈ (placeKids pst pbase pmt by_ cs).2.2, lo + e ≤ hi) →
    ∀ d ∈ allBoxesL (shiftL lo hi carried (placeKids pst pbase pmt by_ cs).1), lo ≤ d.y ∧ d.y + d.marginHeight ≤ hi
  | [], _, _, _ => by
    unfold placeKids
    intro d hd
    simp [shiftL, allBoxesL] at hd
  | c :: cs, carried, hw, hp => by
    unfold placeKids at hw hp ⊢
    simp only at hw hp ⊢
    have hm := Ext.within_merge _ _ _ _ hw
    have h1 := placeOne_shift_inside pst pbase pmt by_ lo hi c carried hm.1
      (fun e he => hp e (List.mem_append.mpr (Or.inl he)))
    have h2 := placeKids_shift_inside pst pbase pmt by_ lo hi cs carried hm.2
      (fun e he => hp e (List.mem_append.mpr (Or.inr he)))
    intro d hd
    simp only [shiftL, allBoxesL, List.mem_append] at hd
    rcases hd with hd | hd
    · exact h1 d hd
    · exact h2 d hd
end

theorem foldl_max_ge_mem (mn : Rat) (es : List Rat) (m : Rat) :
    ∀ e ∈ es, mn + e ≤ es.foldl (fun m e => if mn + e > m then mn + e else m) m := by
  induction es generalizing m with
  | nil => intro e he; cases he
  | cons e0 es ih =>
    intro e he
    simp only [List.foldl_cons]
    rcases List.mem_cons.mp he with rfl | hm
    · refine Rat.le_trans ?_ (foldl_max_ge mn es _)
      split <;> grind
    · exact ih _ e hm

/-- **no overlap between lines** (full strength): in every line — any nesting of inline boxes, any
font sizes, line-heights, borders and paddings, every `vertical-align` value including `top` /
`bottom` boxes holding inline boxes or other `top` / `bottom` boxes — every box has its margin box
inside the line box `[y, y + height]` after `translate_subtree`.  (Before fix 5152049 this needed the
hypothesis that every `top` / `bottom` box holds only text: the grand-children were left behind.) -/
theorem boxes_inside_line_full (lineSt : VStyle) (kids : List VNode) (posY : Rat) (l : VLine)
    (h : layoutLine lineSt kids posY = .ok l) :
    l.y = posY ∧ ∀ d ∈ allBoxesL l.kids, l.y ≤ d.y ∧ d.y + d.marginHeight ≤ l.y + l.height := by
  unfold layoutLine at h
  generalize ({ lineSt with bt := 0, pt := 0, pb := 0, bb := 0 } : VStyle) = st at h
  obtain ⟨y0, h0, mt0, mb0, b0, hb⟩ : ∃ y0 h0 mt0 mb0 b0,
      build (.box st kids) = .box y0 h0 mt0 mb0 b0 st (buildL kids) := ⟨_, _, _, _, _, by simp only [build]; rfl⟩
  simp only [hb, placeSub] at h
  cases hext : (placeKids st b0 mt0 0 (buildL kids)).2.1.add (0 - b0)
      (0 - b0 + (VBox.box y0 h0 mt0 mb0 b0 st (buildL kids)).marginHeight) with
  | none => rw [hext] at h; cases h
  | some p =>
    obtain ⟨mx0, mn⟩ := p
    rw [hext] at h
    simp only at h
    cases h
    refine ⟨rfl, ?_⟩
    intro d' hd'
    simp only at hd'
    have hmx := foldl_max_ge mn (placeKids st b0 mt0 0 (buildL kids)).2.2 mx0
    have hpend := foldl_max_ge_mem mn (placeKids st b0 mt0 0 (buildL kids)).2.2 mx0
    have hw0 : Ext.Within ((placeKids st b0 mt0 0 (buildL kids)).2.1.add (0 - b0)
        (0 - b0 + (VBox.box y0 h0 mt0 mb0 b0 st (buildL kids)).marginHeight)) mn mx0 := by
      intro mx' mn' he; rw [hext] at he; cases he; exact ⟨Rat.le_refl, Rat.le_refl⟩
    have hw := Ext.within_mono _ _ _ _ (Ext.within_add _ _ _ _ _ hw0).1 hmx
    have hw' : Ext.Within (placeKids st b0 mt0 0 (buildL kids)).2.1 (mn - 0)
        ((placeKids st b0 mt0 0 (buildL kids)).2.2.foldl (fun m e => if mn + e > m then mn + e else m) mx0 - 0) := by
      intro mx' mn' he; have := hw mx' mn' he; constructor <;> grind
    have hin := placeKids_shift_inside st b0 mt0 0 mn _ (buildL kids) 0 hw' hpend
    obtain ⟨d, hm, h1, h2⟩ := allBoxesL_translateY (posY - mn) _ d' hd'
    have := hin d hm
    simp only
    rw [h1, h2]
    constructor <;> grind

end Wp.C09L
