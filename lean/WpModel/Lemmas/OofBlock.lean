/-
Post-condition of `layoutBox` / `layoutKids` of the extended model (conservation of the in-flow lines,
progress, well-formed resume positions): mutual structural induction over `OBox` / `List OBox`, through
placeholders, floats (added, refused, broken), clearance, `find_earlier_page_break`.
-/
import WpModel.Lemmas.OofLines
import WpModel.Lemmas.OofEarlier

namespace Wp.PMO
open Wp Wp.PM

/-- What a layout returning a fragment guarantees. `pie` = the `page_is_empty` flag it was given: progress
is strict then; otherwise the position does not go back (a box whose first float does not fit comes back
empty, with a resume position equal to its skip position). -/
def BoxPost (box : OBox) (skip : Option Resume) (pie : Bool) (frag : Option OFrag) (resume : Option Resume) : Prop :=
  ∀ f, frag = some f → match resume with
    | none => Full f box skip
    | some ρ => fragLines f ++ linesFrom box (some ρ) = linesFrom box skip ∧
        pos box skip ≤ pos box (some ρ) ∧ (pie = true → pos box skip < pos box (some ρ)) ∧ WfSkip box (some ρ)

theorem finishContainer_frag (c : Ctx) (st : OStyle) (b : BoxSt) (pie : Bool) (bs : Rat)
    (cwc dbd : Bool) (resume : Option Resume) (posY : Rat) (adjL cur : List Rat) (curIsL : Bool)
    (np : NextPage) (hasKids : Bool) (pageEnd : String) (kids : List OFrag) (lb : List Broken) (w : World)
    (mk : Geo → OFrag) (f : OFrag)
    (h : (finishContainer c st b pie bs cwc dbd resume posY adjL cur curIsL np hasKids pageEnd kids lb w mk).frag
      = some f) :
    (∃ g, f = mk g) ∧
    (finishContainer c st b pie bs cwc dbd resume posY adjL cur curIsL np hasKids pageEnd kids lb w mk).resume
      = resume := by
  unfold finishContainer at h ⊢
  split
  · rename_i hc; rw [if_pos hc] at h; cases h
  · rename_i hc; rw [if_neg hc] at h
    simp only [Option.some.injEq] at h
    exact ⟨⟨_, h.symm⟩, rfl⟩

@[simp] theorem seenByCaller_frag (p : Prep) (r : LayoutResult) : (p.seenByCaller r).frag = r.frag := by
  unfold Prep.seenByCaller; split <;> rfl

@[simp] theorem seenByCaller_resume (p : Prep) (r : LayoutResult) : (p.seenByCaller r).resume = r.resume := by
  unfold Prep.seenByCaller; split <;> rfl

theorem finishPara_frag (c : Ctx) (st : OStyle) (p : Prep) (pie : Bool) (id idx n : Nat) (R : LineResult)
    (w : World) (f : OFrag) (hh : st.height = none) (h : (finishPara c st p pie id idx n R w).frag = some f) :
    R.abort = false ∧ (∃ g, f = .para 0 id idx st n g R.lines) ∧
    (finishPara c st p pie id idx n R w).resume = if R.stop then R.resume else none := by
  unfold finishPara at h ⊢
  dsimp only at h ⊢
  cases ha : R.abort with
  | true => rw [ha] at h; simp [abortResult] at h
  | false =>
    rw [ha] at h
    simp only [Bool.false_eq_true, ↓reduceIte] at h ⊢
    obtain ⟨hg, hr⟩ := finishContainer_frag _ _ _ _ _ _ _ _ _ _ _ _ _ _ _ _ _ _ _ _ h
    refine ⟨trivial, hg, ?_⟩
    rw [hr, forgetIfFixed_none _ _ _ _ hh]

theorem para_spec (id n : Nat) (lineH : Rat) (st : OStyle) (hg : Good (.para id n lineH st))
    (c : Ctx) (idx : Nat) (y bs : Rat) (skip : Option Resume) (cb pie : Bool) (adjL : List Rat) (w : World) :
    BoxPost (.para id n lineH st) skip pie
      (layoutBox c (.para id n lineH st) idx y bs skip cb pie adjL w).frag
      (layoutBox c (.para id n lineH st) idx y bs skip cb pie adjL w).resume := by
  simp only [Good] at hg
  obtain ⟨hh, ho, hw⟩ := hg
  intro f hf
  simp only [layoutBox, seenByCaller_frag, seenByCaller_resume] at hf ⊢
  obtain ⟨hab, ⟨g, rfl⟩, hres⟩ := finishPara_frag _ _ _ _ _ _ _ _ _ _ hh hf
  rw [hres]
  obtain ⟨h1, h2⟩ := linebox_spec _ _ _ _ _ _ _ _ _ _ _ _ ho hab
  split
  · rename_i hnone
    split at hnone
    · rename_i hstop
      obtain ⟨m, _, _, _, hr⟩ := h2 hstop
      rw [hr] at hnone; cases hnone
    · rename_i hstop
      simp only [Full, paraStart, true_and]
      exact h1 (by simpa using hstop)
  · rename_i ρ hsome
    split at hsome
    · rename_i hstop
      obtain ⟨m, hm1, hmn, hl, hr⟩ := h2 hstop
      rw [hr] at hsome
      simp only [Option.some.injEq] at hsome
      subst hsome
      have hps : paraStart (some (Resume.node 0 (some (Resume.line (skipLine (subSkipOf skip) + m))))) =
          paraStart skip + m := rfl
      have hlt : pos (.para id n lineH st) skip <
          pos (.para id n lineH st) (some (Resume.node 0 (some (Resume.line (skipLine (subSkipOf skip) + m))))) := by
        simp only [pos]
        rw [hps]
        unfold paraStart
        omega
      refine ⟨?_, Nat.le_of_lt hlt, fun _ => hlt, by simp [WfSkip]⟩
      simp only [fragLines, linesFrom]
      rw [hps, ← paraLines_split id (paraStart skip) m n (by unfold paraStart; omega)]
      congr 1
      have hl' : _ = List.range' (paraStart skip) m := hl
      rw [← hl', List.map_map]
      rfl
    · cases hsome

/-- Post-condition of the children loop, relative to the boxes `all` at positions `i0, i0+1, …`. -/
def KidsPost (all : List OBox) (i0 : Nat) (sub0 : Option Resume) (pie : Bool) : KidsOutcome → Prop
  | .finished s' => FullFrom s'.newChildren all i0 sub0
  | .aborted _ _ => True
  | .stopped ρ s' => ∃ m, ρ.isSome = true ∧ skipIdxOf ρ = i0 + m ∧
      fragLinesList s'.newChildren ++ linesFromKids all m (subSkipOf ρ) = linesFromKids all 0 sub0 ∧
      posKids all 0 sub0 ≤ posKids all m (subSkipOf ρ) ∧
      (pie = true → posKids all 0 sub0 < posKids all m (subSkipOf ρ)) ∧
      WfSkipKids all m (subSkipOf ρ)

theorem fragLinesList_append (a b : List OFrag) :
    fragLinesList (a ++ b) = fragLinesList a ++ fragLinesList b := by
  induction a with
  | nil => simp [fragLinesList]
  | cons x xs ih => simp [fragLinesList, ih]

theorem linesFromKids_append_zero (B R : List OBox) (sub0 : Option Resume) :
    linesFromKids (B ++ R) 0 sub0 =
      linesFromKids B 0 sub0 ++ linesFromKids R 0 (if B = [] then sub0 else none) := by
  cases B with
  | nil => simp [linesFromKids]
  | cons b B => rw [linesFromKids_append_lt _ _ _ _ (by simp)]; simp

/-- Stopping before the child at position `i0 + B.length`, at least one child being laid out. -/
theorem stop_before_spec (B R : List OBox) (i0 : Nat) (sub0 : Option Resume) (pie : Bool) (s' : KidsLoop)
    (hinv : FullFrom s'.newChildren B i0 sub0) (hne : s'.newChildren ≠ []) :
    KidsPost (B ++ R) i0 sub0 pie (.stopped (some (.node (i0 + B.length) none)) s') := by
  have hlen := fullFrom_length _ _ _ _ hinv
  have hB : 0 < B.length := by
    rw [← hlen]; exact List.length_pos_iff.mpr hne
  have hlt : posKids (B ++ R) 0 sub0 < posKids (B ++ R) B.length none := by
    rw [posKids_append_lt _ _ _ _ hB]
    have := posKids_append_len B R 0 none
    simp only [Nat.add_zero] at this
    rw [this]
    have := posKids_lt B 0 sub0 hB
    omega
  refine ⟨B.length, rfl, rfl, ?_, Nat.le_of_lt hlt, fun _ => hlt, wfSkipKids_none _ _⟩
  rw [fullFrom_lines _ _ _ _ hinv, linesFromKids_append_lt _ _ _ _ hB]
  have := linesFromKids_append_len B R 0 none
  simp only [Nat.add_zero] at this
  simp only [subSkipOf_node]
  rw [this]

/-- An earlier break found among the laid-out children `B`, seen from `B ++ R`. -/
theorem earlier_spec (B R : List OBox) (i0 : Nat) (sub0 : Option Resume) (pie : Bool) (s' : KidsLoop)
    (kept : List OFrag) (r' : Resume) (hgB : GoodList B) (hinv : FullFrom s'.newChildren B i0 sub0)
    (hfound : (findEarlierGo s'.newChildren).found = some (kept, r')) (w : World) :
    KidsPost (B ++ R) i0 sub0 pie (.stopped (some r') { s' with newChildren := kept, w := w }) := by
  obtain ⟨m, sub', rfl, hm, hlines, hpos, hwf⟩ := (findEarlierGo_spec _ _ _ _ hgB hinv).2 kept r' hfound
  have h0 : 0 < B.length := by omega
  have hlt : posKids (B ++ R) 0 sub0 < posKids (B ++ R) m sub' := by
    rw [posKids_append_lt _ _ _ _ hm, posKids_append_lt _ _ _ _ h0]
    exact hpos
  refine ⟨m, rfl, rfl, ?_, Nat.le_of_lt hlt, fun _ => hlt, ?_⟩
  · simp only [subSkipOf_node]
    rw [linesFromKids_append_lt _ _ _ _ hm, linesFromKids_append_lt _ _ _ _ h0, ← List.append_assoc, hlines]
  · simp only [subSkipOf_node]
    exact (wfSkipKids_append_lt B R m sub' hm).mpr hwf

theorem posKids_append_zero (B : List OBox) (child : OBox) (rest : List OBox) (sub0 : Option Resume)
    (hc : child.inFlow = true) :
    posKids (B ++ child :: rest) 0 sub0 ≤ sizeList B + pos child (if B = [] then sub0 else none) := by
  cases B with
  | nil => simp [posKids, sizeList, hc]
  | cons b B =>
    rw [posKids_append_lt _ _ _ _ (by simp)]
    have := posKids_lt (b :: B) 0 sub0 (by simp)
    omega

theorem conclude_spec (index : Nat) (pie : Bool) (pb : Brk) (child : OBox) (s : KidsLoop)
    (frag : Option OFrag) (resume : Option Resume) (B rest : List OBox) (i0 : Nat) (sub0 : Option Resume)
    (pe : Bool) (hgB : GoodList B) (hinv : FullFrom s.newChildren B i0 sub0) (hidx : index = i0 + B.length)
    (hcin : child.inFlow = true) (hfin : ∀ f, frag = some f → f.inFlow = true)
    (hpe : B = [] → pie = true → pe = true)
    (hchild : BoxPost child (if B = [] then sub0 else none) pe frag resume) :
    (∀ out s3, concludeKid index pie pb child s frag resume = (some out, s3) →
      KidsPost (B ++ child :: rest) i0 sub0 pie out) ∧
    (∀ s3, concludeKid index pie pb child s frag resume = (none, s3) →
      FullFrom s3.newChildren (B ++ [child]) i0 sub0 ∧ s3.skip = s.skip) := by
  cases frag with
  | none =>
    constructor
    · intro out s3 h
      unfold concludeKid at h
      dsimp only at h
      split at h
      · -- an earlier break
        rename_i kept r' hearlier
        simp only [Prod.mk.injEq, Option.some.injEq] at h
        obtain ⟨rfl, rfl⟩ := h
        have hfound : (findEarlierGo s.newChildren).found = some (kept, r') := by
          split at hearlier
          · exact hearlier
          · cases hearlier
        exact earlier_spec B (child :: rest) i0 sub0 pie s kept r' hgB hinv hfound _
      · split at h
        · simp only [Prod.mk.injEq, Option.some.injEq] at h
          obtain ⟨rfl, rfl⟩ := h
          trivial
        · by_cases hall : s.newChildren.all OFrag.isAbs = true
          · simp [hall] at h
            obtain ⟨rfl, rfl⟩ := h
            trivial
          · simp only [hall, Bool.false_eq_true, ↓reduceIte] at h
            by_cases hne : s.newChildren.isEmpty = true
            · simp [hne] at h
              obtain ⟨rfl, rfl⟩ := h
              trivial
            · simp [hne] at h
              obtain ⟨rfl, rfl⟩ := h
              rw [hidx]
              apply stop_before_spec _ _ _ _ _ _ hinv
              intro he; rw [he] at hne; simp at hne
    · intro s3 h
      unfold concludeKid at h
      dsimp only at h
      split at h
      · simp at h
      · split at h
        · simp at h
        · by_cases hall : s.newChildren.all OFrag.isAbs = true
          · simp [hall] at h
          · simp only [hall, Bool.false_eq_true, ↓reduceIte] at h
            by_cases hne : s.newChildren.isEmpty = true
            · simp [hne] at h
            · simp [hne] at h
  | some f =>
    have hc := hchild f rfl
    have hf := hfin f rfl
    cases resume with
    | some r' =>
      simp only at hc
      obtain ⟨hl, hle, hlt, hwf⟩ := hc
      constructor
      · intro out s3 h
        simp only [concludeKid, Prod.mk.injEq, Option.some.injEq] at h
        obtain ⟨rfl, rfl⟩ := h
        have hlen := posKids_append_len B (child :: rest) 0 (some r')
        simp only [Nat.add_zero] at hlen
        have hz := posKids_append_zero B child rest sub0 hcin
        refine ⟨B.length, rfl, by rw [hidx]; rfl, ?_, ?_, ?_, ?_⟩
        · simp only [subSkipOf_node]
          rw [fragLinesList_append, fullFrom_lines _ _ _ _ hinv, linesFromKids_append_zero]
          have := linesFromKids_append_len B (child :: rest) 0 (some r')
          simp only [Nat.add_zero] at this
          rw [this]
          simp only [fragLinesList, fragLines_withIdx, inFlow_withIdx, hf, hcin, if_true, List.append_nil,
            linesFromKids, List.append_assoc]
          rw [← List.append_assoc (fragLines f), hl]
        · simp only [subSkipOf_node]
          rw [hlen]
          simp only [posKids, hcin, if_true]
          omega
        · intro hp
          simp only [subSkipOf_node]
          rw [hlen]
          simp only [posKids, hcin, if_true]
          cases B with
          | nil =>
            have := hlt (hpe rfl hp)
            simp at hz this ⊢
            simp only [posKids, hcin, if_true]
            simpa [sizeList] using this
          | cons b0 B' =>
            have h1 := posKids_lt (b0 :: B') 0 sub0 (by simp)
            rw [posKids_append_lt _ _ _ _ (by simp)]
            omega
        · simp only [subSkipOf_node]
          have := wfSkipKids_append_len B (child :: rest) 0 (some r')
          simp only [Nat.add_zero] at this
          rw [this]
          simpa only [WfSkipKids, hcin, if_true] using hwf
      · intro s3 h
        simp [concludeKid] at h
    | none =>
      simp only at hc
      constructor
      · intro out s3 h
        simp [concludeKid] at h
      · intro s3 h
        simp only [concludeKid, Prod.mk.injEq, true_and] at h
        subst h
        refine ⟨?_, rfl⟩
        apply fullFrom_snoc _ _ _ _ _ _ hinv (by simp [hf, hcin]) (fun _ => full_withIdx _ _ _ _ hc)
        simp [hidx]

/-! ### translations do not change what a fragment holds -/

mutual
theorem full_translate : (f : OFrag) → (b : OBox) → (σ : Option Resume) → (dy : Rat) → Full f b σ →
    Full (f.translate dy) b σ
  | .para _ _ _ _ _ _ lines, b, σ, dy => by
    intro h
    cases b with
    | block _ _ _ => simp [Full] at h
    | para id' n' lh st' =>
      simp only [OFrag.translate, Full] at h ⊢
      refine ⟨h.1, h.2.1, h.2.2.1, ?_⟩
      rw [List.map_map]
      exact h.2.2.2
  | .block _ _ _ _ _ fs, b, σ, dy => by
    intro h
    cases b with
    | para _ _ _ _ => simp [Full] at h
    | block id' st' kids =>
      simp only [OFrag.translate, Full] at h ⊢
      exact fullFrom_translate fs _ _ _ dy h
  | .ph _ _ _ _, b, σ, dy => by intro h; simp [Full] at h
theorem fullFrom_translate : (fs : List OFrag) → (bs : List OBox) → (i : Nat) → (sub : Option Resume) →
    (dy : Rat) → FullFrom fs bs i sub → FullFrom (translateList dy fs) bs i sub
  | [], bs, i, sub, dy => by intro h; simpa [translateList, FullFrom] using h
  | f :: fs, bs, i, sub, dy => by
    intro h
    cases bs with
    | nil => simp [FullFrom] at h
    | cons b bs =>
      simp only [FullFrom] at h
      simp only [translateList, FullFrom, idx_translate, inFlow_translate]
      exact ⟨h.1, h.2.1, fun hb => full_translate f b sub dy (h.2.2.1 hb), fullFrom_translate fs bs _ _ dy h.2.2.2⟩
end

mutual
theorem fragLines_translate : (f : OFrag) → (dy : Rat) → fragLines (f.translate dy) = fragLines f
  | .para _ _ _ _ _ _ lines, dy => by simp [OFrag.translate, fragLines, List.map_map, Function.comp_def]
  | .block _ _ _ _ _ fs, dy => by simp [OFrag.translate, fragLines, fragLinesList_translate fs dy]
  | .ph _ _ _ _, dy => by simp [OFrag.translate, fragLines]
theorem fragLinesList_translate : (fs : List OFrag) → (dy : Rat) →
    fragLinesList (translateList dy fs) = fragLinesList fs
  | [], dy => rfl
  | f :: fs, dy => by
    simp [translateList, fragLinesList, fragLines_translate f dy, fragLinesList_translate fs dy]
end

theorem translateList_eq_nil (dy : Rat) (fs : List OFrag) : translateList dy fs = [] ↔ fs = [] := by
  cases fs <;> simp [translateList]

/-! ### `preFlow` -/

theorem preFlow_skip (c : Ctx) (b : BoxSt) (cwc pie : Bool) (child : OBox) (s : KidsLoop) :
    (preFlow c b cwc pie child s).skip = s.skip := by
  unfold preFlow
  split
  · rfl
  · dsimp only
    split <;> rfl

theorem preFlow_children (c : Ctx) (b : BoxSt) (cwc pie : Bool) (child : OBox) (s : KidsLoop) :
    ∃ dy, (preFlow c b cwc pie child s).newChildren = translateList dy s.newChildren := by
  have h0 : ∀ fs : List OFrag, translateList 0 fs = fs := by
    intro fs
    have hf : ∀ f : OFrag, f.translate 0 = f := by
      intro f
      induction f using OFrag.rec (motive_2 := fun fs => translateList 0 fs = fs) with
      | para ser id idx st n g lines =>
        simp only [OFrag.translate, Rat.add_zero]
        congr 1
        exact List.map_id'' (fun l => rfl) lines
      | block ser id idx st g kids ih => simp only [OFrag.translate, Rat.add_zero, ih]
      | ph ser id idx y => simp [OFrag.translate, Rat.add_zero]
      | nil => rfl
      | cons f fs ihf ihfs => simp only [translateList, ihf, ihfs]
    induction fs with
    | nil => rfl
    | cons f fs ih => simp only [translateList, hf, ih]
  unfold preFlow
  split
  · exact ⟨0, (h0 _).symm⟩
  · dsimp only
    split
    · exact ⟨_, rfl⟩
    · exact ⟨0, (h0 _).symm⟩

/-! ### out-of-flow children -/

theorem placeAbs_spec (index : Nat) (child : OBox) (s : KidsLoop) (B : List OBox) (i0 : Nat)
    (sub0 : Option Resume) (hinv : FullFrom s.newChildren B i0 sub0) (hidx : index = i0 + B.length)
    (hc : child.inFlow = false) :
    FullFrom (placeAbs index child hc s).newChildren (B ++ [child]) i0 sub0 ∧
      (placeAbs index child hc s).skip = s.skip := by
  refine ⟨?_, rfl⟩
  simp only [placeAbs]
  apply fullFrom_snoc _ _ _ _ _ _ hinv
  · simp [OFrag.inFlow, hc]
  · intro h; rw [hc] at h; cases h
  · simp [OFrag.idx, hidx]

@[simp] theorem inFlow_placeFloat (shapes : List Shape) (f : OFrag) : (placeFloat shapes f).inFlow = f.inFlow := by
  unfold placeFloat
  simp only [inFlow_translate]
  split
  · split <;> simp
  · rfl

theorem floatStep_spec (c : Ctx) (index : Nat) (pie : Bool) (bs : Rat) (child : OBox) (s : KidsLoop)
    (r : LayoutResult) (B rest : List OBox) (i0 : Nat) (sub0 : Option Resume)
    (hgB : GoodList B) (hinv : FullFrom s.newChildren B i0 sub0) (hidx : index = i0 + B.length)
    (hc : child.inFlow = false) (hrf : ∀ f, r.frag = some f → f.inFlow = false) :
    (∀ out s3, floatStep c index pie bs child hc s r = (some out, s3) →
      KidsPost (B ++ child :: rest) i0 sub0 pie out) ∧
    (∀ s3, floatStep c index pie bs child hc s r = (none, s3) →
      FullFrom s3.newChildren (B ++ [child]) i0 sub0 ∧ s3.skip = s.skip) := by
  unfold floatStep floatDone
  cases hfr : r.frag with
  | none =>
    simp only
    exact ⟨fun out s3 h => by simp only [Prod.mk.injEq, Option.some.injEq] at h; rw [← h.1]; trivial,
      fun s3 h => by simp at h⟩
  | some f0 =>
    have hf0 := hrf f0 hfr
    simp only
    split
    · -- the float is added
      constructor
      · intro out s3 h; simp at h
      · intro s3 h
        simp only [Prod.mk.injEq, true_and] at h
        subst h
        refine ⟨?_, rfl⟩
        simp only
        apply fullFrom_snoc _ _ _ _ _ _ hinv
        · simp [hf0, hc]
        · intro h; rw [hc] at h; cases h
        · simp [hidx]
    · rename_i hadd
      constructor
      · intro out s3 h
        split at h
        · rename_i kept r' hearlier
          simp only [Prod.mk.injEq, Option.some.injEq] at h
          obtain ⟨rfl, rfl⟩ := h
          have hfound : (findEarlierGo s.newChildren).found = some (kept, r') := by
            split at hearlier
            · exact hearlier
            · cases hearlier
          exact earlier_spec B (child :: rest) i0 sub0 pie s kept r' hgB hinv hfound _
        · simp only [Prod.mk.injEq, Option.some.injEq] at h
          obtain ⟨rfl, rfl⟩ := h
          by_cases hne : s.newChildren = []
          · -- nothing laid out yet (and the page is not empty): the box comes back empty
            have hB : B = [] := by
              have := fullFrom_length _ _ _ _ hinv
              rw [hne] at this
              simpa using this.symm
            subst hB
            have hpie : pie = false := by
              simp only [hne, List.isEmpty_nil, Bool.and_true, Bool.or_eq_true, not_or, Bool.not_eq_true'] at hadd
              cases pie
              · rfl
              · exact absurd rfl hadd.1
            subst hpie
            refine ⟨0, rfl, by simp [hidx], ?_, ?_, by simp, wfSkipKids_none _ _⟩
            · simp [hne, fragLinesList, linesFromKids, hc]
            · simp [posKids, hc]
          · rw [hidx]
            exact stop_before_spec _ _ _ _ _ _ hinv hne
      · intro s3 h
        split at h <;> simp at h

/-- The fragment a layout returns is in the flow iff the box is. -/
theorem layoutBox_frag_inFlow (c : Ctx) (box : OBox) (idx : Nat) (y bs : Rat) (skip : Option Resume)
    (cb pie : Bool) (adjL : List Rat) (w : World) (f : OFrag)
    (h : (layoutBox c box idx y bs skip cb pie adjL w).frag = some f) : f.inFlow = box.inFlow := by
  cases box with
  | para id n lineH st =>
    simp only [layoutBox, seenByCaller_frag] at h
    unfold finishPara at h
    dsimp only at h
    split at h
    · simp [abortResult] at h
    · obtain ⟨⟨g, rfl⟩, _⟩ := finishContainer_frag _ _ _ _ _ _ _ _ _ _ _ _ _ _ _ _ _ _ _ _ h
      rfl
  | block id st kids =>
    simp only [layoutBox, seenByCaller_frag] at h
    unfold finishBlock at h
    split at h
    · simp [abortResult] at h
    · obtain ⟨⟨g, rfl⟩, _⟩ := finishContainer_frag _ _ _ _ _ _ _ _ _ _ _ _ _ _ _ _ _ _ _ _ h
      rfl
    · obtain ⟨⟨g, rfl⟩, _⟩ := finishContainer_frag _ _ _ _ _ _ _ _ _ _ _ _ _ _ _ _ _ _ _ _ h
      rfl

theorem boxPost_none (box : OBox) (skip resume : Option Resume) (pie : Bool) :
    BoxPost box skip pie none resume := by
  intro f h; cases h

theorem finishBlock_post (c : Ctx) (st : OStyle) (p : Prep) (pie : Bool) (id idx : Nat) (out : KidsOutcome)
    (kids : List OBox) (skip : Option Resume) (hh : st.height = none)
    (hout : KidsPost (kids.drop (skipIdxOf skip)) (skipIdxOf skip) (subSkipOf skip) pie out) :
    BoxPost (.block id st kids) skip pie (finishBlock c st p pie id idx out).frag
      (finishBlock c st p pie id idx out).resume := by
  intro f hf
  cases out with
  | aborted page s => simp [finishBlock, abortResult] at hf
  | stopped resume s =>
    simp only [finishBlock] at hf ⊢
    obtain ⟨⟨g, rfl⟩, hr⟩ := finishContainer_frag _ _ _ _ _ _ _ _ _ _ _ _ _ _ _ _ _ _ _ _ hf
    rw [hr, forgetIfFixed_none _ _ _ _ hh]
    obtain ⟨m, hsome, hidx, hlines, hle, hlt, hwf⟩ := hout
    cases resume with
    | none => simp at hsome
    | some ρ =>
      simp only
      have hd := posKids_drop kids (skipIdxOf skip) 0 (subSkipOf skip)
      simp only [Nat.add_zero] at hd
      refine ⟨?_, ?_, ?_, ?_⟩
      · simp only [fragLines, linesFrom]
        rw [hidx, linesFromKids_drop, hlines]
        have := linesFromKids_drop kids (skipIdxOf skip) 0 (subSkipOf skip)
        simpa using this.symm
      · simp only [pos]
        rw [hidx, posKids_drop, hd]
        omega
      · intro hp
        have := hlt hp
        simp only [pos]
        rw [hidx, posKids_drop, hd]
        omega
      · simp only [WfSkip]
        rw [hidx]
        exact (wfSkipKids_drop kids (skipIdxOf skip) m _).mpr hwf
  | finished s =>
    simp only [finishBlock] at hf ⊢
    obtain ⟨⟨g, rfl⟩, hr⟩ := finishContainer_frag _ _ _ _ _ _ _ _ _ _ _ _ _ _ _ _ _ _ _ _ hf
    rw [hr]
    simp only [Full]
    exact hout

/-! ### the loop state helpers keep the children -/

@[simp] theorem setCur_newChildren' (s : KidsLoop) (l : List Rat) (b : Bool) :
    (s.setCur l b).newChildren = s.newChildren := by
  unfold KidsLoop.setCur; split <;> rfl

@[simp] theorem appendCur_newChildren' (s : KidsLoop) (m : Rat) :
    (s.appendCur m).newChildren = s.newChildren := by
  unfold KidsLoop.appendCur; split <;> rfl

@[simp] theorem adoptAdj_newChildren' (s : KidsLoop) (h : Bool) (a : AdjOut) (f : Option OFrag) :
    (s.adoptAdj h a f).newChildren = s.newChildren := by
  unfold KidsLoop.adoptAdj
  split
  · rfl
  · cases a <;> cases f <;> simp

theorem firstPass_keep (c : Ctx) (bs : Rat) (pienc : Bool) (posY : Rat) (r : LayoutResult)
    (frag : Option OFrag) (y : Rat) (h : firstPass c bs pienc posY r = .keep frag y) :
    frag = none ∨ frag = r.frag := by
  unfold firstPass at h
  split at h
  · simp only [FirstPass.keep.injEq] at h; left; exact h.1.symm
  · rename_i f hf
    split at h
    · simp only [FirstPass.keep.injEq] at h; right; rw [hf]; exact h.1.symm
    · dsimp only at h
      split at h
      · simp only [FirstPass.keep.injEq] at h; left; exact h.1.symm
      · split at h
        · cases h
        · simp only [FirstPass.keep.injEq] at h; right; rw [hf]; exact h.1.symm

theorem meetBreak_nil (s : KidsLoop) (child : OBox) (h : s.newChildren = []) : (meetBreak s child).2 = false := by
  unfold meetBreak; simp [h, lastInFlow]

theorem inFlow_of_pos (b : OBox) : b.inFlow = true ↔ b.st.pos = .static := by
  simp [OBox.inFlow]

mutual
/-- **Segment + progress post-condition of `block_level_layout`** in the extended model, for every box
whose own flow has no fixed heights and `orphans, widows ≥ 1`, every context, position, world, and every
well-formed skip stack. -/
theorem box_spec : (box : OBox) → Good box → ∀ (c : Ctx) (idx : Nat) (y bs : Rat) (skip : Option Resume)
    (cb pie : Bool) (adjL : List Rat) (w : World), WfSkip box skip →
    BoxPost box skip pie (layoutBox c box idx y bs skip cb pie adjL w).frag
      (layoutBox c box idx y bs skip cb pie adjL w).resume
  | .para id n lineH st => by
    intro hg c idx y bs skip cb pie adjL w _
    exact para_spec id n lineH st hg c idx y bs skip cb pie adjL w
  | .block id st kids => by
    intro hg c idx y bs skip cb pie adjL w hwf
    simp only [Good] at hg
    simp only [layoutBox, seenByCaller_frag, seenByCaller_resume]
    apply finishBlock_post _ _ _ _ _ _ _ _ _ hg.1
    simp only [WfSkip] at hwf
    have := kids_spec kids hg.2 c st (prepare c st y bs skip cb pie adjL w.shapes).b
      (prepare c st y bs skip cb pie adjL w.shapes).cwc [] (skipIdxOf skip) (subSkipOf skip) 0 (skipIdxOf skip)
      (prepare c st y bs skip cb pie adjL w.shapes).bs pie
      { newChildren := [], posY := (prepare c st y bs skip cb pie adjL w.shapes).posY,
        boxY := (prepare c st y bs skip cb pie adjL w.shapes).b.y,
        adjL := (prepare c st y bs skip cb pie adjL w.shapes).adjL,
        cur := (prepare c st y bs skip cb pie adjL w.shapes).cur,
        curIsL := (prepare c st y bs skip cb pie adjL w.shapes).curIsL,
        nextPage := { brk := none, page := none }, skip := subSkipOf skip, localBroken := [], w := w }
      (by simp [GoodList]) (by simp [FullFrom]) (by intro _; exact ⟨rfl, rfl⟩) (by intro h; simp; omega)
      (by simp) (by
        have := (wfSkipKids_drop kids (skipIdxOf skip) 0 (subSkipOf skip)).mp (by simpa using hwf)
        simpa using this)
    simpa using this
theorem kids_spec : (rest : List OBox) → GoodList rest → ∀ (c : Ctx) (st : OStyle) (b : BoxSt) (cwc : Bool)
    (B : List OBox) (i0 : Nat) (sub0 : Option Resume) (index skipIdx : Nat) (bs : Rat) (pie : Bool) (s : KidsLoop),
    GoodList B → FullFrom s.newChildren B i0 sub0 →
    (index < skipIdx → B = [] ∧ i0 = skipIdx) → (skipIdx ≤ index → index = i0 + B.length) →
    s.skip = (if B = [] then sub0 else none) →
    WfSkipKids (B ++ rest.drop (skipIdx - index)) 0 sub0 →
    KidsPost (B ++ rest.drop (skipIdx - index)) i0 sub0 pie (layoutKids c st b cwc rest index skipIdx bs pie s)
  | [] => by
    intro _ c st b cwc B i0 sub0 index skipIdx bs pie s hgB hinv _ _ _ _
    simp only [layoutKids, List.drop_nil, List.append_nil, KidsPost]
    exact hinv
  | child :: rest => by
    intro hg c st b cwc B i0 sub0 index skipIdx bs pie s hgB hinv hlt hge hskip hwf
    simp only [GoodList] at hg
    unfold layoutKids
    by_cases hc : index < skipIdx
    · rw [if_pos hc]
      obtain ⟨hB, hi0⟩ := hlt hc
      have hd : (child :: rest).drop (skipIdx - index) = rest.drop (skipIdx - (index + 1)) := by
        have : skipIdx - index = (skipIdx - (index + 1)) + 1 := by omega
        rw [this, List.drop_succ_cons]
      rw [hd] at hwf ⊢
      exact kids_spec rest hg.2 c st b cwc B i0 sub0 (index + 1) skipIdx bs pie s hgB hinv
        (fun _ => ⟨hB, hi0⟩) (by intro _; subst hB; simp; omega) hskip hwf
    · rw [if_neg hc]
      have hidx := hge (by omega)
      have hd : skipIdx - index = 0 := by omega
      rw [hd, List.drop_zero] at hwf ⊢
      have hnext : ∀ s3 : KidsLoop, FullFrom s3.newChildren (B ++ [child]) i0 sub0 → s3.skip = none →
          KidsPost (B ++ child :: rest) i0 sub0 pie (layoutKids c st b cwc rest (index + 1) skipIdx bs pie s3) := by
        intro s3 h3 hs3
        have := kids_spec rest hg.2 c st b cwc (B ++ [child]) i0 sub0 (index + 1) skipIdx bs pie s3
          (goodList_append _ _ hgB (by simp only [GoodList, and_true]; exact hg.1)) h3 (by intro _; omega)
          (by intro _; simp; omega) (by simp [hs3])
          (by
            have hd' : skipIdx - (index + 1) = 0 := by omega
            simpa [hd'] using hwf)
        have hd' : skipIdx - (index + 1) = 0 := by omega
        simpa [hd'] using this
      -- what the skip stack says about the first visited child
      have hwfc : WfSkipKids (child :: rest) 0 (if B = [] then sub0 else none) := by
        by_cases hB : B = []
        · subst hB; simpa using hwf
        · simp only [hB, if_false]; exact wfSkipKids_none _ _
      split
      · -- absolutely positioned child
        rename_i hpos
        have hcf : child.inFlow = false := by simp [OBox.inFlow, hpos]
        have hsn : s.skip = none := by
          rw [hskip]
          simp only [WfSkipKids, hcf, Bool.false_eq_true, if_false] at hwfc
          exact hwfc
        obtain ⟨h1, h2⟩ := placeAbs_spec index child s B i0 sub0 hinv hidx hcf
        exact hnext _ h1 (by rw [h2, hsn])
      · -- floated child
        rename_i hpos
        dsimp only
        have hcf : child.inFlow = false := by simp [OBox.inFlow, hpos]
        have hsn : s.skip = none := by
          rw [hskip]
          simp only [WfSkipKids, hcf, Bool.false_eq_true, if_false] at hwfc
          exact hwfc
        have hrf : ∀ f, (layoutBox c child index
            (floatY s.w.shapes child.st.clear (s.posY + collapseMargin s.cur)) bs none false true []
            { s.w with shapes := [] }).frag = some f → f.inFlow = false := by
          intro f hf
          rw [layoutBox_frag_inFlow _ _ _ _ _ _ _ _ _ _ _ hf, hcf]
        obtain ⟨h1, h2⟩ := floatStep_spec c index pie bs child s _ B rest i0 sub0 hgB hinv hidx hcf hrf
        split
        · rename_i out s3 heq
          exact h1 out s3 heq
        · rename_i s3 heq
          obtain ⟨h3, h4⟩ := h2 s3 heq
          exact hnext s3 h3 (by rw [h4, hsn])
      · -- child in the normal flow
        rename_i hpos
        dsimp only
        have hcin : child.inFlow = true := by simp [OBox.inFlow, hpos]
        have hgc : Good child := hg.1 hcin
        have hwfchild : WfSkip child s.skip := by
          rw [hskip]
          simpa only [WfSkipKids, hcin, if_true] using hwfc
        split
        · -- forced break before `child`
          rename_i hforced
          rw [hidx]
          apply stop_before_spec _ _ _ _ _ _ hinv
          intro he
          rw [meetBreak_nil s child he] at hforced
          cases hforced
        · obtain ⟨dy, hdy⟩ := preFlow_children c { b with y := s.boxY } cwc pie child s
          have hsk0 := preFlow_skip c { b with y := s.boxY } cwc pie child s
          have hinv0 : FullFrom (preFlow c { b with y := s.boxY } cwc pie child s).newChildren B i0 sub0 := by
            rw [hdy]; exact fullFrom_translate _ _ _ _ dy hinv
          have hpe : B = [] → pie = true →
              pienc pie (preFlow c { b with y := s.boxY } cwc pie child s) = true := by
            intro hB hp
            have hnil : s.newChildren = [] := by
              have := fullFrom_length _ _ _ _ hinv
              rw [hB] at this
              simpa using this
            unfold pienc
            rw [hdy, hnil]
            simp [hp, translateList]
          split
          · -- first pass kept (or discarded) the child
            rename_i frag posY hfp
            have hfr := firstPass_keep _ _ _ _ _ _ _ hfp
            have hchild : BoxPost child (if B = [] then sub0 else none)
                (pienc pie (preFlow c { b with y := s.boxY } cwc pie child s)) frag
                (layoutBox c child index s.posY bs (preFlow c { b with y := s.boxY } cwc pie child s).skip
                  st.isRoot (pienc pie (preFlow c { b with y := s.boxY } cwc pie child s))
                  (preFlow c { b with y := s.boxY } cwc pie child s).cur
                  (preFlow c { b with y := s.boxY } cwc pie child s).w).resume := by
              rcases hfr with h | h
              · rw [h]; exact boxPost_none _ _ _ _
              · rw [h, ← hskip, ← hsk0]
                exact box_spec child hgc _ _ _ _ _ _ _ _ _ (by rw [hsk0]; exact hwfchild)
            have hfin : ∀ f, frag = some f → f.inFlow = true := by
              intro f hf
              rcases hfr with h | h
              · rw [h] at hf; cases hf
              · rw [h] at hf
                rw [layoutBox_frag_inFlow _ _ _ _ _ _ _ _ _ _ _ hf, hcin]
            split
            · rename_i out s3 heq
              exact (conclude_spec _ _ _ _ _ _ _ B rest i0 sub0 _ hgB (by simpa using hinv0) hidx hcin hfin hpe
                hchild).1 out s3 heq
            · rename_i s3 heq
              have hcs := (conclude_spec _ _ _ _ _ _ _ B rest i0 sub0 _ hgB (by simpa using hinv0) hidx hcin hfin
                hpe hchild).2 s3 heq
              exact hnext s3 hcs.1 hcs.2
          · -- second layout with a larger bottom space
            rename_i bs' hfp
            have hchild := box_spec child hgc c index s.posY bs'
              (preFlow c { b with y := s.boxY } cwc pie child s).skip st.isRoot
              (pienc pie (preFlow c { b with y := s.boxY } cwc pie child s))
              ({ (preFlow c { b with y := s.boxY } cwc pie child s).setCur
                  (layoutBox c child index s.posY bs (preFlow c { b with y := s.boxY } cwc pie child s).skip
                    st.isRoot (pienc pie (preFlow c { b with y := s.boxY } cwc pie child s))
                    (preFlow c { b with y := s.boxY } cwc pie child s).cur
                    (preFlow c { b with y := s.boxY } cwc pie child s).w).adjL
                  (preFlow c { b with y := s.boxY } cwc pie child s).curIsL with
                w := (layoutBox c child index s.posY bs (preFlow c { b with y := s.boxY } cwc pie child s).skip
                    st.isRoot (pienc pie (preFlow c { b with y := s.boxY } cwc pie child s))
                    (preFlow c { b with y := s.boxY } cwc pie child s).cur
                    (preFlow c { b with y := s.boxY } cwc pie child s).w).w } : KidsLoop).cur
              (dropFrag (layoutBox c child index s.posY bs (preFlow c { b with y := s.boxY } cwc pie child s).skip
                    st.isRoot (pienc pie (preFlow c { b with y := s.boxY } cwc pie child s))
                    (preFlow c { b with y := s.boxY } cwc pie child s).cur
                    (preFlow c { b with y := s.boxY } cwc pie child s).w).w
                (layoutBox c child index s.posY bs (preFlow c { b with y := s.boxY } cwc pie child s).skip
                    st.isRoot (pienc pie (preFlow c { b with y := s.boxY } cwc pie child s))
                    (preFlow c { b with y := s.boxY } cwc pie child s).cur
                    (preFlow c { b with y := s.boxY } cwc pie child s).w).frag none)
              (by rw [hsk0]; exact hwfchild)
            rw [hsk0, hskip] at hchild
            have hfin : ∀ (y' bs2 : Rat) (sk : Option Resume) (cb' pe' : Bool) (adjL' : List Rat) (w' : World)
                (f : OFrag), (layoutBox c child index y' bs2 sk cb' pe' adjL' w').frag = some f →
                f.inFlow = true := by
              intro y' bs2 sk cb' pe' adjL' w' f hf
              rw [layoutBox_frag_inFlow _ _ _ _ _ _ _ _ _ _ _ hf, hcin]
            split
            · rename_i out s3 heq
              rw [hsk0, hskip] at heq
              exact (conclude_spec _ _ _ _ _ _ _ B rest i0 sub0 _ hgB (by simpa using hinv0) hidx hcin
                (fun f hf => hfin _ _ _ _ _ _ _ f hf) hpe hchild).1 out s3 heq
            · rename_i s3 heq
              rw [hsk0, hskip] at heq
              have hcs := (conclude_spec _ _ _ _ _ _ _ B rest i0 sub0 _ hgB (by simpa using hinv0) hidx hcin
                (fun f hf => hfin _ _ _ _ _ _ _ f hf) hpe hchild).2 s3 heq
              exact hnext s3 hcs.1 hcs.2
end

end Wp.PMO
