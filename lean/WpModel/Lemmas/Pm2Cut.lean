/-
The cut lemma behind the page-level C04 theorems: if two adjacent siblings `a`, `b` (anywhere in the tree)
meet at a forced break or a change of page name, a layout that starts before `b` never goes past the
boundary: it returns a resume position that is still before the boundary, or exactly the boundary, and then
its `next_page` carries the resolved break value and `b`'s page name.
-/
import WpModel.Lemmas.Pm2EndValid

namespace Wp.PM
open Wp

/-- `SibAt box π j a b`: following the child indexes `π` from `box` one reaches a block whose children number
`j` and `j + 1` are `a` and `b`. -/
def SibAt : PBox → List Nat → Nat → PBox → PBox → Prop
  | .block _ _ kids, [], j, a, b => kids[j]? = some a ∧ kids[j + 1]? = some b
  | .block _ _ kids, i :: π, j, a, b => ∃ k, kids[i]? = some k ∧ SibAt k π j a b
  | .para _ _ _ _, _, _, _, _ => False

/-- The resume position "start of `b`" (`{i₀: {i₁: … {j+1: None}}}`). -/
def resAt : List Nat → Nat → Resume
  | [], j => .node (j + 1) none
  | i :: π, j => .node i (some (resAt π j))

/-- The resume position lies before the start of `b` (child `j + 1` of the block at `π`). -/
def Before : Option Resume → List Nat → Nat → Prop
  | σ, [], j => skipIdxOf σ ≤ j
  | σ, i :: π, j => skipIdxOf σ < i ∨ (skipIdxOf σ = i ∧ Before (subSkipOf σ) π j)

theorem before_none (π : List Nat) (j : Nat) : Before none π j := by
  induction π with
  | nil => simp [Before]
  | cons i π ih =>
    simp only [Before, skipIdxOf_none, subSkipOf_none]
    cases i with
    | zero => right; exact ⟨rfl, ih⟩
    | succ i => left; omega

/-- The pending break recorded when the loop stops at the boundary. -/
def cutPage (a b : PBox) : NextPage :=
  { brk := some (resolve (valuesBetween a b)), page := some (boxPageStart b) }

def CutOut (π : List Nat) (j : Nat) (np : NextPage) : KidsOutcome → Prop
  | .finished _ => False
  | .aborted _ _ => True
  | .stopped ρ s' => ∃ r, ρ = some r ∧ (Before (some r) π j ∨ (r = resAt π j ∧ s'.nextPage = np))

/-- The ways `concludeKid` ends the loop. -/
theorem conclude_cases (index : Nat) (pie : Bool) (pb : Brk) (child : PBox) (s : KidsLoop)
    (frag : Option Frag) (resume : Option Resume) (B : List PBox) (i0 : Nat) (sub0 : Option Resume)
    (hgB : GoodList B) (hinv : FullFrom s.newChildren B i0 sub0) (hidx : index = i0 + B.length)
    (out : KidsOutcome) (s3 : KidsLoop) (h : concludeKid index pie pb child s frag resume = (some out, s3)) :
    (∃ page s', out = .aborted page s') ∨
    (∃ k sub s', out = .stopped (some (.node k sub)) s' ∧ k < index) ∨
    (∃ s', out = .stopped (some (.node index none)) s') ∨
    (∃ f r', frag = some f ∧ resume = some r' ∧
      out = .stopped (some (.node index (some r'))) { s with newChildren := s.newChildren ++ [f.withIdx index] }) := by
  cases frag with
  | none =>
    unfold concludeKid at h
    dsimp only at h
    split at h
    · rename_i kept r' hearlier
      simp only [Prod.mk.injEq, Option.some.injEq] at h
      obtain ⟨rfl, _⟩ := h
      have hfound : (findEarlierGo s.newChildren).found = some (kept, r') := by
        split at hearlier
        · exact hearlier
        · cases hearlier
      obtain ⟨m, sub', rfl, hm, _, _⟩ := (findEarlierGo_spec _ _ _ _ hgB hinv).2 kept r' hfound
      right; left
      exact ⟨_, _, _, rfl, by omega⟩
    · split at h
      · simp only [Prod.mk.injEq, Option.some.injEq] at h
        obtain ⟨rfl, _⟩ := h
        left; exact ⟨_, _, rfl⟩
      · split at h
        · simp only [Prod.mk.injEq, Option.some.injEq] at h
          obtain ⟨rfl, _⟩ := h
          right; right; left; exact ⟨_, rfl⟩
        · simp only [Prod.mk.injEq, Option.some.injEq] at h
          obtain ⟨rfl, _⟩ := h
          left; exact ⟨_, _, rfl⟩
  | some f =>
    cases resume with
    | some r' =>
      simp only [concludeKid, Prod.mk.injEq, Option.some.injEq] at h
      obtain ⟨rfl, _⟩ := h
      right; right; right
      exact ⟨f, r', rfl, rfl, rfl⟩
    | none => simp [concludeKid] at h

theorem fullFrom_getLast (fs : List Frag) (B : List PBox) (i : Nat) (sub : Option Resume) (a : PBox)
    (h : FullFrom fs B i sub) (ha : B.getLast? = some a) : ∃ l, fs.getLast? = some l := by
  have hlen := fullFrom_length _ _ _ _ h
  cases fs with
  | nil =>
    have : B = [] := by simpa using hlen.symm
    subst this; simp at ha
  | cons x xs => exact ⟨_, List.getLast?_cons_cons_or_singleton x xs⟩
where
  List.getLast?_cons_cons_or_singleton (x : Frag) (xs : List Frag) :
      (x :: xs).getLast? = some ((x :: xs).getLast (by simp)) := by
    rw [List.getLast?_eq_some_getLast]

/-- `meetBreak` reads the source values when the last placed sibling is complete. -/
theorem meetBreak_source (s : KidsLoop) (child : PBox) (l : Frag) (a : PBox)
    (hl : s.newChildren.getLast? = some l) (he : EndOk l a) :
    meetBreak s child = (resolve (valuesBetween a child), meets a child) := by
  unfold meetBreak
  simp only [hl]
  unfold breakBetween meets valuesBetween
  rw [he.1, he.2]

/-- The children loop of the block that holds `a` and `b`. -/
theorem kids_cut_here : (rest : List PBox) → GoodList rest → ∀ (c : Ctx) (st : PStyle) (B : List PBox) (i0 : Nat)
    (sub0 : Option Resume) (index skipIdx : Nat) (bs : Rat) (pie : Bool) (s : KidsLoop) (j : Nat) (a b : PBox),
    GoodList B → FullFrom s.newChildren B i0 sub0 → EndOkLast s.newChildren B →
    (index < skipIdx → B = [] ∧ i0 = skipIdx) → (skipIdx ≤ index → index = i0 + B.length) →
    s.skip = (if B = [] then sub0 else none) →
    (∀ b, B.head? = some b → Valid b sub0) →
    (B = [] → ∀ child, (rest.drop (skipIdx - index)).head? = some child → Valid child sub0) →
    i0 ≤ j → (B ++ rest.drop (skipIdx - index))[j - i0]? = some a →
    (B ++ rest.drop (skipIdx - index))[j + 1 - i0]? = some b →
    (skipIdx ≤ index → index ≤ j + 1) → meets a b = true →
    CutOut [] j (cutPage a b) (layoutKids c st rest index skipIdx bs pie s)
  | [] => by
    intro _ c st B i0 sub0 index skipIdx bs pie s j a b _ _ _ hlt hge _ _ _ hi0 _ hb hle _
    exfalso
    simp only [List.drop_nil, List.append_nil] at hb
    have hblt : j + 1 - i0 < B.length := by
      rcases Nat.lt_or_ge (j + 1 - i0) B.length with h | h
      · exact h
      · rw [List.getElem?_eq_none h] at hb; cases hb
    by_cases hc : index < skipIdx
    · obtain ⟨hB, _⟩ := hlt hc; subst hB; simp at hblt
    · have := hge (by omega); have := hle (by omega); omega
  | child :: rest => by
    intro hg c st B i0 sub0 index skipIdx bs pie s j a b hgB hinv hend hlt hge hskip hBv hcv hi0 ha hb hle hm
    simp only [GoodList] at hg
    by_cases hc : index < skipIdx
    · rw [layoutKids_skip _ _ _ _ _ _ _ _ _ hc]
      obtain ⟨hB, hi0'⟩ := hlt hc
      have hd : (child :: rest).drop (skipIdx - index) = rest.drop (skipIdx - (index + 1)) := by
        have : skipIdx - index = (skipIdx - (index + 1)) + 1 := by omega
        rw [this, List.drop_succ_cons]
      rw [hd] at hcv ha hb
      exact kids_cut_here rest hg.2 c st B i0 sub0 (index + 1) skipIdx bs pie s j a b hgB hinv hend
        (fun _ => ⟨hB, hi0'⟩) (by intro _; subst hB; simp; omega) hskip hBv hcv hi0 ha hb
        (by intro _; omega) hm
    · rw [layoutKids_cons _ _ _ _ _ _ _ _ _ hc]
      have hidx := hge (by omega)
      have hle' := hle (by omega)
      have hd : skipIdx - index = 0 := by omega
      rw [hd, List.drop_zero] at hcv ha hb
      by_cases hat : index = j + 1
      · -- the loop reaches `b`: the break is forced here
        have hBlen : B.length = j + 1 - i0 := by omega
        have hchild : child = b := by
          rw [← hBlen, List.getElem?_append_right (Nat.le_refl _)] at hb
          simpa using hb
        subst hchild
        have hlast : B.getLast? = some a := by
          have h1 : j - i0 < B.length := by omega
          rw [List.getElem?_append_left h1] at ha
          rw [List.getLast?_eq_getElem?]
          have : B.length - 1 = j - i0 := by omega
          rw [this]; exact ha
        obtain ⟨l, hl⟩ := fullFrom_getLast _ _ _ _ _ hinv hlast
        have hmb := meetBreak_source s child l a hl (endOkLast_getLast _ _ _ _ hend hl hlast)
        rw [hmb]
        simp only [hm, ↓reduceIte, CutOut]
        exact ⟨_, rfl, Or.inr ⟨by rw [hat]; rfl, rfl⟩⟩
      · have hlej : index ≤ j := by omega
        split
        · simp only [CutOut]
          exact ⟨_, rfl, Or.inl (by simpa [Before] using hlej)⟩
        · obtain ⟨bs', adj, hR, hfr, hnc, _, hsk⟩ := kidResult_spec c st child index bs pie s
          generalize kidResult c st child index bs pie s = kr at hR hfr hnc hsk ⊢
          obtain ⟨frag, R, s2⟩ := kr
          simp only at hR hfr hnc hsk ⊢
          have hvchild : Valid child s.skip := by
            rw [hskip]
            split
            · rename_i hB; exact hcv hB child rfl
            · exact valid_none child
          have hbev := box_ev child hg.1 c index s.posY bs' s.skip st.isRoot (pie && s.newChildren.isEmpty) adj hvchild
          rw [← hR] at hbev
          have hchild : BoxPost child (if B = [] then sub0 else none) frag R.resume := by
            rcases hfr with h | h
            · rw [h]; exact boxPost_none _ _ _
            · rw [h, hR, ← hskip]; exact box_spec child hg.1 _ _ _ _ _ _ _ _
          have hinv2 : FullFrom s2.newChildren B i0 sub0 := by rw [hnc]; exact hinv
          split
          · rename_i out s3 heq
            rcases conclude_cases _ _ _ _ _ _ _ B i0 sub0 hgB hinv2 hidx out s3 heq with
              ⟨_, _, rfl⟩ | ⟨k, sub, s', rfl, hk⟩ | ⟨s', rfl⟩ | ⟨f, r', _, _, rfl⟩
            · trivial
            · exact ⟨_, rfl, Or.inl (by simp [Before]; omega)⟩
            · exact ⟨_, rfl, Or.inl (by simpa [Before] using hlej)⟩
            · exact ⟨_, rfl, Or.inl (by simpa [Before] using hlej)⟩
          · rename_i s3 heq
            have hcs := (conclude_spec _ _ _ _ _ _ _ B rest i0 sub0 hgB hinv2 hidx hchild).2 s3 heq
            obtain ⟨f, hf, hrn, hs3⟩ := conclude_continue _ _ _ _ _ _ _ _ heq
            have hfe : EndOk f child := by
              rcases hfr with h | h
              · rw [h] at hf; cases hf
              · rw [h] at hf; exact (hbev f hf).1 hrn
            have hend3 : EndOkLast s3.newChildren (B ++ [child]) := by
              rw [hs3, hnc]
              apply endOkLast_snoc
              unfold EndOk at hfe ⊢
              simpa using hfe
            have hd' : skipIdx - (index + 1) = 0 := by omega
            refine kids_cut_here rest hg.2 c st (B ++ [child]) i0 sub0 (index + 1) skipIdx bs pie s3 j a b
              (goodList_append _ _ hgB (by simp [GoodList, hg.1])) hcs.1 hend3 (by intro _; omega)
              (by intro _; simp; omega) (by simp [hcs.2, hsk])
              (by
                intro b0 hb0
                cases B with
                | nil => simp at hb0; subst hb0; exact hcv rfl child rfl
                | cons b1 B' => simp at hb0; subst hb0; exact hBv b1 rfl)
              (by intro h; simp at h) hi0 ?_ ?_ (by intro _; omega) hm
            · simpa [hd'] using ha
            · simpa [hd'] using hb

theorem before_node_here (i : Nat) (π : List Nat) (j : Nat) : Before (some (.node i none)) (i :: π) j := by
  rw [Before]
  exact Or.inr ⟨rfl, before_none π j⟩

mutual
/-- **Cut lemma** for `block_level_layout`. -/
theorem box_cut : (box : PBox) → Good box → ∀ (c : Ctx) (idx : Nat) (y bs : Rat) (skip : Option Resume)
    (cb pie : Bool) (adjL : List Rat) (π : List Nat) (j : Nat) (a b : PBox),
    Valid box skip → SibAt box π j a b → meets a b = true → Before skip π j →
    ∀ f, (layoutBox c box idx y bs skip cb pie adjL).frag = some f →
      ∃ r, (layoutBox c box idx y bs skip cb pie adjL).resume = some r ∧
        (Before (some r) π j ∨
          (r = resAt π j ∧ (layoutBox c box idx y bs skip cb pie adjL).nextPage = cutPage a b))
  | .para id n lineH st => by
    intro _ c idx y bs skip cb pie adjL π j a b _ hs
    simp [SibAt] at hs
  | .block id st kids => by
    intro hg c idx y bs skip cb pie adjL π j a b hv hs hm hbef f hf
    simp only [Good] at hg
    simp only [layoutBox] at hf ⊢
    obtain ⟨_, hres, hnp⟩ := finishBlock_shape _ _ _ _ _ _ _ _ hg.1 hf
    rw [hres]
    have hkids : kids ≠ [] := by
      intro he; subst he
      cases π <;> simp [SibAt] at hs
    have hvk : ValidKids kids (skipIdxOf skip) (subSkipOf skip) := by
      simp only [Valid] at hv
      rcases hv with hv | hv
      · exact absurd hv hkids
      · exact hv
    have hlt := validKids_lt _ _ _ hvk
    have hcv : ([] : List PBox) = [] → ∀ child, (kids.drop (skipIdxOf skip - 0)).head? = some child →
        Valid child (subSkipOf skip) := by
      intro _ child hc
      obtain ⟨b', hb', hvb⟩ := validKids_get _ _ _ hvk
      simp only [Nat.sub_zero, List.head?_drop, hb', Option.some.injEq] at hc
      subst hc; exact hvb
    have hout : CutOut π j (cutPage a b)
        (layoutKids c st kids 0 (skipIdxOf skip) (prepare c st y bs skip cb pie adjL).bs pie
          { newChildren := [], posY := (prepare c st y bs skip cb pie adjL).posY,
            adjL := (prepare c st y bs skip cb pie adjL).adjL, cur := (prepare c st y bs skip cb pie adjL).cur,
            curIsL := (prepare c st y bs skip cb pie adjL).curIsL,
            nextPage := { brk := none, page := none }, skip := subSkipOf skip }) := by
      cases π with
      | nil =>
        simp only [SibAt] at hs
        simp only [Before] at hbef
        refine kids_cut_here kids hg.2 c st [] (skipIdxOf skip) (subSkipOf skip) 0 (skipIdxOf skip) _ pie _ j a b
          (by simp [GoodList]) (by simp [FullFrom]) endOkLast_nil (by intro _; exact ⟨rfl, rfl⟩)
          (by intro h; simp; omega) (by simp) (by intro b hb; simp at hb) hcv hbef ?_ ?_ (by intro _; omega) hm
        · simp only [List.nil_append, Nat.sub_zero, List.getElem?_drop]
          rw [← hs.1]; congr 1; omega
        · simp only [List.nil_append, Nat.sub_zero, List.getElem?_drop]
          rw [← hs.2]; congr 1; omega
      | cons i π' =>
        simp only [SibAt] at hs
        obtain ⟨k, hk, hsk⟩ := hs
        simp only [Before] at hbef
        refine kids_cut_deep kids hg.2 c st [] (skipIdxOf skip) (subSkipOf skip) 0 (skipIdxOf skip) _ pie _
          i π' j a b k
          (by simp [GoodList]) (by simp [FullFrom]) (by intro _; exact ⟨rfl, rfl⟩)
          (by intro h; simp; omega) (by simp) (by intro b hb; simp at hb) hcv (by omega) ?_ (by intro _; omega)
          hsk hm ?_
        · simp only [List.nil_append, Nat.sub_zero, List.getElem?_drop]
          rw [← hk]; congr 1; omega
        · intro he
          rcases hbef with h | h
          · omega
          · exact h.2
    generalize layoutKids c st kids 0 (skipIdxOf skip) _ pie _ = out at hout hf hres hnp ⊢
    cases out with
    | aborted page s => simp [finishBlock, abortResult] at hf
    | finished s' => exact absurd hout (by simp [CutOut])
    | stopped ρ s' =>
      obtain ⟨r, rfl, hcase⟩ := hout
      refine ⟨r, rfl, ?_⟩
      rcases hcase with h | ⟨h1, h2⟩
      · exact Or.inl h
      · refine Or.inr ⟨h1, ?_⟩
        have := hnp (boxPageStart b) (by simp [KidsOutcome.state, h2, cutPage])
        rw [this]; exact h2
/-- The children loop of an ancestor of the block that holds `a` and `b` (`k` = the child on the way). -/
theorem kids_cut_deep : (rest : List PBox) → GoodList rest → ∀ (c : Ctx) (st : PStyle) (B : List PBox) (i0 : Nat)
    (sub0 : Option Resume) (index skipIdx : Nat) (bs : Rat) (pie : Bool) (s : KidsLoop)
    (i : Nat) (π : List Nat) (j : Nat) (a b k : PBox),
    GoodList B → FullFrom s.newChildren B i0 sub0 →
    (index < skipIdx → B = [] ∧ i0 = skipIdx) → (skipIdx ≤ index → index = i0 + B.length) →
    s.skip = (if B = [] then sub0 else none) →
    (∀ b, B.head? = some b → Valid b sub0) →
    (B = [] → ∀ child, (rest.drop (skipIdx - index)).head? = some child → Valid child sub0) →
    i0 ≤ i → (B ++ rest.drop (skipIdx - index))[i - i0]? = some k →
    (skipIdx ≤ index → index ≤ i) → SibAt k π j a b → meets a b = true →
    (i0 = i → Before sub0 π j) →
    CutOut (i :: π) j (cutPage a b) (layoutKids c st rest index skipIdx bs pie s)
  | [] => by
    intro _ c st B i0 sub0 index skipIdx bs pie s i π j a b k _ _ hlt hge _ _ _ hi0 hk hle _ _ _
    exfalso
    simp only [List.drop_nil, List.append_nil] at hk
    have hklt : i - i0 < B.length := by
      rcases Nat.lt_or_ge (i - i0) B.length with h | h
      · exact h
      · rw [List.getElem?_eq_none h] at hk; cases hk
    by_cases hc : index < skipIdx
    · obtain ⟨hB, _⟩ := hlt hc; subst hB; simp at hklt
    · have := hge (by omega); have := hle (by omega); omega
  | child :: rest => by
    intro hg c st B i0 sub0 index skipIdx bs pie s i π j a b k hgB hinv hlt hge hskip hBv hcv hi0 hk hle hsib hm hbef
    simp only [GoodList] at hg
    by_cases hc : index < skipIdx
    · rw [layoutKids_skip _ _ _ _ _ _ _ _ _ hc]
      obtain ⟨hB, hi0'⟩ := hlt hc
      have hd : (child :: rest).drop (skipIdx - index) = rest.drop (skipIdx - (index + 1)) := by
        have : skipIdx - index = (skipIdx - (index + 1)) + 1 := by omega
        rw [this, List.drop_succ_cons]
      rw [hd] at hcv hk
      exact kids_cut_deep rest hg.2 c st B i0 sub0 (index + 1) skipIdx bs pie s i π j a b k hgB hinv
        (fun _ => ⟨hB, hi0'⟩) (by intro _; subst hB; simp; omega) hskip hBv hcv hi0 hk
        (by intro _; omega) hsib hm hbef
    · rw [layoutKids_cons _ _ _ _ _ _ _ _ _ hc]
      have hidx := hge (by omega)
      have hle' := hle (by omega)
      have hd : skipIdx - index = 0 := by omega
      rw [hd, List.drop_zero] at hcv hk
      split
      · -- a forced break before this child: at or before the child on the way
        simp only [CutOut]
        refine ⟨_, rfl, Or.inl ?_⟩
        by_cases hat : index = i
        · rw [hat]; exact before_node_here i π j
        · simp only [Before, skipIdxOf_node]; left; omega
      · obtain ⟨bs', adj, hR, hfr, hnc, hnp, hsk⟩ := kidResult_spec c st child index bs pie s
        generalize kidResult c st child index bs pie s = kr at hR hfr hnc hnp hsk ⊢
        obtain ⟨frag, R, s2⟩ := kr
        simp only at hR hfr hnc hnp hsk ⊢
        have hvchild : Valid child s.skip := by
          rw [hskip]
          split
          · rename_i hB; exact hcv hB child rfl
          · exact valid_none child
        have hchild : BoxPost child (if B = [] then sub0 else none) frag R.resume := by
          rcases hfr with h | h
          · rw [h]; exact boxPost_none _ _ _
          · rw [h, hR, ← hskip]; exact box_spec child hg.1 _ _ _ _ _ _ _ _
        have hinv2 : FullFrom s2.newChildren B i0 sub0 := by rw [hnc]; exact hinv
        by_cases hat : index = i
        · -- the child on the way to the boundary
          have hBlen : B.length = i - i0 := by omega
          have hck : child = k := by
            rw [← hBlen, List.getElem?_append_right (Nat.le_refl _)] at hk
            simpa using hk
          subst hck
          have hbs : Before s.skip π j := by
            rw [hskip]
            split
            · rename_i hB
              subst hB
              exact hbef (by simp at hidx; omega)
            · exact before_none π j
          have hcut := box_cut child hg.1 c index s.posY bs' s.skip st.isRoot (pie && s.newChildren.isEmpty) adj
            π j a b hvchild hsib hm hbs
          rw [← hR] at hcut
          split
          · rename_i out s3 heq
            rcases conclude_cases _ _ _ _ _ _ _ B i0 sub0 hgB hinv2 hidx out s3 heq with
              ⟨_, _, rfl⟩ | ⟨k', sub, s', rfl, hk'⟩ | ⟨s', rfl⟩ | ⟨f, r', hf, hr', rfl⟩
            · trivial
            · exact ⟨_, rfl, Or.inl (by simp only [Before, skipIdxOf_node]; left; omega)⟩
            · exact ⟨_, rfl, Or.inl (by rw [hat]; exact before_node_here i π j)⟩
            · have hfR : R.frag = some f := by
                rcases hfr with h | h
                · rw [h] at hf; cases hf
                · rw [← h]; exact hf
              obtain ⟨r, hr, hcase⟩ := hcut f hfR
              rw [hr'] at hr
              simp only [Option.some.injEq] at hr
              subst hr
              refine ⟨_, rfl, ?_⟩
              rcases hcase with h | ⟨h1, h2⟩
              · left
                simp only [Before, skipIdxOf_node, subSkipOf_node]
                right; exact ⟨hat, h⟩
              · right
                refine ⟨by rw [h1, hat]; rfl, ?_⟩
                simp only
                rw [hnp]; exact h2
          · rename_i s3 heq
            exfalso
            obtain ⟨f, hf, hrn, _⟩ := conclude_continue _ _ _ _ _ _ _ _ heq
            have hfR : R.frag = some f := by
              rcases hfr with h | h
              · rw [h] at hf; cases hf
              · rw [← h]; exact hf
            obtain ⟨r, hr, _⟩ := hcut f hfR
            rw [hrn] at hr; cases hr
        · have hlt' : index < i := by omega
          split
          · rename_i out s3 heq
            rcases conclude_cases _ _ _ _ _ _ _ B i0 sub0 hgB hinv2 hidx out s3 heq with
              ⟨_, _, rfl⟩ | ⟨k', sub, s', rfl, hk'⟩ | ⟨s', rfl⟩ | ⟨f, r', _, _, rfl⟩
            · trivial
            · exact ⟨_, rfl, Or.inl (by simp only [Before, skipIdxOf_node]; left; omega)⟩
            · exact ⟨_, rfl, Or.inl (by simp only [Before, skipIdxOf_node]; left; omega)⟩
            · exact ⟨_, rfl, Or.inl (by simp only [Before, skipIdxOf_node]; left; omega)⟩
          · rename_i s3 heq
            have hcs := (conclude_spec _ _ _ _ _ _ _ B rest i0 sub0 hgB hinv2 hidx hchild).2 s3 heq
            have hd' : skipIdx - (index + 1) = 0 := by omega
            refine kids_cut_deep rest hg.2 c st (B ++ [child]) i0 sub0 (index + 1) skipIdx bs pie s3 i π j a b k
              (goodList_append _ _ hgB (by simp [GoodList, hg.1])) hcs.1 (by intro _; omega)
              (by intro _; simp; omega) (by simp [hcs.2, hsk])
              (by
                intro b0 hb0
                cases B with
                | nil => simp at hb0; subst hb0; exact hcv rfl child rfl
                | cons b1 B' => simp at hb0; subst hb0; exact hBv b1 rfl)
              (by intro h; simp at h) hi0 ?_ (by intro _; omega) hsib hm hbef
            simpa [hd'] using hk
end

end Wp.PM
