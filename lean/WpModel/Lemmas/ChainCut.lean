/-
The chain of continued boxes (C03, "a fragmented box's own bottom padding/border also fits"; C05 box-decoration-break):
whenever `block_level_layout` returns a box together with a resume position, that box and every box on the chain of
last children the resume position descends into - the boxes that are continued on the next page - have lost their
bottom margin, padding and border, unless they clone their decorations. Holds through every path of the layout:
the children loop, the second layout with a larger bottom space, fixed heights, and `find_earlier_page_break`
(since repair 24ce8bf: `Frag.cutEnd`). No hypothesis on the document.
-/
import WpModel.Lemmas.Geometry

namespace Wp.PM
open Wp

/-- "No bottom decoration of its own left, or it is cloned" (used geometry of a fragment). -/
def EndCutGeo (st : PStyle) (g : Geo) : Prop := st.clone = true ∨ (g.mb = 0 ∧ g.pb = 0 ∧ g.bb = 0)

mutual
/-- `ChainCut f r`: `f` is a fragment continued at `r`; it and every box on the chain of last children that `r`
descends into has lost its bottom decoration. -/
def ChainCut : Frag → Resume → Prop
  | .para _ _ st _ g _, _ => EndCutGeo st g
  | .block _ _ st g kids, r =>
    EndCutGeo st g ∧ (match r with
      | .node _ (some r') => ChainCutLast kids r'
      | _ => True)
def ChainCutLast : List Frag → Resume → Prop
  | [], _ => True
  | f :: rest, r => match rest with
    | [] => ChainCut f r
    | _ :: _ => ChainCutLast rest r
end

theorem chainCutLast_snoc (xs : List Frag) (f : Frag) (r : Resume) :
    ChainCutLast (xs ++ [f]) r ↔ ChainCut f r := by
  induction xs with
  | nil => simp [ChainCutLast]
  | cons x xs ih =>
    cases hxs : xs ++ [f] with
    | nil => simp at hxs
    | cons a l =>
      rw [hxs] at ih
      simp only [List.cons_append, hxs, ChainCutLast]
      simpa [ChainCutLast] using ih

theorem chainCutLast_cons (x : Frag) (xs : List Frag) (r : Resume) (h : xs ≠ []) :
    ChainCutLast (x :: xs) r ↔ ChainCutLast xs r := by
  cases xs with
  | nil => exact absurd rfl h
  | cons a l => simp [ChainCutLast]

theorem chainCut_withIdx (f : Frag) (i : Nat) (r : Resume) : ChainCut (f.withIdx i) r ↔ ChainCut f r := by
  cases f <;> simp [Frag.withIdx, ChainCut]

theorem endCutGeo_cutBottom (st : PStyle) (g : Geo) : EndCutGeo st (g.cutBottom st) := by
  unfold EndCutGeo Geo.cutBottom
  cases h : st.clone <;> simp


/-! ### `find_earlier_page_break` -/

def GoOk (kept : List Frag) (r : Resume) : Prop :=
  match r with
  | .node _ (some r') => ChainCutLast kept r'
  | _ => True

def FragOk (x' : Frag) (r1 : Resume) : Prop :=
  match x' with
  | .block _ _ _ _ kids => GoOk kids r1
  | .para _ _ _ _ _ _ => True

theorem chainCut_cutEnd (x' : Frag) (r1 : Resume) (h : FragOk x' r1) : ChainCut x'.cutEnd r1 := by
  cases x' with
  | para id idx st n g lines => simp only [Frag.cutEnd, ChainCut]; exact endCutGeo_cutBottom st g
  | block id idx st g kids =>
    simp only [Frag.cutEnd, ChainCut]
    refine ⟨endCutGeo_cutBottom st g, ?_⟩
    simp only [FragOk, GoOk] at h
    exact h

theorem findEarlierGo_ne_nil : (fs : List Frag) → ∀ kept r, (findEarlierGo fs).found = some (kept, r) → kept ≠ []
  | [] => by intro kept r h; simp [findEarlierGo] at h
  | x :: xs => by
    intro kept r h
    rw [findEarlierGo] at h
    dsimp only at h
    split at h
    · simp only [Option.some.injEq, Prod.mk.injEq] at h
      obtain ⟨rfl, _⟩ := h
      simp
    · split at h
      · simp only [Option.some.injEq, Prod.mk.injEq] at h
        obtain ⟨rfl, _⟩ := h
        simp
      · split at h
        · split at h
          · simp only [Option.some.injEq, Prod.mk.injEq] at h
            obtain ⟨rfl, _⟩ := h
            simp
          · simp at h
        · simp at h

mutual
theorem findEarlierGo_chain : (fs : List Frag) → ∀ kept r, (findEarlierGo fs).found = some (kept, r) → GoOk kept r
  | [] => by intro kept r h; simp [findEarlierGo] at h
  | x :: xs => by
    intro kept r h
    rw [findEarlierGo] at h
    dsimp only at h
    split at h
    · rename_i kept0 r0 hfound
      simp only [Option.some.injEq, Prod.mk.injEq] at h
      obtain ⟨rfl, rfl⟩ := h
      have ih := findEarlierGo_chain xs kept0 r0 hfound
      have hne := findEarlierGo_ne_nil xs kept0 r0 hfound
      unfold GoOk at ih ⊢
      split
      · rename_i i r' 
        simp only at ih
        rw [chainCutLast_cons _ _ _ hne]; exact ih
      · trivial
    · split at h
      · simp only [Option.some.injEq, Prod.mk.injEq] at h
        obtain ⟨rfl, rfl⟩ := h
        simp [GoOk]
      · split at h
        · split at h
          · rename_i x' r1 hfe
            simp only [Option.some.injEq, Prod.mk.injEq] at h
            obtain ⟨rfl, rfl⟩ := h
            have := findEarlierFrag_chain x x' r1 hfe
            simp only [GoOk, ChainCutLast]
            exact chainCut_cutEnd x' r1 this
          · simp at h
        · simp at h
theorem findEarlierFrag_chain : (x : Frag) → ∀ x' r, findEarlierFrag x = some (x', r) → FragOk x' r
  | .para id idx st n g lines => by
    intro x' r h
    simp only [findEarlierFrag] at h
    have := (findEarlierPara_placed id idx st n g lines x' r h).1
    unfold findEarlierPara at h
    split at h
    · cases h
    · dsimp only at h
      split at h
      · cases h
      · split at h
        · simp only [Option.some.injEq, Prod.mk.injEq] at h
          obtain ⟨rfl, _⟩ := h
          simp [FragOk]
        · cases h
  | .block id idx st g kids => by
    intro x' r h
    simp only [findEarlierFrag] at h
    split at h
    · rename_i kids' r0 hfound
      simp only [Option.some.injEq, Prod.mk.injEq] at h
      obtain ⟨rfl, rfl⟩ := h
      simp only [FragOk]
      exact findEarlierGo_chain kids kids' r0 hfound
    · cases h
end


/-! ### the layout -/

theorem finishTail_endCut (c : Ctx) (st : PStyle) (b : BoxSt) (bs : Rat) (cwc dbd : Bool) (r : Resume)
    (posY : Rat) (adjL cur : List Rat) (curIsL hasKids : Bool) :
    EndCutGeo st (finishTail c st b bs cwc dbd (some r) posY adjL cur curIsL hasKids).geo := by
  unfold EndCutGeo finishTail
  dsimp only
  cases hc : st.clone with
  | true => left; rfl
  | false =>
    right
    cases cwc <;> simp [geoOf]

def OutOk : KidsOutcome → Prop
  | .stopped (some (.node _ (some r'))) s => ChainCutLast s.newChildren r'
  | _ => True

theorem concludeKid_chain (index : Nat) (pie : Bool) (pb : Brk) (child : PBox) (s : KidsLoop)
    (frag : Option Frag) (resume : Option Resume)
    (hf : ∀ f r', frag = some f → resume = some r' → ChainCut f r') :
    ∀ out s3, concludeKid index pie pb child s frag resume = (some out, s3) → OutOk out := by
  intro out s3 h
  cases frag with
  | none =>
    unfold concludeKid at h
    dsimp only at h
    split at h
    · rename_i kept r' hearlier
      simp only [Prod.mk.injEq, Option.some.injEq] at h
      obtain ⟨rfl, rfl⟩ := h
      have hfound : (findEarlierGo s.newChildren).found = some (kept, r') := by
        split at hearlier
        · exact hearlier
        · cases hearlier
      have := findEarlierGo_chain _ _ _ hfound
      unfold GoOk at this
      unfold OutOk
      split
      · rename_i i r'' s' heq
        simp only [KidsOutcome.stopped.injEq, Option.some.injEq] at heq
        obtain ⟨rfl, rfl⟩ := heq
        simpa using this
      · trivial
    · split at h
      · simp only [Prod.mk.injEq, Option.some.injEq] at h
        obtain ⟨rfl, rfl⟩ := h
        simp [OutOk]
      · split at h
        · simp only [Prod.mk.injEq, Option.some.injEq] at h
          obtain ⟨rfl, rfl⟩ := h
          simp [OutOk]
        · simp only [Prod.mk.injEq, Option.some.injEq] at h
          obtain ⟨rfl, rfl⟩ := h
          simp [OutOk]
  | some f =>
    cases resume with
    | some r' =>
      simp only [concludeKid, Prod.mk.injEq, Option.some.injEq] at h
      obtain ⟨rfl, rfl⟩ := h
      simp only [OutOk]
      rw [chainCutLast_snoc, chainCut_withIdx]
      exact hf f r' rfl rfl
    | none => simp [concludeKid] at h


theorem forgetIfFixed_some (st : PStyle) (b : BoxSt) (posY : Rat) (resume : Option Resume) (r : Resume)
    (h : forgetIfFixed st b posY resume = some r) : resume = some r := by
  unfold forgetIfFixed at h
  split at h
  · split at h
    · cases h
    · exact h
  · exact h

theorem outOk_stopped (r : Resume) (s : KidsLoop) : OutOk (.stopped (some r) s) →
    (match r with
      | .node _ (some r') => ChainCutLast s.newChildren r'
      | _ => True) := by
  intro h
  cases r with
  | line k => trivial
  | node i sub =>
    cases sub with
    | none => trivial
    | some r' => simpa [OutOk] using h

mutual
/-- Every box that `block_level_layout` returns together with a resume position has lost its bottom decoration
(or clones it), and so has every box on the chain of last children the resume position descends into. -/
theorem box_chain : (box : PBox) → ∀ (c : Ctx) (idx : Nat) (y bs : Rat) (skip : Option Resume) (cb pie : Bool)
    (adjL : List Rat) (f : Frag) (r : Resume),
    (layoutBox c box idx y bs skip cb pie adjL).frag = some f →
    (layoutBox c box idx y bs skip cb pie adjL).resume = some r → ChainCut f r
  | .para id n lineH st => by
    intro c idx y bs skip cb pie adjL f r hf hr
    simp only [layoutBox, finishPara] at hf hr
    split at hf
    · simp [abortResult] at hf
    · rename_i hab
      rw [if_neg hab] at hr
      obtain ⟨rfl, hres, _⟩ := finishContainer_geo _ _ _ _ _ _ _ _ _ _ _ _ _ _ _ _ _ _ hf
      rw [hres] at hr
      simp only [ChainCut]
      rw [hr]
      exact finishTail_endCut ..
  | .block id st kids => by
    intro c idx y bs skip cb pie adjL f r hf hr
    simp only [layoutBox] at hf hr
    have hk := kids_chain kids c st 0 (skipIdxOf skip) (prepare c st y bs skip cb pie adjL).bs pie
      { newChildren := [], posY := (prepare c st y bs skip cb pie adjL).posY,
        adjL := (prepare c st y bs skip cb pie adjL).adjL, cur := (prepare c st y bs skip cb pie adjL).cur,
        curIsL := (prepare c st y bs skip cb pie adjL).curIsL, nextPage := { brk := none, page := none },
        skip := subSkipOf skip }
    revert hf hr hk
    generalize layoutKids c st kids 0 (skipIdxOf skip) (prepare c st y bs skip cb pie adjL).bs pie _ = out
    intro hf hr hk
    cases out with
    | aborted page s => simp [finishBlock, abortResult] at hf
    | finished s =>
      simp only [finishBlock] at hf hr
      obtain ⟨_, hres, _⟩ := finishContainer_geo _ _ _ _ _ _ _ _ _ _ _ _ _ _ _ _ _ _ hf
      rw [hres] at hr; cases hr
    | stopped resume s =>
      simp only [finishBlock] at hf hr
      obtain ⟨rfl, hres, _⟩ := finishContainer_geo _ _ _ _ _ _ _ _ _ _ _ _ _ _ _ _ _ _ hf
      rw [hres] at hr
      have hresume := forgetIfFixed_some _ _ _ _ _ hr
      subst hresume
      simp only [ChainCut]
      refine ⟨?_, outOk_stopped r s hk⟩
      rw [hr]
      exact finishTail_endCut ..
theorem kids_chain : (rest : List PBox) → ∀ (c : Ctx) (st : PStyle) (index skipIdx : Nat) (bs : Rat) (pie : Bool)
    (s : KidsLoop), OutOk (layoutKids c st rest index skipIdx bs pie s)
  | [] => by
    intro c st index skipIdx bs pie s
    simp [layoutKids, OutOk]
  | child :: rest => by
    intro c st index skipIdx bs pie s
    unfold layoutKids
    split
    · exact kids_chain rest c st (index + 1) skipIdx bs pie s
    · dsimp only
      split
      · simp [OutOk]
      · split
        · rename_i frag posY hfp
          have hfrag : ∀ f r', frag = some f →
              (layoutBox c child index s.posY bs s.skip st.isRoot (pie && s.newChildren.isEmpty) s.cur).resume = some r' →
              ChainCut f r' := by
            intro f r' hf hr'
            rcases firstPass_keep _ _ _ _ _ _ _ hfp with h | h
            · rw [h] at hf; cases hf
            · rw [h] at hf
              exact box_chain child _ _ _ _ _ _ _ _ f r' hf hr'
          split
          · rename_i out s3 heq
            exact concludeKid_chain _ _ _ _ _ _ _ hfrag out s3 heq
          · rename_i s3 heq
            exact kids_chain rest c st (index + 1) skipIdx bs pie s3
        · rename_i bs' hfp
          split
          · rename_i out s3 heq
            refine concludeKid_chain _ _ _ _ _ _ _ ?_ out s3 heq
            intro f r' hf hr'
            exact box_chain child _ _ _ _ _ _ _ _ f r' hf hr'
          · rename_i s3 heq
            exact kids_chain rest c st (index + 1) skipIdx bs pie s3
end

end Wp.PM
