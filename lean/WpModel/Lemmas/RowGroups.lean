/-
The order and conservation of row groups in `wrap_table` (Model/AnonBoxes.lean `splitGroups`, `wrapTable`):
CSS 2.1 §17.2 — only the first `table-header-group` is the header and comes first, only the first
`table-footer-group` is the footer and comes last, every other row group stays in document order, and no
group is lost or duplicated.  Core Lean only.
-/
import WpModel.Lemmas.Tables
namespace Wp.Bx
open KBox

def isHeaderGroup (g : KBox) : Bool := g.st.disp == .header
def isFooterGroup (g : KBox) : Bool := g.st.disp == .footer
def markHeader (g : KBox) : KBox := g.withInst { g.inst with isHeader := true }
def markFooter (g : KBox) : KBox := g.withInst { g.inst with isFooter := true }

theorem header_not_footer (g : KBox) (h : isHeaderGroup g = true) : isFooterGroup g = false := by
  unfold isHeaderGroup at h
  unfold isFooterGroup
  revert h
  cases g.st.disp <;> decide

/-- The loop of `wrap_table` that extracts the header and the footer, from any state. -/
theorem splitGroups_spec : ∀ (gs : List KBox) (h f : Option KBox) (acc : List KBox),
    splitGroups gs h f acc =
      (if h.isNone then (gs.find? isHeaderGroup).map markHeader else h,
       if f.isNone then (gs.find? isFooterGroup).map markFooter else f,
       ((fun l => if f.isNone then l.eraseP isFooterGroup else l)
          (if h.isNone then gs.eraseP isHeaderGroup else gs)).reverse ++ acc)
  | [], h, f, acc => by
    unfold splitGroups
    cases h <;> cases f <;> simp
  | g :: gs, h, f, acc => by
    unfold splitGroups
    by_cases hh : isHeaderGroup g = true
    · have hf := header_not_footer g hh
      have hh' : (g.st.disp == GDisp.header) = true := hh
      have hf' : (g.st.disp == GDisp.footer) = false := hf
      cases h with
      | none =>
        simp only [hh', Option.isNone_none, Bool.and_self, if_true]
        rw [splitGroups_spec gs _ f acc]
        cases f <;> simp [List.find?_cons, List.eraseP_cons, hh, hf, markHeader]
      | some h0 =>
        simp only [hh', Option.isNone_some, Bool.and_false, Bool.false_eq_true, if_false, hf', Bool.false_and]
        rw [splitGroups_spec gs _ f (g :: acc)]
        cases f <;> simp [List.find?_cons, List.eraseP_cons, hf]
    · have hh0 : isHeaderGroup g = false := by simpa using hh
      have hh' : (g.st.disp == GDisp.header) = false := hh0
      by_cases hf : isFooterGroup g = true
      · have hf' : (g.st.disp == GDisp.footer) = true := hf
        cases f with
        | none =>
          simp only [hh', Bool.false_and, Bool.false_eq_true, if_false, hf', Option.isNone_none, Bool.and_self, if_true]
          rw [splitGroups_spec gs h _ acc]
          cases h <;> simp [List.find?_cons, List.eraseP_cons, hh0, hf, markFooter]
        | some f0 =>
          simp only [hh', Bool.false_and, Bool.false_eq_true, if_false, hf', Option.isNone_some, Bool.and_false]
          rw [splitGroups_spec gs h _ (g :: acc)]
          cases h <;> simp [List.find?_cons, List.eraseP_cons, hh0]
      · have hf0 : isFooterGroup g = false := by simpa using hf
        have hf' : (g.st.disp == GDisp.footer) = false := hf0
        simp only [hh', Bool.false_and, Bool.false_eq_true, if_false, hf']
        rw [splitGroups_spec gs h f (g :: acc)]
        cases h <;> cases f <;> simp [List.find?_cons, List.eraseP_cons, hh0, hf0]
/-- From the initial state, as `wrap_table` runs it. -/
theorem splitGroups_initial (gs : List KBox) :
    splitGroups gs none none [] =
      ((gs.find? isHeaderGroup).map markHeader, (gs.find? isFooterGroup).map markFooter,
       ((gs.eraseP isHeaderGroup).eraseP isFooterGroup).reverse) := by
  rw [splitGroups_spec]
  simp

theorem eraseP_perm (p : KBox → Bool) : ∀ (l : List KBox), ((l.find? p).toList ++ l.eraseP p).Perm l
  | [] => by simp
  | a :: l => by
    by_cases h : p a = true
    · simp [List.find?_cons, List.eraseP_cons, h]
    · have h0 : p a = false := by simpa using h
      simp only [List.find?_cons, List.eraseP_cons, h0]
      have ih := eraseP_perm p l
      exact (List.perm_middle).trans (List.Perm.cons a ih)

theorem find?_eraseP_disjoint (p q : KBox → Bool) (hpq : ∀ g, p g = true → q g = false) :
    ∀ (l : List KBox), (l.eraseP p).find? q = l.find? q
  | [] => by simp
  | a :: l => by
    by_cases h : p a = true
    · simp [List.eraseP_cons, List.find?_cons, h, hpq a h]
    · have h0 : p a = false := by simpa using h
      simp only [List.eraseP_cons, h0, cond_false, List.find?_cons]
      rw [find?_eraseP_disjoint p q hpq l]

/-- Conservation: the first header group, the first footer group and the remaining groups are the
groups of the table, each exactly once. -/
theorem splitGroups_perm (gs : List KBox) :
    ((gs.find? isHeaderGroup).toList ++ (gs.eraseP isHeaderGroup).eraseP isFooterGroup ++
      (gs.find? isFooterGroup).toList).Perm gs := by
  have h1 := eraseP_perm isHeaderGroup gs
  have h2 := eraseP_perm isFooterGroup (gs.eraseP isHeaderGroup)
  rw [find?_eraseP_disjoint isHeaderGroup isFooterGroup header_not_footer gs] at h2
  refine List.Perm.trans ?_ h1
  rw [List.append_assoc]
  exact List.Perm.append_left _ (List.perm_append_comm.trans h2)

/-- What identifies a row group through `wrap_table` (which only writes `grid_x` / `rowspan` on its cells):
class, style, element attributes, header / footer marks, number of rows. -/
def groupKey (g : KBox) : BoxKind × Style × El × Bool × Bool × Nat :=
  (g.kind, g.st, g.el, g.inst.isHeader, g.inst.isFooter, g.kids.length)

theorem setRow_length : ∀ (cs : List KBox) (os : List TableGrid.CellOut), (setRow cs os).length = cs.length
  | [], os => by cases os <;> rfl
  | c :: cs, [] => rfl
  | c :: cs, o :: os => by simp [setRow, setRow_length cs os]

theorem setGroup_length : ∀ (rs : List KBox) (os : List (List TableGrid.CellOut)), (setGroup rs os).length = rs.length
  | [], os => by cases os <;> rfl
  | r :: rs, [] => rfl
  | r :: rs, o :: os => by simp [setGroup, setGroup_length rs os]

theorem setGroups_key : ∀ (gs : List KBox) (os : List (List (List TableGrid.CellOut))),
    (setGroups gs os).map groupKey = gs.map groupKey
  | [], os => by cases os <;> rfl
  | g :: gs, [] => rfl
  | g :: gs, o :: os => by
    obtain ⟨k, st, el, inst, text, kids, cols⟩ := g
    simp [setGroups, setGroups_key gs os, groupKey, KBox.withKids, KBox.kind, KBox.st, KBox.el, KBox.inst, KBox.kids,
      setGroup_length]

/-- The order `wrap_table` gives to row groups `gs`: the first header group, marked; the others in document
order; the first footer group, marked. -/
def orderedGroups (gs : List KBox) : List KBox :=
  ((gs.find? isHeaderGroup).map markHeader).toList ++ (gs.eraseP isHeaderGroup).eraseP isFooterGroup ++
    ((gs.find? isFooterGroup).map markFooter).toList

/-- `wrap_table`: the table in the wrapper has the row groups (those given and the anonymous ones made for
stray rows) in the order `orderedGroups`. -/
theorem wrapTable_groups (n : Nat) (box : KBox) (children : List KBox) (w : KBox)
    (h : wrapTable (n + 1) box children = .ok w) :
    ∃ columns rows caps rowGroups0 table, sortTableKids children = .ok (columns, rows, caps) ∧
      wrapImproper n box rows .TableRowGroupBox (fun c => c.isA .TableRowGroupBox) [] = .ok rowGroups0 ∧
      table ∈ w.kids ∧ table.kind = box.kind ∧ table.kids.map groupKey = (orderedGroups rowGroups0).map groupKey := by
  unfold wrapTable at h
  split at h
  · cases h
  · rename_i columns rows allCaptions hsort
    split at h
    · cases h
    · rename_i columnGroups hcg
      split at h
      · cases h
      · rename_i rowGroups0 hrg
        simp only at h
        split at h
        · cases h
        · split at h
          · cases h
          · rename_i out _
            cases h
            refine ⟨columns, rows, allCaptions, rowGroups0,
              (((box.withKids (setGroups ((splitGroups rowGroups0 none none []).1.toList ++
                  (splitGroups rowGroups0 none none []).2.2.reverse ++
                  (splitGroups rowGroups0 none none []).2.1.toList) out.groups)).withCols
                (setColGroups columnGroups out.colGroups)).withStyle
                  { box.st with
                    flt := if Gen.wrapperTakesFloat then false else box.st.flt
                    foot := if Gen.wrapperTakesFloat then false else box.st.foot
                    abs := if Gen.wrapperTakesPosition then false else box.st.abs
                    run := if Gen.wrapperTakesPosition then false else box.st.run }), hsort, hrg, ?_, ?_, ?_⟩
            · have hk2 : ∀ (b : KBox) (i : Inst) (s : Style), ((b.withStyle s).withInst i).kids = b.kids := by
                intro b i s; obtain ⟨k, st, el, inst, text, kids, cols⟩ := b; rfl
              rw [hk2]
              simp only [anonFrom, KBox.kids]
              exact List.mem_append_left _ (List.mem_append_right _ List.mem_cons_self)
            · obtain ⟨k, st, el, inst, text, kids, cols⟩ := box; rfl
            · have hk : ∀ (b : KBox) (ks cs : List KBox) (s : Style), (((b.withKids ks).withCols cs).withStyle s).kids = ks := by
                intro b ks cs s; obtain ⟨k, st, el, inst, text, kids, cols⟩ := b; rfl
              rw [hk, setGroups_key, splitGroups_initial]
              simp only [List.reverse_reverse, orderedGroups]

end Wp.Bx
