/-
Lemmas about the bracket machine `tokStep` / `runToks` (Model/PdfStream, Model/ContentCheck), used by Props/C16.
Core Lean only.
-/
import WpModel.Model.ContentCheck

namespace Wp.Pdf

/-- Which bracket kind a token class opens / closes. -/
def TC.opens (k : Fr) : TC → Bool
  | .q => k == .q | .BT => k == .T | .bmark => k == .M | _ => false

def TC.closes (k : Fr) : TC → Bool
  | .Q => k == .q | .ET => k == .T | .emark => k == .M | _ => false

def b2n (b : Bool) : Nat := if b then 1 else 0

theorem inText_iff (st : List Fr) : inText st = true ↔ 0 < st.count .T := by
  unfold inText
  rw [List.contains_iff_mem, List.count_pos_iff]

theorem inText_false_iff (st : List Fr) : inText st = false ↔ st.count .T = 0 := by
  have := inText_iff st
  cases h : inText st
  · simp only [true_iff]
    cases hc : st.count .T with
    | zero => rfl
    | succ n => rw [h, hc] at this; simp at this
  · simp only [false_iff, reduceCtorEq]
    have := this.mp h
    omega

/-- All the ways a step can succeed. -/
theorem tokStep_some (c : TC) (st st' : List Fr) (h : tokStep c st = some st') :
    (c = .q ∧ inText st = false ∧ st' = .q :: st) ∨ (c = .Q ∧ st = .q :: st') ∨
    (c = .BT ∧ inText st = false ∧ st' = .T :: st) ∨ (c = .ET ∧ st = .T :: st') ∨
    (c = .bmark ∧ st' = .M :: st) ∨ (c = .emark ∧ st = .M :: st') ∨
    (c = .graphics ∧ inText st = false ∧ st' = st) ∨ (c = .textOnly ∧ inText st = true ∧ st' = st) ∨
    (c = .free ∧ st' = st) := by
  cases c <;> simp only [tokStep] at h
  case q => cases hi : inText st <;> simp_all
  case Q =>
    match st, h with
    | .q :: rest, h => simp_all
  case BT => cases hi : inText st <;> simp_all
  case ET =>
    match st, h with
    | .T :: rest, h => simp_all
  case bmark => simp_all
  case emark =>
    match st, h with
    | .M :: rest, h => simp_all
  case graphics => cases hi : inText st <;> simp_all
  case textOnly => cases hi : inText st <;> simp_all
  case free => simp_all

/-- One step moves the number of open brackets of each kind by exactly what the token opens / closes. -/
theorem tokStep_count (k : Fr) (c : TC) (st st' : List Fr) (h : tokStep c st = some st') :
    st'.count k + b2n (c.closes k) = st.count k + b2n (c.opens k) := by
  rcases tokStep_some c st st' h with ⟨rfl, _, rfl⟩ | ⟨rfl, rfl⟩ | ⟨rfl, _, rfl⟩ | ⟨rfl, rfl⟩ | ⟨rfl, rfl⟩ |
    ⟨rfl, rfl⟩ | ⟨rfl, _, rfl⟩ | ⟨rfl, _, rfl⟩ | ⟨rfl, rfl⟩ <;>
  cases k <;> simp [TC.opens, TC.closes, b2n]

/-- At most one text object is open at any time. -/
theorem tokStep_T_le_one (c : TC) (st st' : List Fr) (h : tokStep c st = some st') (hT : st.count .T ≤ 1) :
    st'.count .T ≤ 1 := by
  rcases tokStep_some c st st' h with ⟨rfl, _, rfl⟩ | ⟨rfl, rfl⟩ | ⟨rfl, hi, rfl⟩ | ⟨rfl, rfl⟩ | ⟨rfl, rfl⟩ |
    ⟨rfl, rfl⟩ | ⟨rfl, _, rfl⟩ | ⟨rfl, _, rfl⟩ | ⟨rfl, rfl⟩ <;>
  simp_all [inText_false_iff] <;> omega

/-- What a successful step says about the position of a token relative to text objects and `q`. -/
theorem tokStep_text_rule (c : TC) (st st' : List Fr) (h : tokStep c st = some st') :
    ((c = .graphics ∨ c = .q ∨ c = .BT) → st.count .T = 0) ∧ (c = .textOnly → 0 < st.count .T) ∧
    (c = .Q → 0 < st.count .q) := by
  rcases tokStep_some c st st' h with ⟨rfl, hi, rfl⟩ | ⟨rfl, rfl⟩ | ⟨rfl, hi, rfl⟩ | ⟨rfl, rfl⟩ | ⟨rfl, rfl⟩ |
    ⟨rfl, rfl⟩ | ⟨rfl, hi, rfl⟩ | ⟨rfl, hi, rfl⟩ | ⟨rfl, rfl⟩ <;>
  simp_all [inText_false_iff, inText_iff]

/-! ### Runs -/

theorem runToks_append (res : ResNames) (st : List Fr) (a b : List Tok) :
    runToks res st (a ++ b) = (runToks res st a).bind (fun st' => runToks res st' b) := by
  induction a generalizing st with
  | nil => simp [runToks]
  | cons t ts ih =>
    simp only [List.cons_append, runToks]
    split
    · split
      · rename_i st' _; exact ih st'
      · simp
    · simp

/-- Every prefix of an accepted stream is accepted (with some open brackets left). -/
theorem runToks_prefix (res : ResNames) (st stEnd : List Fr) (toks : List Tok) (n : Nat)
    (h : runToks res st toks = some stEnd) : ∃ stMid, runToks res st (toks.take n) = some stMid ∧
      runToks res stMid (toks.drop n) = some stEnd := by
  have hsplit := runToks_append res st (toks.take n) (toks.drop n)
  rw [List.take_append_drop, h] at hsplit
  cases hm : runToks res st (toks.take n) with
  | none => rw [hm] at hsplit; simp at hsplit
  | some stMid => rw [hm] at hsplit; exact ⟨stMid, rfl, by simpa using hsplit.symm⟩

def opensK (k : Fr) (t : Tok) : Bool := t.cls.opens k
def closesK (k : Fr) (t : Tok) : Bool := t.cls.closes k

/-- Counting invariant of a run, for each bracket kind. -/
theorem runToks_count (res : ResNames) (k : Fr) (st st' : List Fr) (toks : List Tok)
    (h : runToks res st toks = some st') :
    st'.count k + toks.countP (closesK k) = st.count k + toks.countP (opensK k) := by
  induction toks generalizing st with
  | nil => simp [runToks] at h; subst h; simp
  | cons t ts ih =>
    simp only [runToks] at h
    split at h
    · split at h
      · rename_i stm hstep
        have h1 : stm.count k + b2n (closesK k t) = st.count k + b2n (opensK k t) :=
          tokStep_count k t.cls st stm hstep
        have h2 := ih stm h
        rw [List.countP_cons, List.countP_cons]
        cases hc : closesK k t <;> cases ho : opensK k t <;> simp [hc, ho, b2n] at h1 ⊢ <;> omega
      · simp at h
    · simp at h

theorem runToks_T_le_one (res : ResNames) (st st' : List Fr) (toks : List Tok)
    (h : runToks res st toks = some st') (hT : st.count .T ≤ 1) : st'.count .T ≤ 1 := by
  induction toks generalizing st with
  | nil => simp [runToks] at h; subst h; exact hT
  | cons t ts ih =>
    simp only [runToks] at h
    split at h
    · split at h
      · rename_i stm hstep
        exact ih stm h (tokStep_T_le_one t.cls st stm hstep hT)
      · simp at h
    · simp at h

theorem runToks_all_ok (res : ResNames) (st st' : List Fr) (toks : List Tok)
    (h : runToks res st toks = some st') : ∀ t ∈ toks, tokOk res t = true := by
  induction toks generalizing st with
  | nil => simp
  | cons t ts ih =>
    simp only [runToks] at h
    split at h
    · rename_i hok
      split at h
      · rename_i stm _
        intro u hu
        rcases List.mem_cons.mp hu with rfl | hu
        · exact hok
        · exact ih stm h u hu
      · simp at h
    · simp at h

/-- The first token of the rest of an accepted run steps from the state reached so far. -/
theorem runToks_head_step (res : ResNames) (st st' : List Fr) (t : Tok) (ts : List Tok)
    (h : runToks res st (t :: ts) = some st') : ∃ stm, tokStep t.cls st = some stm := by
  simp only [runToks] at h
  split at h
  · split at h
    · rename_i stm hstep; exact ⟨stm, hstep⟩
    · simp at h
  · simp at h

end Wp.Pdf
