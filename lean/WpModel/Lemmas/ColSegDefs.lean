/-
Definitions for the conservation / progress theorems of PM stage 2c (C01Col, C03Col): the stage-1 notions of
`Lemmas/SegmentDefs.lean` over the extended box and fragment types.
-/
import WpModel.Model.PaginateCol
import WpModel.Lemmas.SegmentDefs

namespace Wp.PMC
open Wp Wp.PM

/-! ### lines of fragments and boxes -/

mutual
/-- (paragraph id, line number) of every line shown by a fragment, in tree order (columns left to right). -/
def fragLines : CFrag → List (Nat × Nat)
  | .para id _ _ _ _ lines => lines.map (fun l => (id, l.1))
  | .block _ _ _ _ kids => fragLinesList kids
  | .cols _ _ _ _ kids => fragLinesList kids
  | .column _ _ _ _ kids => fragLinesList kids
def fragLinesList : List CFrag → List (Nat × Nat)
  | [] => []
  | f :: fs => fragLines f ++ fragLinesList fs
end

mutual
/-- Lines of the box at / after a resume position. A container is resumed like a block: `node i sub` = child
`i` of the container resumed at `sub`, then the later children. -/
def linesFrom : ColBox → Option Resume → List (Nat × Nat)
  | .para id n _ _, σ => paraLines id (paraStart σ) n
  | .block _ _ kids, σ => linesFromKids kids (skipIdxOf σ) (subSkipOf σ)
  | .columns _ _ _ _ kids, σ => linesFromKids kids (skipIdxOf σ) (subSkipOf σ)
def linesFromKids : List ColBox → Nat → Option Resume → List (Nat × Nat)
  | [], _, _ => []
  | b :: bs, 0, sub => linesFrom b sub ++ linesFromKids bs 0 none
  | _ :: bs, k + 1, sub => linesFromKids bs k sub
end

def restOut (box : ColBox) : Option Resume → List (Nat × Nat)
  | none => []
  | some r => linesFrom box (some r)

/-! ### position measure (`sizeBox`, `sizeKids` of the model are the units) -/

mutual
def pos : ColBox → Option Resume → Nat
  | .para _ n _ _, σ => min (paraStart σ) n
  | .block _ _ kids, σ => posKids kids (skipIdxOf σ) (subSkipOf σ)
  | .columns _ _ _ _ kids, σ => posKids kids (skipIdxOf σ) (subSkipOf σ)
def posKids : List ColBox → Nat → Option Resume → Nat
  | [], _, _ => 0
  | b :: _, 0, sub => pos b sub
  | b :: bs, k + 1, sub => sizeBox b + posKids bs k sub
end

/-! ### hypotheses -/

mutual
/-- The hypotheses of the conservation theorems, in one recursion: no paragraph or block has a fixed `height`
(`fixed-height-forgets-overflow`; the container itself may have one) and `orphans, widows ≥ 1`.  Nothing is asked
of the `column-span` flags: spanning children are covered since the repairs b24b457 and d7e3d63. -/
def Good : ColBox → Prop
  | .para _ _ _ st => st.height = none ∧ 1 ≤ st.orphans ∧ 1 ≤ st.widows
  | .block _ st kids => st.height = none ∧ GoodList kids
  | .columns _ _ _ _ kids => GoodList kids
def GoodList : List ColBox → Prop
  | [] => True
  | b :: bs => Good b ∧ GoodList bs
end

mutual
/-- No box of the subtree other than a container has a fixed `height`. -/
def NoFixedHeight : ColBox → Prop
  | .para _ _ _ st => st.height = none
  | .block _ st kids => st.height = none ∧ NoFixedHeightList kids
  | .columns _ _ _ _ kids => NoFixedHeightList kids
def NoFixedHeightList : List ColBox → Prop
  | [] => True
  | b :: bs => NoFixedHeight b ∧ NoFixedHeightList bs
end

mutual
def WellFormed : ColBox → Prop
  | .para _ _ _ st => 1 ≤ st.orphans ∧ 1 ≤ st.widows
  | .block _ _ kids => WellFormedList kids
  | .columns _ _ _ _ kids => WellFormedList kids
def WellFormedList : List ColBox → Prop
  | [] => True
  | b :: bs => WellFormed b ∧ WellFormedList bs
end

mutual
theorem good_of : (b : ColBox) → NoFixedHeight b → WellFormed b → Good b
  | .para _ _ _ _ => by
    intro h1 h2
    unfold NoFixedHeight at h1; unfold WellFormed at h2; unfold Good
    exact ⟨h1, h2⟩
  | .block _ _ kids => by
    intro h1 h2
    unfold NoFixedHeight at h1; unfold WellFormed at h2; unfold Good
    exact ⟨h1.1, goodList_of kids h1.2 h2⟩
  | .columns _ _ _ _ kids => by
    intro h1 h2
    unfold NoFixedHeight at h1; unfold WellFormed at h2; unfold Good
    exact goodList_of kids h1 h2
theorem goodList_of : (bs : List ColBox) → NoFixedHeightList bs → WellFormedList bs → GoodList bs
  | [] => by intro _ _; unfold GoodList; trivial
  | b :: bs => by
    intro h1 h2
    unfold NoFixedHeightList at h1; unfold WellFormedList at h2; unfold GoodList
    exact ⟨good_of b h1.1 h2.1, goodList_of bs h1.2 h2.2⟩
end

def allColumns : List CFrag → Prop
  | [] => True
  | f :: fs => f.isColumn = true ∧ allColumns fs

/-! ### "the fragment is the complete rest of the box" -/

mutual
/-- `Full f b σ`: `f` is what the layout of `b` resumed at `σ` gives when it runs to the end of `b`.
Paragraphs and blocks as in stage 1 (structurally); a container fragment holds column boxes and spanning
blocks, whose lines are the lines of the children from the resume position on (`find_earlier_page_break` never
looks into a container, so nothing more is needed of it). -/
def Full : CFrag → ColBox → Option Resume → Prop
  | .para id _ st n _ lines, b, σ =>
    match b with
    | .para id' n' _ st' => id = id' ∧ n = n' ∧ st = st' ∧
        lines.map Prod.fst = List.range' (paraStart σ) (n' - paraStart σ)
    | _ => False
  | .block _ _ _ _ fs, b, σ =>
    match b with
    | .block _ _ kids => FullFrom fs (kids.drop (skipIdxOf σ)) (skipIdxOf σ) (subSkipOf σ)
    | _ => False
  | .cols _ _ _ _ fs, b, σ =>
    match b with
    | .columns _ _ _ _ kids => fragLinesList fs = linesFromKids kids (skipIdxOf σ) (subSkipOf σ)
    | _ => False
  | .column _ _ _ _ _, _, _ => False
def FullFrom : List CFrag → List ColBox → Nat → Option Resume → Prop
  | [], bs, _, _ => bs = []
  | f :: fs, bs, i, sub =>
    match bs with
    | [] => False
    | b :: bs' => Full f b sub ∧ f.idx = i ∧ FullFrom fs bs' (i + 1) none
end

end Wp.PMC
