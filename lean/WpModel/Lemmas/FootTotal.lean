/-
The first content of an empty page is always accepted in the footnote model, whatever the footnote policies
(before repair 67bf2ca `footnote-policy: block` could abort a paragraph on an empty page and the `assert root_box`
of `make_page` failed; the regression example is in `Witness/C01Foot.lean`).
-/
import WpModel.Lemmas.FootConservePara
import WpModel.Lemmas.FootConserveBox

namespace Wp.PMF
open Wp Wp.PM

theorem finish_someF (c : Ctx) (st : PStyle) (b : BoxSt) (isStart : Bool) (bs : Rat)
    (cwc dbd : Bool) (resume : Option Resume) (posY : Rat) (adjL cur : List Rat) (curIsL : Bool)
    (np : NextPage) (hasKids : Bool) (pageEnd : String) (mk : Geo → Frag) :
    (finishContainer c st b isStart true bs cwc dbd resume posY adjL cur curIsL np hasKids pageEnd mk).frag.isSome := by
  unfold finishContainer
  simp

theorem finishPara_someF (c : Ctx) (st : PStyle) (p : Prep) (id idx n : Nat) (r : LineResult)
    (h : r.abort = false) : (finishPara c st p true id idx n r).frag.isSome = true := by
  unfold finishPara
  simp only [h, Bool.false_eq_true, ↓reduceIte]
  exact finish_someF ..

theorem finishBlock_someF (c : Ctx) (st : PStyle) (p : Prep) (id idx : Nat) (out : KidsOutcome)
    (h : ∀ page s, out ≠ .aborted page s) : (finishBlock c st p true id idx out).frag.isSome = true := by
  unfold finishBlock
  split
  · rename_i page s; exact absurd rfl (h page s)
  · exact finish_someF ..
  · exact finish_someF ..

theorem firstPass_keepsF (c : Ctx) (bs posY : Rat) (r : LayoutResult) (h : r.frag.isSome = true) :
    (∃ f y, firstPass c bs true posY r = .keep (some f) y ∧ r.frag = some f) := by
  unfold firstPass
  cases hf : r.frag with
  | none => simp [hf] at h
  | some f =>
    simp only [Bool.not_true, Bool.false_and, Bool.false_eq_true, ↓reduceIte]
    split
    · exact ⟨f, _, rfl, rfl⟩
    · exact ⟨f, _, rfl, rfl⟩

theorem conclude_not_abortedF (index : Nat) (pb : Brk) (child : PBox) (s : KidsLoop)
    (frag : Option Frag) (resume : Option Resume)
    (h : frag.isSome = true ∨ s.newChildren.isEmpty = false) :
    ∀ page s' s'', concludeKid index true pb child s frag resume ≠ (some (.aborted page s'), s'') := by
  intro page s' s''
  unfold concludeKid
  cases frag with
  | some f =>
    simp only
    split <;> simp
  | none =>
    simp only [Bool.not_true, Bool.and_false, Bool.false_eq_true, ↓reduceIte]
    have hne : s.newChildren.isEmpty = false := by
      rcases h with h | h
      · simp at h
      · exact h
    split
    · simp
    · simp [hne]

mutual
theorem box_someF : (box : FootBox) → ∀ (c : FCtx) (idx : Nat) (y bs : Rat)
    (skip : Option Resume) (cb : Bool) (adjL : List Rat) (fs : FState),
    (layoutBoxF c box idx y bs skip cb true adjL fs).r.frag.isSome = true
  | .para id n lineH st calls => by
    intro c idx y bs skip cb adjL fs
    simp only [layoutBoxF, finishParaF_r]
    exact finishPara_someF _ _ _ _ _ _ _ (lineboxF_no_abort _ _ _ _ _ _ _ _ _ _ _ _)
  | .block id st kids => by
    intro c idx y bs skip cb adjL fs
    simp only [layoutBoxF, finishBlockF_r]
    exact finishBlock_someF _ _ _ _ _ _ (fun page s => kidsF_not_aborted kids _ _ _ _ _ _ _ page s)
theorem kidsF_not_aborted : (kids : List FootBox) → ∀ (c : FCtx) (st : PStyle)
    (index skipIdx : Nat) (bs : Rat) (s : KidsLoop) (fs : FState) (page : String) (s' : KidsLoop),
    (layoutKidsF c st kids index skipIdx bs true s fs).1 ≠ .aborted page s'
  | [] => by
    intro c st index skipIdx bs s fs page s'
    simp [layoutKidsF]
  | child :: rest => by
    intro c st index skipIdx bs s fs page s'
    unfold layoutKidsF
    split
    · exact kidsF_not_aborted rest _ _ _ _ _ _ _ _ _
    · dsimp only
      split
      · simp
      · simp only [Bool.true_and]
        cases hne : s.newChildren.isEmpty with
        | true =>
          have hsome := box_someF child c index s.posY bs s.skip st.isRoot s.cur fs
          obtain ⟨f, y', hk, _⟩ := firstPass_keepsF
            (ctxOf c (layoutBoxF c child index s.posY bs s.skip st.isRoot true s.cur fs).fs) bs s.posY _ hsome
          rw [hk]
          dsimp only
          split
          · rename_i out s3 heq
            intro hcontra
            simp only at hcontra
            subst hcontra
            exact conclude_not_abortedF _ _ _ _ _ _ (Or.inl rfl) _ _ _ heq
          · exact kidsF_not_aborted rest _ _ _ _ _ _ _ _ _
        | false =>
          split
          · split
            · rename_i out s3 heq
              intro hcontra
              simp only at hcontra
              subst hcontra
              refine conclude_not_abortedF _ _ _ _ _ _ (Or.inr ?_) _ _ _ heq
              simpa using hne
            · exact kidsF_not_aborted rest _ _ _ _ _ _ _ _ _
          · split
            · rename_i out s3 heq
              intro hcontra
              simp only at hcontra
              subst hcontra
              refine conclude_not_abortedF _ _ _ _ _ _ (Or.inr ?_) _ _ _ heq
              simpa using hne
            · exact kidsF_not_aborted rest _ _ _ _ _ _ _ _ _
end

end Wp.PMF
