/-
Helper lemmas for C18: attachments (`write_pdf_attachment`, `add_annotations`).  Core Lean only.
-/
import WpModel.Model.C18Attach
import WpModel.Lemmas.C18Links

namespace Wp.C18
open Wp Wp.Anchors Wp.Attach Wp.Outline

/-! ### document-level attachments -/

/-- What a readable attachment must become: file name, description, size. -/
def attSummary (a : Att) : Option (String × String × Nat) :=
  a.size.map fun n => (chooseFilename a, a.description.getD "", n)

theorem writeAll_summary (g : List (String × String)) (atts : List Att) :
    ∀ (next : Nat), ((writeAll g next atts).1.map fun f => (f.filename, f.desc, f.size)) = atts.filterMap attSummary ∧
      (writeAll g next atts).2 = next + 2 * (atts.filterMap attSummary).length ∧
      ((writeAll g next atts).1.map fun f => f.spec) =
        (List.range (atts.filterMap attSummary).length).map (fun i => next + 2 * i + 1) := by
  induction atts with
  | nil => intro next; simp [writeAll]
  | cons a rest ih =>
    intro next
    cases hs : a.size with
    | none =>
      have : attSummary a = none := by simp [attSummary, hs]
      simp only [writeAll, writeAttachment, hs, List.filterMap_cons, this]
      exact ih next
    | some n =>
      have : attSummary a = some (chooseFilename a, a.description.getD "", n) := by simp [attSummary, hs]
      obtain ⟨h1, h2, h3⟩ := ih (next + 2)
      simp only [writeAll, writeAttachment, hs, List.filterMap_cons, this, List.map_cons, h1, h2, List.length_cons]
      refine ⟨trivial, by omega, ?_⟩
      rw [h3, List.range_succ_eq_map]
      simp only [List.map_cons, List.map_map]
      congr 1
      apply List.map_congr_left
      intro i _
      simp only [Function.comp]; omega

/-! ### the `/EmbeddedFiles` name array (sorted since 186e86a) -/

theorem nameLt_asymm (a b : List Nat) (h : nameLt a b = true) : nameLt b a = false := by
  cases hba : nameLt b a with
  | false => rfl
  | true =>
    have := nameLt_trans a b a h hba
    rw [nameLt_irrefl] at this; exact absurd this (by simp)

/-- Non-decreasing in the key `k` (equal keys may repeat: two attachments may have one name). -/
def SortedBy (k : FileSpec → List Nat) : List FileSpec → Prop
  | [] => True
  | [_] => True
  | x :: y :: rest => nameLt (k y) (k x) = false ∧ SortedBy k (y :: rest)

theorem SortedBy.tail {k : FileSpec → List Nat} {x : FileSpec} {l : List FileSpec} (h : SortedBy k (x :: l)) :
    SortedBy k l := by
  cases l with
  | nil => trivial
  | cons y rest => exact h.2

/-- The key a PDF reader compares — and, since e909019, the sort key of the code: the bytes of `/F`. -/
def rawKey (cpsOf : String → List Nat) (f : FileSpec) : List Nat := fKey (cpsOf f.filename)

theorem insertSpec_perm (cpsOf : String → List Nat) (x : FileSpec) (l : List FileSpec) :
    (insertSpec cpsOf x l).Perm (x :: l) := by
  induction l with
  | nil => simp [insertSpec]
  | cons y ys ih =>
    simp only [insertSpec]
    by_cases h : nameLt (fKey (cpsOf y.filename)) (fKey (cpsOf x.filename)) = true
    · rw [if_pos h]
      exact (List.Perm.cons y ih).trans (List.Perm.swap x y ys)
    · rw [if_neg h]

theorem sortSpecs_perm (cpsOf : String → List Nat) (l : List FileSpec) : (sortSpecs cpsOf l).Perm l := by
  induction l with
  | nil => simp [sortSpecs]
  | cons x xs ih =>
    simp only [sortSpecs]
    exact (insertSpec_perm cpsOf x _).trans (List.Perm.cons x ih)

theorem insertSpec_sorted (cpsOf : String → List Nat) (x : FileSpec) (l : List FileSpec)
    (hs : SortedBy (rawKey cpsOf) l) : SortedBy (rawKey cpsOf) (insertSpec cpsOf x l) := by
  induction l with
  | nil => simp [insertSpec, SortedBy]
  | cons y ys ih =>
    simp only [insertSpec]
    by_cases h : nameLt (fKey (cpsOf y.filename)) (fKey (cpsOf x.filename)) = true
    · rw [if_pos h]
      have hrec := ih hs.tail
      have hyx : nameLt (rawKey cpsOf x) (rawKey cpsOf y) = false := nameLt_asymm _ _ h
      cases ys with
      | nil => simp only [insertSpec, SortedBy]; exact ⟨hyx, trivial⟩
      | cons z zs =>
        simp only [insertSpec] at hrec ⊢
        by_cases h2 : nameLt (fKey (cpsOf z.filename)) (fKey (cpsOf x.filename)) = true
        · rw [if_pos h2] at hrec ⊢
          exact ⟨hs.1, hrec⟩
        · rw [if_neg h2] at hrec ⊢
          exact ⟨hyx, hrec⟩
    · rw [if_neg h]
      exact ⟨by simpa [rawKey] using h, hs⟩

theorem sortSpecs_sorted (cpsOf : String → List Nat) (l : List FileSpec) :
    SortedBy (rawKey cpsOf) (sortSpecs cpsOf l) := by
  induction l with
  | nil => simp [sortSpecs, SortedBy]
  | cons x xs ih => exact insertSpec_sorted cpsOf x _ ih

/-- Equal keys keep their document order (`sorted` is stable): an element inserted in front of a list
stays in front of every element whose key is not smaller. -/
theorem insertSpec_head (cpsOf : String → List Nat) (x : FileSpec) (l : List FileSpec)
    (h : ∀ y ∈ l, nameLt (rawKey cpsOf y) (rawKey cpsOf x) = false) : insertSpec cpsOf x l = x :: l := by
  cases l with
  | nil => rfl
  | cons y ys =>
    have := h y (by simp)
    simp only [insertSpec]
    rw [if_neg (by simpa [rawKey] using this)]

/-! ### link-level attachments -/

theorem Cache.get?_append_left (c t : Cache) (u : String) (v : Option Nat) (h : c.get? u = some v) :
    (c ++ t).get? u = some v := by
  unfold Cache.get? at h ⊢
  rw [List.find?_append]
  cases hf : c.find? (fun e => e.1 == u) with
  | none => rw [hf] at h; simp at h
  | some e => rw [hf] at h; simpa using h

theorem Cache.get?_append_new (c : Cache) (u : String) (v : Option Nat) (h : c.get? u = none) :
    (c ++ [(u, v)]).get? u = some v := by
  unfold Cache.get? at h ⊢
  rw [List.find?_append]
  cases hf : c.find? (fun e => e.1 == u) with
  | none => simp
  | some e => rw [hf] at h; simp at h

/-- The cache agrees with the fetcher: a URL is cached as a file exactly when it can be read. -/
def CacheOk (fetch : String → Att) (c : Cache) : Prop :=
  ∀ u v, c.get? u = some v → v.isSome = (fetch u).size.isSome

theorem annotStep_spec (g : List (String × String)) (fetch : String → Att) (m : Matrix) (st : AnnotState)
    (l : AttLink) (hok : CacheOk fetch st.cache) :
    let r := annotStep g fetch m st l
    (∃ t, r.1.cache = st.cache ++ t) ∧ CacheOk fetch r.1.cache ∧
    (∃ v, r.1.cache.get? l.target = some v ∧
      (r.2.map fun a => (a.fs, a.rect)) = v.map fun fs => (fs, annotRect m l.rect)) ∧
    ((fetch l.target).size.isSome = r.2.isSome) := by
  unfold annotStep
  cases hc : st.cache.get? l.target with
  | some v =>
    simp only [hc]
    have hv := hok _ _ hc
    cases v with
    | none => exact ⟨⟨[], by simp⟩, hok, ⟨none, hc, rfl⟩, by simpa using hv.symm⟩
    | some fs => exact ⟨⟨[], by simp⟩, hok, ⟨some fs, hc, rfl⟩, by simpa using hv.symm⟩
  | none =>
    simp only []
    cases hs : (fetch l.target).size with
    | none =>
      simp only [writeAttachment, hs]
      have hg := Cache.get?_append_new st.cache l.target none hc
      simp only [hg]
      refine ⟨⟨_, rfl⟩, ?_, ⟨none, rfl, rfl⟩, rfl⟩
      intro u v huv
      by_cases hu : u = l.target
      · subst hu; rw [hg] at huv; cases huv; simp [hs]
      · unfold Cache.get? at huv
        rw [List.find?_append] at huv
        cases hf : st.cache.find? (fun e => e.1 == u) with
        | some e =>
          apply hok u v
          unfold Cache.get?; rw [hf]; rw [hf] at huv; simpa using huv
        | none =>
          rw [hf] at huv
          have : (l.target == u) = false := by simpa using fun e => hu e.symm
          simp [this] at huv
    | some n =>
      simp only [writeAttachment, hs]
      have hg := Cache.get?_append_new st.cache l.target (some (st.next + 1)) hc
      simp only [hg]
      refine ⟨⟨_, rfl⟩, ?_, ⟨some (st.next + 1), rfl, rfl⟩, rfl⟩
      intro u v huv
      by_cases hu : u = l.target
      · subst hu; rw [hg] at huv; cases huv; simp [hs]
      · unfold Cache.get? at huv
        rw [List.find?_append] at huv
        cases hf : st.cache.find? (fun e => e.1 == u) with
        | some e =>
          apply hok u v
          unfold Cache.get?; rw [hf]; rw [hf] at huv; simpa using huv
        | none =>
          rw [hf] at huv
          have : (l.target == u) = false := by simpa using fun e => hu e.symm
          simp [this] at huv

/-- The whole loop of `add_annotations` (one page), from any state whose cache agrees with the fetcher. -/
theorem addAnnotations_spec (g : List (String × String)) (fetch : String → Att) (m : Matrix) (links : List AttLink) :
    ∀ (st : AnnotState), CacheOk fetch st.cache →
      let r := addAnnotations g fetch m st links
      (∃ t, r.1.cache = st.cache ++ t) ∧ CacheOk fetch r.1.cache ∧
      (r.2.map fun a => (a.fs, a.rect)) = links.filterMap (fun l =>
        match r.1.cache.get? l.target with
        | some (some fs) => some (fs, annotRect m l.rect)
        | _ => none) ∧
      r.2.length = (links.filter fun l => (fetch l.target).size.isSome).length := by
  induction links with
  | nil => intro st hok; exact ⟨⟨[], by simp [addAnnotations]⟩, hok, rfl, rfl⟩
  | cons l rest ih =>
    intro st hok
    obtain ⟨⟨t1, ht1⟩, hok1, ⟨v, hv1, hv2⟩, hlen1⟩ := annotStep_spec g fetch m st l hok
    obtain ⟨⟨t2, ht2⟩, hok2, hmap, hlen2⟩ := ih (annotStep g fetch m st l).1 hok1
    simp only [addAnnotations]
    refine ⟨⟨t1 ++ t2, by rw [ht2, ht1, List.append_assoc]⟩, hok2, ?_, ?_⟩
    · -- the entry for `l.target` made by this step is still the one found at the end
      have hfinal : (addAnnotations g fetch m (annotStep g fetch m st l).1 rest).1.cache.get? l.target = some v := by
        rw [ht2]; exact Cache.get?_append_left _ _ _ _ hv1
      simp only [List.filterMap_cons, hfinal]
      cases hr : (annotStep g fetch m st l).2 with
      | none =>
        rw [hr] at hv2
        cases v with
        | none => simpa using hmap
        | some fs => simp at hv2
      | some a =>
        rw [hr] at hv2
        cases v with
        | none => simp at hv2
        | some fs =>
          simp only [Option.map_some, Option.some.injEq] at hv2
          simp only [List.map_cons, hv2, hmap]
    · simp only [List.filter_cons]
      cases hr : (annotStep g fetch m st l).2 with
      | none =>
        rw [hr] at hlen1
        have : (fetch l.target).size.isSome = false := by simpa using hlen1
        simp [this, hlen2]
      | some a =>
        rw [hr] at hlen1
        have : (fetch l.target).size.isSome = true := by simpa using hlen1
        simp [this, hlen2]

/-! ### each URL is embedded at most once -/

theorem Cache.get?_none_not_mem (c : Cache) (u : String) (h : c.get? u = none) : u ∉ c.map (·.1) := by
  unfold Cache.get? at h
  intro hm
  obtain ⟨e, he, heu⟩ := List.mem_map.mp hm
  have : c.find? (fun e => e.1 == u) = none := by
    cases hf : c.find? (fun e => e.1 == u) with
    | none => rfl
    | some x => rw [hf] at h; simp at h
  rw [List.find?_eq_none] at this
  exact this e he (by simp [heu])

/-- The embedded files are exactly the successful cache entries, and no URL is cached twice. -/
def FilesOk (st : AnnotState) : Prop :=
  st.files.map (·.spec) = st.cache.filterMap (·.2) ∧ (st.cache.map (·.1)).Nodup

theorem annotStep_files (g : List (String × String)) (fetch : String → Att) (m : Matrix) (st : AnnotState)
    (l : AttLink) (h : FilesOk st) : FilesOk (annotStep g fetch m st l).1 := by
  obtain ⟨h1, h2⟩ := h
  unfold annotStep
  cases hc : st.cache.get? l.target with
  | some v =>
    simp only [hc]
    cases v <;> exact ⟨h1, h2⟩
  | none =>
    have hnm := Cache.get?_none_not_mem _ _ hc
    simp only []
    cases hs : (fetch l.target).size with
    | none =>
      simp only [writeAttachment, hs, Cache.get?_append_new st.cache l.target none hc]
      refine ⟨by simp [h1], ?_⟩
      rw [List.map_append, List.nodup_append]
      exact ⟨h2, by simp, by intro a ha b hb; simp at hb; subst hb; intro e; exact hnm (e ▸ ha)⟩
    | some n =>
      simp only [writeAttachment, hs, Cache.get?_append_new st.cache l.target (some (st.next + 1)) hc]
      refine ⟨by simp [h1], ?_⟩
      rw [List.map_append, List.nodup_append]
      exact ⟨h2, by simp, by intro a ha b hb; simp at hb; subst hb; intro e; exact hnm (e ▸ ha)⟩

theorem addAnnotations_files (g : List (String × String)) (fetch : String → Att) (m : Matrix) (links : List AttLink) :
    ∀ (st : AnnotState), FilesOk st → FilesOk (addAnnotations g fetch m st links).1 := by
  induction links with
  | nil => intro st h; exact h
  | cons l rest ih => intro st h; simp only [addAnnotations]; exact ih _ (annotStep_files g fetch m st l h)

end Wp.C18
