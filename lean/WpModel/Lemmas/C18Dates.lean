/-
Helper definitions and lemmas for C18 (`_w3c_date_to_pdf`).  Core Lean only.
-/
import WpModel.Model.Dates

namespace Wp.C18
open Wp Wp.Dates

/-! ### structured W3C dates (https://www.w3.org/TR/NOTE-datetime) and their text -/

inductive Zone where
  | utc
  | offset (neg : Bool) (hh mm : Nat)
  deriving Repr, DecidableEq

/-- `hh:mm[:ss[.s+]]TZD`: seconds with the digits of the fraction (`[]` = no fraction). -/
structure Clock where
  hh : Nat
  mm : Nat
  ss : Option (Nat × List Nat)
  zone : Zone
  deriving Repr, DecidableEq

/-- The six formats: YYYY, YYYY-MM, YYYY-MM-DD, and the three complete forms. -/
inductive W3C where
  | y (year : Nat)
  | ym (year month : Nat)
  | ymd (year month day : Nat)
  | full (year month day : Nat) (c : Clock)
  deriving Repr, DecidableEq

def d2 (n : Nat) : Str := [digitChar (n / 10), digitChar (n % 10)]
def d4 (n : Nat) : Str :=
  [digitChar (n / 1000), digitChar (n / 100 % 10), digitChar (n / 10 % 10), digitChar (n % 10)]

def Zone.wf : Zone → Prop
  | .utc => True
  | .offset _ hh mm => hh ≤ 23 ∧ mm ≤ 59

def Clock.wf (c : Clock) : Prop :=
  c.hh ≤ 23 ∧ c.mm ≤ 59 ∧ c.zone.wf ∧
  match c.ss with
  | none => True
  | some (s, frac) => s ≤ 59 ∧ ∀ k ∈ frac, k < 10

/-- Field ranges (those of the regular expression: a superset of the valid calendar dates). -/
def W3C.wf : W3C → Prop
  | .y year => year < 10000
  | .ym year month => year < 10000 ∧ month ≤ 12
  | .ymd year month day => year < 10000 ∧ month ≤ 12 ∧ day ≤ 31
  | .full year month day c => year < 10000 ∧ month ≤ 12 ∧ day ≤ 31 ∧ c.wf

def Zone.print : Zone → Str
  | .utc => ['Z']
  | .offset neg hh mm => (if neg then '-' else '+') :: (d2 hh ++ ':' :: d2 mm)

def printFrac (frac : List Nat) : Str :=
  match frac with
  | [] => []
  | k :: ks => '.' :: (k :: ks).map digitChar

def Clock.print (c : Clock) : Str :=
  'T' :: (d2 c.hh ++ ':' :: (d2 c.mm ++
    (match c.ss with
     | none => []
     | some (s, frac) => ':' :: (d2 s ++ printFrac frac)) ++ c.zone.print))

/-- The text of a W3C date. -/
def W3C.print : W3C → Str
  | .y year => d4 year
  | .ym year month => d4 year ++ '-' :: d2 month
  | .ymd year month day => d4 year ++ '-' :: (d2 month ++ '-' :: d2 day)
  | .full year month day c => d4 year ++ '-' :: (d2 month ++ '-' :: (d2 day ++ c.print))

def Zone.hourGroup (dflt : Option Str) : Zone → Option Str
  | .utc => dflt
  | .offset neg hh _ => some ((if neg then '-' else '+') :: d2 hh)

def Zone.minuteGroup (dflt : Option Str) : Zone → Option Str
  | .utc => dflt
  | .offset _ _ mm => some (d2 mm)

/-- What `W3C_DATE_RE` captures. -/
def W3C.groups : W3C → Groups
  | .y year => { year := some (d4 year) }
  | .ym year month => { year := some (d4 year), month := some (d2 month) }
  | .ymd year month day => { year := some (d4 year), month := some (d2 month), day := some (d2 day) }
  | .full year month day c =>
    { year := some (d4 year), month := some (d2 month), day := some (d2 day),
      hour := some (d2 c.hh), minute := some (d2 c.mm),
      second := c.ss.map (fun s => d2 s.1),
      tzHour := c.zone.hourGroup none,
      tzMinute := c.zone.minuteGroup none }

/-! ### PDF dates (ISO 32000-1 7.9.4): `D:YYYYMMDDHHmmSSOHH'mm` -/

structure PdfDate where
  year : Nat
  month : Nat := 1
  day : Nat := 1
  hh : Nat := 0
  mm : Nat := 0
  ss : Nat := 0
  zone : Option Zone := none
  deriving Repr, DecidableEq

def Zone.pdf : Zone → Str
  | .utc => ['Z']
  | .offset neg hh mm => (if neg then '-' else '+') :: (d2 hh ++ '\'' :: d2 mm)

/-- The PDF date string expected for a W3C date: missing seconds are written `00`, the fraction is
dropped, the time zone keeps its sign, hours and minutes. -/
def W3C.pdf : W3C → Str
  | .y year => 'D' :: ':' :: d4 year
  | .ym year month => 'D' :: ':' :: (d4 year ++ d2 month)
  | .ymd year month day => 'D' :: ':' :: (d4 year ++ d2 month ++ d2 day)
  | .full year month day c =>
    'D' :: ':' :: (d4 year ++ d2 month ++ d2 day ++ d2 c.hh ++ d2 c.mm ++
      d2 (match c.ss with | none => 0 | some (s, _) => s) ++ c.zone.pdf)

/-- The instant a W3C date denotes, with the defaults of both notations (month, day = 1; h, m, s = 0). -/
def W3C.normal : W3C → PdfDate
  | .y year => { year := year }
  | .ym year month => { year := year, month := month }
  | .ymd year month day => { year := year, month := month, day := day }
  | .full year month day c =>
    { year := year, month := month, day := day, hh := c.hh, mm := c.mm,
      ss := (match c.ss with | none => 0 | some (s, _) => s), zone := some c.zone }

def num2 (a b : Char) : Option Nat :=
  if isDig a && isDig b then some ((a.toNat - 48) * 10 + (b.toNat - 48)) else none

def num4 (a b c d : Char) : Option Nat :=
  match num2 a b, num2 c d with
  | some x, some y => some (x * 100 + y)
  | _, _ => none

def parseZone : Str → Option (Option Zone)
  | [] => some none
  | ['Z'] => some (some .utc)
  | [s, a, b, '\'', c, d] =>
    if s == '+' || s == '-' then
      match num2 a b, num2 c d with
      | some h, some m => some (some (.offset (s == '-') h m))
      | _, _ => none
    else none
  | [s, a, b, '\'', c, d, '\''] =>
    if s == '+' || s == '-' then
      match num2 a b, num2 c d with
      | some h, some m => some (some (.offset (s == '-') h m))
      | _, _ => none
    else none
  | _ => none

/-- A reader of PDF date strings (every prefix form of the grammar). -/
def parsePdfDate : Str → Option PdfDate
  | 'D' :: ':' :: y1 :: y2 :: y3 :: y4 :: rest =>
    match num4 y1 y2 y3 y4 with
    | none => none
    | some year =>
      match rest with
      | [] => some { year := year }
      | [a, b] => (num2 a b).map fun mo => { year := year, month := mo }
      | [a, b, c, d] =>
        match num2 a b, num2 c d with
        | some mo, some da => some { year := year, month := mo, day := da }
        | _, _ => none
      | a :: b :: c :: d :: e :: f :: g :: h :: i :: j :: z =>
        match num2 a b, num2 c d, num2 e f, num2 g h, num2 i j, parseZone z with
        | some mo, some da, some hh, some mi, some se, some zone =>
          some { year := year, month := mo, day := da, hh := hh, mm := mi, ss := se, zone := zone }
        | _, _, _, _, _, _ => none
      | _ => none
  | _ => none

/-! ### digits -/

theorem dig_isDig : ∀ k, k < 10 → isDig (digitChar k) = true := by decide
theorem dig_notWs : ∀ k, k < 10 → isWs (digitChar k) = false := by decide
theorem d2_dig : ∀ n, n < 100 → isDig (digitChar (n / 10)) = true ∧ isDig (digitChar (n % 10)) = true := by decide
theorem d2_month : ∀ m, m ≤ 12 → isMonth (digitChar (m / 10)) (digitChar (m % 10)) = true := by decide
theorem d2_day : ∀ m, m ≤ 31 → isDay (digitChar (m / 10)) (digitChar (m % 10)) = true := by decide
theorem d2_hour : ∀ m, m ≤ 23 → isHour (digitChar (m / 10)) (digitChar (m % 10)) = true := by decide
theorem d2_sixty : ∀ m, m ≤ 59 → isSixty (digitChar (m / 10)) (digitChar (m % 10)) = true := by decide
theorem pad2_lt : ∀ n, n < 100 → pad2 n = d2 n := by decide
theorem d2_val : ∀ n, n < 100 → digitsVal (d2 n) 0 = some n := by decide
theorem d2_num2 : ∀ n, n < 100 → num2 (digitChar (n / 10)) (digitChar (n % 10)) = some n := by decide

theorem dig_ne : ∀ k, k < 10 → digitChar k ≠ '-' ∧ digitChar k ≠ 'T' ∧ digitChar k ≠ ':' ∧ digitChar k ≠ '.' ∧
    digitChar k ≠ 'Z' ∧ digitChar k ≠ '+' := by decide

/-! ### `_w3c_date_to_pdf` on the groups -/

theorem pyInt_pos (h : Nat) (hh : h < 100) : pyInt ('+' :: [digitChar (h / 10), digitChar (h % 10)]) = .ok (h : Int) := by
  have := d2_val h hh
  simp only [d2] at this
  simp only [pyInt, this]
theorem pyInt_neg (h : Nat) (hh : h < 100) : pyInt ('-' :: [digitChar (h / 10), digitChar (h % 10)]) = .ok (-(h : Int)) := by
  have := d2_val h hh
  simp only [d2] at this
  simp only [pyInt, this]
theorem pyInt_plain (h : Nat) (hh : h < 100) : pyInt [digitChar (h / 10), digitChar (h % 10)] = .ok (h : Int) := by
  have := d2_val h hh
  simp only [d2] at this
  unfold pyInt
  split
  · rename_i c rest heq
    simp at heq
    have := dig_ne (h/10) (by omega)
    exact absurd heq.1 this.2.2.2.2.2
  · rename_i c rest heq
    simp at heq
    have := dig_ne (h/10) (by omega)
    exact absurd heq.1 this.1
  · rename_i c rest heq
    simp at heq
    obtain ⟨h1, h2⟩ := heq
    subst h1 h2
    simp [this]
  · rename_i heq
    simp at heq

theorem fmt_nat (n : Nat) (hn : n < 100) : fmt02d (n : Int) = [digitChar (n / 10), digitChar (n % 10)] := by
  unfold fmt02d
  rw [if_neg (by omega)]
  simp [pad2_lt n hn, d2]

theorem groups_pdf_full (year month day : Nat) (c : Clock) (hw : c.wf) :
    groupsToPdf (W3C.full year month day c).groups = .ok (W3C.full year month day c).pdf := by
  obtain ⟨hh, mm, ss, zone⟩ := c
  obtain ⟨h1, h2, h3, h4⟩ := hw
  cases zone with
  | utc =>
    cases ss with
    | none => simp [W3C.groups, groupsToPdf, dateLoop, Gen.dateKeys, Gen.dateOneKeys, Groups.get, truthy, tzSuffix, W3C.pdf, d4, d2, Zone.pdf, pad2_lt, Zone.hourGroup, Zone.minuteGroup]
    | some s => simp [W3C.groups, groupsToPdf, dateLoop, Gen.dateKeys, Groups.get, truthy, tzSuffix, W3C.pdf, d4, d2, Zone.pdf, Zone.hourGroup, Zone.minuteGroup]
  | offset neg th tm =>
    simp only [Zone.wf] at h3
    cases neg <;> cases ss <;>
      simp [W3C.groups, groupsToPdf, dateLoop, Gen.dateKeys, Gen.dateOneKeys, Groups.get, truthy, tzSuffix, W3C.pdf, d4, d2, Zone.pdf, pad2_lt,
        Zone.hourGroup, Zone.minuteGroup,
        pyInt_pos th (by omega), pyInt_neg th (by omega), pyInt_plain tm (by omega), fmt_nat th (by omega), fmt_nat tm (by omega)]

theorem groups_pdf (d : W3C) (hw : d.wf) : groupsToPdf d.groups = .ok d.pdf := by
  cases d with
  | y year => simp [W3C.groups, groupsToPdf, dateLoop, Gen.dateKeys, Groups.get, truthy, tzSuffix, W3C.pdf, d4]
  | ym year month =>
    simp [W3C.groups, groupsToPdf, dateLoop, Gen.dateKeys, Groups.get, truthy, tzSuffix, W3C.pdf, d4, d2]
  | ymd year month day =>
    simp [W3C.groups, groupsToPdf, dateLoop, Gen.dateKeys, Groups.get, truthy, tzSuffix, W3C.pdf, d4, d2]
  | full year month day c => exact groups_pdf_full year month day c hw.2.2.2

/-! ### reading the PDF date back -/

theorem num2_digits : ∀ x, x < 10 → ∀ y, y < 10 → num2 (digitChar x) (digitChar y) = some (x * 10 + y) := by decide

theorem num4_d4 (n : Nat) (hn : n < 10000) :
    num4 (digitChar (n / 1000)) (digitChar (n / 100 % 10)) (digitChar (n / 10 % 10)) (digitChar (n % 10)) = some n := by
  unfold num4
  rw [num2_digits _ (by omega) _ (by omega), num2_digits _ (by omega) _ (by omega)]
  simp only [Option.some.injEq]
  omega

theorem parse_pdf (d : W3C) (hw : d.wf) : parsePdfDate d.pdf = some d.normal := by
  cases d with
  | y year => simp [W3C.pdf, d4, parsePdfDate, num4_d4 year hw, W3C.normal]
  | ym year month =>
    simp [W3C.pdf, d4, d2, parsePdfDate, num4_d4 year hw.1, W3C.normal, d2_num2 month (by have := hw.2; omega)]
  | ymd year month day =>
    simp [W3C.pdf, d4, d2, parsePdfDate, num4_d4 year hw.1, W3C.normal, d2_num2 month (by have := hw.2.1; omega),
      d2_num2 day (by have := hw.2.2; omega)]
  | full year month day c =>
    obtain ⟨hh, mm, ss, zone⟩ := c
    obtain ⟨hy, hm, hd, h1, h2, h3, h4⟩ := hw
    simp only [] at h1 h2 h3 h4
    have key : ∀ (sv : Nat), sv < 100 →
        parsePdfDate ('D' :: ':' :: (d4 year ++ d2 month ++ d2 day ++ d2 hh ++ d2 mm ++ d2 sv ++ zone.pdf)) =
          some { year := year, month := month, day := day, hh := hh, mm := mm, ss := sv, zone := some zone } := by
      intro sv hsv
      cases zone with
      | utc =>
        simp [d4, d2, parsePdfDate, num4_d4 year hy, d2_num2 month (by omega), d2_num2 day (by omega),
          d2_num2 hh (by omega), d2_num2 mm (by omega), d2_num2 sv hsv, Zone.pdf, parseZone]
      | offset neg th tm =>
        simp only [Zone.wf] at h3
        cases neg <;>
        simp [d4, d2, parsePdfDate, num4_d4 year hy, d2_num2 month (by omega), d2_num2 day (by omega),
          d2_num2 hh (by omega), d2_num2 mm (by omega), d2_num2 sv hsv, Zone.pdf, parseZone, d2_num2 th (by omega),
          d2_num2 tm (by omega)]
    cases ss with
    | none => exact key 0 (by omega)
    | some sf =>
      obtain ⟨s, f⟩ := sf
      simp only [] at h4
      exact key s (by omega)

/-! ### the regular expression on printed dates -/

theorem skipWs_append (pre s : Str) (h : allWs pre = true) : skipWs (pre ++ s) = skipWs s := by
  induction pre with
  | nil => rfl
  | cons c cs ih =>
    simp only [allWs, Bool.and_eq_true] at h
    simp only [List.cons_append, skipWs, h.1, if_true]
    exact ih h.2

theorem ws_ne {c : Char} (h : isWs c = true) : c ≠ '-' ∧ c ≠ 'T' ∧ c ≠ ':' ∧ c ≠ 'Z' ∧ c ≠ '+' ∧ c ≠ '.' := by
  simp only [isWs, Bool.or_eq_true, beq_iff_eq] at h
  rcases h with (((h | h) | h) | h) | h <;> subst h <;> decide

theorem matchMonth_ws (g : Groups) (post : Str) (h : allWs post = true) : matchMonth g post = some g := by
  unfold matchMonth
  split
  · rename_i a b rest
    simp only [allWs, Bool.and_eq_true] at h
    exact absurd rfl (ws_ne h.1).1
  · simp [h]

theorem matchDay_ws (g : Groups) (post : Str) (h : allWs post = true) : matchDay g post = some g := by
  unfold matchDay
  split
  · rename_i a b rest
    simp only [allWs, Bool.and_eq_true] at h
    exact absurd rfl (ws_ne h.1).1
  · simp [h]

theorem matchTime_ws (g : Groups) (post : Str) (h : allWs post = true) : matchTime g post = some g := by
  unfold matchTime
  split
  · simp only [allWs, Bool.and_eq_true] at h
    exact absurd rfl (ws_ne h.1).2.1
  · simp [h]

theorem dropDigits_frac (frac : List Nat) (t : Str) (hf : ∀ k ∈ frac, k < 10)
    (ht : ∀ c rest, t = c :: rest → isDig c = false) : dropDigits (frac.map digitChar ++ t) = t := by
  induction frac with
  | nil =>
    cases t with
    | nil => rfl
    | cons c rest => simp [dropDigits, ht c rest rfl]
  | cons k ks ih =>
    simp only [List.map_cons, List.cons_append, dropDigits, dig_isDig k (hf k (by simp)), if_true]
    exact ih (fun x hx => hf x (by simp [hx]))

theorem matchTz_print (g : Groups) (z : Zone) (hz : z.wf) (post : Str) (h : allWs post = true) :
    matchTz g (z.print ++ post) = some { g with
      tzHour := z.hourGroup g.tzHour, tzMinute := z.minuteGroup g.tzMinute } := by
  cases z with
  | utc => simp [Zone.print, matchTz, h, Zone.hourGroup, Zone.minuteGroup]
  | offset neg hh mm =>
    simp only [Zone.wf] at hz
    have h1 := d2_hour hh hz.1
    have h2 := d2_sixty mm hz.2
    cases neg <;> simp [Zone.print, matchTz, d2, h, h1, h2, Zone.hourGroup, Zone.minuteGroup]

theorem zone_head_nondigit (z : Zone) (post : Str) (_hp : allWs post = true) :
    ∀ c rest, z.print ++ post = c :: rest → isDig c = false := by
  intro c rest h
  cases z with
  | utc => simp [Zone.print] at h; rw [← h.1]; decide
  | offset neg hh mm => cases neg <;> (simp [Zone.print] at h; rw [← h.1]; decide)

theorem zone_head_not_colon (z : Zone) (post : Str) : ∀ rest, z.print ++ post ≠ ':' :: rest := by
  intro rest h
  cases z with
  | utc => simp [Zone.print] at h
  | offset neg hh mm => cases neg <;> simp [Zone.print] at h

theorem matchSecond_print (g : Groups) (hg : g.second = none) (c : Clock) (hw : c.wf) (post : Str) (h : allWs post = true) :
    matchSecond g ((match c.ss with
       | none => []
       | some (s, frac) => ':' :: (d2 s ++ printFrac frac)) ++ c.zone.print ++ post) =
      some { g with
        second := c.ss.map (fun s => d2 s.1),
        tzHour := c.zone.hourGroup g.tzHour, tzMinute := c.zone.minuteGroup g.tzMinute } := by
  obtain ⟨hh, mm, ss, zone⟩ := c
  obtain ⟨_, _, hz, hs⟩ := hw
  simp only [] at hz hs ⊢
  cases ss with
  | none =>
    simp only [List.nil_append, Option.map_none]
    have : matchSecond g (zone.print ++ post) = matchTz g (zone.print ++ post) := by
      unfold matchSecond
      split
      · rename_i a b rest heq
        exact absurd heq (zone_head_not_colon zone post _)
      · rfl
    rw [this, matchTz_print g zone hz post h, hg]
  | some sf =>
    obtain ⟨s, frac⟩ := sf
    simp only [] at hs
    have h6 := d2_sixty s hs.1
    cases frac with
    | nil =>
      simp only [printFrac, List.append_nil, d2, List.cons_append, List.nil_append, matchSecond, h6, if_true,
        Option.map_some]
      -- no fraction: the rest is the zone
      have hz2 := matchTz_print { g with second := some [digitChar (s / 10), digitChar (s % 10)] } zone hz post h
      split
      · rename_i c' rest' heq
        have := zone_head_nondigit zone post h
        cases zone with
        | utc => simp [Zone.print] at heq
        | offset neg th tm => cases neg <;> simp [Zone.print] at heq
      · rw [hz2]
    | cons k ks =>
      have hk : isDig (digitChar k) = true := dig_isDig k (hs.2 k (by simp))
      simp only [printFrac, d2, List.cons_append, List.nil_append, List.append_assoc, matchSecond, h6, if_true,
        Option.map_some, List.map_cons, hk]
      rw [dropDigits_frac ks (zone.print ++ post) (fun x hx => hs.2 x (by simp [hx])) (zone_head_nondigit zone post h)]
      exact matchTz_print { g with second := some [digitChar (s / 10), digitChar (s % 10)] } zone hz post h

theorem matchTime_print (g : Groups) (hg : g.second = none) (c : Clock) (hw : c.wf) (post : Str) (h : allWs post = true) :
    matchTime g (c.print ++ post) = some { g with
        hour := some (d2 c.hh), minute := some (d2 c.mm),
        second := c.ss.map (fun s => d2 s.1),
        tzHour := c.zone.hourGroup g.tzHour, tzMinute := c.zone.minuteGroup g.tzMinute } := by
  have h1 := d2_hour c.hh hw.1
  have h2 := d2_sixty c.mm hw.2.1
  have := matchSecond_print { g with hour := some (d2 c.hh), minute := some (d2 c.mm) } hg c hw post h
  simp only [Clock.print, d2, List.cons_append, List.nil_append, List.append_assoc, matchTime, h1, h2, Bool.and_self, if_true] at this ⊢
  exact this

theorem match_print (d : W3C) (hw : d.wf) (pre post : Str) (hpre : allWs pre = true) (hpost : allWs post = true) :
    matchW3C (pre ++ d.print ++ post) = some d.groups := by
  have hy : ∀ year, year < 10000 → ∀ rest, matchW3C (pre ++ (d4 year ++ rest)) = matchMonth { year := some (d4 year) } rest := by
    intro year hyr rest
    unfold matchW3C
    rw [skipWs_append pre _ hpre]
    simp only [d4, List.cons_append, List.nil_append, skipWs, dig_notWs _ (show year / 1000 < 10 by omega), Bool.false_eq_true, if_false,
      dig_isDig _ (show year / 1000 < 10 by omega), dig_isDig _ (show year / 100 % 10 < 10 by omega),
      dig_isDig _ (show year / 10 % 10 < 10 by omega), dig_isDig _ (show year % 10 < 10 by omega), Bool.and_self, if_true]
  cases d with
  | y year =>
    simp only [W3C.print, List.append_assoc, W3C.groups]
    rw [hy year hw, matchMonth_ws _ post hpost]
  | ym year month =>
    simp only [W3C.print, List.append_assoc, W3C.groups, List.cons_append]
    rw [hy year hw.1]
    simp only [d2, List.cons_append, List.nil_append, matchMonth, d2_month month hw.2, if_true]
    rw [matchDay_ws _ post hpost]
  | ymd year month day =>
    simp only [W3C.print, List.append_assoc, W3C.groups, List.cons_append]
    rw [hy year hw.1]
    simp only [d2, List.cons_append, List.nil_append, matchMonth, d2_month month hw.2.1, if_true, matchDay, d2_day day hw.2.2]
    rw [matchTime_ws _ post hpost]
  | full year month day c =>
    simp only [W3C.print, List.append_assoc, W3C.groups, List.cons_append]
    rw [hy year hw.1]
    simp only [d2, List.cons_append, List.nil_append, matchMonth, d2_month month hw.2.1, if_true, matchDay, d2_day day hw.2.2.1]
    have := matchTime_print { year := some (d4 year), month := some (d2 month), day := some (d2 day) } rfl c hw.2.2.2 post hpost
    simp only [d2] at this
    rw [this]

end Wp.C18
