/-
Geometry of the paragraph part of PM: placed lines fit on the page (unless first on an empty page),
and are stacked by `lineH`.
-/
import WpModel.Lemmas.ParaLines

namespace Wp.PM
open Wp

theorem overflows_mono (b y y' : Rat) (h : y ≤ y') (ho : overflows b y = true) : overflows b y' = true := by
  unfold overflows at *
  simp only [decide_eq_true_eq] at *
  grind

theorem not_overflowsPage_of_le (c : Ctx) (bs y y' : Rat) (h : y ≤ y') (ho : c.overflowsPage bs y' = false) :
    c.overflowsPage bs y = false := by
  cases hy : c.overflowsPage bs y with
  | false => rfl
  | true =>
    unfold Ctx.overflowsPage at *
    have := overflows_mono _ _ _ h hy
    rw [this] at ho
    cases ho

/-- A placed line either was the first line placed while the page was empty, or ends above the bottom
of the page area. -/
def LineFits (c : Ctx) (bs lineH : Rat) (pie : Bool) (k : Nat) (p : Nat × Rat) : Prop :=
  (pie = true ∧ p.1 = k) ∨ c.overflowsPage bs (p.2 + lineH) = false

theorem breakLine_lines_sub (st : PStyle) (n i : Nat) (lines : List (Nat × Rat)) (pie : Bool)
    (skip resume : Option Resume) : ∀ p ∈ (breakLine st n i lines pie skip resume).2.2.2, p ∈ lines := by
  obtain ⟨m, _, hl⟩ := breakLine_lines st n i lines pie skip resume
  rw [hl]
  intro p hp
  exact List.mem_of_mem_take hp

theorem lineLoop_fits (c : Ctx) (st : PStyle) (b : BoxSt) (n : Nat) (lineH : Rat) (pie : Bool) (bs : Rat)
    (k : Nat) (fuel i : Nat) (y : Rat) (s : LineLoop) (hdeco : 0 ≤ b.bb + b.pb)
    (hfirst : s.lines = [] → i = k) (hs : ∀ p ∈ s.lines, LineFits c bs lineH pie k p) :
    ∀ p ∈ outLines (lineLoop c st b n lineH pie bs fuel i y s), LineFits c bs lineH pie k p := by
  fun_induction lineLoop c st b n lineH pie bs fuel i y s with
  | case1 i y s => simpa [outLines] using hs
  | case2 fuel i y s resume newPosY dbd offset overflow hov abort stop r lines' hb =>
    intro p hp
    simp only [outLines] at hp
    have hsub := breakLine_lines_sub st n i s.lines pie s.skip resume
    rw [hb] at hsub
    exact hs p (hsub p hp)
  | case3 fuel i y s resume newPosY dbd offset overflow hov shift newPosY' lineY mt' ih =>
    apply ih
    · intro h; simp at h
    · intro p hp
      rcases List.mem_append.mp hp with hp | hp
      · exact hs p hp
      · simp only [List.mem_singleton] at hp
        subst hp
        -- the line just placed
        have hoff : 0 ≤ offset := by
          show 0 ≤ (if dbd = true then b.bb + b.pb else 0)
          split
          · exact hdeco
          · exact Rat.le_refl
        by_cases hfirstLine : s.lines = [] ∧ pie = true
        · left
          exact ⟨hfirstLine.2, hfirst hfirstLine.1⟩
        · right
          -- some line was placed before, or the page was not empty: the overflow test was made and failed
          have hcond : (!s.lines.isEmpty || !pie) = true := by
            cases hl : s.lines with
            | nil =>
              have : pie = false := by
                cases hp : pie with
                | false => rfl
                | true => exact absurd ⟨hl, hp⟩ hfirstLine
              simp [this]
            | cons a l => simp
          have hno : c.overflowsPage bs (newPosY + offset) = false := by
            have : overflow = false := by simpa using hov
            have h2 : ((!s.lines.isEmpty || !pie) && c.overflowsPage bs (newPosY + offset)) = false := this
            rw [hcond] at h2
            simpa using h2
          have hno' : c.overflowsPage bs newPosY = false :=
            not_overflowsPage_of_le c bs _ _ (by grind) hno
          have hshift : shift = false := by
            show (pie && c.overflowsPage bs newPosY) = false
            rw [hno']; simp
          show c.overflowsPage bs (lineY + lineH) = false
          have : lineY = y := by
            show (if shift = true then y - s.mt else y) = y
            rw [hshift]; simp
          rw [this]
          exact hno'

/-- Lines are stacked by `lineH`: the line numbered `j` (other than the first of this call, which may
have been translated by the tall-first-line rule) sits at `y0 + (j − k)·lineH`. -/
theorem lineLoop_stack (c : Ctx) (st : PStyle) (b : BoxSt) (n : Nat) (lineH : Rat) (pie : Bool) (bs : Rat)
    (k : Nat) (y0 : Rat) (fuel i : Nat) (y : Rat) (s : LineLoop) (hdeco : 0 ≤ b.bb + b.pb)
    (hfirst : s.lines = [] → i = k)
    (hy : y = y0 + ((i : Rat) - (k : Rat)) * lineH)
    (hs : ∀ p ∈ s.lines, p.1 ≠ k → p.2 = y0 + ((p.1 : Rat) - (k : Rat)) * lineH) :
    ∀ p ∈ outLines (lineLoop c st b n lineH pie bs fuel i y s),
      p.1 ≠ k → p.2 = y0 + ((p.1 : Rat) - (k : Rat)) * lineH := by
  fun_induction lineLoop c st b n lineH pie bs fuel i y s with
  | case1 i y s => simpa [outLines] using hs
  | case2 fuel i y s resume newPosY dbd offset overflow hov abort stop r lines' hb =>
    intro p hp
    simp only [outLines] at hp
    have hsub := breakLine_lines_sub st n i s.lines pie s.skip resume
    rw [hb] at hsub
    exact hs p (hsub p hp)
  | case3 fuel i y s resume newPosY dbd offset overflow hov shift newPosY' lineY mt' ih =>
    apply ih
    · intro h; simp at h
    · rw [hy]; push_cast; grind
    · intro p hp hne
      rcases List.mem_append.mp hp with hp | hp
      · exact hs p hp hne
      · simp only [List.mem_singleton] at hp
        subst hp
        simp only at hne ⊢
        -- only the first line of the call can be translated (tall first line on an empty page)
        have hoff : 0 ≤ offset := by
          show 0 ≤ (if dbd = true then b.bb + b.pb else 0)
          split
          · exact hdeco
          · exact Rat.le_refl
        have hshift : shift = false := by
          cases hsh : shift with
          | false => rfl
          | true =>
            exfalso
            have h1 : (pie && c.overflowsPage bs newPosY) = true := hsh
            simp only [Bool.and_eq_true] at h1
            have hov' : ((!s.lines.isEmpty || !pie) && c.overflowsPage bs (newPosY + offset)) = false := by
              have : overflow = false := by simpa using hov
              exact this
            have hbig : c.overflowsPage bs (newPosY + offset) = true := by
              unfold Ctx.overflowsPage at *
              exact overflows_mono _ _ _ (by grind) h1.2
            rw [hbig, h1.1] at hov'
            simp only [Bool.not_true, Bool.or_false, Bool.and_true, Bool.not_eq_false'] at hov'
            have : s.lines = [] := by simpa using hov'
            exact hne (hfirst this)
        show (if shift = true then y - s.mt else y) = _
        rw [hshift, hy]
        simp

end Wp.PM
