/-
Conservation for *every* document (fixed heights allowed): definitions.
`freeFrom` = the lines with no fixed-height ancestor-or-self; `SandT` = "what is shown is sandwiched between
the free lines and all lines"; `PartT` = structural shape of a fragment ("complete unless under a fixed
height").
-/
import WpModel.Lemmas.Segment

namespace Wp.PM
open Wp

def fixedSt (st : PStyle) : Bool := st.height.isSome

mutual
/-- The lines at / after a resume position that have no ancestor-or-self box with a fixed `height`. -/
def freeFrom : PBox → Option Resume → List (Nat × Nat)
  | .para id n _ st, σ => if fixedSt st then [] else paraLines id (paraStart σ) n
  | .block _ st kids, σ => if fixedSt st then [] else freeFromKids kids (skipIdxOf σ) (subSkipOf σ)
def freeFromKids : List PBox → Nat → Option Resume → List (Nat × Nat)
  | [], _, _ => []
  | b :: bs, 0, sub => freeFrom b sub ++ freeFromKids bs 0 none
  | _ :: bs, k + 1, sub => freeFromKids bs k sub
end

theorem freeFromKids_nil (k : Nat) (s : Option Resume) : freeFromKids [] k s = [] := by
  simp [freeFromKids]

theorem freeFromKids_append_lt (B R : List PBox) (m : Nat) (s : Option Resume) (h : m < B.length) :
    freeFromKids (B ++ R) m s = freeFromKids B m s ++ freeFromKids R 0 none := by
  induction B generalizing m s with
  | nil => simp at h
  | cons b B ih =>
    cases m with
    | zero =>
      simp only [List.cons_append, freeFromKids, List.append_assoc]
      cases B with
      | nil => simp [freeFromKids]
      | cons b' B' => rw [ih 0 none (by simp)]
    | succ m =>
      simp only [List.cons_append, freeFromKids]
      exact ih m s (by simpa using h)

theorem freeFromKids_append_len (B R : List PBox) (k : Nat) (s : Option Resume) :
    freeFromKids (B ++ R) (B.length + k) s = freeFromKids R k s := by
  induction B with
  | nil => simp
  | cons b B ih =>
    have : (b :: B).length + k = (B.length + k) + 1 := by simp; omega
    rw [this]
    simp only [List.cons_append, freeFromKids]
    exact ih

theorem freeFromKids_drop (kids : List PBox) (k0 m : Nat) (s : Option Resume) :
    freeFromKids kids (k0 + m) s = freeFromKids (kids.drop k0) m s := by
  induction kids generalizing k0 with
  | nil => simp [freeFromKids]
  | cons b bs ih =>
    cases k0 with
    | zero => simp
    | succ k0 =>
      have : k0 + 1 + m = (k0 + m) + 1 := by omega
      rw [this]
      simp only [freeFromKids, List.drop_succ_cons]
      exact ih k0

theorem freeFromKids_append_zero (B R : List PBox) (sub0 : Option Resume) :
    freeFromKids (B ++ R) 0 sub0 =
      freeFromKids B 0 sub0 ++ freeFromKids R 0 (if B = [] then sub0 else none) := by
  cases B with
  | nil => simp [freeFromKids]
  | cons b B => rw [freeFromKids_append_lt _ _ _ _ (by simp)]; simp

theorem linesFromKids_append_zero' (B R : List PBox) (sub0 : Option Resume) :
    linesFromKids (B ++ R) 0 sub0 =
      linesFromKids B 0 sub0 ++ linesFromKids R 0 (if B = [] then sub0 else none) := by
  cases B with
  | nil => simp [linesFromKids]
  | cons b B => rw [linesFromKids_append_lt _ _ _ _ (by simp)]; simp

/-! ### the sandwich relation -/

/-- `A` = lines shown, `Y` / `Yf` = all / free lines left, `X` / `Xf` = all / free lines asked for:
everything shown or left was asked for, in order (`A ++ Y ⊑ X`); and — outside a fixed-height box
(`fl = false`) — every free line asked for is shown or left (`Xf ⊑ A ++ Yf`). -/
def SandT (fl : Bool) (A Y Yf X Xf : List (Nat × Nat)) : Prop :=
  (fl = false → Xf.Sublist (A ++ Yf)) ∧ (A ++ Y).Sublist X

theorem sandT_whole (fl : Bool) (A X Xf : List (Nat × Nat)) (h1 : fl = false → Xf.Sublist A) (h2 : A.Sublist X) :
    SandT fl A [] [] X Xf := by
  constructor
  · intro h; simpa using h1 h
  · simpa using h2

theorem sandT_rest (fl : Bool) (X Xf : List (Nat × Nat)) : SandT fl [] X Xf X Xf :=
  ⟨fun _ => by simp, by simp⟩

theorem sandT_whole_append (fl : Bool) (A1 X1 X1f A2 Y Yf X2 X2f : List (Nat × Nat))
    (h1 : fl = false → X1f.Sublist A1) (h2 : A1.Sublist X1) (h : SandT fl A2 Y Yf X2 X2f) :
    SandT fl (A1 ++ A2) Y Yf (X1 ++ X2) (X1f ++ X2f) := by
  constructor
  · intro hf
    rw [List.append_assoc]
    exact (h1 hf).append (h.1 hf)
  · rw [List.append_assoc]
    exact h2.append h.2

theorem sandT_frame (fl : Bool) (A Y Yf X Xf Z Zf : List (Nat × Nat)) (h : SandT fl A Y Yf X Xf) :
    SandT fl A (Y ++ Z) (Yf ++ Zf) (X ++ Z) (Xf ++ Zf) := by
  constructor
  · intro hf
    rw [← List.append_assoc]
    exact (h.1 hf).append (List.Sublist.refl _)
  · rw [← List.append_assoc]
    exact h.2.append (List.Sublist.refl _)

theorem sandT_trans (fl : Bool) (A Y Yf X Xf A' Y' Yf' : List (Nat × Nat)) (h : SandT fl A Y Yf X Xf)
    (h' : SandT fl A' Y' Yf' Y Yf) : SandT fl (A ++ A') Y' Yf' X Xf := by
  constructor
  · intro hf
    rw [List.append_assoc]
    exact (h.1 hf).trans ((List.Sublist.refl A).append (h'.1 hf))
  · rw [List.append_assoc]
    exact ((List.Sublist.refl A).append h'.2).trans h.2

theorem sandT_weaken (fl : Bool) (A Y Yf X Xf : List (Nat × Nat)) (h : SandT fl A Y Yf X Xf) :
    SandT true A Y Yf X Xf := ⟨fun hf => (by cases hf), h.2⟩

/-! ### hypotheses -/

mutual
theorem wf_drop_aux : (b : PBox) → Good b → WellFormed b
  | .para _ _ _ _ => by intro h; simp only [Good] at h; simp only [WellFormed]; exact h.2
  | .block _ _ kids => by intro h; simp only [Good] at h; simp only [WellFormed]; exact wfList_drop_aux kids h.2
theorem wfList_drop_aux : (bs : List PBox) → GoodList bs → WellFormedList bs
  | [] => by intro _; simp [WellFormedList]
  | b :: bs => by
    intro h; simp only [GoodList] at h; simp only [WellFormedList]
    exact ⟨wf_drop_aux b h.1, wfList_drop_aux bs h.2⟩
end

theorem wfList_drop (bs : List PBox) (k : Nat) (h : WellFormedList bs) : WellFormedList (bs.drop k) := by
  induction bs generalizing k with
  | nil => simpa using h
  | cons b bs ih =>
    cases k with
    | zero => simpa using h
    | succ k =>
      simp only [WellFormedList] at h
      simpa using ih k h.2

theorem wfList_append (B R : List PBox) (hB : WellFormedList B) (hR : WellFormedList R) :
    WellFormedList (B ++ R) := by
  induction B with
  | nil => simpa using hR
  | cons b B ih =>
    simp only [WellFormedList] at hB
    simp only [List.cons_append, WellFormedList]
    exact ⟨hB.1, ih hB.2⟩

/-! ### structural shape of a fragment: complete unless under a fixed height -/

mutual
/-- `PartT f b σ fl`: `f` is a fragment of `b` started at `σ`; when neither an ancestor (`fl`) nor a box on the
way has a fixed height it is the complete rest of `b`; otherwise paragraphs may hold fewer (consecutive)
lines and blocks fewer children. -/
def PartT : Frag → PBox → Option Resume → Bool → Prop
  | .para id _ st n _ lines, b, σ, fl =>
    match b with
    | .para id' n' _ st' => id = id' ∧ n = n' ∧ st = st' ∧
        ∃ m, lines.map Prod.fst = List.range' (paraStart σ) m ∧ paraStart σ + m ≤ max n' (paraStart σ) ∧
          ((fl || fixedSt st') = false → m = n' - paraStart σ)
    | .block _ _ _ => False
  | .block _ _ _ _ fs, b, σ, fl =>
    match b with
    | .block _ st' kids =>
      PartFromT fs (kids.drop (skipIdxOf σ)) (skipIdxOf σ) (subSkipOf σ) (fl || fixedSt st')
    | .para _ _ _ _ => False
def PartFromT : List Frag → List PBox → Nat → Option Resume → Bool → Prop
  | [], bs, _, _, fl => fl = true ∨ bs = []
  | f :: fs, bs, i, sub, fl =>
    match bs with
    | [] => False
    | b :: bs' => PartT f b sub fl ∧ f.idx = i ∧ PartFromT fs bs' (i + 1) none fl
end

theorem partT_withIdx (f : Frag) (i : Nat) (b : PBox) (σ : Option Resume) (fl : Bool) (h : PartT f b σ fl) :
    PartT (f.withIdx i) b σ fl := by
  cases f <;> cases b <;> simp only [Frag.withIdx, PartT] at h ⊢ <;> exact h

theorem partT_cutEnd (f : Frag) (b : PBox) (σ : Option Resume) (fl : Bool) (h : PartT f b σ fl) :
    PartT f.cutEnd b σ fl := by
  cases f <;> cases b <;> simp only [Frag.cutEnd, PartT] at h ⊢ <;> exact h

mutual
theorem partT_mono : (f : Frag) → ∀ b σ fl, PartT f b σ fl → PartT f b σ true
  | .para id idx st n g lines, b, σ, fl => by
    intro h
    cases b with
    | block _ _ _ => simp [PartT] at h
    | para id' n' lh st' =>
      simp only [PartT] at h ⊢
      obtain ⟨h1, h2, h3, m, h4, h5, _⟩ := h
      exact ⟨h1, h2, h3, m, h4, h5, by simp⟩
  | .block id idx st g fs, b, σ, fl => by
    intro h
    cases b with
    | para _ _ _ _ => simp [PartT] at h
    | block id' st' kids =>
      simp only [PartT] at h ⊢
      simpa using partFromT_mono fs _ _ _ _ h
theorem partFromT_mono : (fs : List Frag) → ∀ bs i sub fl, PartFromT fs bs i sub fl → PartFromT fs bs i sub true
  | [], bs, i, sub, fl => by intro _; simp [PartFromT]
  | f :: fs, bs, i, sub, fl => by
    intro h
    cases bs with
    | nil => simp [PartFromT] at h
    | cons b bs' =>
      simp only [PartFromT] at h ⊢
      exact ⟨partT_mono f b sub fl h.1, h.2.1, partFromT_mono fs bs' (i + 1) none fl h.2.2⟩
end

/-- Extending the list of boxes (and forgetting completeness). -/
theorem partFromT_extend (fs : List Frag) (B R : List PBox) (i : Nat) (sub : Option Resume) (fl : Bool)
    (h : PartFromT fs B i sub fl) : PartFromT fs (B ++ R) i sub true := by
  induction fs generalizing B i sub with
  | nil => simp [PartFromT]
  | cons f fs ih =>
    cases B with
    | nil => simp [PartFromT] at h
    | cons b B' =>
      simp only [PartFromT] at h
      simp only [List.cons_append, PartFromT]
      exact ⟨partT_mono f b sub fl h.1, h.2.1, ih B' (i + 1) none h.2.2⟩

theorem partFromT_snoc (fs : List Frag) (B : List PBox) (i : Nat) (sub : Option Resume) (fl : Bool) (f : Frag)
    (b : PBox) (h : PartFromT fs B i sub fl) (hlen : fs.length = B.length)
    (hf : PartT f b (if B = [] then sub else none) fl) (hi : f.idx = i + B.length) :
    PartFromT (fs ++ [f]) (B ++ [b]) i sub fl := by
  induction fs generalizing B i sub with
  | nil =>
    have : B = [] := by cases B with
      | nil => rfl
      | cons _ _ => simp at hlen
    subst this
    simp only [List.nil_append, PartFromT]
    simp at hf hi
    refine ⟨hf, hi, ?_⟩
    simp
  | cons x xs ih =>
    cases B with
    | nil => simp at hlen
    | cons b0 B =>
      simp only [PartFromT] at h
      simp only [List.cons_append, PartFromT]
      refine ⟨h.1, h.2.1, ?_⟩
      apply ih B (i + 1) none h.2.2 (by simpa using hlen)
      · simp at hf
        split <;> exact hf
      · simp at hi; omega

theorem paraLines_range_sub (id k m n : Nat) (h : k + m ≤ max n k) :
    ((List.range' k m).map (fun i => (id, i))).Sublist (paraLines id k n) := by
  unfold paraLines
  apply List.Sublist.map
  have hm : m ≤ n - k := by omega
  have : List.range' k (n - k) = List.range' k m ++ List.range' (k + m) (n - k - m) := by
    have := @List.range'_append k m (n - k - m) 1
    simp only [Nat.one_mul] at this
    rw [this]; congr 1; omega
  rw [this]
  exact List.sublist_append_left _ _

mutual
/-- Upper half: what a fragment shows is a sub-list of what its box holds from the start position. -/
theorem partT_sub : (f : Frag) → ∀ b σ fl, PartT f b σ fl → (fragLines f).Sublist (linesFrom b σ)
  | .para id idx st n g lines, b, σ, fl => by
    intro h
    cases b with
    | block _ _ _ => simp [PartT] at h
    | para id' n' lh st' =>
      simp only [PartT] at h
      obtain ⟨rfl, rfl, rfl, m, h4, h5, _⟩ := h
      simp only [fragLines, linesFrom]
      have : lines.map (fun l => (id, l.1)) = (List.range' (paraStart σ) m).map (fun i => (id, i)) := by
        rw [← h4, List.map_map]; rfl
      rw [this]
      exact paraLines_range_sub _ _ _ _ h5
  | .block id idx st g fs, b, σ, fl => by
    intro h
    cases b with
    | para _ _ _ _ => simp [PartT] at h
    | block id' st' kids =>
      simp only [PartT] at h
      simp only [fragLines, linesFrom]
      have := partFromT_sub fs _ _ _ _ h
      have hd := linesFromKids_drop kids (skipIdxOf σ) 0 (subSkipOf σ)
      simp only [Nat.add_zero] at hd
      rw [hd]; exact this
theorem partFromT_sub : (fs : List Frag) → ∀ bs i sub fl, PartFromT fs bs i sub fl →
    (fragLinesList fs).Sublist (linesFromKids bs 0 sub)
  | [], bs, i, sub, fl => by intro _; simp [fragLinesList]
  | f :: fs, bs, i, sub, fl => by
    intro h
    cases bs with
    | nil => simp [PartFromT] at h
    | cons b bs' =>
      simp only [PartFromT] at h
      simp only [fragLinesList, linesFromKids]
      exact (partT_sub f b sub fl h.1).append (partFromT_sub fs bs' (i + 1) none fl h.2.2)
end

mutual
/-- Lower half: outside fixed heights, a complete fragment shows every free line of its box. -/
theorem partT_free : (f : Frag) → ∀ b σ, PartT f b σ false → (freeFrom b σ).Sublist (fragLines f)
  | .para id idx st n g lines, b, σ => by
    intro h
    cases b with
    | block _ _ _ => simp [PartT] at h
    | para id' n' lh st' =>
      simp only [PartT] at h
      obtain ⟨rfl, rfl, rfl, m, h4, _, h6⟩ := h
      simp only [fragLines, freeFrom]
      cases hfx : fixedSt st with
      | true => simp
      | false =>
        simp only [Bool.false_eq_true, ↓reduceIte]
        have hm := h6 (by simp [hfx])
        subst hm
        rw [paraLines_eq id _ _ lines h4]
        exact List.Sublist.refl _
  | .block id idx st g fs, b, σ => by
    intro h
    cases b with
    | para _ _ _ _ => simp [PartT] at h
    | block id' st' kids =>
      simp only [PartT] at h
      simp only [fragLines, freeFrom]
      cases hfx : fixedSt st' with
      | true => simp
      | false =>
        simp only [Bool.false_eq_true, ↓reduceIte]
        rw [hfx] at h
        have := partFromT_free fs _ _ _ h
        have hd := freeFromKids_drop kids (skipIdxOf σ) 0 (subSkipOf σ)
        simp only [Nat.add_zero] at hd
        rw [hd]; exact this
theorem partFromT_free : (fs : List Frag) → ∀ bs i sub, PartFromT fs bs i sub false →
    (freeFromKids bs 0 sub).Sublist (fragLinesList fs)
  | [], bs, i, sub => by
    intro h
    simp only [PartFromT] at h
    rcases h with h | h
    · cases h
    · subst h; simp [freeFromKids]
  | f :: fs, bs, i, sub => by
    intro h
    cases bs with
    | nil => simp [PartFromT] at h
    | cons b bs' =>
      simp only [PartFromT] at h
      simp only [fragLinesList, freeFromKids]
      exact (partT_free f b sub h.1).append (partFromT_free fs bs' (i + 1) none h.2.2)
end

/-- Both halves at once, in `SandT` form. -/
theorem partT_sand (f : Frag) (b : PBox) (σ : Option Resume) (fl : Bool) (h : PartT f b σ fl) :
    SandT fl (fragLines f) [] [] (linesFrom b σ) (freeFrom b σ) := by
  apply sandT_whole
  · intro hf; subst hf; exact partT_free f b σ h
  · exact partT_sub f b σ fl h

theorem partFromT_length_le (fs : List Frag) (bs : List PBox) (i : Nat) (sub : Option Resume) (fl : Bool)
    (h : PartFromT fs bs i sub fl) : fs.length ≤ bs.length := by
  induction fs generalizing bs i sub with
  | nil => simp
  | cons f fs ih =>
    cases bs with
    | nil => simp [PartFromT] at h
    | cons b bs =>
      simp only [PartFromT] at h
      have := ih bs _ _ h.2.2
      simp; omega

end Wp.PM
