/-
What `find_earlier_page_break` really guarantees: a declarative description of the legal break points among
already laid-out sibling fragments (`HasBreakList`), and the proof that `findEarlierGo` finds a break exactly
when one exists.
-/
import WpModel.Lemmas.Pm2Break

namespace Wp.PM
open Wp

/-- `find_earlier_page_break` on the line boxes of a paragraph fragment succeeds iff `widows` lines can be
sent to the next page while `orphans` (and at least one) lines stay. -/
def paraHasBreak (st : PStyle) (lines : List (Nat × Rat)) : Prop :=
  st.widows + max st.orphans 1 ≤ lines.length

mutual
/-- There is a legal page-break opportunity inside the fragment. -/
def HasBreakIn : Frag → Prop
  | .para _ _ st _ _ lines => paraHasBreak st lines
  | .block _ _ _ _ kids => HasBreakList kids
/-- There is a legal page-break opportunity among / inside the sibling fragments: between two of them when the
values meeting there do not resolve to `avoid` / `avoid-page`, or inside one whose `break-inside` is not
`avoid` / `avoid-page`. (Never after the last one.) -/
def HasBreakList : List Frag → Prop
  | [] => False
  | x :: rest => HasBreakList rest ∨
      (∃ y, rest.head? = some y ∧ avoidsPage (breakBetweenFrags x (some y)) = false) ∨
      (avoidsPage x.st.brkInside = false ∧ HasBreakIn x)
end

theorem findEarlierPara_isSome (id idx : Nat) (st : PStyle) (n : Nat) (g : Geo) (lines : List (Nat × Rat)) :
    (findEarlierPara id idx st n g lines).isSome = true ↔ paraHasBreak st lines := by
  unfold findEarlierPara paraHasBreak
  cases hl : lines with
  | nil => simp
  | cons l ls =>
    simp only [List.isEmpty_cons, Bool.false_eq_true, ↓reduceIte, List.length_cons]
    split
    · rename_i hlt
      simp only [Option.isSome_none, Bool.false_eq_true, false_iff]
      omega
    · rename_i hge
      have htake : ((l :: ls).take ((↑(ls.length + 1) : Int) - ↑st.widows).toNat).length =
          min ((↑(ls.length + 1) : Int) - ↑st.widows).toNat (ls.length + 1) := by simp
      cases hk : ((l :: ls).take ((↑(ls.length + 1) : Int) - ↑st.widows).toNat).getLast? with
      | none =>
        rw [List.getLast?_eq_none_iff] at hk
        rw [hk] at htake
        simp only [List.length_nil] at htake
        simp only [Option.isSome_none, Bool.false_eq_true, false_iff]
        omega
      | some a =>
        have hne : ((l :: ls).take ((↑(ls.length + 1) : Int) - ↑st.widows).toNat) ≠ [] := by
          intro he; rw [he] at hk; cases hk
        have hpos : 0 < ((l :: ls).take ((↑(ls.length + 1) : Int) - ↑st.widows).toNat).length :=
          List.length_pos_iff.mpr hne
        rw [htake] at hpos
        simp only [Option.isSome_some, true_iff]
        omega

mutual
theorem findEarlierGo_isSome : (fs : List Frag) → ((findEarlierGo fs).found.isSome = true ↔ HasBreakList fs)
  | [] => by simp [findEarlierGo, HasBreakList]
  | x :: xs => by
    have ih := findEarlierGo_isSome xs
    rw [findEarlierGo, HasBreakList]
    dsimp only
    split
    · rename_i kept r hfound
      rw [hfound] at ih
      simp only [Option.isSome_some, true_iff]
      exact Or.inl (ih.mp rfl)
    · rename_i hnone
      have hno : ¬ HasBreakList xs := by
        intro h; have := ih.mpr h; rw [hnone] at this; cases this
      have hprev := findEarlierGo_prev xs hnone
      rw [hprev]
      split
      · rename_i p hba
        simp only [Option.isSome_some, true_iff]
        right; left
        split at hba
        · rename_i p' hp'
          split at hba
          · rename_i hav
            simp only [Option.some.injEq] at hba
            exact ⟨p', hp', by rw [hp'] at hav; simpa using hav⟩
          · cases hba
        · cases hba
      · rename_i hba
        have hnob : ¬ ∃ y, xs.head? = some y ∧ avoidsPage (breakBetweenFrags x (some y)) = false := by
          rintro ⟨y, hy, hav⟩
          rw [hy] at hba
          simp [hav] at hba
        have hin := findEarlierFrag_isSome x
        split
        · rename_i hav
          have hav' : avoidsPage x.st.brkInside = false := by simpa using hav
          split
          · rename_i x' r hfe
            rw [hfe] at hin
            simp only [Option.isSome_some, true_iff]
            exact Or.inr (Or.inr ⟨hav', hin.mp rfl⟩)
          · rename_i hfe
            rw [hfe] at hin
            simp only [Option.isSome_none, Bool.false_eq_true, false_iff]
            rintro (h | h | h)
            · exact hno h
            · exact hnob h
            · have := hin.mpr h.2; cases this
        · rename_i hav
          simp only [Option.isSome_none, Bool.false_eq_true, false_iff]
          rintro (h | h | h)
          · exact hno h
          · exact hnob h
          · rw [h.1] at hav; simp at hav
theorem findEarlierFrag_isSome : (x : Frag) → ((findEarlierFrag x).isSome = true ↔ HasBreakIn x)
  | .para id idx st n g lines => by
    simp only [findEarlierFrag, HasBreakIn]
    exact findEarlierPara_isSome id idx st n g lines
  | .block id idx st g kids => by
    have ih := findEarlierGo_isSome kids
    simp only [findEarlierFrag, HasBreakIn]
    split
    · rename_i kids' r hfound
      rw [hfound] at ih
      simp only [Option.isSome_some, true_iff]
      exact ih.mp rfl
    · rename_i hnone
      rw [hnone] at ih
      simp only [Option.isSome_none, Bool.false_eq_true, false_iff]
      intro h; have := ih.mpr h; cases this
end

theorem findEarlierList_isSome (fs : List Frag) : (findEarlierList fs).isSome = true ↔ HasBreakList fs :=
  findEarlierGo_isSome fs

end Wp.PM
