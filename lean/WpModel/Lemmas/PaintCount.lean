/-
C17 helper development (no Mathlib): paint-once for *every* kind of item — backgrounds, borders, text,
outlines, column backgrounds, replaced content — and exception-freedom, by one induction.

A selector `Sel` says how many of the items it is interested in each primitive of the drawing code
emits (`draw_background`, `draw_border`, `draw_text`, one outline, one replaced box, the collapsed
borders of a table, a raised exception).  For a well-formed dispatched structure (`okCtx`: block /
line / inline / atomic-inline / table grammar, painted root classes, `blocks` / `blocks_and_cells` as
built by the dispatcher) the display list of `draw_stacking_context` contains, for every selector,
exactly the number of items the boxes of the structure are due (`expN`), none below a singular
transform.
-/
import WpModel.Lemmas.PaintOnce

set_option linter.unusedSimpArgs false
set_option linter.unusedVariables false

namespace Wp.Stacking
open Wp Wp.Gen

/-- What a primitive contributes to the count of interest. -/
structure Sel where
  pick : Item → Bool
  bg : Role → Nat → Option (Option Nat) → Nat
  border : Attrs → Nat
  text : Attrs → Nat
  outline : Attrs → Nat
  repl : Attrs → Nat
  collapsed : Attrs → Nat
  h_bg : ∀ role id b cb e, (drawBackground role id b cb e).countP pick = bg role id b
  h_border : ∀ a e, (drawBorder a e).countP pick = border a
  h_text : ∀ a e, (drawText a e).countP pick = text a
  h_outline : ∀ a e, (ownOutline a e).countP pick = outline a
  h_repl : ∀ a e, (drawReplaced a e).countP pick = repl a
  h_collapsed : ∀ a e, [Item.paint .collapsedBorders a.id 0 e].countP pick = collapsed a

namespace Sel
variable (s : Sel)

def cnt (l : List Item) : Nat := l.countP s.pick

@[simp] theorem cnt_nil : s.cnt [] = 0 := rfl
@[simp] theorem cnt_append (l m : List Item) : s.cnt (l ++ m) = s.cnt l + s.cnt m := by
  simp [cnt, List.countP_append]

theorem cnt_flatMap {α} (l : List α) (f : α → List Item) :
    s.cnt (l.flatMap f) = (l.map (fun x => s.cnt (f x))).sum := by
  induction l with
  | nil => rfl
  | cons x xs ih => simp [List.flatMap_cons, ih]

theorem bg_none (role : Role) (id : Nat) : s.bg role id none = 0 := by
  rw [← s.h_bg role id none true {}]; rfl

theorem bg_transparent (role : Role) (id : Nat) : s.bg role id (some none) = 0 := by
  rw [← s.h_bg role id (some none) true {}]; rfl

theorem border_none (a : Attrs) (h : a.border = none) : s.border a = 0 := by
  rw [← s.h_border a {}]
  unfold drawBorder
  split
  · rfl
  · simp [h]

theorem cnt_drawBackground (role : Role) (id : Nat) (b : Option (Option Nat)) (cb : Bool) (e : Env) :
    s.cnt (drawBackground role id b cb e) = s.bg role id b := s.h_bg role id b cb e
theorem cnt_drawBorder (a : Attrs) (e : Env) : s.cnt (drawBorder a e) = s.border a := s.h_border a e
theorem cnt_drawText (a : Attrs) (e : Env) : s.cnt (drawText a e) = s.text a := s.h_text a e
theorem cnt_repl (a : Attrs) (e : Env) : s.cnt (drawReplaced a e) = s.repl a := s.h_repl a e
theorem cnt_collapsed (a : Attrs) (e : Env) :
    s.cnt [Item.paint .collapsedBorders a.id 0 e] = s.collapsed a := s.h_collapsed a e

/-- Background and border of one box. -/
def deco (a : Attrs) : Nat := s.bg .bg a.id a.bg + s.border a

theorem cnt_decoration (a : Attrs) (e : Env) : s.cnt (decoration a e) = s.deco a := by
  simp [decoration, deco, cnt_drawBackground, cnt_drawBorder]

/-- Backgrounds of the column groups and columns of a table. -/
def cols (t : Attrs) : Nat :=
  (t.colGroups.map (fun g =>
    s.bg .colBg g.id g.bg + (g.cols.map (fun c => s.bg .colBg c.1 c.2)).sum)).sum

theorem cnt_columnBackgrounds (t : Attrs) (e : Env) : s.cnt (columnBackgrounds t e) = s.cols t := by
  unfold columnBackgrounds cols
  rw [cnt_flatMap]
  congr 1
  apply List.map_congr_left
  intro g _
  rw [cnt_append, cnt_flatMap]
  simp [cnt_drawBackground]

/-- What a box that is neither a cell nor a table is due. -/
def plainOwn (a : Attrs) : Nat :=
  s.deco a + (if a.kind.dilText then s.text a else 0) + (if a.kind.drawReplaced then s.repl a else 0) +
    s.outline a

/-- What a cell is due inside a table whose `border-collapse` is `tc`: `empty-cells: hide` hides the
background and border of an empty cell in the separated model; collapsed borders belong to the table. -/
def cellOwn (tc : Bool) (a : Attrs) : Nat :=
  (if tc || a.emptyCellsShow || !a.cellEmpty then s.bg .bg a.id a.bg else 0) +
  (if tc then 0 else if a.emptyCellsShow || !a.cellEmpty then s.border a else 0) + s.outline a

/-- What a table box is due: background, column backgrounds, its border or its collapsed borders. -/
def tableOwn (t : Attrs) : Nat :=
  s.bg .bg t.id t.bg + s.cols t + (if t.collapse then s.collapsed t else s.border t) + s.outline t

def nodeOwn (tc : Bool) (a : Attrs) : Nat :=
  if a.kind.dispCell then s.cellOwn tc a else if a.kind.drawTable then s.tableOwn a else s.plainOwn a

end Sel

mutual
/-- Items due at the tree positions of a dispatched structure; `tc` = `border-collapse` of the
enclosing table (read by cells only). -/
def expN (s : Sel) (tc : Bool) : Node → Nat
  | .leaf a => s.nodeOwn tc a
  | .node a kids => s.nodeOwn tc a + expL s (if a.kind.drawTable then a.collapse else tc) kids
  | .ph _ => 0
  | .ctx (.leaf a) neg zero pos _ floats _ _ =>
    if a.matrix = .singular then 0
    else s.plainOwn a + (expL s false neg + (expL s false zero + (expL s false pos + expL s false floats)))
  | .ctx (.node a kids) neg zero pos _ floats _ _ =>
    if a.matrix = .singular then 0
    else s.plainOwn a + (expL s false kids +
      (expL s false neg + (expL s false zero + (expL s false pos + expL s false floats))))
  | .ctx (.ph _) .. => 0
  | .ctx (.ctx ..) .. => 0
def expL (s : Sel) (tc : Bool) : List Node → Nat
  | [] => 0
  | n :: ns => expN s tc n + expL s tc ns
end

/-- A box without painted background colour and without border (text boxes, line boxes). -/
def noDeco (a : Attrs) : Prop := (a.bg = none ∨ a.bg = some none) ∧ a.border = none

theorem Sel.deco_noDeco (s : Sel) (a : Attrs) (h : noDeco a) : s.deco a = 0 := by
  unfold Sel.deco
  rcases h with ⟨hb | hb, hbd⟩
  · simp [hb, s.bg_none, s.border_none a hbd]
  · simp [hb, s.bg_transparent, s.border_none a hbd]

mutual
/-- Inline-level content: text, inline replaced boxes, inline boxes and lines, atomic contexts. -/
def okInline : Node → Prop
  | .leaf a =>
    a.kind.dispBlockLevel = false ∧ a.kind.dispCell = false ∧ a.kind.drawTable = false ∧
    a.kind.dilInlineOrLine = false ∧ a.kind.dilTextChild = a.kind.dilText ∧
    ((a.kind.dilText = true ∧ noDeco a ∧ a.kind.drawReplaced = false ∧ a.kind.dilInlineReplaced = false) ∨
     (a.kind.dilText = false ∧ a.kind.dilInlineReplaced = true ∧ a.kind.drawReplaced = true))
  | .node a kids =>
    a.kind.dispBlockLevel = false ∧ a.kind.dispCell = false ∧ a.kind.drawTable = false ∧
    a.kind.dilInlineOrLine = true ∧ a.kind.dilTextChild = false ∧ a.kind.dilText = false ∧
    a.kind.drawReplaced = false ∧ okInlineL kids
  | .ph _ => False
  | .ctx box neg zero pos blocks floats bc z =>
    ctxAllowed box = true ∧ okCtx (.ctx box neg zero pos blocks floats bc z)
def okInlineL : List Node → Prop
  | [] => True
  | n :: ns => okInline n ∧ okInlineL ns
/-- Block-flow content: block-level boxes (tables included) whose children are blocks or lines. -/
def okFlow : Node → Prop
  | .leaf a =>
    a.kind.dispBlockLevel = true ∧ a.kind.dispCell = false ∧ a.kind.drawTable = false ∧
    a.kind.dilText = false
  | .node a kids =>
    a.kind.dispBlockLevel = true ∧ a.kind.dispCell = false ∧ a.kind.dilText = false ∧
    a.kind.drawReplaced = false ∧
    ((a.kind.drawTable = true ∧ lastIsLine kids = false ∧ okGroups kids) ∨
     (a.kind.drawTable = false ∧
       ((okFlowL kids ∧ lastIsLine kids = false) ∨ (lastIsLine kids = true ∧ okInlineL kids))))
  | .ph _ => False
  | .ctx .. => False
def okFlowL : List Node → Prop
  | [] => True
  | n :: ns => okFlow n ∧ okFlowL ns
/-- The row groups of a table. -/
def okGroups : List Node → Prop
  | [] => True
  | .node a rows :: gs =>
    (a.kind.dispBlockLevel = false ∧ a.kind.dispCell = false ∧ a.kind.drawTable = false ∧
     a.kind.dilText = false ∧ a.kind.drawReplaced = false ∧ a.border = none ∧ okRows rows) ∧ okGroups gs
  | .leaf _ :: _ => False
  | .ph _ :: _ => False
  | .ctx .. :: _ => False
def okRows : List Node → Prop
  | [] => True
  | .node a cells :: rs =>
    (a.kind.dispBlockLevel = false ∧ a.kind.dispCell = false ∧ a.kind.drawTable = false ∧
     a.kind.dilText = false ∧ a.kind.drawReplaced = false ∧ a.border = none ∧ okCells cells) ∧ okRows rs
  | .leaf _ :: _ => False
  | .ph _ :: _ => False
  | .ctx .. :: _ => False
def okCells : List Node → Prop
  | [] => True
  | .node a kids :: cs =>
    (a.kind.dispBlockLevel = false ∧ a.kind.dispCell = true ∧ a.kind.drawReplaced = false ∧
     ((okFlowL kids ∧ lastIsLine kids = false) ∨ (lastIsLine kids = true ∧ okInlineL kids))) ∧ okCells cs
  | .leaf _ :: _ => False
  | .ph _ :: _ => False
  | .ctx .. :: _ => False
/-- A context: painted root class, lists as built by the dispatcher, well-formed tree and lists. -/
def okCtx : Node → Prop
  | .ctx (.leaf a) neg zero pos blocks floats bc _ =>
    a.kind.drawOwnDecoration = true ∧ a.kind.drawInline = false ∧ a.kind.dilText = false ∧
    blocks = [] ∧ bc = [] ∧ okCtxL neg ∧ okCtxL zero ∧ okCtxL pos ∧ okCtxL floats
  | .ctx (.node a kids) neg zero pos blocks floats bc _ =>
    rootPainted a ∧ a.kind.dilText = false ∧ a.kind.drawReplaced = false ∧
    blocks = (Node.regionL kids).filter Node.isBlockLevel ∧
    bc = (Node.regionL kids).filter Node.isBlockOrCell ∧
    okCtxL neg ∧ okCtxL zero ∧ okCtxL pos ∧ okCtxL floats ∧
    ((a.kind.drawInline = true ∧ lastIsLine kids = false ∧ okInlineL kids) ∨
     (a.kind.drawInline = false ∧
        ((okFlowL kids ∧ lastIsLine kids = false) ∨ (lastIsLine kids = true ∧ okInlineL kids))))
  | .ctx (.ph _) .. => False
  | .ctx (.ctx ..) .. => False
  | .leaf _ => False
  | .node _ _ => False
  | .ph _ => False
def okCtxL : List Node → Prop
  | [] => True
  | n :: ns => okCtx n ∧ okCtxL ns
end

/-! ### Counts of the primitives -/

namespace Sel
variable (s : Sel)

theorem cnt_inlBoxWith_kids (a : Attrs) (k : Env → List Item) (e : Env)
    (h : a.kind.dilInlineOrLine = true) : s.cnt (inlBoxWith a k e) = s.deco a + s.cnt (k e) := by
  simp [inlBoxWith, h, s.cnt_decoration]

theorem cnt_inlBoxWith_repl (a : Attrs) (k : Env → List Item) (e : Env)
    (h1 : a.kind.dilInlineOrLine = false) (h2 : a.kind.dilInlineReplaced = true) :
    s.cnt (inlBoxWith a k e) = s.deco a + s.repl a := by
  simp [inlBoxWith, h1, h2, s.cnt_decoration, cnt_repl]

theorem cnt_inlBoxWith_text (a : Attrs) (k : Env → List Item) (e : Env)
    (h1 : a.kind.dilInlineOrLine = false) (h2 : a.kind.dilInlineReplaced = false)
    (h3 : a.kind.dilText = true) : s.cnt (inlBoxWith a k e) = s.deco a + s.text a := by
  simp [inlBoxWith, h1, h2, h3, s.cnt_decoration, cnt_drawText]

theorem cnt_point7With (a : Attrs) (kids : List Node) (k : Env → List Item) (e : Env)
    (hr : a.kind.drawReplaced = false) :
    s.cnt (point7With a kids k e) = if lastIsLine kids then s.cnt (k e) else 0 := by
  unfold point7With
  by_cases h : lastIsLine kids = true <;> simp [hr, h]

theorem cnt_point7With_repl (a : Attrs) (kids : List Node) (k : Env → List Item) (e : Env)
    (hr : a.kind.drawReplaced = true) : s.cnt (point7With a kids k e) = s.repl a := by
  simp [point7With, hr, cnt_repl]

theorem cnt_point7With_leaf (a : Attrs) (k : Env → List Item) (e : Env) :
    s.cnt (point7With a [] k e) = if a.kind.drawReplaced then s.repl a else 0 := by
  by_cases hr : a.kind.drawReplaced = true
  · simp [s.cnt_point7With_repl a [] k e hr, hr]
  · simp only [Bool.not_eq_true] at hr
    simp [s.cnt_point7With a [] k e hr, hr, lastIsLine]

theorem cnt_ownOutline (a : Attrs) (e : Env) : s.cnt (ownOutline a e) = s.outline a := s.h_outline a e

theorem cnt_drawTable (t : Attrs) (groups : List Node) (e : Env) :
    s.cnt (drawTable t groups e) =
      s.bg .bg t.id t.bg + s.cols t + s.cnt (groups.flatMap (groupBackgrounds t e)) +
      (if t.collapse then s.collapsed t else s.border t + s.cnt (groups.flatMap (groupBorders e))) := by
  unfold drawTable drawTableBackgrounds drawTableBorders
  by_cases hc : t.collapse = true
  · simp [hc, cnt_columnBackgrounds, cnt_drawBackground, cnt_collapsed]; omega
  · simp [hc, cnt_columnBackgrounds, cnt_drawBackground, cnt_drawBorder]; omega

/-- The count of the body of `draw_stacking_context`. -/
theorem cnt_paintBodyWith (pov : Bool) (a : Attrs)
    (neg blocks floats ik pt7 zero pos outl : Env → List Item) (env : Env)
    (h6 : a.kind.drawInline = true → a.kind.dilInlineOrLine = true) :
    s.cnt (paintBodyWith pov a neg blocks floats ik pt7 zero pos outl env) =
      if a.matrix = .singular then 0 else
        (if a.kind.drawOwnDecoration then s.deco a else 0) +
        s.cnt (neg (innerEnv a pov env)) + s.cnt (blocks (innerEnv a pov env)) +
        s.cnt (floats (innerEnv a pov env)) +
        (if a.kind.drawInline then s.deco a + s.cnt (ik (innerEnv a pov env)) else 0) +
        s.cnt (pt7 (innerEnv a pov env)) + s.cnt (zero (innerEnv a pov env)) +
        s.cnt (pos (innerEnv a pov env)) + s.outline a + s.cnt (outl (ctxEnv a pov env)) := by
  unfold paintBodyWith
  by_cases hs : a.matrix = .singular
  · simp [hs]
  · simp only [hs, ↓reduceIte, cnt_append, cnt_ownOutline]
    have h2 : s.cnt (if a.kind.drawOwnDecoration = true then decoration a (ctxEnv a pov env) else []) =
        (if a.kind.drawOwnDecoration = true then s.deco a else 0) := by
      split <;> simp [cnt_decoration]
    have h6' : ∀ e1, s.cnt (if a.kind.drawInline = true then inlBoxWith a ik e1 else []) =
        (if a.kind.drawInline = true then s.deco a + s.cnt (ik e1) else 0) := by
      intro e1
      by_cases hd : a.kind.drawInline = true
      · simp [hd, s.cnt_inlBoxWith_kids a ik e1 (h6 hd)]
      · simp [hd]
    rw [h2, h6']
    simp only [innerEnv]
    omega

end Sel

/-! ### The main induction -/

/-- What is proved about a list of nodes, according to the role the list plays. -/
structure CountL (s : Sel) (pov : Bool) (l : List Node) : Prop where
  inl : okInlineL l → ∀ (tc : Bool) (e e' : Env),
    s.cnt (inlKids pov l e) + s.cnt (outlineList l e') = expL s tc l ∧
    s.cnt (inlList pov l e) + s.cnt (outlineList l e') = expL s tc l ∧
    s.cnt (flow4L l e) = 0 ∧ s.cnt (flow7L pov l e) = 0
  flow : okFlowL l → ∀ (tc : Bool) (e e' : Env),
    s.cnt (flow4L l e) + s.cnt (flow7L pov l e) + s.cnt (outlineList l e') = expL s tc l
  grp : okGroups l → ∀ (t : Attrs) (e e' : Env),
    s.cnt (l.flatMap (groupBackgrounds t e)) +
      (if t.collapse then 0 else s.cnt (l.flatMap (groupBorders e))) +
      s.cnt (flow4L l e) + s.cnt (flow7L pov l e) + s.cnt (outlineList l e') = expL s t.collapse l
  row : okRows l → ∀ (t : Attrs) (e e' : Env),
    s.cnt (l.flatMap (rowBackgrounds t e)) +
      (if t.collapse then 0 else s.cnt (l.flatMap (rowBorders e))) +
      s.cnt (flow4L l e) + s.cnt (flow7L pov l e) + s.cnt (outlineList l e') = expL s t.collapse l
  cell : okCells l → ∀ (t : Attrs) (e e' : Env),
    s.cnt (l.flatMap (cellBackground t e)) +
      (if t.collapse then 0 else s.cnt (l.flatMap (cellBorder e))) +
      s.cnt (flow4L l e) + s.cnt (flow7L pov l e) + s.cnt (outlineList l e') = expL s t.collapse l
  ctx : okCtxL l → ∀ (tc : Bool) (e : Env), s.cnt (paintList pov l e) = expL s tc l

/-- The children of a block container (flow box, cell, context root). -/
theorem body_count (s : Sel) (pov : Bool) (a : Attrs) (kids : List Node) (ih : CountL s pov kids)
    (hr : a.kind.drawReplaced = false)
    (h : (okFlowL kids ∧ lastIsLine kids = false) ∨ (lastIsLine kids = true ∧ okInlineL kids))
    (tc : Bool) (e e' : Env) :
    s.cnt (flow4L kids e) + s.cnt (point7With a kids (inlList pov kids) e) +
      s.cnt (flow7L pov kids e) + s.cnt (outlineList kids e') = expL s tc kids := by
  rw [s.cnt_point7With a kids _ e hr]
  rcases h with ⟨hf, hl⟩ | ⟨hl, hi⟩
  · have := ih.flow hf tc e e'
    simp [hl]; omega
  · obtain ⟨_, h2, h3, h4⟩ := ih.inl hi tc e e'
    simp [hl, h3, h4]; omega

theorem outlineList_single_leaf (a : Attrs) (e : Env) : outlineList [.leaf a] e = ownOutline a e := by
  simp [outlineList]

theorem outlineList_single_node (a : Attrs) (kids : List Node) (e : Env) :
    outlineList [.node a kids] e = ownOutline a e ++ outlineList kids e := by
  simp [outlineList]

mutual
theorem count_node (s : Sel) (pov : Bool) : ∀ (n : Node), CountL s pov [n]
  | .leaf a => by
    refine ⟨?_, ?_, ?_, ?_, ?_, ?_⟩
    · intro h tc e e'
      simp only [okInlineL, okInline, and_true] at h
      obtain ⟨hb, hc, ht, hio, htc, hk⟩ := h
      have hown : s.nodeOwn tc a = s.plainOwn a := by simp [Sel.nodeOwn, hc, ht]
      simp only [expL, expN, Nat.add_zero, hown, outlineList_single_leaf, Sel.cnt_ownOutline]
      rcases hk with ⟨hx, hnd, hr, hir⟩ | ⟨hx, hir, hr⟩
      · have htc' : a.kind.dilTextChild = true := by rw [htc]; exact hx
        refine ⟨?_, ?_, ?_, ?_⟩
        · simp [inlKids, htc', Sel.cnt_drawText, Sel.plainOwn, hx, hr, s.deco_noDeco a hnd]
        · simp [inlList, s.cnt_inlBoxWith_text a _ e hio hir hx, Sel.plainOwn, hx, hr,
            s.deco_noDeco a hnd]
        · simp [flow4L, flow4, hb]
        · simp [flow7L, flow7, hb, hc]
      · have htc' : a.kind.dilTextChild = false := by rw [htc]; exact hx
        refine ⟨?_, ?_, ?_, ?_⟩
        · simp [inlKids, htc', s.cnt_inlBoxWith_repl a _ e hio hir, Sel.plainOwn, hx, hr]
        · simp [inlList, s.cnt_inlBoxWith_repl a _ e hio hir, Sel.plainOwn, hx, hr]
        · simp [flow4L, flow4, hb]
        · simp [flow7L, flow7, hb, hc]
    · intro h tc e e'
      simp only [okFlowL, okFlow, and_true] at h
      obtain ⟨hb, hc, ht, hx⟩ := h
      have hown : s.nodeOwn tc a = s.plainOwn a := by simp [Sel.nodeOwn, hc, ht]
      simp [expL, expN, hown, outlineList_single_leaf, Sel.cnt_ownOutline, flow4L, flow4, flow7L, flow7,
        hb, ht, drawBlock, Sel.cnt_decoration, Sel.cnt_point7With_leaf, Sel.plainOwn, hx]
    · intro h; simp [okGroups] at h
    · intro h; simp [okRows] at h
    · intro h; simp [okCells] at h
    · intro h; simp [okCtxL, okCtx] at h
  | .node a kids => by
    have ih := count_list s pov kids
    refine ⟨?_, ?_, ?_, ?_, ?_, ?_⟩
    · intro h tc e e'
      simp only [okInlineL, okInline, and_true] at h
      obtain ⟨hb, hc, ht, hio, htc, hx, hr, hk⟩ := h
      obtain ⟨h1, h2, h3, h4⟩ := ih.inl hk tc e e'
      have hown : s.nodeOwn tc a = s.plainOwn a := by simp [Sel.nodeOwn, hc, ht]
      simp only [expL, expN, Nat.add_zero, hown, ht, Bool.false_eq_true, ↓reduceIte,
        outlineList_single_node, Sel.cnt_append, Sel.cnt_ownOutline]
      refine ⟨?_, ?_, ?_, ?_⟩
      · simp [inlKids, htc, s.cnt_inlBoxWith_kids a _ e hio, Sel.plainOwn, hx, hr]; omega
      · simp [inlList, s.cnt_inlBoxWith_kids a _ e hio, Sel.plainOwn, hx, hr]; omega
      · simp [flow4L, flow4, hb, h3]
      · simp [flow7L, flow7, hb, hc, h4]
    · intro h tc e e'
      simp only [okFlowL, okFlow, and_true] at h
      obtain ⟨hb, hc, hx, hr, hk⟩ := h
      simp only [expL, expN, Nat.add_zero, outlineList_single_node, Sel.cnt_append, Sel.cnt_ownOutline,
        flow4L, flow4, flow7L, flow7, hb, Bool.true_or, ↓reduceIte, List.append_nil]
      rcases hk with ⟨ht, hl, hg⟩ | ⟨ht, hbody⟩
      · -- a table: `draw_table` and the contents of its cells
        have := ih.grp hg a e e'
        have hown : s.nodeOwn tc a = s.tableOwn a := by simp [Sel.nodeOwn, hc, ht]
        rw [s.cnt_point7With a kids _ e hr]
        simp only [hown, ht, ↓reduceIte, drawBlock, Sel.cnt_drawTable, Sel.tableOwn, hl,
          Bool.false_eq_true]
        by_cases hcol : a.collapse = true
        · simp only [hcol, ↓reduceIte] at this ⊢; omega
        · simp only [hcol, Bool.false_eq_true, ↓reduceIte] at this ⊢; omega
      · have := body_count s pov a kids ih hr hbody tc e e'
        have hown : s.nodeOwn tc a = s.plainOwn a := by simp [Sel.nodeOwn, hc, ht]
        simp only [hown, ht, Bool.false_eq_true, ↓reduceIte, drawBlock, Sel.cnt_decoration,
          Sel.plainOwn, hx, hr]
        omega
    · intro h t e e'
      simp only [okGroups, and_true] at h
      obtain ⟨hb, hc, ht, hx, hr, hbd, hk⟩ := h
      have := ih.row hk t e e'
      have hown : s.nodeOwn t.collapse a = s.plainOwn a := by simp [Sel.nodeOwn, hc, ht]
      simp only [List.flatMap_cons, List.flatMap_nil, List.append_nil, groupBackgrounds, groupBorders,
        Node.attrs?, Node.children?, Sel.cnt_append, Sel.cnt_drawBackground, expL, expN, Nat.add_zero,
        outlineList_single_node, Sel.cnt_ownOutline, flow4L, flow4, flow7L, flow7, hb, hc,
        Bool.or_self, Bool.false_eq_true, ↓reduceIte, List.nil_append, hown, ht, Sel.plainOwn, hx, hr,
        Sel.deco, s.border_none a hbd]
      by_cases hcol : t.collapse = true
      · simp only [hcol, ↓reduceIte] at this ⊢; omega
      · simp only [hcol, Bool.false_eq_true, ↓reduceIte] at this ⊢; omega
    · intro h t e e'
      simp only [okRows, and_true] at h
      obtain ⟨hb, hc, ht, hx, hr, hbd, hk⟩ := h
      have := ih.cell hk t e e'
      have hown : s.nodeOwn t.collapse a = s.plainOwn a := by simp [Sel.nodeOwn, hc, ht]
      simp only [List.flatMap_cons, List.flatMap_nil, List.append_nil, rowBackgrounds, rowBorders,
        Node.attrs?, Node.children?, Sel.cnt_append, Sel.cnt_drawBackground, expL, expN, Nat.add_zero,
        outlineList_single_node, Sel.cnt_ownOutline, flow4L, flow4, flow7L, flow7, hb, hc,
        Bool.or_self, Bool.false_eq_true, ↓reduceIte, List.nil_append, hown, ht, Sel.plainOwn, hx, hr,
        Sel.deco, s.border_none a hbd]
      by_cases hcol : t.collapse = true
      · simp only [hcol, ↓reduceIte] at this ⊢; omega
      · simp only [hcol, Bool.false_eq_true, ↓reduceIte] at this ⊢; omega
    · intro h t e e'
      simp only [okCells, and_true] at h
      obtain ⟨hb, hc, hr, hbody⟩ := h
      have := body_count s pov a kids ih hr hbody t.collapse e e'
      have hown : s.nodeOwn t.collapse a = s.cellOwn t.collapse a := by simp [Sel.nodeOwn, hc]
      have ht : (if a.kind.drawTable = true then a.collapse else t.collapse) = t.collapse ∨
          a.kind.drawTable = true := by
        by_cases h : a.kind.drawTable = true
        · exact Or.inr h
        · exact Or.inl (by simp [h])
      have hexp : expL s (if a.kind.drawTable = true then a.collapse else t.collapse) kids =
          expL s t.collapse kids := by
        -- the children of a cell are blocks or lines, never cells: the flag is not read
        have h1 := body_count s pov a kids ih hr hbody
          (if a.kind.drawTable = true then a.collapse else t.collapse) e e'
        omega
      simp only [List.flatMap_cons, List.flatMap_nil, List.append_nil, cellBackground, cellBorder,
        Node.attrs?, Sel.cnt_append, expL, expN, Nat.add_zero, hexp,
        outlineList_single_node, Sel.cnt_ownOutline, flow4L, flow4, flow7L, flow7, hb, hc,
        Bool.or_true, Bool.false_eq_true, ↓reduceIte, List.nil_append, hown, Sel.cellOwn]
      by_cases hcol : t.collapse = true
      · simp only [hcol, ↓reduceIte, Bool.true_or, Sel.cnt_drawBackground] at this ⊢; omega
      · by_cases hshow : (a.emptyCellsShow || !a.cellEmpty) = true
        · simp only [hcol, Bool.false_eq_true, ↓reduceIte, Bool.false_or, hshow,
            Sel.cnt_drawBackground, Sel.cnt_drawBorder] at this ⊢
          omega
        · simp only [hcol, Bool.false_eq_true, ↓reduceIte, Bool.false_or, hshow, Sel.cnt_nil] at this ⊢
          omega
    · intro h; simp [okCtxL, okCtx] at h
  | .ph _ => by
    refine ⟨?_, ?_, ?_, ?_, ?_, ?_⟩
    · intro h; simp [okInlineL, okInline] at h
    · intro h; simp [okFlowL, okFlow] at h
    · intro h; simp [okGroups] at h
    · intro h; simp [okRows] at h
    · intro h; simp [okCells] at h
    · intro h; simp [okCtxL, okCtx] at h
  | .ctx box neg zero pos blocks floats bc z => by
    have hctx : okCtx (.ctx box neg zero pos blocks floats bc z) → ∀ (tc : Bool) (e : Env),
        s.cnt (paint pov (.ctx box neg zero pos blocks floats bc z) e) =
          expN s tc (.ctx box neg zero pos blocks floats bc z) := by
      have hneg := count_list s pov neg
      have hzero := count_list s pov zero
      have hpos := count_list s pov pos
      have hfl := count_list s pov floats
      match box with
      | .leaf a =>
        intro h tc e
        simp only [okCtx] at h
        obtain ⟨h2, h6, hx, hbl, hbc, wn, wz, wp, wf⟩ := h
        subst hbl; subst hbc
        rw [paint, s.cnt_paintBodyWith _ _ _ _ _ _ _ _ _ _ _ (by simp [h6]), expN]
        by_cases hs : a.matrix = .singular
        · simp [hs]
        · simp only [hs, ↓reduceIte, List.flatMap_nil, Sel.cnt_nil, Sel.cnt_append,
            Sel.cnt_point7With_leaf, point7List, hneg.ctx wn false, hzero.ctx wz false,
            hpos.ctx wp false, hfl.ctx wf false, h2, h6, Bool.false_eq_true, Sel.plainOwn, hx]
          omega
      | .node a kids =>
        have ih := count_list s pov kids
        intro h tc e
        simp only [okCtx] at h
        obtain ⟨hroot, hx, hr, hbl, hbc, wn, wz, wp, wf, hbody⟩ := h
        subst hbl; subst hbc
        have h6io : a.kind.drawInline = true → a.kind.dilInlineOrLine = true := by
          intro h6
          rcases hroot with ⟨_, h⟩ | ⟨_, _, h⟩
          · rw [h] at h6; cases h6
          · exact h
        rw [paint, s.cnt_paintBodyWith _ _ _ _ _ _ _ _ _ _ _ h6io, expN]
        by_cases hs : a.matrix = .singular
        · simp [hs]
        · simp only [hs, ↓reduceIte, Sel.cnt_append, flow4L_region, flow7L_region, hneg.ctx wn false,
            hzero.ctx wz false, hpos.ctx wp false, hfl.ctx wf false, Sel.plainOwn, hx, hr,
            Bool.false_eq_true]
          rcases hbody with ⟨h6, hl, hk⟩ | ⟨h6, hk⟩
          · have h2 : a.kind.drawOwnDecoration = false := by
              rcases hroot with ⟨_, h⟩ | ⟨h, _, _⟩
              · rw [h] at h6; cases h6
              · exact h
            obtain ⟨h1, _, h3, h4⟩ := ih.inl hk false (innerEnv a pov e) (ctxEnv a pov e)
            rw [s.cnt_point7With a kids _ _ hr]
            simp only [h2, h6, hl, Bool.false_eq_true, ↓reduceIte, h3, h4]
            omega
          · have h2 : a.kind.drawOwnDecoration = true := by
              rcases hroot with ⟨h, _⟩ | ⟨_, h, _⟩
              · exact h
              · rw [h] at h6; cases h6
            have := body_count s pov a kids ih hr hk false (innerEnv a pov e) (ctxEnv a pov e)
            simp only [h2, h6, Bool.false_eq_true, ↓reduceIte]
            omega
      | .ph _ => intro h; simp [okCtx] at h
      | .ctx .. => intro h; simp [okCtx] at h
    refine ⟨?_, ?_, ?_, ?_, ?_, ?_⟩
    · intro h tc e e'
      simp only [okInlineL, okInline, and_true] at h
      obtain ⟨ha, hw⟩ := h
      have := hctx hw tc e
      refine ⟨?_, ?_, ?_, ?_⟩
      · simp [inlKids, ha, expL, this, outlineList]
      · simp [inlList, ha, expL, this, outlineList]
      · simp [flow4L, flow4]
      · simp [flow7L, flow7]
    · intro h; simp [okFlowL, okFlow] at h
    · intro h; simp [okGroups] at h
    · intro h; simp [okRows] at h
    · intro h; simp [okCells] at h
    · intro h tc e
      simp only [okCtxL, and_true] at h
      simp [paintList, expL, hctx h tc e]
theorem count_list (s : Sel) (pov : Bool) : ∀ (l : List Node), CountL s pov l
  | [] => ⟨fun _ _ _ _ => by simp [inlKids, inlList, flow4L, flow7L, expL, outlineList],
           fun _ _ _ _ => by simp [flow4L, flow7L, expL, outlineList],
           fun _ t _ _ => by cases t.collapse <;> simp [flow4L, flow7L, expL, outlineList],
           fun _ t _ _ => by cases t.collapse <;> simp [flow4L, flow7L, expL, outlineList],
           fun _ t _ _ => by cases t.collapse <;> simp [flow4L, flow7L, expL, outlineList],
           fun _ _ _ => by simp [paintList, expL]⟩
  | n :: l => by
    have h1 := count_node s pov n
    have h2 := count_list s pov l
    refine ⟨?_, ?_, ?_, ?_, ?_, ?_⟩
    · intro h tc e e'
      simp only [okInlineL] at h
      obtain ⟨a1, a2, a3, a4⟩ := h1.inl (by simp [okInlineL, h.1]) tc e e'
      obtain ⟨b1, b2, b3, b4⟩ := h2.inl h.2 tc e e'
      simp only [expL, Nat.add_zero, flow4L, flow7L, List.append_nil] at a1 a2 a3 a4
      refine ⟨?_, ?_, ?_, ?_⟩
      · rw [inlKids_cons, outlineList_cons]; simp only [expL, Sel.cnt_append]; omega
      · rw [inlList_cons, outlineList_cons]; simp only [expL, Sel.cnt_append]; omega
      · simp [flow4L, a3, b3]
      · simp [flow7L, a4, b4]
    · intro h tc e e'
      simp only [okFlowL] at h
      have a := h1.flow (by simp [okFlowL, h.1]) tc e e'
      have b := h2.flow h.2 tc e e'
      simp only [expL, Nat.add_zero, flow4L, flow7L, List.append_nil] at a
      rw [outlineList_cons]
      simp only [flow4L, flow7L, expL, Sel.cnt_append]
      omega
    · intro h t e e'
      have hsplit : okGroups [n] ∧ okGroups l := by
        cases n <;> simp_all [okGroups]
      have a := h1.grp hsplit.1 t e e'
      have b := h2.grp hsplit.2 t e e'
      simp only [expL, Nat.add_zero, flow4L, flow7L, List.append_nil, List.flatMap_cons,
        List.flatMap_nil] at a
      rw [outlineList_cons]
      simp only [flow4L, flow7L, expL, Sel.cnt_append, List.flatMap_cons]
      by_cases hcol : t.collapse = true
      · simp only [hcol, ↓reduceIte] at a b ⊢; omega
      · simp only [hcol, Bool.false_eq_true, ↓reduceIte] at a b ⊢; omega
    · intro h t e e'
      have hsplit : okRows [n] ∧ okRows l := by
        cases n <;> simp_all [okRows]
      have a := h1.row hsplit.1 t e e'
      have b := h2.row hsplit.2 t e e'
      simp only [expL, Nat.add_zero, flow4L, flow7L, List.append_nil, List.flatMap_cons,
        List.flatMap_nil] at a
      rw [outlineList_cons]
      simp only [flow4L, flow7L, expL, Sel.cnt_append, List.flatMap_cons]
      by_cases hcol : t.collapse = true
      · simp only [hcol, ↓reduceIte] at a b ⊢; omega
      · simp only [hcol, Bool.false_eq_true, ↓reduceIte] at a b ⊢; omega
    · intro h t e e'
      have hsplit : okCells [n] ∧ okCells l := by
        cases n <;> simp_all [okCells]
      have a := h1.cell hsplit.1 t e e'
      have b := h2.cell hsplit.2 t e e'
      simp only [expL, Nat.add_zero, flow4L, flow7L, List.append_nil, List.flatMap_cons,
        List.flatMap_nil] at a
      rw [outlineList_cons]
      simp only [flow4L, flow7L, expL, Sel.cnt_append, List.flatMap_cons]
      by_cases hcol : t.collapse = true
      · simp only [hcol, ↓reduceIte] at a b ⊢; omega
      · simp only [hcol, Bool.false_eq_true, ↓reduceIte] at a b ⊢; omega
    · intro h tc e
      simp only [okCtxL] at h
      have a := h1.ctx (by simp [okCtxL, h.1]) tc e
      have b := h2.ctx h.2 tc e
      simp only [expL, Nat.add_zero, paintList, List.append_nil] at a
      simp only [paintList, expL, Sel.cnt_append]
      omega
end

end Wp.Stacking
