/-
Unfolding lemmas for `avoid_collisions(outer=True)` on floats, `find_float_position`, `float_layout`.
-/
import WpModel.Lemmas.FloatBounds

namespace Wp.Floats

/-- `avoid_collisions(outer=True)` for a float (any float: the early return for an empty border box is gone,
1bc67ce). -/
theorem avoidCollisions_float (shapes : List Shape) (b : ABox) (cb : CB) (p : Placement)
    (hf : b.float ≠ .none)
    (h : avoidCollisions shapes b cb true = .ok p) :
    ∃ res, avoidLoop (shapes.length + 1) shapes b.marginWidth b.marginHeight cb.cx (cb.cx + cb.w) b.py = some res ∧
      p = ⟨res.l, res.y, res.r - res.l⟩ := by
  unfold avoidCollisions at h
  have h2 : b.isFloated = true := by simp [ABox.isFloated, hf]
  simp only [if_true] at h
  split at h
  · simp at h
  · rename_i res hres
    refine ⟨res, hres, ?_⟩
    have h3 : (decide (b.float = FloatV.none) && cb.rtl) = false := by simp [hf]
    simp only [h2, h3, Bool.false_eq_true, if_false, Bool.true_or, Bool.not_true] at h
    simp only [Except.ok.injEq] at h
    exact h.symm

theorem findFloatPosition_ok (shapes : List Shape) (b : ABox) (cb : CB) (x y : Rat)
    (h : findFloatPosition shapes b cb = .ok (x, y)) :
    ∃ y0 p, b.py ≤ y0 ∧ (∀ s, shapes.getLast? = some s → s.y ≤ y0) ∧
      avoidCollisions shapes { b with py := y0 } cb true = .ok p ∧ y = p.y ∧
      x = (if b.float = .right then p.x + (p.avail - b.marginWidth) else p.x) := by
  unfold findFloatPosition at h
  simp only at h
  split at h
  · simp at h
  · rename_i p hp
    simp only [Except.ok.injEq, Prod.mk.injEq] at h
    refine ⟨_, p, ?_, ?_, hp, h.2.symm, h.1.symm⟩
    · split
      · split <;> grind
      · exact Rat.le_refl
    · intro s hs; rw [hs]; simp only; split <;> grind

theorem afterClearance_fields (shapes : List Shape) (b : ABox) :
    (afterClearance shapes b).float = b.float ∧ (afterClearance shapes b).bh = b.bh ∧
    (afterClearance shapes b).marginHeight = b.marginHeight ∧
    (afterClearance shapes b).marginWidth = b.marginWidth ∧ (afterClearance shapes b).clear = b.clear := by
  unfold afterClearance
  split <;> simp [ABox.marginHeight, ABox.marginWidth]

theorem floatPlace_ok (shapes : List Shape) (b : ABox) (cb : CB) (b' : ABox) (shapes' : List Shape)
    (h : floatPlace shapes b cb = .ok (b', shapes')) :
    ∃ x y, findFloatPosition shapes (afterClearance shapes b) cb = .ok (x, y) ∧
      b' = { afterClearance shapes b with px := x, py := y } ∧
      shapes' = shapes ++ [⟨x, y, b.marginWidth, b.marginHeight,
        if b.float = .right then Side.right else Side.left⟩] := by
  unfold floatPlace at h
  simp only at h
  split at h
  · simp at h
  · rename_i x y hpos
    simp only [Except.ok.injEq, Prod.mk.injEq] at h
    refine ⟨x, y, hpos, h.1.symm, ?_⟩
    rw [← h.2]
    obtain ⟨f1, _, f3, f4, _⟩ := afterClearance_fields shapes b
    simp only [ABox.toShape, ABox.marginWidth, ABox.marginHeight] at *
    rw [f1, f3, f4]

end Wp.Floats
