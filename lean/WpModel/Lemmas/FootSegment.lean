/-
Line conservation + progress post-condition of the footnote model's `layoutBoxF` / `layoutKidsF`
(stage-1 `BoxPost` / `KidsPost` on the erased boxes): the footnote state never changes *which* lines a
layout keeps being a contiguous run from the resume position.
-/
import WpModel.Lemmas.SegmentBlock
import WpModel.Lemmas.FootEmbed

namespace Wp.PMF
open Wp Wp.PM

/-! ### the footnote loop of a line -/

theorem footLoop_guard (c : FCtx) (guard pie : Bool) (bs y : Rat) (fns : List Fn) (fs fs' : FState) (o : FootOut)
    (h : footLoop c guard pie bs y fns fs = (o, fs')) (ho : o ≠ .ok) : guard = true := by
  induction fns generalizing fs with
  | nil => simp [footLoop] at h; exact absurd h.1.symm ho
  | cons f rest ih =>
    unfold footLoop at h
    split at h
    · dsimp only at h
      split at h
      · split at h
        · rename_i hg; simp only [Bool.and_eq_true] at hg; exact hg.1
        · split at h
          · rename_i hg; simp only [Bool.and_eq_true] at hg; exact hg.1
          · exact ih _ h
      · exact ih _ h
    · exact ih _ h

/-! ### the line loop -/

theorem lineLoopF_done (c : FCtx) (st : PStyle) (calls : List Call) (b : BoxSt) (n : Nat) (lineH : Rat)
    (pie : Bool) (bs : Rat) (k : Nat) (fuel i : Nat) (y : Rat) (s s' : LineLoop) (fs : FState)
    (hk : k ≤ i) (hs : s.lines.map Prod.fst = List.range' k (i - k))
    (h : (lineLoopF c st calls b n lineH pie bs fuel i y s fs).1 = .done s') :
    s'.lines.map Prod.fst = List.range' k ((i - k) + fuel) := by
  fun_induction lineLoopF c st calls b n lineH pie bs fuel i y s fs with
  | case1 i y s fs => cases h; simpa using hs
  | case2 fuel i y s fs resume newPosY dbd offset overflow hov abort stop r lines' hb => cases h
  | case3 fuel i y s fs resume newPosY dbd offset overflow hov shift newPosY' lineY mt' fs' hfl ih =>
    have : (s.lines ++ [(i, lineY)]).map Prod.fst = List.range' k (i + 1 - k) := by
      rw [List.map_append, hs]
      have : i + 1 - k = (i - k) + 1 := by omega
      rw [this, List.range'_concat]
      simp
      omega
    have := ih (by omega) this h
    rw [this]
    congr 1
    omega
  | case4 fuel i y s fs resume newPosY dbd offset overflow hov shift newPosY' mt' fs' hfl abort stop r lines' hb =>
    cases h
  | case5 fuel i y s fs resume newPosY dbd offset overflow hov shift newPosY' mt' fs' hfl => cases h

theorem breakLine_spec_k (st : PStyle) (n i k : Nat) (lines lines' : List (Nat × Rat)) (pie : Bool)
    (skip resume r' : Option Resume) (abort stop' : Bool) (hk : k ≤ i) (hn : i < n)
    (hs : lines.map Prod.fst = List.range' k (i - k)) (ho : 1 ≤ st.orphans)
    (hne : lines.isEmpty = false ∨ pie = false)
    (hb : breakLine st n i lines pie skip resume = (abort, stop', r', lines')) (ha : abort = false) :
    stop' = true ∧ ∃ m, 1 ≤ m ∧ k + m < n ∧ lines'.map Prod.fst = List.range' k m := by
  have hlen : lines.length = i - k := by
    have := congrArg List.length hs
    simpa using this
  have key := breakLine_stop st n i lines pie skip resume ho hne
  rw [hb] at key
  have h1 := key ha
  obtain ⟨m, hm, hl⟩ := breakLine_lines st n i lines pie skip resume
  rw [hb] at hl
  simp only at hl h1
  have hlen' : lines'.length = m := by rw [hl, List.length_take]; omega
  refine ⟨h1.1, m, by omega, by omega, ?_⟩
  simp only [hl, List.map_take, hs]
  exact range'_take _ _ _ (by omega)

theorem lineLoopF_broke (c : FCtx) (st : PStyle) (calls : List Call) (b : BoxSt) (n : Nat) (lineH : Rat)
    (pie : Bool) (bs : Rat) (k : Nat) (fuel i : Nat) (y : Rat) (s s' : LineLoop) (fs : FState) (stop : Bool)
    (r : Option Resume)
    (hk : k ≤ i) (hs : s.lines.map Prod.fst = List.range' k (i - k)) (hn : fuel = n - i) (ho : 1 ≤ st.orphans)
    (h : (lineLoopF c st calls b n lineH pie bs fuel i y s fs).1 = .broke false stop r s') :
    stop = true ∧ ∃ m, 1 ≤ m ∧ k + m < n ∧ s'.lines.map Prod.fst = List.range' k m := by
  fun_induction lineLoopF c st calls b n lineH pie bs fuel i y s fs with
  | case1 i y s fs => cases h
  | case2 fuel i y s fs resume newPosY dbd offset overflow hov abort stop' r' lines' hb =>
    simp only [LineOutcome.broke.injEq] at h
    obtain ⟨ha, hst, _, hs'⟩ := h
    have hne : s.lines.isEmpty = false ∨ pie = false := by
      have : (!s.lines.isEmpty || !pie) = true := by
        simp only [overflow, Bool.and_eq_true] at hov
        exact hov.1
      cases h1 : s.lines.isEmpty <;> cases h2 : pie <;> simp_all
    have := breakLine_spec_k st n i k s.lines lines' pie s.skip resume r' abort stop' hk (by omega) hs ho hne hb ha
    rw [← hst, ← hs']
    exact this
  | case3 fuel i y s fs resume newPosY dbd offset overflow hov shift newPosY' lineY mt' fs' hfl ih =>
    have : (s.lines ++ [(i, lineY)]).map Prod.fst = List.range' k (i + 1 - k) := by
      rw [List.map_append, hs]
      have : i + 1 - k = (i - k) + 1 := by omega
      rw [this, List.range'_concat]
      simp
      omega
    exact ih (by omega) this (by omega) h
  | case4 fuel i y s fs resume newPosY dbd offset overflow hov shift newPosY' mt' fs' hfl abort stop' r' lines' hb =>
    have hg := footLoop_guard _ _ _ _ _ _ _ _ _ hfl (by decide)
    simp only [LineOutcome.broke.injEq] at h
    obtain ⟨ha, hst, _, hs'⟩ := h
    have hne : s.lines.isEmpty = false ∨ pie = false := by
      cases h1 : s.lines.isEmpty <;> cases h2 : pie <;> simp_all
    have := breakLine_spec_k st n i k s.lines lines' pie s.skip resume r' abort stop' hk (by omega) hs ho hne hb ha
    rw [← hst, ← hs']
    exact this
  | case5 fuel i y s fs resume newPosY dbd offset overflow hov shift newPosY' mt' fs' hfl =>
    simp at h

/-- `_linebox_layout` with footnotes: same post-condition as stage-1 `linebox_spec`. -/
theorem lineboxF_spec (c : FCtx) (st : PStyle) (calls : List Call) (b : BoxSt) (n : Nat) (lineH : Rat) (pie : Bool)
    (adj : List Rat) (bs posY : Rat) (skip : Option Resume) (dbd : Bool) (fs : FState) (ho : 1 ≤ st.orphans)
    (ha : (lineboxLayoutF c st calls b n lineH pie adj bs posY skip dbd fs).1.abort = false) :
    ((lineboxLayoutF c st calls b n lineH pie adj bs posY skip dbd fs).1.stop = false →
      (lineboxLayoutF c st calls b n lineH pie adj bs posY skip dbd fs).1.lines.map Prod.fst =
        List.range' (skipLine skip) (n - skipLine skip)) ∧
    ((lineboxLayoutF c st calls b n lineH pie adj bs posY skip dbd fs).1.stop = true →
      ∃ m, 1 ≤ m ∧ skipLine skip + m < n ∧
        (lineboxLayoutF c st calls b n lineH pie adj bs posY skip dbd fs).1.lines.map Prod.fst =
          List.range' (skipLine skip) m ∧
        (lineboxLayoutF c st calls b n lineH pie adj bs posY skip dbd fs).1.resume =
          some (.node 0 (some (.line (skipLine skip + m))))) := by
  unfold lineboxLayoutF at ha ⊢
  dsimp only at ha ⊢
  cases hloop : (lineboxLoopF c st calls b n lineH pie adj bs posY skip dbd fs).1 with
  | done s =>
    simp only [lineResultOf]
    refine ⟨fun _ => ?_, by simp⟩
    unfold lineboxLoopF at hloop
    have := lineLoopF_done c st calls b n lineH pie bs (skipLine skip) _ _ _ _ s fs (Nat.le_refl _) (by simp) hloop
    simpa using this
  | broke a stp r s =>
    rw [hloop] at ha
    simp only [lineResultOf] at ha ⊢
    subst ha
    unfold lineboxLoopF at hloop
    obtain ⟨hstp, m, hm1, hmn, hl⟩ := lineLoopF_broke c st calls b n lineH pie bs (skipLine skip) _ _ _ _ s fs stp r
      (Nat.le_refl _) (by simp) rfl ho hloop
    subst hstp
    refine ⟨by simp, fun _ => ⟨m, hm1, hmn, hl, ?_⟩⟩
    have hne : s.lines ≠ [] := by
      intro he; rw [he] at hl
      have := congrArg List.length hl
      simp at this; omega
    obtain ⟨⟨i, y⟩, hlast⟩ : ∃ a, s.lines.getLast? = some a := by
      cases hq : s.lines.getLast? with
      | none => rw [List.getLast?_eq_none_iff] at hq; exact absurd hq hne
      | some a => exact ⟨a, rfl⟩
    have hi := last_of_range' _ _ _ _ _ hl hlast
    simp [lastLineResume, hlast, lineResume, hmn, hi]

/-! ### containers -/

@[simp] theorem finishParaF_r (c : FCtx) (st : PStyle) (calls : List Call) (p : Prep) (pie : Bool) (id idx n : Nat)
    (r : LineResult) (fs : FState) :
    (finishParaF c st calls p pie id idx n r fs).r = finishPara (ctxOf c fs) st p pie id idx n r := by
  unfold finishParaF
  dsimp only
  split
  · rfl
  · split <;> split <;> rfl

@[simp] theorem finishBlockF_r (c : FCtx) (st : PStyle) (rest : List FootBox) (p : Prep) (pie : Bool) (id idx : Nat)
    (out : KidsOutcome) (fs : FState) :
    (finishBlockF c st rest p pie id idx out fs).r = finishBlock (ctxOf c fs) st p pie id idx out := by
  unfold finishBlockF
  cases out with
  | aborted page s => rfl
  | stopped resume s => dsimp only; split <;> rfl
  | finished s => rfl

/-- `Good` (no fixed height, orphans / widows ≥ 1) of the underlying stage-1 box. -/
def GoodF (b : FootBox) : Prop := Good b.erase

theorem paraF_spec (id n : Nat) (lineH : Rat) (st : PStyle) (calls : List Call)
    (hg : Good (.para id n lineH st))
    (c : FCtx) (idx : Nat) (y bs : Rat) (skip : Option Resume) (cb pie : Bool) (adjL : List Rat) (fs : FState) :
    BoxPost (.para id n lineH st) skip
      (layoutBoxF c (.para id n lineH st calls) idx y bs skip cb pie adjL fs).r.frag
      (layoutBoxF c (.para id n lineH st calls) idx y bs skip cb pie adjL fs).r.resume := by
  simp only [Good] at hg
  obtain ⟨hh, ho, hw⟩ := hg
  intro f hf
  simp only [layoutBoxF, finishParaF_r] at hf ⊢
  obtain ⟨hab, ⟨g, rfl⟩, hres⟩ := finishPara_frag _ _ _ _ _ _ _ _ _ hh hf
  rw [hres]
  obtain ⟨h1, h2⟩ := lineboxF_spec _ _ _ _ _ _ _ _ _ _ _ _ _ ho hab
  split
  · rename_i hnone
    split at hnone
    · rename_i hstop
      obtain ⟨m, _, _, _, hr⟩ := h2 hstop
      rw [hr] at hnone; cases hnone
    · rename_i hstop
      simp only [Full, paraStart, true_and]
      exact h1 (by simpa using hstop)
  · rename_i ρ hsome
    split at hsome
    · rename_i hstop
      obtain ⟨m, hm1, hmn, hl, hr⟩ := h2 hstop
      rw [hr] at hsome
      simp only [Option.some.injEq] at hsome
      subst hsome
      have hps : paraStart (some (Resume.node 0 (some (Resume.line (skipLine (subSkipOf skip) + m))))) =
          paraStart skip + m := rfl
      constructor
      · simp only [fragLines, linesFrom]
        rw [hps, ← paraLines_split id (paraStart skip) m n (by unfold paraStart; omega)]
        congr 1
        have hl' : _ = List.range' (paraStart skip) m := hl
        rw [← hl', List.map_map]
        rfl
      · simp only [pos]
        rw [hps]
        unfold paraStart
        omega
    · cases hsome

theorem eraseList_dropKids (kids : List FootBox) (k : Nat) : eraseList (dropKids kids k) = (eraseList kids).drop k := by
  induction kids generalizing k with
  | nil => cases k <;> simp [dropKids, eraseList]
  | cons b bs ih =>
    cases k with
    | zero => simp [dropKids]
    | succ k => simp [dropKids, eraseList, ih]

mutual
/-- **Segment + progress post-condition of `block_level_layout` with footnotes**: whatever the footnote state
does to the page bottom, the fragment holds a contiguous run of lines from the skip position, the resume
position is strictly later, nothing is lost. -/
theorem boxF_spec : (box : FootBox) → Good box.erase → ∀ (c : FCtx) (idx : Nat) (y bs : Rat) (skip : Option Resume)
    (cb pie : Bool) (adjL : List Rat) (fs : FState),
    BoxPost box.erase skip (layoutBoxF c box idx y bs skip cb pie adjL fs).r.frag
      (layoutBoxF c box idx y bs skip cb pie adjL fs).r.resume
  | .para id n lineH st calls => by
    intro hg c idx y bs skip cb pie adjL fs
    exact paraF_spec id n lineH st calls hg c idx y bs skip cb pie adjL fs
  | .block id st kids => by
    intro hg c idx y bs skip cb pie adjL fs
    simp only [FootBox.erase, Good] at hg
    simp only [layoutBoxF, finishBlockF_r, FootBox.erase]
    apply finishBlock_post _ _ _ _ _ _ _ _ _ hg.1
    have := kidsF_spec kids hg.2 c st [] (skipIdxOf skip) (subSkipOf skip) 0 (skipIdxOf skip)
      (prepare (ctxOf c fs) st y bs skip cb pie adjL).bs pie
      { newChildren := [], posY := (prepare (ctxOf c fs) st y bs skip cb pie adjL).posY,
        adjL := (prepare (ctxOf c fs) st y bs skip cb pie adjL).adjL,
        cur := (prepare (ctxOf c fs) st y bs skip cb pie adjL).cur,
        curIsL := (prepare (ctxOf c fs) st y bs skip cb pie adjL).curIsL,
        nextPage := { brk := none, page := none }, skip := subSkipOf skip } fs
      (by simp [GoodList]) (by simp [FullFrom]) (by intro _; exact ⟨rfl, rfl⟩) (by intro h; simp; omega)
      (by simp)
    simpa using this
theorem kidsF_spec : (rest : List FootBox) → GoodList (eraseList rest) → ∀ (c : FCtx) (st : PStyle) (B : List PBox)
    (i0 : Nat) (sub0 : Option Resume) (index skipIdx : Nat) (bs : Rat) (pie : Bool) (s : KidsLoop) (fs : FState),
    GoodList B → FullFrom s.newChildren B i0 sub0 →
    (index < skipIdx → B = [] ∧ i0 = skipIdx) → (skipIdx ≤ index → index = i0 + B.length) →
    s.skip = (if B = [] then sub0 else none) →
    KidsPost (B ++ (eraseList rest).drop (skipIdx - index)) i0 sub0
      (layoutKidsF c st rest index skipIdx bs pie s fs).1
  | [] => by
    intro _ c st B i0 sub0 index skipIdx bs pie s fs hgB hinv _ _ _
    simp only [layoutKidsF, eraseList, List.drop_nil, List.append_nil, KidsPost]
    exact hinv
  | child :: rest => by
    intro hg c st B i0 sub0 index skipIdx bs pie s fs hgB hinv hlt hge hskip
    simp only [eraseList, GoodList] at hg
    simp only [eraseList]
    unfold layoutKidsF
    by_cases hc : index < skipIdx
    · rw [if_pos hc]
      obtain ⟨hB, hi0⟩ := hlt hc
      have hd : (child.erase :: eraseList rest).drop (skipIdx - index) =
          (eraseList rest).drop (skipIdx - (index + 1)) := by
        have : skipIdx - index = (skipIdx - (index + 1)) + 1 := by omega
        rw [this, List.drop_succ_cons]
      rw [hd]
      exact kidsF_spec rest hg.2 c st B i0 sub0 (index + 1) skipIdx bs pie s fs hgB hinv
        (fun _ => ⟨hB, hi0⟩) (by intro _; subst hB; simp; omega) hskip
    · rw [if_neg hc]
      have hidx := hge (by omega)
      have hd : skipIdx - index = 0 := by omega
      rw [hd, List.drop_zero]
      dsimp only
      split
      · -- forced break before `child`
        rename_i hforced
        rw [hidx]
        apply stop_before_spec _ _ _ _ _ hinv
        intro he
        rw [meetBreak_nil s child.erase he] at hforced
        cases hforced
      · have hnext : ∀ (s3 : KidsLoop) (fs3 : FState), FullFrom s3.newChildren (B ++ [child.erase]) i0 sub0 →
            s3.skip = none →
            KidsPost (B ++ child.erase :: eraseList rest) i0 sub0
              (layoutKidsF c st rest (index + 1) skipIdx bs pie s3 fs3).1 := by
          intro s3 fs3 h3 hs3
          have := kidsF_spec rest hg.2 c st (B ++ [child.erase]) i0 sub0 (index + 1) skipIdx bs pie s3 fs3
            (goodList_append _ _ hgB (by simp [GoodList, hg.1])) h3 (by intro _; omega)
            (by intro _; simp; omega) (by simp [hs3])
          have hd' : skipIdx - (index + 1) = 0 := by omega
          simpa [hd'] using this
        split
        · -- first pass kept (or discarded) the child
          rename_i frag posY hfp
          have hchild : BoxPost child.erase (if B = [] then sub0 else none) frag
              (layoutBoxF c child index s.posY bs s.skip st.isRoot (pie && s.newChildren.isEmpty) s.cur fs).r.resume := by
            rcases firstPass_keep _ _ _ _ _ _ _ hfp with h | h
            · rw [h]; exact boxPost_none _ _ _
            · rw [h, ← hskip]; exact boxF_spec child hg.1 _ _ _ _ _ _ _ _ _
          split
          · rename_i out s3 heq
            exact (conclude_spec _ _ _ _ _ _ _ B (eraseList rest) i0 sub0 hgB (by simpa using hinv) hidx hchild).1
              out s3 heq
          · rename_i s3 heq
            have hcs := (conclude_spec _ _ _ _ _ _ _ B (eraseList rest) i0 sub0 hgB (by simpa using hinv) hidx
              hchild).2 s3 heq
            exact hnext s3 _ hcs.1 hcs.2
        · -- second layout with a larger bottom space
          rename_i bs' hfp
          split
          · rename_i out s3 heq
            refine (conclude_spec _ _ _ _ _ _ _ B (eraseList rest) i0 sub0 hgB (by simpa using hinv) hidx ?_).1
              out s3 heq
            rw [← hskip]; exact boxF_spec child hg.1 _ _ _ _ _ _ _ _ _
          · rename_i s3 heq
            have hcs := (conclude_spec _ _ _ _ _ _ _ B (eraseList rest) i0 sub0 hgB (by simpa using hinv) hidx
              (by rw [← hskip]; exact boxF_spec child hg.1 _ _ _ _ _ _ _ _ _)).2 s3 heq
            exact hnext s3 _ hcs.1 hcs.2
end

end Wp.PMF
