/-
Helper lemmas about the paragraph part of PM (`lineLoop`, `breakLine`, `lineboxLayout`).
-/
import WpModel.Model.Paginate

namespace Wp.PM
open Wp

def outLines : LineOutcome → List (Nat × Rat)
  | .done s => s.lines
  | .broke _ _ _ s => s.lines

theorem breakLine_lines (st : PStyle) (n i : Nat) (lines : List (Nat × Rat)) (pie : Bool)
    (skip resume : Option Resume) :
    ∃ m, m ≤ lines.length ∧ (breakLine st n i lines pie skip resume).2.2.2 = lines.take m := by
  unfold breakLine
  dsimp only
  repeat' split
  all_goals first
    | exact ⟨_, Nat.sub_le _ _, rfl⟩
    | exact ⟨lines.length, Nat.le_refl _, (List.take_length).symm⟩

theorem range'_take (k a m : Nat) (h : m ≤ a) : (List.range' k a).take m = List.range' k m := by
  induction m generalizing k a with
  | zero => simp
  | succ m ih =>
    cases a with
    | zero => omega
    | succ a =>
      simp only [List.range'_succ, List.take_succ_cons]
      rw [ih (k + 1) a (by omega)]

/-- The lines produced by the loop are numbered consecutively from `k`. -/
theorem lineLoop_contiguous (c : Ctx) (st : PStyle) (b : BoxSt) (n : Nat) (lineH : Rat) (pie : Bool) (bs : Rat)
    (k : Nat) (fuel i : Nat) (y : Rat) (s : LineLoop)
    (hk : k ≤ i) (hs : s.lines.map Prod.fst = List.range' k (i - k)) :
    ∃ m, m ≤ (i - k) + fuel ∧
      (outLines (lineLoop c st b n lineH pie bs fuel i y s)).map Prod.fst = List.range' k m := by
  fun_induction lineLoop c st b n lineH pie bs fuel i y s with
  | case1 i y s => exact ⟨i - k, by omega, hs⟩
  | case2 fuel i y s resume newPosY dbd offset overflow hov abort stop r lines' hb =>
    obtain ⟨m, hm, hl⟩ := breakLine_lines st n i s.lines pie s.skip resume
    rw [hb] at hl
    simp only at hl
    have hlen : s.lines.length = i - k := by
      have := congrArg List.length hs
      simpa using this
    refine ⟨m, by omega, ?_⟩
    simp only [outLines, hl, List.map_take, hs]
    exact range'_take _ _ _ (by omega)
  | case3 fuel i y s resume newPosY dbd offset overflow hov shift newPosY' lineY mt' ih =>
    have : (s.lines ++ [(i, lineY)]).map Prod.fst = List.range' k (i + 1 - k) := by
      rw [List.map_append, hs]
      have : i + 1 - k = (i - k) + 1 := by omega
      rw [this, List.range'_concat]
      simp
      omega
    obtain ⟨m, hm, hl⟩ := ih (by omega) this
    exact ⟨m, by omega, hl⟩

end Wp.PM

namespace Wp.PM
open Wp

/-- When the loop runs to the end, every remaining line has been placed. -/
theorem lineLoop_done (c : Ctx) (st : PStyle) (b : BoxSt) (n : Nat) (lineH : Rat) (pie : Bool) (bs : Rat)
    (k : Nat) (fuel i : Nat) (y : Rat) (s s' : LineLoop)
    (hk : k ≤ i) (hs : s.lines.map Prod.fst = List.range' k (i - k))
    (h : lineLoop c st b n lineH pie bs fuel i y s = .done s') :
    s'.lines.map Prod.fst = List.range' k ((i - k) + fuel) := by
  fun_induction lineLoop c st b n lineH pie bs fuel i y s with
  | case1 i y s => cases h; simpa using hs
  | case2 fuel i y s resume newPosY dbd offset overflow hov abort stop r lines' hb => cases h
  | case3 fuel i y s resume newPosY dbd offset overflow hov shift newPosY' lineY mt' ih =>
    have : (s.lines ++ [(i, lineY)]).map Prod.fst = List.range' k (i + 1 - k) := by
      rw [List.map_append, hs]
      have : i + 1 - k = (i - k) + 1 := by omega
      rw [this, List.range'_concat]
      simp
      omega
    have := ih (by omega) this h
    rw [this]
    congr 1
    omega

/-- `_break_line` on a page that is not empty: either the paragraph is aborted (pushed whole to the
next page) or at least `orphans` lines stay and at least `widows` lines go. `len` lines are laid out
so far, `i` is the line that does not fit. -/
theorem breakLine_orphans_widows (st : PStyle) (n i : Nat) (lines : List (Nat × Rat))
    (skip resume : Option Resume) (hi : i < n) (hw : 1 ≤ st.widows) :
    let r := breakLine st n i lines false skip resume
    r.1 = false → (r.2.2.2.length ≥ st.orphans ∧ (n - i) + (lines.length - r.2.2.2.length) ≥ st.widows) := by
  unfold breakLine
  dsimp only
  repeat' split
  all_goals simp_all
  all_goals omega

end Wp.PM

namespace Wp.PM
open Wp

theorem lineLoop_break_orphans_widows (c : Ctx) (st : PStyle) (b : BoxSt) (n : Nat) (lineH : Rat) (bs : Rat)
    (k : Nat) (fuel i : Nat) (y : Rat) (s s' : LineLoop) (stop : Bool) (r : Option Resume)
    (hk : k ≤ i) (hlen : s.lines.length = i - k) (hn : i + fuel = n) (hw : 1 ≤ st.widows)
    (h : lineLoop c st b n lineH false bs fuel i y s = .broke false stop r s') :
    s'.lines.length ≥ st.orphans ∧ n - (k + s'.lines.length) ≥ st.widows := by
  fun_induction lineLoop c st b n lineH false bs fuel i y s with
  | case1 i y s => cases h
  | case2 fuel i y s resume newPosY dbd offset overflow hov abort stop' r' lines' hb =>
    simp only [LineOutcome.broke.injEq] at h
    obtain ⟨ha, _, _, hs'⟩ := h
    have key := breakLine_orphans_widows st n i s.lines s.skip resume (by omega) hw
    simp only [hb] at key
    have h1 := key ha
    obtain ⟨m, hm, hl⟩ := breakLine_lines st n i s.lines false s.skip resume
    rw [hb] at hl
    simp only at hl
    have h2 : lines'.length ≤ s.lines.length := by rw [hl, List.length_take]; omega
    rw [← hs']
    simp only
    omega
  | case3 fuel i y s resume newPosY dbd offset overflow hov shift newPosY' lineY mt' ih =>
    exact ih (by omega) (by simp [hlen]; omega) (by omega) h

end Wp.PM
