/-
Simulation between the cached emission of `Stream` (early returns on cache hits, `pop_state` / `begin_text` peepholes)
and the cache-free reference emission, with respect to the reference graphics-state interpreter of Model/PdfStream.
Core Lean only.
-/
import WpModel.Model.PdfStream
import WpModel.Lemmas.PdfRes
namespace Wp.Pdf

/-- Current graphics state after the operators. -/
def curG (r : List Op) : GS := (G r).1

theorem G_cons (o : Op) (r : List Op) : G (o :: r) = applyOp o (G r) := rfl

theorem paints_cons (o : Op) (r : List Op) :
    paints (o :: r) = if o.isPaint then (o, (G r).1) :: paints r else paints r := rfl

/-- Operators that leave the modelled part of the graphics state alone and are not `q`, `Q`, `ET`. -/
def Op.inert : Op → Bool
  | .q | .Q | .ET | .gs .. | .rgb .. | .cs .. | .scn .. | .Tf .. => false
  | _ => true

theorem applyOp_inert (o : Op) (h : o.inert = true) (st : GStk) : applyOp o st = st := by
  cases o <;> simp [Op.inert] at h <;> rfl

theorem applyOp_ET (st : GStk) : applyOp .ET st = st := rfl
theorem applyOp_BT (st : GStk) : applyOp .BT st = st := rfl

theorem applyOp_Q_q (st : GStk) : applyOp .Q (applyOp .q st) = st := by
  simp [applyOp]

theorem curG_q (r : List Op) : curG (.q :: r) = curG r := rfl

theorem curG_qs (qs r : List Op) (h : ∀ o ∈ qs, o = .q) : curG (qs ++ r) = curG r := by
  induction qs with
  | nil => rfl
  | cons o qs ih =>
    have ho : o = .q := h o List.mem_cons_self
    subst ho
    rw [List.cons_append, curG_q]
    exact ih (fun x hx => h x (List.mem_cons_of_mem _ hx))

/-- What the fill / stroke colour of the graphics state is after `colourOps c stroke`. -/
def colState (c : Colour) (stroke : Bool) : List Op :=
  match spaceClass c.space with
  | .rgb => [.rgb c.k1 c.k2 c.k3 stroke]
  | .labD65 => [.scn [c.k1, c.k2, c.k3] none stroke, .cs "lab-d65" stroke]
  | .labD50 => [.scn [c.k1, c.k2, c.k3] none stroke, .cs "lab-d50" stroke]
  | .other => [.rgb c.c1.orZero c.c2.orZero c.c3.orZero stroke]

/-- Fold of `applyOp` over operators emitted in order. -/
def applyOps (os : List Op) (st : GStk) : GStk := os.foldl (fun acc o => applyOp o acc) st

theorem G_emitAll (s : SState) (os : List Op) : G (s.emitAll os).rops = applyOps os (G s.rops) := by
  induction os generalizing s with
  | nil => rfl
  | cons o os ih =>
    simp only [SState.emitAll, List.foldl_cons, applyOps] at ih ⊢
    rw [ih (s.emit o)]
    rfl

theorem paints_emitAll_nonpaint (s : SState) (os : List Op) (h : ∀ o ∈ os, o.isPaint = false) :
    paints (s.emitAll os).rops = paints s.rops := by
  induction os generalizing s with
  | nil => rfl
  | cons o os ih =>
    simp only [SState.emitAll, List.foldl_cons] at ih ⊢
    rw [ih (s.emit o) (fun x hx => h x (List.mem_cons_of_mem _ hx))]
    simp [SState.emit, paints_cons, h o List.mem_cons_self]

theorem colourOps_fill (c : Colour) (st : GStk) :
    applyOps (colourOps c false) st = ({ st.1 with fill := colState c false }, st.2) := by
  unfold colourOps colState
  cases spaceClass c.space <;> simp [applyOps, applyOp]

theorem colourOps_stroke (c : Colour) (st : GStk) :
    applyOps (colourOps c true) st = ({ st.1 with stroke := colState c true }, st.2) := by
  unfold colourOps colState
  cases spaceClass c.space <;> simp [applyOps, applyOp]

theorem colourOps_nonpaint (c : Colour) (stroke : Bool) : ∀ o ∈ colourOps c stroke, o.isPaint = false := by
  intro o ho
  unfold colourOps at ho
  split at ho <;> simp at ho <;> rcases ho with rfl | rfl <;> rfl


/-! ### Simulation between the cached emission and the cache-free reference emission -/

/-- `sc` (cached, with peepholes) and `sn` (reference) have executed the same calls. -/
structure Sim (cols : List Colour) (r : Res) (sc sn : SState) : Prop where
  g : G sc.rops = G sn.rops
  p : paints sc.rops = paints sn.rops
  ctm : sc.ctm = sn.ctm
  mark : sc.mark = sn.mark
  marked : sc.marked = sn.marked
  colF : ∀ k, sc.colF = some k → ∃ c, c ∈ cols ∧ c.key = k ∧ (curG sc.rops).fill = colState c false
  colS : ∀ k, sc.colS = some k → ∃ c, c ∈ cols ∧ c.key = k ∧ (curG sc.rops).stroke = colState c true
  aF : ∀ k, sc.alphaF = some k → ∃ α, k = .a α ∧ (curG sc.rops).ca = some α ∧ r.hasG k = true
  aS : ∀ k, sc.alphaS = some k → ∃ α, k = .A α ∧ (curG sc.rops).CA = some α ∧ r.hasG k = true
  font : ∀ f, sc.font = some f → (curG sc.rops).font = some f
  old : ∀ qs r', sc.rops = qs ++ r' → (∀ o ∈ qs, o = .q) → r'.head? = some .ET →
    ∀ f, sc.oldFont = some f → (curG r').font = some f

theorem Sim.res_mono {cols : List Colour} {r r' : Res} {sc sn : SState} (h : Sim cols r sc sn) (hle : r.le r') :
    Sim cols r' sc sn :=
  { h with
    aF := fun k hk => by obtain ⟨α, h1, h2, h3⟩ := h.aF k hk; exact ⟨α, h1, h2, hle.g k h3⟩
    aS := fun k hk => by obtain ⟨α, h1, h2, h3⟩ := h.aS k hk; exact ⟨α, h1, h2, hle.g k h3⟩ }

/-- The `old` clause for a stream whose newest operator is neither `q` nor `ET`. -/
theorem old_vacuous (o : Op) (rops : List Op) (oldFont : Option (String × Rat)) (h1 : o ≠ .q) (h2 : o ≠ .ET) :
    ∀ qs r', o :: rops = qs ++ r' → (∀ x ∈ qs, x = .q) → r'.head? = some .ET →
      ∀ f, oldFont = some f → (curG r').font = some f := by
  intro qs r' heq hq hET
  cases qs with
  | nil =>
    simp at heq; subst heq
    simp at hET; exact absurd hET h2
  | cons x qs =>
    simp at heq
    have := hq x List.mem_cons_self
    rw [← heq.1] at this
    exact absurd this h1

/-- Both emit the same operator that leaves the modelled graphics state alone. -/
theorem Sim.emit_inert {cols : List Colour} {r : Res} {sc sn : SState} (h : Sim cols r sc sn) (o : Op)
    (ho : o.inert = true) : Sim cols r (sc.emit o) (sn.emit o) := by
  have hq : o ≠ .q := by intro e; subst e; simp [Op.inert] at ho
  have hE : o ≠ .ET := by intro e; subst e; simp [Op.inert] at ho
  have hcur : curG (o :: sc.rops) = curG sc.rops := by
    simp only [curG, G_cons, applyOp_inert o ho]
  refine ⟨?_, ?_, h.ctm, h.mark, h.marked, ?_, ?_, ?_, ?_, ?_, ?_⟩
  · simp only [SState.emit, G_cons, h.g]
  · simp only [SState.emit, paints_cons, h.g, h.p]
  · intro k hk; simpa [SState.emit, hcur] using h.colF k hk
  · intro k hk; simpa [SState.emit, hcur] using h.colS k hk
  · intro k hk; simpa [SState.emit, hcur] using h.aF k hk
  · intro k hk; simpa [SState.emit, hcur] using h.aS k hk
  · intro f hf; simpa [SState.emit, hcur] using h.font f hf
  · exact old_vacuous o sc.rops sc.oldFont hq hE

/-- Changing fields that are not caches (`_ctm_stack`, `marked`) identically on both sides. -/
theorem Sim.with_same {cols : List Colour} {r : Res} {sc sn sc' sn' : SState} (h : Sim cols r sc sn)
    (hc : sc'.rops = sc.rops) (hn : sn'.rops = sn.rops) (hctm : sc'.ctm = sn'.ctm) (hmark : sc'.mark = sn'.mark)
    (hmarked : sc'.marked = sn'.marked) (h1 : sc'.colF = sc.colF) (h2 : sc'.colS = sc.colS)
    (h3 : sc'.alphaF = sc.alphaF) (h4 : sc'.alphaS = sc.alphaS) (h5 : sc'.font = sc.font)
    (h6 : sc'.oldFont = sc.oldFont) : Sim cols r sc' sn' := by
  refine ⟨by rw [hc, hn]; exact h.g, by rw [hc, hn]; exact h.p, hctm, hmark, hmarked, ?_, ?_, ?_, ?_, ?_, ?_⟩
  · rw [hc, h1]; exact h.colF
  · rw [hc, h2]; exact h.colS
  · rw [hc, h3]; exact h.aF
  · rw [hc, h4]; exact h.aS
  · rw [hc, h5]; exact h.font
  · rw [hc, h6]; exact h.old


theorem emitAll_eq (s : SState) (os : List Op) : s.emitAll os = { s with rops := os.reverse ++ s.rops } := by
  induction os generalizing s with
  | nil => rfl
  | cons o os ih =>
    simp only [SState.emitAll, List.foldl_cons] at ih ⊢
    rw [ih (s.emit o)]
    simp [SState.emit]

theorem G_rev_append (os : List Op) (r : List Op) : G (os.reverse ++ r) = applyOps os (G r) := by
  induction os generalizing r with
  | nil => rfl
  | cons o os ih =>
    rw [List.reverse_cons, List.append_assoc, ih]
    rfl

theorem paints_rev_append (os : List Op) (r : List Op) (h : ∀ o ∈ os, o.isPaint = false) :
    paints (os.reverse ++ r) = paints r := by
  induction os generalizing r with
  | nil => rfl
  | cons o os ih =>
    rw [List.reverse_cons, List.append_assoc, ih _ (fun x hx => h x (List.mem_cons_of_mem _ hx))]
    simp [paints_cons, h o List.mem_cons_self]

theorem old_vacuous_list (os : List Op) (rops : List Op) (oldFont : Option (String × Rat)) (hne : os ≠ [])
    (h : ∀ o ∈ os, o ≠ .q ∧ o ≠ .ET) :
    ∀ qs r', os.reverse ++ rops = qs ++ r' → (∀ x ∈ qs, x = .q) → r'.head? = some .ET →
      ∀ f, oldFont = some f → (curG r').font = some f := by
  obtain ⟨l, o, rfl⟩ : ∃ l o, os = l ++ [o] := by
    cases h' : os.reverse with
    | nil => simp at h'; exact absurd h' hne
    | cons o l => exact ⟨l.reverse, o, by rw [← List.reverse_reverse os, h']; simp⟩
  have ho := h o (by simp)
  rw [List.reverse_append]
  exact old_vacuous o _ oldFont ho.1 ho.2

theorem applyOp_gs (k : GKey) (d : ExtG) (st : GStk) : applyOp (.gs k d) st = (applyG d st.1, st.2) := rfl

/-- State-setting operators emitted on both sides (cache miss): `upd` is their effect on the current state. -/
theorem Sim.emit_set {cols : List Colour} {r : Res} {sc sn : SState} (h : Sim cols r sc sn) (os : List Op)
    (upd : GS → GS) (happ : ∀ st : GStk, applyOps os st = (upd st.1, st.2)) (hnp : ∀ o ∈ os, o.isPaint = false)
    (hne : os ≠ []) (hqE : ∀ o ∈ os, o ≠ .q ∧ o ≠ .ET) (sc' : SState) (hrops : sc'.rops = os.reverse ++ sc.rops)
    (hctm : sc'.ctm = sc.ctm) (hmark : sc'.mark = sc.mark) (hmarked : sc'.marked = sc.marked)
    (hcolF : ∀ k, sc'.colF = some k → ∃ c, c ∈ cols ∧ c.key = k ∧ (upd (curG sc.rops)).fill = colState c false)
    (hcolS : ∀ k, sc'.colS = some k → ∃ c, c ∈ cols ∧ c.key = k ∧ (upd (curG sc.rops)).stroke = colState c true)
    (haF : ∀ k, sc'.alphaF = some k → ∃ α, k = .a α ∧ (upd (curG sc.rops)).ca = some α ∧ r.hasG k = true)
    (haS : ∀ k, sc'.alphaS = some k → ∃ α, k = .A α ∧ (upd (curG sc.rops)).CA = some α ∧ r.hasG k = true)
    (hfont : ∀ f, sc'.font = some f → (upd (curG sc.rops)).font = some f) :
    Sim cols r sc' (sn.emitAll os) := by
  have hcur : curG (os.reverse ++ sc.rops) = upd (curG sc.rops) := by simp only [curG, G_rev_append, happ]
  rw [emitAll_eq]
  refine ⟨?_, ?_, by rw [hctm]; exact h.ctm, by rw [hmark]; exact h.mark, by rw [hmarked]; exact h.marked,
    ?_, ?_, ?_, ?_, ?_, ?_⟩
  · simp only [hrops, G_rev_append, h.g]
  · simp only [hrops, paints_rev_append _ _ hnp, h.p]
  · rw [hrops, hcur]; exact hcolF
  · rw [hrops, hcur]; exact hcolS
  · rw [hrops, hcur]; exact haF
  · rw [hrops, hcur]; exact haS
  · rw [hrops, hcur]; exact hfont
  · rw [hrops]; exact old_vacuous_list os sc.rops sc'.oldFont hne hqE

/-- The reference side emits state-setting operators that do not change its state (cache hit on the other side). -/
theorem Sim.naive_noop {cols : List Colour} {r : Res} {sc sn : SState} (h : Sim cols r sc sn) (os : List Op)
    (hnp : ∀ o ∈ os, o.isPaint = false) (hfix : applyOps os (G sn.rops) = G sn.rops) :
    Sim cols r sc (sn.emitAll os) := by
  rw [emitAll_eq]
  refine ⟨?_, ?_, h.ctm, h.mark, h.marked, h.colF, h.colS, h.aF, h.aS, h.font, h.old⟩
  · simp only [G_rev_append, hfix, h.g]
  · simp only [paints_rev_append _ _ hnp, h.p]

theorem applyOps_single (o : Op) (st : GStk) : applyOps [o] st = applyOp o st := rfl

theorem sim_alphaStroke {cols : List Colour} {r : Res} {sc sn : SState} (h : Sim cols r sc sn) (α : Num) :
    Sim cols (setAlphaStroke r sc α).2 (setAlphaStroke r sc α).1 (sn.emit (.gs (.A α) { CA := some α })) ∧
    (setAlphaStroke r sc α).2 = r.ensureG (.A α) { CA := some α } := by
  unfold setAlphaStroke
  split
  · refine ⟨?_, rfl⟩
    have h' := h.res_mono (ensureG_le r (.A α) { CA := some α })
    show Sim cols (r.ensureG (.A α) { CA := some α })
      ({ sc with alphaS := some (GKey.A α) }.emit (.gs (.A α) { CA := some α })) (sn.emitAll [.gs (.A α) { CA := some α }])
    refine h'.emit_set [.gs (.A α) { CA := some α }] (applyG { CA := some α }) (fun st => rfl)
      (by simp [Op.isPaint]) (by simp) (by simp) _ rfl rfl rfl rfl ?_ ?_ ?_ ?_ ?_
    · intro k hk; simpa [applyG] using h'.colF k hk
    · intro k hk; simpa [applyG] using h'.colS k hk
    · intro k hk; simpa [applyG] using h'.aF k hk
    · intro k hk
      simp [SState.emit] at hk; subst hk
      exact ⟨α, rfl, by simp [applyG], ensureG_has _ _ _⟩
    · intro f hf; simpa [applyG] using h'.font f hf
  · rename_i hhit
    have hk : sc.alphaS = some (.A α) := by simpa using hhit
    obtain ⟨α', hα, hca, hhas⟩ := h.aS _ hk
    cases hα
    have hens : r.ensureG (.A α) { CA := some α } = r := by simp [Res.ensureG, hhas]
    refine ⟨?_, hens.symm⟩
    show Sim cols r sc (sn.emitAll [.gs (.A α) { CA := some α }])
    apply h.naive_noop _ (by simp [Op.isPaint])
    rw [applyOps_single, applyOp_gs]
    have : (G sn.rops).1.CA = some α := by rw [← h.g]; exact hca
    simp only [applyG]
    rw [← this]

theorem sim_alphaFill {cols : List Colour} {r : Res} {sc sn : SState} (h : Sim cols r sc sn) (α : Num) :
    Sim cols (setAlphaFill r sc α).2 (setAlphaFill r sc α).1 (sn.emit (.gs (.a α) { ca := some α })) ∧
    (setAlphaFill r sc α).2 = r.ensureG (.a α) { ca := some α } := by
  unfold setAlphaFill
  split
  · refine ⟨?_, rfl⟩
    have h' := h.res_mono (ensureG_le r (.a α) { ca := some α })
    show Sim cols (r.ensureG (.a α) { ca := some α })
      ({ sc with alphaF := some (GKey.a α) }.emit (.gs (.a α) { ca := some α })) (sn.emitAll [.gs (.a α) { ca := some α }])
    refine h'.emit_set [.gs (.a α) { ca := some α }] (applyG { ca := some α }) (fun st => rfl)
      (by simp [Op.isPaint]) (by simp) (by simp) _ rfl rfl rfl rfl ?_ ?_ ?_ ?_ ?_
    · intro k hk; simpa [applyG] using h'.colF k hk
    · intro k hk; simpa [applyG] using h'.colS k hk
    · intro k hk
      simp [SState.emit] at hk; subst hk
      exact ⟨α, rfl, by simp [applyG], ensureG_has _ _ _⟩
    · intro k hk; simpa [applyG] using h'.aS k hk
    · intro f hf; simpa [applyG] using h'.font f hf
  · rename_i hhit
    have hk : sc.alphaF = some (.a α) := by simpa using hhit
    obtain ⟨α', hα, hca, hhas⟩ := h.aF _ hk
    cases hα
    have hens : r.ensureG (.a α) { ca := some α } = r := by simp [Res.ensureG, hhas]
    refine ⟨?_, hens.symm⟩
    show Sim cols r sc (sn.emitAll [.gs (.a α) { ca := some α }])
    apply h.naive_noop _ (by simp [Op.isPaint])
    rw [applyOps_single, applyOp_gs]
    have : (G sn.rops).1.ca = some α := by rw [← h.g]; exact hca
    simp only [applyG]
    rw [← this]

theorem sim_setAlpha {cols : List Colour} {r : Res} {sc sn : SState} (h : Sim cols r sc sn) (α : Num)
    (stroke : Bool) (fill : Option Bool) :
    Sim cols (setAlpha r sc α stroke fill).2 (setAlpha r sc α stroke fill).1 (setAlphaNaive r sn α stroke fill).1 ∧
    (setAlpha r sc α stroke fill).2 = (setAlphaNaive r sn α stroke fill).2 := by
  unfold setAlpha setAlphaNaive alphaStrokePart
  simp only
  cases stroke
  · simp only [Bool.false_eq_true, if_false]
    split
    · exact sim_alphaFill h α
    · exact ⟨h, rfl⟩
  · simp only [if_true]
    obtain ⟨h1, e1⟩ := sim_alphaStroke h α
    split
    · obtain ⟨h2, e2⟩ := sim_alphaFill h1 α
      refine ⟨h2, ?_⟩
      rw [e2, e1]
    · exact ⟨h1, e1⟩

theorem colourOps_ne_nil (c : Colour) (stroke : Bool) : colourOps c stroke ≠ [] := by
  unfold colourOps; cases spaceClass c.space <;> simp

theorem colourOps_qE (c : Colour) (stroke : Bool) : ∀ o ∈ colourOps c stroke, o ≠ .q ∧ o ≠ .ET := by
  intro o ho
  unfold colourOps at ho
  cases hs : spaceClass c.space <;> rw [hs] at ho <;> simp at ho <;> rcases ho with rfl | rfl <;> simp

/-- The colour part of `set_color`, for colours of a consistent palette. -/
theorem sim_setColorOnly {cols : List Colour} {r : Res} {sc sn : SState} (h : Sim cols r sc sn) (c : Colour)
    (stroke : Bool) (hc : c ∈ cols)
    (hcons : ∀ c', c' ∈ cols → c'.key = c.key → colState c' false = colState c false ∧
      colState c' true = colState c true) :
    Sim cols r (setColorOnly sc c stroke) (sn.emitAll (colourOps c stroke)) := by
  have hnp := colourOps_nonpaint c stroke
  unfold setColorOnly
  cases stroke
  · simp only [Bool.false_eq_true, if_false]
    split
    · rename_i hhit
      have hk : sc.colF = some c.key := by simpa using hhit
      obtain ⟨c', hc', hkey, hfill⟩ := h.colF _ hk
      apply h.naive_noop _ hnp
      rw [colourOps_fill]
      have : (G sn.rops).1.fill = colState c false := by
        rw [← h.g, ← (hcons c' hc' hkey).1]; exact hfill
      rw [← this]
    · rw [emitAll_eq]
      refine h.emit_set (colourOps c false) (fun g => { g with fill := colState c false })
        (fun st => colourOps_fill c st) hnp (colourOps_ne_nil c false) (colourOps_qE c false) _ rfl rfl rfl rfl
        ?_ ?_ ?_ ?_ ?_
      · intro k hk
        simp at hk; subst hk
        exact ⟨c, hc, rfl, rfl⟩
      · intro k hk; exact h.colS k hk
      · intro k hk; exact h.aF k hk
      · intro k hk; exact h.aS k hk
      · intro f hf; exact h.font f hf
  · simp only [if_true]
    split
    · rename_i hhit
      have hk : sc.colS = some c.key := by simpa using hhit
      obtain ⟨c', hc', hkey, hfill⟩ := h.colS _ hk
      apply h.naive_noop _ hnp
      rw [colourOps_stroke]
      have : (G sn.rops).1.stroke = colState c true := by
        rw [← h.g, ← (hcons c' hc' hkey).2]; exact hfill
      rw [← this]
    · rw [emitAll_eq]
      refine h.emit_set (colourOps c true) (fun g => { g with stroke := colState c true })
        (fun st => colourOps_stroke c st) hnp (colourOps_ne_nil c true) (colourOps_qE c true) _ rfl rfl rfl rfl
        ?_ ?_ ?_ ?_ ?_
      · intro k hk; exact h.colF k hk
      · intro k hk
        simp at hk; subst hk
        exact ⟨c, hc, rfl, rfl⟩
      · intro k hk; exact h.aF k hk
      · intro k hk; exact h.aS k hk
      · intro f hf; exact h.font f hf


theorem sim_push {cols : List Colour} {r : Res} {sc sn : SState} (h : Sim cols r sc sn) (m : List Mat) :
    Sim cols r ({ sc with ctm := m }.emit .q) ({ sn with ctm := m }.emit .q) := by
  have hcur : curG (.q :: sc.rops) = curG sc.rops := rfl
  refine ⟨?_, ?_, rfl, h.mark, h.marked, ?_, ?_, ?_, ?_, ?_, ?_⟩
  · simp only [SState.emit, G_cons, h.g]
  · simp only [SState.emit, paints_cons, h.p]; simp [Op.isPaint]
  · intro k hk; exact h.colF k hk
  · intro k hk; exact h.colS k hk
  · intro k hk; exact h.aF k hk
  · intro k hk; exact h.aS k hk
  · intro f hf; exact h.font f hf
  · intro qs r' heq hq hET f hf
    cases qs with
    | nil =>
      simp [SState.emit] at heq; subst heq
      simp at hET
    | cons x qs =>
      simp [SState.emit] at heq
      exact h.old qs r' heq.2 (fun y hy => hq y (List.mem_cons_of_mem _ hy)) hET f hf

/-- `pop_state` against `Q`: the caches are cleared, a trailing `q` is dropped instead of writing `q Q`. -/
theorem sim_pop {cols : List Colour} {r : Res} {sc sn : SState} (h : Sim cols r sc sn) (m : List Mat) :
    Sim cols r { clearCaches (popOps sc) with ctm := m } ({ sn with ctm := m }.emit .Q) := by
  unfold popOps
  split
  · rename_i rest heq
    have hg : G rest = applyOp .Q (G sn.rops) := by
      rw [← h.g, heq, G_cons, applyOp_Q_q]
    refine ⟨?_, ?_, rfl, h.mark, h.marked, ?_, ?_, ?_, ?_, ?_, ?_⟩
    · simp only [clearCaches, SState.emit, G_cons]; exact hg
    · have := h.p
      rw [heq, paints_cons] at this
      simp only [clearCaches, SState.emit, paints_cons]
      simpa [Op.isPaint] using this
    · intro k hk; exact absurd hk (by simp [clearCaches])
    · intro k hk; exact absurd hk (by simp [clearCaches])
    · intro k hk; exact absurd hk (by simp [clearCaches])
    · intro k hk; exact absurd hk (by simp [clearCaches])
    · intro f hf; exact absurd hf (by simp [clearCaches])
    · intro qs r' heq' hq hET f hf
      simp only [clearCaches] at heq' hf
      exact h.old (.q :: qs) r' (by rw [heq, heq']; rfl)
        (by intro x hx; rcases List.mem_cons.mp hx with rfl | hx; rfl; exact hq x hx) hET f hf
  · refine ⟨?_, ?_, rfl, h.mark, h.marked, ?_, ?_, ?_, ?_, ?_, ?_⟩
    · simp only [clearCaches, SState.emit, G_cons, h.g]
    · simp only [clearCaches, SState.emit, paints_cons, h.p]; simp [Op.isPaint]
    · intro k hk; exact absurd hk (by simp [clearCaches, SState.emit])
    · intro k hk; exact absurd hk (by simp [clearCaches, SState.emit])
    · intro k hk; exact absurd hk (by simp [clearCaches, SState.emit])
    · intro k hk; exact absurd hk (by simp [clearCaches, SState.emit])
    · intro f hf; exact absurd hf (by simp [clearCaches, SState.emit])
    · exact old_vacuous .Q sc.rops _ (by simp) (by simp)

/-- `begin_text` against `BT`: a trailing `ET` is dropped and `_old_font` restored instead of writing `ET BT`. -/
theorem sim_beginText {cols : List Colour} {r : Res} {sc sn : SState} (h : Sim cols r sc sn) :
    Sim cols r (beginText sc) (sn.emit .BT) := by
  unfold beginText
  split
  · rename_i rest heq
    have hcur : curG rest = curG sc.rops := by rw [heq]; rfl
    refine ⟨?_, ?_, h.ctm, h.mark, h.marked, ?_, ?_, ?_, ?_, ?_, ?_⟩
    · have := h.g
      rw [heq, G_cons, applyOp_ET] at this
      simp only [SState.emit, G_cons, applyOp_BT]; exact this
    · have := h.p
      rw [heq, paints_cons] at this
      simp only [SState.emit, paints_cons]
      simpa [Op.isPaint] using this
    · intro k hk; rw [hcur]; exact h.colF k hk
    · intro k hk; rw [hcur]; exact h.colS k hk
    · intro k hk; rw [hcur]; exact h.aF k hk
    · intro k hk; rw [hcur]; exact h.aS k hk
    · intro f hf
      -- the restored `_old_font` is the font in force at the dropped `ET`
      rw [hcur]
      have := h.old [] sc.rops rfl (by simp) (by rw [heq]; rfl) f hf
      exact this
    · intro qs r' heq' hq hET f hf
      have h1 := h.old [] sc.rops rfl (by simp) (by rw [heq]; rfl) f hf
      have h2 : curG r' = curG sc.rops := by
        rw [← hcur]
        show curG r' = curG rest
        have : rest = qs ++ r' := heq'
        rw [this, curG_qs qs r' hq]
      rw [h2]; exact h1
  · exact h.emit_inert .BT rfl

theorem sim_endText {cols : List Colour} {r : Res} {sc sn : SState} (h : Sim cols r sc sn) :
    Sim cols r ({ sc with oldFont := sc.font, font := none }.emit .ET) (sn.emit .ET) := by
  have hcur : curG (.ET :: sc.rops) = curG sc.rops := rfl
  refine ⟨?_, ?_, h.ctm, h.mark, h.marked, ?_, ?_, ?_, ?_, ?_, ?_⟩
  · simp only [SState.emit, G_cons, h.g]
  · simp only [SState.emit, paints_cons, h.p]; simp [Op.isPaint]
  · intro k hk; exact h.colF k hk
  · intro k hk; exact h.colS k hk
  · intro k hk; exact h.aF k hk
  · intro k hk; exact h.aS k hk
  · intro f hf; exact absurd hf (by simp [SState.emit])
  · intro qs r' heq hq hET f hf
    cases qs with
    | nil =>
      simp [SState.emit] at heq; subst heq
      simp only [SState.emit] at hf
      rw [hcur]; exact h.font f hf
    | cons x qs =>
      simp [SState.emit] at heq
      have := hq x List.mem_cons_self
      rw [← heq.1] at this; cases this

theorem sim_setFont {cols : List Colour} {r : Res} {sc sn : SState} (h : Sim cols r sc sn) (f : String) (sz : Num) :
    Sim cols r (if sc.font == some (f, sz.val) then sc else { sc with font := some (f, sz.val) }.emit (.Tf f sz))
      (sn.emit (.Tf f sz)) := by
  split
  · rename_i hhit
    have hk : sc.font = some (f, sz.val) := by simpa using hhit
    have hf := h.font _ hk
    show Sim cols r sc (sn.emitAll [.Tf f sz])
    apply h.naive_noop _ (by simp [Op.isPaint])
    rw [applyOps_single]
    have : (G sn.rops).1.font = some (f, sz.val) := by rw [← h.g]; exact hf
    simp only [applyOp]
    rw [← this]
  · show Sim cols r ({ sc with font := some (f, sz.val) }.emit (.Tf f sz)) (sn.emitAll [.Tf f sz])
    refine h.emit_set [.Tf f sz] (fun g => { g with font := some (f, sz.val) }) (fun st => rfl)
      (by simp [Op.isPaint]) (by simp) (by simp) _ rfl rfl rfl rfl ?_ ?_ ?_ ?_ ?_
    · intro k hk; exact h.colF k hk
    · intro k hk; exact h.colS k hk
    · intro k hk; exact h.aF k hk
    · intro k hk; exact h.aS k hk
    · intro g hg
      simp [SState.emit] at hg; subst hg; rfl


/-- tinycss2's conversion is a function of the colour: equal cache keys give equal operators. -/
def Consistent (cols : List Colour) : Prop :=
  ∀ c c', c ∈ cols → c' ∈ cols → c'.key = c.key →
    colState c' false = colState c false ∧ colState c' true = colState c true

def callColours : List Call → List Colour
  | [] => []
  | .setColor c _ :: cs => c :: callColours cs
  | _ :: cs => callColours cs

theorem setState_inert_sim {cols : List Colour} {r : Res} {sc sn : SState} (h : Sim cols r sc sn) (d : ExtG)
    (hca : d.ca = none) (hCA : d.CA = none) :
    Sim cols (r.addG (.s r.extG.length) d) (sc.emit (.gs (.s r.extG.length) d)) (sn.emit (.gs (.s r.extG.length) d)) := by
  have h' := h.res_mono (addG_le r (.s r.extG.length) d)
  show Sim cols _ _ (sn.emitAll [.gs (.s r.extG.length) d])
  refine h'.emit_set [.gs (.s r.extG.length) d] id (fun st => by simp [applyOps, applyOp, applyG, hca, hCA])
    (by simp [Op.isPaint]) (by simp) (by simp) _ rfl rfl rfl rfl ?_ ?_ ?_ ?_ ?_
  · intro k hk; exact h'.colF k hk
  · intro k hk; exact h'.colS k hk
  · intro k hk; exact h'.aF k hk
  · intro k hk; exact h'.aS k hk
  · intro f hf; exact h'.font f hf

/-- `set_alpha_state` (as repaired): the graphics state gets `ca 1`, and the fill-alpha cache claims nothing. -/
theorem softMaskState_sim {cols : List Colour} {r : Res} {sc sn : SState} (h : Sim cols r sc sn) :
    Sim cols (softMaskState r sc).2 (softMaskState r sc).1 (softMaskState r sn).1 ∧
    (softMaskState r sc).2 = (softMaskState r sn).2 := by
  refine ⟨?_, rfl⟩
  have h' := h.res_mono (addG_le r (.s r.extG.length) softMaskDict)
  have hn : (softMaskState r sn).1 =
      { sn.emitAll [.gs (.s r.extG.length) softMaskDict] with alphaF := none } := rfl
  have hs : Sim cols (r.addG (.s r.extG.length) softMaskDict)
      ({ sc with alphaF := none }.emit (.gs (.s r.extG.length) softMaskDict))
      (sn.emitAll [.gs (.s r.extG.length) softMaskDict]) := by
    refine h'.emit_set [.gs (.s r.extG.length) softMaskDict] (applyG softMaskDict) (fun st => rfl)
      (by simp [Op.isPaint]) (by simp) (by simp) _ rfl rfl rfl rfl ?_ ?_ ?_ ?_ ?_
    · intro k hk; simpa [applyG, softMaskDict] using h'.colF k hk
    · intro k hk; simpa [applyG, softMaskDict] using h'.colS k hk
    · intro k hk; simp [SState.emit] at hk
    · intro k hk; simpa [applyG, softMaskDict] using h'.aS k hk
    · intro f hf; simpa [applyG, softMaskDict] using h'.font f hf
  rw [hn]
  exact ⟨hs.g, hs.p, hs.ctm, hs.mark, hs.marked, hs.colF, hs.colS, hs.aF, hs.aS, hs.font, hs.old⟩

theorem emitAll_inert_sim {cols : List Colour} {r : Res} {sc sn : SState} (h : Sim cols r sc sn) (os : List Op)
    (ho : ∀ o ∈ os, o.inert = true) : Sim cols r (sc.emitAll os) (sn.emitAll os) := by
  induction os generalizing sc sn with
  | nil => exact h
  | cons o os ih =>
    exact ih (h.emit_inert o (ho o List.mem_cons_self)) (fun x hx => ho x (List.mem_cons_of_mem _ hx))

theorem popState_ok (s s' : SState) (h : popState s = .ok s') :
    ∃ a b rest, s.ctm = a :: b :: rest ∧ s' = { clearCaches (popOps s) with ctm := b :: rest } := by
  have hctm : (clearCaches (popOps s)).ctm = s.ctm := by unfold clearCaches popOps; split <;> rfl
  unfold popState at h
  rw [hctm] at h
  cases hc : s.ctm with
  | nil => rw [hc] at h; simp at h
  | cons a t =>
    cases t with
    | nil => rw [hc] at h; simp at h
    | cons b rest =>
      rw [hc] at h; simp at h
      exact ⟨a, b, rest, rfl, h.symm⟩

/-- **One call**: the cached emission and the reference emission stay in simulation. -/
theorem step_sim (cols : List Colour) (hcons : Consistent cols) {r : Res} {sc sn : SState}
    (h : Sim cols r sc sn) (c : Call) (hsafe : c.cacheSafe = true)
    (hcol : ∀ col st, c = .setColor col st → col ∈ cols) (sc' : SState) (r' : Res)
    (hstep : stepS r sc c = .ok (sc', r')) :
    ∃ sn', stepNaive r sn c = .ok (sn', r') ∧ Sim cols r' sc' sn' := by
  cases c with
  | push =>
    simp only [stepS] at hstep
    split at hstep <;> simp at hstep
    rename_i top rest hc
    obtain ⟨rfl, rfl⟩ := hstep
    refine ⟨{ sn with ctm := top :: top :: rest }.emit .q, ?_, sim_push h _⟩
    simp [stepNaive, stepS, ← h.ctm, hc]
  | pop =>
    simp only [stepS, Except.map] at hstep
    cases hp : popState sc with
    | error e => rw [hp] at hstep; simp at hstep
    | ok sp =>
      rw [hp] at hstep; simp at hstep
      obtain ⟨rfl, rfl⟩ := hstep
      obtain ⟨a, b, rest, hc, rfl⟩ := popState_ok sc sp hp
      have hc' : sn.ctm = a :: b :: rest := by rw [← h.ctm]; exact hc
      exact ⟨{ sn with ctm := b :: rest }.emit .Q, by simp [stepNaive, hc'], sim_pop h (b :: rest)⟩
  | transform a b c d e f =>
    simp only [stepS] at hstep
    split at hstep <;> simp at hstep
    rename_i top rest hc
    obtain ⟨rfl, rfl⟩ := hstep
    refine ⟨{ sn with ctm := Mat.mul ⟨a.val, b.val, c.val, d.val, e.val, f.val⟩ top :: rest }.emit (.cm a b c d e f), ?_, ?_⟩
    · simp [stepNaive, stepS, ← h.ctm, hc]
    · exact (h.with_same (sc' := { sc with ctm := Mat.mul ⟨a.val, b.val, c.val, d.val, e.val, f.val⟩ top :: rest })
        (sn' := { sn with ctm := Mat.mul ⟨a.val, b.val, c.val, d.val, e.val, f.val⟩ top :: rest })
        rfl rfl rfl h.mark h.marked rfl rfl rfl rfl rfl rfl).emit_inert (.cm a b c d e f) rfl
  | beginText =>
    simp only [stepS] at hstep; simp at hstep
    obtain ⟨rfl, rfl⟩ := hstep
    exact ⟨sn.emit .BT, rfl, sim_beginText h⟩
  | endText =>
    simp only [stepS] at hstep; simp at hstep
    obtain ⟨rfl, rfl⟩ := hstep
    exact ⟨sn.emit .ET, rfl, sim_endText h⟩
  | setColor col stroke =>
    simp only [stepS] at hstep; simp at hstep
    have hc := hcol col stroke rfl
    obtain ⟨h1, e1⟩ := sim_setAlpha h col.alpha stroke none
    have h2 := sim_setColorOnly h1 col stroke hc (fun c' hc' hk => hcons col c' hc hc' hk)
    have hs : sc' = (setColor r sc col stroke).1 := by rw [hstep]
    have hr : r' = (setColor r sc col stroke).2 := by rw [hstep]
    subst hs hr
    refine ⟨_, ?_, h2⟩
    simp only [stepNaive, setColor, e1]
  | setFont f sz =>
    simp only [stepS] at hstep
    have := sim_setFont h f sz
    split at hstep <;> simp at hstep <;> obtain ⟨rfl, rfl⟩ := hstep
    · rename_i hhit
      rw [if_pos hhit] at this
      exact ⟨_, rfl, this⟩
    · rename_i hhit
      rw [if_neg hhit] at this
      exact ⟨_, rfl, this⟩
  | setAlpha α stroke fill =>
    simp only [stepS] at hstep; simp at hstep
    obtain ⟨h1, e1⟩ := sim_setAlpha h α stroke fill
    have hs : sc' = (setAlpha r sc α stroke fill).1 := by rw [hstep]
    have hr : r' = (setAlpha r sc α stroke fill).2 := by rw [hstep]
    subst hs hr
    refine ⟨_, ?_, h1⟩
    simp only [stepNaive, e1]
  | setState d =>
    simp only [stepS, setState] at hstep; simp at hstep
    obtain ⟨rfl, rfl⟩ := hstep
    simp [Call.cacheSafe] at hsafe
    exact ⟨_, by simp [stepNaive, stepS, setState], setState_inert_sim h d (by simpa using hsafe.1) (by simpa using hsafe.2)⟩
  | softMaskState =>
    simp only [stepS] at hstep; simp at hstep
    obtain ⟨h1, e1⟩ := softMaskState_sim (r := r) h
    have hs : sc' = (softMaskState r sc).1 := by rw [hstep]
    have hr : r' = (softMaskState r sc).2 := by rw [hstep]
    subst hs hr
    exact ⟨(softMaskState r sn).1, by simp [stepNaive, stepS, e1], h1⟩
  | setBlendMode mode =>
    simp only [stepS, setState] at hstep; simp at hstep
    obtain ⟨rfl, rfl⟩ := hstep
    exact ⟨_, by simp [stepNaive, stepS, setState], setState_inert_sim h _ rfl rfl⟩
  | beginMarked et mcid tag =>
    simp only [stepS] at hstep; simp at hstep
    obtain ⟨rfl, rfl⟩ := hstep
    refine ⟨beginMarked sn et mcid tag, by simp [stepNaive, stepS], ?_⟩
    have hmd := h.marked
    unfold beginMarked
    rw [← hmd]
    cases hmk : sc.mark
    · have hmn : sn.mark = false := by rw [← h.mark]; exact hmk
      simp only [hmn, Bool.not_false, if_true]
      exact h
    · have hmn : sn.mark = true := by rw [← h.mark]; exact hmk
      simp only [hmn, Bool.not_true, Bool.false_eq_true, if_false]
      cases mcid
      · simp only [Bool.false_eq_true, if_false]
        exact emitAll_inert_sim h [.tag (resolveTag et tag), .BMC]
          (by intro o ho; simp at ho; rcases ho with rfl | rfl <;> rfl)
      · simp only [if_true]
        refine emitAll_inert_sim ?_ [.tag (resolveTag et tag), .props sc.marked.length, .BDC]
          (by intro o ho; simp at ho; rcases ho with rfl | rfl | rfl <;> rfl)
        exact h.with_same rfl rfl h.ctm rfl rfl rfl rfl rfl rfl rfl rfl
  | endMarked =>
    simp only [stepS] at hstep
    split at hstep <;> simp at hstep <;> obtain ⟨rfl, rfl⟩ := hstep
    · rename_i hm
      exact ⟨sn, by simp [stepNaive, stepS, ← h.mark, hm], h⟩
    · rename_i hm
      exact ⟨sn.emit .EMC, by simp [stepNaive, stepS, ← h.mark, hm], h.emit_inert _ rfl⟩
  | drawX k =>
    simp only [stepS] at hstep; simp at hstep
    obtain ⟨rfl, rfl⟩ := hstep
    exact ⟨_, by simp [stepNaive, stepS], h.emit_inert _ rfl⟩
  | paintShading n =>
    simp only [stepS] at hstep; simp at hstep
    obtain ⟨rfl, rfl⟩ := hstep
    exact ⟨_, by simp [stepNaive, stepS], h.emit_inert _ rfl⟩
  | setColorSpace sp stroke => simp [Call.cacheSafe] at hsafe
  | setColorSpecial pat stroke operands => simp [Call.cacheSafe] at hsafe
  | raw k args flag text =>
    simp only [stepS] at hstep; simp at hstep
    obtain ⟨rfl, rfl⟩ := hstep
    exact ⟨_, by simp [stepNaive, stepS], h.emit_inert _ rfl⟩
  | rawTok c token =>
    simp only [stepS] at hstep; simp at hstep
    obtain ⟨rfl, rfl⟩ := hstep
    exact ⟨_, by simp [stepNaive, stepS], h.emit_inert _ rfl⟩


theorem mem_callColours (calls : List Call) (col : Colour) (st : Bool) (h : Call.setColor col st ∈ calls) :
    col ∈ callColours calls := by
  induction calls with
  | nil => simp at h
  | cons c cs ih =>
    rcases List.mem_cons.mp h with rfl | h'
    · simp [callColours]
    · cases c <;> simp [callColours] <;> first | exact ih h' | exact Or.inr (ih h')

theorem Sim.init (cols : List Colour) (r : Res) (mark : Bool) : Sim cols r { mark := mark } { mark := mark } := by
  refine ⟨rfl, rfl, rfl, rfl, rfl, ?_, ?_, ?_, ?_, ?_, ?_⟩
  · intro k hk; cases hk
  · intro k hk; cases hk
  · intro k hk; cases hk
  · intro k hk; cases hk
  · intro f hf; cases hf
  · intro qs r' _ _ _ f hf; cases hf

/-- The simulation along a whole call sequence. -/
theorem run_sim (cols : List Colour) (hcons : Consistent cols) (calls : List Call)
    (hsafe : ∀ c ∈ calls, c.cacheSafe = true) (hcols : ∀ col st, Call.setColor col st ∈ calls → col ∈ cols)
    {r : Res} {sc sn : SState} (h : Sim cols r sc sn) (sc' : SState) (r' : Res)
    (hrun : runS r sc calls = .ok (sc', r')) :
    ∃ sn', runNaive r sn calls = .ok (sn', r') ∧ Sim cols r' sc' sn' := by
  induction calls generalizing r sc sn with
  | nil =>
    simp [runS] at hrun
    obtain ⟨rfl, rfl⟩ := hrun
    exact ⟨sn, rfl, h⟩
  | cons c cs ih =>
    simp only [runS] at hrun
    split at hrun
    · rename_i sm rm hstep
      obtain ⟨snm, hn, hsim⟩ := step_sim cols hcons h c (hsafe c List.mem_cons_self)
        (fun col st e => hcols col st (e ▸ List.mem_cons_self)) sm rm hstep
      obtain ⟨sn', hn', hsim'⟩ := ih (fun x hx => hsafe x (List.mem_cons_of_mem _ hx))
        (fun col st hx => hcols col st (List.mem_cons_of_mem _ hx)) hsim hrun
      exact ⟨sn', by simp [runNaive, hn, hn'], hsim'⟩
    · simp at hrun

end Wp.Pdf
