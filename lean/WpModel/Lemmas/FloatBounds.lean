/-
The bounds computed by one loop iteration of `avoid_collisions`.
-/
import WpModel.Lemmas.FloatLoop

namespace Wp.Floats

theorem mem_leftBounds {col : List Shape} {q : Rat} :
    q ∈ leftBounds col ↔ ∃ s ∈ col, s.side = .left ∧ s.rightEdge = q := by
  simp [leftBounds]
  constructor
  · rintro ⟨s, ⟨h1, h2⟩, h3⟩; exact ⟨s, h1, h2, h3⟩
  · rintro ⟨s, h1, h2, h3⟩; exact ⟨s, ⟨h1, h2⟩, h3⟩

theorem mem_rightBounds {col : List Shape} {q : Rat} :
    q ∈ rightBounds col ↔ ∃ s ∈ col, s.side = .right ∧ s.x = q := by
  simp [rightBounds]
  constructor
  · rintro ⟨s, ⟨h1, h2⟩, h3⟩; exact ⟨s, h1, h2, h3⟩
  · rintro ⟨s, h1, h2, h3⟩; exact ⟨s, ⟨h1, h2⟩, h3⟩

theorem bounds_l_ge_init (col : List Shape) (l0 r0 : Rat) : l0 ≤ (bounds col l0 r0).l := by
  unfold bounds
  simp only
  split
  · exact Rat.le_refl
  · grind

theorem bounds_l_ge (col : List Shape) (l0 r0 : Rat) (s : Shape) (hs : s ∈ col) (hl : s.side = .left) :
    s.rightEdge ≤ (bounds col l0 r0).l := by
  have hm : s.rightEdge ∈ leftBounds col := mem_leftBounds.mpr ⟨s, hs, hl, rfl⟩
  unfold bounds
  simp only
  split
  · rename_i h; rw [h] at hm; simp at hm
  · rename_i b bs h
    rw [h] at hm
    have h1 : s.rightEdge ≤ maxList b bs := by
      rcases List.mem_cons.mp hm with h2 | h2
      · rw [h2]; exact maxList_ge_init b bs
      · exact maxList_ge_mem b bs _ h2
    grind

theorem bounds_l_mem (col : List Shape) (l0 r0 : Rat) :
    (bounds col l0 r0).l = l0 ∨ ∃ s ∈ col, s.side = .left ∧ s.rightEdge = (bounds col l0 r0).l := by
  unfold bounds
  simp only
  split
  · left; rfl
  · rename_i b bs h
    by_cases hc : maxList b bs ≤ l0
    · left; grind
    · right
      have hm : maxList b bs ∈ leftBounds col := by
        rw [h]
        rcases maxList_mem b bs with h2 | h2
        · simp [h2]
        · simp [h2]
      rcases mem_leftBounds.mp hm with ⟨s, h1, h2, h3⟩
      exact ⟨s, h1, h2, by grind⟩

theorem bounds_r_le_init (col : List Shape) (l0 r0 : Rat) : (bounds col l0 r0).r ≤ r0 := by
  unfold bounds
  simp only
  split
  · exact Rat.le_refl
  · grind

theorem bounds_r_le (col : List Shape) (l0 r0 : Rat) (s : Shape) (hs : s ∈ col) (hl : s.side = .right) :
    (bounds col l0 r0).r ≤ s.x := by
  have hm : s.x ∈ rightBounds col := mem_rightBounds.mpr ⟨s, hs, hl, rfl⟩
  unfold bounds
  simp only
  split
  · rename_i h; rw [h] at hm; simp at hm
  · rename_i b bs h
    rw [h] at hm
    have h1 : minList b bs ≤ s.x := by
      rcases List.mem_cons.mp hm with h2 | h2
      · rw [h2]; exact minList_le_init b bs
      · exact minList_le_mem b bs _ h2
    grind

theorem bounds_r_mem (col : List Shape) (l0 r0 : Rat) :
    (bounds col l0 r0).r = r0 ∨ ∃ s ∈ col, s.side = .right ∧ s.x = (bounds col l0 r0).r := by
  unfold bounds
  simp only
  split
  · left; rfl
  · rename_i b bs h
    by_cases hc : r0 ≤ minList b bs
    · left; grind
    · right
      have hm : minList b bs ∈ rightBounds col := by
        rw [h]
        rcases minList_mem b bs with h2 | h2
        · simp [h2]
        · simp [h2]
      rcases mem_rightBounds.mp hm with ⟨s, h1, h2, h3⟩
      exact ⟨s, h1, h2, by grind⟩

/-- `left_bounds or right_bounds` is true exactly when some shape collides (a shape is a left or a
right float). -/
theorem bounds_constrained (col : List Shape) (l0 r0 : Rat) :
    (bounds col l0 r0).constrained = true ↔ col ≠ [] := by
  unfold bounds
  simp only
  constructor
  · intro h hc
    subst hc
    simp [leftBounds, rightBounds] at h
  · intro h
    cases col with
    | nil => exact absurd rfl h
    | cons s rest =>
      cases hs : s.side with
      | left =>
        have : s.rightEdge ∈ leftBounds (s :: rest) := mem_leftBounds.mpr ⟨s, by simp, hs, rfl⟩
        cases hlb : leftBounds (s :: rest) with
        | nil => rw [hlb] at this; simp at this
        | cons _ _ => simp
      | right =>
        have : s.x ∈ rightBounds (s :: rest) := mem_rightBounds.mpr ⟨s, by simp, hs, rfl⟩
        cases hrb : rightBounds (s :: rest) with
        | nil => rw [hrb] at this; simp at this
        | cons _ _ => simp

end Wp.Floats
