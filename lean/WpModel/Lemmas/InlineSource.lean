/-
Lemmas for `Model/InlineSource` (white-space processing + `inline_in_block` flags of inline content):
no emptied text box survives into the line box; a box whose children were all emptied keeps the
collapsed-space flag.  Core Lean only.
-/
import WpModel.Model.InlineSource
namespace Wp.IS
open Wp Wp.Py Wp.LB Wp.IR

mutual
/-- no text box without text -/
def noEmptyText : Node → Bool
  | .text s => !s.isEmpty
  | .box _ _ _ kids => noEmptyTextL kids
  | .flagged n => noEmptyText n
def noEmptyTextL : List Node → Bool
  | [] => true
  | k :: ks => noEmptyText k && noEmptyTextL ks
end

mutual
theorem iibBox_noEmpty : ∀ (p : PNode), (match p with | .text s _ => !s.isEmpty | _ => true) = true →
    noEmptyText (iibBox p) = true
  | .text s lcs, h => by simpa [iibBox, noEmptyText] using h
  | .box ls rs deco kids, _ => by
    unfold iibBox
    split
    · simp [noEmptyText, noEmptyTextL]
    · have ih := iibKids_noEmpty false kids
      simp only
      cases (iibKids false kids).2 <;> simpa [noEmptyText] using ih
theorem iibKids_noEmpty : ∀ (t : Bool) (ps : List PNode), noEmptyTextL (iibKids t ps).1 = true
  | _, [] => by simp [iibKids, noEmptyTextL]
  | t, .text s lcs :: cs => by
    unfold iibKids
    split
    · exact iibKids_noEmpty _ cs
    · rename_i hne
      simp only [noEmptyTextL, noEmptyText, Bool.and_eq_true]
      exact ⟨by simpa using hne, iibKids_noEmpty false cs⟩
  | t, .box ls rs deco kids :: cs => by
    unfold iibKids
    simp only [noEmptyTextL, Bool.and_eq_true]
    exact ⟨iibBox_noEmpty (.box ls rs deco kids) rfl, iibKids_noEmpty false cs⟩
end

theorem emptied_box_keeps_flag (ls rs : Rat) (deco lcs : Bool) :
    iibBox (.box ls rs deco [.text [] lcs]) = if lcs then .flagged (.box ls rs deco []) else .box ls rs deco [] := by
  cases lcs <;> simp [iibBox, iibKids]
theorem noEmptyTextL_dropWhile (p : Node → Bool) : ∀ (l : List Node), noEmptyTextL l = true →
    noEmptyTextL (l.dropWhile p) = true
  | [], _ => rfl
  | k :: ks, h => by
    simp only [List.dropWhile]
    split
    · simp only [noEmptyTextL, Bool.and_eq_true] at h
      exact noEmptyTextL_dropWhile p ks h.2
    · exact h

/-- every text box of the line box built from a source has text: the emptied ones are all removed -/
theorem lineKids_noEmpty (ws : WS) (kids : List Src) : noEmptyTextL (lineKids ws kids) = true := by
  unfold lineKids
  exact noEmptyTextL_dropWhile _ _ (iibKids_noEmpty false _)

end Wp.IS
