/-
C17 helper development (core only): mapping glyphs back through the recorded table.
-/
import WpModel.Model.ToUnicode

namespace Wp.ToUnicode
open Wp

theorem lookup_append (m n : CMap) (g : Nat) :
    lookup (m ++ n) g = match lookup m g with | some t => some t | none => lookup n g := by
  induction m with
  | nil => simp [lookup]
  | cons x xs ih =>
    obtain ⟨g', t⟩ := x
    by_cases h : g' = g
    · simp [lookup, h]
    · simp [lookup, h, ih]

/-- Recording never changes what an already known glyph maps to, and a new glyph maps to its text. -/
theorem lookup_record (m : CMap) (g : Nat) (t : List Nat) (g' : Nat) :
    lookup (record m g t) g' =
      match lookup m g' with
      | some t' => some t'
      | none => if g = g' then some t else none := by
  unfold record
  cases hg : lookup m g with
  | some t0 =>
    cases hg' : lookup m g' with
    | some t' => rfl
    | none =>
      by_cases h : g = g'
      · subst h; rw [hg] at hg'; cases hg'
      · simp [h]
  | none =>
    simp only [lookup_append, lookup]

theorem lookup_record_some (m : CMap) (g : Nat) (t t' : List Nat) (g' : Nat) (h : lookup m g' = some t') :
    lookup (record m g t) g' = some t' := by
  rw [lookup_record, h]

theorem lookup_recordAll_some (m : CMap) (pairs : List (Nat × List Nat)) (g : Nat) (t : List Nat)
    (h : lookup m g = some t) : lookup (recordAll m pairs) g = some t := by
  induction pairs generalizing m with
  | nil => exact h
  | cons p ps ih => exact ih (record m p.1 p.2) (lookup_record_some m p.1 p.2 t g h)

theorem decode_append (m : CMap) (a b : List Nat) :
    decode m (a ++ b) = match decode m a, decode m b with
      | some x, some y => some (x ++ y)
      | _, _ => none := by
  induction a with
  | nil => cases h : decode m b <;> simp [decode, h]
  | cons g gs ih =>
    simp only [List.cons_append, decode, ih]
    cases lookup m g <;> cases decode m gs <;> cases decode m b <;> simp [List.append_assoc]

/-- The relation glyph ↦ cluster text of the drawn runs is a function, and agrees with the table so far. -/
def Functional (m : CMap) (pairs : List (Nat × List Nat)) : Prop :=
  (∀ p ∈ pairs, ∀ t, lookup m p.1 = some t → t = p.2) ∧
  (∀ p ∈ pairs, ∀ q ∈ pairs, p.1 = q.1 → p.2 = q.2)

theorem functional_tail (m : CMap) (p : Nat × List Nat) (ps : List (Nat × List Nat))
    (h : Functional m (p :: ps)) : Functional (record m p.1 p.2) ps := by
  obtain ⟨h1, h2⟩ := h
  refine ⟨?_, fun a ha b hb => h2 a (List.mem_cons_of_mem _ ha) b (List.mem_cons_of_mem _ hb)⟩
  intro q hq t ht
  rw [lookup_record] at ht
  cases hm : lookup m q.1 with
  | some t' =>
    rw [hm] at ht
    simp only [Option.some.injEq] at ht
    rw [← ht]
    exact h1 q (List.mem_cons_of_mem _ hq) t' hm
  | none =>
    rw [hm] at ht
    by_cases hg : p.1 = q.1
    · simp only [hg, ↓reduceIte, Option.some.injEq] at ht
      rw [← ht]
      exact h2 p List.mem_cons_self q (List.mem_cons_of_mem _ hq) hg
    · simp [hg] at ht

/-- After the runs were recorded, every drawn glyph maps to the text of its cluster. -/
theorem lookup_recordAll (m : CMap) (pairs : List (Nat × List Nat)) (h : Functional m pairs) :
    ∀ p ∈ pairs, lookup (recordAll m pairs) p.1 = some p.2 := by
  induction pairs generalizing m with
  | nil => intro p hp; cases hp
  | cons q qs ih =>
    intro p hp
    have htail := functional_tail m q qs h
    rcases List.mem_cons.mp hp with rfl | hp
    · -- the head: recorded now (or already known with the same text)
      have : lookup (record m p.1 p.2) p.1 = some p.2 := by
        rw [lookup_record]
        cases hm : lookup m p.1 with
        | some t => simp [h.1 p List.mem_cons_self t hm]
        | none => simp
      exact lookup_recordAll_some _ qs _ _ this
    · exact ih _ htail p hp

theorem decode_of_lookup (m : CMap) (pairs : List (Nat × List Nat))
    (h : ∀ p ∈ pairs, lookup m p.1 = some p.2) :
    decode m (pairs.map (·.1)) = some (pairs.flatMap (·.2)) := by
  induction pairs with
  | nil => rfl
  | cons p ps ih =>
    simp only [List.map_cons, decode, h p List.mem_cons_self,
      ih (fun q hq => h q (List.mem_cons_of_mem _ hq)), List.flatMap_cons]

end Wp.ToUnicode
