/-
Footnote conservation, paragraph level: what the line loop of `_linebox_layout` does to the footnote state.

Invariant of the loop at line `i` (lines `k … i-1` kept so far):
  act fs = A0 ++ (footnotes called on the lines kept),    every footnote of `P0` is pending or among them
where `A0` is `act` on entry and `P0` the footnotes pending on entry.
-/
import WpModel.Lemmas.FootState
import WpModel.Lemmas.FootSegment

namespace Wp.PMF
open Wp Wp.PM

/-- Footnotes called on the lines `is` of a paragraph, in line order. -/
def idxFns (st : PStyle) (calls : List Call) : List Nat → List Fn
  | [] => []
  | i :: is => lineFns st calls i ++ idxFns st calls is

theorem idxFns_append (st : PStyle) (calls : List Call) (a b : List Nat) :
    idxFns st calls (a ++ b) = idxFns st calls a ++ idxFns st calls b := by
  induction a with
  | nil => rfl
  | cons x xs ih => simp [idxFns, ih]

theorem lineFnsList_eq (st : PStyle) (calls : List Call) (ls : List (Nat × Rat)) :
    lineFnsList st calls ls = idxFns st calls (ls.map Prod.fst) := by
  induction ls with
  | nil => rfl
  | cons l ls ih => simp [lineFnsList, idxFns, ih]

theorem idxFns_mem (st : PStyle) (calls : List Call) (is : List Nat) (g : Fn) :
    g ∈ idxFns st calls is ↔ ∃ i ∈ is, g ∈ lineFns st calls i := by
  induction is with
  | nil => simp [idxFns]
  | cons x xs ih => simp [idxFns, ih]

theorem idxFns_sub (st : PStyle) (calls : List Call) (a b : List Nat) (h : ∀ i ∈ a, i ∈ b) (g : Fn)
    (hg : g ∈ idxFns st calls a) : g ∈ idxFns st calls b := by
  rw [idxFns_mem] at hg ⊢
  obtain ⟨i, hi, hgi⟩ := hg
  exact ⟨i, h i hi, hgi⟩

theorem lineFns_policy (st : PStyle) (calls : List Call) (i : Nat) (h : ∀ c ∈ calls, c.policy ≠ .block) :
    ∀ f ∈ lineFns st calls i, f.policy ≠ .block := by
  intro f hf
  simp only [lineFns, List.mem_map, List.mem_filter] at hf
  obtain ⟨c, ⟨hc, _⟩, rfl⟩ := hf
  exact h c hc

/-- `range' k (n-k)` cut at a kept prefix of length `m`, the dropped lines, line `i`, and the rest. -/
theorem range_split (k m i n : Nat) (hm : k + m ≤ i) (hi : i < n) :
    List.range' k (n - k) =
      List.range' k m ++ (List.range' (k + m) (i - (k + m)) ++ ([i] ++ List.range' (i + 1) (n - (i + 1)))) := by
  have e1 : n - k = m + ((i - (k + m)) + (1 + (n - (i + 1)))) := by omega
  rw [e1, ← List.range'_append (s := k) (m := m) (step := 1)]
  congr 1
  rw [← List.range'_append (s := k + 1 * m) (m := i - (k + m)) (step := 1)]
  simp only [Nat.one_mul]
  congr 1
  have e2 : k + m + (i - (k + m)) = i := by omega
  rw [e2, ← List.range'_append (s := i) (m := 1) (step := 1)]
  simp

theorem range_kept (k m i : Nat) (hm : k + m ≤ i) :
    List.range' k (i - k) = List.range' k m ++ List.range' (k + m) (i - (k + m)) := by
  have e1 : i - k = m + (i - (k + m)) := by omega
  rw [e1, ← List.range'_append (s := k) (m := m) (step := 1)]
  simp

/-- The state after the current line `i` is abandoned at a page break: `fs1` holds the footnotes of the
lines `k … i-1` and a prefix `F1` of those of line `i`; `_break_line` keeps the first `m` lines. -/
theorem break_state (c : FCtx) (st : PStyle) (calls : List Call) (n k i m : Nat) (lines : List (Nat × Rat))
    (fs1 : FState) (A0 P0 F1 F2 : List Fn)
    (hs : lines.map Prod.fst = List.range' k (i - k)) (hk : k ≤ i) (hi : i < n) (hm : m ≤ lines.length)
    (hND : (idxFns st calls (List.range' k (n - k))).Nodup)
    (hP : ∀ g ∈ idxFns st calls (List.range' k (n - k)), g ∈ P0)
    (hA0 : ∀ g ∈ A0, g ∉ P0)
    (hF : lineFns st calls i = F1 ++ F2)
    (hok : StOk fs1)
    (hact : act fs1 = A0 ++ idxFns st calls (List.range' k (i - k)) ++ F1)
    (hJ : ∀ g ∈ P0, g ∈ fs1.pending ∨ g ∈ idxFns st calls (List.range' k (i - k)) ∨ g ∈ F1) :
    StOk (breakLineUnlay c st calls i lines (lines.take m) fs1) ∧
    act (breakLineUnlay c st calls i lines (lines.take m) fs1) = A0 ++ lineFnsList st calls (lines.take m) ∧
    (∀ g ∈ P0, g ∈ (breakLineUnlay c st calls i lines (lines.take m) fs1).pending ∨
      g ∈ lineFnsList st calls (lines.take m)) := by
  have hlen : lines.length = i - k := by
    have := congrArg List.length hs
    simpa using this
  have hkm : k + m ≤ i := by omega
  have htake : (lines.take m).map Prod.fst = List.range' k m := by
    rw [List.map_take, hs]; exact range'_take _ _ _ (by omega)
  have hdrop : (lines.drop (lines.take m).length).map Prod.fst = List.range' (k + m) (i - (k + m)) := by
    have hl : (lines.take m).length = m := by rw [List.length_take]; omega
    rw [hl, List.map_drop, hs, range_kept k m i hkm, List.drop_left' (by simp)]
  have hsplit := range_split k m i n hkm hi
  rw [hsplit, idxFns_append, idxFns_append, idxFns_append] at hND hP
  simp only [idxFns, List.append_nil] at hND hP
  rw [range_kept k m i hkm, idxFns_append] at hact hJ
  unfold breakLineUnlay
  obtain ⟨u1, u2, u3⟩ := unlayAll_spec c
    (lineFnsList st calls (lines.drop (lines.take m).length) ++ lineFns st calls i) fs1 hok
  rw [lineFnsList_eq, hdrop] at u1 u2 u3 ⊢
  rw [lineFnsList_eq, htake]
  -- disjointness facts from the Nodup of the whole paragraph
  rw [List.nodup_append] at hND
  obtain ⟨_, hND2, hd1⟩ := hND
  refine ⟨u1, ?_, ?_⟩
  · rw [u2, hact, List.append_assoc, List.append_assoc, ← List.append_assoc A0]
    apply filter_cut
    · intro g hg
      simp only [List.mem_append] at hg ⊢
      rcases hg with hg | hg
      · intro hG
        apply hA0 g hg
        apply hP
        simp only [List.mem_append]
        rcases hG with h | h
        · exact Or.inr (Or.inl h)
        · exact Or.inr (Or.inr (Or.inl h))
      · intro hG
        have := hd1 g hg g (by
          simp only [List.mem_append]
          rcases hG with h | h
          · exact Or.inl h
          · exact Or.inr (Or.inl h))
        exact this rfl
    · intro g hg
      simp only [List.mem_append] at hg ⊢
      rcases hg with hg | hg
      · exact Or.inl hg
      · right; rw [hF]; simp [hg]
  · intro g hg
    rw [u3 g]
    rcases hJ g hg with h | h | h
    · exact Or.inl (Or.inl h)
    · simp only [List.mem_append] at h
      rcases h with h | h
      · exact Or.inr h
      · left; right; simp [h]
    · left; right; rw [hF]; simp [h]

/-- Line `i` (not kept yet) has its footnotes pending. -/
theorem line_pending (st : PStyle) (calls : List Call) (n k i : Nat) (P0 : List Fn) (fs : FState)
    (hk : k ≤ i) (hi : i < n)
    (hND : (idxFns st calls (List.range' k (n - k))).Nodup)
    (hP : ∀ g ∈ idxFns st calls (List.range' k (n - k)), g ∈ P0)
    (hJ : ∀ g ∈ P0, g ∈ fs.pending ∨ g ∈ idxFns st calls (List.range' k (i - k))) :
    (∀ f ∈ lineFns st calls i, f ∈ fs.pending) ∧ (lineFns st calls i).Nodup := by
  have hsplit := range_split k (i - k) i n (by omega) hi
  have e : i - (k + (i - k)) = 0 := by omega
  rw [e] at hsplit
  simp only [List.range'_zero, List.nil_append] at hsplit
  rw [hsplit, idxFns_append, idxFns_append] at hND hP
  simp only [idxFns, List.append_nil] at hND hP
  rw [List.nodup_append] at hND
  obtain ⟨_, hND2, hd⟩ := hND
  rw [List.nodup_append] at hND2
  refine ⟨?_, hND2.1⟩
  intro f hf
  have hfP : f ∈ P0 := hP f (by simp [hf])
  rcases hJ f hfP with h | h
  · exact h
  · exact absurd rfl (hd f h f (by simp [hf]))

/-- The outcome cancels the paragraph (`abort`). -/
def outAbort : LineOutcome → Bool
  | .done _ => false
  | .broke a _ _ _ => a

theorem lineFns_sub_calls' (st : PStyle) (calls : List Call) (i : Nat) (g : Fn) (h : g ∈ lineFns st calls i) :
    g ∈ calls.map (mkFn st) := by
  simp only [lineFns, List.mem_map, List.mem_filter] at h ⊢
  obtain ⟨cl, ⟨h1, _⟩, h2⟩ := h
  exact ⟨cl, h1, h2⟩

/-- **State invariant of the line loop** (any `footnote-policy`): on exit `act` holds, after what it held on
entry, exactly the footnotes called on the lines kept — followed, when `footnote-policy: block` cancels the
paragraph, by the footnotes `X` of the abandoned line taken so far (the caller un-lays-out every call of the
paragraph); every footnote pending on entry is still pending or is one of those. -/
theorem lineLoopF_state (c : FCtx) (st : PStyle) (calls : List Call) (b : BoxSt) (n : Nat) (lineH : Rat)
    (pie : Bool) (bs : Rat) (k : Nat) (fuel i : Nat) (y : Rat) (s : LineLoop) (fs : FState) (A0 P0 : List Fn)
    (hk : k ≤ i) (hs : s.lines.map Prod.fst = List.range' k (i - k)) (hn : fuel = n - i)
    (hND : (idxFns st calls (List.range' k (n - k))).Nodup)
    (hP : ∀ g ∈ idxFns st calls (List.range' k (n - k)), g ∈ P0)
    (hA0 : ∀ g ∈ A0, g ∉ P0)
    (hok : StOk fs)
    (hact : act fs = A0 ++ idxFns st calls (List.range' k (i - k)))
    (hJ : ∀ g ∈ P0, g ∈ fs.pending ∨ g ∈ idxFns st calls (List.range' k (i - k))) :
    ∃ X : List Fn,
    StOk (lineLoopF c st calls b n lineH pie bs fuel i y s fs).2 ∧
    act (lineLoopF c st calls b n lineH pie bs fuel i y s fs).2 =
      A0 ++ lineFnsList st calls (outLines (lineLoopF c st calls b n lineH pie bs fuel i y s fs).1) ++ X ∧
    (∀ g ∈ P0, g ∈ (lineLoopF c st calls b n lineH pie bs fuel i y s fs).2.pending ∨
      g ∈ lineFnsList st calls (outLines (lineLoopF c st calls b n lineH pie bs fuel i y s fs).1) ∨ g ∈ X) ∧
    (∀ g ∈ X, g ∈ calls.map (mkFn st)) ∧
    (outAbort (lineLoopF c st calls b n lineH pie bs fuel i y s fs).1 = false → X = []) := by
  fun_induction lineLoopF c st calls b n lineH pie bs fuel i y s fs with
  | case1 i y s fs =>
    simp only [outLines, lineFnsList_eq, hs]
    exact ⟨[], hok, by simpa using hact, fun g hg => by rcases hJ g hg with h | h <;> simp [h], by simp,
      fun _ => rfl⟩
  | case2 fuel i y s fs resume newPosY dbd offset overflow hov abort stop r lines' hb =>
    obtain ⟨m, hm, hl⟩ := breakLine_lines st n i s.lines pie s.skip resume
    rw [hb] at hl
    simp only at hl
    subst hl
    simp only [outLines]
    obtain ⟨b1, b2, b3⟩ := break_state c st calls n k i m s.lines fs A0 P0 [] (lineFns st calls i) hs hk (by omega)
      hm hND hP hA0 rfl hok (by simpa using hact) (by intro g hg; rcases hJ g hg with h | h <;> simp [h])
    exact ⟨[], b1, by simpa using b2, fun g hg => by rcases b3 g hg with h | h <;> simp [h], by simp, fun _ => rfl⟩
  | case3 fuel i y s fs resume newPosY dbd offset overflow hov shift newPosY' lineY mt' fs' hfl ih =>
    obtain ⟨hFp, hFn⟩ := line_pending st calls n k i P0 fs hk (by omega) hND hP hJ
    obtain ⟨F1, F2, hsplit, hokk, hok2, ha2, hp2⟩ :=
      footLoop_spec c (!s.lines.isEmpty || !pie) pie bs (newPosY' + offset) (lineFns st calls i) fs hok hFp hFn
    rw [hfl] at hokk hok2 ha2 hp2
    simp only at hokk hok2 ha2 hp2
    have hF2 : F2 = [] := hokk trivial
    subst hF2
    simp only [List.append_nil] at hsplit
    subst hsplit
    have hr : List.range' k (i + 1 - k) = List.range' k (i - k) ++ [i] := by
      have : i + 1 - k = (i - k) + 1 := by omega
      rw [this, List.range'_concat]
      simp
      omega
    apply ih (by omega) (by rw [List.map_append, hs, hr]; rfl) (by omega) hok2
    · rw [ha2, hact, hr, idxFns_append]
      simp [idxFns]
    · intro g hg
      rw [hr, idxFns_append]
      simp only [idxFns, List.append_nil, List.mem_append]
      rcases hJ g hg with h | h
      · by_cases hgF : g ∈ lineFns st calls i
        · exact Or.inr (Or.inr hgF)
        · exact Or.inl ((hp2 g).mpr ⟨h, hgF⟩)
      · exact Or.inr (Or.inl h)
  | case4 fuel i y s fs resume newPosY dbd offset overflow hov shift newPosY' mt' fs' hfl abort stop r lines' hb =>
    obtain ⟨hFp, hFn⟩ := line_pending st calls n k i P0 fs hk (by omega) hND hP hJ
    obtain ⟨F1, F2, hsplit, hokk, hok2, ha2, hp2⟩ :=
      footLoop_spec c (!s.lines.isEmpty || !pie) pie bs (newPosY' + offset) (lineFns st calls i) fs hok hFp hFn
    rw [hfl] at hok2 ha2 hp2
    simp only at hok2 ha2 hp2
    obtain ⟨m, hm, hl⟩ := breakLine_lines st n i s.lines pie s.skip resume
    rw [hb] at hl
    simp only at hl
    subst hl
    simp only [outLines]
    obtain ⟨b1, b2, b3⟩ := break_state c st calls n k i m s.lines fs' A0 P0 F1 F2 hs hk (by omega) hm hND hP hA0
      hsplit hok2 (by rw [ha2, hact]) (by
        intro g hg
        rcases hJ g hg with h | h
        · by_cases hgF : g ∈ F1
          · exact Or.inr (Or.inr hgF)
          · exact Or.inl ((hp2 g).mpr ⟨h, hgF⟩)
        · exact Or.inr (Or.inl h))
    exact ⟨[], b1, by simpa using b2, fun g hg => by rcases b3 g hg with h | h <;> simp [h], by simp, fun _ => rfl⟩
  | case5 fuel i y s fs resume newPosY dbd offset overflow hov shift newPosY' mt' fs' hfl =>
    -- `footnote-policy: block` cancels the paragraph: the lines kept so far and the footnotes `F1` of line `i`
    -- taken so far stay laid out (until `block_container_layout` un-lays-out the whole paragraph)
    obtain ⟨hFp, hFn⟩ := line_pending st calls n k i P0 fs hk (by omega) hND hP hJ
    obtain ⟨F1, F2, hsplit, hokk, hok2, ha2, hp2⟩ :=
      footLoop_spec c (!s.lines.isEmpty || !pie) pie bs (newPosY' + offset) (lineFns st calls i) fs hok hFp hFn
    rw [hfl] at hok2 ha2 hp2
    simp only at hok2 ha2 hp2
    simp only [outLines, lineFnsList_eq, hs]
    refine ⟨F1, hok2, by rw [ha2, hact], ?_, ?_, by simp [outAbort]⟩
    · intro g hg
      rcases hJ g hg with h | h
      · by_cases hgF : g ∈ F1
        · exact Or.inr (Or.inr hgF)
        · exact Or.inl ((hp2 g).mpr ⟨h, hgF⟩)
      · exact Or.inr (Or.inl h)
    · intro g hg
      exact lineFns_sub_calls' st calls i g (by rw [hsplit]; simp [hg])

end Wp.PMF
