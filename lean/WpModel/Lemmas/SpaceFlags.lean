/-
The collapsed spaces `inline_in_block` remembers as break opportunities (Model/AnonBoxes.lean `iib` /
`iibKids`): an empty text box that ends a box hands its `leading_collapsible_space` over to the box as
`trailing_collapsible_space`.  Core Lean only.
-/
import WpModel.Lemmas.Boxes
import WpModel.Lemmas.Threading

namespace Wp.Bx
open KBox

/-- A text box emptied by `process_whitespace` whose space collapsed with a preceding one. -/
def CollapsedSpace (t : KBox) : Prop := t.isA .TextBox = true ∧ t.text = [] ∧ t.inst.lcs = true

/-- The first loop of `inline_in_block`: when the last child is a collapsed space, the loop ends with
`trailing_collapsible_space = True`, whatever precedes. -/
theorem iibKids_trailing (t : KBox) (ht : CollapsedSpace t) : ∀ (ks : List KBox) (tr : Bool)
    (children : List KBox) (trailing : Bool), iibKids tr (ks ++ [t]) = .ok (children, trailing) → trailing = true
  | [], tr, children, trailing, h => by
    obtain ⟨h1, h2, h3⟩ := ht
    simp only [KBox.isA] at h1
    simp only [List.nil_append] at h
    unfold iibKids at h
    simp only [h1, h2, List.isEmpty_nil, Bool.and_self, if_true, h3, Bool.true_or] at h
    unfold iibKids at h
    cases h
    rfl
  | c :: cs, tr, children, trailing, h => by
    simp only [List.cons_append] at h
    unfold iibKids at h
    split at h
    · exact iibKids_trailing t ht cs _ children trailing h
    · split at h
      · cases h
      · split at h
        · cases h
        · rename_i rest tflag hrest
          cases h
          exact iibKids_trailing t ht cs false rest trailing hrest

/-- `inline_in_block`: a box (not running) whose last child is a collapsed space carries
`trailing_collapsible_space` afterwards. -/
theorem iib_trailing (force : Bool) (b b' : KBox) (ks : List KBox) (t : KBox) (hrun : b.st.run = false)
    (hk : b.kids = ks ++ [t]) (ht : CollapsedSpace t) (h : iib force b = .ok b') : b'.inst.tcs = true := by
  obtain ⟨k, st, el, inst, text, kids, cols⟩ := b
  simp only [KBox.st] at hrun
  simp only [KBox.kids] at hk
  subst hk
  unfold iib at h
  have hne : (ks ++ [t]).isEmpty = false := by cases ks <;> rfl
  simp only [hne, hrun, Bool.or_self, Bool.false_eq_true, if_false] at h
  split at h
  · cases h
  · rename_i children trailing hkids
    have htr := iibKids_trailing t ht ks false children trailing hkids
    subst htr
    have htcs : (if (inst.tcs == false) = true then true else inst.tcs) = true := by
      cases inst.tcs <;> rfl
    split at h
    · cases h
      simp only [KBox.inst, htcs]
    · split at h
      · cases h
      · cases h
        simp only [KBox.withKids, KBox.inst, htcs]

/-! ## a white-space-only run after a collapsible space -/

/-- A text made of spaces and tabs only. -/
def AllSpTab (t : Text) : Prop := ∀ c ∈ t, isSpTab c = true

theorem spTab_cases {c : Nat} (h : isSpTab c = true) : c = 32 ∨ c = 9 := by
  simpa [isSpTab, Ch.sp, Ch.tab] using h

theorem lineFeedGo_spTab : ∀ (t : Text) (b : Bool), AllSpTab t → lineFeedGo t b = t
  | [], _, _ => rfl
  | c :: cs, b, h => by
    have hc := spTab_cases (h c List.mem_cons_self)
    have ih := lineFeedGo_spTab cs false (fun d hd => h d (List.mem_cons_of_mem _ hd))
    unfold lineFeedGo
    rcases hc with rfl | rfl <;> simp [Ch.cr, Ch.lf, ih]

theorem tabSubGo_spTab : ∀ (t : Text) (pend : List Nat), AllSpTab t → tabSubGo t pend false = pend.reverse ++ t
  | [], pend, _ => by simp [tabSubGo]
  | c :: cs, pend, h => by
    have hc := h c List.mem_cons_self
    have ih := tabSubGo_spTab cs (c :: pend) (fun d hd => h d (List.mem_cons_of_mem _ hd))
    unfold tabSubGo
    simp only [hc, if_true, Bool.false_eq_true, if_false, ih, List.reverse_cons, List.append_assoc,
      List.singleton_append]

theorem nlToSpace_spTab (t : Text) (h : AllSpTab t) : nlToSpace t = t := by
  unfold nlToSpace
  have : ∀ c ∈ t, (if (c == Ch.lf) = true then Ch.sp else c) = c := by
    intro c hc
    rcases spTab_cases (h c hc) with rfl | rfl <;> simp [Ch.lf]
  calc t.map (fun c => if (c == Ch.lf) = true then Ch.sp else c) = t.map id := List.map_congr_left this
    _ = t := List.map_id t

theorem spaceSubGo_spTab_run : ∀ (t : Text), AllSpTab t → spaceSubGo t true = []
  | [], _ => rfl
  | c :: cs, h => by
    unfold spaceSubGo
    simp only [h c List.mem_cons_self, if_true]
    exact spaceSubGo_spTab_run cs (fun d hd => h d (List.mem_cons_of_mem _ hd))

/-- A non-empty run of spaces and tabs collapses to one space under every collapsing `white-space`. -/
theorem collapsed_spTab (ws : WS) (t : Text) (hne : t ≠ []) (h : AllSpTab t) : collapsed ws t = [Ch.sp] := by
  unfold collapsed lineFeed tabSub
  rw [lineFeedGo_spTab t false h, tabSubGo_spTab t [] h]
  simp only [List.reverse_nil, List.nil_append, nlToSpace_spTab t h, ite_self]
  unfold spaceSub
  cases t with
  | nil => exact absurd rfl hne
  | cons c cs =>
    unfold spaceSubGo
    simp only [h c List.mem_cons_self, if_true, Bool.false_eq_true, if_false]
    rw [spaceSubGo_spTab_run cs (fun d hd => h d (List.mem_cons_of_mem _ hd))]

/-- … and after a collapsible space nothing of it is left: the text box is emptied and flagged. -/
theorem processText_spTab (ws : WS) (hws : spaceCollapse ws = true) (t : Text) (hne : t ≠ []) (h : AllSpTab t) :
    processText ws t true = ⟨[], true, true⟩ := by
  rw [processText_collapse ws hws t true, collapsed_spTab ws t hne h]
  rfl

/-- `word <b> </b>word`: an inline box (not running) holding one run of spaces / tabs with a collapsing
`white-space`, entered after a collapsible space: `process_whitespace` empties the run, `inline_in_block`
removes it, and the now childless inline box carries both `leading_` and `trailing_collapsible_space` —
the break opportunity between the two words is not lost. -/
theorem emptied_inline_keeps_break_opportunity (st : Style) (el : El) (inst : Inst)
    (tk : BoxKind) (tst : Style) (tel : El) (tinst : Inst) (text : Text)
    (hrun : st.run = false) (htk : Gen.isSub tk .TextBox = true) (htrun : tst.run = false)
    (hws : spaceCollapse tst.ws = true) (hne : text ≠ []) (hsp : AllSpTab text) :
    ∃ b', iib false (pw (.mk .InlineBox st el inst [] [.mk tk tst tel tinst text [] []] []) true).1 = .ok b' ∧
      b'.kids = [] ∧ b'.inst.tcs = true ∧ b'.inst.lcs = true ∧
      (pw (.mk .InlineBox st el inst [] [.mk tk tst tel tinst text [] []] []) true).2 = true := by
  have hT : pw (.mk tk tst tel tinst text [] []) true =
      (.mk tk tst tel { tinst with lcs := tinst.lcs || true } [] [] [], true) := by
    unfold pw
    have : text.isEmpty = false := by cases text with | nil => exact absurd rfl hne | cons _ _ => rfl
    simp only [htk, if_true, this, Bool.false_eq_true, if_false, processText_spTab tst.ws hws text hne hsp, htrun,
      Bool.not_false, Bool.and_self]
  have hflow : (KBox.mk tk tst tel tinst text [] []).inFlow = (KBox.mk tk tst tel tinst text [] []).inFlow := rfl
  have hB : pw (.mk .InlineBox st el inst [] [.mk tk tst tel tinst text [] []] []) true =
      (.mk .InlineBox st el inst [] [.mk tk tst tel { tinst with lcs := tinst.lcs || true } [] [] []] [],
        (if (KBox.mk tk tst tel tinst text [] []).inFlow = true then true else true) && !st.run) := by
    unfold pw
    have hnt : Gen.isSub BoxKind.InlineBox .TextBox = false := by decide
    simp only [hnt, Bool.false_eq_true, if_false]
    unfold pwKids
    simp only [KBox.kind, htk, Bool.true_or, if_true, hT]
    unfold pwKids
    rfl
  rw [hB]
  simp only [ite_self, hrun, Bool.not_false, Bool.and_self]
  unfold iib
  simp only [List.isEmpty_cons, hrun, Bool.or_self, Bool.false_eq_true, if_false]
  unfold iibKids
  simp only [KBox.kind, htk, KBox.text, List.isEmpty_nil, Bool.and_self, if_true, KBox.inst, Bool.or_true]
  unfold iibKids
  simp only
  have hnb : Gen.isSub BoxKind.InlineBox .BlockContainerBox = false := by decide
  simp only [hnb, Bool.not_false, if_true]
  refine ⟨_, rfl, rfl, ?_, ?_, trivial⟩
  · cases inst.tcs <;> rfl
  · cases inst.lcs <;> simp

end Wp.Bx
