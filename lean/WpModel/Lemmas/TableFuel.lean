/-
Fuel sufficiency for `table_boxes_children` / `wrap_improper` / `wrap_table`
(Model/AnonBoxes.lean): the rules re-applied to fresh wrappers nest at most four wrappers deep
(table → row → cell → table → row group), each level walking its children once, so the fuel the
model gives (`tableFuel m = 8·(m + 8)` for `m` children) is never exhausted.  Core Lean only.
-/
import WpModel.Lemmas.Tables
import WpModel.Lemmas.Fuel
import WpModel.Model.BoxGen

namespace Wp.Bx
open KBox

/-- `wrap_improper` with enough fuel for its own walk (`children.length + 1`) and `G` more for every
call of `table_boxes_children` on a wrapper; the lists handed to those calls are non-empty, drawn
from `pool` and fail the test. -/
theorem wI_nofuel (G M : Nat) (box : KBox) (wt : BoxKind) (test : KBox → Bool) (pool : List KBox)
    (hcall : ∀ (l : List KBox) (k : Nat), G ≤ k → l ≠ [] → l.length ≤ M → (∀ c ∈ l, c ∈ pool ∧ test c = false) →
      NoFuel (tbc k (anonFrom wt box []) l)) :
    ∀ (children improper : List KBox) (n : Nat), children.length + 1 + G ≤ n →
      children.length + improper.length ≤ M →
      (∀ c ∈ children, c ∈ pool) → (∀ c ∈ improper, c ∈ pool ∧ test c = false) →
      NoFuel (wrapImproper n box children wt test improper) := by
  intro children
  induction children with
  | nil =>
    intro improper n hn hM _ hi hf
    cases n with
    | zero => omega
    | succ m =>
      unfold wrapImproper at hf
      split at hf
      · rename_i hne
        split at hf
        · rename_i e he
          cases hf
          refine hcall improper.reverse m (by simp at hn; omega) (by simpa using hne) (by simpa using hM) ?_ he
          intro c hc; exact hi c (List.mem_reverse.mp hc)
        · cases hf
      · cases hf
  | cons c cs ih =>
    intro improper n hn hM hc hi hf
    cases n with
    | zero => omega
    | succ m =>
      simp only [List.length_cons] at hn hM
      have hcs : ∀ d ∈ cs, d ∈ pool := fun d hd => hc d (List.mem_cons_of_mem _ hd)
      unfold wrapImproper at hf
      split at hf
      · split at hf
        · rename_i hne
          split at hf
          · rename_i e he
            cases hf
            refine hcall improper.reverse m (by omega) (by simpa using hne) (by simp; omega) ?_ he
            intro d hd; exact hi d (List.mem_reverse.mp hd)
          · split at hf
            · rename_i e he
              cases hf
              exact ih [] m (by omega) (by simp; omega) hcs (by simp) he
            · cases hf
        · split at hf
          · rename_i e he
            cases hf
            exact ih [] m (by omega) (by simp; omega) hcs (by simp) he
          · cases hf
      · rename_i htest
        refine ih (c :: improper) m (by omega) (by simp; omega) hcs ?_ hf
        intro d hd
        rcases List.mem_cons.mp hd with rfl | h'
        · exact ⟨hc _ List.mem_cons_self, by simpa using htest⟩
        · exact hi d h'

/-- No call at all when every child passes the test. -/
theorem wI_nofuel_pass (box : KBox) (wt : BoxKind) (test : KBox → Bool) (children : List KBox) (n : Nat)
    (hn : children.length + 1 ≤ n) (hpass : ∀ c ∈ children, test c = true) :
    NoFuel (wrapImproper n box children wt test []) := by
  refine wI_nofuel 0 children.length box wt test children ?_ children [] n (by omega) (by simp)
    (fun c hc => hc) (by simp)
  intro l k _ hne _ hl
  cases l with
  | nil => exact absurd rfl hne
  | cons c cs =>
    have := hl c List.mem_cons_self
    rw [hpass c this.1] at this
    exact absurd this.2 (by simp)

/-- The output is not longer than the input (one wrapper per run of improper children). -/
theorem wI_length : ∀ (n : Nat) (box : KBox) (children : List KBox) (wt : BoxKind) (test : KBox → Bool)
    (improper out : List KBox), wrapImproper n box children wt test improper = .ok out →
    out.length ≤ children.length + (if improper.isEmpty then 0 else 1)
  | 0, _, _, _, _, _, _, h => by unfold wrapImproper at h; cases h
  | n + 1, box, [], wt, test, improper, out, h => by
    unfold wrapImproper at h
    split at h
    · rename_i hne
      split at h
      · cases h
      · cases h
        have : improper.isEmpty = false := by simpa using hne
        simp [this]
    · cases h; simp
  | n + 1, box, c :: cs, wt, test, improper, out, h => by
    unfold wrapImproper at h
    split at h
    · split at h
      · rename_i hne
        split at h
        · cases h
        · split at h
          · cases h
          · rename_i rest hrest
            cases h
            have := wI_length n box cs wt test [] rest hrest
            have hi : improper.isEmpty = false := by simpa using hne
            simp [hi] at this ⊢
            omega
      · split at h
        · cases h
        · rename_i rest hrest
          cases h
          have := wI_length n box cs wt test [] rest hrest
          simp at this ⊢
          omega
    · have := wI_length n box cs wt test (c :: improper) out h
      simp at this ⊢
      split <;> omega

theorem wI_length0 (n : Nat) (box : KBox) (children : List KBox) (wt : BoxKind) (test : KBox → Bool)
    (out : List KBox) (h : wrapImproper n box children wt test [] = .ok out) : out.length ≤ children.length := by
  simpa using wI_length n box children wt test [] out h


/-! ### the states in which `table_boxes_children` is re-entered -/

theorem bind_fuel {α β : Type} {x : Except BErr α} {f : α → Except BErr β}
    (h : (match x with | .error e => (Except.error e : Except BErr β) | .ok v => f v) = .error .fuel) :
    x = .error .fuel ∨ ∃ v, x = .ok v ∧ f v = .error .fuel := by
  cases x with
  | error e => simp only at h; cases h; exact Or.inl rfl
  | ok v => exact Or.inr ⟨v, rfl, h⟩

theorem rule13_length (l : List KBox) : (rule13 l).length ≤ l.length := by
  unfold rule13
  split
  · have h1 : (rule13Last l).length ≤ l.length := by
      unfold rule13Last
      split
      · split
        · simp
        · exact Nat.le_refl _
      · exact Nat.le_refl _
    have h2 : ∀ x : List KBox, (rule13First x).length ≤ x.length := by
      intro x
      unfold rule13First
      split
      · split
        · simp
        · exact Nat.le_refl _
      · exact Nat.le_refl _
    have := h2 (rule13Last l)
    omega
  · exact Nat.le_refl _

theorem rule14_length (l : List KBox) : ∀ prev, (rule14 prev l).length ≤ l.length := by
  induction l with
  | nil => intro prev; simp [rule14]
  | cons c cs ih =>
    intro prev
    unfold rule14
    split
    · have := ih (some c); simp; omega
    · have := ih (some c); simp; omega

/-- What rules 1.3 / 1.4 leave of `l` (for a box that is neither a column nor a column group). -/
def afterWs (tabular : Bool) (l : List KBox) : List KBox := rule14 none (if tabular then rule13 l else l)

theorem afterWs_sub (t : Bool) (l : List KBox) : (∀ c ∈ afterWs t l, c ∈ l) ∧ (afterWs t l).length ≤ l.length := by
  unfold afterWs
  cases t
  · simp only [Bool.false_eq_true, if_false]
    exact ⟨mem_rule14 l none, rule14_length l none⟩
  · simp only [if_true]
    refine ⟨fun c hc => mem_rule13 l c (mem_rule14 _ none c hc), ?_⟩
    have := rule14_length (rule13 l) none
    have := rule13_length l
    omega

/-- A row group whose children are all rows: no rule applies. -/
theorem tbc_nofuel_rows (n : Nat) (box : KBox) (l : List KBox) (hk : box.kind = .TableRowGroupBox)
    (hl : ∀ c ∈ l, c.kind = .TableRowBox) (hn : l.length + 2 ≤ n) : NoFuel (tbc n box l) := by
  intro hf
  cases n with
  | zero => omega
  | succ n =>
    unfold tbc at hf
    simp only [hk] at hf
    simp only [show Gen.isSub .TableRowGroupBox .TableColumnBox = false from rfl,
      show Gen.isSub .TableRowGroupBox .TableColumnGroupBox = false from rfl,
      show Gen.isSub .TableRowGroupBox .TableBox = false from rfl,
      show Gen.isSub .TableRowGroupBox .TableRowGroupBox = true from rfl,
      show Gen.isSub .TableRowGroupBox .TableRowBox = false from rfl,
      show Gen.isSub .TableRowGroupBox .InlineBox = false from rfl,
      show Gen.tabularContainer .TableRowGroupBox = true from rfl,
      Bool.false_eq_true, if_false, if_true] at hf
    have hsub := afterWs_sub true l
    unfold afterWs at hsub
    simp only [if_true] at hsub
    generalize rule14 none (rule13 l) = c0 at hf hsub
    have hrow : ∀ c ∈ c0, c.kind = .TableRowBox := fun c hc => hl c (hsub.1 c hc)
    have p1 : ∀ c ∈ c0, (fun c : KBox => c.isA .TableRowBox) c = true :=
      fun c hc => (isA_row_iff c).2 (hrow c hc)
    split at hf
    · rename_i e h1
      cases hf
      exact wI_nofuel_pass box .TableRowBox (fun c : KBox => c.isA .TableRowBox) c0 n (by omega) p1 h1
    · rename_i c1 h1
      have e1 := wrapImproper_all_pass n box c0 _ _ c1 p1 h1
      subst e1
      have p2 : ∀ c ∈ c1, (fun c : KBox => !c.isA .TableCellBox) c = true := by
        intro c hc
        have hr := hrow c hc
        have : c.isA .TableCellBox = false := by
          cases hcell : c.isA .TableCellBox
          · rfl
          · rw [(isA_cell_iff c).1 hcell] at hr; cases hr
        simp [this]
      split at hf
      · rename_i e h2
        cases hf
        exact wI_nofuel_pass box .TableRowBox (fun c : KBox => !c.isA .TableCellBox) c1 n (by omega) p2 h2
      · rename_i c2 h2
        have e2 := wrapImproper_all_pass n box c1 _ _ c2 p2 h2
        subst e2
        have p3 : ∀ c ∈ c2, (fun c : KBox => !Gen.properTableChild c.kind ||
            (Gen.properParents c.kind).contains .TableRowGroupBox) c = true := by
          intro c hc
          simp only [hrow c hc]; decide
        split at hf
        · rename_i e h3
          cases hf
          exact wI_nofuel_pass box .TableBox (fun c : KBox => !Gen.properTableChild c.kind ||
            (Gen.properParents c.kind).contains .TableRowGroupBox) c2 n (by omega) p3 h3
        · cases hf

/-- A column group whose children are all columns (at least one): no rule applies. -/
theorem tbc_nofuel_cols (n : Nat) (box : KBox) (l : List KBox) (hk : box.kind = .TableColumnGroupBox)
    (hl : ∀ c ∈ l, c.kind = .TableColumnBox) (hne : l ≠ []) (hn : l.length + 2 ≤ n) : NoFuel (tbc n box l) := by
  intro hf
  cases n with
  | zero => omega
  | succ n =>
    unfold tbc at hf
    simp only [hk] at hf
    simp only [show Gen.isSub .TableColumnGroupBox .TableColumnBox = false from rfl,
      show Gen.isSub .TableColumnGroupBox .TableColumnGroupBox = true from rfl,
      show Gen.isSub .TableColumnGroupBox .TableBox = false from rfl,
      show Gen.isSub .TableColumnGroupBox .TableRowGroupBox = false from rfl,
      show Gen.isSub .TableColumnGroupBox .TableRowBox = false from rfl,
      show Gen.isSub .TableColumnGroupBox .InlineBox = false from rfl,
      show Gen.tabularContainer .TableColumnGroupBox = false from rfl,
      Bool.false_eq_true, if_false, if_true] at hf
    have hfilter : l.filter (fun c => c.isA .TableColumnBox) = l := by
      rw [List.filter_eq_self]
      intro c hc; exact (isA_col_iff c).2 (hl c hc)
    have hnemp : l.isEmpty = false := by simpa using hne
    simp only [hfilter, hnemp, Bool.false_eq_true, if_false] at hf
    have hsub : (∀ c ∈ rule14 none l, c ∈ l) ∧ (rule14 none l).length ≤ l.length :=
      ⟨mem_rule14 l none, rule14_length l none⟩
    generalize rule14 none l = c0 at hf hsub
    have hcol : ∀ c ∈ c0, c.kind = .TableColumnBox := fun c hc => hl c (hsub.1 c hc)
    have p2 : ∀ c ∈ c0, (fun c : KBox => !c.isA .TableCellBox) c = true := by
      intro c hc
      have : c.isA .TableCellBox = false := by unfold KBox.isA; rw [hcol c hc]; rfl
      simp [this]
    split at hf
    · rename_i e h2
      cases hf
      exact wI_nofuel_pass box .TableRowBox (fun c : KBox => !c.isA .TableCellBox) c0 n (by omega) p2 h2
    · rename_i c2 h2
      have e2 := wrapImproper_all_pass n box c0 _ _ c2 p2 h2
      subst e2
      have p3 : ∀ c ∈ c2, (fun c : KBox => !Gen.properTableChild c.kind ||
          (Gen.properParents c.kind).contains .TableColumnGroupBox) c = true := by
        intro c hc
        simp only [hcol c hc]; decide
      split at hf
      · rename_i e h3
        cases hf
        exact wI_nofuel_pass box .TableBox (fun c : KBox => !Gen.properTableChild c.kind ||
          (Gen.properParents c.kind).contains .TableColumnGroupBox) c2 n (by omega) p3 h3
      · cases hf


theorem rowCells_nofuel (l : List KBox) : rowCells l ≠ .error .fuel := by
  induction l with
  | nil => unfold rowCells; intro h; cases h
  | cons c cs ih =>
    unfold rowCells
    split
    · intro h; cases h
    · split
      · rename_i e he
        intro h; cases h; exact ih he
      · intro h; cases h

theorem groupCells_nofuel (l : List KBox) : groupCells l ≠ .error .fuel := by
  induction l with
  | nil => unfold groupCells; intro h; cases h
  | cons r rs ih =>
    intro h
    unfold groupCells at h
    cases h1 : rowCells r.kids with
    | error e1 => rw [h1] at h; simp only at h; cases h; exact rowCells_nofuel _ h1
    | ok a =>
      rw [h1] at h
      cases h2 : groupCells rs with
      | error e2 => rw [h2] at h; simp only at h; cases h; exact ih h2
      | ok b => rw [h2] at h; cases h

theorem tableCells_nofuel (l : List KBox) : tableCells l ≠ .error .fuel := by
  induction l with
  | nil => unfold tableCells; intro h; cases h
  | cons g gs ih =>
    intro h
    unfold tableCells at h
    cases h1 : groupCells g.kids with
    | error e1 => rw [h1] at h; simp only at h; cases h; exact groupCells_nofuel _ h1
    | ok a =>
      rw [h1] at h
      cases h2 : tableCells gs with
      | error e2 => rw [h2] at h; simp only at h; cases h; exact ih h2
      | ok b => rw [h2] at h; cases h

theorem sort_nofuel (l : List KBox) : sortTableKids l ≠ .error .fuel := by
  induction l with
  | nil => unfold sortTableKids; intro h; cases h
  | cons c cs ih =>
    intro h
    unfold sortTableKids at h
    split at h
    · rename_i e he
      cases h; exact ih he
    · split at h
      · cases h
      · split at h
        · cases h
        · split at h <;> cases h

/-- `wrap_table` on `m` children: the column groups and row groups it creates need no further rule. -/
theorem wrapTable_nofuel (n : Nat) (box : KBox) (children : List KBox) (hn : 2 * children.length + 5 ≤ n) :
    NoFuel (wrapTable n box children) := by
  intro hf
  cases n with
  | zero => omega
  | succ n =>
    unfold wrapTable at hf
    split at hf
    · rename_i e he
      cases hf
      exact sort_nofuel _ he
    · rename_i columns rows allCaptions hsort
      obtain ⟨scols, srows, _⟩ := sortTableKids_spec children columns rows allCaptions hsort
      have hlen : columns.length + rows.length ≤ children.length := by
        have : ∀ (l cols rows caps : List KBox), sortTableKids l = .ok (cols, rows, caps) →
            cols.length + rows.length + caps.length = l.length := by
          intro l
          induction l with
          | nil => intro cols rows caps h; unfold sortTableKids at h; cases h; rfl
          | cons c cs ih =>
            intro cols rows caps h
            unfold sortTableKids at h
            split at h
            · cases h
            · rename_i c0 r0 p0 hrec
              have := ih c0 r0 p0 hrec
              split at h
              · cases h; simp; omega
              · split at h
                · cases h; simp; omega
                · split at h
                  · cases h; simp; omega
                  · cases h
        have := this children columns rows allCaptions hsort
        omega
      split at hf
      · rename_i e he
        cases hf
        refine wI_nofuel (children.length + 2) children.length box .TableColumnGroupBox
          (fun c : KBox => c.isA .TableColumnGroupBox) columns ?_ columns [] n (by omega) (by simp; omega)
          (fun c hc => hc) (by simp) he
        intro l k hk hne hlM hl
        refine tbc_nofuel_cols k _ l rfl ?_ hne (by omega)
        intro c hc
        obtain ⟨hp, ht⟩ := hl c hc
        rcases (scols c hp).2 with h1 | h1
        · exact h1
        · rw [(isA_colgroup_iff c).2 h1] at ht; cases ht
      · split at hf
        · rename_i e he
          cases hf
          refine wI_nofuel (children.length + 2) children.length box .TableRowGroupBox
            (fun c : KBox => c.isA .TableRowGroupBox) rows ?_ rows [] n (by omega) (by simp; omega)
            (fun c hc => hc) (by simp) he
          intro l k hk hne hlM hl
          refine tbc_nofuel_rows k _ l rfl ?_ (by omega)
          intro c hc
          obtain ⟨hp, ht⟩ := hl c hc
          rcases (srows c hp).2 with h1 | h1
          · exact h1
          · rw [(isA_rowgroup_iff c).2 h1] at ht; cases ht
        · simp only at hf
          split at hf
          · rename_i e he
            cases hf
            -- `tableCells` never reports fuel
            exact tableCells_nofuel _ he
          · split at hf <;> cases hf


/-- A table whose children are all proper table children: rules 2.1 / 3.1 / 3.2 wrap nothing. -/
theorem tbc_nofuel_table (n : Nat) (box : KBox) (l : List KBox)
    (hk : box.kind = .TableBox ∨ box.kind = .InlineTableBox)
    (hl : ∀ c ∈ l, Gen.properTableChild c.kind = true) (hn : 2 * l.length + 7 ≤ n) : NoFuel (tbc n box l) := by
  intro hf
  cases n with
  | zero => omega
  | succ n =>
    have e1 : Gen.isSub box.kind .TableColumnBox = false := by rcases hk with hk | hk <;> rw [hk] <;> rfl
    have e2 : Gen.isSub box.kind .TableColumnGroupBox = false := by rcases hk with hk | hk <;> rw [hk] <;> rfl
    have e3 : Gen.isSub box.kind .TableBox = true := by rcases hk with hk | hk <;> rw [hk] <;> rfl
    have e4 : Gen.isSub box.kind .TableRowBox = false := by rcases hk with hk | hk <;> rw [hk] <;> rfl
    have e5 : Gen.isSub box.kind .InlineBox = false := by rcases hk with hk | hk <;> rw [hk] <;> rfl
    have e6 : Gen.tabularContainer box.kind = true := by rcases hk with hk | hk <;> rw [hk] <;> rfl
    unfold tbc at hf
    simp only [e1, e2, e3, e4, e5, e6, Bool.false_eq_true, if_false, if_true] at hf
    have hsub := afterWs_sub true l
    unfold afterWs at hsub
    simp only [if_true] at hsub
    generalize rule14 none (rule13 l) = c0 at hf hsub
    have hprop : ∀ c ∈ c0, Gen.properTableChild c.kind = true := fun c hc => hl c (hsub.1 c hc)
    split at hf
    · rename_i e h1
      cases hf
      exact wI_nofuel_pass box .TableRowBox (fun c : KBox => Gen.properTableChild c.kind) c0 n (by omega) hprop h1
    · rename_i c1 h1
      have e1' := wrapImproper_all_pass n box c0 _ _ c1 hprop h1
      subst e1'
      have p2 : ∀ c ∈ c1, (fun c : KBox => !c.isA .TableCellBox) c = true := by
        intro c hc; simp [not_cell_of_proper c (hprop c hc)]
      split at hf
      · rename_i e h2
        cases hf
        exact wI_nofuel_pass box .TableRowBox (fun c : KBox => !c.isA .TableCellBox) c1 n (by omega) p2 h2
      · rename_i c2 h2
        have e2' := wrapImproper_all_pass n box c1 _ _ c2 p2 h2
        subst e2'
        have p3 : ∀ c ∈ c2, (fun c : KBox => !Gen.properTableChild c.kind ||
            (Gen.properParents c.kind).contains box.kind) c = true := by
          intro c hc
          have := proper_parents_table c.kind (hprop c hc)
          rcases hk with hk | hk
          · rw [hk]; simp only [this.1, Bool.or_true]
          · rw [hk]; simp only [this.2, Bool.or_true]
        split at hf
        · rename_i e h3
          cases hf
          exact wI_nofuel_pass box .TableBox (fun c : KBox => !Gen.properTableChild c.kind ||
            (Gen.properParents c.kind).contains box.kind) c2 n (by omega) p3 h3
        · rename_i c3 h3
          have e3' := wrapImproper_all_pass n box c2 _ _ c3 p3 h3
          subst e3'
          exact wrapTable_nofuel n box c3 (by omega) hf

/-- An anonymous cell, made of the non-cells of a row: its proper table children go into one more
table. -/
theorem tbc_nofuel_cell (n : Nat) (box : KBox) (l : List KBox) (hk : box.kind = .TableCellBox)
    (hl : ∀ c ∈ l, c.isA .TableCellBox = false) (hn : 3 * l.length + 9 ≤ n) : NoFuel (tbc n box l) := by
  intro hf
  cases n with
  | zero => omega
  | succ n =>
    unfold tbc at hf
    simp only [hk] at hf
    simp only [show Gen.isSub .TableCellBox .TableColumnBox = false from rfl,
      show Gen.isSub .TableCellBox .TableColumnGroupBox = false from rfl,
      show Gen.isSub .TableCellBox .TableBox = false from rfl,
      show Gen.isSub .TableCellBox .TableRowGroupBox = false from rfl,
      show Gen.isSub .TableCellBox .TableRowBox = false from rfl,
      show Gen.isSub .TableCellBox .InlineBox = false from rfl,
      show Gen.tabularContainer .TableCellBox = false from rfl,
      Bool.false_eq_true, if_false] at hf
    have hsub := afterWs_sub false l
    unfold afterWs at hsub
    simp only [Bool.false_eq_true, if_false] at hsub
    generalize rule14 none l = c0 at hf hsub
    have p2 : ∀ c ∈ c0, (fun c : KBox => !c.isA .TableCellBox) c = true := by
      intro c hc; simp [hl c (hsub.1 c hc)]
    split at hf
    · rename_i e h2
      cases hf
      exact wI_nofuel_pass box .TableRowBox (fun c : KBox => !c.isA .TableCellBox) c0 n (by omega) p2 h2
    · rename_i c2 h2
      have e2' := wrapImproper_all_pass n box c0 _ _ c2 p2 h2
      subst e2'
      split at hf
      · rename_i e h3
        cases hf
        refine wI_nofuel (2 * l.length + 7) l.length box .TableBox _ c2 ?_ c2 [] n (by omega) (by simp; omega)
          (fun c hc => hc) (by simp) h3
        intro l' k hk' _ hlen hl'
        refine tbc_nofuel_table k _ l' (Or.inl rfl) ?_ (by omega)
        intro c hc
        have := (hl' c hc).2
        simp only [Bool.or_eq_false_iff, Bool.not_eq_false'] at this
        exact this.1
      · cases hf

/-- A row with any children: its non-cells go into anonymous cells. -/
theorem tbc_nofuel_row (n : Nat) (box : KBox) (l : List KBox) (hk : box.kind = .TableRowBox)
    (hn : 4 * l.length + 11 ≤ n) : NoFuel (tbc n box l) := by
  intro hf
  cases n with
  | zero => omega
  | succ n =>
    unfold tbc at hf
    simp only [hk] at hf
    simp only [show Gen.isSub .TableRowBox .TableColumnBox = false from rfl,
      show Gen.isSub .TableRowBox .TableColumnGroupBox = false from rfl,
      show Gen.isSub .TableRowBox .TableBox = false from rfl,
      show Gen.isSub .TableRowBox .TableRowGroupBox = false from rfl,
      show Gen.isSub .TableRowBox .TableRowBox = true from rfl,
      show Gen.isSub .TableRowBox .InlineBox = false from rfl,
      show Gen.tabularContainer .TableRowBox = true from rfl,
      Bool.false_eq_true, if_false, if_true] at hf
    have hsub := afterWs_sub true l
    unfold afterWs at hsub
    simp only [if_true] at hsub
    generalize rule14 none (rule13 l) = c0 at hf hsub
    split at hf
    · rename_i e h2
      cases hf
      refine wI_nofuel (3 * l.length + 9) l.length box .TableCellBox _ c0 ?_ c0 [] n (by omega) (by simp; omega)
        (fun c hc => hc) (by simp) h2
      intro l' k hk' _ hlen hl'
      exact tbc_nofuel_cell k _ l' rfl (fun c hc => (hl' c hc).2) (by omega)
    · rename_i c2 h2
      have hcells : ∀ o ∈ c2, o.kind = .TableCellBox := by
        intro o ho
        rcases wrapImproper_spec n box _ _ _ [] c2 h2 o ho with ⟨_, ht⟩ | hw
        · exact (isA_cell_iff o).1 ht
        · exact wrappedAs_kind _ o hw rfl
      have hlen2 := wI_length0 n box c0 _ _ c2 h2
      have p3 : ∀ c ∈ c2, (fun c : KBox => !Gen.properTableChild c.kind ||
          (Gen.properParents c.kind).contains .TableRowBox) c = true := by
        intro c hc
        simp only [hcells c hc]; decide
      split at hf
      · rename_i e h3
        cases hf
        exact wI_nofuel_pass box .TableBox (fun c : KBox => !Gen.properTableChild c.kind ||
          (Gen.properParents c.kind).contains .TableRowBox) c2 n (by omega) p3 h3
      · cases hf


/-! ### any box: `table_boxes_children` as rule 1 followed by the three wrapping steps -/

/-- Rules 1.1 – 1.4: the children `table_boxes_children` goes on with. -/
def preKids (box : KBox) (children : List KBox) : List KBox :=
  let k := box.kind
  let children :=
    if Gen.isSub k .TableColumnBox then []
    else if Gen.isSub k .TableColumnGroupBox then
      let cols := children.filter (fun c => c.isA .TableColumnBox)
      if cols.isEmpty then List.replicate (groupSpan box) (anonFrom .TableColumnBox box [])
      else cols
    else children
  let children := if Gen.tabularContainer k then rule13 children else children
  rule14 none children

def tbcStep1 (n : Nat) (box : KBox) (children : List KBox) : Except BErr (List KBox) :=
  if Gen.isSub box.kind .TableBox then
    wrapImproper n box children .TableRowBox (fun c => Gen.properTableChild c.kind) []
  else if Gen.isSub box.kind .TableRowGroupBox then
    wrapImproper n box children .TableRowBox (fun c => c.isA .TableRowBox) []
  else .ok children

def tbcStep2 (n : Nat) (box : KBox) (children : List KBox) : Except BErr (List KBox) :=
  if Gen.isSub box.kind .TableRowBox then
    wrapImproper n box children .TableCellBox (fun c => c.isA .TableCellBox) []
  else
    wrapImproper n box children .TableRowBox (fun c => !c.isA .TableCellBox) []

def tbcStep3 (n : Nat) (box : KBox) (children : List KBox) : Except BErr (List KBox) :=
  if Gen.isSub box.kind .InlineBox then
    wrapImproper n box children .InlineTableBox (fun c => !Gen.properTableChild c.kind) []
  else
    wrapImproper n box children .TableBox
      (fun c => !Gen.properTableChild c.kind || (Gen.properParents c.kind).contains box.kind) []

def tbcCore (n : Nat) (box : KBox) (children : List KBox) : Except BErr KBox :=
  match tbcStep1 n box children with
  | .error e => .error e
  | .ok children =>
    match tbcStep2 n box children with
    | .error e => .error e
    | .ok children =>
      match tbcStep3 n box children with
      | .error e => .error e
      | .ok children =>
        if Gen.isSub box.kind .TableBox then wrapTable n box children
        else .ok (box.withKids children)

theorem tbc_succ (n : Nat) (box : KBox) (l : List KBox) :
    tbc (n + 1) box l = tbcCore n box (preKids box l) := by
  unfold tbc
  rfl

theorem preKids_length (box : KBox) (l : List KBox) :
    (preKids box l).length ≤ l.length + groupSpan box := by
  unfold preKids
  simp only []
  refine Nat.le_trans (rule14_length _ none) ?_
  have h1 : (if Gen.isSub box.kind .TableColumnBox = true then ([] : List KBox)
      else if Gen.isSub box.kind .TableColumnGroupBox = true then
        if (l.filter (fun c => c.isA .TableColumnBox)).isEmpty = true then
          List.replicate (groupSpan box) (anonFrom .TableColumnBox box [])
        else l.filter (fun c => c.isA .TableColumnBox)
      else l).length ≤ l.length + groupSpan box := by
    split
    · simp
    · split
      · split
        · simp
        · exact Nat.le_trans (List.length_filter_le _ _) (Nat.le_add_right _ _)
      · omega
  split
  · exact Nat.le_trans (rule13_length _) h1
  · exact h1

theorem tbcStep1_length (n : Nat) (box : KBox) (c0 c1 : List KBox) (h : tbcStep1 n box c0 = .ok c1) :
    c1.length ≤ c0.length := by
  unfold tbcStep1 at h
  split at h
  · exact wI_length0 _ _ _ _ _ _ h
  · split at h
    · exact wI_length0 _ _ _ _ _ _ h
    · cases h; exact Nat.le_refl _

theorem tbcStep2_length (n : Nat) (box : KBox) (c0 c1 : List KBox) (h : tbcStep2 n box c0 = .ok c1) :
    c1.length ≤ c0.length := by
  unfold tbcStep2 at h
  split at h <;> exact wI_length0 _ _ _ _ _ _ h

theorem tbcStep3_length (n : Nat) (box : KBox) (c0 c1 : List KBox) (h : tbcStep3 n box c0 = .ok c1) :
    c1.length ≤ c0.length := by
  unfold tbcStep3 at h
  split at h <;> exact wI_length0 _ _ _ _ _ _ h

theorem tbcStep1_nofuel (n m : Nat) (box : KBox) (c0 : List KBox) (hm : c0.length ≤ m)
    (hn : 5 * m + 12 ≤ n) : NoFuel (tbcStep1 n box c0) := by
  intro hf
  unfold tbcStep1 at hf
  have hcall : ∀ (test : KBox → Bool) (l : List KBox) (k : Nat), 4 * m + 11 ≤ k → l ≠ [] → l.length ≤ m →
      (∀ c ∈ l, c ∈ c0 ∧ test c = false) → NoFuel (tbc k (anonFrom .TableRowBox box []) l) := by
    intro _ l k hk _ hl _
    exact tbc_nofuel_row k _ l rfl (by omega)
  split at hf
  · exact wI_nofuel (4 * m + 11) m box .TableRowBox _ c0 (hcall _) c0 [] n (by omega) (by simpa using hm)
      (fun c hc => hc) (by simp) hf
  · split at hf
    · exact wI_nofuel (4 * m + 11) m box .TableRowBox _ c0 (hcall _) c0 [] n (by omega) (by simpa using hm)
        (fun c hc => hc) (by simp) hf
    · cases hf

theorem tbcStep2_nofuel (n m : Nat) (box : KBox) (c0 : List KBox) (hm : c0.length ≤ m)
    (hn : 5 * m + 12 ≤ n) : NoFuel (tbcStep2 n box c0) := by
  intro hf
  unfold tbcStep2 at hf
  split at hf
  · refine wI_nofuel (3 * m + 9) m box .TableCellBox _ c0 ?_ c0 [] n (by omega) (by simpa using hm)
      (fun c hc => hc) (by simp) hf
    intro l k hk _ hl hl'
    exact tbc_nofuel_cell k _ l rfl (fun c hc => (hl' c hc).2) (by omega)
  · refine wI_nofuel (4 * m + 11) m box .TableRowBox _ c0 ?_ c0 [] n (by omega) (by simpa using hm)
      (fun c hc => hc) (by simp) hf
    intro l k hk _ hl _
    exact tbc_nofuel_row k _ l rfl (by omega)

theorem tbcStep3_nofuel (n m : Nat) (box : KBox) (c0 : List KBox) (hm : c0.length ≤ m)
    (hn : 5 * m + 12 ≤ n) : NoFuel (tbcStep3 n box c0) := by
  intro hf
  unfold tbcStep3 at hf
  split at hf
  · refine wI_nofuel (2 * m + 7) m box .InlineTableBox _ c0 ?_ c0 [] n (by omega) (by simpa using hm)
      (fun c hc => hc) (by simp) hf
    intro l k hk _ hl hl'
    refine tbc_nofuel_table k _ l (Or.inr rfl) ?_ (by omega)
    intro c hc
    simpa using (hl' c hc).2
  · refine wI_nofuel (2 * m + 7) m box .TableBox _ c0 ?_ c0 [] n (by omega) (by simpa using hm)
      (fun c hc => hc) (by simp) hf
    intro l k hk _ hl hl'
    refine tbc_nofuel_table k _ l (Or.inl rfl) ?_ (by omega)
    intro c hc
    have := (hl' c hc).2
    simp only [Bool.or_eq_false_iff, Bool.not_eq_false'] at this
    exact this.1

/-- **Fuel sufficiency for `table_boxes_children`**: `5·m + 14` steps are enough for a box whose
children (after rule 1.2, which may create `span` columns) number at most `m`. -/
theorem tbc_nofuel (n : Nat) (box : KBox) (l : List KBox)
    (hn : 5 * (l.length + groupSpan box) + 14 ≤ n) : NoFuel (tbc n box l) := by
  cases n with
  | zero => omega
  | succ n =>
    rw [tbc_succ]
    have h0 := preKids_length box l
    generalize preKids box l = c0 at h0
    generalize hm : l.length + groupSpan box = m at h0 hn
    intro hf
    unfold tbcCore at hf
    split at hf
    · rename_i e h1
      cases hf
      exact tbcStep1_nofuel n m box c0 h0 (by omega) h1
    · rename_i c1 h1
      have l1 := tbcStep1_length n box c0 c1 h1
      split at hf
      · rename_i e h2
        cases hf
        exact tbcStep2_nofuel n m box c1 (by omega) (by omega) h2
      · rename_i c2 h2
        have l2 := tbcStep2_length n box c1 c2 h2
        split at hf
        · rename_i e h3
          cases hf
          exact tbcStep3_nofuel n m box c2 (by omega) (by omega) h3
        · rename_i c3 h3
          have l3 := tbcStep3_length n box c2 c3 h3
          split at hf
          · exact wrapTable_nofuel n box c3 (by omega) hf
          · cases hf

theorem tableFuel_enough (m : Nat) : 5 * m + 14 ≤ tableFuel m := by unfold tableFuel; omega

mutual
/-- **`anonymous_table_boxes` never runs out of fuel.** -/
theorem atb_nofuel : ∀ (b : KBox), NoFuel (atb b)
  | .mk k st el inst text kids cols => by
    intro hf
    unfold atb at hf
    split at hf
    · cases hf
    · split at hf
      · rename_i e he
        cases hf
        exact atbKids_nofuel kids he
      · exact tbc_nofuel _ _ _ (tableFuel_enough _) hf
theorem atbKids_nofuel : ∀ (l : List KBox), NoFuel (atbKids l)
  | [] => by intro hf; unfold atbKids at hf; cases hf
  | c :: cs => by
    intro hf
    unfold atbKids at hf
    split at hf
    · cases hf
    · rename_i e he
      cases hf
      exact atb_nofuel c he
    · rename_i e he _
      cases hf
      exact atbKids_nofuel cs he
end


/-! ### `inline_in_block` uses no fuel at all -/

theorem groupLines_nofuel (parent : KBox) : ∀ (l line acc : List KBox), NoFuel (groupLines parent l line acc)
  | [], line, acc => by
    intro hf
    unfold groupLines at hf
    split at hf
    · split at hf <;> cases hf
    · cases hf
  | c :: cs, line, acc => by
    intro hf
    unfold groupLines at hf
    split at hf
    · cases hf
    · split at hf
      · exact groupLines_nofuel parent cs _ _ hf
      · split at hf
        · split at hf
          · exact groupLines_nofuel parent cs _ _ hf
          · exact groupLines_nofuel parent cs _ _ hf
        · split at hf
          · exact groupLines_nofuel parent cs _ _ hf
          · exact groupLines_nofuel parent cs _ _ hf

mutual
theorem iib_nofuel : ∀ (force : Bool) (b : KBox), NoFuel (iib force b)
  | force, .mk k st el inst text kids cols => by
    intro hf
    unfold iib at hf
    simp only [] at hf
    split at hf
    · cases hf
    · split at hf
      · rename_i e he
        cases hf
        exact iibKids_nofuel false kids he
      · split at hf
        · cases hf
        · split at hf
          · rename_i e he
            cases hf
            exact groupLines_nofuel _ _ _ _ he
          · cases hf
theorem iibKids_nofuel : ∀ (t : Bool) (l : List KBox), NoFuel (iibKids t l)
  | t, [] => by intro hf; unfold iibKids at hf; cases hf
  | t, c :: cs => by
    intro hf
    unfold iibKids at hf
    split at hf
    · exact iibKids_nofuel _ cs hf
    · split at hf
      · rename_i e he
        cases hf
        exact iib_nofuel t c he
      · split at hf
        · rename_i e he
          cases hf
          exact iibKids_nofuel false cs he
        · cases hf
end

/-- **`create_anonymous_boxes` never runs out of fuel**: every loop of the model that stands for a
Python `while` / recursion on fresh boxes ends within the fuel the model provides. -/
theorem createAnonymousBoxes_nofuel (b : KBox) : NoFuel (createAnonymousBoxes b) := by
  intro hf
  unfold createAnonymousBoxes at hf
  split at hf
  · rename_i e he
    cases hf
    exact atb_nofuel b he
  · simp only [] at hf
    split at hf
    · rename_i e he
      cases hf
      exact iib_nofuel _ _ he
    · exact bii_terminates _ hf


/-! ### box generation uses no fuel either -/

theorem quoteAt_nofuel (qs : List Text) (d : Nat) : NoFuel (quoteAt qs d) := by
  intro hf; unfold quoteAt at hf; split at hf <;> cases hf

theorem quoteText_nofuel (q : Quotes) (o i : Bool) (d : Nat) : NoFuel (quoteText q o i d) := by
  intro hf
  unfold quoteText at hf
  split at hf
  · cases hf
  · split at hf
    · exact quoteAt_nofuel _ _ hf
    · cases hf
  · split at hf
    · exact quoteAt_nofuel _ _ hf
    · cases hf

theorem contentText_nofuel (q : Quotes) : ∀ (l : List CItem) (acc : Text) (d : Nat), NoFuel (contentText q l acc d)
  | [], acc, d => by intro hf; unfold contentText at hf; cases hf
  | .str t :: rest, acc, d => by
    intro hf; unfold contentText at hf; exact contentText_nofuel q rest _ _ hf
  | .quote o i :: rest, acc, d => by
    intro hf
    unfold contentText at hf
    simp only [] at hf
    split at hf
    · rename_i e he
      cases hf
      exact quoteText_nofuel _ _ _ _ he
    · exact contentText_nofuel q rest _ _ hf

theorem contentToBoxes_nofuel (q : Quotes) (c : Content) (parent : KBox) (d : Nat) :
    NoFuel (contentToBoxes q c parent d) := by
  intro hf
  unfold contentToBoxes at hf
  split at hf
  · cases hf
  · split at hf
    · rename_i e he
      cases hf
      exact contentText_nofuel _ _ _ _ he
    · cases hf

theorem markerToBox_nofuel (m : MarkerSpec) (attrs : El) (o : Bool) (d : Nat) :
    NoFuel (markerToBox m attrs o d) := by
  intro hf
  unfold markerToBox at hf
  simp only [] at hf
  split at hf
  · cases hf
  · split at hf
    · cases hf
    · split at hf
      · rename_i e he
        cases hf
        split at he
        · split at he
          · rename_i e' he'
            cases he
            exact contentToBoxes_nofuel _ _ _ _ he'
          · cases he
        · split at he <;> cases he
      · split at hf
        · cases hf
        · split at hf <;> cases hf

theorem beforeAfterToBox_nofuel (p : Option Pseudo) (marker : Option MarkerSpec) (attrs : El) (d : Nat) :
    NoFuel (beforeAfterToBox p marker attrs d) := by
  intro hf
  unfold beforeAfterToBox at hf
  split at hf
  · cases hf
  · simp only [] at hf
    split at hf
    · cases hf
    · split at hf
      · cases hf
      · split at hf
        · cases hf
        · split at hf
          · rename_i e he
            cases hf
            split at he
            · split at he
              · exact markerToBox_nofuel _ _ _ _ he
              · cases he
            · cases he
          · split at hf
            · rename_i e he
              cases hf
              exact contentToBoxes_nofuel _ _ _ _ he
            · cases hf

mutual
theorem elementToBox_nofuel : ∀ (root : Bool) (d : Dom) (depth : Nat), NoFuel (elementToBox root d depth)
  | root, .el es attrs marker before after text kids tail, depth => by
    intro hf
    unfold elementToBox at hf
    simp only at hf
    split at hf
    · cases hf
    · split at hf
      · cases hf
      · split at hf
        · rename_i e he
          cases hf
          split at he
          · split at he
            · exact markerToBox_nofuel _ _ _ _ he
            · cases he
          · cases he
        · split at hf
          · rename_i e he
            cases hf
            exact beforeAfterToBox_nofuel _ _ _ _ he
          · split at hf
            · rename_i e he
              cases hf
              exact elementKids_nofuel _ kids _ _ he
            · split at hf
              · rename_i e he
                cases hf
                exact beforeAfterToBox_nofuel _ _ _ _ he
              · cases hf
theorem elementKids_nofuel : ∀ (parent : KBox) (ds : List Dom) (acc : List KBox) (depth : Nat),
    NoFuel (elementKids parent ds acc depth)
  | parent, [], acc, depth => by intro hf; unfold elementKids at hf; cases hf
  | parent, d :: ds, acc, depth => by
    intro hf
    unfold elementKids at hf
    split at hf
    · rename_i e he
      cases hf
      exact elementToBox_nofuel false d depth he
    · exact elementKids_nofuel parent ds _ _ hf
end

/-- **`build_formatting_structure` never runs out of fuel.** -/
theorem buildFormattingStructure_nofuel (d : Dom) : NoFuel (buildFormattingStructure d) := by
  intro hf
  unfold buildFormattingStructure at hf
  split at hf
  · rename_i e he
    cases hf
    exact elementToBox_nofuel _ _ _ he
  · exact createAnonymousBoxes_nofuel _ hf
  · cases hf

end Wp.Bx
