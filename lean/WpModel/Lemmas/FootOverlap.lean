/-
Body text does not run into the footnote area (C03 with footnotes), paragraph level.

`context.page_bottom` is a *function of the footnotes currently in the area* (`pbOf`; exact since repairs 8db5909
and 84e5b27: the area is never fragmented, an empty area takes no room). Taking a footnote lowers it, postponing or
un-laying-out one raises it back (`pbOf_mono`, needs non-negative footnote heights only since repair 2efefde).  The footnote loop
of a line therefore ends either with `page_bottom` at least where it was, or with the line itself fitting above the
new `page_bottom` (`footLoop_bottom`); since the lines of a paragraph are stacked, every line kept by
`_linebox_layout` — the first line of an empty page excepted — ends above `page_bottom` *as it is when the
paragraph is done*, i.e. above the footnote area that holds the footnotes called so far (`lineLoopF_fits_final`,
`para_fits_final`).  `boxF_pbx`: the exact bookkeeping holds through whole layouts.  `boxF_chain`: the same line
property for whole layouts of single-child chains of boxes (no sibling boxes, so no stacking argument is needed).
-/
import WpModel.Lemmas.FootGeoBox

namespace Wp.PMF
open Wp Wp.PM

/-- `context.page_bottom` when the footnote area holds `cur`. -/
def pbOf (c : FCtx) (cur : List Fn) : Rat :=
  if cur.isEmpty then c.pageH else c.pageH - max0 (areaLayout c.area c.pageH cur).marginHeight

/-- The exact bookkeeping: `page_bottom` is `pbOf` of the current footnotes. -/
def PbX (c : FCtx) (fs : FState) : Prop := PbInv c fs ∧ fs.pageBottom = pbOf c fs.cur

theorem updateArea_pb (c : FCtx) (fs : FState)
    (hpb : (fs.areaH = none ∧ fs.pageBottom = c.pageH) ∨
      ∃ h, fs.areaH = some h ∧ fs.pageBottom = c.pageH - max0 (c.area.marginHeight h)) :
    (updateArea c fs).1.pageBottom = pbOf c fs.cur := by
  unfold updateArea pbOf
  rcases hpb with ⟨h1, h2⟩ | ⟨h, h1, h2⟩
  · rw [h1]; dsimp only; rw [h2]; split <;> rfl
  · rw [h1]; dsimp only; rw [h2]
    have e : c.pageH - max0 (c.area.marginHeight h) + max0 (c.area.marginHeight h) = c.pageH := by grind
    rw [e]; split <;> rfl

theorem updateArea_pbx (c : FCtx) (fs : FState)
    (hpb : (fs.areaH = none ∧ fs.pageBottom = c.pageH) ∨
      ∃ h, fs.areaH = some h ∧ fs.pageBottom = c.pageH - max0 (c.area.marginHeight h)) :
    (updateArea c fs).1.pageBottom = pbOf c (updateArea c fs).1.cur := by
  rw [updateArea_cur]; exact updateArea_pb c fs hpb

theorem layoutFootnote_pbx (c : FCtx) (fs : FState) (f : Fn) (h : PbX c fs) (hf : 0 ≤ f.height) :
    PbX c (layoutFootnote c fs f).1 :=
  ⟨layoutFootnote_inv c fs f h.1 hf, updateArea_pbx c _ h.1.weak⟩

theorem reportFootnote_pbx (c : FCtx) (fs : FState) (f : Fn) (h : PbX c fs) (hf : 0 ≤ f.height) :
    PbX c (reportFootnote c fs f) :=
  ⟨reportFootnote_inv c fs f h.1 hf, updateArea_pbx c _ h.1.weak⟩

theorem unlayFootnote_pbx (c : FCtx) (fs : FState) (f : Fn) (h : PbX c fs) : PbX c (unlayFootnote c fs f) := by
  refine ⟨unlayFootnote_inv c fs f h.1, ?_⟩
  unfold unlayFootnote
  split
  · exact h.2
  · dsimp only
    split
    · exact updateArea_pbx c _ h.1.weak
    · split
      · exact updateArea_pbx c _ h.1.weak
      · exact updateArea_pbx c _ h.1.weak

theorem unlayAll_pbx (c : FCtx) (G : List Fn) (fs : FState) (h : PbX c fs) : PbX c (unlayAll c fs G) := by
  induction G generalizing fs with
  | nil => exact h
  | cons f rest ih => exact ih _ (unlayFootnote_pbx c fs f h)

/-! ### `pbOf` depends on the footnotes through their total height only, and is antitone in it -/

theorem sumHeights_erase (l : List Fn) (f : Fn) (h : f ∈ l) : sumHeights (l.erase f) = sumHeights l - f.height := by
  induction l with
  | nil => cases h
  | cons x xs ih =>
    by_cases hx : x = f
    · subst hx; simp only [List.erase_cons_head, sumHeights]; grind
    · have hm : f ∈ xs := by
        rcases List.mem_cons.mp h with h | h
        · exact absurd h.symm hx
        · exact h
      rw [List.erase_cons_tail (by simpa using hx)]
      simp only [sumHeights, ih hm]
      grind

theorem sumHeights_append (a b : List Fn) : sumHeights (a ++ b) = sumHeights a + sumHeights b := by
  induction a with
  | nil => simp only [List.nil_append, sumHeights]; grind
  | cons x xs ih => simp only [List.cons_append, sumHeights, ih]; grind

/-- Height of the laid-out area as a function of the total height of its footnotes. -/
def areaH (a : AreaStyle) (s : Rat) : Rat :=
  let capped := match a.maxH with | none => s | some m => if s ≤ m then s else m
  if capped ≥ 0 then capped else 0

theorem areaLayout_h (a : AreaStyle) (pageH : Rat) (cur : List Fn) :
    (areaLayout a pageH cur).h = areaH a (sumHeights cur) := rfl

theorem areaH_mono (a : AreaStyle) (s s' : Rat) (h : s ≤ s') : areaH a s ≤ areaH a s' := by
  unfold areaH
  cases a.maxH with
  | none => dsimp only; split <;> split <;> grind
  | some m =>
    dsimp only
    by_cases h1 : s ≤ m <;> by_cases h2 : s' ≤ m <;> simp only [h1, h2, ↓reduceIte] <;> repeat' split
    all_goals grind

theorem areaH_nonneg (a : AreaStyle) (s : Rat) : 0 ≤ areaH a s := by
  unfold areaH; dsimp only
  exact clamp_nonneg _

theorem pbOf_eq (c : FCtx) (cur : List Fn) (hne : cur ≠ []) :
    pbOf c cur = c.pageH - max0 (c.area.marginHeight (areaH c.area (sumHeights cur))) := by
  unfold pbOf
  rw [if_neg (by simpa using hne)]
  rfl

theorem max0_mono (x y : Rat) (h : x ≤ y) : max0 x ≤ max0 y := by
  unfold max0; split <;> split <;> grind

theorem pbOf_le_pageH (c : FCtx) (cur : List Fn) : pbOf c cur ≤ c.pageH := by
  by_cases hne : cur = []
  · subst hne; simp [pbOf]
  · rw [pbOf_eq c cur hne]
    have := max0_nonneg (c.area.marginHeight (areaH c.area (sumHeights cur)))
    grind

/-- Fewer footnotes (by total height), or none at all: a lower-or-equal area, a higher-or-equal page bottom. -/
theorem pbOf_mono (c : FCtx) (cur cur' : List Fn)
    (hs : sumHeights cur' ≤ sumHeights cur) (he : cur = [] → cur' = []) : pbOf c cur ≤ pbOf c cur' := by
  by_cases hne' : cur' = []
  · subst hne'
    have : pbOf c [] = c.pageH := by simp [pbOf]
    rw [this]; exact pbOf_le_pageH c cur
  · have hne : cur ≠ [] := fun h => hne' (he h)
    rw [pbOf_eq c cur hne, pbOf_eq c cur' hne']
    have h1 := areaH_mono c.area _ _ hs
    have h2 : c.area.marginHeight (areaH c.area (sumHeights cur')) ≤
        c.area.marginHeight (areaH c.area (sumHeights cur)) := by
      simp only [AreaStyle.marginHeight]; grind
    have := max0_mono _ _ h2
    grind

theorem pbOf_congr (c : FCtx) (cur cur' : List Fn) (hs : sumHeights cur' = sumHeights cur)
    (he : cur = [] ↔ cur' = []) : pbOf c cur = pbOf c cur' := by
  by_cases hne : cur = []
  · rw [hne, he.mp hne]
  · have hne' : cur' ≠ [] := fun h => hne (he.mpr h)
    rw [pbOf_eq c cur hne, pbOf_eq c cur' hne', hs]

/-! ### what the state changes do to `page_bottom` -/

theorem fits_of_pb_le (c : FCtx) (g g' : FState) (bs y : Rat) (h : g.pageBottom ≤ g'.pageBottom)
    (ho : (ctxOf c g).overflowsPage bs y = false) : (ctxOf c g').overflowsPage bs y = false := by
  simp only [Ctx.overflowsPage, ctxOf] at ho ⊢
  exact overflows_anti _ _ _ (by grind) ho

/-- Postponing the footnote just laid out gives `page_bottom` its previous value back. -/
theorem report_restores (c : FCtx) (fs : FState) (f : Fn) (h : PbX c fs) (hf : 0 ≤ f.height) :
    (reportFootnote c (layoutFootnote c fs f).1 f).pageBottom = fs.pageBottom := by
  have h2 := (reportFootnote_pbx c _ f (layoutFootnote_pbx c fs f h hf) hf).2
  rw [h2, h.2, reportFootnote_cur, layoutFootnote_cur]
  symm
  apply pbOf_congr
  · rw [sumHeights_erase _ f (by simp), sumHeights_append]
    simp only [sumHeights]
    grind
  · constructor
    · intro he; rw [he]; simp
    · intro he
      have hl := congrArg List.length he
      rw [List.length_erase_of_mem (by simp)] at hl
      simp only [List.length_append, List.length_singleton, List.length_nil] at hl
      exact List.eq_nil_of_length_eq_zero (by omega)

/-- Un-laying-out never lowers `page_bottom`. -/
theorem unlayFootnote_pb_mono (c : FCtx) (fs : FState) (f : Fn) (h : PbX c fs) :
    fs.pageBottom ≤ (unlayFootnote c fs f).pageBottom := by
  have h2 := (unlayFootnote_pbx c fs f h).2
  rw [h2, h.2]
  unfold unlayFootnote
  split
  · exact Rat.le_refl
  · dsimp only
    rw [updateArea_cur]
    split
    · rename_i hc
      apply pbOf_mono c
      · rw [sumHeights_erase _ f hc]
        have := h.1.1 f hc
        grind
      · intro he; rw [he] at hc; cases hc
    · split <;> exact Rat.le_refl

theorem unlayAll_pb_mono (c : FCtx) (G : List Fn) (fs : FState) (h : PbX c fs) :
    fs.pageBottom ≤ (unlayAll c fs G).pageBottom := by
  induction G generalizing fs with
  | nil => exact Rat.le_refl
  | cons f rest ih =>
    have h1 := unlayFootnote_pb_mono c fs f h
    have h2 := ih _ (unlayFootnote_pbx c fs f h)
    simp only [unlayAll]
    exact Rat.le_trans h1 h2

/-- **The footnote loop of a line and `page_bottom`**: it ends with `page_bottom` at least where it was (every
footnote of the line postponed), or with the line fitting above the new `page_bottom` (the last footnote kept was
accepted with the line above it, and nothing kept afterwards). -/
theorem footLoop_bottom (c : FCtx) (guard pie : Bool) (bs y : Rat) (F : List Fn) (fs : FState) (h : PbX c fs)
    (hF : ∀ f ∈ F, 0 ≤ f.height) :
    PbX c (footLoop c guard pie bs y F fs).2 ∧
    (fs.pageBottom ≤ (footLoop c guard pie bs y F fs).2.pageBottom ∨
      (ctxOf c (footLoop c guard pie bs y F fs).2).overflowsPage bs y = false) := by
  induction F generalizing fs with
  | nil => exact ⟨h, Or.inl Rat.le_refl⟩
  | cons f rest ih =>
    have hf := hF f (by simp)
    have hr : ∀ g ∈ rest, 0 ≤ g.height := fun g hg => hF g (by simp [hg])
    have hx1 := layoutFootnote_pbx c fs f h hf
    have hx2 := reportFootnote_pbx c _ f hx1 hf
    have hpb2 := report_restores c fs f h hf
    unfold footLoop
    split
    · dsimp only
      split
      · split
        · exact ⟨hx2, Or.inl (by rw [hpb2]; exact Rat.le_refl)⟩
        · split
          · split <;> exact ⟨hx2, Or.inl (by rw [hpb2]; exact Rat.le_refl)⟩
          · obtain ⟨i1, i2⟩ := ih _ hx2 hr
            refine ⟨i1, ?_⟩
            rw [hpb2] at i2
            exact i2
      · rename_i hov
        simp only [Bool.or_eq_true, not_or, Bool.not_eq_true] at hov
        obtain ⟨i1, i2⟩ := ih _ hx1 hr
        refine ⟨i1, Or.inr ?_⟩
        rcases i2 with i2 | i2
        · exact fits_of_pb_le c _ _ bs y i2 hov.2
        · exact i2
    · exact ih _ h hr

/-! ### the lines of a paragraph -/

/-- A kept line is the first line placed while the page was empty, or ends above `page_bottom` (reduced by the
paragraph's `bottom_space`) *of the state `fs`*. -/
def LineFitsF (c : FCtx) (fs : FState) (bs lineH : Rat) (pie : Bool) (k : Nat) (p : Nat × Rat) : Prop :=
  (pie = true ∧ p.1 = k) ∨ (ctxOf c fs).overflowsPage bs (p.2 + lineH) = false

theorem lineFitsF_mono (c : FCtx) (g g' : FState) (bs lineH : Rat) (pie : Bool) (k : Nat) (p : Nat × Rat)
    (h : g.pageBottom ≤ g'.pageBottom) (hp : LineFitsF c g bs lineH pie k p) : LineFitsF c g' bs lineH pie k p := by
  rcases hp with hp | hp
  · exact Or.inl hp
  · exact Or.inr (fits_of_pb_le c g g' bs _ h hp)

/-- Lines that fit and end above `Y` still fit after the footnote loop of a line whose bottom is `Y' ≥ Y`. -/
theorem fits_after_footLoop (c : FCtx) (guard pie : Bool) (bs lineH Y Y' : Rat) (k : Nat) (F : List Fn) (fs : FState)
    (hx : PbX c fs) (hF : ∀ f ∈ F, 0 ≤ f.height) (L : List (Nat × Rat))
    (hs : ∀ p ∈ L, LineFitsF c fs bs lineH pie k p)
    (hstack : ∀ p ∈ L, (pie = true ∧ p.1 = k) ∨ p.2 + lineH ≤ Y) (hYY : L ≠ [] → Y ≤ Y') :
    ∀ p ∈ L, LineFitsF c (footLoop c guard pie bs Y' F fs).2 bs lineH pie k p := by
  intro p hp
  obtain ⟨_, hb⟩ := footLoop_bottom c guard pie bs Y' F fs hx hF
  rcases hb with hb | hb
  · exact lineFitsF_mono c _ _ bs lineH pie k p hb (hs p hp)
  · rcases hstack p hp with he | hle
    · exact Or.inl he
    · right
      have hne : L ≠ [] := by intro h; rw [h] at hp; cases hp
      exact not_overflowsPage_of_le _ bs _ _ (Rat.le_trans hle (hYY hne)) hb

/-- **Lines of a paragraph end above the footnote area** (C03 with footnotes): every line kept by
`_linebox_layout` — the first line of an empty page excepted — fits above `context.page_bottom` *as it is when the
loop ends*, whatever footnotes were laid out, postponed or un-laid-out on the way. -/
theorem lineLoopF_fits_final (c : FCtx) (st : PStyle) (calls : List Call) (b : BoxSt) (n : Nat) (lineH : Rat)
    (pie : Bool) (bs : Rat) (k : Nat) (fuel i : Nat) (y : Rat) (s : LineLoop) (fs : FState)
    (hcalls : ∀ cl ∈ calls, 0 ≤ (cl.m : Rat) * cl.h) (hdeco : 0 ≤ b.bb + b.pb) (hlh : 0 ≤ lineH)
    (hx : PbX c fs) (hfirst : s.lines = [] → i = k)
    (hs : ∀ p ∈ s.lines, LineFitsF c fs bs lineH pie k p)
    (hstack : ∀ p ∈ s.lines, (pie = true ∧ p.1 = k) ∨ p.2 + lineH ≤ y) :
    PbX c (lineLoopF c st calls b n lineH pie bs fuel i y s fs).2 ∧
    ∀ p ∈ outLines (lineLoopF c st calls b n lineH pie bs fuel i y s fs).1,
      LineFitsF c (lineLoopF c st calls b n lineH pie bs fuel i y s fs).2 bs lineH pie k p := by
  fun_induction lineLoopF c st calls b n lineH pie bs fuel i y s fs with
  | case1 i y s fs => exact ⟨hx, by simpa [outLines] using hs⟩
  | case2 fuel i y s fs resume newPosY dbd offset overflow hov abort stop r lines' hb =>
    refine ⟨unlayAll_pbx c _ fs hx, ?_⟩
    intro p hp
    simp only [outLines] at hp
    have hsub := breakLine_lines_sub st n i s.lines pie s.skip resume
    rw [hb] at hsub
    exact lineFitsF_mono c _ _ bs lineH pie k p (unlayAll_pb_mono c _ fs hx) (hs p (hsub p hp))
  | case3 fuel i y s fs resume newPosY dbd offset overflow hov shift newPosY' lineY mt' fs' hfl ih =>
    have hF := lineFns_height st calls i hcalls
    have hoff : 0 ≤ offset := by
      show 0 ≤ (if dbd = true then b.bb + b.pb else 0)
      split
      · exact hdeco
      · exact Rat.le_refl
    -- when a line is already kept, or the page is not empty, the current line fits and is not shifted
    have hplain : ¬(s.lines = [] ∧ pie = true) →
        (ctxOf c fs).overflowsPage bs newPosY = false ∧ newPosY' = newPosY ∧ lineY = y := by
      intro hfl'
      have hcond : (!s.lines.isEmpty || !pie) = true := by
        cases hl : s.lines with
        | nil =>
          have : pie = false := by
            cases hp : pie with
            | false => rfl
            | true => exact absurd ⟨hl, hp⟩ hfl'
          simp [this]
        | cons a l => simp
      have hno : (ctxOf c fs).overflowsPage bs (newPosY + offset) = false := by
        have : overflow = false := by simpa using hov
        have h2 : ((!s.lines.isEmpty || !pie) && (ctxOf c fs).overflowsPage bs (newPosY + offset)) = false := this
        rw [hcond] at h2
        simpa using h2
      have hno' : (ctxOf c fs).overflowsPage bs newPosY = false :=
        not_overflowsPage_of_le (ctxOf c fs) bs _ _ (by grind) hno
      have hshift : shift = false := by
        show (pie && (ctxOf c fs).overflowsPage bs newPosY) = false
        rw [hno']; simp
      refine ⟨hno', ?_, ?_⟩
      · show (if shift = true then newPosY - s.mt else newPosY) = newPosY
        rw [hshift]; simp
      · show (if shift = true then y - s.mt else y) = y
        rw [hshift]; simp
    have hfb := footLoop_bottom c (!s.lines.isEmpty || !pie) pie bs (newPosY' + offset) (lineFns st calls i) fs hx hF
    rw [hfl] at hfb
    have hold := fits_after_footLoop c (!s.lines.isEmpty || !pie) pie bs lineH y (newPosY' + offset) k
      (lineFns st calls i) fs hx hF s.lines hs hstack (by
        intro hne
        obtain ⟨_, h2, _⟩ := hplain (fun h => hne h.1)
        rw [h2]
        show y ≤ y + lineH + offset
        grind)
    rw [hfl] at hold
    apply ih hfb.1
    · intro h; simp at h
    · intro p hp
      rcases List.mem_append.mp hp with hp | hp
      · exact hold p hp
      · simp only [List.mem_singleton] at hp
        subst hp
        by_cases hfl' : s.lines = [] ∧ pie = true
        · exact Or.inl ⟨hfl'.2, hfirst hfl'.1⟩
        · obtain ⟨h1, h2, h3⟩ := hplain hfl'
          right
          show (ctxOf c fs').overflowsPage bs (lineY + lineH) = false
          rw [h3]
          rcases hfb.2 with hb | hb
          · exact fits_of_pb_le c fs fs' bs _ hb h1
          · rw [h2] at hb
            exact not_overflowsPage_of_le _ bs _ _ (by show y + lineH ≤ y + lineH + offset; grind) hb
    · intro p hp
      rcases List.mem_append.mp hp with hp | hp
      · rcases hstack p hp with h | h
        · exact Or.inl h
        · right; grind
      · simp only [List.mem_singleton] at hp
        subst hp
        by_cases hfl' : s.lines = [] ∧ pie = true
        · exact Or.inl ⟨hfl'.2, hfirst hfl'.1⟩
        · obtain ⟨_, _, h3⟩ := hplain hfl'
          right
          show lineY + lineH ≤ y + lineH
          rw [h3]; exact Rat.le_refl
  | case4 fuel i y s fs resume newPosY dbd offset overflow hov shift newPosY' mt' fs' hfl abort stop r lines' hb =>
    have hF := lineFns_height st calls i hcalls
    have hfb := footLoop_bottom c (!s.lines.isEmpty || !pie) pie bs (newPosY' + offset) (lineFns st calls i) fs hx hF
    rw [hfl] at hfb
    have hold := fits_after_footLoop c (!s.lines.isEmpty || !pie) pie bs lineH y (newPosY' + offset) k
      (lineFns st calls i) fs hx hF s.lines hs hstack (by
        intro hne
        have hcond : (!s.lines.isEmpty || !pie) = true := by
          cases hl : s.lines with
          | nil => exact absurd hl hne
          | cons a l => simp
        have hno : (ctxOf c fs).overflowsPage bs (newPosY + offset) = false := by
          have : overflow = false := by simpa using hov
          have h2 : ((!s.lines.isEmpty || !pie) && (ctxOf c fs).overflowsPage bs (newPosY + offset)) = false := this
          rw [hcond] at h2
          simpa using h2
        have hoff : 0 ≤ offset := by
          show 0 ≤ (if dbd = true then b.bb + b.pb else 0)
          split
          · exact hdeco
          · exact Rat.le_refl
        have hno' : (ctxOf c fs).overflowsPage bs newPosY = false :=
          not_overflowsPage_of_le (ctxOf c fs) bs _ _ (by grind) hno
        have hshift : shift = false := by
          show (pie && (ctxOf c fs).overflowsPage bs newPosY) = false
          rw [hno']; simp
        have : newPosY' = newPosY := by
          show (if shift = true then newPosY - s.mt else newPosY) = newPosY
          rw [hshift]; simp
        rw [this]
        show y ≤ y + lineH + offset
        grind)
    rw [hfl] at hold
    refine ⟨unlayAll_pbx c _ fs' hfb.1, ?_⟩
    intro p hp
    simp only [outLines] at hp
    have hsub := breakLine_lines_sub st n i s.lines pie s.skip resume
    rw [hb] at hsub
    exact lineFitsF_mono c _ _ bs lineH pie k p (unlayAll_pb_mono c _ fs' hfb.1) (hold p (hsub p hp))
  | case5 fuel i y s fs resume newPosY dbd offset overflow hov shift newPosY' mt' fs' hfl =>
    have hF := lineFns_height st calls i hcalls
    have hfb := footLoop_bottom c (!s.lines.isEmpty || !pie) pie bs (newPosY' + offset) (lineFns st calls i) fs hx hF
    rw [hfl] at hfb
    have hold := fits_after_footLoop c (!s.lines.isEmpty || !pie) pie bs lineH y (newPosY' + offset) k
      (lineFns st calls i) fs hx hF s.lines hs hstack (by
        intro hne
        have hcond : (!s.lines.isEmpty || !pie) = true := by
          cases hl : s.lines with
          | nil => exact absurd hl hne
          | cons a l => simp
        have hno : (ctxOf c fs).overflowsPage bs (newPosY + offset) = false := by
          have : overflow = false := by simpa using hov
          have h2 : ((!s.lines.isEmpty || !pie) && (ctxOf c fs).overflowsPage bs (newPosY + offset)) = false := this
          rw [hcond] at h2
          simpa using h2
        have hoff : 0 ≤ offset := by
          show 0 ≤ (if dbd = true then b.bb + b.pb else 0)
          split
          · exact hdeco
          · exact Rat.le_refl
        have hno' : (ctxOf c fs).overflowsPage bs newPosY = false :=
          not_overflowsPage_of_le (ctxOf c fs) bs _ _ (by grind) hno
        have hshift : shift = false := by
          show (pie && (ctxOf c fs).overflowsPage bs newPosY) = false
          rw [hno']; simp
        have : newPosY' = newPosY := by
          show (if shift = true then newPosY - s.mt else newPosY) = newPosY
          rw [hshift]; simp
        rw [this]
        show y ≤ y + lineH + offset
        grind)
    rw [hfl] at hold
    refine ⟨hfb.1, ?_⟩
    intro p hp
    simp only [outLines] at hp
    exact hold p hp

theorem finishParaF_pb_mono (c : FCtx) (st : PStyle) (calls : List Call) (p : Prep)
    (pie : Bool) (id idx n : Nat) (r : LineResult) (fs : FState) (h : PbX c fs) :
    PbX c (finishParaF c st calls p pie id idx n r fs).fs ∧
    fs.pageBottom ≤ (finishParaF c st calls p pie id idx n r fs).fs.pageBottom := by
  unfold finishParaF
  dsimp only
  split
  · exact ⟨unlayAll_pbx c _ fs h, unlayAll_pb_mono c _ fs h⟩
  · split
    · split
      · exact ⟨unlayAll_pbx c _ fs h, unlayAll_pb_mono c _ fs h⟩
      · exact ⟨h, Rat.le_refl⟩
    · split
      · exact ⟨unlayAll_pbx c _ fs h, unlayAll_pb_mono c _ fs h⟩
      · exact ⟨h, Rat.le_refl⟩

/-- **A paragraph and the footnotes it calls** (`block_level_layout` of a paragraph): every line of the fragment
returned — the first line excepted when the paragraph started an empty page — ends above `context.page_bottom` as
the layout leaves it, i.e. above the footnote area holding every footnote taken so far on the page. -/
theorem para_fits_final (id n : Nat) (lineH : Rat) (st : PStyle) (calls : List Call) (hd : st.DecoOk)
    (hh : ∀ cl ∈ calls, 0 ≤ (cl.m : Rat) * cl.h) (hlh : 0 ≤ lineH) (c : FCtx) (idx : Nat)
    (y bs : Rat) (skip : Option Resume) (cb pie : Bool) (adjL : List Rat) (fs : FState) (hx : PbX c fs) (f : Frag)
    (hf : (layoutBoxF c (.para id n lineH st calls) idx y bs skip cb pie adjL fs).r.frag = some f) :
    PbX c (layoutBoxF c (.para id n lineH st calls) idx y bs skip cb pie adjL fs).fs ∧
    ∀ l ∈ placedLines f pie (.para id n lineH st), l.exempt = true ∨
      (ctxOf c (layoutBoxF c (.para id n lineH st calls) idx y bs skip cb pie adjL fs).fs).overflowsPage bs l.bottom
        = false := by
  simp only [layoutBoxF] at hf ⊢
  generalize hp : prepare (ctxOf c fs) st y bs skip cb pie adjL = p at hf ⊢
  have hbs : bs ≤ p.bs := by rw [← hp]; exact prepare_bs_le (ctxOf c fs) st y bs skip cb pie adjL hd
  have hdeco : 0 ≤ p.b.bb + p.b.pb := by
    rw [← hp]; simp only [prepare_bb, prepare_pb]; have := hd.1; grind
  -- the line loop
  have hloop := lineLoopF_fits_final c st calls p.b n lineH pie p.bs (skipLine (subSkipOf skip))
    (n - skipLine (subSkipOf skip)) (skipLine (subSkipOf skip)) (lineStart p.cur p.posY)
    { lines := [], posY := lineStart p.cur p.posY, skip := subSkipOf skip, mt := p.b.mt, dbd := p.dbd } fs hh hdeco
    hlh hx (fun _ => rfl) (by simp) (by simp)
  obtain ⟨m, hcont⟩ := lineLoopF_contiguous c st calls p.b n lineH pie p.bs (skipLine (subSkipOf skip))
    (n - skipLine (subSkipOf skip)) (skipLine (subSkipOf skip)) (lineStart p.cur p.posY)
    { lines := [], posY := lineStart p.cur p.posY, skip := subSkipOf skip, mt := p.b.mt, dbd := p.dbd } fs
    (Nat.le_refl _) (by simp)
  have hlr : lineboxLayoutF c st calls p.b n lineH pie p.cur p.bs p.posY (subSkipOf skip) p.dbd fs =
      (lineResultOf n (lineLoopF c st calls p.b n lineH pie p.bs (n - skipLine (subSkipOf skip))
        (skipLine (subSkipOf skip)) (lineStart p.cur p.posY)
        { lines := [], posY := lineStart p.cur p.posY, skip := subSkipOf skip, mt := p.b.mt, dbd := p.dbd } fs).1,
       (lineLoopF c st calls p.b n lineH pie p.bs (n - skipLine (subSkipOf skip))
        (skipLine (subSkipOf skip)) (lineStart p.cur p.posY)
        { lines := [], posY := lineStart p.cur p.posY, skip := subSkipOf skip, mt := p.b.mt, dbd := p.dbd } fs).2) := rfl
  rw [hlr] at hf ⊢
  generalize lineLoopF c st calls p.b n lineH pie p.bs (n - skipLine (subSkipOf skip))
    (skipLine (subSkipOf skip)) (lineStart p.cur p.posY)
    { lines := [], posY := lineStart p.cur p.posY, skip := subSkipOf skip, mt := p.b.mt, dbd := p.dbd } fs = o
    at hloop hcont hf ⊢
  obtain ⟨hxo, hfit⟩ := hloop
  dsimp only at hf ⊢
  obtain ⟨hxf, hmono⟩ := finishParaF_pb_mono c st calls p pie id idx n (lineResultOf n o.1) o.2 hxo
  refine ⟨hxf, ?_⟩
  simp only [finishParaF_r] at hf
  obtain ⟨g, rfl⟩ := finishPara_frag' _ _ _ _ _ _ _ _ _ hf
  have hlines : (lineResultOf n o.1).lines = outLines o.1 := by cases o.1 <;> rfl
  simp only [placedLines, hlines]
  have hfit' : ∀ q ∈ outLines o.1, (pie = true ∧ q.1 = skipLine (subSkipOf skip)) ∨
      (ctxOf c (finishParaF c st calls p pie id idx n (lineResultOf n o.1) o.2).fs).overflowsPage bs (q.2 + lineH)
        = false := by
    intro q hq
    rcases lineFitsF_mono c _ _ p.bs lineH pie _ q hmono (hfit q hq) with h | h
    · exact Or.inl h
    · exact Or.inr (not_overflowsPage_of_space_le _ bs p.bs _ hbs h)
  generalize outLines o.1 = lines at hfit' hcont
  cases lines with
  | nil => intro l hl; simp [paraPlaced] at hl
  | cons a rest =>
    intro l hl
    simp only [paraPlaced, List.mem_cons, List.mem_map] at hl
    rcases hl with rfl | ⟨q, hq, rfl⟩
    · rcases hfit' a (by simp) with h | h
      · left; exact h.1
      · right; exact h
    · right
      rcases hfit' q (by simp [hq]) with h | h
      · exfalso
        cases m with
        | zero => simp at hcont
        | succ m =>
          simp only [List.map_cons, List.range'_succ, List.cons.injEq] at hcont
          have : q.1 ∈ List.range' (skipLine (subSkipOf skip) + 1) m := by
            rw [← hcont.2]; exact List.mem_map_of_mem hq
          simp only [List.mem_range'_1] at this
          omega
      · exact h

/-! ### the exact bookkeeping through whole layouts -/

theorem footLoop_pbx (c : FCtx) (guard pie : Bool) (bs y : Rat) (F : List Fn) (fs : FState) (h : PbX c fs)
    (hF : ∀ f ∈ F, 0 ≤ f.height) : PbX c (footLoop c guard pie bs y F fs).2 :=
  (footLoop_bottom c guard pie bs y F fs h hF).1

theorem lineLoopF_pbx (c : FCtx) (st : PStyle) (calls : List Call) (b : BoxSt) (n : Nat) (lineH : Rat)
    (pie : Bool) (bs : Rat) (fuel i : Nat) (y : Rat) (s : LineLoop) (fs : FState)
    (hcalls : ∀ cl ∈ calls, 0 ≤ (cl.m : Rat) * cl.h) (hx : PbX c fs) :
    PbX c (lineLoopF c st calls b n lineH pie bs fuel i y s fs).2 := by
  fun_induction lineLoopF c st calls b n lineH pie bs fuel i y s fs with
  | case1 i y s fs => exact hx
  | case2 fuel i y s fs resume newPosY dbd offset overflow hov abort stop r lines' hb =>
    exact unlayAll_pbx c _ fs hx
  | case3 fuel i y s fs resume newPosY dbd offset overflow hov shift newPosY' lineY mt' fs' hfl ih =>
    apply ih
    have := footLoop_pbx c (!s.lines.isEmpty || !pie) pie bs (newPosY' + offset) (lineFns st calls i) fs hx
      (lineFns_height st calls i hcalls)
    rw [hfl] at this
    exact this
  | case4 fuel i y s fs resume newPosY dbd offset overflow hov shift newPosY' mt' fs' hfl abort stop r lines' hb =>
    have := footLoop_pbx c (!s.lines.isEmpty || !pie) pie bs (newPosY' + offset) (lineFns st calls i) fs hx
      (lineFns_height st calls i hcalls)
    rw [hfl] at this
    exact unlayAll_pbx c _ fs' this
  | case5 fuel i y s fs resume newPosY dbd offset overflow hov shift newPosY' mt' fs' hfl =>
    have := footLoop_pbx c (!s.lines.isEmpty || !pie) pie bs (newPosY' + offset) (lineFns st calls i) fs hx
      (lineFns_height st calls i hcalls)
    rw [hfl] at this
    exact this

theorem finishParaF_pbx (c : FCtx) (st : PStyle) (calls : List Call) (p : Prep) (pie : Bool) (id idx n : Nat)
    (r : LineResult) (fs : FState) (h : PbX c fs) : PbX c (finishParaF c st calls p pie id idx n r fs).fs := by
  unfold finishParaF
  dsimp only
  split
  · exact unlayAll_pbx c _ fs h
  · split
    · split
      · exact unlayAll_pbx c _ fs h
      · exact h
    · split
      · exact unlayAll_pbx c _ fs h
      · exact h

theorem finishBlockF_pbx (c : FCtx) (st : PStyle) (rest : List FootBox) (p : Prep) (pie : Bool) (id idx : Nat)
    (out : KidsOutcome) (fs : FState) (h : PbX c fs) : PbX c (finishBlockF c st rest p pie id idx out fs).fs := by
  unfold finishBlockF
  cases out with
  | aborted page s => exact unlayAll_pbx c _ fs h
  | stopped resume s =>
    dsimp only
    split
    · exact unlayAll_pbx c _ fs h
    · exact h
  | finished s => exact h

theorem firstPassUnlay_pbx (c : FCtx) (r : LayoutResult) (fp : FirstPass) (fs : FState) (h : PbX c fs) :
    PbX c (firstPassUnlay c r fp fs) := by
  unfold firstPassUnlay unlayFrag
  split
  · split
    · exact h
    · exact unlayAll_pbx c _ fs h
  · exact h
  · split
    · exact h
    · exact unlayAll_pbx c _ fs h

theorem earlierUnlay_pbx (c : FCtx) (pb : Brk) (s : KidsLoop) (frag : Option Frag) (fs : FState) (h : PbX c fs) :
    PbX c (earlierUnlay c pb s frag fs) := by
  unfold earlierUnlay
  split
  · exact h
  · split
    · split
      · exact unlayAll_pbx c _ fs h
      · exact h
    · exact h

mutual
/-- **`page_bottom` is a function of the footnotes in the area, through whole layouts**: after any
`block_level_layout`, `context.page_bottom = pbOf current_page_footnotes`. -/
theorem boxF_pbx : (box : FootBox) → HeightsOk box → ∀ (c : FCtx) (idx : Nat) (y bs : Rat)
    (skip : Option Resume) (cb pie : Bool) (adjL : List Rat) (fs : FState), PbX c fs →
    PbX c (layoutBoxF c box idx y bs skip cb pie adjL fs).fs
  | .para id n lineH st calls => by
    intro hh c idx y bs skip cb pie adjL fs hx
    simp only [HeightsOk] at hh
    simp only [layoutBoxF]
    apply finishParaF_pbx
    unfold lineboxLayoutF lineboxLoopF
    exact lineLoopF_pbx _ _ _ _ _ _ _ _ _ _ _ _ _ hh hx
  | .block id st kids => by
    intro hh c idx y bs skip cb pie adjL fs hx
    simp only [HeightsOk] at hh
    simp only [layoutBoxF]
    exact finishBlockF_pbx _ _ _ _ _ _ _ _ _ (kidsF_pbx kids hh c st 0 _ _ pie _ fs hx)
theorem kidsF_pbx : (rest : List FootBox) → HeightsOkList rest → ∀ (c : FCtx)
    (st : PStyle) (index skipIdx : Nat) (bs : Rat) (pie : Bool) (s : KidsLoop) (fs : FState),
    PbX c fs → PbX c (layoutKidsF c st rest index skipIdx bs pie s fs).2
  | [] => by
    intro _ c st index skipIdx bs pie s fs hx
    simpa [layoutKidsF] using hx
  | child :: rest => by
    intro hh c st index skipIdx bs pie s fs hx
    simp only [HeightsOkList] at hh
    unfold layoutKidsF
    split
    · exact kidsF_pbx rest hh.2 c st (index + 1) skipIdx bs pie s fs hx
    · dsimp only
      split
      · exact hx
      · have hR := boxF_pbx child hh.1 c index s.posY bs s.skip st.isRoot (pie && s.newChildren.isEmpty) s.cur fs hx
        generalize layoutBoxF c child index s.posY bs s.skip st.isRoot (pie && s.newChildren.isEmpty) s.cur fs = R1
          at hR ⊢
        split
        · rename_i frag posY hfp
          rw [hfp]
          have hx1 := firstPassUnlay_pbx c R1.r (.keep frag posY) R1.fs hR
          split
          · exact earlierUnlay_pbx _ _ _ _ _ hx1
          · exact kidsF_pbx rest hh.2 c st (index + 1) skipIdx bs pie _ _ hx1
        · rename_i bs' hfp
          rw [hfp]
          have hx1 := firstPassUnlay_pbx c R1.r (.redo bs') R1.fs hR
          have hR2 := boxF_pbx child hh.1 c index s.posY bs' s.skip st.isRoot (pie && s.newChildren.isEmpty)
            (s.setCur R1.r.adjL s.curIsL).cur (firstPassUnlay c R1.r (.redo bs') R1.fs) hx1
          generalize layoutBoxF c child index s.posY bs' s.skip st.isRoot (pie && s.newChildren.isEmpty)
            (s.setCur R1.r.adjL s.curIsL).cur (firstPassUnlay c R1.r (.redo bs') R1.fs) = R2 at hR2 ⊢
          split
          · exact earlierUnlay_pbx _ _ _ _ _ hR2
          · exact kidsF_pbx rest hh.2 c st (index + 1) skipIdx bs pie _ _ hR2
end

theorem placeReported_pbx (c : FCtx) (L : List Fn) (i : Nat) (fs : FState) (h : PbX c fs)
    (hL : ∀ f ∈ L, 0 ≤ f.height) : PbX c (placeReported c L i fs) := by
  induction L generalizing i fs with
  | nil => exact h
  | cons f rest ih =>
    have hf := hL f (by simp)
    have h0 : PbX c { fs with pending := fs.pending ++ [f] } := h
    have h1 := layoutFootnote_pbx c _ f h0 hf
    unfold placeReported
    dsimp only
    split
    · have h2 := reportFootnote_pbx c _ f h1 hf
      exact ⟨⟨h2.1.1, h2.1.2.1, fun g hg => hL g hg⟩, h2.2⟩
    · exact ih _ _ h1 (fun g hg => hL g (by simp [hg]))

/-! ### whole layouts of single-child chains: no sibling, so no stacking argument is needed -/

mutual
/-- Every block of the subtree has at most one child (a chain of boxes around one paragraph). -/
def Single : FootBox → Prop
  | .para _ _ _ _ _ => True
  | .block _ _ kids => kids.length ≤ 1 ∧ SingleList kids
def SingleList : List FootBox → Prop
  | [] => True
  | b :: bs => Single b ∧ SingleList bs
end

mutual
/-- Lines have non-negative heights. -/
def LineHOk : FootBox → Prop
  | .para _ _ lineH _ _ => 0 ≤ lineH
  | .block _ _ kids => LineHOkList kids
def LineHOkList : List FootBox → Prop
  | [] => True
  | b :: bs => LineHOk b ∧ LineHOkList bs
end

theorem linesOk_pb_mono (c : FCtx) (g g' : FState) (bs : Rat) (L : List PlacedLine)
    (h : g.pageBottom ≤ g'.pageBottom) (hL : LinesOk (ctxOf c g) bs L) : LinesOk (ctxOf c g') bs L := by
  intro p hp
  rcases hL p hp with h1 | h1
  · exact Or.inl h1
  · exact Or.inr (fits_of_pb_le c g g' bs _ h h1)

theorem finishBlockF_pb_mono (c : FCtx) (st : PStyle) (rest : List FootBox) (p : Prep) (pie : Bool) (id idx : Nat)
    (out : KidsOutcome) (fs : FState) (h : PbX c fs) :
    fs.pageBottom ≤ (finishBlockF c st rest p pie id idx out fs).fs.pageBottom := by
  unfold finishBlockF
  cases out with
  | aborted page s => exact unlayAll_pb_mono c _ fs h
  | stopped resume s =>
    dsimp only
    split
    · exact unlayAll_pb_mono c _ fs h
    · exact Rat.le_refl
  | finished s => exact Rat.le_refl

theorem firstPassUnlay_pb_mono (c : FCtx) (r : LayoutResult) (fp : FirstPass) (fs : FState) (h : PbX c fs) :
    fs.pageBottom ≤ (firstPassUnlay c r fp fs).pageBottom := by
  unfold firstPassUnlay unlayFrag
  split
  · split
    · exact Rat.le_refl
    · exact unlayAll_pb_mono c _ fs h
  · exact Rat.le_refl
  · split
    · exact Rat.le_refl
    · exact unlayAll_pb_mono c _ fs h

theorem earlierUnlay_pb_mono (c : FCtx) (pb : Brk) (s : KidsLoop) (frag : Option Frag) (fs : FState) (h : PbX c fs) :
    fs.pageBottom ≤ (earlierUnlay c pb s frag fs).pageBottom := by
  unfold earlierUnlay
  split
  · exact Rat.le_refl
  · split
    · split
      · exact unlayAll_pb_mono c _ fs h
      · exact Rat.le_refl
    · exact Rat.le_refl

mutual
/-- **Body text does not run into the footnote area, whole layouts of single-child chains**: every line of the
fragment returned by `block_level_layout` — the first line excepted when the layout started an empty page — ends
above `context.page_bottom` as the layout leaves it (the footnote area holding every footnote taken so far), through
nested blocks with any decorations, the second layout with a larger bottom space and `find_earlier_page_break`. -/
theorem boxF_chain : (box : FootBox) → Single box → DecoOk box.erase → HeightsOk box → LineHOk box →
    ∀ (c : FCtx) (idx : Nat) (y bs : Rat) (skip : Option Resume) (cb pie : Bool) (adjL : List Rat) (fs : FState),
    PbX c fs →
    PbX c (layoutBoxF c box idx y bs skip cb pie adjL fs).fs ∧
    ∀ f, (layoutBoxF c box idx y bs skip cb pie adjL fs).r.frag = some f →
      LinesOk (ctxOf c (layoutBoxF c box idx y bs skip cb pie adjL fs).fs) bs (placedLines f pie box.erase)
  | .para id n lineH st calls => by
    intro _ hd hh hl c idx y bs skip cb pie adjL fs hx
    simp only [FootBox.erase, DecoOk] at hd
    simp only [HeightsOk] at hh
    simp only [LineHOk] at hl
    refine ⟨boxF_pbx _ (by simpa [HeightsOk] using hh) c idx y bs skip cb pie adjL fs hx, ?_⟩
    intro f hf
    exact (para_fits_final id n lineH st calls hd hh hl c idx y bs skip cb pie adjL fs hx f hf).2
  | .block id st kids => by
    intro hs hd hh hl c idx y bs skip cb pie adjL fs hx
    simp only [Single] at hs
    simp only [FootBox.erase, DecoOk] at hd
    simp only [HeightsOk] at hh
    simp only [LineHOk] at hl
    simp only [layoutBoxF]
    have hk := kidsF_chain kids hs.1 hs.2 hd.2 hh hl c st kids 0 (skipIdxOf skip)
      (prepare (ctxOf c fs) st y bs skip cb pie adjL).bs pie
      { newChildren := [], posY := (prepare (ctxOf c fs) st y bs skip cb pie adjL).posY,
        adjL := (prepare (ctxOf c fs) st y bs skip cb pie adjL).adjL,
        cur := (prepare (ctxOf c fs) st y bs skip cb pie adjL).cur,
        curIsL := (prepare (ctxOf c fs) st y bs skip cb pie adjL).curIsL,
        nextPage := { brk := none, page := none }, skip := subSkipOf skip } fs hx rfl (by intro j; simp)
    refine ⟨finishBlockF_pbx _ _ _ _ _ _ _ _ _ hk.1, ?_⟩
    intro f hf
    simp only [finishBlockF_r] at hf
    obtain ⟨g, rfl⟩ := finishBlock_frag _ _ _ _ _ _ _ _ hf
    simp only [placedLines, FootBox.erase]
    apply linesOk_pb_mono c _ _ bs _ (finishBlockF_pb_mono _ _ _ _ _ _ _ _ _ hk.1)
    apply linesOk_mono _ bs _ _ (prepare_bs_le (ctxOf c fs) st y bs skip cb pie adjL hd.1)
    exact hk.2
theorem kidsF_chain : (rest : List FootBox) → rest.length ≤ 1 → SingleList rest → DecoOkList (eraseList rest) →
    HeightsOkList rest → LineHOkList rest → ∀ (c : FCtx) (st : PStyle) (all : List FootBox) (index skipIdx : Nat)
    (bs : Rat) (pie : Bool) (s : KidsLoop) (fs : FState), PbX c fs → s.newChildren = [] →
    (∀ j, rest[j]? = all[index + j]?) →
    PbX c (layoutKidsF c st rest index skipIdx bs pie s fs).2 ∧
    LinesOk (ctxOf c (layoutKidsF c st rest index skipIdx bs pie s fs).2) bs
      (placedLinesList (layoutKidsF c st rest index skipIdx bs pie s fs).1.state.newChildren pie (eraseList all))
  | [] => by
    intro _ _ _ _ _ c st all index skipIdx bs pie s fs hx hnil _
    simp only [layoutKidsF, KidsOutcome.state, hnil, placedLinesList]
    exact ⟨hx, linesOk_nil _ bs⟩
  | child :: rest => by
    intro hlen hs hd hh hl c st all index skipIdx bs pie s fs hx hnil hall
    have hrest : rest = [] := by
      cases rest with
      | nil => rfl
      | cons a b => simp at hlen
    subst hrest
    simp only [SingleList] at hs
    simp only [eraseList, DecoOkList] at hd
    simp only [HeightsOkList] at hh
    simp only [LineHOkList] at hl
    have hchild : (eraseList all)[index]? = some child.erase := by
      have := hall 0
      rw [eraseList_getElem]
      simp only [List.getElem?_cons_zero, Nat.add_zero] at this
      rw [← this]; rfl
    have hempty : LinesOk (ctxOf c fs) bs (placedLinesList s.newChildren pie (eraseList all)) := by
      rw [hnil]; simp only [placedLinesList]; exact linesOk_nil _ bs
    unfold layoutKidsF
    split
    · simp only [layoutKidsF, KidsOutcome.state, hnil, placedLinesList]
      exact ⟨hx, linesOk_nil _ bs⟩
    · dsimp only
      split
      · simp only [KidsOutcome.state, hnil, placedLinesList]
        exact ⟨hx, linesOk_nil _ bs⟩
      · have hR := boxF_chain child hs.1 hd.1 hh.1 hl.1 c index s.posY bs s.skip st.isRoot
          (pie && s.newChildren.isEmpty) s.cur fs hx
        have hdeco1 := fun f => layoutBoxF_frag_deco c child index s.posY bs s.skip st.isRoot
          (pie && s.newChildren.isEmpty) s.cur fs f
        generalize layoutBoxF c child index s.posY bs s.skip st.isRoot (pie && s.newChildren.isEmpty) s.cur fs = R1
          at hR hdeco1 ⊢
        split
        · -- first pass kept (or discarded) the child
          rename_i frag posY hfp
          rw [hfp]
          have hx1 := firstPassUnlay_pbx c R1.r (.keep frag posY) R1.fs hR.1
          have hm1 := firstPassUnlay_pb_mono c R1.r (.keep frag posY) R1.fs hR.1
          have hfrag : ∀ f, frag = some f → LinesOk (ctxOf c (firstPassUnlay c R1.r (.keep frag posY) R1.fs)) bs
              (placedLines f (pie && s.newChildren.isEmpty) child.erase) := by
            intro f hf
            rcases firstPass_keep _ _ _ _ _ _ _ hfp with h | h
            · rw [h] at hf; cases hf
            · rw [h] at hf
              exact linesOk_pb_mono c _ _ bs _ hm1 (hR.2 f hf)
          have hs0 : LinesOk (ctxOf c (firstPassUnlay c R1.r (.keep frag posY) R1.fs)) bs
              (placedLinesList s.newChildren pie (eraseList all)) := by
            rw [hnil]; simp only [placedLinesList]; exact linesOk_nil _ bs
          split
          · rename_i out s3 heq
            refine ⟨earlierUnlay_pbx _ _ _ _ _ hx1,
              linesOk_pb_mono c _ _ bs _ (earlierUnlay_pb_mono _ _ _ _ _ hx1) ?_⟩
            refine (concludeKid_fits _ bs (eraseList all) index pie _ child.erase _ _ _ hchild ?_ ?_).1 out s3 heq
            · simpa using hs0
            · simpa using hfrag
          · rename_i s3 heq
            simp only [layoutKidsF, KidsOutcome.state]
            refine ⟨hx1, ?_⟩
            refine (concludeKid_fits _ bs (eraseList all) index pie _ child.erase _ _ _ hchild ?_ ?_).2 s3 heq
            · simpa using hs0
            · simpa using hfrag
        · -- second layout with a larger bottom space
          rename_i bs' hfp
          rw [hfp]
          obtain ⟨f1, hf1, hbs'⟩ := firstPass_redo _ _ _ _ _ _ hfp
          have hle : bs ≤ bs' := by
            have h1 := hdeco1 f1 hf1
            have h2 := (DecoOk.st child.erase hd.1).1
            rw [st_erase] at h2
            rcases h1 with ⟨h3, h4⟩ | ⟨h3, h4⟩ <;> rw [hbs', h3, h4] <;> grind
          have hx1 := firstPassUnlay_pbx c R1.r (.redo bs') R1.fs hR.1
          have hR2 := boxF_chain child hs.1 hd.1 hh.1 hl.1 c index s.posY bs' s.skip st.isRoot
            (pie && s.newChildren.isEmpty) (s.setCur R1.r.adjL s.curIsL).cur (firstPassUnlay c R1.r (.redo bs') R1.fs) hx1
          generalize layoutBoxF c child index s.posY bs' s.skip st.isRoot (pie && s.newChildren.isEmpty)
            (s.setCur R1.r.adjL s.curIsL).cur (firstPassUnlay c R1.r (.redo bs') R1.fs) = R2 at hR2 ⊢
          have hfrag : ∀ f, R2.r.frag = some f →
              LinesOk (ctxOf c R2.fs) bs (placedLines f (pie && s.newChildren.isEmpty) child.erase) := by
            intro f hf
            exact linesOk_mono _ bs bs' _ hle (hR2.2 f hf)
          have hs0 : LinesOk (ctxOf c R2.fs) bs (placedLinesList s.newChildren pie (eraseList all)) := by
            rw [hnil]; simp only [placedLinesList]; exact linesOk_nil _ bs
          split
          · rename_i out s3 heq
            refine ⟨earlierUnlay_pbx _ _ _ _ _ hR2.1,
              linesOk_pb_mono c _ _ bs _ (earlierUnlay_pb_mono _ _ _ _ _ hR2.1) ?_⟩
            refine (concludeKid_fits _ bs (eraseList all) index pie _ child.erase _ _ _ hchild ?_ ?_).1 out s3 heq
            · simpa using hs0
            · simpa using hfrag
          · rename_i s3 heq
            simp only [layoutKidsF, KidsOutcome.state]
            refine ⟨hR2.1, ?_⟩
            refine (concludeKid_fits _ bs (eraseList all) index pie _ child.erase _ _ _ hchild ?_ ?_).2 s3 heq
            · simpa using hs0
            · simpa using hfrag
end

end Wp.PMF
