/-
Sub-resource dictionaries are never shared between group / pattern streams (what makes the assertion of
`_reference_resources` unreachable through sharing).  Core Lean only.
-/
import WpModel.Lemmas.PdfWorld
namespace Wp.Pdf

theorem emitAll_id (s : SState) (os : List Op) : (s.emitAll os).id = s.id := by
  induction os generalizing s with
  | nil => rfl
  | cons o os ih => simp only [SState.emitAll, List.foldl_cons] at ih ⊢; rw [ih]; rfl

theorem setAlpha_id (r : Res) (s : SState) (α : Num) (stroke : Bool) (fill : Option Bool) :
    (setAlpha r s α stroke fill).1.id = s.id := by
  unfold setAlpha alphaStrokePart setAlphaFill setAlphaStroke
  split <;> split <;> (try split) <;> (try split) <;> rfl

theorem setColorOnly_id (s : SState) (c : Colour) (stroke : Bool) : (setColorOnly s c stroke).id = s.id := by
  unfold setColorOnly
  split <;> split <;> first | rfl | (rw [emitAll_id])

theorem stepS_id (r : Res) (s : SState) (c : Call) (s' : SState) (r' : Res) (h : stepS r s c = .ok (s', r')) :
    s'.id = s.id := by
  cases c with
  | push => simp only [stepS] at h; split at h <;> simp at h; obtain ⟨rfl, rfl⟩ := h; rfl
  | pop =>
    simp only [stepS, Except.map] at h
    cases hp : popState s with
    | error e => rw [hp] at h; simp at h
    | ok sp =>
      rw [hp] at h; simp at h; obtain ⟨rfl, rfl⟩ := h
      unfold popState at hp
      split at hp <;> simp at hp
      subst hp
      simp only [clearCaches, popOps]
      split <;> rfl
  | transform a b c d e f => simp only [stepS] at h; split at h <;> simp at h; obtain ⟨rfl, rfl⟩ := h; rfl
  | beginText =>
    simp only [stepS] at h; simp at h; obtain ⟨rfl, rfl⟩ := h
    unfold beginText; split <;> rfl
  | endText => simp only [stepS] at h; simp at h; obtain ⟨rfl, rfl⟩ := h; rfl
  | setColor col stroke =>
    simp only [stepS] at h; simp at h
    have : s' = (setColor r s col stroke).1 := by rw [h]
    subst this
    unfold setColor
    rw [setColorOnly_id, setAlpha_id]
  | setFont f sz => simp only [stepS] at h; split at h <;> simp at h <;> obtain ⟨rfl, rfl⟩ := h <;> rfl
  | setAlpha α stroke fill =>
    simp only [stepS] at h; simp at h
    have : s' = (setAlpha r s α stroke fill).1 := by rw [h]
    subst this; exact setAlpha_id r s α stroke fill
  | setState d => simp only [stepS, setState] at h; simp at h; obtain ⟨rfl, rfl⟩ := h; rfl
  | softMaskState => simp only [stepS, softMaskState, setState] at h; simp at h; obtain ⟨rfl, rfl⟩ := h; rfl
  | setBlendMode mode => simp only [stepS, setState] at h; simp at h; obtain ⟨rfl, rfl⟩ := h; rfl
  | beginMarked et mcid tag =>
    simp only [stepS] at h; simp at h; obtain ⟨rfl, rfl⟩ := h
    unfold beginMarked
    split
    · rfl
    · split <;> rw [emitAll_id]
  | endMarked => simp only [stepS] at h; split at h <;> simp at h <;> obtain ⟨rfl, rfl⟩ := h <;> rfl
  | drawX k => simp only [stepS] at h; simp at h; obtain ⟨rfl, rfl⟩ := h; rfl
  | paintShading n => simp only [stepS] at h; simp at h; obtain ⟨rfl, rfl⟩ := h; rfl
  | setColorSpace sp stroke => simp only [stepS] at h; simp at h; obtain ⟨rfl, rfl⟩ := h; rfl
  | setColorSpecial pat stroke operands => simp only [stepS] at h; simp at h; obtain ⟨rfl, rfl⟩ := h; rfl
  | raw k args flag text => simp only [stepS] at h; simp at h; obtain ⟨rfl, rfl⟩ := h; rfl
  | rawTok c token => simp only [stepS] at h; simp at h; obtain ⟨rfl, rfl⟩ := h; rfl

/-- Sub-resource dictionaries are never shared: two different group / pattern streams (the ones with an `id`) write
to different dictionaries, and never to the page dictionary 0. -/
structure Owner (w : World) : Prop where
  inj : ∀ (h h' : Nat) (s s' : SState), w.streams[h]? = some s → w.streams[h']? = some s' →
    s.id.isSome = true → s'.id.isSome = true → s.res = s'.res → h = h'
  nonzero : ∀ (h : Nat) (s : SState), w.streams[h]? = some s → s.id.isSome = true → 0 < s.res

theorem owner_init (mark : Bool) (n : Nat) : Owner (World.init mark n) := by
  constructor
  · intro h h' s s' hs _ hid
    simp [World.init, List.getElem?_replicate] at hs
    obtain ⟨_, rfl⟩ := hs
    simp at hid
  · intro h s hs hid
    simp [World.init, List.getElem?_replicate] at hs
    obtain ⟨_, rfl⟩ := hs
    simp at hid


theorem Owner.set {w : World} (ho : Owner w) (h : Nat) (s s' : SState) (res' : List Res) (imgs : List (String × List Rat))
    (hs : w.streams[h]? = some s) (hres : s'.res = s.res) (hid : s'.id = s.id) :
    Owner { w with streams := w.streams.set h s', res := res', images := imgs } := by
  have hhlt : h < w.streams.length := (List.getElem?_eq_some_iff.mp hs).1
  have key : ∀ (i : Nat) (t : SState), (w.streams.set h s')[i]? = some t →
      ∃ t0, w.streams[i]? = some t0 ∧ t.res = t0.res ∧ t.id = t0.id := by
    intro i t ht
    rw [List.getElem?_set] at ht
    split at ht
    · rename_i e
      simp [hhlt] at ht; subst ht; subst e
      exact ⟨s, hs, hres, hid⟩
    · exact ⟨t, ht, rfl, rfl⟩
  constructor
  · intro a b ta tb ha hb ia ib hr
    obtain ⟨ta0, ha0, ra, da⟩ := key a ta ha
    obtain ⟨tb0, hb0, rb, db⟩ := key b tb hb
    exact ho.inj a b ta0 tb0 ha0 hb0 (da ▸ ia) (db ▸ ib) (by rw [← ra, ← rb]; exact hr)
  · intro a ta ha ia
    obtain ⟨ta0, ha0, ra, da⟩ := key a ta ha
    rw [ra]; exact ho.nonzero a ta0 ha0 (da ▸ ia)

/-- Appending a stream that owns the new dictionary `w.res.length`, or a stream without an id. -/
theorem Owner.append {w : World} (ho : Owner w) (hw : WorldOK w) (g : SState) (res' : List Res)
    (hg : g.id.isSome = true → g.res = w.res.length) :
    Owner { w with streams := w.streams ++ [g], res := res' } := by
  have key : ∀ (i : Nat) (t : SState), (w.streams ++ [g])[i]? = some t →
      w.streams[i]? = some t ∨ (i = w.streams.length ∧ t = g) := by
    intro i t ht
    exact getElem?_append_singleton _ _ _ _ ht
  constructor
  · intro a b ta tb ha hb ia ib hr
    rcases key a ta ha with ha0 | ⟨ea, rfl⟩ <;> rcases key b tb hb with hb0 | ⟨eb, rfl⟩
    · exact ho.inj a b ta tb ha0 hb0 ia ib hr
    · have := hw.resIdx a ta ha0
      rw [hr, hg ib] at this; omega
    · have := hw.resIdx b tb hb0
      rw [← hr, hg ia] at this; omega
    · omega
  · intro a ta ha ia
    rcases key a ta ha with ha0 | ⟨_, rfl⟩
    · exact ho.nonzero a ta ha0 ia
    · rw [hg ia]; exact hw.resNonempty

theorem onCall_owner (w w' : World) (h : Nat) (c : Call) (ho : Owner w) (hstep : w.onCall h c = .ok w') : Owner w' := by
  unfold World.onCall at hstep
  split at hstep
  · simp at hstep
  · rename_i s hs
    split at hstep
    · simp at hstep
    · rename_i r hr
      split at hstep
      · simp at hstep
      · rename_i s' r' hst
        simp at hstep; subst hstep
        exact ho.set h s s' _ _ hs (stepS_res r s c s' r' hst) (stepS_id r s c s' r' hst)

theorem addGroup_owner (w w' : World) (h : Nat) (ho : Owner w) (hw : WorldOK w) (hstep : w.addGroup h = .ok w') :
    Owner w' := by
  unfold World.addGroup at hstep
  split at hstep
  · simp at hstep
  · rename_i s hs
    split at hstep
    · simp at hstep
    · rename_i r hr
      simp at hstep; subst hstep
      exact ho.append hw _ _ (by intro _; simp [freshStream])

/-- **Every step keeps sub-resource dictionaries unshared.** -/
theorem World.step_owner (w w' : World) (c : WCall) (ho : Owner w) (hw : WorldOK w) (hstep : w.step c = .ok w') :
    Owner w' := by
  cases c with
  | on h c => exact onCall_owner w w' h c ho hstep
  | addGroup h => exact addGroup_owner w w' h ho hw hstep
  | addPattern h =>
    simp only [World.step] at hstep
    split at hstep
    · simp at hstep
    · rename_i s hs
      split at hstep
      · simp at hstep
      · rename_i r hr
        simp at hstep; subst hstep
        exact ho.append hw _ _ (by intro _; simp [freshStream])
  | addShading h =>
    simp only [World.step] at hstep
    split at hstep
    · simp at hstep
    · split at hstep
      · simp at hstep
      · simp at hstep; subst hstep; exact ⟨ho.inj, ho.nonzero⟩
  | addImage h id interp ratio =>
    simp only [World.step] at hstep
    split at hstep
    · simp at hstep
    · split at hstep
      · simp at hstep
      · simp at hstep; subst hstep; exact ⟨ho.inj, ho.nonzero⟩
  | setAlphaState h =>
    simp only [World.step] at hstep
    split at hstep
    · simp at hstep
    · rename_i w1 hg
      exact onCall_owner w1 w' h _ (addGroup_owner w w1 h ho hw hg) hstep
  | clone h =>
    simp only [World.step] at hstep
    split at hstep
    · simp at hstep
    · rename_i s hs
      simp at hstep; subst hstep
      have := ho.append hw (freshStream s s.res none) w.res (by intro hh; simp [freshStream] at hh)
      simpa using this
  | newPage =>
    simp only [World.step] at hstep
    simp at hstep; subst hstep
    have := ho.append hw ({ mark := w.mark } : SState) w.res (by intro hh; simp at hh)
    simpa using this
  | assignSh h n =>
    simp only [World.step] at hstep
    split at hstep
    · simp at hstep
    · rename_i s hs
      simp at hstep; subst hstep
      have := ho.set h s { s with rops := [.sh n] } w.res w.images hs rfl rfl
      simpa using this


theorem World.run_owner (cs : List WCall) (w w' : World) (ho : Owner w) (hw : WorldOK w) (hs : ScopedRun w cs)
    (hrun : w.run cs = .ok w') : Owner w' := by
  induction cs generalizing w with
  | nil => simp [World.run] at hrun; subst hrun; exact ho
  | cons c cs ih =>
    simp only [World.run] at hrun
    split at hrun
    · rename_i w1 h1
      exact ih w1 (World.step_owner w w1 c ho hw h1) (World.step_ok w w1 c hw hs.1 h1) (hs.2 w1 h1) hrun
    · simp at hrun

end Wp.Pdf
