/-
Port of `Lemmas/ParaLines.lean` (line loop) and `Lemmas/Segment.lean` to the stage-2c types.
The lemmas about functions shared with stage 1 (`breakLine`, `paraLines`, …) are used from `Wp.PM`.
-/
import WpModel.Lemmas.ColSegDefs
import WpModel.Lemmas.Segment

namespace Wp.PMC
open Wp Wp.PM

/-- The lines produced by the loop are numbered consecutively from `k`. -/
theorem lineLoop_contiguous (c : CCtx) (st : PStyle) (b : BoxSt) (n : Nat) (lineH : Rat) (pie : Bool) (bs : Rat)
    (k : Nat) (fuel i : Nat) (y : Rat) (s : LineLoop)
    (hk : k ≤ i) (hs : s.lines.map Prod.fst = List.range' k (i - k)) :
    ∃ m, m ≤ (i - k) + fuel ∧
      (outLines (lineLoop c st b n lineH pie bs fuel i y s)).map Prod.fst = List.range' k m := by
  fun_induction lineLoop c st b n lineH pie bs fuel i y s with
  | case1 i y s => exact ⟨i - k, by omega, hs⟩
  | case2 fuel i y s resume newPosY dbd offset overflow hov abort stop r lines' hb =>
    obtain ⟨m, hm, hl⟩ := breakLine_lines st n i s.lines pie s.skip resume
    rw [hb] at hl
    simp only at hl
    have hlen : s.lines.length = i - k := by
      have := congrArg List.length hs
      simpa using this
    refine ⟨m, by omega, ?_⟩
    simp only [outLines, hl, List.map_take, hs]
    exact range'_take _ _ _ (by omega)
  | case3 fuel i y s resume newPosY dbd offset overflow hov shift newPosY' lineY mt' ih =>
    have : (s.lines ++ [(i, lineY)]).map Prod.fst = List.range' k (i + 1 - k) := by
      rw [List.map_append, hs]
      have : i + 1 - k = (i - k) + 1 := by omega
      rw [this, List.range'_concat]
      simp
      omega
    obtain ⟨m, hm, hl⟩ := ih (by omega) this
    exact ⟨m, by omega, hl⟩

/-- When the loop runs to the end, every remaining line has been placed. -/
theorem lineLoop_done (c : CCtx) (st : PStyle) (b : BoxSt) (n : Nat) (lineH : Rat) (pie : Bool) (bs : Rat)
    (k : Nat) (fuel i : Nat) (y : Rat) (s s' : LineLoop)
    (hk : k ≤ i) (hs : s.lines.map Prod.fst = List.range' k (i - k))
    (h : lineLoop c st b n lineH pie bs fuel i y s = .done s') :
    s'.lines.map Prod.fst = List.range' k ((i - k) + fuel) := by
  fun_induction lineLoop c st b n lineH pie bs fuel i y s with
  | case1 i y s => cases h; simpa using hs
  | case2 fuel i y s resume newPosY dbd offset overflow hov abort stop r lines' hb => cases h
  | case3 fuel i y s resume newPosY dbd offset overflow hov shift newPosY' lineY mt' ih =>
    have : (s.lines ++ [(i, lineY)]).map Prod.fst = List.range' k (i + 1 - k) := by
      rw [List.map_append, hs]
      have : i + 1 - k = (i - k) + 1 := by omega
      rw [this, List.range'_concat]
      simp
      omega
    have := ih (by omega) this h
    rw [this]
    congr 1
    omega

/-! ### `withIdx` -/

@[simp] theorem fragLines_withIdx (f : CFrag) (i : Nat) : fragLines (f.withIdx i) = fragLines f := by
  cases f <;> simp [CFrag.withIdx, fragLines]

theorem idx_withIdx (f : CFrag) (i : Nat) (h : f.isColumn = false) : (f.withIdx i).idx = i := by
  cases f <;> first | rfl | simp [CFrag.isColumn] at h

theorem full_not_column (f : CFrag) (b : ColBox) (σ : Option Resume) (h : Full f b σ) : f.isColumn = false := by
  cases f <;> first | rfl | simp [Full] at h

theorem full_withIdx (f : CFrag) (i : Nat) (b : ColBox) (σ : Option Resume) (h : Full f b σ) :
    Full (f.withIdx i) b σ := by
  cases f <;> cases b <;> simp only [CFrag.withIdx, Full] at h ⊢ <;> exact h

/-! ### list arithmetic of `linesFromKids`, `posKids` -/

theorem linesFromKids_nil (k : Nat) (s : Option Resume) : linesFromKids [] k s = [] := by
  simp [linesFromKids]

theorem linesFromKids_append_lt (B R : List ColBox) (m : Nat) (s : Option Resume) (h : m < B.length) :
    linesFromKids (B ++ R) m s = linesFromKids B m s ++ linesFromKids R 0 none := by
  induction B generalizing m s with
  | nil => simp at h
  | cons b B ih =>
    cases m with
    | zero =>
      simp only [List.cons_append, linesFromKids, List.append_assoc]
      cases B with
      | nil => simp [linesFromKids]
      | cons b' B' => rw [ih 0 none (by simp)]
    | succ m =>
      simp only [List.cons_append, linesFromKids]
      exact ih m s (by simpa using h)

theorem linesFromKids_append_len (B R : List ColBox) (k : Nat) (s : Option Resume) :
    linesFromKids (B ++ R) (B.length + k) s = linesFromKids R k s := by
  induction B with
  | nil => simp
  | cons b B ih =>
    have : (b :: B).length + k = (B.length + k) + 1 := by simp; omega
    rw [this]
    simp only [List.cons_append, linesFromKids]
    exact ih

theorem linesFromKids_drop (kids : List ColBox) (k0 m : Nat) (s : Option Resume) :
    linesFromKids kids (k0 + m) s = linesFromKids (kids.drop k0) m s := by
  induction kids generalizing k0 with
  | nil => simp [linesFromKids]
  | cons b bs ih =>
    cases k0 with
    | zero => simp
    | succ k0 =>
      have : k0 + 1 + m = (k0 + m) + 1 := by omega
      rw [this]
      simp only [linesFromKids, List.drop_succ_cons]
      exact ih k0

mutual
theorem pos_lt_size : (b : ColBox) → (σ : Option Resume) → pos b σ < sizeBox b
  | .para _ n _ _, σ => by
    simp only [pos, sizeBox]; omega
  | .block _ _ kids, σ => by
    simp only [pos, sizeBox]
    have := posKids_le kids (skipIdxOf σ) (subSkipOf σ)
    omega
  | .columns _ _ _ _ kids, σ => by
    simp only [pos, sizeBox]
    have := posKids_le kids (skipIdxOf σ) (subSkipOf σ)
    omega
theorem posKids_le : (bs : List ColBox) → (k : Nat) → (s : Option Resume) → posKids bs k s ≤ sizeKids bs
  | [], k, s => by simp [posKids, sizeKids]
  | b :: bs, 0, s => by
    simp only [posKids, sizeKids]
    have := pos_lt_size b s
    omega
  | b :: bs, k + 1, s => by
    simp only [posKids, sizeKids]
    have := posKids_le bs k s
    omega
end

theorem posKids_lt (B : List ColBox) (m : Nat) (s : Option Resume) (h : m < B.length) :
    posKids B m s < sizeKids B := by
  induction B generalizing m with
  | nil => simp at h
  | cons b B ih =>
    cases m with
    | zero =>
      simp only [posKids, sizeKids]
      have := pos_lt_size b s
      omega
    | succ m =>
      simp only [posKids, sizeKids]
      have := ih m (by simpa using h)
      omega

theorem posKids_append_lt (B R : List ColBox) (m : Nat) (s : Option Resume) (h : m < B.length) :
    posKids (B ++ R) m s = posKids B m s := by
  induction B generalizing m with
  | nil => simp at h
  | cons b B ih =>
    cases m with
    | zero => simp [posKids]
    | succ m =>
      simp only [List.cons_append, posKids]
      rw [ih m (by simpa using h)]

theorem posKids_append_len (B R : List ColBox) (k : Nat) (s : Option Resume) :
    posKids (B ++ R) (B.length + k) s = sizeKids B + posKids R k s := by
  induction B with
  | nil => simp [sizeKids]
  | cons b B ih =>
    have : (b :: B).length + k = (B.length + k) + 1 := by simp; omega
    rw [this]
    simp only [List.cons_append, posKids, sizeKids]
    rw [ih]; omega

theorem posKids_drop (kids : List ColBox) (k0 m : Nat) (s : Option Resume) :
    posKids kids (k0 + m) s = sizeKids (kids.take k0) + posKids (kids.drop k0) m s := by
  induction kids generalizing k0 with
  | nil => simp [posKids, sizeKids]
  | cons b bs ih =>
    cases k0 with
    | zero => simp [sizeKids]
    | succ k0 =>
      have : k0 + 1 + m = (k0 + m) + 1 := by omega
      rw [this]
      simp only [posKids, List.drop_succ_cons, List.take_succ_cons, sizeKids]
      rw [ih k0]; omega

/-! ### `Full` -/

theorem fullFrom_length (fs : List CFrag) (bs : List ColBox) (i : Nat) (sub : Option Resume)
    (h : FullFrom fs bs i sub) : fs.length = bs.length := by
  induction fs generalizing bs i sub with
  | nil => simp [FullFrom] at h; simp [h]
  | cons f fs ih =>
    cases bs with
    | nil => simp [FullFrom] at h
    | cons b bs =>
      simp only [FullFrom] at h
      simp [ih bs _ _ h.2.2]

theorem paraLines_eq (id k n : Nat) (lines : List (Nat × Rat))
    (h : lines.map Prod.fst = List.range' k (n - k)) :
    lines.map (fun l => (id, l.1)) = paraLines id k n := by
  unfold paraLines
  rw [← h, List.map_map]
  rfl

mutual
theorem full_lines : (f : CFrag) → (b : ColBox) → (σ : Option Resume) → Full f b σ → fragLines f = linesFrom b σ
  | .para id _ st n _ lines, b, σ => by
    intro h
    cases b with
    | block _ _ _ => simp [Full] at h
    | columns _ _ _ _ _ => simp [Full] at h
    | para id' n' lh st' =>
      simp only [Full] at h
      obtain ⟨rfl, rfl, rfl, hl⟩ := h
      simp only [fragLines, linesFrom]
      exact paraLines_eq _ _ _ _ hl
  | .block _ _ _ _ fs, b, σ => by
    intro h
    cases b with
    | para _ _ _ _ => simp [Full] at h
    | columns _ _ _ _ _ => simp [Full] at h
    | block id' st' kids =>
      simp only [Full] at h
      simp only [fragLines, linesFrom]
      rw [fullFrom_lines fs _ _ _ h]
      have := linesFromKids_drop kids (skipIdxOf σ) 0 (subSkipOf σ)
      simpa using this.symm
  | .cols _ _ _ _ fs, b, σ => by
    intro h
    cases b with
    | para _ _ _ _ => simp [Full] at h
    | block _ _ _ => simp [Full] at h
    | columns _ _ _ _ kids =>
      simp only [Full] at h
      simp only [fragLines, linesFrom]
      exact h
  | .column _ _ _ _ _, b, σ => by
    intro h
    simp [Full] at h
theorem fullFrom_lines : (fs : List CFrag) → (bs : List ColBox) → (i : Nat) → (sub : Option Resume) →
    FullFrom fs bs i sub → fragLinesList fs = linesFromKids bs 0 sub
  | [], bs, i, sub => by
    intro h
    simp only [FullFrom] at h
    subst h
    simp [fragLinesList, linesFromKids]
  | f :: fs, bs, i, sub => by
    intro h
    cases bs with
    | nil => simp [FullFrom] at h
    | cons b bs =>
      simp only [FullFrom] at h
      simp only [fragLinesList, linesFromKids]
      rw [full_lines f b sub h.1, fullFrom_lines fs bs (i + 1) none h.2.2]
end

theorem fullFrom_snoc (fs : List CFrag) (B : List ColBox) (i : Nat) (sub : Option Resume) (f : CFrag) (b : ColBox)
    (h : FullFrom fs B i sub) (hf : Full f b (if B = [] then sub else none)) (hi : f.idx = i + B.length) :
    FullFrom (fs ++ [f]) (B ++ [b]) i sub := by
  induction fs generalizing B i sub with
  | nil =>
    simp only [FullFrom] at h
    subst h
    simp only [List.nil_append, FullFrom]
    simp at hf hi
    exact ⟨hf, hi, trivial⟩
  | cons x xs ih =>
    cases B with
    | nil => simp [FullFrom] at h
    | cons b0 B =>
      simp only [FullFrom] at h
      simp only [List.cons_append, FullFrom]
      refine ⟨h.1, h.2.1, ?_⟩
      apply ih B (i + 1) none h.2.2
      · simp at hf
        split <;> exact hf
      · simp at hi; omega

theorem goodList_drop (bs : List ColBox) (k : Nat) (h : GoodList bs) : GoodList (bs.drop k) := by
  induction bs generalizing k with
  | nil => simpa using h
  | cons b bs ih =>
    cases k with
    | zero => simpa using h
    | succ k =>
      simp only [GoodList] at h
      simpa using ih k h.2

theorem goodList_append (B R : List ColBox) (hB : GoodList B) (hR : GoodList R) : GoodList (B ++ R) := by
  induction B with
  | nil => simpa using hR
  | cons b B ih =>
    simp only [GoodList] at hB
    simp only [List.cons_append, GoodList]
    exact ⟨hB.1, ih hB.2⟩

end Wp.PMC
