/-
Port of `Lemmas/SegmentEarlier.lean`: `find_earlier_page_break` re-slices already laid-out complete children.
New: the children of a container fragment are column boxes, which the loop skips (`is_column: continue`) —
nothing is found there, and (without spanning children) the missing `.index` is never read.
-/
import WpModel.Lemmas.ColSegPara

namespace Wp.PMC
open Wp Wp.PM

def EarlierPost (bs : List ColBox) (i : Nat) (sub : Option Resume) (kept : List CFrag) (r : Resume) : Prop :=
  ∃ m sub', r = .node (i + m) sub' ∧ m < bs.length ∧
    fragLinesList kept ++ linesFromKids bs m sub' = linesFromKids bs 0 sub ∧
    posKids bs 0 sub < posKids bs m sub'

theorem findEarlierGo_allColumns (inCol noIdx : Bool) : (fs : List CFrag) → allColumns fs →
    (findEarlierGo inCol noIdx fs).found = none ∧ (findEarlierGo inCol noIdx fs).prev = none ∧
    (findEarlierGo inCol noIdx fs).err = false
  | [] => by intro _; simp [findEarlierGo]
  | x :: xs => by
    intro h
    simp only [allColumns] at h
    obtain ⟨h1, h2, h3⟩ := findEarlierGo_allColumns inCol noIdx xs h.2
    rw [findEarlierGo]
    simp only [h3, Bool.false_eq_true, if_false, h1, h.1, if_true]
    simp [h2]

mutual
theorem findEarlierGo_spec (inCol : Bool) : (fs : List CFrag) → ∀ (bs : List ColBox) (i : Nat) (sub : Option Resume),
    GoodList bs → FullFrom fs bs i sub →
    (findEarlierGo inCol false fs).err = false ∧
    ((findEarlierGo inCol false fs).found = none → (findEarlierGo inCol false fs).prev = fs.head?) ∧
    (∀ kept r, (findEarlierGo inCol false fs).found = some (kept, r) → EarlierPost bs i sub kept r)
  | [] => by
    intro bs i sub _ _
    simp [findEarlierGo]
  | x :: xs => by
    intro bs i sub hg hf
    cases bs with
    | nil => simp [FullFrom] at hf
    | cons b bs' =>
      simp only [FullFrom] at hf
      obtain ⟨hx, hxi, hxs⟩ := hf
      simp only [GoodList] at hg
      obtain ⟨hgb, hgbs⟩ := hg
      obtain ⟨iherr, ihprev, ihfound⟩ := findEarlierGo_spec inCol xs bs' (i + 1) none hgbs hxs
      have hxl := full_lines x b sub hx
      have hxc := full_not_column x b sub hx
      rw [findEarlierGo]
      simp only [iherr, Bool.false_eq_true, if_false]
      split
      · -- a break was found among the later siblings
        rename_i kept r hfound
        refine ⟨rfl, by simp, ?_⟩
        intro kept' r' h
        simp only [Option.some.injEq, Prod.mk.injEq] at h
        obtain ⟨rfl, rfl⟩ := h
        obtain ⟨m, sub', hr, hm, hlines, hpos⟩ := ihfound kept r hfound
        refine ⟨m + 1, sub', by rw [hr]; congr 1; omega, by simp; omega, ?_, ?_⟩
        · simp only [fragLinesList, linesFromKids, List.append_assoc]
          rw [hlines, hxl]
        · simp only [posKids]
          have := pos_lt_size b sub
          omega
      · rename_i hnone
        have hprev := ihprev hnone
        simp only [hxc, Bool.false_eq_true, if_false]
        split
        · -- break after x
          rename_i p hba
          refine ⟨rfl, by simp, ?_⟩
          intro kept' r' h
          simp only [Option.some.injEq, Prod.mk.injEq] at h
          obtain ⟨rfl, rfl⟩ := h
          have hp : xs.head? = some p := by
            rw [← hprev]
            split at hba
            · rename_i p' hp'
              split at hba
              · simp only [Option.some.injEq] at hba; rw [hp', hba]
              · cases hba
            · cases hba
          cases xs with
          | nil => simp at hp
          | cons p' xs' =>
            simp only [List.head?_cons, Option.some.injEq] at hp
            subst hp
            cases bs' with
            | nil => simp [FullFrom] at hxs
            | cons b1 bs'' =>
              simp only [FullFrom] at hxs
              refine ⟨1, none, by rw [hxs.2.1], by simp, ?_, ?_⟩
              · simp only [fragLinesList, linesFromKids, List.append_nil]
                rw [hxl]
              · simp only [posKids]
                have := pos_lt_size b sub
                omega
        · obtain ⟨hnr, hfe⟩ := findEarlierFrag_spec inCol x b sub hgb hx
          split
          · split
            · -- break inside x
              rename_i x' r hfeq
              refine ⟨rfl, by simp, ?_⟩
              intro kept' r' h
              simp only [Option.some.injEq, Prod.mk.injEq] at h
              obtain ⟨rfl, rfl⟩ := h
              obtain ⟨hl, hp⟩ := hfe x' r hfeq
              refine ⟨0, some r, by rw [hxi]; rfl, by simp, ?_, ?_⟩
              · simp only [fragLinesList, linesFromKids, List.append_nil]
                rw [← List.append_assoc, hl]
              · simpa only [posKids] using hp
            · rename_i hr; exact absurd hr hnr
            · exact ⟨rfl, by simp, by simp⟩
          · exact ⟨rfl, by simp, by simp⟩
theorem findEarlierFrag_spec (inCol : Bool) : (x : CFrag) → ∀ (b : ColBox) (σ : Option Resume), Good b → Full x b σ →
    findEarlierFrag inCol x ≠ .raised ∧
    ∀ x' r, findEarlierFrag inCol x = .found x' r →
    fragLines x' ++ linesFrom b (some r) = linesFrom b σ ∧ pos b σ < pos b (some r)
  | .para id idx st n g lines => by
    intro b σ hg hf
    cases b with
    | block _ _ _ => simp [Full] at hf
    | columns _ _ _ _ _ => simp [Full] at hf
    | para id' n' lh st' =>
      simp only [Full] at hf
      obtain ⟨rfl, rfl, rfl, hl⟩ := hf
      simp only [Good] at hg
      simp only [findEarlierFrag]
      cases hp : findEarlierPara id idx st n g lines with
      | none => simp
      | some p =>
        obtain ⟨x0, r0⟩ := p
        refine ⟨by simp, ?_⟩
        intro x' r h
        simp only [EarlierIn.found.injEq] at h
        obtain ⟨rfl, rfl⟩ := h
        obtain ⟨m, kept, hm1, hmn, rfl, rfl, hk⟩ :=
          findEarlierPara_spec id idx st n g lines (paraStart σ) x0 r0 hg.2.1 hg.2.2 hl hp
        constructor
        · simp only [fragLines, linesFrom]
          have : paraStart (some (Resume.node 0 (some (Resume.line (paraStart σ + m))))) = paraStart σ + m := rfl
          rw [this, ← paraLines_split id (paraStart σ) m n (by omega), ← hk, List.map_map]
          rfl
        · simp only [pos]
          have : paraStart (some (Resume.node 0 (some (Resume.line (paraStart σ + m))))) = paraStart σ + m := rfl
          rw [this]
          omega
  | .block id idx st g kids => by
    intro b σ hg hf
    cases b with
    | para _ _ _ _ => simp [Full] at hf
    | columns _ _ _ _ _ => simp [Full] at hf
    | block id' st' bkids =>
      simp only [Full] at hf
      simp only [Good] at hg
      have hgd : GoodList (bkids.drop (skipIdxOf σ)) := goodList_drop bkids _ hg.2
      obtain ⟨herr, _, hfound⟩ := findEarlierGo_spec inCol kids _ _ _ hgd hf
      simp only [findEarlierFrag, herr, Bool.false_eq_true, if_false]
      cases hfd : (findEarlierGo inCol false kids).found with
      | none => simp
      | some p =>
        obtain ⟨kids', r0⟩ := p
        refine ⟨by simp, ?_⟩
        intro x' r h
        simp only [EarlierIn.found.injEq] at h
        obtain ⟨rfl, rfl⟩ := h
        obtain ⟨m, sub', rfl, hm, hlines, hpos⟩ := hfound kids' r0 hfd
        constructor
        · simp only [fragLines, linesFrom, skipIdxOf_node, subSkipOf_node]
          rw [linesFromKids_drop, hlines]
          have := linesFromKids_drop bkids (skipIdxOf σ) 0 (subSkipOf σ)
          simpa using this.symm
        · simp only [pos, skipIdxOf_node, subSkipOf_node]
          rw [posKids_drop]
          have := posKids_drop bkids (skipIdxOf σ) 0 (subSkipOf σ)
          simp only [Nat.add_zero] at this
          rw [this]
          omega
  | .cols id idx st g kids => by
    intro b σ hg hf
    cases b with
    | para _ _ _ _ => simp [Full] at hf
    | block _ _ _ => simp [Full] at hf
    | columns _ _ _ _ bkids =>
      simp only [Full] at hf
      obtain ⟨h1, h2, h3⟩ := findEarlierGo_allColumns inCol true kids hf.1
      simp [findEarlierFrag, h1, h3]
  | .column _ _ _ _ _ => by
    intro b σ hg hf
    simp [Full] at hf
end

theorem findEarlierList_spec (inCol : Bool) (fs : List CFrag) (bs : List ColBox) (i : Nat) (sub : Option Resume)
    (hg : GoodList bs) (hf : FullFrom fs bs i sub) :
    findEarlierList inCol fs ≠ .raised ∧
    ∀ kept r, findEarlierList inCol fs = .found kept r → EarlierPost bs i sub kept r := by
  obtain ⟨herr, _, hfound⟩ := findEarlierGo_spec inCol fs bs i sub hg hf
  simp only [findEarlierList, herr, Bool.false_eq_true, if_false]
  cases hfd : (findEarlierGo inCol false fs).found with
  | none => simp
  | some p =>
    obtain ⟨k, r0⟩ := p
    refine ⟨by simp, ?_⟩
    intro kept r h
    simp only [EarlierList.found.injEq] at h
    obtain ⟨rfl, rfl⟩ := h
    exact hfound k r0 hfd

end Wp.PMC
