/-
The cache simulation of Lemmas/PdfCache extended to the raw setters that bypass the caches (`set_color_space`,
`set_color_special`, a bare `set_state` with `ca` / `CA`), under the discipline the drawing code follows: after such a
call no cache-reading setter (`set_color`, `set_alpha`) is called before the next `pop_state` (which clears the caches
and restores the graphics state).  Core Lean only.
-/
import WpModel.Lemmas.PdfCache
namespace Wp.Pdf

/-- The stream with the four colour / alpha caches emptied (`_current_font`, `_old_font` are kept). -/
def SState.forget (s : SState) : SState := { s with colF := none, colS := none, alphaF := none, alphaS := none }

theorem Sim.forget {cols : List Colour} {r : Res} {sc sn : SState} (h : Sim cols r sc sn) :
    Sim cols r sc.forget sn :=
  ⟨h.g, h.p, h.ctm, h.mark, h.marked, (fun _ hk => by cases hk), (fun _ hk => by cases hk),
    (fun _ hk => by cases hk), (fun _ hk => by cases hk), h.font, h.old⟩

theorem forget_forget (s : SState) : s.forget.forget = s.forget := rfl

theorem forget_emit (s : SState) (o : Op) : (s.emit o).forget = s.forget.emit o := rfl

theorem forget_emitAll (s : SState) (os : List Op) : (s.emitAll os).forget = s.forget.emitAll os := by
  induction os generalizing s with
  | nil => rfl
  | cons o os ih => simp only [SState.emitAll, List.foldl_cons] at ih ⊢; rw [ih (s.emit o)]; rfl

theorem forget_clearCaches (s : SState) : (clearCaches s).forget = clearCaches s.forget := rfl

theorem popOps_forget (s : SState) : (popOps s).forget = popOps s.forget := by
  unfold popOps
  show (match s.rops with | .q :: rest => { s with rops := rest } | _ => s.emit .Q).forget =
    (match s.rops with | .q :: rest => { s.forget with rops := rest } | _ => s.forget.emit .Q)
  split <;> rfl

theorem clearCaches_forget_eq (s : SState) : clearCaches s.forget = clearCaches s := rfl

/-- `pop_state` does not look at the colour / alpha caches and empties them. -/
theorem popState_forget (s : SState) : popState s.forget = popState s := by
  have h : clearCaches (popOps s.forget) = clearCaches (popOps s) := by
    rw [← popOps_forget, clearCaches_forget_eq]
  unfold popState
  rw [h]

/-- A call that is neither a cache reader nor `pop_state` does the same on the stream with emptied caches, up to the
caches. -/
theorem stepS_forget (r : Res) (s : SState) (c : Call) (hr : c.reader = false) (s' : SState) (r' : Res)
    (h : stepS r s c = .ok (s', r')) : ∃ s'', stepS r s.forget c = .ok (s'', r') ∧ s''.forget = s'.forget := by
  cases c with
  | setColor col st => simp [Call.reader] at hr
  | setAlpha α st fl => simp [Call.reader] at hr
  | push =>
    simp only [stepS] at h
    split at h <;> simp at h
    rename_i top rest hc
    obtain ⟨rfl, rfl⟩ := h
    exact ⟨{ s.forget with ctm := top :: top :: rest }.emit .q, by simp [stepS, SState.forget, hc], rfl⟩
  | pop =>
    simp only [stepS] at h ⊢
    rw [popState_forget]
    exact ⟨s', h, rfl⟩
  | transform a b c d e f =>
    simp only [stepS] at h
    split at h <;> simp at h
    rename_i top rest hc
    obtain ⟨rfl, rfl⟩ := h
    exact ⟨{ s.forget with ctm := Mat.mul ⟨a.val, b.val, c.val, d.val, e.val, f.val⟩ top :: rest }.emit (.cm a b c d e f),
      by simp [stepS, SState.forget, hc], rfl⟩
  | beginText =>
    simp only [stepS] at h; simp at h; obtain ⟨rfl, rfl⟩ := h
    refine ⟨beginText s.forget, rfl, ?_⟩
    unfold beginText
    show (match s.rops with | .ET :: rest => { s.forget with rops := rest, font := s.oldFont } | _ => s.forget.emit .BT).forget
      = (match s.rops with | .ET :: rest => { s with rops := rest, font := s.oldFont } | _ => s.emit .BT).forget
    split <;> rfl
  | endText => simp only [stepS] at h; simp at h; obtain ⟨rfl, rfl⟩ := h; exact ⟨_, rfl, rfl⟩
  | setFont f sz =>
    simp only [stepS] at h
    split at h <;> simp at h <;> obtain ⟨rfl, rfl⟩ := h
    · rename_i hhit
      exact ⟨s.forget, by simp only [stepS]; rw [if_pos (by simpa [SState.forget] using hhit)], rfl⟩
    · rename_i hhit
      exact ⟨{ s.forget with font := some (f, sz.val) }.emit (.Tf f sz),
        by simp only [stepS]; rw [if_neg (by simpa [SState.forget] using hhit)], rfl⟩
  | setState d => simp only [stepS, setState] at h; simp at h; obtain ⟨rfl, rfl⟩ := h; exact ⟨_, rfl, rfl⟩
  | softMaskState =>
    simp only [stepS, softMaskState, setState] at h; simp at h; obtain ⟨rfl, rfl⟩ := h; exact ⟨_, rfl, rfl⟩
  | setBlendMode mode => simp only [stepS, setState] at h; simp at h; obtain ⟨rfl, rfl⟩ := h; exact ⟨_, rfl, rfl⟩
  | beginMarked et mcid tag =>
    simp only [stepS] at h; simp at h; obtain ⟨rfl, rfl⟩ := h
    refine ⟨beginMarked s.forget et mcid tag, rfl, ?_⟩
    unfold beginMarked
    show (if !s.mark then s.forget else if mcid then _ else _).forget = (if !s.mark then s else if mcid then _ else _).forget
    split
    · rfl
    · split
      · rw [forget_emitAll, forget_emitAll]; rfl
      · rw [forget_emitAll, forget_emitAll]; rfl
  | endMarked =>
    simp only [stepS] at h
    split at h <;> simp at h <;> obtain ⟨rfl, rfl⟩ := h
    · rename_i hm
      exact ⟨s.forget, by simp only [stepS]; rw [if_pos (by simpa [SState.forget] using hm)], rfl⟩
    · rename_i hm
      exact ⟨s.forget.emit .EMC, by simp only [stepS]; rw [if_neg (by simpa [SState.forget] using hm)], rfl⟩
  | drawX k => simp only [stepS] at h; simp at h; obtain ⟨rfl, rfl⟩ := h; exact ⟨_, rfl, rfl⟩
  | paintShading n => simp only [stepS] at h; simp at h; obtain ⟨rfl, rfl⟩ := h; exact ⟨_, rfl, rfl⟩
  | setColorSpace sp st => simp only [stepS] at h; simp at h; obtain ⟨rfl, rfl⟩ := h; exact ⟨_, rfl, rfl⟩
  | setColorSpecial p st os => simp only [stepS] at h; simp at h; obtain ⟨rfl, rfl⟩ := h; exact ⟨_, rfl, rfl⟩
  | raw k a f t => simp only [stepS] at h; simp at h; obtain ⟨rfl, rfl⟩ := h; exact ⟨_, rfl, rfl⟩
  | rawTok c t => simp only [stepS] at h; simp at h; obtain ⟨rfl, rfl⟩ := h; exact ⟨_, rfl, rfl⟩

theorem applyG_font (d : ExtG) (g : GS) : (applyG d g).font = g.font := by
  unfold applyG; cases d.ca <;> cases d.CA <;> rfl

/-- Both emissions append the same operator; the caches of the cached side are empty, so they claim nothing. -/
theorem Sim.emit_any_forgotten {cols : List Colour} {r r' : Res} {sc sn : SState} (h : Sim cols r sc.forget sn)
    (o : Op) (hq : o ≠ .q) (hE : o ≠ .ET) (hkeep : ∀ st : GStk, (applyOp o st).1.font = st.1.font) :
    Sim cols r' (sc.forget.emit o) (sn.emit o) := by
  refine ⟨?_, ?_, h.ctm, h.mark, h.marked, (fun _ hk => by cases hk), (fun _ hk => by cases hk),
    (fun _ hk => by cases hk), (fun _ hk => by cases hk), ?_, ?_⟩
  · simp only [SState.emit, G_cons, h.g]
  · simp only [SState.emit, paints_cons, h.g, h.p]
  · intro f hf
    have := h.font f hf
    have hcur : (curG (o :: sc.forget.rops)).font = (curG sc.forget.rops).font := by
      simp only [curG, G_cons]; exact hkeep _
    simpa [SState.emit, hcur] using this
  · exact old_vacuous o _ _ hq hE

/-- A raw setter (`set_color_space`, `set_color_special`, bare `set_state`) from a state whose caches are empty. -/
theorem step_dirty_sim (cols : List Colour) {r : Res} {sc sn : SState} (h : Sim cols r sc.forget sn) (c : Call)
    (hd : c.dirtying = true) (sc' : SState) (r' : Res) (hstep : stepS r sc c = .ok (sc', r')) :
    ∃ sn', stepNaive r sn c = .ok (sn', r') ∧ Sim cols r' sc'.forget sn' := by
  cases c with
  | setState d =>
    simp only [stepS, setState] at hstep; simp at hstep
    obtain ⟨rfl, rfl⟩ := hstep
    exact ⟨_, by simp [stepNaive, stepS, setState],
      h.emit_any_forgotten _ (by simp) (by simp) (fun st => applyG_font d st.1)⟩
  | setColorSpace sp st =>
    simp only [stepS] at hstep; simp at hstep
    obtain ⟨rfl, rfl⟩ := hstep
    exact ⟨_, by simp [stepNaive, stepS], h.emit_any_forgotten _ (by simp) (by simp) (fun _ => by cases st <;> rfl)⟩
  | setColorSpecial p st os =>
    simp only [stepS] at hstep; simp at hstep
    obtain ⟨rfl, rfl⟩ := hstep
    exact ⟨_, by simp [stepNaive, stepS], h.emit_any_forgotten _ (by simp) (by simp) (fun _ => by cases st <;> rfl)⟩
  | _ => simp [Call.dirtying, Call.cacheSafe] at hd

/-- The invariant of the scoped run: clean → full simulation; dirty → simulation of the stream with emptied caches. -/
def SimD (cols : List Colour) (r : Res) (dirty : Bool) (sc sn : SState) : Prop :=
  if dirty then Sim cols r sc.forget sn else Sim cols r sc sn

theorem SimD.weak {cols : List Colour} {r : Res} {dirty : Bool} {sc sn : SState} (h : SimD cols r dirty sc sn) :
    Sim cols r sc.forget sn := by
  unfold SimD at h
  split at h
  · exact h
  · exact h.forget

theorem run_sim_scoped (cols : List Colour) (hcons : Consistent cols) (calls : List Call) (dirty : Bool)
    (hok : scopedOK dirty calls = true) (hcols : ∀ col st, Call.setColor col st ∈ calls → col ∈ cols)
    {r : Res} {sc sn : SState} (h : SimD cols r dirty sc sn) (sc' : SState) (r' : Res)
    (hrun : runS r sc calls = .ok (sc', r')) :
    ∃ sn', runNaive r sn calls = .ok (sn', r') ∧ Sim cols r' sc'.forget sn' := by
  induction calls generalizing r sc sn dirty with
  | nil =>
    simp [runS] at hrun
    obtain ⟨rfl, rfl⟩ := hrun
    exact ⟨sn, rfl, h.weak⟩
  | cons c cs ih =>
    simp only [runS] at hrun
    split at hrun
    · rename_i sm rm hstep
      have hcols' : ∀ col st, Call.setColor col st ∈ cs → col ∈ cols :=
        fun col st hx => hcols col st (List.mem_cons_of_mem _ hx)
      simp only [scopedOK] at hok
      by_cases hd : c.dirtying = true
      · -- a raw setter: the stream is dirty from here on
        rw [if_pos hd] at hok
        have hnr : c.reader = false := by
          cases c <;> simp [Call.dirtying, Call.cacheSafe] at hd <;> rfl
        obtain ⟨snm, hn, hsim⟩ := step_dirty_sim cols h.weak c hd sm rm hstep
        obtain ⟨sn', hn', hsim'⟩ := ih true hok hcols' (show SimD cols rm true sm snm from hsim) hrun
        exact ⟨sn', by simp [runNaive, hn, hn'], hsim'⟩
      · rw [if_neg hd] at hok
        have hsafe : c.cacheSafe = true := by simpa [Call.dirtying] using hd
        cases dirty with
        | false =>
          simp only [Bool.false_eq_true, if_false] at hok
          have hfull : Sim cols r sc sn := h
          obtain ⟨snm, hn, hsim⟩ := step_sim cols hcons hfull c hsafe
            (fun col st e => hcols col st (e ▸ List.mem_cons_self)) sm rm hstep
          obtain ⟨sn', hn', hsim'⟩ := ih false hok hcols' (show SimD cols rm false sm snm from hsim) hrun
          exact ⟨sn', by simp [runNaive, hn, hn'], hsim'⟩
        | true =>
          simp only [if_true] at hok
          have hw : Sim cols r sc.forget sn := h
          by_cases hpop : c = .pop
          · subst hpop
            -- `pop_state` ignores and clears the caches: full simulation again
            have hstep' : stepS r sc.forget .pop = .ok (sm, rm) := by
              simp only [stepS] at hstep ⊢
              rw [popState_forget]; exact hstep
            obtain ⟨snm, hn, hsim⟩ := step_sim cols hcons hw .pop rfl (fun _ _ e => by cases e) sm rm hstep'
            obtain ⟨sn', hn', hsim'⟩ := ih false (by simpa using hok) hcols'
              (show SimD cols rm false sm snm from hsim) hrun
            exact ⟨sn', by simp [runNaive, hn, hn'], hsim'⟩
          · have hok' : c.reader = false ∧ scopedOK true cs = true := by
              cases c <;> first | exact absurd rfl hpop | simpa using hok
            obtain ⟨sm', hstep', hfg⟩ := stepS_forget r sc c hok'.1 sm rm hstep
            obtain ⟨snm, hn, hsim⟩ := step_sim cols hcons hw c hsafe
              (fun col st e => by subst e; simp [Call.reader] at hok') sm' rm hstep'
            have hsim2 : Sim cols rm sm.forget snm := by rw [← hfg]; exact hsim.forget
            obtain ⟨sn', hn', hsim'⟩ := ih true hok'.2 hcols' (show SimD cols rm true sm snm from hsim2) hrun
            exact ⟨sn', by simp [runNaive, hn, hn'], hsim'⟩
    · simp at hrun

end Wp.Pdf
