/-
Helper lemmas for C18: `urllib.parse.unquote` undoes the percent-encoding of `iri_to_uri`
(UTF-8 bytes, `%XX`).  Core Lean only.
-/
import WpModel.Model.C18LinkAttr

namespace Wp.C18
open Wp Wp.LinkAttr

/-- A Unicode scalar value, as a natural number. -/
def IsScalar (n : Nat) : Prop := n < 1114112 ∧ ¬ (55296 ≤ n ∧ n < 57344)

theorem char_isScalar (c : Char) : IsScalar c.toNat := by
  have h := c.valid
  unfold IsScalar
  simp only [Char.toNat]
  rcases h with h | h
  · have : c.val.toNat < 55296 := h
    omega
  · have h1 : 57343 < c.val.toNat := h.1
    have h2 : c.val.toNat < 1114112 := h.2
    omega

theorem utf8Decode_one (b : Nat) (rest : List Nat) (h1 : b < 128) : utf8Decode (b :: rest) = b :: utf8Decode rest := by
  rw [utf8Decode.eq_def]
  simp only [if_pos h1]

theorem utf8Decode_two (b c : Nat) (rest : List Nat) (h1 : ¬ b < 128) (h2 : ¬ b < 194) (h3 : b < 224)
    (h4 : isCont c = true) : utf8Decode (b :: c :: rest) = ((b - 192) * 64 + (c - 128)) :: utf8Decode rest := by
  rw [utf8Decode.eq_def]
  simp only [if_neg h1, if_neg h2, if_pos h3, h4, if_true]

theorem utf8Decode_three (b c d : Nat) (rest : List Nat) (h1 : ¬ b < 128) (h2 : ¬ b < 194) (h3 : ¬ b < 224)
    (h4 : b < 240)
    (h5 : ((if b == 224 then 160 else 128) ≤ c && c < (if b == 237 then 160 else 192)) = true)
    (h6 : isCont d = true) :
    utf8Decode (b :: c :: d :: rest) = ((b - 224) * 4096 + (c - 128) * 64 + (d - 128)) :: utf8Decode rest := by
  rw [utf8Decode.eq_def]
  simp only [if_neg h1, if_neg h2, if_neg h3, if_pos h4, h5, h6, if_true]

theorem utf8Decode_four (b c d e : Nat) (rest : List Nat) (h1 : ¬ b < 128) (h2 : ¬ b < 194) (h3 : ¬ b < 224)
    (h4 : ¬ b < 240) (h4' : b < 245)
    (h5 : ((if b == 240 then 144 else 128) ≤ c && c < (if b == 244 then 144 else 192)) = true)
    (h6 : isCont d = true) (h7 : isCont e = true) :
    utf8Decode (b :: c :: d :: e :: rest) =
      ((b - 240) * 262144 + (c - 128) * 4096 + (d - 128) * 64 + (e - 128)) :: utf8Decode rest := by
  rw [utf8Decode.eq_def]
  simp only [if_neg h1, if_neg h2, if_neg h3, if_neg h4, if_pos h4', h5, h6, h7, if_true]

theorem isCont_of (x : Nat) (h : x < 64) : isCont (128 + x) = true := by
  simp only [isCont, Bool.and_eq_true, decide_eq_true_eq]; omega

theorem second_ok (b c lo hi : Nat) (l u : Nat) (hb1 : b = lo → l ≤ c) (hb2 : b = hi → c < u) (h128 : 128 ≤ c) (h192 : c < 192)
    (hl : l ≤ 192) (hu : 128 ≤ u) (hu' : u ≤ 192) (hl' : 128 ≤ l) :
    ((if b == lo then l else 128) ≤ c && c < (if b == hi then u else 192)) = true := by
  simp only [Bool.and_eq_true, decide_eq_true_eq, beq_iff_eq]
  constructor
  · by_cases e : b = lo
    · rw [if_pos e]; exact hb1 e
    · rw [if_neg e]; exact h128
  · by_cases e : b = hi
    · rw [if_pos e]; exact hb2 e
    · rw [if_neg e]; exact h192

/-- Decoding the UTF-8 bytes of one scalar value gives it back, whatever follows. -/
theorem utf8Decode_utf8 (c : Char) (rest : List Nat) :
    utf8Decode (Wp.Res.utf8 c ++ rest) = c.toNat :: utf8Decode rest := by
  have hs := char_isScalar c
  unfold IsScalar at hs
  unfold Wp.Res.utf8
  simp only []
  generalize c.toNat = n at hs ⊢
  by_cases h1 : n < 128
  · rw [if_pos h1]
    exact utf8Decode_one n rest h1
  · rw [if_neg h1]
    by_cases h2 : n < 2048
    · rw [if_pos h2]
      have h := utf8Decode_two (0xC0 + n / 64) (0x80 + n % 64) rest (by omega) (by omega) (by omega)
        (isCont_of _ (Nat.mod_lt _ (by decide)))
      have e : (0xC0 + n / 64 - 192) * 64 + (0x80 + n % 64 - 128) = n := by omega
      rw [e] at h
      exact h
    · rw [if_neg h2]
      by_cases h3 : n < 65536
      · rw [if_pos h3]
        have h := utf8Decode_three (0xE0 + n / 4096) (0x80 + n / 64 % 64) (0x80 + n % 64) rest
          (by omega) (by omega) (by omega) (by omega)
          (second_ok _ _ 224 237 160 160 (by omega) (by omega) (by omega) (by omega) (by omega) (by omega) (by omega) (by omega))
          (isCont_of _ (Nat.mod_lt _ (by decide)))
        have e : (0xE0 + n / 4096 - 224) * 4096 + (0x80 + n / 64 % 64 - 128) * 64 + (0x80 + n % 64 - 128) = n := by omega
        rw [e] at h
        exact h
      · rw [if_neg h3]
        have h := utf8Decode_four (0xF0 + n / 262144) (0x80 + n / 4096 % 64) (0x80 + n / 64 % 64) (0x80 + n % 64) rest
          (by omega) (by omega) (by omega) (by omega) (by omega)
          (second_ok _ _ 240 244 144 144 (by omega) (by omega) (by omega) (by omega) (by omega) (by omega) (by omega) (by omega))
          (isCont_of _ (Nat.mod_lt _ (by decide))) (isCont_of _ (Nat.mod_lt _ (by decide)))
        have e : (0xF0 + n / 262144 - 240) * 262144 + (0x80 + n / 4096 % 64 - 128) * 4096 +
            (0x80 + n / 64 % 64 - 128) * 64 + (0x80 + n % 64 - 128) = n := by omega
        rw [e] at h
        exact h

/-- `bytes.decode('utf-8')` of the UTF-8 encoding of a string is the string. -/
theorem utf8Decode_flatMap (s : List Char) : utf8Decode (s.flatMap Wp.Res.utf8) = s.map Char.toNat := by
  induction s with
  | nil => rw [List.flatMap_nil, utf8Decode.eq_def]; rfl
  | cons c rest ih => rw [List.flatMap_cons, utf8Decode_utf8, ih]; rfl

/-! ### `%XX` -/

theorem unquoteBytes_plain (c : Char) (rest : List Char) (hc : c ≠ '%') :
    unquoteBytes (c :: rest) = c.toNat :: unquoteBytes rest := by
  rw [unquoteBytes.eq_def]
  split
  · rename_i h; cases h
  · rename_i a b r h
    injection h with h1 h2
    exact absurd h1 hc
  · rename_i c' r' hne h
    injection h with h1 h2
    subst h1; subst h2; rfl

theorem hexVal_hexUpper : ∀ n, n < 16 → hexVal? (Wp.Res.hexUpper n) = some n := by decide

theorem unquoteBytes_pct (h l : Nat) (hh : h < 16) (hl : l < 16) (rest : List Char) :
    unquoteBytes ('%' :: Wp.Res.hexUpper h :: Wp.Res.hexUpper l :: rest) = (h * 16 + l) :: unquoteBytes rest := by
  rw [unquoteBytes.eq_def]
  simp only [hexVal_hexUpper h hh, hexVal_hexUpper l hl]

theorem toNat_ofNat_small : ∀ b, b < 128 → (Char.ofNat b).toNat = b := by decide

theorem unquoteBytes_quoteByte (b : Nat) (hb : b < 256) (h37 : b ≠ 37) (rest : List Char) :
    unquoteBytes (Wp.Res.quoteByte b ++ rest) = b :: unquoteBytes rest := by
  unfold Wp.Res.quoteByte
  by_cases hu : Wp.Res.isUriByte b = true
  · rw [if_pos hu]
    have hlt : b < 128 := by
      unfold Wp.Res.isUriByte at hu
      simp only [Bool.and_eq_true, decide_eq_true_eq] at hu
      exact hu.1
    have hne : Char.ofNat b ≠ '%' := by
      intro e
      have := congrArg Char.toNat e
      rw [toNat_ofNat_small b hlt] at this
      exact h37 this
    have := unquoteBytes_plain (Char.ofNat b) rest hne
    rw [show [Char.ofNat b] ++ rest = Char.ofNat b :: rest from rfl, this]
    rw [toNat_ofNat_small b hlt]
  · rw [if_neg hu]
    have := unquoteBytes_pct (b / 16 % 16) (b % 16) (Nat.mod_lt _ (by decide)) (Nat.mod_lt _ (by decide)) rest
    rw [show ['%', Wp.Res.hexUpper (b / 16 % 16), Wp.Res.hexUpper (b % 16)] ++ rest =
      '%' :: Wp.Res.hexUpper (b / 16 % 16) :: Wp.Res.hexUpper (b % 16) :: rest from rfl, this]
    have e : b / 16 % 16 * 16 + b % 16 = b := by omega
    rw [e]

theorem unquoteBytes_flatMap (bs : List Nat) (h : ∀ b ∈ bs, b < 256 ∧ b ≠ 37) :
    unquoteBytes (bs.flatMap Wp.Res.quoteByte) = bs := by
  induction bs with
  | nil => rw [List.flatMap_nil, unquoteBytes.eq_def]
  | cons b rest ih =>
    rw [List.flatMap_cons, unquoteBytes_quoteByte b (h b (by simp)).1 (h b (by simp)).2,
      ih (fun x hx => h x (List.mem_cons_of_mem _ hx))]

theorem utf8_bytes (c : Char) (hc : c ≠ '%') : ∀ b ∈ Wp.Res.utf8 c, b < 256 ∧ b ≠ 37 := by
  have hs := char_isScalar c
  have h37 : c.toNat ≠ 37 := by
    intro e
    apply hc
    rw [← Char.ofNat_toNat c, e]
  unfold IsScalar at hs
  unfold Wp.Res.utf8
  simp only []
  generalize c.toNat = n at hs h37 ⊢
  intro b hb
  by_cases h1 : n < 128
  · rw [if_pos h1] at hb
    simp only [List.mem_cons, List.not_mem_nil, or_false] at hb
    omega
  · rw [if_neg h1] at hb
    by_cases h2 : n < 2048
    · rw [if_pos h2] at hb
      simp only [List.mem_cons, List.not_mem_nil, or_false] at hb
      omega
    · rw [if_neg h2] at hb
      by_cases h3 : n < 65536
      · rw [if_pos h3] at hb
        simp only [List.mem_cons, List.not_mem_nil, or_false] at hb
        omega
      · rw [if_neg h3] at hb
        simp only [List.mem_cons, List.not_mem_nil, or_false] at hb
        omega

theorem hexUpper_ascii : ∀ n, n < 16 → (Wp.Res.hexUpper n).toNat < 128 := by decide

theorem quoteByte_ascii (b : Nat) : ∀ ch ∈ Wp.Res.quoteByte b, ch.toNat < 128 := by
  unfold Wp.Res.quoteByte
  intro ch hch
  by_cases hu : Wp.Res.isUriByte b = true
  · rw [if_pos hu] at hch
    have hlt : b < 128 := by
      unfold Wp.Res.isUriByte at hu
      simp only [Bool.and_eq_true, decide_eq_true_eq] at hu
      exact hu.1
    simp only [List.mem_cons, List.not_mem_nil, or_false] at hch
    rw [hch, toNat_ofNat_small b hlt]; exact hlt
  · rw [if_neg hu] at hch
    simp only [List.mem_cons, List.not_mem_nil, or_false] at hch
    rcases hch with rfl | rfl | rfl
    · decide
    · exact hexUpper_ascii _ (Nat.mod_lt _ (by decide))
    · exact hexUpper_ascii _ (Nat.mod_lt _ (by decide))

/-! ### `unquote` on an ASCII string -/

theorem plain_ascii (q : List Char) (hq : ∀ ch ∈ q, ch.toNat < 128) (hp : ∀ ch ∈ q, ch ≠ '%') :
    utf8Decode (unquoteBytes q) = q.map Char.toNat := by
  induction q with
  | nil => rw [unquoteBytes.eq_def, utf8Decode.eq_def]; rfl
  | cons c rest ih =>
    rw [unquoteBytes_plain c rest (hp c (by simp)), utf8Decode_one _ _ (hq c (by simp)),
      ih (fun x hx => hq x (List.mem_cons_of_mem _ hx)) (fun x hx => hp x (List.mem_cons_of_mem _ hx))]
    rfl

theorem map_ofNat_toNat (s : List Char) : (s.map Char.toNat).map Char.ofNat = s := by
  induction s with
  | nil => rfl
  | cons c rest ih => simp only [List.map_cons, Char.ofNat_toNat, ih]

theorem asciiRun_all (q : List Char) (hq : ∀ ch ∈ q, ch.toNat < 128) : asciiRun q = (q, []) := by
  unfold asciiRun
  induction q with
  | nil => rfl
  | cons c rest ih =>
    have hc : decide (c.toNat < 128) = true := by simpa using hq c (by simp)
    have := ih (fun x hx => hq x (List.mem_cons_of_mem _ hx))
    simp only [Prod.mk.injEq] at this
    simp only [List.takeWhile_cons, List.dropWhile_cons, hc, if_true, this.1, this.2]

theorem unquoteParts_nil (n : Nat) : unquoteParts n [] = [] := by
  cases n <;> rfl

/-- On a pure ASCII string `unquote` is: `%XX` → bytes, then UTF-8 decoding. -/
theorem unquote_ascii (q : List Char) (hq : ∀ ch ∈ q, ch.toNat < 128) :
    LinkAttr.unquote q = (utf8Decode (unquoteBytes q)).map Char.ofNat := by
  unfold LinkAttr.unquote
  by_cases hc : q.contains '%' = true
  · simp only [hc, Bool.not_true, Bool.false_eq_true, if_false]
    cases q with
    | nil => simp at hc
    | cons c rest =>
      have hlt : c.toNat < 128 := hq c (by simp)
      show unquoteParts ((c :: rest).length + 1) (c :: rest) = _
      unfold unquoteParts
      simp only [hlt, if_true, asciiRun_all (c :: rest) hq, unquoteParts_nil, List.append_nil]
  · have hc' : q.contains '%' = false := by simpa using hc
    simp only [hc', Bool.not_false, if_true]
    have hp : ∀ ch ∈ q, ch ≠ '%' := by
      intro ch hch e
      subst e
      have : q.contains '%' = true := List.contains_iff_mem.mpr hch
      rw [hc'] at this; cases this
    rw [plain_ascii q hq hp, map_ofNat_toNat]

end Wp.C18
