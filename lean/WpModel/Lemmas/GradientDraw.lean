/-
Monotonicity of the document state (streams keep their resource dictionary, dictionaries only grow) for the document
calls `Gradient.draw` makes, and the invariant `WorldOK` along `drawGradient`.  Core Lean only.
-/
import WpModel.Model.GradientDraw
import WpModel.Lemmas.PdfWorld
namespace Wp.Pdf

/-- Streams keep their resource dictionary, dictionaries only grow, nothing disappears. -/
structure Mono (w w' : World) : Prop where
  streams : ∀ (i : Nat) (s : SState), w.streams[i]? = some s → ∃ s', w'.streams[i]? = some s' ∧ s'.res = s.res
  res : ∀ (j : Nat) (r : Res), w.res[j]? = some r → ∃ r', w'.res[j]? = some r' ∧ r.le r'

theorem Mono.refl (w : World) : Mono w w :=
  ⟨fun _ s h => ⟨s, h, rfl⟩, fun _ r h => ⟨r, h, Res.le.refl r⟩⟩

theorem Mono.trans {a b c : World} (h1 : Mono a b) (h2 : Mono b c) : Mono a c := by
  refine ⟨?_, ?_⟩
  · intro i s hs
    obtain ⟨s1, hs1, e1⟩ := h1.streams i s hs
    obtain ⟨s2, hs2, e2⟩ := h2.streams i s1 hs1
    exact ⟨s2, hs2, e2.trans e1⟩
  · intro j r hr
    obtain ⟨r1, hr1, l1⟩ := h1.res j r hr
    obtain ⟨r2, hr2, l2⟩ := h2.res j r1 hr1
    exact ⟨r2, hr2, l1.trans l2⟩

theorem shadingCount_spec {w : World} {h n : Nat} (hc : shadingCount w h = some n) :
    ∃ s r, w.streams[h]? = some s ∧ w.res[s.res]? = some r ∧ r.shading = n := by
  unfold shadingCount at hc
  split at hc
  · cases hc
  · rename_i s hs
    split at hc
    · cases hc
    · rename_i r hr
      simp at hc
      exact ⟨s, r, hs, hr, hc⟩

theorem shadingCount_of {w : World} {h : Nat} {s : SState} {r : Res} (hs : w.streams[h]? = some s)
    (hr : w.res[s.res]? = some r) : shadingCount w h = some r.shading := by
  simp [shadingCount, hs, hr]

theorem Mono.shading {w w' : World} (hm : Mono w w') {h n : Nat} (hc : shadingCount w h = some n) :
    ∃ n', shadingCount w' h = some n' ∧ n ≤ n' := by
  obtain ⟨s, r, hs, hr, rfl⟩ := shadingCount_spec hc
  obtain ⟨s', hs', e⟩ := hm.streams h s hs
  obtain ⟨r', hr', hle⟩ := hm.res s.res r hr
  exact ⟨r'.shading, shadingCount_of hs' (e ▸ hr'), hle.sh⟩

theorem thenDo_eq_ok {x : Except PyErr World} {f : Stage} {w' : World} (h : (x |>> f) = .ok w') :
    ∃ w1, x = .ok w1 ∧ f w1 = .ok w' := by
  cases x with
  | error e => simp [thenDo] at h
  | ok w1 => exact ⟨w1, rfl, h⟩

theorem onCall_mono (w w' : World) (h : Nat) (c : Call) (hs : (WCall.on h c).scoped w)
    (hstep : w.onCall h c = .ok w') : Mono w w' := by
  unfold World.onCall at hstep
  split at hstep
  · simp at hstep
  · rename_i s hs'
    split at hstep
    · simp at hstep
    · rename_i r hr
      split at hstep
      · simp at hstep
      · rename_i s' r' hst
        simp at hstep; subst hstep
        have hok := stepS_ok r s c s' r' (hs s r hs' hr) hst
        have hres := stepS_res r s c s' r' hst
        have hhlt : h < w.streams.length := (List.getElem?_eq_some_iff.mp hs').1
        have hjlt : s.res < w.res.length := (List.getElem?_eq_some_iff.mp hr).1
        refine ⟨?_, ?_⟩
        · intro i t ht
          by_cases e : h = i
          · subst e
            rw [hs'] at ht; cases ht
            exact ⟨s', by simp [hhlt], hres⟩
          · exact ⟨t, by simp [List.getElem?_set, e, ht], rfl⟩
        · intro j q hq
          by_cases e : s.res = j
          · subst e
            rw [hr] at hq; cases hq
            exact ⟨r', by simp [hjlt], hok.le⟩
          · exact ⟨q, by simp [List.getElem?_set, e, hq], Res.le.refl q⟩

theorem addShading_mono (w w' : World) (h : Nat) (hstep : w.step (.addShading h) = .ok w') :
    Mono w w' ∧ ∀ n, shadingCount w h = some n → shadingCount w' h = some (n + 1) := by
  simp only [World.step] at hstep
  split at hstep
  · simp at hstep
  · rename_i s hs
    split at hstep
    · simp at hstep
    · rename_i r hr
      simp at hstep; subst hstep
      have hjlt : s.res < w.res.length := (List.getElem?_eq_some_iff.mp hr).1
      refine ⟨⟨fun i t ht => ⟨t, ht, rfl⟩, ?_⟩, ?_⟩
      · intro j q hq
        by_cases e : s.res = j
        · subst e
          rw [hr] at hq; cases hq
          exact ⟨{ r with shading := r.shading + 1 }, by simp [hjlt],
            ⟨fun _ h => h, fun _ h => h, Nat.le_succ _, Nat.le_refl _⟩⟩
        · exact ⟨q, by simp [List.getElem?_set, e, hq], Res.le.refl q⟩
      · intro n hn
        obtain ⟨s0, r0, hs0, hr0, rfl⟩ := shadingCount_spec hn
        rw [hs] at hs0; cases hs0
        rw [hr] at hr0; cases hr0
        simp [shadingCount, hs, hjlt]

theorem addGroup_mono (w w' : World) (h : Nat) (hstep : w.addGroup h = .ok w') : Mono w w' := by
  unfold World.addGroup at hstep
  split at hstep
  · simp at hstep
  · rename_i s hs
    split at hstep
    · simp at hstep
    · rename_i r hr
      simp at hstep; subst hstep
      have hjlt : s.res < w.res.length := (List.getElem?_eq_some_iff.mp hr).1
      refine ⟨?_, ?_⟩
      · intro i t ht
        have hlt : i < w.streams.length := (List.getElem?_eq_some_iff.mp ht).1
        exact ⟨t, by simp [List.getElem?_append_left hlt, ht], rfl⟩
      · intro j q hq
        have hlt : j < w.res.length := (List.getElem?_eq_some_iff.mp hq).1
        by_cases e : s.res = j
        · subst e
          rw [hr] at hq; cases hq
          refine ⟨{ r with xobj := r.xobj ++ [(XKey.x r.xobj.length, some w.streams.length)] }, ?_, xobj_add_le _ _ _⟩
          rw [List.getElem?_append_left (by simpa using hjlt)]
          simp [hjlt]
        · refine ⟨q, ?_, Res.le.refl q⟩
          rw [List.getElem?_append_left (by simpa using hlt), List.getElem?_set]
          simp [e, hq]

theorem assignSh_mono (w w' : World) (h n : Nat) (hstep : w.step (.assignSh h n) = .ok w') : Mono w w' := by
  simp only [World.step] at hstep
  split at hstep
  · simp at hstep
  · rename_i s hs
    simp at hstep; subst hstep
    have hhlt : h < w.streams.length := (List.getElem?_eq_some_iff.mp hs).1
    refine ⟨?_, fun j q hq => ⟨q, hq, Res.le.refl q⟩⟩
    intro i t ht
    by_cases e : h = i
    · subst e
      rw [hs] at ht; cases ht
      exact ⟨{ s with rops := [.sh n] }, by simp [hhlt], rfl⟩
    · exact ⟨t, by simp [List.getElem?_set, e, ht], rfl⟩

theorem setAlphaState_ok_mono (w w' : World) (h : Nat) (hw : WorldOK w)
    (hstep : w.step (.setAlphaState h) = .ok w') : WorldOK w' ∧ Mono w w' := by
  have hok := World.step_ok w w' (.setAlphaState h) hw trivial hstep
  simp only [World.step] at hstep
  split at hstep
  · simp at hstep
  · rename_i w1 hg
    exact ⟨hok, (addGroup_mono w w1 h hg).trans
      (onCall_mono w1 w' h .softMaskState (by intro s r _ _; trivial) hstep)⟩

/-- The scoping condition of a call that names shading `n`, from the shading count. -/
theorem scoped_of_count {w : World} {h n c : Nat} (hc : shadingCount w h = some c) (hlt : n < c) :
    ∀ (s : SState) (r : Res), w.streams[h]? = some s → w.res[s.res]? = some r → n < r.shading := by
  intro s r hs hr
  have := shadingCount_of hs hr
  rw [hc] at this; cases this; exact hlt

/-- The soft-mask block keeps the invariant: the group's `sh` names the shading registered in the group's own
dictionary. -/
theorem alphaStage_ok (w w' : World) (h : Nat) (sy : Num) (hw : WorldOK w)
    (hstep : alphaStage h sy w = .ok w') : WorldOK w' ∧ Mono w w' := by
  unfold alphaStage at hstep
  obtain ⟨w1, h1, hstep⟩ := thenDo_eq_ok hstep
  obtain ⟨ok1, m1⟩ := setAlphaState_ok_mono w w1 h hw h1
  split at hstep
  · simp at hstep
  · rename_i m hm
    obtain ⟨w2, h2, hstep⟩ := thenDo_eq_ok hstep
    obtain ⟨w3, h3, hstep⟩ := thenDo_eq_ok hstep
    have ok2 := World.step_ok w1 w2 (.addShading w.streams.length) ok1 trivial h2
    obtain ⟨m2, c2⟩ := addShading_mono w1 w2 _ h2
    have sc3 : (WCall.on w.streams.length (scaleCall sy)).scoped w2 := by intro s r _ _; trivial
    have ok3 := onCall_ok w2 w3 _ _ ok2 sc3 h3
    have m3 := onCall_mono w2 w3 _ _ sc3 h3
    obtain ⟨c3, hc3, hle3⟩ := m3.shading (c2 m hm)
    have ok4 := World.step_ok w3 w' (.assignSh w.streams.length m) ok3
      (scoped_of_count hc3 (by omega)) hstep
    exact ⟨ok4, m1.trans (m2.trans (m3.trans (assignSh_mono w3 w' _ _ hstep)))⟩

end Wp.Pdf
