/-
`find_earlier_page_break` in the extended model re-slices complete children, passing over placeholders
and floats: what is kept plus what the returned resume position designates is what was there, the
position is strictly later, and the resume position is well formed.
-/
import WpModel.Lemmas.OofSegment

namespace Wp.PMO
open Wp Wp.PM

def EarlierPost (bs : List OBox) (i : Nat) (sub : Option Resume) (kept : List OFrag) (r : Resume) : Prop :=
  ∃ m sub', r = .node (i + m) sub' ∧ m < bs.length ∧
    fragLinesList kept ++ linesFromKids bs m sub' = linesFromKids bs 0 sub ∧
    posKids bs 0 sub < posKids bs m sub' ∧ WfSkipKids bs m sub'

/-- First in-flow fragment of a list (`previous_in_flow` after a fruitless pass over the list). -/
def firstInFlow : List OFrag → Option OFrag
  | [] => none
  | f :: fs => if f.inFlow then some f else firstInFlow fs

theorem findEarlierPara_inFlow (ser id idx : Nat) (st : OStyle) (n : Nat) (g : Geo) (lines : List (Nat × Rat))
    (x' : OFrag) (r : Resume) (h : findEarlierPara ser id idx st n g lines = some (x', r)) :
    x'.inFlow = (st.pos == .static) := by
  unfold findEarlierPara at h
  split at h
  · cases h
  · dsimp only at h
    split at h
    · cases h
    · split at h
      · simp only [Option.some.injEq, Prod.mk.injEq] at h
        rw [← h.1]; rfl
      · cases h

theorem findEarlierFrag_inFlow (x x' : OFrag) (r : Resume) (h : findEarlierFrag x = some (x', r)) :
    x'.inFlow = x.inFlow := by
  cases x with
  | para ser id idx st n g lines =>
    simp only [findEarlierFrag] at h
    rw [findEarlierPara_inFlow _ _ _ _ _ _ _ _ _ h]; rfl
  | block ser id idx st g kids =>
    simp only [findEarlierFrag] at h
    split at h
    · simp only [Option.some.injEq, Prod.mk.injEq] at h
      rw [← h.1]; rfl
    · cases h
  | ph _ _ _ _ => simp [findEarlierFrag] at h

theorem findEarlierGo_nxt (fs : List OFrag) : (findEarlierGo fs).nxt = fs.head?.map OFrag.idx := by
  cases fs with
  | nil => simp [findEarlierGo]
  | cons x xs =>
    rw [findEarlierGo]
    dsimp only
    split
    · simp
    · split
      · simp
      · split
        · simp
        · split
          · split <;> simp
          · simp

mutual
theorem findEarlierGo_spec : (fs : List OFrag) → ∀ (bs : List OBox) (i : Nat) (sub : Option Resume),
    GoodList bs → FullFrom fs bs i sub →
    ((findEarlierGo fs).found = none → (findEarlierGo fs).prev = firstInFlow fs) ∧
    (∀ kept r, (findEarlierGo fs).found = some (kept, r) → EarlierPost bs i sub kept r)
  | [] => by
    intro bs i sub _ _
    simp [findEarlierGo, firstInFlow]
  | x :: xs => by
    intro bs i sub hg hf
    cases bs with
    | nil => simp [FullFrom] at hf
    | cons b bs' =>
      simp only [FullFrom] at hf
      obtain ⟨hxi, hxfl, hx, hxs⟩ := hf
      simp only [GoodList] at hg
      obtain ⟨hgb, hgbs⟩ := hg
      obtain ⟨ihprev, ihfound⟩ := findEarlierGo_spec xs bs' (i + 1) none hgbs hxs
      have hnxt := findEarlierGo_nxt xs
      have hhead : linesFromKids (b :: bs') 0 sub =
          (if x.inFlow then fragLines x else []) ++ linesFromKids bs' 0 none := by
        simp only [linesFromKids]
        rw [hxfl]
        cases hb : b.inFlow with
        | true => simp only [if_true]; rw [full_lines x b sub (hx hb)]
        | false => simp
      have hpos0 : posKids (b :: bs') 0 sub < (if b.inFlow then size b else 1) := by
        simp only [posKids]
        have := pos_lt_size b sub
        split <;> omega
      rw [findEarlierGo]
      dsimp only
      split
      · -- a break was found among the later siblings
        rename_i kept r hfound
        refine ⟨by simp, ?_⟩
        intro kept' r' h
        simp only [Option.some.injEq, Prod.mk.injEq] at h
        obtain ⟨rfl, rfl⟩ := h
        obtain ⟨m, sub', hr, hm, hlines, hpos, hwf⟩ := ihfound kept r hfound
        refine ⟨m + 1, sub', by rw [hr]; congr 1; omega, by simp; omega, ?_, ?_, ?_⟩
        · rw [hhead]
          simp only [fragLinesList, linesFromKids, List.append_assoc]
          rw [hlines]
        · simp only [posKids] at hpos0 ⊢
          omega
        · simpa [WfSkipKids] using hwf
      · rename_i hnone
        have hprev := ihprev hnone
        split
        · -- `x` is out of the normal flow: passed over
          rename_i hxn
          refine ⟨fun _ => ?_, by simp⟩
          simp only [firstInFlow]
          simp only [Bool.not_eq_true'] at hxn
          simp [hxn, hprev]
        · rename_i hxin
          simp only [Bool.not_eq_true', Bool.not_eq_false] at hxin
          have hbin : b.inFlow = true := by rw [← hxfl]; exact hxin
          split
          · -- break after x
            rename_i i' hba
            refine ⟨by simp, ?_⟩
            intro kept' r' h
            simp only [Option.some.injEq, Prod.mk.injEq] at h
            obtain ⟨rfl, rfl⟩ := h
            -- there is a next sibling, its index is i + 1
            have hi' : (findEarlierGo xs).nxt = some i' := by
              split at hba
              · split at hba
                · exact hba
                · cases hba
              · cases hba
            cases xs with
            | nil => simp [findEarlierGo] at hi'
            | cons p' xs' =>
              cases bs' with
              | nil => simp [FullFrom] at hxs
              | cons b1 bs'' =>
                simp only [FullFrom] at hxs
                rw [hnxt] at hi'
                simp only [List.head?_cons, Option.map_some, Option.some.injEq] at hi'
                refine ⟨1, none, by rw [← hi', hxs.1], by simp, ?_, ?_, ?_⟩
                · rw [hhead]
                  simp [fragLinesList, linesFromKids, hxin]
                · simp only [posKids] at hpos0 ⊢
                  omega
                · exact wfSkipKids_none _ _
          · split
            · split
              · -- break inside x
                rename_i x' r hfe
                refine ⟨by simp, ?_⟩
                intro kept' r' h
                simp only [Option.some.injEq, Prod.mk.injEq] at h
                obtain ⟨rfl, rfl⟩ := h
                obtain ⟨hl, hp, hw⟩ := findEarlierFrag_spec x b sub (hgb hbin) (hx hbin) x' r hfe
                have hx'in : x'.inFlow = true := by rw [findEarlierFrag_inFlow x x' r hfe]; exact hxin
                refine ⟨0, some r, by rw [hxi]; rfl, by simp, ?_, ?_, ?_⟩
                · have hcl : fragLines x'.cutEnd = fragLines x' := by cases x' <;> rfl
                  have hci : x'.cutEnd.inFlow = x'.inFlow := by cases x' <;> rfl
                  simp only [fragLinesList, linesFromKids, List.append_nil, hci, hcl, hx'in, hbin, if_true]
                  rw [← List.append_assoc, hl]
                · simpa only [posKids, hbin, if_true] using hp
                · simpa only [WfSkipKids, hbin, if_true] using hw
              · exact ⟨by simp [firstInFlow, hxin], by simp⟩
            · exact ⟨by simp [firstInFlow, hxin], by simp⟩
theorem findEarlierFrag_spec : (x : OFrag) → ∀ (b : OBox) (σ : Option Resume), Good b → Full x b σ →
    ∀ x' r, findEarlierFrag x = some (x', r) →
    fragLines x' ++ linesFrom b (some r) = linesFrom b σ ∧ pos b σ < pos b (some r) ∧ WfSkip b (some r)
  | .para ser id idx st n g lines => by
    intro b σ hg hf x' r h
    cases b with
    | block _ _ _ => simp [Full] at hf
    | para id' n' lh st' =>
      simp only [Full] at hf
      obtain ⟨rfl, rfl, rfl, hl⟩ := hf
      simp only [Good] at hg
      simp only [findEarlierFrag] at h
      obtain ⟨m, kept, hm1, hmn, rfl, rfl, hk⟩ :=
        findEarlierPara_spec ser id idx st n g lines (paraStart σ) x' r hg.2.1 hg.2.2 hl h
      refine ⟨?_, ?_, by simp [WfSkip]⟩
      · simp only [fragLines, linesFrom]
        have : paraStart (some (Resume.node 0 (some (Resume.line (paraStart σ + m))))) = paraStart σ + m := rfl
        rw [this, ← paraLines_split id (paraStart σ) m n (by omega), ← hk, List.map_map]
        rfl
      · simp only [pos]
        have : paraStart (some (Resume.node 0 (some (Resume.line (paraStart σ + m))))) = paraStart σ + m := rfl
        rw [this]
        omega
  | .block ser id idx st g kids => by
    intro b σ hg hf x' r h
    cases b with
    | para _ _ _ _ => simp [Full] at hf
    | block id' st' bkids =>
      simp only [Full] at hf
      simp only [Good] at hg
      simp only [findEarlierFrag] at h
      split at h
      · rename_i kids' r0 hfound
        simp only [Option.some.injEq, Prod.mk.injEq] at h
        obtain ⟨rfl, rfl⟩ := h
        have hgd : GoodList (bkids.drop (skipIdxOf σ)) := goodList_drop bkids _ hg.2
        obtain ⟨m, sub', rfl, hm, hlines, hpos, hwf⟩ :=
          (findEarlierGo_spec kids _ _ _ hgd hf).2 kids' r0 hfound
        refine ⟨?_, ?_, ?_⟩
        · simp only [fragLines, linesFrom, skipIdxOf_node, subSkipOf_node]
          rw [linesFromKids_drop, hlines]
          have := linesFromKids_drop bkids (skipIdxOf σ) 0 (subSkipOf σ)
          simpa using this.symm
        · simp only [pos, skipIdxOf_node, subSkipOf_node]
          rw [posKids_drop]
          have := posKids_drop bkids (skipIdxOf σ) 0 (subSkipOf σ)
          simp only [Nat.add_zero] at this
          rw [this]
          omega
        · simp only [WfSkip, skipIdxOf_node, subSkipOf_node]
          exact (wfSkipKids_drop bkids (skipIdxOf σ) m sub').mpr hwf
      · cases h
  | .ph _ _ _ _ => by
    intro b σ _ hf
    simp [Full] at hf
end

end Wp.PMO
