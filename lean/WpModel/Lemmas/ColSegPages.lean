/-
Port of `Lemmas/SegmentPages.lean`: from `layoutBox` to pages (`remakePage`, `makeAllPages`) for stage 2c.
-/
import WpModel.Lemmas.ColSegBlock

namespace Wp.PMC
open Wp Wp.PM

theorem boxPost_lines (box : ColBox) (skip : Option Resume) (frag : Option CFrag) (resume : Option Resume)
    (f : CFrag) (h : BoxPost box skip frag resume) (hf : frag = some f) :
    fragLines f ++ restOut box resume = linesFrom box skip := by
  have := h f hf
  cases resume with
  | none =>
    simp only at this
    simp [restOut, full_lines _ _ _ this]
  | some r => exact this.1

theorem boxPost_progress (box : ColBox) (skip : Option Resume) (frag : Option CFrag) (r : Resume)
    (f : CFrag) (h : BoxPost box skip frag (some r)) (hf : frag = some f) :
    pos box skip < pos box (some r) := (h f hf).2

/-! ### blank pages lay out an emptied root -/

theorem good_emptyRoot (b : ColBox) (h : Good b) : Good (emptyRoot b) := by
  cases b with
  | para id n lh st => simpa [emptyRoot, Good] using h
  | block id st kids =>
    simp only [Good] at h
    simp [emptyRoot, Good, GoodList, h.1]
  | columns id st cs flags kids =>
    simp [emptyRoot, Good, GoodList]

theorem linesFrom_emptyRoot (b : ColBox) (σ : Option Resume) : linesFrom (emptyRoot b) σ = [] := by
  cases b with
  | para id n lh st => simp [emptyRoot, linesFrom, paraLines]
  | block id st kids => simp [emptyRoot, linesFrom, linesFromKids]
  | columns id st cs flags kids => simp [emptyRoot, linesFrom, linesFromKids]

/-- What `remake_page` does, read off its definition. -/
theorem remakePage_spec (d : CDoc) (index : Nat) (resume : Option Resume) (np : NextPage) (right : Bool)
    (p : CPage) (hp : remakePage d index resume np right = .ok p) :
    p.type.blank = isBlank (requestedSide d.rootLtr np.brk) right ∧
    (p.type.blank = true → p.resume = resume ∧ p.nextPage = np ∧
      ∃ c, (layoutBox c (emptyRoot d.root) 0 0 0 resume false true []).frag = some p.root) ∧
    (p.type.blank = false →
      ∃ c, (layoutBox c d.root 0 0 0 resume false true []).frag = some p.root ∧
        p.resume = (layoutBox c d.root 0 0 0 resume false true []).resume) := by
  unfold remakePage at hp
  dsimp only at hp
  split at hp
  · cases hp
  · split at hp
    · cases hp
    · rename_i f hfrag
      simp only [PageOut.ok.injEq] at hp
      subst hp
      refine ⟨rfl, ?_, ?_⟩
      · intro hb
        simp only at hb
        simp only [hb, ↓reduceIte] at hfrag ⊢
        exact ⟨trivial, trivial, _, hfrag⟩
      · intro hb
        simp only at hb
        simp only [hb, Bool.false_eq_true, ↓reduceIte] at hfrag ⊢
        exact ⟨_, hfrag, rfl⟩

/-- Lines and position of one page. -/
theorem remakePage_lines (d : CDoc) (hg : Good d.root) (index : Nat) (resume : Option Resume) (np : NextPage)
    (right : Bool) (p : CPage) (hp : remakePage d index resume np right = .ok p) :
    (p.type.blank = true → fragLines p.root = [] ∧ p.resume = resume ∧ p.nextPage = np) ∧
    (p.type.blank = false →
      fragLines p.root ++ restOut d.root p.resume = linesFrom d.root resume ∧
      ∀ r, p.resume = some r → pos d.root resume < pos d.root (some r)) := by
  obtain ⟨_, h1, h2⟩ := remakePage_spec d index resume np right p hp
  constructor
  · intro hb
    obtain ⟨hr, hn, c, hf⟩ := h1 hb
    refine ⟨?_, hr, hn⟩
    have hs := box_spec (emptyRoot d.root) (good_emptyRoot _ hg) c 0 0 0 resume false true []
    have := boxPost_lines _ _ _ _ _ hs hf
    rw [linesFrom_emptyRoot] at this
    exact (List.append_eq_nil_iff.mp this).1
  · intro hb
    obtain ⟨c, hf, hr⟩ := h2 hb
    have hs := box_spec d.root hg c 0 0 0 resume false true []
    rw [hr]
    refine ⟨boxPost_lines _ _ _ _ _ hs hf, ?_⟩
    intro r hr'
    rw [hr'] at hs
    exact boxPost_progress _ _ _ _ _ hs hf

/-- All lines shown by a list of pages, in order. -/
def pagesLines : List CPage → List (Nat × Nat)
  | [] => []
  | p :: ps => fragLines p.root ++ pagesLines ps

theorem makeAllPages_lines (d : CDoc) (hg : Good d.root) : ∀ (fuel index : Nat) (resume : Option Resume)
    (np : NextPage) (right : Bool) (pages : List CPage),
    (resume = none → isBlank (requestedSide d.rootLtr np.brk) right = false) →
    makeAllPages d fuel index resume np right = .ok pages →
    pagesLines pages = linesFrom d.root resume := by
  intro fuel
  induction fuel with
  | zero => intro index resume np right pages _ h; simp [makeAllPages] at h
  | succ fuel ih =>
    intro index resume np right pages hstart h
    unfold makeAllPages at h
    split at h
    · cases h
    · cases h
    · rename_i p hp
      obtain ⟨hbl, hb1, _⟩ := remakePage_spec d index resume np right p hp
      obtain ⟨l1, l2⟩ := remakePage_lines d hg index resume np right p hp
      cases hb : p.type.blank with
      | true =>
        obtain ⟨hl, hr, hn⟩ := l1 hb
        have hrs : resume ≠ none := by
          intro he
          have := hstart he
          rw [← hbl, hb] at this
          cases this
        split at h
        · rename_i hnone; rw [hr] at hnone; exact absurd hnone hrs
        · rename_i r hsome
          split at h
          · rename_i ps hps
            simp only [PagesOut.ok.injEq] at h
            subst h
            simp only [pagesLines, hl, List.nil_append]
            rw [hr] at hps
            rw [ih (index + 1) resume p.nextPage (!right) ps (fun he => absurd he hrs) hps]
          · rename_i hne
            exact absurd h (hne pages)
      | false =>
        obtain ⟨hl, _⟩ := l2 hb
        split at h
        · rename_i hnone
          simp only [PagesOut.ok.injEq] at h
          subst h
          rw [hnone] at hl
          simpa [pagesLines, restOut] using hl
        · rename_i r hsome
          split at h
          · rename_i ps hps
            simp only [PagesOut.ok.injEq] at h
            subst h
            simp only [pagesLines]
            rw [ih (index + 1) p.resume p.nextPage (!right) ps (by rw [hsome]; intro he; cases he) hps]
            rw [hsome] at hl ⊢
            exact hl
          · rename_i hne
            exact absurd h (hne pages)

end Wp.PMC
