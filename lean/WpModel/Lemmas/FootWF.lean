/-
Well-formedness of a footnote document as the user states it (unique paragraph ids, calls on existing lines in
line order, no `footnote-policy: block`, stage-1 `NoFixedHeight` / `WellFormed`) implies the bundled `FootOk` that
the conservation proof uses; with calls in line order, the footnotes of all lines are the calls in call order.
-/
import WpModel.Lemmas.FootConservePages

namespace Wp.PMF
open Wp Wp.PM

mutual
/-- Ids of the paragraphs of a subtree. -/
def paraIds : FootBox → List Nat
  | .para id _ _ _ _ => [id]
  | .block _ _ kids => paraIdsList kids
def paraIdsList : List FootBox → List Nat
  | [] => []
  | b :: bs => paraIds b ++ paraIdsList bs
end

/-- Paragraph ids are unique (what the harness guarantees: ids are a running counter). -/
def UniqueParaIds (b : FootBox) : Prop := (paraIds b).Nodup

mutual
/-- Every call is on an existing line and calls are written in line order. -/
def CallsOk : FootBox → Prop
  | .para _ n _ _ calls => (∀ c ∈ calls, c.line < n) ∧ calls.Pairwise (fun a b => a.line ≤ b.line)
  | .block _ _ kids => CallsOkList kids
def CallsOkList : List FootBox → Prop
  | [] => True
  | b :: bs => CallsOk b ∧ CallsOkList bs
end

mutual
theorem callTable_ids : (b : FootBox) → ∀ e ∈ callTable b, e.1 ∈ paraIds b
  | .para id _ _ _ calls => by
    intro e he
    simp only [callTable, List.mem_map] at he
    obtain ⟨c, _, rfl⟩ := he
    simp [paraIds]
  | .block _ _ kids => by
    intro e he
    simp only [callTable] at he
    simp only [paraIds]
    exact callTableList_ids kids e he
theorem callTableList_ids : (bs : List FootBox) → ∀ e ∈ callTableList bs, e.1 ∈ paraIdsList bs
  | [] => by intro e he; simp [callTableList] at he
  | b :: bs => by
    intro e he
    simp only [callTableList, List.mem_append] at he
    simp only [paraIdsList, List.mem_append]
    rcases he with h | h
    · exact Or.inl (callTable_ids b e h)
    · exact Or.inr (callTableList_ids bs e h)
end

theorem tblFns_single (tbl : List (Nat × Nat × Fn)) (id i : Nat) :
    tblFns tbl [(id, i)] = (tbl.filter (fun e => e.1 == id && e.2.1 == i)).map (fun e => e.2.2) := by
  simp [tblFns]

theorem tblFns_single_notin (tbl : List (Nat × Nat × Fn)) (id i : Nat) (h : ∀ e ∈ tbl, e.1 ≠ id) :
    tblFns tbl [(id, i)] = [] := by
  rw [tblFns_single]
  simp only [List.map_eq_nil_iff, List.filter_eq_nil_iff]
  intro e he
  simp [h e he]

theorem tblFns_single_append (a b : List (Nat × Nat × Fn)) (id i : Nat) :
    tblFns (a ++ b) [(id, i)] = tblFns a [(id, i)] ++ tblFns b [(id, i)] := by
  simp [tblFns_single, List.filter_append]

theorem tblFns_single_para (id n : Nat) (lineH : Rat) (st : PStyle) (calls : List Call) (i : Nat) :
    tblFns (callTable (.para id n lineH st calls)) [(id, i)] = lineFns st calls i := by
  rw [tblFns_single]
  simp only [callTable, lineFns]
  induction calls with
  | nil => rfl
  | cons c cs ih =>
    simp only [List.map_cons, List.filter_cons, beq_self_eq_true, Bool.true_and]
    split <;> simp [ih]

mutual
theorem footOk_of (pre post : List (Nat × Nat × Fn)) : (b : FootBox) → NoFixedHeight b.erase → WellFormed b.erase →
    CallsOk b → (paraIds b).Nodup → (∀ e ∈ pre ++ post, e.1 ∉ paraIds b) →
    FootOk (pre ++ callTable b ++ post) b
  | .para id n lineH st calls => by
    intro hN hW hC _ hctx
    simp only [FootBox.erase, NoFixedHeight] at hN
    simp only [FootBox.erase, WellFormed] at hW
    simp only [CallsOk] at hC
    simp only [FootOk]
    refine ⟨hN, hW.1, hW.2, fun c hc => hC.1 c hc, ?_⟩
    intro i
    rw [tblFns_single_append, tblFns_single_append, tblFns_single_para]
    have h1 : tblFns pre [(id, i)] = [] := by
      apply tblFns_single_notin
      intro e he heq
      exact hctx e (by simp [he]) (by simp [paraIds, heq])
    have h2 : tblFns post [(id, i)] = [] := by
      apply tblFns_single_notin
      intro e he heq
      exact hctx e (by simp [he]) (by simp [paraIds, heq])
    simp [h1, h2]
  | .block id st kids => by
    intro hN hW hC hU hctx
    simp only [FootBox.erase, NoFixedHeight] at hN
    simp only [FootBox.erase, WellFormed] at hW
    simp only [CallsOk] at hC
    simp only [paraIds] at hU hctx
    simp only [FootOk, callTable]
    exact ⟨hN.1, footOkList_of pre post kids hN.2 hW hC hU hctx⟩
theorem footOkList_of (pre post : List (Nat × Nat × Fn)) : (bs : List FootBox) → NoFixedHeightList (eraseList bs) →
    WellFormedList (eraseList bs) → CallsOkList bs → (paraIdsList bs).Nodup →
    (∀ e ∈ pre ++ post, e.1 ∉ paraIdsList bs) → FootOkList (pre ++ callTableList bs ++ post) bs
  | [] => by intro _ _ _ _ _; simp [FootOkList]
  | b :: bs => by
    intro hN hW hC hU hctx
    simp only [eraseList, NoFixedHeightList] at hN
    simp only [eraseList, WellFormedList] at hW
    simp only [CallsOkList] at hC
    simp only [paraIdsList] at hU hctx
    rw [List.nodup_append] at hU
    simp only [FootOkList, callTableList]
    constructor
    · have e1 : pre ++ (callTable b ++ callTableList bs) ++ post = pre ++ callTable b ++ (callTableList bs ++ post) := by
        simp
      rw [e1]
      apply footOk_of pre (callTableList bs ++ post) b hN.1 hW.1 hC.1 hU.1
      intro e he hin
      simp only [List.mem_append] at he
      rcases he with h | h | h
      · exact hctx e (by simp [h]) (by simp [hin])
      · exact hU.2.2 e.1 hin e.1 (callTableList_ids bs e h) rfl
      · exact hctx e (by simp [h]) (by simp [hin])
    · have e2 : pre ++ (callTable b ++ callTableList bs) ++ post = (pre ++ callTable b) ++ callTableList bs ++ post := by
        simp
      rw [e2]
      apply footOkList_of (pre ++ callTable b) post bs hN.2 hW.2 hC.2 hU.2.1
      intro e he hin
      simp only [List.mem_append] at he
      rcases he with (h | h) | h
      · exact hctx e (by simp [h]) (by simp [hin])
      · exact hU.2.2 e.1 (callTable_ids b e h) e.1 hin rfl
      · exact hctx e (by simp [h]) (by simp [hin])
end

/-- The bundled hypothesis of the conservation proof, from what a user can check on the document. -/
theorem footOk_root (b : FootBox) (hN : NoFixedHeight b.erase) (hW : WellFormed b.erase)
    (hC : CallsOk b) (hU : UniqueParaIds b) : FootOk (callTable b) b := by
  have := footOk_of [] [] b hN hW hC hU (by simp)
  simpa using this

/-! ### calls in line order -/

theorem sorted_split (calls : List Call) (a : Nat) (hs : calls.Pairwise (fun x y => x.line ≤ y.line))
    (hge : ∀ c ∈ calls, a ≤ c.line) :
    calls = calls.filter (fun c => c.line == a) ++ calls.filter (fun c => !(c.line == a)) := by
  induction calls with
  | nil => rfl
  | cons c cs ih =>
    rw [List.pairwise_cons] at hs
    by_cases hc : c.line = a
    · have := ih hs.2 (fun x hx => hge x (by simp [hx]))
      simp only [List.filter_cons, hc, beq_self_eq_true, ↓reduceIte, Bool.not_true, Bool.false_eq_true,
        List.cons_append]
      rw [← this]
    · have hgt : a < c.line := by
        have := hge c (by simp)
        omega
      have hnone : (c :: cs).filter (fun x => x.line == a) = [] := by
        rw [List.filter_eq_nil_iff]
        intro x hx
        simp only [List.mem_cons] at hx
        rcases hx with rfl | hx
        · simp [hc]
        · have := hs.1 x hx
          simp only [beq_iff_eq]
          omega
      have hall : (c :: cs).filter (fun x => !(x.line == a)) = c :: cs := by
        rw [List.filter_eq_self]
        intro x hx
        simp only [List.mem_cons] at hx
        rcases hx with rfl | hx
        · simp [hc]
        · have := hs.1 x hx
          simp only [Bool.not_eq_true', beq_eq_false_iff_ne, ne_eq]
          omega
      rw [hnone, hall, List.nil_append]

theorem idxFns_congr (st : PStyle) (c1 c2 : List Call) (is : List Nat)
    (h : ∀ i ∈ is, lineFns st c1 i = lineFns st c2 i) : idxFns st c1 is = idxFns st c2 is := by
  induction is with
  | nil => rfl
  | cons i is ih =>
    simp only [idxFns]
    rw [h i (by simp), ih (fun j hj => h j (by simp [hj]))]

theorem idxFns_sorted (st : PStyle) : ∀ (n a : Nat) (calls : List Call),
    calls.Pairwise (fun x y => x.line ≤ y.line) → (∀ c ∈ calls, a ≤ c.line ∧ c.line < a + n) →
    idxFns st calls (List.range' a n) = calls.map (mkFn st) := by
  intro n
  induction n with
  | zero =>
    intro a calls _ hr
    cases calls with
    | nil => rfl
    | cons c cs => have := hr c (by simp); omega
  | succ n ih =>
    intro a calls hs hr
    rw [List.range'_succ]
    simp only [idxFns]
    have hsplit := sorted_split calls a hs (fun c hc => (hr c hc).1)
    have h1 : lineFns st calls a = (calls.filter (fun c => c.line == a)).map (mkFn st) := rfl
    have h2 : idxFns st calls (List.range' (a + 1) n) =
        idxFns st (calls.filter (fun c => !(c.line == a))) (List.range' (a + 1) n) := by
      apply idxFns_congr
      intro i hi
      simp only [List.mem_range'_1] at hi
      simp only [lineFns, List.filter_filter]
      congr 1
      apply List.filter_congr
      intro c _
      by_cases hci : c.line = i
      · simp [hci]
        omega
      · simp [hci]
    rw [h1, h2, ih (a + 1) (calls.filter (fun c => !(c.line == a))) (hs.sublist List.filter_sublist) (by
      intro c hc
      simp only [List.mem_filter, Bool.not_eq_true', beq_eq_false_iff_ne, ne_eq] at hc
      have := hr c hc.1
      omega)]
    rw [← List.map_append, ← hsplit]

mutual
/-- With calls written in line order, the footnotes of the lines of a subtree, in line order, are its calls in
call order. -/
theorem tblFns_all (tbl : List (Nat × Nat × Fn)) : (b : FootBox) → FootOk tbl b → CallsOk b →
    tblFns tbl (linesFrom b.erase none) = boxFns b
  | .para id n lineH st calls => by
    intro hok hC
    simp only [FootOk] at hok
    simp only [CallsOk] at hC
    simp only [FootBox.erase, boxFns]
    rw [linesFrom_para_none, tblFns_para tbl id st calls hok.2.2.2.2]
    exact idxFns_sorted st n 0 calls hC.2 (fun c hc => ⟨Nat.zero_le _, by simpa using hC.1 c hc⟩)
  | .block id st kids => by
    intro hok hC
    simp only [FootOk] at hok
    simp only [CallsOk] at hC
    simp only [FootBox.erase, boxFns, linesFrom, skipIdxOf_none, subSkipOf_none]
    exact tblFnsList_all tbl kids hok.2 hC
theorem tblFnsList_all (tbl : List (Nat × Nat × Fn)) : (bs : List FootBox) → FootOkList tbl bs → CallsOkList bs →
    tblFns tbl (linesFromKids (eraseList bs) 0 none) = boxFnsList bs
  | [] => by intro _ _; simp [eraseList, linesFromKids, tblFns, boxFnsList]
  | b :: bs => by
    intro hok hC
    simp only [FootOkList] at hok
    simp only [CallsOkList] at hC
    simp only [eraseList, linesFromKids, tblFns_append, boxFnsList]
    rw [tblFns_all tbl b hok.1 hC.1, tblFnsList_all tbl bs hok.2 hC.2]
end

end Wp.PMF
