/-
C17 helper development (no Mathlib): from a grammar on the *laid-out* box tree to the well-formedness
of what the dispatcher builds, and from the backgrounds due on the box tree to `expBg` of the built
structure.  Together with `PaintOnce.lean`: paint-once for whole pages.
-/
import WpModel.Lemmas.PaintOnce

set_option linter.unusedSimpArgs false
set_option linter.unusedVariables false

namespace Wp.Stacking
open Wp Wp.Gen

/-! ### `wfCtxL` is a `∀ ∈` -/

theorem wfCtxL_iff (l : List Node) : wfCtxL l ↔ ∀ n ∈ l, wfCtx n := by
  induction l with
  | nil => simp [wfCtxL]
  | cons x xs ih => simp [wfCtxL, ih]

theorem wfCtxL_nil : wfCtxL [] := by simp [wfCtxL]

theorem wfCtxL_append {l m : List Node} (h1 : wfCtxL l) (h2 : wfCtxL m) : wfCtxL (l ++ m) := by
  rw [wfCtxL_iff] at *
  intro n hn
  rcases List.mem_append.mp hn with h | h
  · exact h1 n h
  · exact h2 n h

theorem wfCtxL_filter {l : List Node} (p : Node → Bool) (h : wfCtxL l) : wfCtxL (l.filter p) := by
  rw [wfCtxL_iff] at *
  intro n hn
  exact h n (List.mem_filter.mp hn).1

theorem wfCtxL_sortZ {l : List Node} (h : wfCtxL l) : wfCtxL (sortZ l) := by
  rw [wfCtxL_iff] at *
  intro n hn
  exact h n ((sortZ_perm l).mem_iff.mp hn)

theorem wfInlineL_append {l m : List Node} (h1 : wfInlineL l) (h2 : wfInlineL m) : wfInlineL (l ++ m) := by
  induction l with
  | nil => simpa using h2
  | cons x xs ih =>
    rw [wfInlineL] at h1
    rw [List.cons_append, wfInlineL]
    exact ⟨h1.1, ih h1.2⟩

/-- The body condition shared by every context root (Node level). -/
def bodyOK (a : Attrs) (ks : List Node) : Prop :=
  (a.kind.drawInline = true ∧ lastIsLine ks = false ∧ wfInlineL ks) ∨
  (a.kind.drawInline = false ∧
    ((wfFlowL ks ∧ lastIsLine ks = false) ∨ (lastIsLine ks = true ∧ wfInlineL ks)))

/-- `__init__` around a parent box builds a well-formed context from well-formed parts. -/
theorem wfCtx_mkCtx_node (a : Attrs) (ks own blocks floats bc : List Node)
    (hroot : rootPainted a) (hr : a.kind.drawReplaced = false)
    (hb : blocks = (Node.regionL ks).filter Node.isBlockLevel)
    (hc : bc = (Node.regionL ks).filter Node.isBlockOrCell)
    (hown : wfCtxL own) (hfl : wfCtxL floats) (hbody : bodyOK a ks) :
    wfCtx (mkCtx (.node a ks) own blocks floats bc) := by
  simp only [mkCtx, splitZ_eq, wfCtx]
  exact ⟨hroot, hr, hb, hc, wfCtxL_sortZ (wfCtxL_filter _ hown), wfCtxL_filter _ hown,
    wfCtxL_sortZ (wfCtxL_filter _ hown), hfl, hbody⟩

theorem wfCtx_mkCtx_leaf (a : Attrs) (own : List Node) (hroot : rootPainted a) (hown : wfCtxL own) :
    wfCtx (mkCtx (.leaf a) own [] [] []) := by
  simp only [mkCtx, splitZ_eq, wfCtx]
  exact ⟨hroot, trivial, trivial, wfCtxL_sortZ (wfCtxL_filter _ hown), wfCtxL_filter _ hown,
    wfCtxL_sortZ (wfCtxL_filter _ hown), wfCtxL_nil⟩

/-! ### The grammar on laid-out boxes -/

/-- The box leaves the normal tree (`_dispatch` branches 1–3). -/
def leavesTree (a : Attrs) : Bool := definesContext a || a.positioned || a.floated

mutual
/-- A box standing in a line or an inline box. -/
def gInline : Box → Prop
  | .ph b => gInline b
  | .leaf a =>
    if leavesTree a || a.kind.dispStackingClass then
      rootPainted a ∧ (leavesTree a = false → a.kind.dilAllowed = true)
    else a.kind.dispBlockLevel = false ∧ a.kind.dispCell = false ∧
      (a.kind.dilTextChild = true → bgOf a = [])
  | .node a kids =>
    if leavesTree a || a.kind.dispStackingClass then
      rootPainted a ∧ (leavesTree a = false → a.kind.dilAllowed = true) ∧ a.kind.drawReplaced = false ∧
      ((a.kind.drawInline = true ∧ lastIsLine (listS kids).1 = false ∧ gInlineL kids) ∨
       (a.kind.drawInline = false ∧
         ((gFlowL kids ∧ lastIsLine (listS kids).1 = false) ∨
          (lastIsLine (listS kids).1 = true ∧ gInlineL kids))))
    else a.kind.dispBlockLevel = false ∧ a.kind.dispCell = false ∧ a.kind.dilInlineOrLine = true ∧
      a.kind.dilTextChild = false ∧ gInlineL kids
def gInlineL : List Box → Prop
  | [] => True
  | b :: bs => gInline b ∧ gInlineL bs
/-- A box standing in a block container (or flex / grid container) children list. -/
def gFlow : Box → Prop
  | .ph b => gFlow b
  | .leaf a =>
    if leavesTree a then rootPainted a
    else a.kind.dispStackingClass = false ∧ a.kind.dispBlockLevel = true ∧ a.kind.drawTable = false
  | .node a kids =>
    if leavesTree a then
      rootPainted a ∧ a.kind.drawReplaced = false ∧
      ((a.kind.drawInline = true ∧ lastIsLine (listS kids).1 = false ∧ gInlineL kids) ∨
       (a.kind.drawInline = false ∧
         ((gFlowL kids ∧ lastIsLine (listS kids).1 = false) ∨
          (lastIsLine (listS kids).1 = true ∧ gInlineL kids))))
    else a.kind.dispStackingClass = false ∧ a.kind.dispBlockLevel = true ∧ a.kind.drawTable = false ∧
      a.kind.drawReplaced = false ∧
      ((gFlowL kids ∧ lastIsLine (listS kids).1 = false) ∨
       (lastIsLine (listS kids).1 = true ∧ gInlineL kids))
def gFlowL : List Box → Prop
  | [] => True
  | b :: bs => gFlow b ∧ gFlowL bs
end

/-- What the grammar gives about one `_dispatch` result. -/
structure TransferL (l : List Box) : Prop where
  inl : gInlineL l → wfInlineL (listS l).1 ∧ wfCtxL (listS l).2.cc ∧ wfCtxL (listS l).2.floats
  flow : gFlowL l → wfFlowL (listS l).1 ∧ wfCtxL (listS l).2.cc ∧ wfCtxL (listS l).2.floats

def optWfInline : Option Node → Prop
  | none => True
  | some n => wfInline n

def optWfFlow : Option Node → Prop
  | none => True
  | some n => wfFlow n

structure Transfer (b : Box) : Prop where
  inl : gInline b → optWfInline (dispatchS b).1 ∧ wfCtxL (dispatchS b).2.cc ∧ wfCtxL (dispatchS b).2.floats
  flow : gFlow b → optWfFlow (dispatchS b).1 ∧ wfCtxL (dispatchS b).2.cc ∧ wfCtxL (dispatchS b).2.floats

/-- The unit branches of `_dispatch` on a parent box whose context is well-formed. -/
theorem transfer_unit (a : Attrs) (self : Node) (inner : Delta)
    (hu : (leavesTree a || a.kind.dispStackingClass) = true)
    (hallowed : leavesTree a = false → ctxAllowed self = true)
    (hw : ∀ own, wfCtxL own → wfCtx (mkCtx self own inner.blocks inner.floats inner.bc))
    (hcc : wfCtxL inner.cc) :
    optWfInline (coreS a self inner).1 ∧ wfCtxL (coreS a self inner).2.cc ∧
      wfCtxL (coreS a self inner).2.floats ∧
    (leavesTree a = true → (coreS a self inner).1 = none) := by
  unfold coreS
  have hnil := hw [] wfCtxL_nil
  by_cases h1 : definesContext a = true
  · simp [h1, optWfInline, wfCtxL, hw _ hcc]
  · by_cases h2 : a.positioned = true
    · simp [h1, h2, optWfInline, wfCtxL, hnil, hcc]
    · by_cases h3 : a.floated = true
      · simp [h1, h2, h3, optWfInline, wfCtxL, hnil, hcc]
      · have hl : leavesTree a = false := by simp [leavesTree, h1, h2, h3]
        have h4 : a.kind.dispStackingClass = true := by simpa [hl] using hu
        have hallow := hallowed hl
        simp only [h1, h2, h3, h4, Bool.false_eq_true, ↓reduceIte, optWfInline, hl, false_implies,
          and_true, wfCtxL, hcc]
        simp only [mkCtx] at hnil ⊢
        rw [wfInline]
        exact ⟨hallow, hnil⟩

/-- The plain branch of `_dispatch`. -/
theorem coreS_plain (a : Attrs) (self : Node) (inner : Delta) (hl : leavesTree a = false)
    (hs : a.kind.dispStackingClass = false) :
    (coreS a self inner).1 = some self ∧ (coreS a self inner).2.cc = inner.cc ∧
    (coreS a self inner).2.floats = inner.floats := by
  simp only [leavesTree, Bool.or_eq_false_iff] at hl
  simp [coreS, hl.1.1, hl.1.2, hl.2, hs]

/-- From the body condition on laid-out children to the one on dispatched children. -/
theorem body_transfer (a : Attrs) (kids : List Box) (ih : TransferL kids)
    (h : (a.kind.drawInline = true ∧ lastIsLine (listS kids).1 = false ∧ gInlineL kids) ∨
         (a.kind.drawInline = false ∧
           ((gFlowL kids ∧ lastIsLine (listS kids).1 = false) ∨
            (lastIsLine (listS kids).1 = true ∧ gInlineL kids)))) :
    bodyOK a (listS kids).1 ∧ wfCtxL (listS kids).2.cc ∧ wfCtxL (listS kids).2.floats := by
  rcases h with ⟨h6, hl, hk⟩ | ⟨h6, ⟨hk, hl⟩ | ⟨hl, hk⟩⟩
  · obtain ⟨w, c, f⟩ := ih.inl hk
    exact ⟨Or.inl ⟨h6, hl, w⟩, c, f⟩
  · obtain ⟨w, c, f⟩ := ih.flow hk
    exact ⟨Or.inr ⟨h6, Or.inl ⟨w, hl⟩⟩, c, f⟩
  · obtain ⟨w, c, f⟩ := ih.inl hk
    exact ⟨Or.inr ⟨h6, Or.inr ⟨hl, w⟩⟩, c, f⟩

theorem flow_body_transfer (kids : List Box) (ih : TransferL kids)
    (h : (gFlowL kids ∧ lastIsLine (listS kids).1 = false) ∨
         (lastIsLine (listS kids).1 = true ∧ gInlineL kids)) :
    ((wfFlowL (listS kids).1 ∧ lastIsLine (listS kids).1 = false) ∨
      (lastIsLine (listS kids).1 = true ∧ wfInlineL (listS kids).1)) ∧
    wfCtxL (listS kids).2.cc ∧ wfCtxL (listS kids).2.floats := by
  rcases h with ⟨hk, hl⟩ | ⟨hl, hk⟩
  · obtain ⟨w, c, f⟩ := ih.flow hk
    exact ⟨Or.inl ⟨w, hl⟩, c, f⟩
  · obtain ⟨w, c, f⟩ := ih.inl hk
    exact ⟨Or.inr ⟨hl, w⟩, c, f⟩

mutual
theorem transfer_box : ∀ (b : Box), Transfer b
  | .ph b => by
    have ih := transfer_box b
    refine ⟨?_, ?_⟩
    · intro h; rw [gInline] at h; rw [dispatchS]; exact ih.inl h
    · intro h; rw [gFlow] at h; rw [dispatchS]; exact ih.flow h
  | .leaf a => by
    refine ⟨?_, ?_⟩
    · intro h
      rw [gInline] at h
      rw [dispatchS]
      by_cases hu : (leavesTree a || a.kind.dispStackingClass) = true
      · simp only [hu, ↓reduceIte] at h
        obtain ⟨r1, r2, r3, _⟩ := transfer_unit a (.leaf a) {} hu
          (fun hl => by simpa [ctxAllowed, Node.attrs?] using h.2 hl)
          (fun own ho => wfCtx_mkCtx_leaf a own h.1 ho) wfCtxL_nil
        exact ⟨r1, r2, r3⟩
      · simp only [hu, Bool.false_eq_true, ↓reduceIte] at h
        simp only [Bool.or_eq_true, not_or, Bool.not_eq_true] at hu
        obtain ⟨e1, e2, e3⟩ := coreS_plain a (.leaf a) {} hu.1 hu.2
        rw [e1, e2, e3]
        refine ⟨?_, wfCtxL_nil, wfCtxL_nil⟩
        simp only [optWfInline, wfInline]
        exact h
    · intro h
      rw [gFlow] at h
      rw [dispatchS]
      by_cases hu : leavesTree a = true
      · simp only [hu, ↓reduceIte] at h
        obtain ⟨_, r2, r3, r4⟩ := transfer_unit a (.leaf a) {} (by simp [hu])
          (fun hl => by rw [hu] at hl; cases hl)
          (fun own ho => wfCtx_mkCtx_leaf a own h ho) wfCtxL_nil
        rw [r4 hu]
        exact ⟨trivial, r2, r3⟩
      · simp only [hu, Bool.false_eq_true, ↓reduceIte] at h
        simp only [Bool.not_eq_true] at hu
        obtain ⟨e1, e2, e3⟩ := coreS_plain a (.leaf a) {} hu h.1
        rw [e1, e2, e3]
        refine ⟨?_, wfCtxL_nil, wfCtxL_nil⟩
        simp only [optWfFlow, wfFlow]
        exact ⟨h.2.1, h.2.2⟩
  | .node a kids => by
    have ih := transfer_list kids
    have hcoh := blocks_listS kids
    refine ⟨?_, ?_⟩
    · intro h
      rw [gInline] at h
      rw [dispatchS]
      by_cases hu : (leavesTree a || a.kind.dispStackingClass) = true
      · simp only [hu, ↓reduceIte] at h
        obtain ⟨hroot, hallow, hr, hbody⟩ := h
        obtain ⟨hb, hc, hf⟩ := body_transfer a kids ih hbody
        obtain ⟨r1, r2, r3, _⟩ := transfer_unit a (.node a (listS kids).1) (listS kids).2 hu
          (fun hl => by simpa [ctxAllowed, Node.attrs?] using hallow hl)
          (fun own ho => wfCtx_mkCtx_node a _ own _ _ _ hroot hr hcoh.1 hcoh.2 ho hf hb) hc
        exact ⟨r1, r2, r3⟩
      · simp only [hu, Bool.false_eq_true, ↓reduceIte] at h
        simp only [Bool.or_eq_true, not_or, Bool.not_eq_true] at hu
        obtain ⟨e1, e2, e3⟩ := coreS_plain a (.node a (listS kids).1) (listS kids).2 hu.1 hu.2
        rw [e1, e2, e3]
        obtain ⟨w, c, f⟩ := ih.inl h.2.2.2.2
        refine ⟨?_, c, f⟩
        simp only [optWfInline, wfInline]
        exact ⟨h.1, h.2.1, h.2.2.1, h.2.2.2.1, w⟩
    · intro h
      rw [gFlow] at h
      rw [dispatchS]
      by_cases hu : leavesTree a = true
      · simp only [hu, ↓reduceIte] at h
        obtain ⟨hroot, hr, hbody⟩ := h
        obtain ⟨hb, hc, hf⟩ := body_transfer a kids ih hbody
        obtain ⟨_, r2, r3, r4⟩ := transfer_unit a (.node a (listS kids).1) (listS kids).2 (by simp [hu])
          (fun hl => by rw [hu] at hl; cases hl)
          (fun own ho => wfCtx_mkCtx_node a _ own _ _ _ hroot hr hcoh.1 hcoh.2 ho hf hb) hc
        rw [r4 hu]
        exact ⟨trivial, r2, r3⟩
      · simp only [hu, Bool.false_eq_true, ↓reduceIte] at h
        simp only [Bool.not_eq_true] at hu
        obtain ⟨hs, hbl, ht, hr, hbody⟩ := h
        obtain ⟨e1, e2, e3⟩ := coreS_plain a (.node a (listS kids).1) (listS kids).2 hu hs
        rw [e1, e2, e3]
        obtain ⟨w, c, f⟩ := flow_body_transfer kids ih hbody
        refine ⟨?_, c, f⟩
        simp only [optWfFlow, wfFlow]
        exact ⟨hbl, ht, hr, w⟩
theorem transfer_list : ∀ (l : List Box), TransferL l
  | [] => ⟨fun _ => by simp [listS, wfInlineL, wfCtxL], fun _ => by simp [listS, wfFlowL, wfCtxL]⟩
  | b :: bs => by
    have h1 := transfer_box b
    have h2 := transfer_list bs
    refine ⟨?_, ?_⟩
    · intro h
      rw [gInlineL] at h
      obtain ⟨a1, a2, a3⟩ := h1.inl h.1
      obtain ⟨b1, b2, b3⟩ := h2.inl h.2
      rw [listS]
      refine ⟨?_, wfCtxL_append a2 b2, wfCtxL_append a3 b3⟩
      cases hd : (dispatchS b).1 with
      | none => simpa using b1
      | some n =>
        rw [hd] at a1
        simp only [wfInlineL]
        exact ⟨a1, b1⟩
    · intro h
      rw [gFlowL] at h
      obtain ⟨a1, a2, a3⟩ := h1.flow h.1
      obtain ⟨b1, b2, b3⟩ := h2.flow h.2
      rw [listS]
      refine ⟨?_, wfCtxL_append a2 b2, wfCtxL_append a3 b3⟩
      cases hd : (dispatchS b).1 with
      | none => simpa using b1
      | some n =>
        rw [hd] at a1
        simp only [wfFlowL]
        exact ⟨a1, b1⟩
end

/-! ### The backgrounds due, on the laid-out tree -/

mutual
/-- Boxes of a laid-out tree whose background colour is due: all those with a painted colour, except
below (and including) a box with a singular transform. -/
def Box.expBg : Box → List Nat
  | .leaf a => if a.matrix = .singular then [] else bgOf a
  | .node a kids => if a.matrix = .singular then [] else bgOf a ++ Box.expBgL kids
  | .ph b => b.expBg
def Box.expBgL : List Box → List Nat
  | [] => []
  | b :: bs => b.expBg ++ Box.expBgL bs
end

mutual
/-- A singular `transformation_matrix` only occurs with `transform`, which creates a real context. -/
def singOK : Box → Prop
  | .leaf a => a.matrix = .singular → definesContext a = true
  | .node a kids => (a.matrix = .singular → definesContext a = true) ∧ singOKL kids
  | .ph b => singOK b
def singOKL : List Box → Prop
  | [] => True
  | b :: bs => singOK b ∧ singOKL bs
end

def optExp : Option Node → List Nat
  | none => []
  | some n => expBg n

theorem expBgL_append (l m : List Node) : expBgL (l ++ m) = expBgL l ++ expBgL m := by
  induction l with
  | nil => simp [expBgL]
  | cons x xs ih => simp [expBgL, ih, List.append_assoc]

theorem count_expBgL_perm {l m : List Node} (h : l.Perm m) (i : Nat) :
    (expBgL l).count i = (expBgL m).count i := by
  induction h with
  | nil => rfl
  | cons x _ ih => simp [expBgL, List.count_append, ih]
  | swap x y l => simp [expBgL, List.count_append]; omega
  | trans _ _ ih1 ih2 => exact ih1.trans ih2

theorem count_expBgL_split (l : List Node) (i : Nat) :
    (expBgL (l.filter (fun n => decide (n.zIndex < 0)))).count i +
    (expBgL (l.filter (fun n => decide (n.zIndex = 0)))).count i +
    (expBgL (l.filter (fun n => decide (0 < n.zIndex)))).count i = (expBgL l).count i := by
  induction l with
  | nil => simp [expBgL]
  | cons x xs ih =>
    by_cases h1 : x.zIndex < 0
    · have h2 : ¬ x.zIndex = 0 := by omega
      have h3 : ¬ 0 < x.zIndex := by omega
      simp [List.filter_cons, h1, h2, h3, expBgL, List.count_append]; omega
    · by_cases h2 : x.zIndex = 0
      · have h3 : ¬ 0 < x.zIndex := by omega
        simp [List.filter_cons, h1, h2, h3, expBgL, List.count_append]; omega
      · have h3 : 0 < x.zIndex := by omega
        simp [List.filter_cons, h1, h2, h3, expBgL, List.count_append]; omega

/-- The three sorted / filtered lists of `__init__` hold the same backgrounds as the children. -/
theorem count_expBgL_init (own : List Node) (i : Nat) :
    (expBgL (sortZ (own.filter (fun n => decide (n.zIndex < 0))))).count i +
    (expBgL (own.filter (fun n => decide (n.zIndex = 0)))).count i +
    (expBgL (sortZ (own.filter (fun n => decide (0 < n.zIndex))))).count i = (expBgL own).count i := by
  rw [count_expBgL_perm (sortZ_perm _), count_expBgL_perm (sortZ_perm _)]
  exact count_expBgL_split own i

theorem count_expBg_mkCtx_node (a : Attrs) (ks own blocks floats bc : List Node) (i : Nat) :
    (expBg (mkCtx (.node a ks) own blocks floats bc)).count i =
      if a.matrix = .singular then 0
      else (bgOf a).count i + (expBgL ks).count i + (expBgL own).count i + (expBgL floats).count i := by
  have := count_expBgL_init own i
  simp only [mkCtx, splitZ_eq, expBg]
  by_cases hs : a.matrix = .singular
  · simp [hs]
  · simp only [hs, ↓reduceIte, List.count_append]; omega

theorem count_expBg_mkCtx_leaf (a : Attrs) (own blocks floats bc : List Node) (i : Nat) :
    (expBg (mkCtx (.leaf a) own blocks floats bc)).count i =
      if a.matrix = .singular then 0
      else (bgOf a).count i + (expBgL own).count i + (expBgL floats).count i := by
  have := count_expBgL_init own i
  simp only [mkCtx, splitZ_eq, expBg]
  by_cases hs : a.matrix = .singular
  · simp [hs]
  · simp only [hs, ↓reduceIte, List.count_append]; omega

/-- One `_dispatch` step keeps the backgrounds due (parent box). -/
theorem count_exp_coreS_node (a : Attrs) (ks : List Node) (inner : Delta) (i : Nat)
    (hs : a.matrix = .singular → definesContext a = true) :
    (optExp (coreS a (.node a ks) inner).1).count i + (expBgL (coreS a (.node a ks) inner).2.cc).count i +
      (expBgL (coreS a (.node a ks) inner).2.floats).count i =
    if a.matrix = .singular then 0
    else (bgOf a).count i + (expBgL ks).count i + (expBgL inner.cc).count i +
      (expBgL inner.floats).count i := by
  unfold coreS
  by_cases h1 : definesContext a = true
  · simp [h1, optExp, expBgL, count_expBg_mkCtx_node]
  · have hns : ¬ a.matrix = .singular := fun h => h1 (hs h)
    by_cases h2 : a.positioned = true
    · simp [h1, h2, hns, optExp, expBgL, count_expBg_mkCtx_node, List.count_append]; omega
    · by_cases h3 : a.floated = true
      · simp [h1, h2, h3, hns, optExp, expBgL, count_expBg_mkCtx_node, List.count_append]; omega
      · by_cases h4 : a.kind.dispStackingClass = true
        · simp [h1, h2, h3, h4, hns, optExp, expBgL, count_expBg_mkCtx_node]; omega
        · simp [h1, h2, h3, h4, hns, optExp, expBg, List.count_append]

theorem count_exp_coreS_leaf (a : Attrs) (i : Nat)
    (hs : a.matrix = .singular → definesContext a = true) :
    (optExp (coreS a (.leaf a) {}).1).count i + (expBgL (coreS a (.leaf a) {}).2.cc).count i +
      (expBgL (coreS a (.leaf a) {}).2.floats).count i =
    if a.matrix = .singular then 0 else (bgOf a).count i := by
  unfold coreS
  by_cases h1 : definesContext a = true
  · simp [h1, optExp, expBgL, count_expBg_mkCtx_leaf]
  · have hns : ¬ a.matrix = .singular := fun h => h1 (hs h)
    by_cases h2 : a.positioned = true
    · simp [h1, h2, hns, optExp, expBgL, count_expBg_mkCtx_leaf, List.count_append]
    · by_cases h3 : a.floated = true
      · simp [h1, h2, h3, hns, optExp, expBgL, count_expBg_mkCtx_leaf, List.count_append]
      · by_cases h4 : a.kind.dispStackingClass = true
        · simp [h1, h2, h3, h4, hns, optExp, expBgL, count_expBg_mkCtx_leaf]
        · simp [h1, h2, h3, h4, hns, optExp, expBg, expBgL]

mutual
theorem count_exp_dispatchS : ∀ (b : Box) (i : Nat), singOK b →
    (optExp (dispatchS b).1).count i + (expBgL (dispatchS b).2.cc).count i +
      (expBgL (dispatchS b).2.floats).count i = b.expBg.count i
  | .ph b, i, h => by
    rw [singOK] at h; rw [dispatchS, Box.expBg]; exact count_exp_dispatchS b i h
  | .leaf a, i, h => by
    rw [singOK] at h
    rw [dispatchS, count_exp_coreS_leaf a i h, Box.expBg]
    split <;> simp
  | .node a kids, i, h => by
    rw [singOK] at h
    have ih := count_exp_listS kids i h.2
    rw [dispatchS, count_exp_coreS_node a _ _ i h.1, Box.expBg]
    by_cases hs : a.matrix = .singular
    · simp [hs]
    · simp only [hs, ↓reduceIte, List.count_append]; omega
theorem count_exp_listS : ∀ (l : List Box) (i : Nat), singOKL l →
    (expBgL (listS l).1).count i + (expBgL (listS l).2.cc).count i +
      (expBgL (listS l).2.floats).count i = (Box.expBgL l).count i
  | [], i, _ => by simp [listS, expBgL, Box.expBgL]
  | b :: bs, i, h => by
    rw [singOKL] at h
    have h1 := count_exp_dispatchS b i h.1
    have h2 := count_exp_listS bs i h.2
    rw [listS, Box.expBgL]
    simp only [Delta.append, expBgL_append, List.count_append]
    cases hd : (dispatchS b).1 with
    | none => simp [hd, optExp] at h1 ⊢; omega
    | some n => simp [hd, optExp, expBgL, List.count_append] at h1 ⊢; omega
end

/-! ### Page children -/

/-- A child of the page box (root element, margin boxes): always a context of its own. -/
def gRoot : Box → Prop
  | .leaf a => rootPainted a
  | .node a kids =>
    rootPainted a ∧ a.kind.drawReplaced = false ∧
    ((a.kind.drawInline = true ∧ lastIsLine (listS kids).1 = false ∧ gInlineL kids) ∨
     (a.kind.drawInline = false ∧
       ((gFlowL kids ∧ lastIsLine (listS kids).1 = false) ∨
        (lastIsLine (listS kids).1 = true ∧ gInlineL kids))))
  | .ph _ => False

theorem wfCtx_fromBoxS (b : Box) (h : gRoot b) : wfCtx (fromBoxS b) := by
  cases b with
  | leaf a =>
    rw [gRoot] at h
    simpa [fromBoxS, childrenS] using wfCtx_mkCtx_leaf a [] h wfCtxL_nil
  | node a kids =>
    rw [gRoot] at h
    obtain ⟨hroot, hr, hbody⟩ := h
    obtain ⟨hb, hc, hf⟩ := body_transfer a kids (transfer_list kids) hbody
    have hcoh := blocks_listS kids
    simpa [fromBoxS, childrenS] using
      wfCtx_mkCtx_node a _ _ _ _ _ hroot hr hcoh.1 hcoh.2 hc hf hb
  | ph b => rw [gRoot] at h; exact h.elim

theorem count_expBg_fromBoxS (b : Box) (h : singOK b) (hnp : ∀ b', b ≠ .ph b') (i : Nat) :
    (expBg (fromBoxS b)).count i = b.expBg.count i := by
  cases b with
  | leaf a =>
    simp only [fromBoxS, childrenS, count_expBg_mkCtx_leaf, Box.expBg]
    split <;> simp [expBgL]
  | node a kids =>
    rw [singOK] at h
    have := count_exp_listS kids i h.2
    simp only [fromBoxS, childrenS, count_expBg_mkCtx_node, Box.expBg]
    by_cases hs : a.matrix = .singular
    · simp [hs]
    · simp only [hs, ↓reduceIte, List.count_append]; omega
  | ph b => exact (hnp b rfl).elim

end Wp.Stacking
