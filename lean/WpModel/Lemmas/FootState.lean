/-
The footnote state of the layout context (`FState`): what `layout_footnote`, `report_footnote`,
`unlayout_footnote` and the per-line footnote loop do to the three lists, abstracted as

  act fs = fs.cur ++ fs.reported      -- the footnotes taken by this page so far, in the order they were taken

Laying a footnote out appends it to `act` (it sits in `cur`, or in `reported` once the area overflowed:
`context.reported_footnotes` non-empty forces every later footnote to be reported as well, so the order is
kept); un-laying-out a list `G` filters `G` out of `act` and puts it back into `pending`.
-/
import WpModel.Model.PaginateFoot

namespace Wp.PMF
open Wp Wp.PM

def act (fs : FState) : List Fn := fs.cur ++ fs.reported

/-- Consistency of the three lists: no repetition, nothing both taken and pending. -/
structure StOk (fs : FState) : Prop where
  pnd : fs.pending.Nodup
  actnd : (act fs).Nodup
  disj : ∀ f ∈ act fs, f ∉ fs.pending

/-! ### `_update_footnote_area` touches neither list -/

@[simp] theorem updateArea_pending (c : FCtx) (fs : FState) : (updateArea c fs).1.pending = fs.pending := by
  unfold updateArea; dsimp only; split <;> rfl
@[simp] theorem updateArea_cur (c : FCtx) (fs : FState) : (updateArea c fs).1.cur = fs.cur := by
  unfold updateArea; dsimp only; split <;> rfl
@[simp] theorem updateArea_reported (c : FCtx) (fs : FState) : (updateArea c fs).1.reported = fs.reported := by
  unfold updateArea; dsimp only; split <;> rfl

@[simp] theorem layoutFootnote_pending (c : FCtx) (fs : FState) (f : Fn) :
    (layoutFootnote c fs f).1.pending = fs.pending.erase f := by simp [layoutFootnote]
@[simp] theorem layoutFootnote_cur (c : FCtx) (fs : FState) (f : Fn) :
    (layoutFootnote c fs f).1.cur = fs.cur ++ [f] := by simp [layoutFootnote]
@[simp] theorem layoutFootnote_reported (c : FCtx) (fs : FState) (f : Fn) :
    (layoutFootnote c fs f).1.reported = fs.reported := by simp [layoutFootnote]

@[simp] theorem reportFootnote_pending (c : FCtx) (fs : FState) (f : Fn) :
    (reportFootnote c fs f).pending = fs.pending := by simp [reportFootnote]
@[simp] theorem reportFootnote_cur (c : FCtx) (fs : FState) (f : Fn) :
    (reportFootnote c fs f).cur = fs.cur.erase f := by simp [reportFootnote]
@[simp] theorem reportFootnote_reported (c : FCtx) (fs : FState) (f : Fn) :
    (reportFootnote c fs f).reported = fs.reported ++ [f] := by simp [reportFootnote]

/-! ### one footnote taken -/

/-- The state after `layout_footnote(f)` followed, when it overflows, by `report_footnote(f)`. -/
def takeStep (c : FCtx) (bs y : Rat) (fs : FState) (f : Fn) : FState :=
  let r := layoutFootnote c fs f
  if (r.2 || !r.1.reported.isEmpty || (ctxOf c r.1).overflowsPage bs y) = true then reportFootnote c r.1 f else r.1

theorem takeStep_spec (c : FCtx) (bs y : Rat) (fs : FState) (f : Fn) (hok : StOk fs) (hf : f ∈ fs.pending) :
    StOk (takeStep c bs y fs f) ∧ act (takeStep c bs y fs f) = act fs ++ [f] ∧
    (takeStep c bs y fs f).pending = fs.pending.erase f := by
  have hfa : f ∉ act fs := fun h => hok.disj f h hf
  have hfc : f ∉ fs.cur := fun h => hfa (by simp [act, h])
  have hfr : f ∉ fs.reported := fun h => hfa (by simp [act, h])
  have hp : (takeStep c bs y fs f).pending = fs.pending.erase f := by
    unfold takeStep; dsimp only; split <;> simp
  have ha : act (takeStep c bs y fs f) = act fs ++ [f] := by
    unfold takeStep; dsimp only
    split
    · simp only [act, reportFootnote_cur, layoutFootnote_cur, reportFootnote_reported, layoutFootnote_reported]
      rw [List.erase_append_right _ hfc]
      simp
    · rename_i hno
      simp only [Bool.or_eq_true, not_or, Bool.not_eq_true, layoutFootnote_reported] at hno
      have hre : fs.reported = [] := by
        have := hno.1.2
        simpa using this
      simp [act, hre]
  refine ⟨⟨?_, ?_, ?_⟩, ha, hp⟩
  · rw [hp]; exact hok.pnd.erase f
  · rw [ha]
    rw [List.nodup_append]
    refine ⟨hok.actnd, by simp, ?_⟩
    intro a ha' b hb
    simp only [List.mem_singleton] at hb
    subst hb
    intro he; subst he; exact hfa ha'
  · intro g hg
    rw [ha] at hg
    rw [hp, hok.pnd.mem_erase_iff]
    simp only [List.mem_append, List.mem_singleton] at hg
    rcases hg with hg | hg
    · intro h; exact hok.disj g hg h.2
    · intro h; exact h.1 hg

/-! ### the footnote loop of one line -/

theorem footLoop_spec (c : FCtx) (guard pie : Bool) (bs y : Rat) (F : List Fn) (fs : FState) (hok : StOk fs)
    (hF : ∀ f ∈ F, f ∈ fs.pending) (hnd : F.Nodup) :
    ∃ F1 F2, F = F1 ++ F2 ∧ ((footLoop c guard pie bs y F fs).1 = .ok → F2 = []) ∧
      StOk (footLoop c guard pie bs y F fs).2 ∧ act (footLoop c guard pie bs y F fs).2 = act fs ++ F1 ∧
      (∀ g, g ∈ (footLoop c guard pie bs y F fs).2.pending ↔ g ∈ fs.pending ∧ g ∉ F1) := by
  induction F generalizing fs with
  | nil => exact ⟨[], [], rfl, fun _ => rfl, by simpa [footLoop] using hok, by simp [footLoop], by simp [footLoop]⟩
  | cons f rest ih =>
    have hf : f ∈ fs.pending := hF f (by simp)
    obtain ⟨hok1, ha1, hp1⟩ := takeStep_spec c bs y fs f hok hf
    rw [List.nodup_cons] at hnd
    have hrest : ∀ g ∈ rest, g ∈ (takeStep c bs y fs f).pending := by
      intro g hg
      rw [hp1, hok.pnd.mem_erase_iff]
      exact ⟨fun he => hnd.1 (he ▸ hg), hF g (by simp [hg])⟩
    obtain ⟨F1, F2, hsplit, hokk, hok2, ha2, hp2⟩ := ih (takeStep c bs y fs f) hok1 hrest hnd.2
    have hmem1 : ∀ g, g ∈ (takeStep c bs y fs f).pending ↔ g ∈ fs.pending ∧ g ∉ [f] := by
      intro g
      rw [hp1, hok.pnd.mem_erase_iff]
      simp [and_comm]
    unfold footLoop
    rw [if_pos hf]
    dsimp only
    by_cases hov : ((layoutFootnote c fs f).2 || !(layoutFootnote c fs f).1.reported.isEmpty ||
        (ctxOf c (layoutFootnote c fs f).1).overflowsPage bs y) = true
    · have hts : takeStep c bs y fs f = reportFootnote c (layoutFootnote c fs f).1 f := by
        unfold takeStep; dsimp only; rw [if_pos hov]
      rw [if_pos hov]
      split
      · refine ⟨[f], rest, rfl, by simp, ?_, ?_, ?_⟩
        · rw [← hts]; exact hok1
        · rw [← hts]; exact ha1
        · rw [← hts]; exact hmem1
      · split
        · split
          · refine ⟨[f], rest, rfl, by simp, ?_, ?_, ?_⟩
            · rw [← hts]; exact hok1
            · rw [← hts]; exact ha1
            · rw [← hts]; exact hmem1
          · refine ⟨[f], rest, rfl, by simp, ?_, ?_, ?_⟩
            · rw [← hts]; exact hok1
            · rw [← hts]; exact ha1
            · rw [← hts]; exact hmem1
        · rw [← hts]
          refine ⟨f :: F1, F2, by simp [hsplit], hokk, hok2, by rw [ha2, ha1]; simp, ?_⟩
          intro g
          rw [hp2 g, hmem1 g]
          simp [and_assoc]
    · have hts : takeStep c bs y fs f = (layoutFootnote c fs f).1 := by
        unfold takeStep; dsimp only; rw [if_neg hov]
      rw [if_neg hov, ← hts]
      refine ⟨f :: F1, F2, by simp [hsplit], hokk, hok2, by rw [ha2, ha1]; simp, ?_⟩
      intro g
      rw [hp2 g, hmem1 g]
      simp [and_assoc]

/-- Without `footnote-policy: block` the loop never aborts the paragraph. -/
theorem footLoop_no_abort (c : FCtx) (guard pie : Bool) (bs y : Rat) (F : List Fn) (fs : FState)
    (h : ∀ f ∈ F, f.policy ≠ .block) : (footLoop c guard pie bs y F fs).1 ≠ .abort := by
  induction F generalizing fs with
  | nil => simp [footLoop]
  | cons f rest ih =>
    have hr : ∀ g ∈ rest, g.policy ≠ .block := fun g hg => h g (by simp [hg])
    have hf : f.policy ≠ .block := h f (by simp)
    unfold footLoop
    split
    · dsimp only
      split
      · split
        · simp
        · split
          · rename_i hb
            simp only [Bool.and_eq_true, beq_iff_eq] at hb
            exact absurd hb.2 hf
          · exact ih _ hr
      · exact ih _ hr
    · exact ih _ hr

/-- On an empty page the loop never aborts the paragraph, whatever the policies (repair 67bf2ca:
`footnote-policy: block` then breaks before the line). -/
theorem footLoop_no_abort_pie (c : FCtx) (guard : Bool) (bs y : Rat) (F : List Fn) (fs : FState) :
    (footLoop c guard true bs y F fs).1 ≠ .abort := by
  induction F generalizing fs with
  | nil => simp [footLoop]
  | cons f rest ih =>
    unfold footLoop
    split
    · dsimp only
      split
      · split
        · simp
        · split
          · simp
          · exact ih _
      · exact ih _
    · exact ih _

/-- The loop aborts only under the guard (`new_children or not page_is_empty`) and off an empty page. -/
theorem footLoop_abort_guard (c : FCtx) (guard pie : Bool) (bs y : Rat) (F : List Fn) (fs : FState)
    (h : (footLoop c guard pie bs y F fs).1 = .abort) : guard = true ∧ pie = false := by
  induction F generalizing fs with
  | nil => simp [footLoop] at h
  | cons f rest ih =>
    unfold footLoop at h
    split at h
    · dsimp only at h
      split at h
      · split at h
        · simp at h
        · split at h
          · rename_i hb
            simp only [Bool.and_eq_true, beq_iff_eq] at hb
            split at h
            · simp at h
            · rename_i hp
              exact ⟨hb.1, by simpa using hp⟩
          · exact ih _ h
      · exact ih _ h
    · exact ih _ h

/-! ### un-laying-out -/

theorem unlayFootnote_spec (c : FCtx) (fs : FState) (f : Fn) (hok : StOk fs) :
    StOk (unlayFootnote c fs f) ∧ act (unlayFootnote c fs f) = (act fs).filter (fun g => g != f) ∧
    (∀ g, g ∈ (unlayFootnote c fs f).pending ↔ g ∈ fs.pending ∨ g = f) := by
  unfold unlayFootnote
  by_cases hp : f ∈ fs.pending
  · rw [if_pos hp]
    refine ⟨hok, ?_, ?_⟩
    · symm
      rw [List.filter_eq_self]
      intro a ha
      simp only [bne_iff_ne, ne_eq]
      intro he; subst he; exact hok.disj _ ha hp
    · intro g; constructor
      · exact Or.inl
      · rintro (h | h)
        · exact h
        · subst h; exact hp
  · rw [if_neg hp]
    dsimp only
    have hnd := hok.actnd
    unfold act at hnd
    rw [List.nodup_append] at hnd
    obtain ⟨hcn, hrn, hcr⟩ := hnd
    have hpn : (fs.pending ++ [f]).Nodup := by
      rw [List.nodup_append]
      refine ⟨hok.pnd, by simp, ?_⟩
      intro a ha b hb he
      simp only [List.mem_singleton] at hb
      subst hb; subst he; exact hp ha
    have key : ∀ fs' : FState, fs'.pending = fs.pending ++ [f] → act fs' = (act fs).filter (fun g => g != f) →
        StOk (updateArea c fs').1 ∧ act (updateArea c fs').1 = (act fs).filter (fun g => g != f) ∧
        (∀ g, g ∈ (updateArea c fs').1.pending ↔ g ∈ fs.pending ∨ g = f) := by
      intro fs' h1 h2
      have hact : act (updateArea c fs').1 = (act fs).filter (fun g => g != f) := by
        rw [← h2]; simp [act]
      refine ⟨⟨by simpa [h1] using hpn, ?_, ?_⟩, hact, by intro g; simp [h1]⟩
      · rw [hact]; exact List.Nodup.sublist List.filter_sublist hok.actnd
      · intro g hg
        rw [hact, List.mem_filter] at hg
        simp only [updateArea_pending, h1, List.mem_append, List.mem_singleton, not_or]
        simp only [bne_iff_ne, ne_eq] at hg
        exact ⟨hok.disj g hg.1, hg.2⟩
    apply key
    · split
      · rfl
      · split <;> rfl
    · by_cases hc : f ∈ fs.cur
      · rw [if_pos hc]
        have hfr : f ∉ fs.reported := fun h => hcr f hc f h rfl
        simp only [act, List.filter_append]
        rw [hcn.erase_eq_filter]
        congr 1
        symm
        rw [List.filter_eq_self]
        intro a ha
        simp only [bne_iff_ne, ne_eq]
        intro he; subst he; exact hfr ha
      · rw [if_neg hc]
        by_cases hr : f ∈ fs.reported
        · rw [if_pos hr]
          simp only [act, List.filter_append]
          rw [hrn.erase_eq_filter]
          congr 1
          symm
          rw [List.filter_eq_self]
          intro a ha
          simp only [bne_iff_ne, ne_eq]
          intro he; subst he; exact hc ha
        · rw [if_neg hr]
          simp only [act]
          symm
          rw [List.filter_eq_self]
          intro a ha
          simp only [bne_iff_ne, ne_eq]
          intro he; subst he
          simp only [List.mem_append] at ha
          rcases ha with h | h
          · exact hc h
          · exact hr h

theorem unlayAll_spec (c : FCtx) (G : List Fn) (fs : FState) (hok : StOk fs) :
    StOk (unlayAll c fs G) ∧ act (unlayAll c fs G) = (act fs).filter (fun g => decide (g ∉ G)) ∧
    (∀ g, g ∈ (unlayAll c fs G).pending ↔ g ∈ fs.pending ∨ g ∈ G) := by
  induction G generalizing fs with
  | nil =>
    refine ⟨hok, ?_, by simp [unlayAll]⟩
    simp only [unlayAll, List.not_mem_nil, not_false_eq_true, decide_true]
    exact (List.filter_eq_self.mpr (fun _ _ => rfl)).symm
  | cons f rest ih =>
    obtain ⟨h1, h2, h3⟩ := unlayFootnote_spec c fs f hok
    obtain ⟨i1, i2, i3⟩ := ih (unlayFootnote c fs f) h1
    refine ⟨by simpa [unlayAll] using i1, ?_, ?_⟩
    · simp only [unlayAll]
      rw [i2, h2, List.filter_filter]
      congr 1
      funext g
      by_cases h1 : g = f <;> by_cases h2 : g ∈ rest <;> simp [h1, h2]
    · intro g
      simp only [unlayAll]
      rw [i3 g, h3 g]
      simp only [List.mem_cons]
      constructor
      · rintro ((h | h) | h)
        · exact Or.inl h
        · exact Or.inr (Or.inl h)
        · exact Or.inr (Or.inr h)
      · rintro (h | h | h)
        · exact Or.inl (Or.inl h)
        · exact Or.inl (Or.inr h)
        · exact Or.inr h

/-- Un-laying-out a list that covers a suffix `S` of `act` and misses the prefix `A` cuts exactly `S`. -/
theorem filter_cut (A S G : List Fn) (hA : ∀ g ∈ A, g ∉ G) (hS : ∀ g ∈ S, g ∈ G) :
    (A ++ S).filter (fun g => decide (g ∉ G)) = A := by
  rw [List.filter_append]
  have h1 : A.filter (fun g => decide (g ∉ G)) = A := by
    rw [List.filter_eq_self]; intro a ha; simpa using hA a ha
  have h2 : S.filter (fun g => decide (g ∉ G)) = [] := by
    rw [List.filter_eq_nil_iff]; intro a ha; simpa using hS a ha
  rw [h1, h2, List.append_nil]

end Wp.PMF
