/-
C13 — lemmas about the rtl shift of `block_level_width` under `handle_min_max_width` (repair 165e254).
-/
import WpModel.Lemmas.Replaced

set_option linter.unusedVariables false
set_option linter.unusedSimpArgs false

namespace Wp.C13
open Wp Wp.Replaced

/-- An over-constrained box (width and both margins given): `block_level_width.without_min_max` leaves
everything but `position_x`, which moves by the unused space in rtl (not for a column box). -/
theorem blwCore_overconstrained (b : RBox) (cb : Cb) (w ml mr : Rat)
    (hw : b.width = some w) (hml : b.marginLeft = some ml) (hmr : b.marginRight = some mr) :
    blwCore b cb = if cb.rtl && !b.isColumn then { b with positionX := b.positionX + (cb.width - b.pb - w - mr - ml) } else b := by
  have h1 : blwOverflow b cb = b := by
    unfold blwOverflow; simp only [hw]; split_ifs <;> simp [hml, hmr]
    cases b; simp_all
  rw [blwCore, h1]
  have h2 : blwOverConstrained b cb = if cb.rtl && !b.isColumn then { b with positionX := b.positionX + (cb.width - b.pb - w - mr - ml) } else b := by
    unfold blwOverConstrained; simp only [hw, hml, hmr]
  rw [h2]
  split_ifs <;> simp [blwAutoWidth, blwMargins, hw, hml, hmr]

/-- The box after `block_level_width.without_min_max` on `b` with its width replaced by `x`. -/
def shifted (b : RBox) (cb : Cb) (ml mr x : Rat) : RBox :=
  { b with width := some x,
           positionX := if cb.rtl && !b.isColumn then b.positionX + (cb.width - b.pb - x - mr - ml) else b.positionX }

theorem blwCore_with_width (b : RBox) (cb : Cb) (ml mr x : Rat)
    (hml : b.marginLeft = some ml) (hmr : b.marginRight = some mr) :
    blwCore { b with width := some x } cb = shifted b cb ml mr x := by
  rw [blwCore_overconstrained { b with width := some x } cb x ml mr rfl hml hmr]
  unfold shifted
  split_ifs <;> simp_all [RBox.pb]

/-- What `handle_min_max_width` hands to the second / third call: the clamped width, the saved margins and
the saved `position_x`. -/
def resetBox (s b : RBox) (y : Rat) : RBox :=
  { s with width := some y, marginLeft := b.marginLeft, marginRight := b.marginRight, positionX := b.positionX }


/-- With a known width, `block_level_width.without_min_max` only settles the horizontal margins (both end up
numbers) and, in rtl, `position_x`. -/
theorem blwCore_known_width (b : RBox) (cb : Cb) (w : Rat) (hw : b.width = some w) :
    ∃ ml mr px, blwCore b cb = { b with marginLeft := some ml, marginRight := some mr, positionX := px } := by
  rcases b with ⟨bw, bh, bml, bmr, bmt, bmb, pl, pr, bl, br, mnw, mxw, mnh, mxh, px, col⟩
  simp only at hw
  subst hw
  rcases bml with _ | ml <;> rcases bmr with _ | mr <;>
    simp only [blwCore, blwOverflow, blwOverConstrained, blwAutoWidth, blwMargins, Option.getD] <;>
    split_ifs <;> simp only [blwMargins] <;> exact ⟨_, _, _, rfl⟩


/-- CSS 2.1 10.3.3 with a known width, as a function: the used `(margin-left, margin-right)` from the space
`P` taken by paddings and borders, the width `w`, the containing block width and the computed margins
(`none` = `auto`). -/
def usedMargins (P w cbw : Rat) (ml mr : Len) : Rat × Rat :=
  if P + w + ml.getD 0 + mr.getD 0 > cbw then (ml.getD 0, mr.getD 0)
  else match ml, mr with
    | none, none => ((cbw - P - w) / 2, (cbw - P - w) / 2)
    | none, some r => (cbw - P - w - r, r)
    | some l, none => (l, cbw - P - w - l)
    | some l, some r => (l, r)

theorem blwCore_used_margins (b : RBox) (cb : Cb) (w : Rat) (hw : b.width = some w) :
    (blwCore b cb).marginLeft = some (usedMargins b.pb w cb.width b.marginLeft b.marginRight).1 ∧
    (blwCore b cb).marginRight = some (usedMargins b.pb w cb.width b.marginLeft b.marginRight).2 ∧
    (blwCore b cb).width = some w := by
  rcases b with ⟨bw, bh, bml, bmr, bmt, bmb, pl, pr, bl, br, mnw, mxw, mnh, mxh, px, col⟩
  simp only at hw
  subst hw
  rcases bml with _ | ml <;> rcases bmr with _ | mr <;>
    simp only [blwCore, blwOverflow, blwOverConstrained, blwAutoWidth, blwMargins, Option.getD] <;>
    split_ifs with h1 h2 <;> simp only [blwMargins] <;>
    simp_all [usedMargins, RBox.pb] <;>
    (split_ifs <;> first | exact ⟨rfl, rfl⟩ | (exfalso; linarith) | simp_all)


end Wp.C13
