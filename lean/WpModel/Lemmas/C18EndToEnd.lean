/-
Helper lemmas for C18: composing `make_bookmark_tree` with `add_outlines`.  Core Lean only.
-/
import WpModel.Lemmas.C18Bookmarks
import WpModel.Lemmas.C18Outlines

namespace Wp.C18
open Wp Wp.Outline Wp.Anchors

mutual
theorem pagesOk_of_flat (refs : List Nat) : ∀ (t : BTree) (d : Nat),
    (∀ x ∈ flat d t, (pageReference refs x.2.2.1.page).isOk = true) → pagesOk refs t = true
  | .node l tg kids st, d, h => by
    simp only [pagesOk, Bool.and_eq_true]
    refine ⟨h (d, (l, tg, st)) (by simp [flat]), pagesOkList_of_flat refs kids (d + 1) ?_⟩
    intro x hx; exact h x (by simp [flat, hx])
theorem pagesOkList_of_flat (refs : List Nat) : ∀ (ts : List BTree) (d : Nat),
    (∀ x ∈ flatList d ts, (pageReference refs x.2.2.1.page).isOk = true) → pagesOkList refs ts = true
  | [], _, _ => rfl
  | t :: ts, d, h => by
    simp only [pagesOkList, Bool.and_eq_true]
    exact ⟨pagesOk_of_flat refs t d (fun x hx => h x (by simp [flatList, hx])),
      pagesOkList_of_flat refs ts d (fun x hx => h x (by simp [flatList, hx]))⟩
end

mutual
/-- The outline dictionaries, in object-number order, carry the labels of the tree in pre-order. -/
theorem GoodNode_titles {refs : List Nat} {parent prev nxt : Option Nat} {num : Nat} :
    ∀ (t : BTree) (n : ONode) (d : Nat), GoodNode refs parent prev nxt num t n →
      (flattenNode n).map (·.title) = (flat d t).map (·.2.1)
  | .node title target kids state, .mk o okids, d, h => by
    rw [GoodNode] at h
    simp only [flattenNode, flat, List.map_cons, h.2.1, GoodList_titles kids okids (d + 1) h.2.2.2.2.2.2.2.2.2.2.2]
theorem GoodList_titles {refs : List Nat} {parent prev : Option Nat} {num : Nat} :
    ∀ (ts : List BTree) (ns : List ONode) (d : Nat), GoodList refs parent prev num ts ns →
      (flattenNodes ns).map (·.title) = (flatList d ts).map (·.2.1)
  | [], [], _, _ => rfl
  | [], _ :: _, _, h => by simp [GoodList] at h
  | _ :: _, [], _, h => by simp [GoodList] at h
  | t :: ts, n :: ns, d, h => by
    rw [GoodList] at h
    simp only [flattenNodes, flatList, List.map_append, GoodNode_titles t n d h.1, GoodList_titles ts ns d h.2]
end

theorem pageReference_ok (refs : List Nat) (i : Nat) (h : i < refs.length) :
    (pageReference refs (i : Int)).isOk = true := by
  unfold pageReference
  simp only []
  have h1 : ¬ ((i : Int) < 0) := by omega
  rw [if_neg h1, if_neg (by omega)]
  simp only [Int.toNat_natCast]
  rw [List.getElem?_eq_getElem h]
  rfl

theorem docEntries_pages (scale : Rat) (tp : Bool) (pages : List BPage) :
    ∀ (n : Nat), ∀ e ∈ docEntries scale tp n pages, ∃ i, n ≤ i ∧ i < n + pages.length ∧ e.target.page = (i : Int) := by
  induction pages with
  | nil => intro n e he; simp [docEntries] at he
  | cons p rest ih =>
    intro n e he
    simp only [docEntries, List.mem_append, List.mem_map] at he
    rcases he with ⟨b, _, hb⟩ | he
    · exact ⟨n, by omega, by simp, by rw [← hb]; rfl⟩
    · obtain ⟨i, h1, h2, h3⟩ := ih (n + 1) e he
      exact ⟨i, by omega, by simp only [List.length_cons]; omega, h3⟩

end Wp.C18
