/-
C13 — lemmas about the resource scopes built by `Stream.add_image` / `add_group` / `add_pattern`
(`Model/ImageDedupe.lean::buildList`): every content stream (the page's, a transparency group's, a
tiling pattern's) names in its *own* `/Resources /XObject` every image it paints, whatever was
registered before in the document-wide `images` table.
-/
import WpModel.Model.ImageDedupe
import WpModel.Lemmas.ImageDedupe

set_option linter.unusedVariables false
set_option linter.unusedSimpArgs false

namespace Wp.C13
open Wp Wp.ImageDedupe

mutual
/-- `CoveredList ds xs ps`: the stream on which `ds` is drawn has the resources `xs` (XObject) / `ps`
(Pattern), and every image painted on it is named in `xs`; every group drawn on it is an entry of `xs`
whose own resources cover the group's body; every pattern an entry of `ps`, likewise. -/
def CoveredList : List Draw → List Node → List Node → Prop
  | [], _, _ => True
  | d :: rest, xs, ps => Covered d xs ps ∧ CoveredList rest xs ps
def Covered : Draw → List Node → List Node → Prop
  | .image id interp _ _, xs, _ => xs.any (Node.isImageNamed (imageName id interp)) = true
  | .group body, xs, _ => ∃ key xs' ps', Node.group key xs' ps' ∈ xs ∧ CoveredList body xs' ps'
  | .pattern body, _, ps => ∃ key xs' ps', Node.pattern key xs' ps' ∈ ps ∧ CoveredList body xs' ps'
end

theorem any_mono {α} (p : α → Bool) (a b : List α) (h : ∀ x ∈ a, x ∈ b) (ha : a.any p = true) : b.any p = true := by
  rw [List.any_eq_true] at ha ⊢
  obtain ⟨x, hx, hp⟩ := ha
  exact ⟨x, h x hx, hp⟩

/-- Coverage only looks at which entries exist: it survives any growth of the two dictionaries. -/
theorem covered_mono (d : Draw) (xs ps xs2 ps2 : List Node) (hx : ∀ n ∈ xs, n ∈ xs2) (hp : ∀ n ∈ ps, n ∈ ps2)
    (h : Covered d xs ps) : Covered d xs2 ps2 := by
  cases d with
  | image id interp ratio alpha =>
    simp only [Covered] at h ⊢
    exact any_mono _ xs xs2 hx h
  | group body =>
    simp only [Covered] at h ⊢
    obtain ⟨key, xs', ps', hm, hc⟩ := h
    exact ⟨key, xs', ps', hx _ hm, hc⟩
  | pattern body =>
    simp only [Covered] at h ⊢
    obtain ⟨key, xs', ps', hm, hc⟩ := h
    exact ⟨key, xs', ps', hp _ hm, hc⟩

theorem coveredList_mono (ds : List Draw) (xs ps xs2 ps2 : List Node) (hx : ∀ n ∈ xs, n ∈ xs2)
    (hp : ∀ n ∈ ps, n ∈ ps2) (h : CoveredList ds xs ps) : CoveredList ds xs2 ps2 := by
  induction ds with
  | nil => simp [CoveredList]
  | cons d rest ih =>
    simp only [CoveredList] at h ⊢
    exact ⟨covered_mono d xs ps xs2 ps2 hx hp h.1, ih h.2⟩

/-- `add_image` / `add_group` / `add_pattern` only ever add entries to the stream's resources. -/
theorem buildOne_grows (d : Draw) (xs ps : List Node) :
    (∀ n ∈ xs, n ∈ (buildOne d xs ps).1) ∧ (∀ n ∈ ps, n ∈ (buildOne d xs ps).2) := by
  cases d with
  | image id interp ratio alpha =>
    simp only [buildOne]
    split_ifs <;> simp_all
  | group body => simp [buildOne]; intro n hn; exact Or.inl hn
  | pattern body => simp [buildOne]; intro n hn; exact Or.inl hn

theorem buildList_grows (ds : List Draw) : ∀ (xs ps : List Node),
    (∀ n ∈ xs, n ∈ (buildList ds xs ps).1) ∧ (∀ n ∈ ps, n ∈ (buildList ds xs ps).2) := by
  induction ds with
  | nil => intro xs ps; simp [buildList]
  | cons d rest ih =>
    intro xs ps
    simp only [buildList]
    obtain ⟨g1, g2⟩ := buildOne_grows d xs ps
    obtain ⟨h1, h2⟩ := ih (buildOne d xs ps).1 (buildOne d xs ps).2
    exact ⟨fun n hn => h1 n (g1 n hn), fun n hn => h2 n (g2 n hn)⟩

mutual
/-- The resources built while drawing cover the drawing — for the stream itself and, recursively, for
the stream of every group and pattern — from any starting dictionaries. -/
theorem buildList_covers : ∀ (ds : List Draw) (xs ps : List Node),
    CoveredList ds (buildList ds xs ps).1 (buildList ds xs ps).2
  | [], xs, ps => by simp [CoveredList]
  | d :: rest, xs, ps => by
    simp only [buildList, CoveredList]
    obtain ⟨g1, g2⟩ := buildList_grows rest (buildOne d xs ps).1 (buildOne d xs ps).2
    exact ⟨covered_mono d _ _ _ _ g1 g2 (buildOne_covers d xs ps), buildList_covers rest _ _⟩
theorem buildOne_covers : ∀ (d : Draw) (xs ps : List Node),
    Covered d (buildOne d xs ps).1 (buildOne d xs ps).2
  | .image id interp ratio alpha, xs, ps => by
    simp only [buildOne, Covered]
    by_cases hany : xs.any (Node.isImageNamed (imageName id interp)) = true
    · simp [hany]
    · have hf : xs.any (Node.isImageNamed (imageName id interp)) = false := by simpa using hany
      simp [hf, Node.isImageNamed]
  | .group body, xs, ps => by
    simp only [buildOne, Covered]
    exact ⟨"x" ++ toString xs.length, _, _, List.mem_append_right _ (List.mem_singleton.mpr rfl),
      buildList_covers body [] []⟩
  | .pattern body, xs, ps => by
    simp only [buildOne, Covered]
    exact ⟨"p" ++ toString ps.length, _, _, List.mem_append_right _ (List.mem_singleton.mpr rfl),
      buildList_covers body [] []⟩
end

end Wp.C13
