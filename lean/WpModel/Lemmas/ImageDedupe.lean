/-
Helper definitions and lemmas for C13.embedded_once: the traversal of `_use_references` creates one
image XObject per distinct placeholder name, in first-occurrence order, and every image reference
points to the object created for its name.
-/
import WpModel.Model.ImageDedupe
import Mathlib.Tactic.Linarith

set_option linter.unusedSimpArgs false
set_option linter.unusedVariables false

namespace Wp.C13
open Wp Wp.ImageDedupe

/-- Names of the image placeholders met by the traversal, in order. -/
def imageNames : List Ev → List String
  | [] => []
  | .image n :: rest => n :: imageNames rest
  | _ :: rest => imageNames rest

/-- First occurrences of `l` that are not in `seen`. -/
def firsts : List String → List String → List String
  | [], _ => []
  | n :: l, seen => if n ∈ seen then firsts l seen else n :: firsts l (seen ++ [n])

/-- Names of the image XObjects among the appended objects. -/
def imageObjNames : List Obj → List String
  | [] => []
  | .image n _ _ :: rest => n :: imageObjNames rest
  | _ :: rest => imageObjNames rest

theorem imageObjNames_append (a b : List Obj) : imageObjNames (a ++ b) = imageObjNames a ++ imageObjNames b := by
  induction a with
  | nil => rfl
  | cons o rest ih => cases o <;> simp [imageObjNames, ih]

theorem lookup_none_iff (name : String) (made : List (String × Nat)) :
    lookup name made = none ↔ name ∉ made.map Prod.fst := by
  induction made with
  | nil => simp [lookup]
  | cons p rest ih =>
    obtain ⟨k, v⟩ := p
    by_cases h : k = name
    · subst h; simp [lookup]
    · have h' : ¬ name = k := fun e => h e.symm
      simp [lookup, h, h', ih]

theorem lookup_append_of_some (name : String) (made extra : List (String × Nat)) (n : Nat)
    (h : lookup name made = some n) : lookup name (made ++ extra) = some n := by
  induction made with
  | nil => simp [lookup] at h
  | cons p rest ih =>
    obtain ⟨k, v⟩ := p
    by_cases hk : k = name
    · subst hk; simpa [lookup] using h
    · simp [lookup, hk] at h ⊢; exact ih h

theorem lookup_append_new (name : String) (made : List (String × Nat)) (n : Nat)
    (h : lookup name made = none) : lookup name (made ++ [(name, n)]) = some n := by
  induction made with
  | nil => simp [lookup]
  | cons p rest ih =>
    obtain ⟨k, v⟩ := p
    by_cases hk : k = name
    · subst hk; simp [lookup] at h
    · simp [lookup, hk] at h ⊢; exact ih h

theorem mem_firsts (l seen : List String) (n : String) : n ∈ firsts l seen ↔ n ∈ l ∧ n ∉ seen := by
  induction l generalizing seen with
  | nil => simp [firsts]
  | cons a l ih =>
    unfold firsts
    by_cases ha : a ∈ seen
    · simp only [ha, if_true, ih, List.mem_cons]
      constructor
      · rintro ⟨h1, h2⟩; exact ⟨Or.inr h1, h2⟩
      · rintro ⟨h1 | h1, h2⟩
        · subst h1; exact absurd ha h2
        · exact ⟨h1, h2⟩
    · simp only [ha, if_false, List.mem_cons, ih, List.mem_append, List.mem_singleton, not_or]
      constructor
      · rintro (h | ⟨h1, h2, h3⟩)
        · subst h; exact ⟨Or.inl rfl, ha⟩
        · exact ⟨Or.inr h1, h2⟩
      · rintro ⟨h1 | h1, h2⟩
        · exact Or.inl h1
        · by_cases hna : n = a
          · exact Or.inl hna
          · exact Or.inr ⟨h1, h2, by simpa using hna⟩

theorem firsts_nodup (l seen : List String) : (firsts l seen).Nodup := by
  induction l generalizing seen with
  | nil => simp [firsts]
  | cons a l ih =>
    unfold firsts
    by_cases ha : a ∈ seen
    · simp only [ha, if_true]; exact ih seen
    · simp only [ha, if_false, List.nodup_cons]
      refine ⟨?_, ih _⟩
      rw [mem_firsts]
      simp



/-- Every image reference points to the object created for its name. -/
def RefsOk (st : St) : Prop := ∀ name k, (true, name, k) ∈ st.refs → lookup name st.made = some k

theorem step_image_seen (imgs : List Entry) (st st1 : St) (name : String) (n : Nat)
    (hl : lookup name st.made = some n) (h : step imgs st (.image name) = some st1) :
    st1.made = st.made ∧ st1.objs = st.objs ∧ st1.refs = st.refs ++ [(true, name, n)] ∧ st1.next = st.next := by
  simp [step, hl] at h; subst h; simp

theorem step_image_new (imgs : List Entry) (st st1 : St) (name : String)
    (hl : lookup name st.made = none) (h : step imgs st (.image name) = some st1) :
    st1.made = st.made ++ [(name, st.next)] ∧ imageObjNames st1.objs = imageObjNames st.objs ++ [name] ∧
    st1.refs = st.refs ++ [(true, name, st.next)] ∧ st.next < st1.next := by
  simp only [step, hl] at h
  rcases he : findEntry name imgs with _ | e
  · simp [he] at h
  · simp only [he] at h
    rcases hr : e.ratios with _ | ⟨r, rs⟩
    · simp [hr] at h
    · simp only [hr] at h
      by_cases ha : e.alpha
      · simp [ha] at h; subst h
        simp [imageObjNames_append, imageObjNames]; omega
      · simp [ha] at h; subst h
        simp [imageObjNames_append, imageObjNames]

theorem step_other (imgs : List Entry) (st st1 : St) (ev : Ev) (hev : ∀ n, ev ≠ .image n)
    (h : step imgs st ev = some st1) :
    st1.made = st.made ∧ imageObjNames st1.objs = imageObjNames st.objs ∧
    (∀ name k, (true, name, k) ∈ st1.refs → (true, name, k) ∈ st.refs) := by
  cases ev with
  | image n => exact absurd rfl (hev n)
  | openGroup key => simp [step] at h; subst h; simp [imageObjNames_append, imageObjNames]
  | openPattern key => simp [step] at h; subst h; simp [imageObjNames_append, imageObjNames]
  | close => simp [step] at h; subst h; simp [imageObjNames_append, imageObjNames]

theorem run_made (imgs : List Entry) (evs : List Ev) (st st' : St) (h : run imgs evs st = some st') :
    st'.made.map Prod.fst = st.made.map Prod.fst ++ firsts (imageNames evs) (st.made.map Prod.fst) ∧
    imageObjNames st'.objs = imageObjNames st.objs ++ firsts (imageNames evs) (st.made.map Prod.fst) ∧
    (RefsOk st → RefsOk st') := by
  induction evs generalizing st with
  | nil => simp [run] at h; subst h; simp [imageNames, firsts]
  | cons ev rest ih =>
    simp only [run] at h
    rcases hs : step imgs st ev with _ | st1
    · simp [hs] at h
    · simp only [hs] at h
      obtain ⟨i1, i2, i3⟩ := ih st1 h
      cases ev with
      | image name =>
        rcases hl : lookup name st.made with _ | n
        · obtain ⟨m1, m2, m3, _⟩ := step_image_new imgs st st1 name hl hs
          have hnot : name ∉ st.made.map Prod.fst := (lookup_none_iff name st.made).mp hl
          refine ⟨?_, ?_, fun hok => i3 ?_⟩
          · rw [i1, m1]; simp [imageNames, firsts, hnot]
          · rw [i2, m2, m1]; simp [imageNames, firsts, hnot]
          · intro nm k hmem
            rw [m3] at hmem; rw [m1]
            rcases List.mem_append.mp hmem with hm | hm
            · exact lookup_append_of_some nm st.made _ k (hok nm k hm)
            · simp at hm; obtain ⟨rfl, rfl⟩ := hm
              exact lookup_append_new nm st.made st.next hl
        · obtain ⟨m1, m2, m3, _⟩ := step_image_seen imgs st st1 name n hl hs
          have hin : name ∈ st.made.map Prod.fst := by
            by_contra hc
            rw [(lookup_none_iff name st.made).mpr hc] at hl; cases hl
          refine ⟨?_, ?_, fun hok => i3 ?_⟩
          · rw [i1, m1]; simp only [imageNames, firsts, hin, if_true]
          · rw [i2, m2, m1]; simp only [imageNames, firsts, hin, if_true]
          · intro nm k hmem
            rw [m3] at hmem; rw [m1]
            rcases List.mem_append.mp hmem with hm | hm
            · exact hok nm k hm
            · simp at hm; obtain ⟨rfl, rfl⟩ := hm; exact hl
      | openGroup key =>
        obtain ⟨m1, m2, m3⟩ := step_other imgs st st1 _ (by intro n; simp) hs
        refine ⟨by rw [i1, m1]; simp [imageNames], by rw [i2, m2, m1]; simp [imageNames], fun hok => i3 ?_⟩
        intro nm k hmem; rw [m1]; exact hok nm k (m3 nm k hmem)
      | openPattern key =>
        obtain ⟨m1, m2, m3⟩ := step_other imgs st st1 _ (by intro n; simp) hs
        refine ⟨by rw [i1, m1]; simp [imageNames], by rw [i2, m2, m1]; simp [imageNames], fun hok => i3 ?_⟩
        intro nm k hmem; rw [m1]; exact hok nm k (m3 nm k hmem)
      | close =>
        obtain ⟨m1, m2, m3⟩ := step_other imgs st st1 _ (by intro n; simp) hs
        refine ⟨by rw [i1, m1]; simp [imageNames], by rw [i2, m2, m1]; simp [imageNames], fun hok => i3 ?_⟩
        intro nm k hmem; rw [m1]; exact hok nm k (m3 nm k hmem)



theorem imageName_injective (id1 id2 : String) (b1 b2 : Bool)
    (h : imageName id1 b1 = imageName id2 b2) : id1 = id2 ∧ b1 = b2 := by
  unfold imageName at h
  have h' := congrArg String.toList h
  simp only [String.toList_append] at h'
  have hlen : ∀ b : Bool, (if b then "1" else "0").toList.length = 1 := by intro b; cases b <;> rfl
  have h2 := List.append_inj' h' (by rw [hlen, hlen])
  obtain ⟨h3, h4⟩ := h2
  have h5 := List.append_cancel_left h3
  refine ⟨String.toList_inj.mp h5, ?_⟩
  cases b1 <;> cases b2 <;> simp_all


mutual
/-- Names of the image placeholders of a `Resources` tree, in traversal order. -/
def nodeNamesList : List Node → List String
  | [] => []
  | n :: rest => nodeNames n ++ nodeNamesList rest
def nodeNames : Node → List String
  | .image name => [name]
  | .group _ xs ps => nodeNamesList xs ++ nodeNamesList ps
  | .pattern _ xs ps => nodeNamesList xs ++ nodeNamesList ps
end

mutual
/-- Names of all image draws of a drawing, in execution order. -/
def drawNamesList : List Draw → List String
  | [] => []
  | d :: rest => drawNames d ++ drawNamesList rest
def drawNames : Draw → List String
  | .image id interp _ _ => [imageName id interp]
  | .group body => drawNamesList body
  | .pattern body => drawNamesList body
end

theorem imageNames_append (a b : List Ev) : imageNames (a ++ b) = imageNames a ++ imageNames b := by
  induction a with
  | nil => rfl
  | cons e rest ih => cases e <;> simp [imageNames, ih]

mutual
theorem imageNames_flattenList : ∀ ns : List Node, imageNames (flattenList ns) = nodeNamesList ns
  | [] => by simp [flattenList, imageNames, nodeNamesList]
  | n :: rest => by
    simp [flattenList, nodeNamesList, imageNames_append, imageNames_flattenNode n, imageNames_flattenList rest]
theorem imageNames_flattenNode : ∀ n : Node, imageNames (flattenNode n) = nodeNames n
  | .image name => by simp [flattenNode, imageNames, nodeNames]
  | .group key xs ps => by
    simp [flattenNode, imageNames, nodeNames, imageNames_append, imageNames_flattenList xs, imageNames_flattenList ps]
  | .pattern key xs ps => by
    simp [flattenNode, imageNames, nodeNames, imageNames_append, imageNames_flattenList xs, imageNames_flattenList ps]
end


theorem nodeNamesList_append (a b : List Node) : nodeNamesList (a ++ b) = nodeNamesList a ++ nodeNamesList b := by
  induction a with
  | nil => simp [nodeNamesList]
  | cons n rest ih => simp [nodeNamesList, ih]

theorem any_isImageNamed (name : String) (xs : List Node) (h : xs.any (Node.isImageNamed name) = true) :
    name ∈ nodeNamesList xs := by
  induction xs with
  | nil => simp at h
  | cons n rest ih =>
    simp only [List.any_cons, Bool.or_eq_true] at h
    simp only [nodeNamesList, List.mem_append]
    rcases h with h | h
    · left
      cases n with
      | image m => simp [Node.isImageNamed] at h; subst h; simp [nodeNames]
      | group _ _ _ => simp [Node.isImageNamed] at h
      | pattern _ _ _ => simp [Node.isImageNamed] at h
    · exact Or.inr (ih h)

mutual
theorem buildList_names : ∀ (ds : List Draw) (xs ps : List Node) (n : String),
    n ∈ nodeNamesList (buildList ds xs ps).1 ++ nodeNamesList (buildList ds xs ps).2 ↔
    (n ∈ nodeNamesList xs ++ nodeNamesList ps) ∨ n ∈ drawNamesList ds
  | [], xs, ps, n => by simp [buildList, drawNamesList]
  | d :: rest, xs, ps, n => by
    simp only [buildList, drawNamesList]
    rw [buildList_names rest _ _ n, buildOne_names d xs ps n]
    simp only [List.mem_append]
    tauto
theorem buildOne_names : ∀ (d : Draw) (xs ps : List Node) (n : String),
    n ∈ nodeNamesList (buildOne d xs ps).1 ++ nodeNamesList (buildOne d xs ps).2 ↔
    (n ∈ nodeNamesList xs ++ nodeNamesList ps) ∨ n ∈ drawNames d
  | .image id interp ratio alpha, xs, ps, n => by
    simp only [buildOne, drawNames]
    by_cases hany : xs.any (Node.isImageNamed (imageName id interp)) = true
    · have := any_isImageNamed _ xs hany
      simp only [hany, if_true, List.mem_append, List.mem_singleton]
      constructor
      · exact Or.inl
      · rintro (h | rfl)
        · exact h
        · exact Or.inl this
    · have hf : xs.any (Node.isImageNamed (imageName id interp)) = false := by simpa using hany
      simp only [hf, Bool.false_eq_true, if_false, nodeNamesList_append, nodeNamesList, nodeNames, List.mem_append,
        List.mem_singleton, List.append_nil, List.mem_cons, List.not_mem_nil, or_false]
      tauto
  | .group body, xs, ps, n => by
    have ih := buildList_names body [] [] n
    simp only [nodeNamesList, List.append_nil, List.mem_append, List.not_mem_nil, false_or] at ih
    simp only [buildOne, drawNames, nodeNamesList_append, nodeNamesList, nodeNames, List.mem_append, List.append_nil]
    rw [← ih]
    tauto
  | .pattern body, xs, ps, n => by
    have ih := buildList_names body [] [] n
    simp only [nodeNamesList, List.append_nil, List.mem_append, List.not_mem_nil, false_or] at ih
    simp only [buildOne, drawNames, nodeNamesList_append, nodeNamesList, nodeNames, List.mem_append, List.append_nil]
    rw [← ih]
    tauto
end



/-- `images[name]` exists and its `dpi_ratios` set is not empty. -/
def HasEntry (n : String) (imgs : List Entry) : Prop := ∃ e, findEntry n imgs = some e ∧ e.ratios ≠ []

theorem any_iff_findEntry (n : String) (imgs : List Entry) :
    imgs.any (·.name == n) = true ↔ ∃ e, findEntry n imgs = some e := by
  induction imgs with
  | nil => simp [findEntry]
  | cons e rest ih =>
    by_cases h : e.name = n
    · simp [findEntry, h]
    · simp [findEntry, h, ih]

/-- `self._images[image_name]['dpi_ratios'].add(ratio)` on one entry. -/
def bump (name : String) (ratio : Rat) (e : Entry) : Entry :=
  if e.name == name then { e with ratios := e.ratios ++ [ratio] } else e

theorem bump_name (name : String) (ratio : Rat) (e : Entry) : (bump name ratio e).name = e.name := by
  unfold bump; split_ifs <;> rfl

theorem bump_ratios (name : String) (ratio : Rat) (e : Entry) (h : e.ratios ≠ []) :
    (bump name ratio e).ratios ≠ [] := by
  unfold bump; split_ifs <;> simp [h]

theorem findEntry_map_bump (n name : String) (ratio : Rat) (imgs : List Entry) :
    findEntry n (imgs.map (bump name ratio)) = (findEntry n imgs).map (bump name ratio) := by
  induction imgs with
  | nil => simp [findEntry]
  | cons e rest ih =>
    by_cases h2 : e.name = n
    · simp [findEntry, bump_name, h2]
    · simp [findEntry, bump_name, h2, ih]

theorem register_eq (imgs : List Entry) (id : String) (interp : Bool) (ratio : Rat) (alpha : Bool) :
    register imgs id interp ratio alpha =
      if imgs.any (·.name == imageName id interp) then imgs.map (bump (imageName id interp) ratio)
      else imgs ++ [⟨imageName id interp, id, interp, alpha, [ratio]⟩] := rfl

theorem findEntry_append (n : String) (a b : List Entry) :
    findEntry n (a ++ b) = (findEntry n a).orElse (fun _ => findEntry n b) := by
  induction a with
  | nil => simp [findEntry]
  | cons e rest ih => by_cases h : e.name = n <;> simp [findEntry, h, ih]

theorem register_hasEntry (imgs : List Entry) (id : String) (interp : Bool) (ratio : Rat) (alpha : Bool) :
    HasEntry (imageName id interp) (register imgs id interp ratio alpha) ∧
    ∀ n, HasEntry n imgs → HasEntry n (register imgs id interp ratio alpha) := by
  rw [register_eq]
  by_cases hany : imgs.any (·.name == imageName id interp) = true
  · simp only [hany, if_true]
    obtain ⟨e, he⟩ := (any_iff_findEntry _ imgs).mp hany
    constructor
    · refine ⟨_, by rw [findEntry_map_bump, he]; rfl, ?_⟩
      have hn : e.name = imageName id interp := by
        clear hany
        induction imgs with
        | nil => simp [findEntry] at he
        | cons x rest ih =>
          by_cases hx : x.name = imageName id interp
          · simp [findEntry, hx] at he; subst he; exact hx
          · simp [findEntry, hx] at he; exact ih he
      simp [bump, hn]
    · rintro n ⟨e', he', hr'⟩
      exact ⟨_, by rw [findEntry_map_bump, he']; rfl, bump_ratios _ _ _ hr'⟩
  · have hf : imgs.any (·.name == imageName id interp) = false := by simpa using hany
    have hnone : findEntry (imageName id interp) imgs = none := by
      rcases h : findEntry (imageName id interp) imgs with _ | e
      · rfl
      · exact absurd ((any_iff_findEntry _ imgs).mpr ⟨e, h⟩) hany
    simp only [hf, Bool.false_eq_true, if_false]
    constructor
    · exact ⟨⟨imageName id interp, id, interp, alpha, [ratio]⟩, by rw [findEntry_append, hnone]; simp [findEntry], by simp⟩
    · rintro n ⟨e', he', hr'⟩
      exact ⟨e', by rw [findEntry_append, he']; rfl, hr'⟩




mutual
theorem registerAll_hasEntry : ∀ (ds : List Draw) (imgs : List Entry),
    (∀ n, HasEntry n imgs → HasEntry n (registerAll ds imgs)) ∧
    (∀ n ∈ drawNamesList ds, HasEntry n (registerAll ds imgs))
  | [], imgs => by simp [registerAll, drawNamesList]
  | d :: rest, imgs => by
    obtain ⟨a1, a2⟩ := registerOne_hasEntry d imgs
    obtain ⟨b1, b2⟩ := registerAll_hasEntry rest (registerOne d imgs)
    simp only [registerAll, drawNamesList, List.mem_append]
    exact ⟨fun n h => b1 n (a1 n h), fun n h => h.elim (fun h => b1 n (a2 n h)) (fun h => b2 n h)⟩
theorem registerOne_hasEntry : ∀ (d : Draw) (imgs : List Entry),
    (∀ n, HasEntry n imgs → HasEntry n (registerOne d imgs)) ∧
    (∀ n ∈ drawNames d, HasEntry n (registerOne d imgs))
  | .image id interp ratio alpha, imgs => by
    obtain ⟨h1, h2⟩ := register_hasEntry imgs id interp ratio alpha
    simp only [registerOne, drawNames, List.mem_singleton]
    exact ⟨h2, fun n hn => hn ▸ h1⟩
  | .group body, imgs => by simpa [registerOne, drawNames] using registerAll_hasEntry body imgs
  | .pattern body, imgs => by simpa [registerOne, drawNames] using registerAll_hasEntry body imgs
end

theorem run_total (imgs : List Entry) (evs : List Ev) (st : St)
    (h : ∀ n ∈ imageNames evs, HasEntry n imgs) : ∃ st', run imgs evs st = some st' := by
  induction evs generalizing st with
  | nil => exact ⟨st, rfl⟩
  | cons ev rest ih =>
    have hstep : ∃ st1, step imgs st ev = some st1 := by
      cases ev with
      | image name =>
        obtain ⟨e, he, hr⟩ := h name (by simp [imageNames])
        rcases hl : lookup name st.made with _ | n
        · rcases hrs : e.ratios with _ | ⟨r, rs⟩
          · exact absurd hrs hr
          · by_cases ha : e.alpha <;> simp [step, hl, he, hrs, ha]
        · simp [step, hl]
      | openGroup key => simp [step]
      | openPattern key => simp [step]
      | close => simp [step]
    obtain ⟨st1, hs⟩ := hstep
    have hrest : ∀ n ∈ imageNames rest, HasEntry n imgs := by
      intro n hn
      apply h n
      cases ev <;> simp [imageNames, hn]
    obtain ⟨st', hst'⟩ := ih st1 hrest
    exact ⟨st', by simp [run, hs, hst']⟩

/-- **C13.embedded_once** on the model of `Stream.add_image` + `_use_references`. -/
theorem embedded_once_tree (draws : List Draw) (base : Nat) :
    ∃ st, document draws base = some st ∧
      (imageObjNames st.objs).Nodup ∧
      (∀ n, n ∈ imageObjNames st.objs ↔ n ∈ drawNamesList draws) ∧
      imageObjNames st.objs = st.made.map Prod.fst ∧
      RefsOk st := by
  unfold document
  simp only []
  have hnames : ∀ n, n ∈ imageNames (events (buildList draws [] []).1 (buildList draws [] []).2) ↔
      n ∈ drawNamesList draws := by
    intro n
    have := buildList_names draws [] [] n
    simp only [nodeNamesList, List.append_nil, List.not_mem_nil, false_or] at this
    rw [events, imageNames_append, imageNames_flattenList, imageNames_flattenList]
    exact this
  have hentries : ∀ n ∈ imageNames (events (buildList draws [] []).1 (buildList draws [] []).2),
      HasEntry n (registerAll draws []) := fun n hn => (registerAll_hasEntry draws []).2 n ((hnames n).mp hn)
  obtain ⟨st, hst⟩ := run_total _ _ ⟨base, [], [], []⟩ hentries
  obtain ⟨m1, m2, m3⟩ := run_made _ _ _ st hst
  simp only [List.map_nil, List.nil_append, imageObjNames] at m1 m2
  refine ⟨st, hst, by rw [m2]; exact firsts_nodup _ _, fun n => ?_, by rw [m1, m2], m3 (by intro _ _ h; simp at h)⟩
  rw [m2, mem_firsts, hnames]
  simp




mutual
/-- The dpi ratios requested for the image named `n`, in drawing order. -/
def ratiosOfList (n : String) : List Draw → List Rat
  | [] => []
  | d :: rest => ratiosOf n d ++ ratiosOfList n rest
def ratiosOf (n : String) : Draw → List Rat
  | .image id interp ratio _ => if imageName id interp = n then [ratio] else []
  | .group body => ratiosOfList n body
  | .pattern body => ratiosOfList n body
end

/-- `images[name]['dpi_ratios']` (empty when the name is not registered). -/
def entryRatios (n : String) (imgs : List Entry) : List Rat :=
  match findEntry n imgs with
  | some e => e.ratios
  | none => []

theorem entryRatios_register (n : String) (imgs : List Entry) (id : String) (interp : Bool) (ratio : Rat) (alpha : Bool) :
    entryRatios n (register imgs id interp ratio alpha) =
      entryRatios n imgs ++ (if imageName id interp = n then [ratio] else []) := by
  rw [register_eq]
  unfold entryRatios
  by_cases hany : imgs.any (·.name == imageName id interp) = true
  · simp only [hany, if_true, findEntry_map_bump]
    rcases hf : findEntry n imgs with _ | e
    · have hne : ¬ imageName id interp = n := by
        rintro rfl
        obtain ⟨e, he⟩ := (any_iff_findEntry _ imgs).mp hany
        rw [he] at hf; cases hf
      simp [hne]
    · have hn : e.name = n := by
        clear hany
        induction imgs with
        | nil => simp [findEntry] at hf
        | cons x rest ih =>
          by_cases hx : x.name = n
          · simp [findEntry, hx] at hf; subst hf; exact hx
          · simp [findEntry, hx] at hf; exact ih hf
      by_cases hnn : imageName id interp = n
      · simp [bump, hn, hnn]
      · have : ¬ e.name = imageName id interp := by rw [hn]; exact fun h => hnn h.symm
        simp [bump, this, hnn]
  · have hf : imgs.any (·.name == imageName id interp) = false := by simpa using hany
    have hnone : findEntry (imageName id interp) imgs = none := by
      rcases h : findEntry (imageName id interp) imgs with _ | e
      · rfl
      · exact absurd ((any_iff_findEntry _ imgs).mpr ⟨e, h⟩) hany
    simp only [hf, Bool.false_eq_true, if_false, findEntry_append]
    by_cases hnn : imageName id interp = n
    · subst hnn; simp [hnone, findEntry]
    · rcases hfe : findEntry n imgs with _ | e <;> simp [hfe, findEntry, hnn]

mutual
theorem entryRatios_registerAll : ∀ (n : String) (ds : List Draw) (imgs : List Entry),
    entryRatios n (registerAll ds imgs) = entryRatios n imgs ++ ratiosOfList n ds
  | n, [], imgs => by simp [registerAll, ratiosOfList]
  | n, d :: rest, imgs => by
    simp only [registerAll, ratiosOfList]
    rw [entryRatios_registerAll n rest, entryRatios_registerOne n d imgs, List.append_assoc]
theorem entryRatios_registerOne : ∀ (n : String) (d : Draw) (imgs : List Entry),
    entryRatios n (registerOne d imgs) = entryRatios n imgs ++ ratiosOf n d
  | n, .image id interp ratio alpha, imgs => by
    simp only [registerOne, ratiosOf]; exact entryRatios_register n imgs id interp ratio alpha
  | n, .group body, imgs => by simp only [registerOne, ratiosOf]; exact entryRatios_registerAll n body imgs
  | n, .pattern body, imgs => by simp only [registerOne, ratiosOf]; exact entryRatios_registerAll n body imgs
end


/-- Every image XObject was asked for with the largest dpi ratio registered for its name. -/
def RatiosOk (imgs : List Entry) (objs : List Obj) : Prop :=
  ∀ n b r, Obj.image n b r ∈ objs → ∃ r0 rs, entryRatios n imgs = r0 :: rs ∧ r = maxOf r0 rs

theorem step_ratios (imgs : List Entry) (st st1 : St) (ev : Ev) (h : step imgs st ev = some st1)
    (hok : RatiosOk imgs st.objs) : RatiosOk imgs st1.objs := by
  cases ev with
  | image name =>
    rcases hl : lookup name st.made with _ | n
    · simp only [step, hl] at h
      rcases he : findEntry name imgs with _ | e
      · simp [he] at h
      · simp only [he] at h
        rcases hr : e.ratios with _ | ⟨r, rs⟩
        · simp [hr] at h
        · simp only [hr] at h
          have hnew : ∀ n' b' r', Obj.image n' b' r' ∈ st.objs ++ [Obj.image name e.interpolate (maxOf r rs)] →
              ∃ r0 rs', entryRatios n' imgs = r0 :: rs' ∧ r' = maxOf r0 rs' := by
            intro n' b' r' hmem
            rcases List.mem_append.mp hmem with hm | hm
            · exact hok n' b' r' hm
            · simp at hm; obtain ⟨rfl, rfl, rfl⟩ := hm
              exact ⟨r, rs, by simp [entryRatios, he, hr], rfl⟩
          by_cases ha : e.alpha
          · simp [ha] at h; subst h
            intro n' b' r' hmem
            simp only [List.append_assoc] at hmem
            rcases List.mem_append.mp hmem with hm | hm
            · exact hnew n' b' r' (List.mem_append_left _ hm)
            · simp at hm
              obtain ⟨rfl, rfl, rfl⟩ := hm
              exact hnew _ e.interpolate _ (List.mem_append_right _ (List.mem_singleton.mpr rfl))
          · simp [ha] at h; subst h
            exact hnew
    · simp [step, hl] at h; subst h; exact hok
  | openGroup key =>
    simp [step] at h; subst h
    intro n b r hmem; simp at hmem; exact hok n b r hmem
  | openPattern key =>
    simp [step] at h; subst h
    intro n b r hmem; simp at hmem; exact hok n b r hmem
  | close =>
    simp [step] at h; subst h
    intro n b r hmem; simp at hmem; exact hok n b r hmem

theorem run_ratios (imgs : List Entry) (evs : List Ev) (st st' : St) (h : run imgs evs st = some st')
    (hok : RatiosOk imgs st.objs) : RatiosOk imgs st'.objs := by
  induction evs generalizing st with
  | nil => simp [run] at h; subst h; exact hok
  | cons ev rest ih =>
    simp only [run] at h
    rcases hs : step imgs st ev with _ | st1
    · simp [hs] at h
    · simp only [hs] at h
      exact ih st1 h (step_ratios imgs st st1 ev hs hok)

/-- `get_x_object` is called with the maximum of all the dpi ratios requested for that image, anywhere in
the document. -/
theorem embedded_max_ratio_tree (draws : List Draw) (base : Nat) (st : St)
    (h : document draws base = some st) (n : String) (b : Bool) (r : Rat) (hmem : Obj.image n b r ∈ st.objs) :
    ∃ r0 rs, ratiosOfList n draws = r0 :: rs ∧ r = maxOf r0 rs := by
  unfold document at h
  have := run_ratios _ _ _ st h (by intro _ _ _ hm; simp at hm) n b r hmem
  rw [entryRatios_registerAll] at this
  simpa [entryRatios, findEntry] using this


end Wp.C13
