/-
C13 — lemmas for `Model/ImageId.lean` (which requests of one image cache share a `RasterImage.id`).
-/
import WpModel.Model.ImageId

namespace Wp.C13
open Wp Wp.ImageId

/-- The first request with the key of a request that was made is a request with that key. -/
theorem firstSame_spec (reqs : List Key) (k : Key) (hk : k ∈ reqs) :
    ∃ h : firstSame reqs k < reqs.length, reqs[firstSame reqs k] = k := by
  have hex : ∃ x ∈ reqs, (fun k' => k' == k) x = true := ⟨k, hk, by simp⟩
  have hlt : firstSame reqs k < reqs.length := List.findIdx_lt_length_of_exists hex
  refine ⟨hlt, ?_⟩
  have h2 := List.findIdx_getElem (p := fun k' => k' == k) (xs := reqs) (w := hlt)
  exact eq_of_beq h2


end Wp.C13
