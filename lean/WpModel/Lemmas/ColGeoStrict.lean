/-
C03 geometry for multi-column containers, the strict part: a column box that comes after a spanning block in the
same container fragment is laid out with `page_is_empty = False` (`columns_layout` clears the flag after every
spanning block and after every group), so ALL its lines — the first one included — end above the bottom space.
(`Lemmas/ColGeo.lean` exempts the first line of every column box; this is the class of the seeded change C03-2.)
-/
import WpModel.Lemmas.ColGeo

namespace Wp.PMC
open Wp Wp.PM

/-- Lines of the column boxes that follow a spanning block (a non-column sibling) among the children of a
container fragment, none of them exempt. `seen` = a spanning block came before. -/
def afterSpan (lh : Nat → Rat) : List CFrag → Bool → List PlacedLine
  | [], _ => []
  | f :: rest, seen =>
    (if f.isColumn && seen then placedList lh f.kids false else []) ++ afterSpan lh rest (seen || !f.isColumn)

def hasSpan : List CFrag → Bool
  | [] => false
  | f :: rest => !f.isColumn || hasSpan rest

theorem afterSpan_append (lh : Nat → Rat) (xs ys : List CFrag) (seen : Bool) :
    afterSpan lh (xs ++ ys) seen = afterSpan lh xs seen ++ afterSpan lh ys (seen || hasSpan xs) := by
  induction xs generalizing seen with
  | nil => simp [afterSpan, hasSpan]
  | cons f fs ih =>
    simp only [List.cons_append, afterSpan, hasSpan, ih, List.append_assoc, Bool.or_assoc]

theorem hasSpan_append (xs ys : List CFrag) : hasSpan (xs ++ ys) = (hasSpan xs || hasSpan ys) := by
  induction xs with
  | nil => simp [hasSpan]
  | cons f fs ih => simp [hasSpan, ih, Bool.or_assoc]

@[simp] theorem kids_withGeo (f : CFrag) (g : Geo) : (f.withGeo g).kids = f.kids := by
  cases f <;> rfl

theorem afterSpan_map_setColHeight (lh : Nat → Rat) (h : Rat) (l : List CFrag) (seen : Bool) :
    afterSpan lh (l.map (setColHeight h)) seen = afterSpan lh l seen := by
  induction l generalizing seen with
  | nil => rfl
  | cons f fs ih => simp [afterSpan, ih, setColHeight]

theorem hasSpan_map_setColHeight (h : Rat) (l : List CFrag) : hasSpan (l.map (setColHeight h)) = hasSpan l := by
  induction l with
  | nil => rfl
  | cons f fs ih => simp [hasSpan, ih, setColHeight]

theorem afterSpan_addTrailing (lh : Nat → Rat) (diff : Rat) (l : List CFrag) (seen : Bool) :
    afterSpan lh (addTrailing diff l).1 seen = afterSpan lh l seen := by
  induction l generalizing seen with
  | nil => rfl
  | cons f fs ih =>
    simp only [addTrailing]
    split <;> simp [afterSpan, ih, setColHeight]

/-- Only column boxes, no spanning block before: nothing to check. -/
theorem afterSpan_columns_false (lh : Nat → Rat) (l : List CFrag) (h : ∀ f ∈ l, f.isColumn = true) :
    afterSpan lh l false = [] := by
  induction l with
  | nil => rfl
  | cons f fs ih =>
    have hf := h f (by simp)
    simp only [afterSpan, hf, Bool.and_false, Bool.false_eq_true, if_false, Bool.not_true, Bool.or_false,
      List.nil_append]
    exact ih (fun g hg => h g (by simp [hg]))

theorem hasSpan_columns (l : List CFrag) (h : ∀ f ∈ l, f.isColumn = true) : hasSpan l = false := by
  induction l with
  | nil => rfl
  | cons f fs ih =>
    have hf := h f (by simp)
    simp only [hasSpan, hf, Bool.not_true, Bool.false_or]
    exact ih (fun g hg => h g (by simp [hg]))

theorem linesOk_afterSpan_columns (lh : Nat → Rat) (c : CCtx) (bs : Rat) (l : List CFrag)
    (h : ∀ f ∈ l, f.isColumn = true ∧ LinesOk c bs (placedList lh f.kids false)) :
    LinesOk c bs (afterSpan lh l true) := by
  induction l with
  | nil => exact linesOk_nil c bs
  | cons f fs ih =>
    have hf := h f (by simp)
    simp only [afterSpan, hf.1, Bool.and_true, if_true, Bool.true_or]
    rw [linesOk_append]
    exact ⟨hf.2, ih (fun g hg => h g (by simp [hg]))⟩

/-- What the strict part needs from the layout of a column box: its lines fit under the `page_is_empty` it was
given; and a spanning child never comes back as a column box. -/
structure EnvStrict (lh : Nat → Rat) (env : ColEnv) : Prop where
  col : ∀ (c : CCtx) (a : Nat) (x y bs : Rat) (σ : Option Resume) (pie : Bool) (f : CFrag),
    (env.layCol c a x y bs σ pie).frag = some f → f.isColumn = true ∧ LinesOk c bs (placedList lh f.kids pie)
  span : ∀ (c : CCtx) (i : Nat) (y bs : Rat) (σ : Option Resume) (pie : Bool) (adjL : List Rat) (f : CFrag),
    (env.laySpan c i y bs σ pie adjL).frag = some f → f.isColumn = false

theorem realLoop_strict (lh : Nat → Rat) (env : ColEnv) (hs : EnvStrict lh env) (c : CCtx) (a : Nat) (y : Rat)
    (cs : ColSpec) (opie hd : Bool) (obs : Rat) (bsIn : Rat) :
    ∀ (fuel i : Nat) (s : RealOut), s.bs = bsIn →
      (∀ f ∈ s.columns, f.isColumn = true ∧ LinesOk c bsIn (placedList lh f.kids opie)) →
      ∀ f ∈ (realLoop env c a y cs opie hd obs fuel i s).columns,
        f.isColumn = true ∧ LinesOk c bsIn (placedList lh f.kids opie) := by
  intro fuel
  induction fuel with
  | zero => intro i s _ h; simpa [realLoop] using h
  | succ fuel ih =>
    intro i s hb h
    unfold realLoop
    dsimp only
    split
    · exact h
    · split
      · intro f hf; simp at hf
      · rename_i f0 hf0
        have hfit := hs.col c a (colX cs i) y s.bs s.skip opie f0 hf0
        rw [hb] at hfit
        have hnew : ∀ f ∈ s.columns ++ [f0], f.isColumn = true ∧ LinesOk c bsIn (placedList lh f.kids opie) := by
          intro f hf
          rcases List.mem_append.mp hf with h1 | h1
          · exact h f h1
          · simp only [List.mem_singleton] at h1; subst h1; exact hfit
        split
        · exact hnew
        · split
          · exact hnew
          · exact ih (i + 1) _ hb hnew

/-- The loop over `columns_and_blocks`: the columns that follow a spanning block fit entirely. -/
theorem colsLoop_strict (lh : Nat → Rat) (env : ColEnv) (he : EnvFits lh env) (hs : EnvStrict lh env) (c : CCtx)
    (cs : ColSpec) (hd : Bool) (obs : Rat) (last fuel : Nat) :
    ∀ (items : List ColItem) (s : ColsState), obs ≤ s.bs → (hasSpan s.newChildren = true → s.pie = false) →
      LinesOk c obs (afterSpan lh s.newChildren false) →
      LinesOk c obs (afterSpan lh (colsLoop env c cs hd obs last fuel items s).newChildren false) := by
  intro items
  induction items with
  | nil => intro s _ _ h; simpa [colsLoop] using h
  | cons it rest ih =>
    intro s hbs hpie hok
    cases it with
    | span i =>
      unfold colsLoop
      dsimp only
      split
      · exact hok
      · split
        · exact hok
        · rename_i f hf
          have hnc := hs.span c i s.y obs (subSkipOf s.skip) s.pie s.adj f hf
          have hnew : LinesOk c obs (afterSpan lh (s.newChildren ++ [f]) false) := by
            rw [afterSpan_append, linesOk_append]
            refine ⟨hok, ?_⟩
            simp only [afterSpan, hnc, Bool.false_and, Bool.false_eq_true, if_false, List.append_nil]
            exact linesOk_nil c obs
          split
          · exact hnew
          · apply ih
            · exact hbs
            · intro _; rfl
            · exact hnew
    | group a len =>
      unfold colsLoop
      dsimp only
      split
      · exact hok
      · generalize hbsIn : (if c.pageBottom - (s.y + collapseMargin s.adj) -
            (trialLoop env c a 0 (s.y + collapseMargin s.adj) (c.pageBottom - (s.y + collapseMargin s.adj) - obs)
              cs.count s.skip (cs.balance || decide (a < last)) s.nextPage).height > s.bs
          then c.pageBottom - (s.y + collapseMargin s.adj) -
            (trialLoop env c a 0 (s.y + collapseMargin s.adj) (c.pageBottom - (s.y + collapseMargin s.adj) - obs)
              cs.count s.skip (cs.balance || decide (a < last)) s.nextPage).height
          else s.bs) = bsIn
        have hle : obs ≤ bsIn := by
          rw [← hbsIn]
          split
          · rename_i h; exact Rat.le_trans hbs (Rat.le_of_lt h)
          · exact hbs
        generalize hR : realLoop env c a (s.y + collapseMargin s.adj) cs s.pie hd obs fuel 0
          { columns := [], maxColH := 0, skip := s.skip, colSkip := s.colSkip,
            nextPage := (trialLoop env c a 0 (s.y + collapseMargin s.adj)
              (c.pageBottom - (s.y + collapseMargin s.adj) - obs) cs.count s.skip
              (cs.balance || decide (a < last)) s.nextPage).nextPage,
            bs := bsIn, breakPage := s.breakPage, err := none } = R
        have hfits := realLoop_fits lh env he c a (s.y + collapseMargin s.adj) cs s.pie hd obs bsIn fuel 0
          { columns := [], maxColH := 0, skip := s.skip, colSkip := s.colSkip,
            nextPage := (trialLoop env c a 0 (s.y + collapseMargin s.adj)
              (c.pageBottom - (s.y + collapseMargin s.adj) - obs) cs.count s.skip
              (cs.balance || decide (a < last)) s.nextPage).nextPage,
            bs := bsIn, breakPage := s.breakPage, err := none } rfl hle (linesOk_nil c bsIn)
        have hreal := realLoop_strict lh env hs c a (s.y + collapseMargin s.adj) cs s.pie hd obs bsIn fuel 0
          { columns := [], maxColH := 0, skip := s.skip, colSkip := s.colSkip,
            nextPage := (trialLoop env c a 0 (s.y + collapseMargin s.adj)
              (c.pageBottom - (s.y + collapseMargin s.adj) - obs) cs.count s.skip
              (cs.balance || decide (a < last)) s.nextPage).nextPage,
            bs := bsIn, breakPage := s.breakPage, err := none } rfl (by intro f hf; simp at hf)
        rw [hR] at hreal hfits
        split
        · exact hok
        · have hcols : ∀ f ∈ R.columns, f.isColumn = true := fun f hf => (hreal f hf).1
          have hnew : LinesOk c obs (afterSpan lh (s.newChildren ++ R.columns.map (setColHeight R.maxColH)) false) := by
            rw [afterSpan_append, linesOk_append, afterSpan_map_setColHeight]
            refine ⟨hok, ?_⟩
            cases hsp : hasSpan s.newChildren with
            | false =>
              simp only [Bool.or_false]
              rw [afterSpan_columns_false lh _ hcols]
              exact linesOk_nil c obs
            | true =>
              simp only [Bool.or_true]
              have hp := hpie hsp
              apply linesOk_afterSpan_columns
              intro f hf
              have := hreal f hf
              rw [hp] at this
              exact ⟨this.1, linesOk_mono c obs bsIn _ hle this.2⟩
          have hspan' : hasSpan (s.newChildren ++ R.columns.map (setColHeight R.maxColH)) = hasSpan s.newChildren := by
            rw [hasSpan_append, hasSpan_map_setColHeight, hasSpan_columns _ hcols, Bool.or_false]
          split
          · exact hnew
          · apply ih
            · exact hfits.2
            · intro _; rfl
            · exact hnew

theorem columnsLayout_strict (lh : Nat → Rat) (env : ColEnv) (he : EnvFits lh env) (hs : EnvStrict lh env)
    (c : CCtx) (id idx : Nat) (st : PStyle) (cs : ColSpec) (flags : List Bool) (nkids fuel : Nat) (mt y0 bs0 : Rat)
    (skip : Option Resume) (pie : Bool) (adjL : List Rat) (f : CFrag)
    (h : (columnsLayout env c id idx st cs flags nkids fuel mt y0 bs0 skip pie adjL).frag = some f) :
    LinesOk c bs0 (afterSpan lh f.kids false) := by
  unfold columnsLayout at h
  split at h
  · simp [raisedResult] at h
  · dsimp only at h
    obtain ⟨g, diff, rfl, _, _, _⟩ := colsFinish_frag _ _ _ _ _ _ _ _ _ _ h
    simp only [CFrag.kids, afterSpan_addTrailing]
    rw [← linesOk_inColumn c true]
    apply colsLoop_strict lh env he hs
    · simp only [colsInit]
      split
      · split
        · rename_i hgt; exact Rat.le_of_lt hgt
        · exact Rat.le_refl
      · exact Rat.le_refl
    · intro hp; simp [colsInit, hasSpan] at hp
    · simp only [colsInit, afterSpan]
      exact linesOk_nil _ _

theorem columnsBoxLayout_strict (lh : Nat → Rat) (env : ColEnv) (he : EnvFits lh env) (hs : EnvStrict lh env)
    (c : CCtx) (id idx : Nat) (st : PStyle) (cs : ColSpec) (flags : List Bool) (nkids fuel : Nat) (y bs : Rat)
    (skip : Option Resume) (cb pie : Bool) (adjL : List Rat) (f : CFrag)
    (h : (columnsBoxLayout env c id idx st cs flags nkids fuel y bs skip cb pie adjL).frag = some f) :
    LinesOk c bs (afterSpan lh f.kids false) := by
  unfold columnsBoxLayout at h
  dsimp only at h
  generalize (if (decide (c.currentPage > 1) && pie && (cb || !adjL.isEmpty) && !c.forcedBreak) = true
    then (0 : Rat) else st.mt) = mt at h
  have h1 := fun b g hg => columnsLayout_strict lh env he hs c id idx st cs flags nkids fuel mt y b skip pie adjL g hg
  split at h
  · exact h1 bs f h
  · split at h
    · split at h
      · simp [raisedResult] at h
      · split at h
        · rename_i hpos
          refine linesOk_mono c bs _ _ ?_ (h1 _ f h)
          have : (0 : Rat) < _ := hpos
          grind
        · exact h1 bs f h
    · exact h1 bs f h

/-- `block_level_layout` never returns a column box. -/
theorem layoutBox_not_column (c : CCtx) (box : ColBox) (idx : Nat) (y bs : Rat) (skip : Option Resume)
    (cb pie : Bool) (adjL : List Rat) (f : CFrag)
    (hf : (layoutBox c box idx y bs skip cb pie adjL).frag = some f) : f.isColumn = false := by
  cases box with
  | para id n lineH st =>
    simp only [layoutBox] at hf
    obtain ⟨g, rfl, _⟩ := finishPara_frag' _ _ _ _ _ _ _ _ _ hf
    rfl
  | block id st kids =>
    simp only [layoutBox] at hf
    obtain ⟨g, rfl, _⟩ := finishBlock_frag _ _ _ _ _ _ _ _ hf
    rfl
  | columns id st cs flags kids =>
    simp only [layoutBox] at hf
    unfold columnsBoxLayout at hf
    dsimp only at hf
    have key : ∀ env mt b (g : CFrag), (columnsLayout env c id idx st cs flags kids.length (sizeKids kids + 1) mt y b
        skip pie adjL).frag = some g → g.isColumn = false := by
      intro env mt b g hg
      unfold columnsLayout at hg
      split at hg
      · simp [raisedResult] at hg
      · dsimp only at hg
        obtain ⟨g', diff, rfl, _⟩ := colsFinish_frag _ _ _ _ _ _ _ _ _ _ hg
        rfl
    generalize (if (decide (c.currentPage > 1) && pie && (cb || !adjL.isEmpty) && !c.forcedBreak) = true
      then (0 : Rat) else st.mt) = mt at hf
    split at hf
    · exact key _ _ _ f hf
    · split at hf
      · split at hf
        · simp [raisedResult] at hf
        · split at hf
          · exact key _ _ _ f hf
          · exact key _ _ _ f hf
      · exact key _ _ _ f hf

theorem layoutNth_not_column (c : CCtx) : (kids : List ColBox) → ∀ (i : Nat) (y bs : Rat) (skip : Option Resume)
    (cb pie : Bool) (adjL : List Rat) (f : CFrag),
    (layoutNth c kids i y bs skip cb pie adjL).frag = some f → f.isColumn = false
  | [], i, y, bs, skip, cb, pie, adjL, f, hf => by simp [layoutNth, raisedResult] at hf
  | b :: rest, 0, y, bs, skip, cb, pie, adjL, f, hf => by
    simp only [layoutNth] at hf
    exact layoutBox_not_column c b 0 y bs skip cb pie adjL f hf
  | b :: rest, i + 1, y, bs, skip, cb, pie, adjL, f, hf => by
    simp only [layoutNth] at hf
    exact layoutNth_not_column c rest i y bs skip cb pie adjL f hf

/-- **Columns after a spanning block fit entirely**: in the fragment of a multi-column container returned by any
`block_level_layout` call, every line of every column box that follows a spanning block ends above the bottom
space — no exemption for the first line of the column. -/
theorem container_after_span_fits (lh : Nat → Rat) (id : Nat) (st : PStyle) (cs : ColSpec) (flags : List Bool)
    (kids : List ColBox) (hd : DecoOk (.columns id st cs flags kids)) (hl : LhOk lh (.columns id st cs flags kids))
    (c : CCtx) (idx : Nat) (y bs : Rat) (skip : Option Resume) (cb pie : Bool) (adjL : List Rat) (f : CFrag)
    (hf : (layoutBox c (.columns id st cs flags kids) idx y bs skip cb pie adjL).frag = some f) :
    LinesOk c bs (afterSpan lh f.kids false) := by
  unfold DecoOk at hd
  unfold LhOk at hl
  simp only [layoutBox] at hf
  refine columnsBoxLayout_strict lh _ ?_ ?_ c id idx st cs flags kids.length (sizeKids kids + 1) y bs skip cb pie adjL
    f hf
  · constructor
    · intro c' a x y' bs' σ pie' f' hf'
      dsimp only at hf'
      obtain ⟨g, rfl, _⟩ := finishBlock_frag _ _ _ _ _ _ _ _ hf'
      refine ⟨rfl, ?_⟩
      simp only [placedLines]
      apply linesOk_placedList_anyPie lh c' bs' _ pie'
      apply linesOk_mono c' bs' _ _
        (prepareC_bs_le true c'.base (columnStyle st) y' bs' σ false pie' [] (columnStyle_decoOk st))
      exact kids_fits lh kids hd.2 hl c' (columnStyle st) _ 0 _ a _ pie' _ (by simp [placedList, linesOk_nil])
    · intro c' i y' bs' σ pie' adjL' f' hf'
      exact nth_fits lh kids hd.2 hl c' i y' bs' σ cb pie' adjL' f' hf'
  · constructor
    · intro c' a x y' bs' σ pie' f' hf'
      dsimp only at hf'
      obtain ⟨g, rfl, _⟩ := finishBlock_frag _ _ _ _ _ _ _ _ hf'
      refine ⟨rfl, ?_⟩
      simp only [CFrag.kids]
      apply linesOk_mono c' bs' _ _
        (prepareC_bs_le true c'.base (columnStyle st) y' bs' σ false pie' [] (columnStyle_decoOk st))
      exact kids_fits lh kids hd.2 hl c' (columnStyle st) _ 0 _ a _ pie' _ (by simp [placedList, linesOk_nil])
    · intro c' i y' bs' σ pie' adjL' f' hf'
      exact layoutNth_not_column c' kids i y' bs' σ cb pie' adjL' f' hf'

end Wp.PMC
