/-
The `following_collapsible_space` threading of `process_whitespace` across the boxes of one inline
formatting context (Model/AnonBoxes.lean `pw` / `pwKids`).  Core Lean only.
-/
import WpModel.Lemmas.Whitespace
import WpModel.Lemmas.Boxes

namespace Wp.Bx
open KBox

theorem startsWithSp_append (a b : Text) :
    startsWithSp (a ++ b) = if a.isEmpty then startsWithSp b else startsWithSp a := by
  cases a <;> simp [startsWithSp]

theorem endsWithSp_cons (c : Nat) (t : Text) (h : t ≠ []) : endsWithSp (c :: t) = endsWithSp t := by
  cases t with
  | nil => exact absurd rfl h
  | cons d ds => simp [endsWithSp]

theorem endsWithSp_append (a b : Text) :
    endsWithSp (a ++ b) = if b.isEmpty then endsWithSp a else endsWithSp b := by
  induction a with
  | nil => cases b <;> simp [endsWithSp]
  | cons c cs ih =>
    by_cases hb : b = []
    · subst hb; simp
    · have hne : cs ++ b ≠ [] := by simp [hb]
      rw [List.cons_append, endsWithSp_cons c _ hne, ih]
      simp [hb]

/-- Gluing two texts without double space: fine unless the first ends and the second starts with one. -/
theorem noDoubleSp_append (a b : Text) (ha : noDoubleSp a = true) (hb : noDoubleSp b = true)
    (h : endsWithSp a = true → startsWithSp b = false) : noDoubleSp (a ++ b) = true := by
  induction a with
  | nil => simpa using hb
  | cons c cs ih =>
    cases cs with
    | nil =>
      simp only [List.cons_append, List.nil_append]
      cases b with
      | nil => rfl
      | cons d ds =>
        simp only [noDoubleSp, Bool.and_eq_true, hb, and_true]
        simp only [endsWithSp, startsWithSp, Ch.sp, beq_iff_eq] at h
        by_cases hc : c = 32
        · have := h hc
          simp [hc] at this ⊢
          exact this
        · simp [hc]
    | cons d ds =>
      have ha' := noDoubleSp_tail c _ ha
      simp only [noDoubleSp, Bool.and_eq_true] at ha
      have := ih ha' (by simpa [endsWithSp] using h)
      simp only [List.cons_append, noDoubleSp, Bool.and_eq_true]
      exact ⟨ha.1, by simpa using this⟩

/-- The flag handed to the next box: "the text so far ends with a collapsible space". -/
def FlagOk (f : Bool) (t : Text) (f' : Bool) : Prop :=
  f' = (endsWithSp t || (t.isEmpty && f))

/-- The text after the three substitutions, before a leading space is possibly removed. -/
def collapsed (ws : WS) (t : Text) : Text :=
  spaceSub (if newLineCollapse ws = true then nlToSpace (tabSub (lineFeed t)) else tabSub (lineFeed t))

theorem processText_collapse (ws : WS) (h : spaceCollapse ws = true) (t : Text) (f : Bool) :
    processText ws t f =
      if (f && startsWithSp (collapsed ws t)) = true then
        ⟨(collapsed ws t).drop 1, true, endsWithSp (collapsed ws t)⟩
      else ⟨collapsed ws t, false, endsWithSp (collapsed ws t)⟩ := by
  unfold processText collapsed
  simp only [h, if_true]

theorem lineFeedGo_ne_nil (t : Text) (h : t ≠ []) : lineFeedGo t false ≠ [] := by
  cases t with
  | nil => exact absurd rfl h
  | cons c cs =>
    simp only [lineFeedGo, Bool.and_false, Bool.false_eq_true, if_false]
    split <;> simp

theorem tabSubGo_ne_nil (t : Text) : ∀ (pend : List Nat), (t ≠ [] ∨ pend ≠ []) → tabSubGo t pend false ≠ [] := by
  induction t with
  | nil => intro pend h; rcases h with h | h; exact absurd rfl h; simpa [tabSubGo] using h
  | cons c cs ih =>
    intro pend _
    simp only [tabSubGo, Bool.false_eq_true, if_false]
    split
    · exact ih (c :: pend) (Or.inr (by simp))
    · split <;> simp

theorem spaceSubGo_ne_nil (t : Text) (h : t ≠ []) : spaceSubGo t false ≠ [] := by
  cases t with
  | nil => exact absurd rfl h
  | cons c cs =>
    simp only [spaceSubGo, Bool.false_eq_true, if_false]
    split <;> simp

theorem collapsed_ne_nil (ws : WS) (t : Text) (h : t ≠ []) : collapsed ws t ≠ [] := by
  unfold collapsed spaceSub
  apply spaceSubGo_ne_nil
  have h1 : tabSub (lineFeed t) ≠ [] := tabSubGo_ne_nil _ [] (Or.inl (lineFeedGo_ne_nil t h))
  split
  · simpa [nlToSpace] using h1
  · exact h1

theorem collapsed_noDouble (ws : WS) (t : Text) : noDoubleSp (collapsed ws t) = true :=
  (spaceSubGo_spec _ false).1

/-- One text box of a collapsing `white-space`: its new text has no double space, does not start
with a space after a collapsible space, and hands on the right flag. -/
theorem processText_thread (ws : WS) (h : spaceCollapse ws = true) (t : Text) (ht : t ≠ []) (f : Bool) :
    noDoubleSp (processText ws t f).text = true ∧
    (f = true → startsWithSp (processText ws t f).text = false) ∧
    FlagOk f (processText ws t f).text (processText ws t f).following := by
  rw [processText_collapse ws h t f]
  have hnd := collapsed_noDouble ws t
  have hne := collapsed_ne_nil ws t ht
  generalize collapsed ws t = u at hnd hne
  cases u with
  | nil => exact absurd rfl hne
  | cons c cs =>
    by_cases hc : (f && startsWithSp (c :: cs)) = true
    · rw [if_pos hc]
      simp only [Bool.and_eq_true, startsWithSp, Ch.sp, beq_iff_eq] at hc
      obtain ⟨hf, rfl⟩ := hc
      subst hf
      simp only [List.drop_succ_cons, List.drop_zero, FlagOk, Bool.and_true]
      cases cs with
      | nil => simp [noDoubleSp, startsWithSp, endsWithSp, Ch.sp]
      | cons d ds =>
        refine ⟨noDoubleSp_tail _ _ hnd, fun _ => ?_, by simp [endsWithSp]⟩
        simp only [noDoubleSp, Bool.and_eq_true, Bool.not_eq_true', Bool.and_eq_false_iff] at hnd
        simp only [startsWithSp, Ch.sp]
        rcases hnd.1 with h1 | h1
        · simp at h1
        · exact h1
    · rw [if_neg hc]
      refine ⟨hnd, fun hf => ?_, by simp [FlagOk]⟩
      subst hf
      simpa using hc

/-! ### an inline formatting context -/

mutual
/-- Inline content in normal flow with collapsing `white-space`: text boxes and inline boxes only. -/
def IC : KBox → Prop
  | .mk k st _ inst text kids _ =>
    st.run = false ∧ st.abs = false ∧ st.foot = false ∧ (st.flt && !inst.noFloat) = false ∧
    ((Gen.isSub k .TextBox = true ∧ spaceCollapse st.ws = true ∧ kids = []) ∨
     (Gen.isSub k .TextBox = false ∧ Gen.isSub k .InlineBox = true ∧ text = [] ∧ ICL kids))
def ICL : List KBox → Prop
  | [] => True
  | c :: cs => IC c ∧ ICL cs
end

theorem ic_inFlow {b : KBox} (h : IC b) : b.inFlow = true ∧ b.st.run = false ∧
    (b.isA .TextBox = true ∨ b.isA .InlineBox = true) := by
  obtain ⟨k, st, el, inst, text, kids, cols⟩ := b
  unfold IC at h
  obtain ⟨h1, h2, h3, h4, h5⟩ := h
  refine ⟨by simp [KBox.inFlow, KBox.isFloated, KBox.st, KBox.inst, h1, h2, h3, h4], h1, ?_⟩
  rcases h5 with h5 | h5
  · exact Or.inl h5.1
  · exact Or.inr h5.2.1

/-- The three facts threaded through the boxes: `t` is the text produced so far. -/
def Threaded (f : Bool) (t : Text) (f' : Bool) : Prop :=
  noDoubleSp t = true ∧ (f = true → startsWithSp t = false) ∧ FlagOk f t f'

theorem threaded_nil (f : Bool) : Threaded f [] f := by
  simp [Threaded, noDoubleSp, startsWithSp, FlagOk, endsWithSp]

/-- Composition: the flag leaving the first text enters the second. -/
theorem threaded_append (f f1 f2 : Bool) (a b : Text) (ha : Threaded f a f1) (hb : Threaded f1 b f2) :
    Threaded f (a ++ b) f2 := by
  obtain ⟨a1, a2, a3⟩ := ha
  obtain ⟨b1, b2, b3⟩ := hb
  unfold FlagOk at a3 b3
  refine ⟨?_, ?_, ?_⟩
  · apply noDoubleSp_append a b a1 b1
    intro he
    apply b2
    rw [a3, he]; rfl
  · intro hf
    rw [startsWithSp_append]
    split
    · rename_i hae
      apply b2
      have : a = [] := by simpa using hae
      rw [a3, this, hf]; rfl
    · exact a2 hf
  · unfold FlagOk
    rw [b3, endsWithSp_append]
    by_cases hbe : b = []
    · subst hbe; simp [a3, endsWithSp]
    · have : b.isEmpty = false := by simpa using hbe
      have hab : (a ++ b).isEmpty = false := by simp [hbe]
      simp [this, hab]

mutual
/-- `process_whitespace` over an inline formatting context: the concatenated text of the boxes has
no double space, does not begin with a space when a collapsible space precedes, and the returned
flag says whether it ends with one. -/
theorem pw_threaded : ∀ (b : KBox) (f : Bool), IC b →
    Threaded f (leafText (pw b f).1) (pw b f).2
  | .mk k st el inst text kids cols, f, h => by
    have hfl := (ic_inFlow h).1
    unfold IC at h
    obtain ⟨hrun, _, _, _, hcase⟩ := h
    unfold pw
    rcases hcase with ⟨ht, hws, hk⟩ | ⟨ht, _, htext, hkids⟩
    · subst hk
      simp only [ht, if_true]
      split
      · rename_i he
        have : text = [] := by simpa using he
        subst this
        simpa [leafText, leafTextL] using threaded_nil f
      · rename_i he
        have hne : text ≠ [] := by simpa using he
        have := processText_thread st.ws hws text hne f
        simp only [leafText, leafTextL, List.append_nil, hrun, Bool.not_false, Bool.and_true]
        exact this
    · subst htext
      simp only [ht, Bool.false_eq_true, if_false]
      have := pwKids_threaded kids f hkids
      simp only [hrun, Bool.not_false, Bool.and_true, leafText, List.nil_append]
      exact this
theorem pwKids_threaded : ∀ (kids : List KBox) (f : Bool), ICL kids →
    Threaded f (leafTextL (pwKids kids f).1) (pwKids kids f).2
  | [], f, _ => by simpa [pwKids, leafTextL] using threaded_nil f
  | c :: cs, f, h => by
    unfold ICL at h
    obtain ⟨hfl, _, hkind⟩ := ic_inFlow h.1
    have hc : (Gen.isSub c.kind .TextBox || Gen.isSub c.kind .InlineBox) = true := by
      simp only [KBox.isA] at hkind
      rcases hkind with h1 | h1 <;> simp [h1]
    unfold pwKids
    simp only [hc, if_true, hfl]
    have h1 := pw_threaded c f h.1
    have h2 := pwKids_threaded cs (pw c f).2 h.2
    simp only [leafTextL]
    exact threaded_append f _ _ _ _ h1 h2
end

/-- The inline content of *any* container — a block, a float, an absolutely positioned or running box, a
cell …: the box is not a text box and its children are inline content in normal flow (`ICL`).  Nothing is
asked of the box's own `float` / `position` (since b7d94f7 the state is handed from child to child
whatever the container is). -/
def IFC (b : KBox) : Prop := b.isA .TextBox = false ∧ b.text = [] ∧ ICL b.kids

theorem pw_ifc (b : KBox) (f : Bool) (h : IFC b) :
    Threaded f (leafText (pw b f).1) ((pwKids b.kids f).2) ∧ (pw b f).2 = ((pwKids b.kids f).2 && !b.st.run) := by
  obtain ⟨k, st, el, inst, text, kids, cols⟩ := b
  obtain ⟨ht, htext, hkids⟩ := h
  simp only [KBox.isA, KBox.kind] at ht
  simp only [KBox.text] at htext
  simp only [KBox.kids] at hkids
  subst htext
  have := pwKids_threaded kids f hkids
  unfold pw
  simp only [ht, Bool.false_eq_true, if_false, leafText, List.nil_append, KBox.kids, KBox.st]
  exact ⟨this, trivial⟩

end Wp.Bx
