/-
Embedding of the stage-1 grammar (`PM.PBox`) into the stage-2a grammar (`PMO.OBox`, every box static,
no `clear`): the extended layout functions compute, on embedded documents, the embedding of what the
stage-1 functions compute. Hence every stage-1 theorem transfers to the static fragment of stage 2a.
-/
import WpModel.Model.PaginateOof

namespace Wp.PMO
open Wp Wp.PM

def embedSt (st : PStyle) : OStyle := { toPStyle := st, pos := .static, clear := false }

mutual
def embed : PBox → OBox
  | .para id n lineH st => .para id n lineH (embedSt st)
  | .block id st kids => .block id (embedSt st) (embedList kids)
def embedList : List PBox → List OBox
  | [] => []
  | b :: bs => embed b :: embedList bs
end

mutual
def embedFrag : Frag → OFrag
  | .para id idx st n g lines => .para 0 id idx (embedSt st) n g lines
  | .block id idx st g kids => .block 0 id idx (embedSt st) g (embedFragList kids)
def embedFragList : List Frag → List OFrag
  | [] => []
  | f :: fs => embedFrag f :: embedFragList fs
end

def embedDoc (d : PM.Doc) : Doc := { pageH := d.pageH, rootLtr := d.rootLtr, root := embed d.root }

/-- The page of the extended model that corresponds to a stage-1 page; `top` = the `rootTop` value
threaded by `make_all_pages` (unused on documents without out-of-flow boxes). -/
def embedPage (top : Rat) (p : PM.Page) : Page :=
  { type := p.type, root := embedFrag p.root, resume := p.resume, nextPage := p.nextPage, broken := [],
    rootTop := top, crash := false }

def nextTop (top : Rat) (p : PM.Page) : Rat :=
  if p.type.blank then top else p.root.geo.mt + p.root.geo.bt + p.root.geo.pt

def embedPages : Rat → List PM.Page → List Page
  | _, [] => []
  | top, p :: ps => embedPage (nextTop top p) p :: embedPages (nextTop top p) ps

/-! ### basic facts -/

@[simp] theorem embedSt_toPStyle (st : PStyle) : (embedSt st).toPStyle = st := rfl
@[simp] theorem embedSt_pos (st : PStyle) : (embedSt st).pos = .static := rfl
@[simp] theorem embedSt_clear (st : PStyle) : (embedSt st).clear = false := rfl
@[simp] theorem embedSt_bfc (st : PStyle) : (embedSt st).bfc = false := rfl

@[simp] theorem embed_st (b : PBox) : (embed b).st = embedSt b.st := by
  cases b <;> simp [embed, OBox.st, PBox.st]

@[simp] theorem embed_inFlow (b : PBox) : (embed b).inFlow = true := by
  simp [OBox.inFlow]

@[simp] theorem embedFrag_inFlow (f : Frag) : (embedFrag f).inFlow = true := by
  cases f <;> simp [embedFrag, OFrag.inFlow]

@[simp] theorem embedFrag_isPh (f : Frag) : (embedFrag f).isPh = false := by
  cases f <;> simp [embedFrag, OFrag.isPh]

@[simp] theorem embedFrag_isAbs (f : Frag) : (embedFrag f).isAbs = false := by
  cases f <;> simp [embedFrag, OFrag.isAbs]

@[simp] theorem embedFrag_geo (f : Frag) : (embedFrag f).geo = f.geo := by
  cases f <;> simp [embedFrag, OFrag.geo, Frag.geo]

@[simp] theorem embedFrag_idx (f : Frag) : (embedFrag f).idx = f.idx := by
  cases f <;> simp [embedFrag, OFrag.idx, Frag.idx]

@[simp] theorem embedFrag_withIdx (f : Frag) (i : Nat) : (embedFrag f).withIdx i = embedFrag (f.withIdx i) := by
  cases f <;> simp [embedFrag, OFrag.withIdx, Frag.withIdx]

@[simp] theorem embedFrag_brkInside (f : Frag) : (embedFrag f).brkInside = f.st.brkInside := by
  cases f <;> simp [embedFrag, OFrag.brkInside, Frag.st]

@[simp] theorem embedFragList_append (a b : List Frag) :
    embedFragList (a ++ b) = embedFragList a ++ embedFragList b := by
  induction a with
  | nil => simp [embedFragList]
  | cons x xs ih => simp [embedFragList, ih]

@[simp] theorem embedFragList_isEmpty (a : List Frag) : (embedFragList a).isEmpty = a.isEmpty := by
  cases a <;> simp [embedFragList]

theorem embedFragList_eq_map (a : List Frag) : embedFragList a = a.map embedFrag := by
  induction a with
  | nil => rfl
  | cons x xs ih => simp [embedFragList, ih]

/-! ### no floats: nothing to avoid, no clearance -/

@[simp] theorem avoidLine_nil (h y : Rat) : avoidLine [] h y = y := by
  simp [avoidLine, avoidY, minRat]

@[simp] theorem getClearance_nil (clear : Bool) (hyp : Rat) : getClearance [] clear hyp = none := rfl

@[simp] theorem getClearance_noclear (shapes : List Shape) (hyp : Rat) : getClearance shapes false hyp = none := by
  unfold getClearance
  induction shapes with
  | nil => rfl
  | cons s ss ih => simpa using ih

theorem lineLoop_nil (c : Ctx) (st : PStyle) (b : BoxSt) (n : Nat) (lineH : Rat) (pie : Bool) (bs : Rat)
    (fuel i : Nat) (y : Rat) (s : LineLoop) :
    lineLoop c st b n lineH pie bs [] fuel i y s = PM.lineLoop c st b n lineH pie bs fuel i y s := by
  induction fuel generalizing i y s with
  | zero => simp [lineLoop, PM.lineLoop]
  | succ k ih =>
    simp only [lineLoop, PM.lineLoop, avoidLine_nil, ih]

theorem lineboxLayout_nil (c : Ctx) (st : PStyle) (b : BoxSt) (n : Nat) (lineH : Rat) (pie : Bool)
    (adj : List Rat) (bs posY : Rat) (skip : Option Resume) (dbd : Bool) :
    lineboxLayout c st b n lineH pie adj bs posY skip dbd [] =
      PM.lineboxLayout c st b n lineH pie adj bs posY skip dbd := by
  have h : lineboxLoop c st b n lineH pie adj bs posY skip dbd [] =
      PM.lineboxLoop c st b n lineH pie adj bs posY skip dbd := by
    simp [lineboxLoop, PM.lineboxLoop, lineLoop_nil]
  unfold lineboxLayout PM.lineboxLayout
  rw [h]
  cases PM.lineboxLoop c st b n lineH pie adj bs posY skip dbd <;> rfl

/-! ### break chains, page values, last in-flow child -/

mutual
theorem fragAfterChain_embed : (f : Frag) → fragAfterChain (embedFrag f) = PM.fragAfterChain f
  | .para _ _ _ _ _ _ => by simp [embedFrag, fragAfterChain, PM.fragAfterChain, embedSt]
  | .block _ _ _ _ kids => by
    simp [embedFrag, fragAfterChain, PM.fragAfterChain, fragAfterChainLast_embed kids, embedSt]
theorem fragAfterChainLast_embed : (fs : List Frag) →
    fragAfterChainLast (embedFragList fs) = PM.fragAfterChainLast fs
  | [] => rfl
  | f :: rest => by
    cases rest with
    | nil => simp [embedFragList, fragAfterChainLast, PM.fragAfterChainLast, fragAfterChain_embed f]
    | cons r rs =>
      have := fragAfterChainLast_embed (r :: rs)
      simp only [embedFragList, fragAfterChainLast, PM.fragAfterChainLast] at this ⊢
      exact this
end

mutual
theorem boxBeforeChain_embed : (b : PBox) → boxBeforeChain (embed b) = PM.boxBeforeChain b
  | .para _ _ _ _ => by simp [embed, boxBeforeChain, PM.boxBeforeChain, embedSt]
  | .block _ _ kids => by
    simp [embed, boxBeforeChain, PM.boxBeforeChain, boxBeforeChainFirst_embed kids, embedSt]
theorem boxBeforeChainFirst_embed : (bs : List PBox) →
    boxBeforeChainFirst (embedList bs) = PM.boxBeforeChainFirst bs
  | [] => rfl
  | b :: _ => by simp [embedList, boxBeforeChainFirst, PM.boxBeforeChainFirst, boxBeforeChain_embed b]
end

mutual
theorem fragBeforeChain_embed : (f : Frag) → fragBeforeChain (embedFrag f) = PM.fragBeforeChain f
  | .para _ _ _ _ _ _ => by simp [embedFrag, fragBeforeChain, PM.fragBeforeChain, embedSt]
  | .block _ _ _ _ kids => by
    simp [embedFrag, fragBeforeChain, PM.fragBeforeChain, fragBeforeChainFirst_embed kids, embedSt]
theorem fragBeforeChainFirst_embed : (fs : List Frag) →
    fragBeforeChainFirst (embedFragList fs) = PM.fragBeforeChainFirst fs
  | [] => rfl
  | f :: _ => by simp [embedFragList, fragBeforeChainFirst, PM.fragBeforeChainFirst, fragBeforeChain_embed f]
end

mutual
theorem boxPageStart_embed : (b : PBox) → boxPageStart (embed b) = PM.boxPageStart b
  | .para _ _ _ _ => by simp [embed, boxPageStart, PM.boxPageStart, embedSt]
  | .block _ _ kids => by
    simp [embed, boxPageStart, PM.boxPageStart, boxPageStartFirst_embed kids, embedSt]
theorem boxPageStartFirst_embed : (bs : List PBox) →
    boxPageStartFirst (embedList bs) = PM.boxPageStartFirst bs
  | [] => rfl
  | b :: _ => by simp [embedList, boxPageStartFirst, PM.boxPageStartFirst, boxPageStart_embed b]
end

@[simp] theorem hasInFlow_embed (fs : List Frag) : hasInFlow (embedFragList fs) = !fs.isEmpty := by
  cases fs <;> simp [hasInFlow, embedFragList]

mutual
theorem fragPageEnd_embed : (f : Frag) → fragPageEnd (embedFrag f) = PM.fragPageEnd f
  | .para _ _ _ _ _ _ => by simp [embedFrag, fragPageEnd, PM.fragPageEnd, embedSt]
  | .block _ _ _ _ kids => by
    simp [embedFrag, fragPageEnd, PM.fragPageEnd, fragPageEndLast_embed kids, embedSt]
theorem fragPageEndLast_embed : (fs : List Frag) →
    fragPageEndLast (embedFragList fs) = PM.fragPageEndLast fs
  | [] => rfl
  | f :: rest => by
    cases rest with
    | nil => simp [embedFragList, fragPageEndLast, PM.fragPageEndLast, fragPageEnd_embed f, hasInFlow]
    | cons r rs =>
      have ih := fragPageEndLast_embed (r :: rs)
      have h : hasInFlow (embedFragList (r :: rs)) = true := by simp
      calc fragPageEndLast (embedFragList (f :: r :: rs))
          = fragPageEndLast (embedFragList (r :: rs)) := by
            rw [show embedFragList (f :: r :: rs) = embedFrag f :: embedFragList (r :: rs) from rfl,
              fragPageEndLast, if_pos h]
        _ = PM.fragPageEndLast (r :: rs) := ih
        _ = PM.fragPageEndLast (f :: r :: rs) := by simp [PM.fragPageEndLast]
end

theorem lastInFlow_embed (fs : List Frag) : lastInFlow (embedFragList fs) = fs.getLast?.map embedFrag := by
  induction fs with
  | nil => rfl
  | cons f rest ih =>
    simp only [embedFragList, lastInFlow, ih]
    cases rest with
    | nil => simp
    | cons r rs =>
      cases h : (r :: rs).getLast? with
      | none => simp at h
      | some l => simp [List.getLast?_cons_cons, h]

theorem breakBetween_embed (l : Frag) (child : PBox) :
    breakBetween (some (embedFrag l)) (embed child) = PM.breakBetween l child := by
  simp [breakBetween, PM.breakBetween, fragAfterChain_embed, boxBeforeChain_embed]

theorem breakBetweenFrags_embed (x : Frag) (p : Option Frag) :
    breakBetweenFrags (embedFrag x) (p.map embedFrag) = PM.breakBetweenFrags x p := by
  cases p <;> simp [breakBetweenFrags, PM.breakBetweenFrags, fragAfterChain_embed, fragBeforeChain_embed]

/-! ### `find_earlier_page_break` -/

def embedFound (x : Option (List Frag × Resume)) : Option (List OFrag × Resume) :=
  x.map fun kr => (embedFragList kr.1, kr.2)

def embedFoundFrag (x : Option (Frag × Resume)) : Option (OFrag × Resume) :=
  x.map fun kr => (embedFrag kr.1, kr.2)

theorem findEarlierPara_embed (id idx : Nat) (st : PStyle) (n : Nat) (g : Geo) (lines : List (Nat × Rat)) :
    findEarlierPara 0 id idx (embedSt st) n g lines =
      embedFoundFrag (PM.findEarlierPara id idx st n g lines) := by
  unfold findEarlierPara PM.findEarlierPara embedFoundFrag
  by_cases h0 : lines.isEmpty = true
  · simp [h0]
  · simp only [h0, Bool.false_eq_true, if_false, embedSt]
    by_cases h : ((lines.length : Int) - (st.widows : Int)) < (st.orphans : Int)
    · simp [h]
    · simp only [h, if_false]
      rcases (List.take ((lines.length : Int) - (st.widows : Int)).toNat lines).getLast? with _ | ⟨i, y⟩ <;>
        simp [embedFrag, embedSt]

@[simp] theorem cutEnd_embed (f : Frag) : (embedFrag f).cutEnd = embedFrag f.cutEnd := by
  cases f <;> simp [embedFrag, OFrag.cutEnd, Frag.cutEnd, embedSt]

mutual
theorem findEarlierGo_embed : (fs : List Frag) →
    (findEarlierGo (embedFragList fs)).found = embedFound (PM.findEarlierGo fs).found ∧
    (findEarlierGo (embedFragList fs)).prev = (PM.findEarlierGo fs).prev.map embedFrag ∧
    (findEarlierGo (embedFragList fs)).nxt = fs.head?.map Frag.idx ∧
    ((PM.findEarlierGo fs).found = none → (PM.findEarlierGo fs).prev = fs.head?)
  | [] => by simp [embedFragList, findEarlierGo, PM.findEarlierGo, embedFound]
  | x :: xs => by
    obtain ⟨hf, hp, hn, hh⟩ := findEarlierGo_embed xs
    have hx := findEarlierFrag_embed x
    simp only [embedFragList, findEarlierGo, PM.findEarlierGo, List.head?_cons, Option.map_some]
    rw [hf]
    cases hs : (PM.findEarlierGo xs).found with
    | some kr =>
      obtain ⟨kept, r⟩ := kr
      simp [embedFound, embedFragList, hp]
    | none =>
      have hprev := hh hs
      simp only [embedFound, Option.map_none, embedFrag_inFlow, Bool.not_true, Bool.false_eq_true, if_false]
      rw [hp, breakBetweenFrags_embed, hn, hprev]
      cases xs with
      | nil =>
        simp only [List.head?_nil, Option.map_none, embedFrag_brkInside, embedFrag_idx]
        split
        · rw [hx]
          cases PM.findEarlierFrag x <;> simp [embedFoundFrag, embedFound, embedFragList]
        · simp [embedFound]
      | cons y ys =>
        simp only [List.head?_cons, Option.map_some, embedFrag_brkInside, embedFrag_idx]
        by_cases ha : avoidsPage (PM.breakBetweenFrags x (some y)) = true
        · simp only [ha, Bool.not_true, Bool.false_eq_true, if_false]
          by_cases hb : avoidsPage x.st.brkInside = true
          · simp [hb, embedFound]
          · simp only [hb, Bool.not_false, if_true]
            rw [hx]
            cases PM.findEarlierFrag x <;> simp [embedFoundFrag, embedFound, embedFragList]
        · simp [ha, embedFound, embedFragList]
theorem findEarlierFrag_embed : (f : Frag) →
    findEarlierFrag (embedFrag f) = embedFoundFrag (PM.findEarlierFrag f)
  | .para id idx st n g lines => by
    simp only [embedFrag, findEarlierFrag, PM.findEarlierFrag]
    exact findEarlierPara_embed id idx st n g lines
  | .block id idx st g kids => by
    simp only [embedFrag, findEarlierFrag, PM.findEarlierFrag]
    rw [(findEarlierGo_embed kids).1]
    cases (PM.findEarlierGo kids).found <;> simp [embedFound, embedFoundFrag, embedFrag]
end

theorem findEarlierList_embed (fs : List Frag) :
    findEarlierList (embedFragList fs) = embedFound (PM.findEarlierList fs) :=
  (findEarlierGo_embed fs).1

/-! ### containers -/

def embedResult (r : PM.LayoutResult) : LayoutResult :=
  { frag := r.frag.map embedFrag, resume := r.resume, nextPage := r.nextPage, adj := r.adj,
    collapsingThrough := r.collapsingThrough, adjL := r.adjL, clearance := none, w := World.empty }

def embedPrep (p : PM.Prep) (callerAdjL : List Rat) : Prep :=
  { b := p.b, bs := p.bs, adjL := p.adjL, cwc := p.cwc, cur := p.cur, curIsL := p.curIsL, posY := p.posY,
    dbd := p.dbd, isStart := p.isStart, clearance := none, callerAdjL := callerAdjL }

def embedLoop (boxY : Rat) (s : PM.KidsLoop) : KidsLoop :=
  { newChildren := embedFragList s.newChildren, posY := s.posY, boxY := boxY, adjL := s.adjL, cur := s.cur,
    curIsL := s.curIsL, nextPage := s.nextPage, skip := s.skip, localBroken := [], w := World.empty }

def embedOutcome (boxY : Rat) : PM.KidsOutcome → KidsOutcome
  | .finished s => .finished (embedLoop boxY s)
  | .aborted page s => .aborted page (embedLoop boxY s)
  | .stopped r s => .stopped r (embedLoop boxY s)

@[simp] theorem World.empty_remove (sers : List Nat) : World.empty.remove sers = World.empty := rfl
@[simp] theorem World.empty_shift (sers : List Nat) (dy : Rat) : World.empty.shift sers dy = World.empty := rfl
@[simp] theorem World.empty_removeDropped (a b : List OFrag) : World.empty.removeDropped a b = World.empty := rfl
@[simp] theorem World.empty_shapes : World.empty.shapes = [] := rfl

theorem prepare_embed (c : Ctx) (st : PStyle) (y bs : Rat) (skip : Option Resume) (cb pie : Bool)
    (adjL : List Rat) :
    prepare c (embedSt st) y bs skip cb pie adjL [] = embedPrep (PM.prepare c st y bs skip cb pie adjL) adjL := by
  unfold prepare PM.prepare
  simp only [getClearance_nil, embedSt_bfc, Bool.or_false, embedSt_toPStyle, embedSt_clear]
  rw [apply_ite (fun p => embedPrep p adjL)]
  rfl

theorem finishTail_embed (c : Ctx) (st : PStyle) (b : BoxSt) (bs : Rat) (cwc dbd : Bool)
    (resume : Option Resume) (posY : Rat) (adjL cur : List Rat) (curIsL hasKids : Bool) :
    finishTail c (embedSt st) b bs cwc dbd resume posY adjL cur curIsL hasKids [] =
      PM.finishTail c st b bs cwc dbd resume posY adjL cur curIsL hasKids := by
  unfold finishTail PM.finishTail
  simp only [getClearance_nil, Option.isNone_none, Bool.true_and, Bool.and_true, embedSt_bfc, Bool.or_false,
    embedSt_toPStyle, embedSt_clear]
  rfl

@[simp] theorem fragSersList_remove_empty (ks : List OFrag) : World.empty.remove (fragSersList ks) = World.empty := rfl

theorem finishContainer_embed (c : Ctx) (st : PStyle) (b : BoxSt) (isStart pie : Bool) (bs : Rat) (cwc dbd : Bool)
    (resume : Option Resume) (posY : Rat) (adjL cur : List Rat) (curIsL : Bool) (np : NextPage)
    (hasKids : Bool) (pageEnd : String) (kids : List OFrag) (mk : Geo → Frag) :
    finishContainer c (embedSt st) b pie bs cwc dbd resume posY adjL cur curIsL np hasKids pageEnd kids []
        World.empty (fun g => embedFrag (mk g)) =
      embedResult (PM.finishContainer c st b isStart pie bs cwc dbd resume posY adjL cur curIsL np hasKids
        pageEnd mk) := by
  unfold finishContainer PM.finishContainer
  simp only [embedSt_toPStyle, finishTail_embed, World.empty_shapes]
  split
  · rfl
  · rcases np with ⟨brk, page⟩
    cases page <;> simp [embedResult, World.empty]

theorem finishPara_embed (c : Ctx) (st : PStyle) (p : PM.Prep) (pie : Bool) (id idx n : Nat) (r : LineResult)
    (callerAdjL : List Rat) :
    finishPara c (embedSt st) (embedPrep p callerAdjL) pie id idx n r World.empty =
      embedResult (PM.finishPara c st p pie id idx n r) := by
  unfold finishPara PM.finishPara
  simp only [embedPrep, embedSt_toPStyle]
  split
  · rfl
  · exact finishContainer_embed c st _ p.isStart pie p.bs p.cwc _ _ r.posY p.adjL [] false _ _ st.page []
      (fun g => Frag.para id idx st n g r.lines)

theorem pageEndOf_embed (st : PStyle) (kids : List Frag) :
    pageEndOf (embedSt st) (embedFragList kids) = PM.pageEndOf st kids := by
  simp [pageEndOf, PM.pageEndOf, fragPageEndLast_embed]

theorem finishBlock_embed (c : Ctx) (st : PStyle) (p : PM.Prep) (pie : Bool) (id idx : Nat)
    (out : PM.KidsOutcome) (callerAdjL : List Rat) :
    finishBlock c (embedSt st) (embedPrep p callerAdjL) pie id idx (embedOutcome p.b.y out) =
      embedResult (PM.finishBlock c st p pie id idx out) := by
  cases out with
  | aborted page s => rfl
  | stopped resume s =>
    simp only [embedOutcome, finishBlock, PM.finishBlock, embedLoop, embedPrep, embedSt_toPStyle,
      hasInFlow_embed, pageEndOf_embed]
    exact finishContainer_embed c st _ p.isStart pie p.bs p.cwc p.dbd _ s.posY s.adjL [] false s.nextPage _ _ _
      (fun g => Frag.block id idx st g s.newChildren)
  | finished s =>
    simp only [embedOutcome, finishBlock, PM.finishBlock, embedLoop, embedPrep, embedSt_toPStyle,
      hasInFlow_embed, pageEndOf_embed]
    exact finishContainer_embed c st _ p.isStart pie p.bs p.cwc p.dbd none s.posY s.adjL s.cur s.curIsL s.nextPage _ _ _
      (fun g => Frag.block id idx st g s.newChildren)

/-! ### the children loop -/

@[simp] theorem embedLoop_setCur (y : Rat) (s : PM.KidsLoop) (l : List Rat) (b : Bool) :
    (embedLoop y s).setCur l b = embedLoop y (s.setCur l b) := by
  unfold KidsLoop.setCur PM.KidsLoop.setCur embedLoop
  split <;> rfl

@[simp] theorem embedLoop_appendCur (y : Rat) (s : PM.KidsLoop) (m : Rat) :
    (embedLoop y s).appendCur m = embedLoop y (s.appendCur m) := by
  unfold KidsLoop.appendCur PM.KidsLoop.appendCur embedLoop
  split <;> simp_all

@[simp] theorem embedLoop_adoptAdj (y : Rat) (s : PM.KidsLoop) (h : Bool) (a : AdjOut) (f : Option Frag) :
    (embedLoop y s).adoptAdj h a (f.map embedFrag) = embedLoop y (s.adoptAdj h a f) := by
  unfold KidsLoop.adoptAdj PM.KidsLoop.adoptAdj
  split
  · rfl
  · cases a <;> cases f <;> simp

theorem meetBreak_embed (y : Rat) (s : PM.KidsLoop) (child : PBox) :
    meetBreak (embedLoop y s) (embed child) = PM.meetBreak s child := by
  unfold meetBreak PM.meetBreak
  simp only [embedLoop, lastInFlow_embed]
  cases s.newChildren.getLast? with
  | none => rfl
  | some l => simp [breakBetween_embed, fragPageEnd_embed, boxPageStart_embed]

theorem embedFragList_all_isPh (l : List Frag) : (embedFragList l).all OFrag.isPh = l.isEmpty := by
  cases l <;> simp [embedFragList]

theorem embedFragList_all_isAbs (l : List Frag) : (embedFragList l).all OFrag.isAbs = l.isEmpty := by
  cases l <;> simp [embedFragList]

theorem pienc_embed (pie : Bool) (y : Rat) (s : PM.KidsLoop) :
    pienc pie (embedLoop y s) = (pie && s.newChildren.isEmpty) := by
  simp [pienc, embedLoop, embedFragList_all_isPh]

theorem preFlow_embed (c : Ctx) (b : BoxSt) (cwc pie : Bool) (child : PBox) (y : Rat) (s : PM.KidsLoop) :
    preFlow c b cwc pie (embed child) (embedLoop y s) = embedLoop y s := by
  unfold preFlow
  split
  · rfl
  · rename_i h
    have hl : s.newChildren = [] := by
      simp only [embedLoop, lastInFlow_embed, Bool.or_eq_true, not_or] at h
      have h1 := h.1
      cases hn : s.newChildren with
      | nil => rfl
      | cons a as =>
        rw [hn] at h1
        cases hg : (a :: as).getLast? with
        | none => simp at hg
        | some l => simp [hg] at h1
    simp [embedLoop, hl, embedFragList, translateList, fragSersList]

def embedFirstPass : PM.FirstPass → FirstPass
  | .keep f y => .keep (f.map embedFrag) y
  | .redo bs => .redo bs

theorem firstPass_embed (c : Ctx) (bs : Rat) (pe : Bool) (posY : Rat) (r : PM.LayoutResult) :
    firstPass c bs pe posY (embedResult r) = embedFirstPass (PM.firstPass c bs pe posY r) := by
  unfold firstPass PM.firstPass embedResult
  cases r.frag with
  | none => rfl
  | some f =>
    simp only [Option.map_some, embedFrag_geo]
    split
    · rfl
    · split
      · rfl
      · split <;> rfl

@[simp] theorem dropFrag_empty (a b : Option OFrag) : dropFrag World.empty a b = World.empty := by
  unfold dropFrag; split <;> rfl

@[simp] theorem clearancePosY_none (f : Option OFrag) (y : Rat) : clearancePosY none f y = y := by
  unfold clearancePosY; split <;> simp_all

def embedConclude (y : Rat) (x : Option PM.KidsOutcome × PM.KidsLoop) : Option KidsOutcome × KidsLoop :=
  (x.1.map (embedOutcome y), embedLoop y x.2)

theorem concludeKid_embed (index : Nat) (pie : Bool) (pb : Brk) (child : PBox) (y : Rat) (s : PM.KidsLoop)
    (frag : Option Frag) (resume : Option Resume) :
    concludeKid index pie pb (embed child) (embedLoop y s) (frag.map embedFrag) resume =
      embedConclude y (PM.concludeKid index pie pb child s frag resume) := by
  unfold concludeKid PM.concludeKid embedConclude
  cases frag with
  | none =>
    simp only [Option.map_none]
    by_cases ha : avoidsPage pb = true
    · simp only [ha, if_true, embedLoop, findEarlierList_embed]
      cases PM.findEarlierList s.newChildren with
      | some kr => simp [embedFound, embedOutcome, embedLoop]
      | none =>
        simp only [embedFound, Option.map_none, Bool.true_and, boxPageStart_embed]
        by_cases hp : pie = true
        · simp only [hp, Bool.not_true, Bool.false_eq_true, if_false, embedFragList_all_isAbs]
          cases hn : s.newChildren with
          | nil => simp [embedFragList, embedOutcome, embedLoop, hn, fragSersList]
          | cons a as => simp [embedFragList, embedOutcome, embedLoop, hn]
        · simp [hp, embedOutcome, embedLoop]
    · simp only [ha, Bool.false_eq_true, if_false, Bool.false_and, boxPageStart_embed, embedLoop,
        embedFragList_all_isAbs]
      cases hn : s.newChildren with
      | nil => simp [embedFragList, embedOutcome, embedLoop, hn, fragSersList]
      | cons a as => simp [embedFragList, embedOutcome, embedLoop, hn]
  | some f =>
    simp only [Option.map_some]
    cases resume with
    | some r => simp [embedOutcome, embedLoop, embedFragList]
    | none => simp [embedLoop, embedFragList]

theorem concludeKid_embed_none (index : Nat) (pie : Bool) (pb : Brk) (child : PBox) (y : Rat) (s : PM.KidsLoop)
    (resume : Option Resume) :
    concludeKid index pie pb (embed child) (embedLoop y s) none resume =
      embedConclude y (PM.concludeKid index pie pb child s none resume) :=
  concludeKid_embed index pie pb child y s none resume

theorem concludeKid_embed_some (index : Nat) (pie : Bool) (pb : Brk) (child : PBox) (y : Rat) (s : PM.KidsLoop)
    (f : Frag) (resume : Option Resume) :
    concludeKid index pie pb (embed child) (embedLoop y s) (some (embedFrag f)) resume =
      embedConclude y (PM.concludeKid index pie pb child s (some f) resume) :=
  concludeKid_embed index pie pb child y s (some f) resume

@[simp] theorem seenByCaller_embed (p : PM.Prep) (l : List Rat) (r : LayoutResult) :
    (embedPrep p l).seenByCaller r = r := rfl

theorem embedLoop_w (y : Rat) (s : PM.KidsLoop) : { embedLoop y s with w := World.empty } = embedLoop y s := rfl

mutual
/-- `block_level_layout` of an embedded box in a world without out-of-flow state is the embedding of the
stage-1 result. -/
theorem layoutBox_embed : (box : PBox) → ∀ (c : Ctx) (idx : Nat) (y bs : Rat) (skip : Option Resume)
    (cb pie : Bool) (adjL : List Rat),
    layoutBox c (embed box) idx y bs skip cb pie adjL World.empty =
      embedResult (PM.layoutBox c box idx y bs skip cb pie adjL)
  | .para id n lineH st => by
    intro c idx y bs skip cb pie adjL
    simp only [embed, layoutBox, PM.layoutBox, World.empty_shapes, prepare_embed, seenByCaller_embed,
      embedSt_toPStyle]
    rw [show (embedPrep (PM.prepare c st y bs skip cb pie adjL) adjL).b = (PM.prepare c st y bs skip cb pie adjL).b
      from rfl]
    simp only [embedPrep, lineboxLayout_nil]
    exact finishPara_embed c st _ pie id idx n _ adjL
  | .block id st kids => by
    intro c idx y bs skip cb pie adjL
    simp only [embed, layoutBox, PM.layoutBox, World.empty_shapes, prepare_embed, seenByCaller_embed]
    have hk := layoutKids_embed kids c st (PM.prepare c st y bs skip cb pie adjL).b
      (PM.prepare c st y bs skip cb pie adjL).cwc 0 (skipIdxOf skip) (PM.prepare c st y bs skip cb pie adjL).bs pie
      { newChildren := [], posY := (PM.prepare c st y bs skip cb pie adjL).posY,
        adjL := (PM.prepare c st y bs skip cb pie adjL).adjL, cur := (PM.prepare c st y bs skip cb pie adjL).cur,
        curIsL := (PM.prepare c st y bs skip cb pie adjL).curIsL,
        nextPage := { brk := none, page := none }, skip := subSkipOf skip }
      (PM.prepare c st y bs skip cb pie adjL).b.y
    simp only [embedLoop, embedFragList] at hk
    simp only [embedPrep]
    rw [hk]
    exact finishBlock_embed c st _ pie id idx _ adjL
theorem layoutKids_embed : (kids : List PBox) → ∀ (c : Ctx) (st : PStyle) (b : BoxSt) (cwc : Bool)
    (index skipIdx : Nat) (bs : Rat) (pie : Bool) (s : PM.KidsLoop) (boxY : Rat),
    layoutKids c (embedSt st) b cwc (embedList kids) index skipIdx bs pie (embedLoop boxY s) =
      embedOutcome boxY (PM.layoutKids c st kids index skipIdx bs pie s)
  | [] => by
    intro c st b cwc index skipIdx bs pie s boxY
    simp [embedList, layoutKids, PM.layoutKids, embedOutcome]
  | child :: rest => by
    intro c st b cwc index skipIdx bs pie s boxY
    simp only [embedList]
    unfold layoutKids PM.layoutKids
    by_cases hlt : index < skipIdx
    · simp only [hlt, if_true]
      exact layoutKids_embed rest c st b cwc (index + 1) skipIdx bs pie s boxY
    · simp only [hlt, if_false]
      split
      · rename_i hpos; simp at hpos
      · rename_i hpos; simp at hpos
      simp only [meetBreak_embed]
      by_cases hm : (PM.meetBreak s child).2 = true
      · simp [hm, embedOutcome, embedLoop, boxPageStart_embed]
      · simp only [hm, Bool.false_eq_true, if_false, preFlow_embed, pienc_embed, embedSt_toPStyle]
        have hr := layoutBox_embed child c index s.posY bs s.skip st.isRoot (pie && s.newChildren.isEmpty) s.cur
        simp only [show (embedLoop boxY s).posY = s.posY from rfl, show (embedLoop boxY s).skip = s.skip from rfl,
          show (embedLoop boxY s).cur = s.cur from rfl, show (embedLoop boxY s).w = World.empty from rfl,
          show (embedLoop boxY s).curIsL = s.curIsL from rfl, hr, firstPass_embed]
        generalize PM.layoutBox c child index s.posY bs s.skip st.isRoot (pie && s.newChildren.isEmpty) s.cur = r'
        have key : ∀ (X : PM.KidsLoop) (posY : Rat) (np : NextPage),
            ({ embedLoop boxY X with posY := posY, nextPage := np, skip := none, w := World.empty } : KidsLoop) =
              embedLoop boxY { X with posY := posY, nextPage := np, skip := none } := fun _ _ _ => rfl
        have key2 : ∀ (X : PM.KidsLoop) (posY : Rat) (np : NextPage),
            ({ embedLoop boxY X with posY := posY, nextPage := np, skip := none } : KidsLoop) =
              embedLoop boxY { X with posY := posY, nextPage := np, skip := none } := fun _ _ _ => rfl
        have hfrag : ∀ r : PM.LayoutResult, (embedResult r).frag = r.frag.map embedFrag := fun _ => rfl
        cases hfp : PM.firstPass c bs (pie && s.newChildren.isEmpty) s.posY r' with
        | keep frag posY =>
          simp only [embedFirstPass, show (embedResult r').w = World.empty from rfl,
            show (embedResult r').adjL = r'.adjL from rfl, show (embedResult r').adj = r'.adj from rfl,
            show (embedResult r').clearance = none from rfl, show (embedResult r').nextPage = r'.nextPage from rfl,
            show (embedResult r').resume = r'.resume from rfl,
            show (embedResult r').frag.isSome = r'.frag.isSome from by simp [embedResult],
            embedLoop_setCur, embedLoop_w, dropFrag_empty, clearancePosY_none, embedLoop_adoptAdj, key,
            concludeKid_embed]
          rcases hck : PM.concludeKid index pie (PM.meetBreak s child).1 child
            { (s.setCur r'.adjL s.curIsL).adoptAdj r'.frag.isSome r'.adj frag with
              posY := posY, nextPage := r'.nextPage, skip := none } frag r'.resume with ⟨_ | out, s3⟩
          · simp only [embedConclude, Option.map_none]
            exact layoutKids_embed rest c st b cwc (index + 1) skipIdx bs pie s3 boxY
          · simp only [embedConclude, Option.map_some]
        | redo bs' =>
          simp only [embedFirstPass, show (embedResult r').w = World.empty from rfl,
            show (embedResult r').adjL = r'.adjL from rfl, show (embedResult r').frag = r'.frag.map embedFrag from rfl,
            embedLoop_setCur, embedLoop_w, dropFrag_empty]
          have hr2 := layoutBox_embed child c index s.posY bs' s.skip st.isRoot (pie && s.newChildren.isEmpty)
            (s.setCur r'.adjL s.curIsL).cur
          simp only [show (embedLoop boxY (s.setCur r'.adjL s.curIsL)).cur = (s.setCur r'.adjL s.curIsL).cur from rfl,
            show (embedLoop boxY (s.setCur r'.adjL s.curIsL)).curIsL = (s.setCur r'.adjL s.curIsL).curIsL from rfl,
            show (embedLoop boxY s).posY = s.posY from rfl, hr2]
          generalize PM.layoutBox c child index s.posY bs' s.skip st.isRoot (pie && s.newChildren.isEmpty)
            (s.setCur r'.adjL s.curIsL).cur = r2
          rcases r2 with ⟨f2o, res2, np2, adj2, ct2, adjL2⟩
          have hadopt : ∀ (X : PM.KidsLoop) (f : Option Frag),
              (embedLoop boxY X).adoptAdj true adj2 (f.map embedFrag) = embedLoop boxY (X.adoptAdj true adj2 f) :=
            fun X f => embedLoop_adoptAdj boxY X true adj2 f
          cases f2o with
          | none =>
            have hadopt' := fun X => hadopt X none
            simp only [Option.map_none] at hadopt'
            simp only [embedResult, Option.map_none, embedLoop_setCur, embedLoop_w, clearancePosY_none, hadopt',
              key2, concludeKid_embed_none]
            rcases hck : PM.concludeKid index pie (PM.meetBreak s child).1 child
              { ((s.setCur r'.adjL s.curIsL).setCur adjL2 (s.setCur r'.adjL s.curIsL).curIsL).adoptAdj true adj2
                  none with posY := s.posY, nextPage := np2, skip := none } none res2 with ⟨_ | out, s3⟩
            · simp only [embedConclude, Option.map_none]
              exact layoutKids_embed rest c st b cwc (index + 1) skipIdx bs pie s3 boxY
            · simp only [embedConclude, Option.map_some]
          | some f2 =>
            have hadopt' := fun X => hadopt X (some f2)
            simp only [Option.map_some] at hadopt'
            simp only [embedResult, Option.map_some, embedLoop_setCur, embedLoop_w, clearancePosY_none, hadopt',
              key2, concludeKid_embed_some, embedFrag_geo]
            rcases hck : PM.concludeKid index pie (PM.meetBreak s child).1 child
              { ((s.setCur r'.adjL s.curIsL).setCur adjL2 (s.setCur r'.adjL s.curIsL).curIsL).adoptAdj true adj2
                  (some f2) with posY := f2.geo.borderBoxY + f2.geo.borderHeight, nextPage := np2, skip := none }
              (some f2) res2 with ⟨_ | out, s3⟩
            · simp only [embedConclude, Option.map_none]
              exact layoutKids_embed rest c st b cwc (index + 1) skipIdx bs pie s3 boxY
            · simp only [embedConclude, Option.map_some]
end

/-! ### pages -/

mutual
theorem substAbs_embed : (f : Frag) → substAbs [] (embedFrag f) = embedFrag f
  | .para _ _ _ _ _ _ => by simp [embedFrag, substAbs]
  | .block _ _ _ _ kids => by simp [embedFrag, substAbs, substAbsList_embed kids]
theorem substAbsList_embed : (fs : List Frag) → substAbsList [] (embedFragList fs) = embedFragList fs
  | [] => rfl
  | f :: fs => by simp [embedFragList, substAbsList, substAbs_embed f, substAbsList_embed fs]
end

theorem finishRoot_embed (h : Len) (f : Frag) : finishRoot h [] (substAbsList [] []) (embedFrag f) = embedFrag f := by
  cases f <;> simp [embedFrag, finishRoot, substAbsList]

theorem emptyRoot_embed (b : PBox) : emptyRoot (embed b) = embed (PM.emptyRoot b) := by
  cases b <;> simp [embed, emptyRoot, PM.emptyRoot, embedList]

theorem remakePage_embed (d : PM.Doc) (index : Nat) (resume : Option Resume) (np : NextPage) (right : Bool)
    (top : Rat) :
    remakePage (embedDoc d) index resume np right [] top =
      (PM.remakePage d index resume np right).map (fun p => embedPage (nextTop top p) p) := by
  unfold remakePage PM.remakePage
  simp only [embedDoc, List.foldl_nil, emptyRoot_embed]
  rw [show (if isBlank (requestedSide d.rootLtr np.brk) right = true then embed (PM.emptyRoot d.root)
      else embed d.root) = embed (if isBlank (requestedSide d.rootLtr np.brk) right = true then PM.emptyRoot d.root
      else d.root) from by split <;> rfl]
  rw [layoutBox_embed]
  generalize PM.layoutBox _ _ 0 0 0 resume false true [] = r
  rcases r with ⟨fo, res, npn, adj, ct, adjL⟩
  cases fo with
  | none => simp [embedResult]
  | some f =>
    simp only [embedResult, Option.map_some, World.empty, List.foldl_nil, substAbs_embed, finishRoot_embed,
      embedPage, nextTop, embedFrag_geo]
    rcases np with ⟨nb, npg⟩
    cases npg <;> split <;> simp_all

theorem makeAllPages_embed (d : PM.Doc) : ∀ (fuel index : Nat) (resume : Option Resume) (np : NextPage)
    (right : Bool) (top : Rat),
    makeAllPages (embedDoc d) fuel index resume np right [] top =
      (PM.makeAllPages d fuel index resume np right).map (embedPages top)
  | 0, _, _, _, _, _ => rfl
  | fuel + 1, index, resume, np, right, top => by
    unfold makeAllPages PM.makeAllPages
    rw [remakePage_embed]
    cases PM.remakePage d index resume np right with
    | none => rfl
    | some p =>
      simp only [Option.map_some, embedPage]
      cases hr : p.resume with
      | none => simp [embedPages, embedPage, hr]
      | some ρ =>
        simp only []
        rw [makeAllPages_embed d fuel (index + 1) (some ρ) p.nextPage (!right) (nextTop top p)]
        cases PM.makeAllPages d fuel (index + 1) (some ρ) p.nextPage (!right) with
        | none => rfl
        | some ps => simp [embedPages, embedPage, hr]

/-- **Embedding theorem.** On a stage-1 document (embedded: every box static, no `clear`) the extended
pagination computes exactly the embedding of the stage-1 pagination — same pages, same fragments, same
geometry, same resume positions, no out-of-flow state. -/
theorem paginate_embed (d : PM.Doc) (fuel : Nat) :
    paginate (embedDoc d) fuel = (PM.paginate d fuel).map (embedPages 0) := by
  unfold paginate PM.paginate
  have h1 : firstRight (embedDoc d) = PM.firstRight d := by
    simp only [firstRight, PM.firstRight, embedDoc, embed_st, embedSt_toPStyle]
    cases d.root.st.brkBefore <;> rfl
  have h2 : boxPageStart (embedDoc d).root = PM.boxPageStart d.root := boxPageStart_embed d.root
  rw [h1, h2]
  exact makeAllPages_embed d fuel 0 none _ _ 0

end Wp.PMO
